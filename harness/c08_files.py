"""C08, file-backed stores: process death (os._exit) at every file operation of a run, then the repairing run."""
import os
import shutil
import tempfile

import core


def _wrap(kind, tag, x):
    if kind == "json":
        return {tag: x}
    if kind == "text":
        return "%s(%s)\r\n" % (tag, x)
    if kind == "pickle":
        return (tag, x)
    return tag.encode() + b"\x00" + x


SRC = {"json": {"k": [1, 2]}, "text": "héllo\r", "pickle": (1, "two"), "binary": b"\x00\x01\xff"}
SRC2 = {"json": {"k": [3]}, "text": "second", "pickle": (2,), "binary": b"\x02"}


def run_files(ctx):
    overlapping_writes(ctx)
    long_paths(ctx)
    leftover_longer(ctx)
    uj = core.use_repo()
    import c11_common as cc
    from uberjob.stores import BinaryFileStore, JsonFileStore, PickleFileStore, TextFileStore
    cls = {"json": JsonFileStore, "text": TextFileStore, "pickle": PickleFileStore, "binary": BinaryFileStore}
    ctx.rng.choice(["json", "pickle"]), ctx.rng.choice(["text", "binary"])       # (keeps the PRNG stream of earlier versions)
    kinds = ["json", "text", "pickle", "binary"]
    for kind in kinds:
        for scenario in ("fresh", "after-update"):
            d = tempfile.mkdtemp(prefix="ujc08_")
            try:
                calls = []
                P = lambda n: os.path.join(d, n)
                src_store, a_store, c_store = cls[kind](P("src")), cls[kind](P("a")), cls[kind](P("c"))
                plan, reg = uj.Plan(), uj.Registry()
                src = reg.source(plan, src_store)
                a = plan.call(lambda x: (calls.append("a"), _wrap(kind, "a", x))[1], src)
                b = plan.call(lambda x: (calls.append("b"), _wrap(kind, "b", x))[1], a)
                c = plan.call(lambda x: (calls.append("c"), _wrap(kind, "c", x))[1], b)
                reg.add(a, a_store)
                reg.add(c, c_store)
                src_store.write(SRC[kind])
                if scenario == "after-update":
                    uj.run(plan, registry=reg, output=c, progress=None, max_workers=1)
                    import time
                    time.sleep(0.02)
                    src_store.write(SRC2[kind])
                cur = SRC2[kind] if scenario == "after-update" else SRC[kind]
                exp_a = _wrap(kind, "a", cur)
                exp_c = _wrap(kind, "c", _wrap(kind, "b", exp_a))
                base = tempfile.mkdtemp(prefix="ujc08b_")
                shutil.rmtree(base)
                shutil.copytree(d, base)

                def restore():
                    for f in os.listdir(d):
                        os.remove(P(f))
                    for f in os.listdir(base):
                        shutil.copy2(os.path.join(base, f), P(f))

                # number of file operations of the complete run
                with cc.Injector(0) as inj:
                    out0 = uj.run(plan, registry=reg, output=c, progress=None, max_workers=1)
                nops = inj.n
                ctx.case(("c08-files-complete", kind, scenario))
                if out0 != exp_c or a_store.read() != exp_a or c_store.read() != exp_c:
                    # (the source was rewritten 20 ms after the stores: later, usually within the same second)
                    ctx.fail("file:complete-run-wrong", "file stores (%s, %s): the uninterrupted run returns %r and leaves a=%r; from scratch: %r, a=%r"
                             % (kind, scenario, out0, a_store.read(), exp_c, exp_a), {"store": kind, "scenario": scenario, "file_ops": nops})
                ctx.count("file_ops_per_run", nops)
                for k in range(nops):
                    for how in (2, 3):
                        restore()
                        pid = os.fork()
                        if pid == 0:
                            try:
                                with cc.Injector(how, k):
                                    uj.run(plan, registry=reg, output=c, progress=None, max_workers=1)
                            except BaseException:
                                os._exit(1)
                            os._exit(0)
                        _, status = os.waitpid(pid, 0)
                        code = os.waitstatus_to_exitcode(status)
                        listing = sorted(os.listdir(d))

                        def rd(st):
                            try:
                                return st.read()
                            except BaseException as e:  # noqa
                                return ("unreadable", type(e).__name__)
                        complete_a = os.path.exists(P("a")) and rd(a_store) == exp_a
                        complete_c = complete_a and os.path.exists(P("c")) and rd(c_store) == exp_c
                        del calls[:]
                        rep = {"store": kind, "scenario": scenario, "killed_at_file_op": k, "of": nops,
                               "when": "before" if how == 2 else "after", "child_exit": code, "dir_after_kill": listing}
                        ctx.case(("c08-files", kind, scenario, k, how))
                        try:
                            out = uj.run(plan, registry=reg, output=c, progress=None, max_workers=1)
                        except BaseException as e:  # noqa
                            ctx.fail("file-kill:repair-run-fails", "after death at file operation %d the next run raises %s: %s" % (k, type(e).__name__, e), rep)
                            continue
                        if out != exp_c or rd(a_store) != exp_a or rd(c_store) != exp_c:
                            ctx.fail("file-kill:wrong-after-repair", "after death at file operation %d the next run returns %r / stores %r, %r; expected %r" % (k, out, rd(a_store), rd(c_store), exp_c), rep)
                        if complete_a and "a" in calls:
                            ctx.fail("file-kill:needless-rebuild", "value of 'a' was completely written before the kill but was rebuilt", dict(rep, calls=list(calls)))
                        if complete_c and calls:
                            ctx.fail("file-kill:needless-rebuild", "everything was completely written before the kill but the next run executed %r" % calls, dict(rep, calls=list(calls)))
                shutil.rmtree(base, ignore_errors=True)
            finally:
                shutil.rmtree(d, ignore_errors=True)


def overlapping_writes(ctx):
    """Two file stores whose paths differ only in the extension (str and pathlib), written by two workers at overlapping
    times (the rename of the first is delayed - timing only): whatever happens to the first run, the next run leaves the
    from-scratch values in both stores."""
    import pathlib
    import time
    uj = core.use_repo()
    import uberjob.stores._file_store as fsm
    from uberjob.stores import JsonFileStore, TextFileStore
    for pk in ("str", "pathlib"):
        d = tempfile.mkdtemp(prefix="ujc08o_")
        real_replace = fsm.os.replace
        try:
            mk = (lambda n: os.path.join(d, n)) if pk == "str" else (lambda n: pathlib.Path(d) / n)
            with open(os.path.join(d, "in.txt"), "w") as f:
                f.write("5")
            plan, reg = uj.Plan(), uj.Registry()
            src = plan.call(int, reg.source(plan, TextFileStore(mk("in.txt"))))
            x = plan.call(lambda v: {"x": v}, src)
            y = plan.call(lambda v: (time.sleep(0.05), "y=%d" % v)[1], src)
            sx, sy = JsonFileStore(mk("stats.json")), TextFileStore(mk("stats.txt"))
            reg.add(x, sx)
            reg.add(y, sy)

            class SlowReplace:
                def __getattr__(self, k):
                    return getattr(os, k)

                @staticmethod
                def replace(a, b):
                    # x stages first, y stages while x waits to rename, x renames, then y renames
                    time.sleep(0.25 if str(b).endswith("stats.json") else 0.5 if str(b).endswith("stats.txt") else 0)
                    return real_replace(a, b)
            fsm.os = SlowReplace()
            try:
                try:
                    uj.run(plan, registry=reg, output=[x, y], progress=None, max_workers=3)
                    first = "returned"
                except uj.CallError as e:
                    first = "cut: %r" % (e.__cause__,)
            finally:
                fsm.os = os
            ctx.case(("c08-overlap", pk))
            ctx.count("overlap_first_run", first.split(":")[0])
            try:
                out = uj.run(plan, registry=reg, output=[x, y], progress=None, max_workers=1)
                got = (out, sx.read(), sy.read())
            except BaseException as e:      # noqa
                got = ("raised", type(e).__name__, str(e)[:80])
            want = ([{"x": 5}, "y=5"], {"x": 5}, "y=5")
            if got != want:
                ctx.fail("file-overlap:not-repaired", "stores stats.json / stats.txt (%s paths) written at overlapping times: first run %s; after the next run: %r, "
                         "from scratch: %r" % (pk, first, got, want), {"path_kind": pk, "first_run": first, "listing": sorted(os.listdir(d))})
        finally:
            fsm.os = os
            shutil.rmtree(d, ignore_errors=True)


def long_paths(ctx):
    """Partitioned layouts: file stores with long paths that differ only in the middle.  After a run that was cut between the
    writes of two sibling stores, the next run rebuilds exactly the sibling that was not rewritten."""
    import time
    uj = core.use_repo()
    from uberjob.stores import JsonFileStore, TextFileStore
    d = tempfile.mkdtemp(prefix="ujc08l_")
    try:
        calls = []
        failing = set()

        def P(region, name):
            p = os.path.join(d, "warehouse-" + "x" * 40, "region=%s" % region, "dataset-" + "y" * 40, name)
            os.makedirs(os.path.dirname(p), exist_ok=True)
            return p
        plan, reg = uj.Plan(), uj.Registry()
        cleaned = {}
        for region in ("EU", "US"):
            with open(P(region, "in.txt"), "w") as f:
                f.write("1")
            src = plan.call(int, reg.source(plan, TextFileStore(P(region, "in.txt"))))

            def clean(v, region=region):
                calls.append(region)
                if region in failing:
                    raise IOError("cleaning %s fails" % region)
                return [v, v * 10]
            cleaned[region] = plan.call(clean, src)
            reg.add(cleaned[region], JsonFileStore(P(region, "cleaned.json")))
        summary = plan.call(lambda a, b: {"EU": sum(a), "US": sum(b)}, cleaned["EU"], cleaned["US"])
        reg.add(summary, JsonFileStore(os.path.join(d, "summary.json")))
        uj.run(plan, registry=reg, output=summary, progress=None, max_workers=1)
        time.sleep(0.02)
        for region, v in (("EU", 2), ("US", 3)):
            with open(P(region, "in.txt"), "w") as f:
                f.write(str(v))
        failing.add("US")
        try:
            uj.run(plan, registry=reg, output=summary, progress=None, max_workers=1, max_errors=None)
            cut = "returned"
        except uj.CallError:
            cut = "cut"
        failing.clear()
        del calls[:]
        out = uj.run(plan, registry=reg, output=summary, progress=None, max_workers=1)
        ctx.case(("c08-long-paths",))
        got = (out, JsonFileStore(P("US", "cleaned.json")).read(), JsonFileStore(P("EU", "cleaned.json")).read())
        want = ({"EU": 22, "US": 33}, [3, 30], [2, 20])
        if got != want or (cut == "cut" and sorted(calls) != ["US"]):
            ctx.fail("long-paths:repair", "sibling stores with long paths differing only in the middle: after a cut between their writes the next run executed "
                     "%r and gave %r; expected to rebuild exactly ['US'] and give %r" % (sorted(calls), got, want), {"cut_run": cut, "calls": sorted(calls)})
    finally:
        shutil.rmtree(d, ignore_errors=True)


def leftover_longer(ctx):
    """a writer died while staging a LONG value; the input then changes so that the repairing run writes a SHORT value: the store
    holds exactly the short value afterwards (the leftover staging file is overwritten from the start and truncated)"""
    uj = core.use_repo()
    from uberjob.stores import BinaryFileStore, JsonFileStore, PickleFileStore, TextFileStore
    for name, cls, long_v, short_v in (("text", TextFileStore, "long " * 4000, "s"), ("json", JsonFileStore, list(range(3000)), [1]),
                                       ("pickle", PickleFileStore, list(range(3000)), (1,)), ("binary", BinaryFileStore, b"L" * 20000, b"s")):
        d = tempfile.mkdtemp(prefix="ujc08s_")
        try:
            P = lambda n: os.path.join(d, n)
            box = {"v": long_v}
            plan, reg = uj.Plan(), uj.Registry()
            p_ = plan.call(lambda: box["v"])
            reg.add(p_, cls(P("p.dat")))
            c_ = plan.call(lambda v: ("derived", v), p_)
            reg.add(c_, PickleFileStore(P("c.pkl")))
            pid = os.fork()
            if pid == 0:
                # the child dies three quarters of the way through staging the long value
                import builtins
                import uberjob.stores._file_store as fsm

                class Dying:
                    def __init__(self, f):
                        self.f, self.n = f, 0

                    def write(self, data):
                        k = max(1, len(data) * 3 // 4)
                        self.f.write(data[:k])
                        self.f.flush()
                        os._exit(17)

                    def __enter__(self):
                        return self

                    def __exit__(self, *a):
                        return False

                    def __getattr__(self, k):
                        return getattr(self.f, k)
                fsm.open = lambda pth, *a, **k: Dying(builtins.open(pth, *a, **k)) if str(pth).endswith("p.dat.STAGING") else builtins.open(pth, *a, **k)
                try:
                    uj.run(plan, registry=reg, output=c_, progress=None, max_workers=1)
                finally:
                    os._exit(3)
            os.waitpid(pid, 0)
            left = sorted(os.listdir(d))
            box["v"] = short_v
            ctx.case(("c08-leftover-longer", name))
            try:
                out = uj.run(plan, registry=reg, output=c_, progress=None, max_workers=1)
                got = (out, cls(P("p.dat")).read())
            except BaseException as e:      # noqa
                got = ("raised %s" % type(e).__name__, str(e)[:100])
            if got != (("derived", short_v), short_v):
                ctx.fail("leftover-longer", "%s: a killed writer left %r; the next run (short value) returned / stored %r instead of %r"
                         % (cls.__name__, left, (repr(got[0])[:60], repr(got[1])[:60]), (("derived", short_v), short_v)), {"store": name, "left_by_killed_writer": left})
        finally:
            shutil.rmtree(d, ignore_errors=True)
