"""Translator tie for the progress bookkeeping (C15, C20): the methods of `State`, `_get_progress_string` and
`SimpleProgressObserver._do_render` in src/uberjob/progress/_simple_progress_observer.py are parsed with `ast` on every run and
compiled, statement by statement, into Gallina over the primitives of coq/gen/ProgPrims.v (one primitive per statement form:
a write through an alias of a ScopeState, `set.add/remove`, `+=` on a counter, a loop over the set of running scope states,
...) -> coq/gen/ProgressGen.v.  coq/gen/ProgressLink.v (hand-written, committed) proves that each generated function IS the
function of Obs/Progress.v / Obs/Render.v the C15/C20 theorems are about.  Fail-closed: a statement or expression form the
compiler does not know makes it refuse.

Trusted: this file; the reading of the statement forms given in ProgPrims.v (a `scope_state` variable is an alias of the
mapping entry; a Python set of ScopeState objects is the list of their keys; `for x in set` visits every member once);
`time.time()` is the clock reading the model takes as a parameter; Python int = Z, float arithmetic = exact Q (the model's
abstraction, see DESIGN §4.4); the three f-string templates of _get_progress_string are read as the fields of Render.pstr."""
import ast
import os
import subprocess

import core
from translate_stale import GEN, TranslationError, _expect, _src

FLD = {"completed": "FCompleted", "failed": "FFailed", "running": "FRunning", "total": "FTotal"}


def _cls(tree, name):
    for n in tree.body:
        if isinstance(n, ast.ClassDef) and n.name == name:
            return n
    raise TranslationError("class %s not found" % name)


def _method(cls, name):
    for n in cls.body:
        if isinstance(n, ast.FunctionDef) and n.name == name:
            return n
    raise TranslationError("method %s.%s not found" % (cls.name, name))


def _body(f):
    return [s for s in f.body if not (isinstance(s, ast.Expr) and isinstance(s.value, ast.Constant))]


def _int(e):
    if isinstance(e, ast.Constant) and isinstance(e.value, int) and not isinstance(e.value, bool) and abs(e.value) < 1000:
        return "(%d)" % e.value
    return None


class StateCompiler:
    """statements of a State method -> Gallina; `aliases` maps local names bound to mapping entries to the key term,
    `zvars` are integer locals/parameters, `qvars` clock-valued locals"""

    def __init__(self, mode):
        self.mode = mode            # "result" | "pure"
        self.aliases = {}
        self.zvars = set()
        self.qvars = set()

    # -- expressions -------------------------------------------------------------------------------------------------
    def zexpr(self, e, obj=None):
        if _int(e) is not None:
            return _int(e)
        if isinstance(e, ast.Name) and e.id in self.zvars:
            return e.id
        if isinstance(e, ast.Attribute) and isinstance(e.value, ast.Name):
            if e.value.id == "self" and e.attr == "running_count":
                return "(running_count st)"
            if e.value.id in self.aliases and e.attr in FLD:
                return "(fget %s (cur %s st))" % (FLD[e.attr], self.aliases[e.value.id])
            if obj is not None and e.value.id == obj and e.attr in FLD:
                return "(fget %s s)" % FLD[e.attr]
        if isinstance(e, ast.BinOp) and isinstance(e.op, (ast.Add, ast.Sub, ast.Mult)):
            op = {ast.Add: "+", ast.Sub: "-", ast.Mult: "*"}[type(e.op)]
            return "(%s %s %s)" % (self.zexpr(e.left, obj), op, self.zexpr(e.right, obj))
        if isinstance(e, ast.UnaryOp) and isinstance(e.op, ast.USub):
            return "(- %s)" % self.zexpr(e.operand, obj)
        raise TranslationError("not an integer expression the compiler knows: `%s`" % _src(e))

    def is_z(self, e, obj=None):
        try:
            self.zexpr(e, obj)
            return True
        except TranslationError:
            return False

    def qexpr(self, e, obj=None):
        if isinstance(e, ast.Name) and e.id in self.qvars:
            return e.id
        if isinstance(e, ast.Attribute) and isinstance(e.value, ast.Name) and e.value.id == "self" and e.attr == "_prev_time":
            return "(prev_time st)"
        if isinstance(e, ast.BinOp) and isinstance(e.op, (ast.Add, ast.Sub, ast.Mult, ast.Div)) and not self.is_z(e, obj):
            op = {ast.Add: "+", ast.Sub: "-", ast.Mult: "*", ast.Div: "/"}[type(e.op)]
            return "(%s %s %s)%%Q" % (self.qexpr(e.left, obj), op, self.qexpr(e.right, obj))
        if self.is_z(e, obj):
            return "(inject_Z %s)" % self.zexpr(e, obj)
        raise TranslationError("not a clock/number expression the compiler knows: `%s`" % _src(e))

    def test(self, e):
        if isinstance(e, ast.UnaryOp) and isinstance(e.op, ast.Not):
            return "(negb %s)" % self.test(e.operand)
        if isinstance(e, ast.BoolOp):
            op = "&&" if isinstance(e.op, ast.And) else "||"
            return "(" + (" %s " % op).join(self.test(v) for v in e.values) + ")"
        if isinstance(e, ast.Compare) and len(e.ops) == 1 and self.is_z(e.left) and self.is_z(e.comparators[0]):
            a, b = self.zexpr(e.left), self.zexpr(e.comparators[0])
            t = {ast.Lt: "(%s <? %s)", ast.LtE: "(%s <=? %s)", ast.Eq: "(%s =? %s)", ast.Gt: "(%s <? %s)", ast.GtE: "(%s <=? %s)",
                 ast.NotEq: "(negb (%s =? %s))"}.get(type(e.ops[0]))
            _expect(t is not None, "comparison operator", e)
            if isinstance(e.ops[0], (ast.Gt, ast.GtE)):
                a, b = b, a
            return t % (a, b)
        if self.is_z(e):        # truthiness of an int
            return "(negb (%s =? 0))" % self.zexpr(e)
        raise TranslationError("not a condition the compiler knows: `%s`" % _src(e))

    # -- statements --------------------------------------------------------------------------------------------------
    def ret(self):
        return "Ok st" if self.mode == "result" else "st"

    def seq(self, stmts):
        if not stmts:
            return self.ret()
        s, rest = stmts[0], stmts[1:]
        src = _src(s)
        # self.update_weighted_elapsed()
        if src == "self.update_weighted_elapsed()":
            return "let st := gen_update_weighted_elapsed t st in\n  " + self.seq(rest)
        # t = time.time()
        if src == "t = time.time()":
            _expect("t" not in self.qvars, "the clock is read once per method", s)
            self.qvars.add("t")
            return self.seq(rest)
        # alias = self.section_scope_mapping[section][scope]
        if isinstance(s, ast.Assign) and len(s.targets) == 1 and isinstance(s.targets[0], ast.Name) and _src(s.value) == "self.section_scope_mapping[section][scope]":
            _expect(self.mode == "result", "a mapping lookup (KeyError) in a method translated as total", s)
            self.aliases[s.targets[0].id] = "k"
            return "match st_get k st with\n  | None => Err KeyError\n  | Some _ =>\n  %s\n  end" % self.seq(rest)
        # self._running_scope_states.add(alias) / .remove(alias)
        if isinstance(s, ast.Expr) and isinstance(s.value, ast.Call) and isinstance(s.value.func, ast.Attribute) and _src(s.value.func.value) == "self._running_scope_states" \
                and s.value.func.attr in ("add", "remove", "discard") and len(s.value.args) == 1 and not s.value.keywords \
                and isinstance(s.value.args[0], ast.Name) and s.value.args[0].id in self.aliases:
            k = self.aliases[s.value.args[0].id]
            if s.value.func.attr == "add":
                return "let st := st_set_add %s st in\n  %s" % (k, self.seq(rest))
            _expect(s.value.func.attr == "remove" and self.mode == "result", "set.remove in a method translated as total / set.discard", s)
            return "bind (st_set_remove %s st) (fun st =>\n  %s)" % (k, self.seq(rest))
        # the one-liner of increment_total
        if isinstance(s, ast.AugAssign) and _src(s.target) == "self.section_scope_mapping.setdefault(section, {}).setdefault(scope, ScopeState()).total":
            d = self.zexpr(s.value)
            _expect(isinstance(s.op, (ast.Add, ast.Sub)), "augmented assignment operator", s)
            if isinstance(s.op, ast.Sub):
                d = "(- %s)" % d
            return "let st := st_setdefault k st in\n  let st := st_upd k (fadd FTotal %s) st in\n  %s" % (d, self.seq(rest))
        # alias.fld += e / self.running_count += e
        if isinstance(s, ast.AugAssign) and isinstance(s.op, (ast.Add, ast.Sub)) and isinstance(s.target, ast.Attribute) and isinstance(s.target.value, ast.Name):
            d = self.zexpr(s.value)
            if isinstance(s.op, ast.Sub):
                d = "(- %s)" % d
            if s.target.value.id in self.aliases and s.target.attr in FLD:
                return "let st := st_upd %s (fadd %s %s) st in\n  %s" % (self.aliases[s.target.value.id], FLD[s.target.attr], d, self.seq(rest))
            if s.target.value.id == "self" and s.target.attr == "running_count":
                return "let st := st_rc_add %s st in\n  %s" % (d, self.seq(rest))
        # self._prev_time = q
        if isinstance(s, ast.Assign) and len(s.targets) == 1 and _src(s.targets[0]) == "self._prev_time":
            return "let st := st_set_prev %s st in\n  %s" % (self.qexpr(s.value), self.seq(rest))
        # local = clock expression
        if isinstance(s, ast.Assign) and len(s.targets) == 1 and isinstance(s.targets[0], ast.Name) and s.targets[0].id not in self.aliases \
                and s.targets[0].id not in ("st", "k", "s", "t") and s.targets[0].id.isidentifier():
            q = self.qexpr(s.value)
            self.qvars.add(s.targets[0].id)
            return "let %s := %s in\n  %s" % (s.targets[0].id, q, self.seq(rest))
        # for obj in self._running_scope_states: obj.weighted_elapsed += q
        if isinstance(s, ast.For) and isinstance(s.target, ast.Name) and _src(s.iter) == "self._running_scope_states" and not s.orelse and len(s.body) == 1:
            b, obj = s.body[0], s.target.id
            _expect(isinstance(b, ast.AugAssign) and isinstance(b.op, ast.Add) and _src(b.target) == obj + ".weighted_elapsed", "loop body", b)
            return "let st := st_foreach_running (fun s => eadd %s s) st in\n  %s" % (self.qexpr(b.value, obj), self.seq(rest))
        # if test: body   (no else)
        if isinstance(s, ast.If) and not s.orelse:
            t = self.test(s.test)
            saved = (dict(self.aliases), set(self.qvars))
            body = self.seq(list(s.body))
            self.aliases, self.qvars = saved          # names bound inside the branch are not visible after it
            if self.mode == "result":
                return "bind (if %s then (%s) else Ok st) (fun st =>\n  %s)" % (t, body, self.seq(rest))
            return "let st := (if %s then (%s) else st) in\n  %s" % (t, body, self.seq(rest))
        raise TranslationError("statement form the compiler does not know: `%s`" % src.split("\n")[0])


def _params(f, names):
    got = [a.arg for a in f.args.args]
    _expect(got == names and not f.args.kwonlyargs and not f.args.vararg and not f.args.kwarg, "parameters of %s are %r" % (f.name, got))


def gen_state(tree):
    st = _cls(tree, "State")
    out = []
    f = _method(st, "update_weighted_elapsed")
    _params(f, ["self"])
    c = StateCompiler("pure")
    body = c.seq(_body(f))
    _expect("t" in c.qvars, "update_weighted_elapsed reads the clock")
    out.append("Definition gen_update_weighted_elapsed (t : Q) (st : State) : State :=\n  %s." % body)
    f = _method(st, "increment_total")
    _params(f, ["self", "section", "scope", "amount"])
    c = StateCompiler("pure")
    c.zvars.add("amount")
    out.append("Definition gen_increment_total (k : key) (amount : Z) (st : State) : State :=\n  %s." % c.seq(_body(f)))
    for name in ("increment_running", "increment_completed", "increment_failed"):
        f = _method(st, name)
        _params(f, ["self", "section", "scope"])
        c = StateCompiler("result")
        body = c.seq(_body(f))
        _expect(body.count("gen_update_weighted_elapsed") == 1, "%s reads the clock exactly once (through update_weighted_elapsed)" % name)
        out.append("Definition gen_%s (k : key) (t : Q) (st : State) : result State :=\n  %s." % (name, body))
    return out


def gen_progress_string(tree):
    f = None
    for n in tree.body:
        if isinstance(n, ast.FunctionDef) and n.name == "_get_progress_string":
            f = n
    _expect(f is not None, "_get_progress_string not found")
    _expect([a.arg for a in f.args.kwonlyargs] == ["completed", "failed", "running", "total"] and not f.args.args, "keyword-only parameters of _get_progress_string")
    c = StateCompiler("pure")
    c.zvars |= {"completed", "failed", "running", "total"}
    bools = {}

    def btest(e):
        if isinstance(e, ast.Name) and e.id in bools:
            return e.id
        if isinstance(e, ast.UnaryOp) and isinstance(e.op, ast.Not):
            return "(negb %s)" % btest(e.operand)
        if isinstance(e, ast.BoolOp):
            return "(" + (" && " if isinstance(e.op, ast.And) else " || ").join(btest(v) for v in e.values) + ")"
        return c.test(e)

    def fstring(e):
        _expect(isinstance(e, ast.JoinedStr), "f-string", e)
        parts = []
        for v in e.values:
            if isinstance(v, ast.Constant):
                parts.append(v.value)
            else:
                _expect(isinstance(v, ast.FormattedValue) and v.conversion == -1 and v.format_spec is None and isinstance(v.value, ast.Name), "f-string field", e)
                parts.append(("v", v.value.id))
        shape = "".join(p if isinstance(p, str) else "{}" for p in parts)
        vs = [p[1] for p in parts if not isinstance(p, str)]
        return shape, vs

    def pstr_of(e, cur):
        shape, vs = fstring(e)
        if shape == "{} / {}":
            _expect(all(v in c.zvars for v in vs), "fields of the f-string", e)
            return "{| ps_paren := false; ps_c := %s; ps_r := 0; ps_t := %s; ps_f := 0 |}" % tuple(vs)
        if shape == "({} + {}) / {}":
            _expect(all(v in c.zvars for v in vs), "fields of the f-string", e)
            return "{| ps_paren := true; ps_c := %s; ps_r := %s; ps_t := %s; ps_f := 0 |}" % tuple(vs)
        if shape == "{}, {} failed":
            _expect(cur is not None and vs[0] == cur and vs[1] in c.zvars, "suffix f-string", e)
            return "{| ps_paren := ps_paren %s; ps_c := ps_c %s; ps_r := ps_r %s; ps_t := ps_t %s; ps_f := %s |}" % (cur, cur, cur, cur, vs[1])
        raise TranslationError("f-string template the compiler does not know: %r" % shape)

    def seq(stmts, pvar):
        if not stmts:
            raise TranslationError("_get_progress_string: no return")
        s, rest = stmts[0], stmts[1:]
        if isinstance(s, ast.Return):
            _expect(isinstance(s.value, ast.Name) and s.value.id == pvar and not rest, "return", s)
            return pvar
        if isinstance(s, ast.Assign) and len(s.targets) == 1 and isinstance(s.targets[0], ast.Name):
            nm = s.targets[0].id
            if isinstance(s.value, ast.JoinedStr):
                return "let %s := %s in\n  %s" % (nm, pstr_of(s.value, pvar), seq(rest, nm))
            _expect(nm not in c.zvars and nm.isidentifier(), "boolean local", s)
            t = btest(s.value)
            bools[nm] = True
            return "let %s := %s in\n  %s" % (nm, t, seq(rest, pvar))
        if isinstance(s, ast.If):
            t = btest(s.test)

            def branch(b):
                _expect(len(b) == 1 and isinstance(b[0], ast.Assign) and len(b[0].targets) == 1 and isinstance(b[0].targets[0], ast.Name)
                        and isinstance(b[0].value, ast.JoinedStr), "branch assigns one f-string", s)
                return b[0].targets[0].id, pstr_of(b[0].value, pvar)
            n1, p1 = branch(s.body)
            if s.orelse:
                n2, p2 = branch(s.orelse)
                _expect(n1 == n2, "both branches assign the same name", s)
            else:
                _expect(pvar == n1, "an if without else updates the current string", s)
                p2 = pvar
            return "let %s := (if %s then %s else %s) in\n  %s" % (n1, t, p1, p2, seq(rest, n1))
        raise TranslationError("_get_progress_string: statement form the compiler does not know: `%s`" % _src(s).split("\n")[0])
    return ["Definition gen_progress_string (completed failed running total : Z) : pstr :=\n  %s." % seq(_body(f), None)]


def gen_do_render(tree):
    f = _method(_cls(tree, "SimpleProgressObserver"), "_do_render")
    _params(f, ["self"])
    b = _body(f)
    _expect(len(b) == 3 and _src(b[0]) == "t = time.time()" and isinstance(b[1], ast.If) and not b[1].orelse and _src(b[2]) == "return None", "_do_render: t = time.time(); if ...: ...; return None")

    def q(e):
        if isinstance(e, ast.Name) and e.id == "t":
            return "t"
        if _src(e) == "self._max_update_interval":
            return "max_interval"
        if _src(e) == "self._start_time":
            return "(o_start o)"
        if isinstance(e, ast.BinOp) and isinstance(e.op, (ast.Add, ast.Sub)):
            return "(%s %s %s)%%Q" % (q(e.left), "+" if isinstance(e.op, ast.Add) else "-", q(e.right))
        if _src(e) == "self._last_render_time":
            return "last"          # only legal under the `is None` guard, see cond()
        raise TranslationError("_do_render: not a clock expression: `%s`" % _src(e))

    def uses_last(e):
        return any(_src(n) == "self._last_render_time" for n in ast.walk(e))

    def atom(e, guarded):
        if _src(e) == "self._stale":
            return "(o_stale o)"
        if isinstance(e, ast.UnaryOp) and isinstance(e.op, ast.Not):
            return "(negb %s)" % atom(e.operand, guarded)
        if isinstance(e, ast.Compare) and len(e.ops) == 1 and not isinstance(e.ops[0], (ast.Is, ast.IsNot)):
            _expect(guarded or not uses_last(e), "_last_render_time is used in arithmetic only after the `is None` test of the same `or`", e)
            fn = {ast.GtE: "Qge_bool", ast.Gt: "Qgt_bool", ast.LtE: "Qle_bool", ast.Lt: "Qlt_bool"}.get(type(e.ops[0]))
            _expect(fn is not None, "comparison operator", e)
            return "(%s %s %s)" % (fn, q(e.left), q(e.comparators[0]))
        raise TranslationError("_do_render: not a condition the compiler knows: `%s`" % _src(e))

    def cond(e):
        # `A or ... or (self._last_render_time is None) or REST...`: REST is evaluated only when the time is not None
        vals = e.values if isinstance(e, ast.BoolOp) and isinstance(e.op, ast.Or) else [e]
        for i, v in enumerate(vals):
            if _src(v) == "self._last_render_time is None":
                before = [atom(x, False) for x in vals[:i]]
                after = [atom(x, True) for x in vals[i + 1:]]
                m = "match o_last o with None => true | Some last => %s end" % (" || ".join(after) if after else "false")
                return " || ".join(before + [m])
        return " || ".join(atom(x, False) for x in vals)
    test = cond(b[1].test)
    body = b[1].body
    lines, out_var, rendered = [], None, False
    for s in body[:-1]:
        src = _src(s)
        if src == "self._stale = False":
            lines.append("let o := o_set_stale false o in")
        elif src == "self._stale = True":
            lines.append("let o := o_set_stale true o in")
        elif src == "self._last_render_time = t":
            lines.append("let o := o_set_last (Some t) o in")
        elif src == "self._state.update_weighted_elapsed()":
            _expect(not any("gen_update_weighted_elapsed" in ln for ln in lines), "_do_render updates the elapsed times once", s)
            lines.append("let o := o_set_state (gen_update_weighted_elapsed t2 (o_state o)) o in")
        elif isinstance(s, ast.Assign) and len(s.targets) == 1 and isinstance(s.targets[0], ast.Name) and isinstance(s.value, ast.Call) and _src(s.value.func) == "self._render":
            _expect(not rendered and not s.value.keywords and [_src(a) for a in s.value.args] ==
                    ["self._state.section_scope_mapping", "self._new_exception_index", "self._exception_tuples", "t - self._start_time"], "arguments of self._render", s)
            rendered, out_var = True, s.targets[0].id
            lines.append("bind (rf (mapping (o_state o)) (o_skipped o)) (fun r => let %s := fst r in let o := o_set_skipped (snd r) o in" % out_var)
        elif src == "self._new_exception_index = len(self._exception_tuples)":
            lines.append("let o := o_set_newidx (o_nexc o) o in")
        else:
            raise TranslationError("_do_render: statement form the compiler does not know: `%s`" % src.split("\n")[0])
    _expect(rendered and isinstance(body[-1], ast.Return) and isinstance(body[-1].value, ast.Name) and body[-1].value.id == out_var, "_do_render returns the rendered value", body[-1])
    return ["Section Render.\n  Variable Out : Type.\n  Variable rf : list (key * sstate) -> list nat -> result (Out * list nat).\n  Variable max_interval : Q.\n\n"
            "  Definition gen_do_render (o : obs) (t t2 : Q) : result (obs * option Out) :=\n    if %s then\n      %s\n      Ok (o, Some %s))\n    else Ok (o, None).\nEnd Render."
            % (test, "\n      ".join(lines), out_var)]


def translate(path):
    tree = ast.parse(open(path).read())
    defs = gen_state(tree) + gen_progress_string(tree) + gen_do_render(tree)
    return ("(* GENERATED by harness/translate_progress.py from %s - do not edit *)\n"
            "From Coq Require Import List Arith ZArith QArith Bool.\nImport ListNotations.\n"
            "From UJ Require Import Obs.Progress Obs.Render.\nFrom UJGen Require Import ProgPrims.\nLocal Open Scope Z_scope.\n\n%s\n"
            % (os.path.relpath(path, core.REPO), "\n\n".join(defs)))


THEOREMS = ["generated_update_weighted_elapsed_is_model", "generated_increment_total_is_model", "generated_increment_running_is_model",
            "generated_increment_completed_is_model", "generated_increment_failed_is_model", "generated_progress_string_is_model",
            "generated_do_render_is_model"]


def check(ctx):
    src = os.path.join(core.REPO_SRC, "uberjob", "progress", "_simple_progress_observer.py")
    ctx.notes["translator_progress"] = ("harness/translate_progress.py: State.*, _get_progress_string, SimpleProgressObserver._do_render -> "
                                        "coq/gen/ProgressGen.v over coq/gen/ProgPrims.v, link theorems coq/gen/ProgressLink.v")
    try:
        text = translate(src)
    except (TranslationError, SyntaxError, OSError) as e:
        ctx.broke("translator: the progress bookkeeping in _simple_progress_observer.py no longer has a shape the translator reads (fail-closed)", str(e))
        return
    scratch = True           # always compile in a directory private to this process (core.gen_dir): parallel checks must not share one
    gen_dir = core.gen_dir()
    if scratch:
        import shutil
        for f in ("ProgPrims.v", "ProgressLink.v"):
            shutil.copy(os.path.join(GEN, f), gen_dir)
    with open(os.path.join(gen_dir, "ProgressGen.v"), "w") as f:
        f.write(text)
    ctx.compared("translator: _simple_progress_observer.py State/_get_progress_string/_do_render -> Gallina, linked to Obs/Progress.v and Obs/Render.v by theorems")
    flags = ["-Q", os.path.join(core.COQ, "theories"), core.LOGICAL, "-Q", gen_dir, "UJGen", "-w", "none"]
    for f in ("ProgPrims.v", "ProgressGen.v", "ProgressLink.v"):
        p = subprocess.run(["timeout", "300", "coqc"] + flags + [os.path.join(gen_dir, f)], cwd=core.COQ, stdout=subprocess.PIPE, stderr=subprocess.STDOUT, text=True)
        if p.returncode != 0:
            break
    ok = p.returncode == 0 and (p.stdout or "").count("Closed under the global context") == len(THEOREMS)
    ctx.notes["translator_progress_link_theorems"] = "UJGen.ProgressLink.{%s}: %s" % (", ".join(THEOREMS), "proved, closed" if ok else "NOT proved")
    if not ok:
        # the observer campaigns of the same check (random notification histories against Exec_Progress) exhibit the concrete history
        ctx.broke("translator link theorems UJGen.ProgressLink no longer check: the bookkeeping of State / _get_progress_string / _do_render differs "
                  "from Obs/Progress.v / Obs/Render.v", (p.stdout or "")[-1500:])
