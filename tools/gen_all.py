#!/usr/bin/env python3
"""tools/gen_all.py <dir> : regenerate every *Gen.v from /repo's source into <dir>, copy the committed link files there and compile
everything (used by tools/coqchk.sh; the checks do the same per translator in a directory private to each process)."""
import os
import shutil
import subprocess
import sys

sys.path.insert(0, "/verif/harness")
import core  # noqa
import translate_avs, translate_engine, translate_nxutil, translate_physical, translate_progress, translate_prune  # noqa
import translate_mtime, translate_retry, translate_run, translate_scheduler, translate_staged, translate_stale, translate_time, translate_traceback  # noqa

out = sys.argv[1]
os.makedirs(out, exist_ok=True)
src = os.path.join(core.REPO_SRC, "uberjob")
gens = {
    "StaleGen.v": translate_stale.translate(os.path.join(src, "_transformations", "caching.py")),
    "PruneGen.v": translate_prune.translate(os.path.join(src, "_transformations", "pruning.py")),
    "RetryGen.v": translate_retry.translate(os.path.join(src, "_util", "retry.py")),
    "AvsGen.v": translate_avs.translate(os.path.join(src, "_transformations", "caching.py")),
    "PhysicalGen.v": translate_physical.translate(os.path.join(src, "_transformations", "caching.py")),
    "ProgressGen.v": translate_progress.translate(os.path.join(src, "progress", "_simple_progress_observer.py")),
    "TracebackGen.v": translate_traceback.translate(os.path.join(src, "_util", "traceback.py")),
    "TopoGen.v": translate_nxutil.translate(os.path.join(src, "_util", "networkx_util.py")),
    "EngineGen.v": translate_engine.translate(os.path.join(src, "_execution", "run_function_on_graph.py"), os.path.join(src, "_errors.py")),
    "QueuesGen.v": translate_scheduler.translate(os.path.join(src, "_execution", "scheduler.py")),
    "StagedGen.v": translate_staged.translate(os.path.join(src, "stores", "_file_store.py")),
    "MtimeGen.v": translate_mtime.translate(os.path.join(src, "stores", "_file_store.py"), os.path.join(src, "stores", "_path_source.py")),
    "TimeGen.v": translate_time.translate(os.path.join(src, "_transformations", "caching.py")),
    "RunGen.v": translate_run.translate(os.path.join(src, "_run.py"), os.path.join(src, "_transformations", "caching.py"), os.path.join(src, "_execution", "run_physical.py")),
}
gen_src = os.path.join(core.COQ, "gen")
for f in os.listdir(gen_src):
    if f.endswith(".v"):
        shutil.copy(os.path.join(gen_src, f), out)
for name, text in gens.items():
    open(os.path.join(out, name), "w").write(text)
order = ["ProgPrims", "StaleGen", "StaleLink", "PruneGen", "PruneLink", "RetryGen", "RetryLink", "AvsGen", "AvsLink", "PhysicalGen", "PhysicalLink", "ProgressGen",
         "ProgressLink", "TracebackGen", "TracebackLink", "TopoGen", "TopoLink", "EngineGen", "EngineLink", "QueuesGen", "QueuesLink", "StagedGen", "StagedLink", "MtimeGen", "MtimeLink", "TimeGen", "TimeLink", "RunGen", "RunLink"]
closed = 0
for m in order:
    p = subprocess.run(["timeout", "600", "coqc", "-Q", os.path.join(core.COQ, "theories"), core.LOGICAL, "-Q", out, "UJGen", "-w", "none", os.path.join(out, m + ".v")],
                       cwd=core.COQ, stdout=subprocess.PIPE, stderr=subprocess.STDOUT, text=True)
    if p.returncode != 0:
        print("FAILED", m, p.stdout[-800:])
        sys.exit(1)
    closed += p.stdout.count("Closed under the global context")
print("compiled %d modules into %s; %d theorems printed 'Closed under the global context'" % (len(order), out, closed))
