#!/bin/bash
# tools/coqchk.sh : re-check every compiled Props module and everything it depends on with Coq's independent checker; prints the axiom summary
cd /verif/coq && timeout 3000 coqchk -silent -o -Q theories UJ $(ls theories/Props/*.v | sed 's|theories/|UJ.|; s|/|.|g; s|\.v$||')
