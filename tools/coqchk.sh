#!/bin/bash
# tools/coqchk.sh : re-check every compiled Props module, every link module of coq/gen (compiled by the checks that use them) and everything
# they depend on with Coq's independent checker; prints the axiom summary
cd /verif/coq && timeout 3000 coqchk -silent -o -Q theories UJ -Q gen UJGen \
  $(ls theories/Props/*.v | sed 's|theories/|UJ.|; s|/|.|g; s|\.v$||') \
  $(ls gen/*Link.vo 2>/dev/null | sed 's|gen/|UJGen.|; s|\.vo$||')
