#!/bin/bash
# tools/coqchk.sh : re-check every compiled Props module, every link module of coq/gen (regenerated from /repo and compiled into build/coqchk-gen
# first) and everything they depend on with Coq's independent checker; prints the axiom summary
G=/verif/build/coqchk-gen; rm -rf $G; PYTHONPATH=/verif/harness python3 /verif/tools/gen_all.py $G || exit 1
cd /verif/coq && timeout 3000 coqchk -silent -o -Q theories UJ -Q $G UJGen \
  $(ls theories/Props/*.v | sed 's|theories/|UJ.|; s|/|.|g; s|\.v$||') \
  $(ls $G/*Link.vo | sed "s|$G/|UJGen.|; s|\.vo$||")
rm -rf $G
