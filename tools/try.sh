#!/bin/bash
# tools/try.sh <patch.diff> <prop> [check args...] : run one check against a scratch copy of /repo/src with the patch applied
P=$(readlink -f "$1"); PROP=$2; shift 2
D=$(mktemp -d /tmp/ujtry.XXXXXX); cp -r /repo/src $D/src
(cd $D && patch -p1 -s < "$P") || { rm -rf $D; exit 9; }
cd /verif && VERIF_REPO=$D timeout 3000 ./check $PROP --no-build "$@" 2>&1 | grep -a "VIOLATION\|KNOWN-FINDING\|tier=" | tail -6
rm -rf $D
