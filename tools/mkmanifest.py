#!/usr/bin/env python3
"""Regenerates MANIFEST.json from tools/claims/Cxx.json (one file per claimed property) + properties.jsonl."""
import json, os
R = os.path.dirname(os.path.dirname(os.path.abspath(__file__)))
claims = {}
cd = os.path.join(R, "tools", "claims")
for f in sorted(os.listdir(cd)):
    if f.endswith(".json"):
        claims[f[:-5]] = json.load(open(os.path.join(cd, f)))
props = [json.loads(l) for l in open(os.path.join(R, "properties.jsonl"))]
checks, na = [], []
for p in props:
    c = claims.get(p["id"])
    if not c or c.get("not_applicable"):
        na.append({"property_id": p["id"], "reason": (c or {}).get("not_applicable", "check not built yet in this session (planned: see DESIGN.md section 5)")})
        continue
    checks.append({
        "property_id": p["id"],
        "quick_cmd": "./check %s --tier quick" % p["id"],
        "thorough_cmd": "./check %s --tier thorough" % p["id"],
        "evidence_file": "/verif/evidence/%s.json" % p["id"],
        "replay_cmd_template": "./check %s --replay {path}" % p["id"],
        "engine": "coq-proof+correspondence",
        "level_claimed": {"category": "proof", "text": c["text"], "design_ref": c.get("design_ref", "DESIGN.md section 5")},
        "level_note": c["note"],
        "technique": c.get("technique", "Coq 8.16 theorems over a hand-written Gallina model; model tied to /repo by a differential correspondence check (vm_compute of the model vs the implementation on generated cases) plus model-free monitors on the implementation"),
    })
m = {
    "version": 1,
    "setup_cmd": "./setup.sh",
    "hooks": {"guard": "UBERJOB_VERIF", "enable": "no source hooks: the harness instruments /repo from outside (monkeypatching, sys.setprofile/settrace) with PYTHONPATH=/repo/src",
              "baseline_off_cmd": "cd /repo && PYTHONPATH=/repo/src /venv/bin/python -m pytest -ra -q -p no:cacheprovider --timeout=900 --continue-on-collection-errors",
              "source_commits": [], "add_only": True},
    "engines": [{"name": "coq-proof+correspondence", "path": "/verif/check", "serves_properties": [c["property_id"] for c in checks],
                 "kind_free_text": "Coq development under coq/theories (Props/Cxx.v holds the property theorems) + coq/gen (link theorems between the models and Gallina text regenerated from /repo's source on every run by the fail-closed translators harness/translate_*.py) + Python correspondence harness under harness/"}],
    "checks": checks,
    "not_applicable": na,
    "notes": "Genuine defects repaired in /repo by 'fix:' commits are listed in known_findings.json (status fixed); F6 (C17, interrupt while the worker pool starts) is the one recorded known finding. DESIGN.md section 2.1b lists the fourteen translator ties and their 36 link theorems, section 3 the trusted base, section 7 the 408 seeded changes and which checks catch them.",
}
json.dump(m, open(os.path.join(R, "MANIFEST.json"), "w"), indent=1)
print("claimed:", [c["property_id"] for c in checks])
