#!/usr/bin/env python3
"""tools/keepall.py <seedbatch-log>...: file every tested mutant of seeded/_incoming under seeded/<ID>-m<k>/ with meta.json"""
import json, os, re, shutil, sys
R = "/verif/seeded"
for log in sys.argv[1:]:
    text = open(log).read()
    blocks = re.split(r"^######## ", text, flags=re.M)[1:]
    for b in blocks:
        head, *rest = b.split("\n")
        ident, mk = head.split()
        k = mk[-1]
        inc = os.path.join(R, "_incoming", ident)
        if not os.path.exists(os.path.join(inc, "mut%s.diff" % k)):
            continue
        body = "\n".join(rest)
        suite = re.search(r"(\d+) passed", body)
        exits = re.findall(r"exit=(\d+)", body)
        checks = re.findall(r"^== check (C\d+).*?\n((?:(?!C\d+ tier=)(?!== )(?!######## ).*\n)*)(C\d+ tier=.*)$", body, flags=re.M)
        concrete = [c for c, v, s in checks if re.search(r"replay=\S+-\d+\.json", v)]
        broken = [c for c, v, s in checks if "no-failing-input-found" in v and c not in concrete]
        detected = "yes" if concrete else ("broken-only" if broken else "no")
        confirmed = bool(suite and suite.group(1) == "81" and len(exits) >= 2 and exits[0] != "0" and exits[1] == "0")
        d = os.path.join(R, "%s-m%s" % (ident, k))
        os.makedirs(d, exist_ok=True)
        shutil.copy(os.path.join(inc, "mut%s.diff" % k), os.path.join(d, "patch.diff"))
        shutil.copy(os.path.join(inc, "demo%s.py" % k), os.path.join(d, "demo.py"))
        note = open(os.path.join(inc, "note%s.txt" % k)).read() if os.path.exists(os.path.join(inc, "note%s.txt" % k)) else ""
        meta = {"breaks_property": ident.split("_")[-1], "needs_to_manifest": note.strip()[:2500],
                "confirmed": ("scratch copy of /repo with the patch: existing suite %s passed (PYTHONPATH=<copy>/src); demo.py exit %s with the change, exit %s on /repo"
                              % (suite.group(1) if suite else "?", exits[0] if exits else "?", exits[1] if len(exits) > 1 else "?")),
                "confirmed_ok": confirmed,
                "ran": "tools/seedtest.sh patch.diff demo.py " + " ".join(c for c, _, _ in checks),
                "detected_by_check": detected, "concrete_replay_from": concrete, "broken_only_from": broken,
                "check_output": [s for _, _, s in checks]}
        json.dump(meta, open(os.path.join(d, "meta.json"), "w"), indent=1)
        print(ident, mk, "confirmed" if confirmed else "NOT-CONFIRMED", detected, concrete, broken)
