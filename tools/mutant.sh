#!/bin/bash
# tools/mutant.sh <prop> <file-relative-to-src/uberjob> <python-expr: s -> s'>   : runs ./check <prop> against a mutated scratch copy of /repo
set -e
PROP=$1; FILE=$2; EXPR=$3
D=$(mktemp -d /tmp/ujmut.XXXXXX)
cp -r /repo/src $D/src
/venv/bin/python - "$D/src/uberjob/$FILE" "$EXPR" <<'PY'
import sys
p, expr = sys.argv[1], sys.argv[2]
s = open(p).read()
s2 = eval(expr, {"s": s})
assert s2 != s, "mutation did not change the file"
open(p, "w").write(s2)
PY
cd /verif
VERIF_REPO=$D ./check $PROP ${TIER:+--tier $TIER} --no-build | tail -${TAIL:-4} || true
rm -rf $D
