#!/usr/bin/env python3
"""tools/seedtable.py: regenerate the table between the SEEDTABLE markers of DESIGN.md from seeded/*/meta.json"""
import glob, json, os, re
R = "/verif"
rows = ["| seeded change | property | what it is / what it needs to manifest | detected |", "|---|---|---|---|"]
for m in sorted(glob.glob(R + "/seeded/*/meta.json")):
    name = os.path.basename(os.path.dirname(m))
    d = json.load(open(m))
    what = re.sub(r"\s+", " ", d.get("needs_to_manifest", "")).replace("|", "/")[:230]
    det = d.get("detected_by_check", "?")
    if d.get("concrete_replay_from"):
        det += " — concrete replay from " + ", ".join(d["concrete_replay_from"])
    if d.get("broken_only_from"):
        det += "; broken correspondence only from " + ", ".join(d["broken_only_from"])
    if d.get("detect_note"):
        det += " (" + d["detect_note"] + ")"
    rows.append("| `%s` | %s | %s | %s |" % (name, d.get("breaks_property", "?"), what, det))
p = R + "/DESIGN.md"
s = open(p).read()
a, b = s.index("<!-- SEEDTABLE-BEGIN -->"), s.index("<!-- SEEDTABLE-END -->")
s = s[:a] + "<!-- SEEDTABLE-BEGIN -->\n" + "\n".join(rows) + "\n" + s[b:]
open(p, "w").write(s)
print(len(rows) - 2, "rows")
