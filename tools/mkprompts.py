#!/usr/bin/env python3
"""tools/mkprompts.py <round> <outdir> : write one prompt file per property for a round of seeded-change agents.  A prompt contains
ONLY the text of the property, the working rules and one-line descriptions of the changes already kept for that property (so that
mechanisms are not repeated) - nothing from /verif's checks."""
import glob
import json
import os
import re
import sys

rnd, out = sys.argv[1], sys.argv[2]
props = [json.loads(l) for l in open("/verif/properties.jsonl")]
os.makedirs(out, exist_ok=True)
KINDS = {
    "10": ("mut1 must be a commit of any kind whose slip sits in an error-handling or clean-up path (an except / finally clause, an __exit__, a rollback, a "
           "'best effort' helper, the handling of a partial failure) - the happy path is untouched\n"
           "  mut2 must be a commit of any kind whose slip concerns a DEFAULT or OPTIONAL value (None vs missing vs falsy, a sentinel, a default argument evaluated "
           "once, an optional parameter threaded through several calls, `x or default` on a legitimate falsy x, dict.get / setdefault / getattr defaults)"),
    "9": ("mut1 must be a commit of any kind whose regression shows only when TWO public features are combined (for example retry with a registry, fresh_time with "
          "dependent sources, transform_physical with dry_run, scopes with progress displays, max_errors with stale_check_max_workers, a MountedStore around a "
          "file store, plan.copy() with a registry, unpack / gather with stored values) - each feature alone keeps working\n"
          "  mut2 must be a commit of any kind whose regression shows only on the SECOND or later use of some object or of the process (a plan run twice, a store "
          "written or read twice, a registry extended after a run, a Progress reused, the second run in one interpreter, the second call of the same function object)"),
    "8": ("mut1 must be a BUG-FIX commit: it fixes a real or plausible small issue (an edge case, a confusing error message, a resource that is held too long, a "
          "warning under a newer Python) and the fix itself is correct - but the way it is done regresses the property\n"
          "  mut2 must be a change in a file (or function) that NONE of the earlier changes listed below touched, of any commit kind you like"),
}
for p in props:
    pid = p["id"]
    earlier = []
    files = set()
    for m in sorted(glob.glob("/verif/seeded/*/meta.json")):
        d = json.load(open(m))
        if d.get("breaks_property") != pid:
            continue
        txt = re.sub(r"\s+", " ", d.get("needs_to_manifest", ""))[:170]
        earlier.append("  - " + txt)
        patch = open(os.path.join(os.path.dirname(m), "patch.diff")).read()
        files |= set(re.findall(r"^\+\+\+ b/(\S+)", patch, re.M))
    ID = "R%s_%s" % (rnd, pid)
    wt, od = "/work/mut/%s" % ID, "%s/%s" % (out, ID)
    os.makedirs(od, exist_ok=True)
    text = f"""You are testing how well a hidden verification suite detects regressions in the Python library twosigma/uberjob (a library for building symbolic call graphs and running them on a thread pool, with mtime-based incremental caching via value stores). You work ONLY inside your own scratch git worktree of the repository at {wt} (source under {wt}/src/uberjob, tests under {wt}/tests) and your output directory {od}. Do not look at or touch /verif, /repo or any other directory. NEVER delete or move anything outside {wt} and {od} (write scratch files only inside your two directories). No network.

The semantic property under test:

---
{pid}: {p.get('title')}

{p.get('statement', p.get('description'))}

Quantified over: {(p.get('quantifier') or {}).get('text', '')}

---

Your job: produce TWO different, realistic code changes (mut1 and mut2) to the library source under {wt}/src/uberjob, each of which BREAKS this property while (a) the package still imports, (b) the existing test suite still passes completely with the change, and (c) ordinary casual use would NOT expose it at once: the change must need something specific to manifest - a particular thread interleaving, a crash or fault at a particular point, a multi-step sequence of operations, an unusual input, or two cooperating code sites that each look fine alone.

This time the KIND of change is prescribed - write it (and its comment / docstring) the way a well-meaning maintainer would, with the property violation as an unintended side effect:
  {KINDS[rnd]}
Make each commit look complete and professional (it may touch several functions or files, update docstrings, add a small helper); the slip that breaks the property should be a detail inside it, not the whole change. Do not add an obviously malicious special case keyed on a magic value.

{len(earlier)} changes have already been proposed for this property in earlier rounds; avoid repeating their mechanisms. Files they touched: {', '.join(sorted(files))}
{chr(10).join(earlier)}

How to run things (IMPORTANT: the venv has an installed copy of uberjob, so you MUST put your worktree first on the path):
  cd {wt} && PYTHONPATH={wt}/src /venv/bin/python -m pytest -q -p no:cacheprovider        # the existing suite, must stay green (81 passed)
  cd {wt} && PYTHONPATH={wt}/src /venv/bin/python your_demo.py

For each mutant k in (1, 2), deliver in the directory {od}/ (it exists):
  mut{{k}}.diff   : `git -C {wt} diff` of ONLY that change against HEAD (src/ only; must apply cleanly with `git apply` at the repo root)
  demo{{k}}.py    : a standalone demonstration program (imports uberjob from PYTHONPATH; must not depend on its own location and must only create files under tempfile.mkdtemp() directories) that exits 0 and prints PASS on the unchanged code and exits non-zero / prints FAIL with the change applied; if the failure needs a specific interleaving make the demo force it deterministically (barriers, events, sleeps in call functions, monkeypatched hooks in the demo itself, fault injection via the public API or by patching os/open in the demo) or loop enough times that it fails reliably (state the observed failure rate); a demo must always terminate (use timeouts) - report a hang as FAIL
  note{{k}}.txt   : 5-10 lines: what was changed, why it breaks the property, what it needs in order to manifest, why the existing tests do not see it, the exact commands you ran and their observed results (suite result with the change; demo result with and without the change)
Work method: make change 1 in the worktree, verify suite + demo, save the diff, then `git -C {wt} checkout -- .` to restore, verify the demo passes on clean code, then do change 2 the same way, and leave the worktree clean.
VERY IMPORTANT working style: act in many small steps. Never think or write more than a few paragraphs before the next tool call (a single reply longer than about 25000 tokens is cut off and loses all your work): decide on each change quickly, implement it with small edits, keep each demo under 100 lines, and if an idea does not work after two tries switch to a simpler one.
Final answer: a short plain-text summary of the two mutants (files touched, mechanism, how it manifests) and confirmation of the checks you ran."""
    open("%s/%s.prompt.txt" % (out, ID), "w").write(text)
print("wrote", len(props), "prompts to", out)
