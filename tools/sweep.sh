#!/bin/bash
# tools/sweep.sh <tier> <seed>... : every check on the unchanged tree for the given seeds (4 in parallel); prints one line per check
TIER=$1; shift
cd /verif
for S in "$@"; do
  for i in $(seq -w 1 20); do echo "C$i $S"; done
done | xargs -P 4 -L 1 sh -c 'out=$(VERIF_SEED=$1 ./check $0 --tier '$TIER' --no-build 2>&1 | grep -a "VIOLATION\|tier=" | tr "\n" " "); echo "seed=$1 $out"'
