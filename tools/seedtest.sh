#!/bin/bash
# tools/seedtest.sh <diff-file> <demo.py> <prop> [<prop>...]
#  1. scratch copy of /repo (outside /repo and /verif), apply the diff
#  2. existing test suite on the copy (must pass), demo on the copy (must FAIL) and on /repo (must PASS)
#  3. run ./check <prop> against the copy via VERIF_REPO; print the verdict lines
set -u
DIFF=$1; DEMO=$2; shift 2
D=$(mktemp -d /tmp/ujseed.XXXXXX)
cp -r /repo/src /repo/tests /repo/pyproject.toml $D/ 2>/dev/null
( cd $D && git init -q . && git add -A >/dev/null && git -c user.email=a@b -c user.name=x commit -qm base >/dev/null && git apply "$DIFF" ) || { echo "APPLY-FAILED"; rm -rf $D; exit 2; }
echo "== suite with change:"; ( cd $D && PYTHONPATH=$D/src timeout 600 /venv/bin/python -m pytest -q -p no:cacheprovider 2>&1 | tail -1 )
echo "== demo with change:";  ( cd $D && PYTHONPATH=$D/src timeout 300 /venv/bin/python "$DEMO" >$D.demo.out 2>&1; echo "exit=$?"; tail -2 $D.demo.out )
echo "== demo without change:"; ( cd /repo && PYTHONPATH=/repo/src timeout 300 /venv/bin/python "$DEMO" >$D.demo.out 2>&1; echo "exit=$?"; tail -1 $D.demo.out )
cd /verif
for P in "$@"; do
  echo "== check $P (${TIER:-quick}) against the changed copy:"
  VERIF_REPO=$D timeout 1500 ./check $P --no-build ${TIER:+--tier $TIER} 2>&1 | grep -v "^Traceback\|^  File\|^    " | tail -${TAIL:-3}
done
rm -rf $D $D.demo.out
