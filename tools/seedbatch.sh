#!/bin/bash
# tools/seedbatch.sh <ID> <prop> [<prop>...] : copy an agent's output into seeded/_incoming and test both mutants
ID=$1; shift
mkdir -p /verif/seeded/_incoming/$ID && cp ${MUTOUT:-/work/mutout}/$ID/*.diff ${MUTOUT:-/work/mutout}/$ID/*.py ${MUTOUT:-/work/mutout}/$ID/*.txt /verif/seeded/_incoming/$ID/ 2>/dev/null
for k in 1 2; do
  echo "######## $ID mut$k"
  timeout 2400 /verif/tools/seedtest.sh /verif/seeded/_incoming/$ID/mut$k.diff /verif/seeded/_incoming/$ID/demo$k.py "$@" 2>&1 | grep -a -v "^Exception in\|^  \|^Traceback\|^engine_corr\|^KeyboardInterrupt\|^SystemExit\|^planlevel\|^    " | tail -${LINES_:-12}
done
