#!/usr/bin/env python3
"""tools/keepseed.py <name> <property> <diff> <demo> <note-file-or-text> <detected: yes|no|broken-only> <check-output-summary>"""
import json, os, shutil, sys
name, prop, diff, demo, note, detected, summary = sys.argv[1:8]
d = os.path.join("/verif/seeded", name)
os.makedirs(d, exist_ok=True)
for src, dst in ((diff, "patch.diff"), (demo, "demo.py")):
    if os.path.abspath(src) != os.path.join(d, dst):
        shutil.copy(src, os.path.join(d, dst))
note_text = open(note).read() if os.path.exists(note) else note
meta = {"breaks_property": prop, "needs_to_manifest": note_text.strip()[:1500],
        "confirmed": "applied to a scratch copy of /repo: existing suite (PYTHONPATH=<copy>/src pytest) still 81 passed; demo.py fails with the change and passes on /repo",
        "ran": "tools/seedtest.sh patch.diff demo.py %s" % prop,
        "detected_by_check": detected, "check_output": summary}
json.dump(meta, open(os.path.join(d, "meta.json"), "w"), indent=1)
print("kept", d)
