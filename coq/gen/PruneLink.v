(** Hand-written link between the Gallina text GENERATED from src/uberjob/_transformations/pruning.py (PruneGen.v,
    rewritten on every run by harness/translate_prune.py) and the model [Prune.prune_literal_if_trivial]. *)
From Coq Require Import List Arith Bool Lia.
From UJ Require Import Base.Graph Cache.Prune.
From UJGen Require Import PruneGen.

Theorem generated_prune_is_model (p : pgraph) (l : nat) :
  gen_prune_literal_if_trivial p l = prune_literal_if_trivial p l.
Proof.
  unfold gen_prune_literal_if_trivial, prune_literal_if_trivial, elide, bypass_edges.
  destruct (negb _); [reflexivity|].
  match goal with |- (if ?a then _ else _) = (if ?b then _ else _) => assert (E : a = b) end.
  { match goal with |- ?a = ?b => destruct a eqn:Ea; destruct b eqn:Eb; try reflexivity end;
      repeat match goal with
             | H : (_ <? _) = true |- _ => apply Nat.ltb_lt in H
             | H : (_ <? _) = false |- _ => apply Nat.ltb_ge in H
             | H : (_ <=? _) = true |- _ => apply Nat.leb_le in H
             | H : (_ <=? _) = false |- _ => apply Nat.leb_gt in H
             end; exfalso; lia. }
  try rewrite E; reflexivity.
Qed.
Print Assumptions generated_prune_is_model.

(** ** prune_plan and prune_source_literals *)
From UJ Require Import Engine.Engine Base.Topo.
Import ListNotations.

Lemma fold_left_ext_fn {A B} (f h : A -> B -> A) (l : list B) (a : A) :
  (forall x y, f x y = h x y) -> fold_left f l a = fold_left h l a.
Proof. intros H. revert a. induction l as [|b l IH]; intros a; cbn [fold_left]; [reflexivity|]. rewrite H. apply IH. Qed.

Theorem generated_prune_plan_is_model (p : pgraph) (required : list nat) (output : option nat) :
  gen_prune_plan p required output = prune_plan p required output.
Proof.
  unfold gen_prune_plan, prune_plan, restrict, prune_roots. cbn zeta.
  match goal with |- fold_left _ ?l1 _ = fold_left _ ?l2 _ => replace l1 with l2 end.
  - apply fold_left_ext_fn. intros x y. apply generated_prune_is_model.
  - apply filter_ext. intros u.
    repeat match goal with |- context [andb ?a ?b] => destruct a; cbn [andb negb] end; try reflexivity;
      repeat match goal with |- context [negb ?a] => destruct a; cbn [negb] end; reflexivity.
Qed.
Print Assumptions generated_prune_plan_is_model.

Lemma filter_filter_and {A} (f h : A -> bool) (l : list A) : filter h (filter f l) = filter (fun x => f x && h x) l.
Proof.
  induction l as [|x l IH]; cbn [filter]; [reflexivity|].
  destruct (f x); cbn [filter andb]; [destruct (h x)|]; rewrite IH; reflexivity.
Qed.

Theorem generated_prune_source_literals_is_model (p : pgraph) (pred : nat -> bool) :
  gen_prune_source_literals p (Some pred) = prune_source_literals p pred /\
  gen_prune_source_literals p None = prune_source_literals p (fun _ => true).
Proof.
  unfold gen_prune_source_literals, prune_source_literals, source_literals. cbn zeta. split.
  - rewrite filter_filter_and. reflexivity.
  - f_equal. apply filter_ext. intros n. rewrite andb_true_r. reflexivity.
Qed.
Print Assumptions generated_prune_source_literals_is_model.

(** ** C01 / C07 theorems, stated of the functions generated from the source *)
From UJ Require Props.C01 Props.C07.
Theorem C01_prune_general_on_source :
  forall (p : pgraph) (required : list nat) (output : option nat) (a b : nat),
  In a (pnodes (gen_prune_plan p required output)) -> In b (pnodes (gen_prune_plan p required output)) ->
  reach (to_graph p) a b -> reach (to_graph (gen_prune_plan p required output)) a b.
Proof. intros p required output a b. rewrite generated_prune_plan_is_model. apply Props.C01.C01_prune_general. Qed.
Print Assumptions C01_prune_general_on_source.

Theorem C07_prune_acyclic_on_source :
  forall (p : pgraph) (required : list nat) (output : option nat),
  acyclic (to_graph p) -> acyclic (to_graph (gen_prune_plan p required output)).
Proof. intros p required output. rewrite generated_prune_plan_is_model. apply Props.C07.C07_prune_acyclic. Qed.
Print Assumptions C07_prune_acyclic_on_source.
