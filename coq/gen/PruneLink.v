(** Hand-written link between the Gallina text GENERATED from src/uberjob/_transformations/pruning.py (PruneGen.v,
    rewritten on every run by harness/translate_prune.py) and the model [Prune.prune_literal_if_trivial]. *)
From Coq Require Import List Arith Bool Lia.
From UJ Require Import Base.Graph Cache.Prune.
From UJGen Require Import PruneGen.

Theorem generated_prune_is_model (p : pgraph) (l : nat) :
  gen_prune_literal_if_trivial p l = prune_literal_if_trivial p l.
Proof.
  unfold gen_prune_literal_if_trivial, prune_literal_if_trivial, elide, bypass_edges.
  destruct (negb _); [reflexivity|].
  match goal with |- (if ?a then _ else _) = (if ?b then _ else _) => assert (E : a = b) end.
  { match goal with |- ?a = ?b => destruct a eqn:Ea; destruct b eqn:Eb; try reflexivity end;
      repeat match goal with
             | H : (_ <? _) = true |- _ => apply Nat.ltb_lt in H
             | H : (_ <? _) = false |- _ => apply Nat.ltb_ge in H
             | H : (_ <=? _) = true |- _ => apply Nat.leb_le in H
             | H : (_ <=? _) = false |- _ => apply Nat.leb_gt in H
             end; exfalso; lia. }
  try rewrite E; reflexivity.
Qed.
Print Assumptions generated_prune_is_model.
