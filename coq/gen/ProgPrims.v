(** Target language of harness/translate_progress.py: the primitive state updates that the statements of
    State / SimpleProgressObserver._do_render (src/uberjob/progress/_simple_progress_observer.py) are translated to,
    one primitive per Python statement form.  A [scope_state] variable is an ALIAS of the ScopeState object stored under
    a key of section_scope_mapping, so reads and writes through it are reads and writes of the mapping entry.
    Committed (hand-written); ProgressGen.v is generated from the source and uses only these names. *)
From Coq Require Import List Arith ZArith QArith Bool.
Import ListNotations.
From UJ Require Import Obs.Progress Obs.Render.
Local Open Scope Z_scope.

Inductive fld := FCompleted | FFailed | FRunning | FTotal.

Definition fget (f : fld) (s : sstate) : Z :=
  match f with FCompleted => completed s | FFailed => failed s | FRunning => running s | FTotal => total s end.

(** [obj.f += d] *)
Definition fadd (f : fld) (d : Z) (s : sstate) : sstate :=
  match f with
  | FCompleted => {| completed := completed s + d; failed := failed s; running := running s; total := total s; welapsed := welapsed s |}
  | FFailed => {| completed := completed s; failed := failed s + d; running := running s; total := total s; welapsed := welapsed s |}
  | FRunning => {| completed := completed s; failed := failed s; running := running s + d; total := total s; welapsed := welapsed s |}
  | FTotal => {| completed := completed s; failed := failed s; running := running s; total := total s + d; welapsed := welapsed s |}
  end.

(** [obj.weighted_elapsed += q] *)
Definition eadd (q : Q) (s : sstate) : sstate :=
  {| completed := completed s; failed := failed s; running := running s; total := total s; welapsed := (welapsed s + q)%Q |}.

Definition with_mapping (m : list (key * sstate)) (st : State) : State :=
  {| mapping := m; running_count := running_count st; running_set := running_set st; prev_time := prev_time st |}.

(** [self.section_scope_mapping[section][scope]]: None = KeyError *)
Definition st_get (k : key) (st : State) : option sstate := lookup k (mapping st).

(** the object an alias bound by a successful [st_get] denotes, as it is NOW *)
Definition cur (k : key) (st : State) : sstate := match st_get k st with Some s => s | None => sstate0 end.

(** a write through the alias *)
Definition st_upd (k : key) (g : sstate -> sstate) (st : State) : State := with_mapping (update k g (mapping st)) st.

(** [self.section_scope_mapping.setdefault(section, {}).setdefault(scope, ScopeState())] *)
Definition st_setdefault (k : key) (st : State) : State :=
  match lookup k (mapping st) with
  | Some _ => st
  | None => with_mapping (mapping st ++ [(k, sstate0)]) st
  end.

(** [self.running_count += d] *)
Definition st_rc_add (d : Z) (st : State) : State :=
  {| mapping := mapping st; running_count := running_count st + d; running_set := running_set st; prev_time := prev_time st |}.

(** [self._running_scope_states.add(obj)] *)
Definition st_set_add (k : key) (st : State) : State :=
  {| mapping := mapping st; running_count := running_count st;
     running_set := if kmem k (running_set st) then running_set st else running_set st ++ [k]; prev_time := prev_time st |}.

(** [self._running_scope_states.remove(obj)]: KeyError if absent *)
Definition st_set_remove (k : key) (st : State) : result State :=
  if kmem k (running_set st)
  then Ok {| mapping := mapping st; running_count := running_count st; running_set := kremove k (running_set st); prev_time := prev_time st |}
  else Err KeyError.

(** [self._prev_time = t] *)
Definition st_set_prev (t : Q) (st : State) : State :=
  {| mapping := mapping st; running_count := running_count st; running_set := running_set st; prev_time := t |}.

(** [for obj in self._running_scope_states: obj.<update>]: every object that is a member of the set is updated once
    (the objects are the entries of the mapping, each stored under one key) *)
Definition st_foreach_running (g : sstate -> sstate) (st : State) : State :=
  with_mapping (map (fun ks => if kmem (fst ks) (running_set st) then (fst ks, g (snd ks)) else ks) (mapping st)) st.

(** ** fields of the observer *)
Definition o_set_stale (b : bool) (o : obs) : obs :=
  {| o_state := o_state o; o_stale := b; o_last := o_last o; o_start := o_start o; o_nexc := o_nexc o; o_newidx := o_newidx o; o_skipped := o_skipped o |}.
Definition o_set_last (t : option Q) (o : obs) : obs :=
  {| o_state := o_state o; o_stale := o_stale o; o_last := t; o_start := o_start o; o_nexc := o_nexc o; o_newidx := o_newidx o; o_skipped := o_skipped o |}.
Definition o_set_state (st : State) (o : obs) : obs :=
  {| o_state := st; o_stale := o_stale o; o_last := o_last o; o_start := o_start o; o_nexc := o_nexc o; o_newidx := o_newidx o; o_skipped := o_skipped o |}.
Definition o_set_newidx (n : nat) (o : obs) : obs :=
  {| o_state := o_state o; o_stale := o_stale o; o_last := o_last o; o_start := o_start o; o_nexc := o_nexc o; o_newidx := n; o_skipped := o_skipped o |}.
Definition o_set_skipped (sk : list nat) (o : obs) : obs :=
  {| o_state := o_state o; o_stale := o_stale o; o_last := o_last o; o_start := o_start o; o_nexc := o_nexc o; o_newidx := o_newidx o; o_skipped := sk |}.

(** [a >= b] on clock values *)
Definition Qge_bool (a b : Q) : bool := Qle_bool b a.
Definition Qgt_bool (a b : Q) : bool := negb (Qle_bool a b).
Definition Qlt_bool (a b : Q) : bool := negb (Qle_bool b a).
