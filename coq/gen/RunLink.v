(** Hand-written link between the Gallina text GENERATED from src/uberjob/_run.py (RunGen.v: the plumbing of run() and the keyword arguments that
    reach the two engine passes) and the model [Api.run_api]; and the C10 / C14 / C15 theorems of Run/Api.v restated of the generated function. *)
From Coq Require Import List Arith ZArith Bool Lia.
Import ListNotations.
From UJ Require Import Run.Api.
From UJGen Require Import RunGen.

Lemma gen_valid_is_valid (a : args) : gen_valid a = valid a.
Proof.
  unfold gen_valid, valid.
  destruct (a_max_workers a) as [w|], (a_stale_workers a) as [sw|], (a_max_errors a) as [e|]; cbn [andb];
    repeat match goal with
           | |- context [(?x <? ?y)%Z] => destruct (Z.ltb_spec x y)
           | |- context [(?x <=? ?y)%Z] => destruct (Z.leb_spec x y)
           end; cbn [negb andb]; try reflexivity; try (exfalso; lia).
Qed.

Theorem generated_run_is_model (a : args) : gen_run_api a = run_api a.
Proof.
  unfold gen_run_api, run_api. rewrite gen_valid_is_valid.
  destruct (valid a); cbn [negb]; [|reflexivity].
  destruct (attempts_of (a_retry a)); [|reflexivity].
  destruct (a_registry a), (a_transform a), (a_dry_run a); reflexivity.
Qed.
Print Assumptions generated_run_is_model.

(** C10: the limits reach the engine passes unchanged *)
Theorem C10_limits_reach_the_engine_on_source a l b p :
  gen_run_api a = Steps l b ->
  (In (StRun p) l ->
     p_workers p = a_max_workers a /\ p_max_errors p = a_max_errors a /\ p_sched p = sched_of (a_scheduler a) /\
     attempts_of (a_retry a) = Some (p_attempts p)) /\
  (In (StStaleCheck p) l ->
     p_workers p = match a_stale_workers a with Some w => Some w | None => a_max_workers a end /\
     p_max_errors p = Some 0%Z /\ attempts_of (a_retry a) = Some (p_attempts p)).
Proof. rewrite generated_run_is_model. apply limits_reach_the_engine. Qed.
Print Assumptions C10_limits_reach_the_engine_on_source.

(** C14: a dry run is the real run without the engine pass over the physical plan *)
Theorem C14_dry_run_on_source a l b :
  gen_run_api (set_dry a false) = Steps l b ->
  gen_run_api (set_dry a true) = Steps (filter (fun s => negb (is_run s)) l) true.
Proof. rewrite !generated_run_is_model. apply dry_run_is_real_run_without_execution. Qed.
Print Assumptions C14_dry_run_on_source.

(** C15: the observer is entered first and exited last *)
Theorem C15_observer_brackets_on_source a l b :
  gen_run_api a = Steps l b -> exists body, l = StEnter :: body ++ [StExit] /\ ~ In StEnter body /\ ~ In StExit body.
Proof. rewrite generated_run_is_model. apply observer_brackets. Qed.
Print Assumptions C15_observer_brackets_on_source.
