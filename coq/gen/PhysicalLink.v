(** Hand-written link between the Gallina text GENERATED from `plan_with_value_stores` in src/uberjob/_transformations/caching.py
    (PhysicalGen.v, built on the generated gen_add_value_store and gen_prune_plan) and the model [Transform.physical], the function
    the C09 / C14 theorems (and the L2-refines-L1 theorems of Cache/Refine.v) are about. *)
From Coq Require Import List Arith Bool.
Import ListNotations.
From UJ Require Import Base.Graph Cache.Prune Cache.Transform.
From UJGen Require Import AvsGen AvsLink PruneGen PruneLink PhysicalGen.

Definition lookup_of (c : nat) (es : list entry) : list (nat * nat) :=
  map (fun ec => (enode (fst ec), read_id (snd ec))) (entry_ids c es).

Lemma entry_fold_spec : forall es p c lk rq,
  let st := fold_left gen_entry_step es (p, c, lk, rq) in
  fst (fst (fst st)) = add_all p c es /\ snd (fst st) = lk ++ lookup_of c es /\ snd st = rq ++ required_writes c es.
Proof.
  induction es as [|e es IH]; intros p c lk rq; cbn [fold_left].
  - cbn. rewrite !app_nil_r. repeat split.
  - specialize (IH (add_value_store p c e) (next_id c e) (lk ++ [(enode e, S c)]) (if estale e then rq ++ [S (S c)] else rq)).
    assert (E : gen_entry_step (p, c, lk, rq) e =
                (add_value_store p c e, next_id c e, lk ++ [(enode e, S c)], if estale e then rq ++ [S (S c)] else rq)).
    { unfold gen_entry_step. cbn [fst snd]. cbv zeta. rewrite generated_avs_is_model. destruct (estale e); reflexivity. }
    rewrite E. cbn zeta in IH. destruct IH as (H1 & H2 & H3). cbn zeta. split; [|split].
    + rewrite H1. reflexivity.
    + rewrite H2. unfold lookup_of. cbn [entry_ids map fst snd]. rewrite <- app_assoc. reflexivity.
    + rewrite H3. unfold required_writes. cbn [entry_ids filter fst snd].
      destruct (estale e); cbn [map fst snd]; [rewrite <- app_assoc; reflexivity|reflexivity].
Qed.

Lemma find_map {A B} (f : A -> B) (h : B -> bool) (l : list A) :
  find h (map f l) = option_map f (find (fun x => h (f x)) l).
Proof. induction l as [|x l IH]; cbn [map find]; [reflexivity|]. destruct (h (f x)); [reflexivity|exact IH]. Qed.

Theorem generated_physical_is_model (p : pgraph) (c : nat) (es : list entry) (output : option nat) :
  gen_physical p c es output = physical p c es output.
Proof.
  unfold gen_physical, physical. cbv zeta.
  pose proof (entry_fold_spec es p c [] []) as H. cbn zeta in H. destruct H as (H1 & H2 & H3).
  rewrite H1, H2, H3. cbn [app].
  assert (E : match output with
              | Some o => Some (match find (fun kv => fst kv =? o) (lookup_of c es) with Some kv => snd kv | None => o end)
              | None => None
              end = redirect c es output).
  { unfold redirect, lookup_of. destruct output as [o|]; [|reflexivity].
    rewrite find_map. cbn [fst]. destruct (find (fun x => enode (fst x) =? o) (entry_ids c es)); reflexivity. }
  rewrite E, generated_prune_plan_is_model. reflexivity.
Qed.
Print Assumptions generated_physical_is_model.

(** ** C14 theorems, stated of the function generated from the source *)
From UJ Require Import Cache.TransformProofs.
From UJ Require Props.C14.
Theorem C14_write_call_self_contained_on_source :
  forall p c es output e ce, tctx p c es -> In (e, ce) (entry_ids c es) -> estale e = true -> esource e = false ->
  let r := fst (gen_physical p c es output) in
  In (mke (lit_id ce) (write_id ce) (KPos 0)) (pedges r) /\
  In (mke (enode e) (write_id ce) (KPos 1)) (pedges r) /\
  In (lit_id ce) (pnodes r) /\ In (enode e) (pnodes r) /\
  pkind r (lit_id ce) = KLit /\ pkind r (write_id ce) = KCall.
Proof. intros p c es output e ce. rewrite generated_physical_is_model. apply Props.C14.C14_write_call_self_contained. Qed.
Print Assumptions C14_write_call_self_contained_on_source.

Theorem C14_read_call_self_contained_on_source :
  forall p c es output e ce, tctx p c es -> In (e, ce) (entry_ids c es) ->
  let r := fst (gen_physical p c es output) in
  In (read_id ce) (pnodes r) ->
  In (mke (lit_id ce) (read_id ce) (KPos 0)) (pedges r) /\ In (lit_id ce) (pnodes r) /\
  pkind r (lit_id ce) = KLit /\ pkind r (read_id ce) = KCall.
Proof. intros p c es output e ce. rewrite generated_physical_is_model. apply Props.C14.C14_read_call_self_contained. Qed.
Print Assumptions C14_read_call_self_contained_on_source.
