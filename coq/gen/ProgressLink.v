(** Hand-written link between the Gallina text GENERATED from src/uberjob/progress/_simple_progress_observer.py
    (ProgressGen.v, over the primitives of ProgPrims.v) and the models Obs/Progress.v (State bookkeeping, _do_render) and
    Obs/Render.v (_get_progress_string) that the C15 / C20 theorems are about. *)
From Coq Require Import List Arith ZArith QArith Bool Lia.
Import ListNotations.
From UJ Require Import Obs.Progress Obs.Render.
From UJGen Require Import ProgPrims ProgressGen.
Local Open Scope Z_scope.

Lemma scope_eqb_refl (a : scope) : scope_eqb a a = true.
Proof. induction a as [|x a IH]; cbn; [reflexivity|]. rewrite Nat.eqb_refl, IH. reflexivity. Qed.

Lemma key_eqb_refl (k : key) : key_eqb k k = true.
Proof. unfold key_eqb. rewrite Nat.eqb_refl, scope_eqb_refl. reflexivity. Qed.

Lemma lookup_update k g m : lookup k (update k g m) = option_map g (lookup k m).
Proof.
  induction m as [|[k' s] m IH]; cbn [lookup update option_map]; [reflexivity|].
  destruct (key_eqb k k') eqn:E; cbn [lookup]; rewrite E; [reflexivity|exact IH].
Qed.

Lemma update_update k f g m : update k f (update k g m) = update k (fun s => f (g s)) m.
Proof.
  induction m as [|[k' s] m IH]; cbn [update]; [reflexivity|].
  destruct (key_eqb k k') eqn:E; cbn [update]; rewrite E; [reflexivity|]. rewrite IH. reflexivity.
Qed.

Lemma update_ext k f g m : (forall s, f s = g s) -> update k f m = update k g m.
Proof.
  intros H. induction m as [|[k' s] m IH]; cbn [update]; [reflexivity|].
  destruct (key_eqb k k'); [rewrite H|rewrite IH]; reflexivity.
Qed.

Lemma update_app_none k g s m : lookup k m = None -> update k g (m ++ [(k, s)]) = m ++ [(k, g s)].
Proof.
  induction m as [|[k' s'] m IH]; cbn [lookup update app]; intros H.
  - rewrite key_eqb_refl. reflexivity.
  - destruct (key_eqb k k'); [discriminate|]. rewrite (IH H). reflexivity.
Qed.

Theorem generated_update_weighted_elapsed_is_model (t : Q) (st : State) :
  gen_update_weighted_elapsed t st = update_weighted_elapsed t st.
Proof.
  unfold gen_update_weighted_elapsed, update_weighted_elapsed, st_set_prev, st_foreach_running, with_mapping.
  destruct (running_count st =? 0); reflexivity.
Qed.
Print Assumptions generated_update_weighted_elapsed_is_model.

Theorem generated_increment_total_is_model (k : key) (a : Z) (st : State) :
  gen_increment_total k a st = increment_total k a st.
Proof.
  unfold gen_increment_total, increment_total, st_setdefault, st_upd, with_mapping.
  destruct (lookup k (mapping st)) eqn:L; cbn [mapping running_count running_set prev_time].
  - f_equal; try (apply update_ext; intros s0; destruct s0; cbn; f_equal; lia).
  - rewrite (update_app_none _ _ _ _ L). first [reflexivity | repeat f_equal; cbn; f_equal; lia].
Qed.
Print Assumptions generated_increment_total_is_model.

Theorem generated_increment_running_is_model (k : key) (t : Q) (st : State) :
  gen_increment_running k t st = increment_running k t st.
Proof.
  unfold gen_increment_running, increment_running. rewrite generated_update_weighted_elapsed_is_model.
  set (st1 := update_weighted_elapsed t st). unfold st_get.
  destruct (lookup k (mapping st1)) eqn:L; [|reflexivity].
  unfold st_rc_add, st_upd, st_set_add, with_mapping; cbn [mapping running_count running_set prev_time].
  first [reflexivity | f_equal; f_equal; try lia; apply update_ext; intros s0; destruct s0; cbn; f_equal; lia].
Qed.
Print Assumptions generated_increment_running_is_model.

Lemma generated_increment_finished (ok : bool) (k : key) (t : Q) (st : State) :
  (if ok then gen_increment_completed else gen_increment_failed) k t st = increment_finished ok k t st.
Proof.
  destruct ok; unfold gen_increment_completed, gen_increment_failed, increment_finished;
    rewrite generated_update_weighted_elapsed_is_model;
    set (st1 := update_weighted_elapsed t st); unfold st_get;
    (destruct (lookup k (mapping st1)) as [s|] eqn:L; [|reflexivity]);
    unfold cur, st_get, st_rc_add, st_upd, st_set_remove, with_mapping; cbn [mapping running_count running_set prev_time];
    rewrite ?lookup_update, L; cbn [option_map];
    repeat match goal with
           | |- context [fget ?f (fadd ?g ?d s)] =>
               let E := fresh "E" in
               assert (E : fget f (fadd g d s) = running s - 1) by (cbn; lia); rewrite E; clear E
           end;
    rewrite ?negb_involutive;
    (destruct (running s - 1 =? 0) eqn:R; cbn [andb negb bind];
     [destruct (kmem k (running_set st1)); cbn [negb bind]; [|reflexivity]|]);
    cbn [mapping running_count running_set prev_time]; rewrite update_update;
    (f_equal; f_equal; try lia; apply update_ext; intros s0; destruct s0; cbn; f_equal; lia).
Qed.

Theorem generated_increment_completed_is_model (k : key) (t : Q) (st : State) :
  gen_increment_completed k t st = increment_finished true k t st.
Proof. exact (generated_increment_finished true k t st). Qed.
Print Assumptions generated_increment_completed_is_model.

Theorem generated_increment_failed_is_model (k : key) (t : Q) (st : State) :
  gen_increment_failed k t st = increment_finished false k t st.
Proof. exact (generated_increment_finished false k t st). Qed.
Print Assumptions generated_increment_failed_is_model.

Theorem generated_progress_string_is_model (s : sstate) :
  gen_progress_string (completed s) (failed s) (running s) (total s) = progress_string s.
Proof.
  unfold gen_progress_string, progress_string.
  destruct (completed s + failed s =? total s); destruct (0 <? completed s + failed s + running s);
    cbn [orb negb ps_paren ps_c ps_r ps_t ps_f];
    destruct (Z.eqb_spec (failed s) 0) as [F|F]; cbn [negb ps_paren ps_c ps_r ps_t ps_f]; rewrite ?F; reflexivity.
Qed.
Print Assumptions generated_progress_string_is_model.

Theorem generated_do_render_is_model (Out : Type) (rf : list (key * sstate) -> list nat -> result (Out * list nat))
        (max_interval : Q) (o : obs) (t1 t2 : Q) :
  gen_do_render Out rf max_interval o t1 t2 = do_render Out rf max_interval o t1 t2.
Proof.
  unfold gen_do_render, do_render, Qge_bool.
  destruct (o_stale o || match o_last o with None => true | Some l => Qle_bool max_interval (t1 - l) end); [|reflexivity].
  unfold o_set_stale, o_set_last, o_set_state, o_set_skipped, o_set_newidx; cbn [o_state o_stale o_last o_start o_nexc o_newidx o_skipped].
  rewrite generated_update_weighted_elapsed_is_model.
  destruct (rf (mapping (update_weighted_elapsed t2 (o_state o))) (o_skipped o)) as [[out sk]|e]; reflexivity.
Qed.
Print Assumptions generated_do_render_is_model.
