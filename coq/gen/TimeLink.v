(** Hand-written link between the Gallina text GENERATED from `_to_naive_utc_time` in src/uberjob/_transformations/caching.py
    (TimeGen.v) and the model [Time.to_naive_utc true]; and the C18 theorem restated of the generated conversion. *)
From Coq Require Import ZArith List.
Import ListNotations.
From UJ Require Import Store.Time.
From UJGen Require Import TimeGen.
From UJ Require Props.C18.
Local Open Scope Z_scope.

Theorem generated_to_naive_utc_is_model (z : zone) (r : repr) : gen_to_naive_utc z r = to_naive_utc true z r.
Proof. destruct r; reflexivity. Qed.
Print Assumptions generated_to_naive_utc_is_model.

Lemma gen_ext (z : zone) : forall r, gen_to_naive_utc z r = to_naive_utc true z r.
Proof. exact (generated_to_naive_utc_is_model z). Qed.

(** every representation of an instant (naive local with its fold, aware with any offset) is converted to that instant by the generated
    function, in every zone whose local->instant inverse honours fold *)
Theorem C18_conversion_on_source :
  forall z : zone, H_tz z ->
  forall (mt : option Z) (mt_r : option repr), opt_reps z mt mt_r -> option_map (gen_to_naive_utc z) mt_r = mt.
Proof.
  intros z Hz mt mt_r Hr.
  destruct (Props.C18.C18_decision_by_instants z Hz true mt None [] mt_r None [] Hr) as [_ H].
  - exact I.
  - constructor.
  - rewrite <- H. destruct mt_r as [r|]; cbn [option_map]; [rewrite generated_to_naive_utc_is_model|]; reflexivity.
Qed.
Print Assumptions C18_conversion_on_source.
