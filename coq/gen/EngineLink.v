(** Hand-written link between the Gallina text GENERATED from src/uberjob/_execution/run_function_on_graph.py (EngineGen.v:
    prepare_nodes, the failure block, the per-successor release, the coordinator's finally) and the transition system of
    Engine/Engine.v ([init], [next] at [KFailBlk], [KSucc], [KCoord]) that the C01 / C04 / C06 / C07 / C10 / C17 theorems are about. *)
From Coq Require Import List Arith Bool Lia.
Import ListNotations.
From UJ Require Import Engine.Engine.
From UJGen Require Import EngineGen.

Ltac split_nat_tests :=
  repeat match goal with
         | |- context [?a <=? ?b] => destruct (Nat.leb_spec a b)
         | |- context [?a <? ?b] => destruct (Nat.ltb_spec a b)
         | |- context [?a =? ?b] => destruct (Nat.eqb_spec a b)
         end.

(** ** prepare_nodes *)
Definition prep_inv (g : graph) (seen : list nat) (st : list nat * list nat * (nat -> nat)) : Prop :=
  fst (fst st) = rev (filter (fun n => pcount g n =? 0) seen) /\
  (forall n, In n (snd (fst st)) <-> In n seen /\ pcount g n = 1) /\
  (forall n, In n seen -> 2 <= pcount g n -> snd st n = pcount g n).

Lemma prep_fold_spec (g : graph) (step : list nat * list nat * (nat -> nat) -> nat -> list nat * list nat * (nat -> nat)) :
  (forall st node, step st node =
     if pcount g node =? 0 then (node :: fst (fst st), snd (fst st), snd st)
     else if pcount g node =? 1 then (fst (fst st), node :: snd (fst st), snd st)
     else (fst (fst st), snd (fst st), fun y => if y =? node then pcount g node else snd st y)) ->
  forall l seen st, prep_inv g seen st -> prep_inv g (seen ++ l) (fold_left step l st).
Proof.
  intros Hstep. induction l as [|a l IH]; intros seen st Hinv; cbn [fold_left].
  - rewrite app_nil_r. exact Hinv.
  - replace (seen ++ a :: l) with ((seen ++ [a]) ++ l) by (rewrite <- app_assoc; reflexivity).
    apply IH. destruct Hinv as (Hs & Hsi & Hm). rewrite Hstep. unfold prep_inv.
    destruct (Nat.eqb_spec (pcount g a) 0) as [E0|E0]; [|destruct (Nat.eqb_spec (pcount g a) 1) as [E1|E1]]; cbn [fst snd].
    + split; [|split].
      * rewrite filter_app. cbn [filter]. rewrite (proj2 (Nat.eqb_eq _ _) E0), rev_app_distr. cbn [rev app]. rewrite Hs. reflexivity.
      * intros n. rewrite Hsi, in_app_iff. cbn [In]. split; [intros [? ?]; tauto|]. intros [[?|[<-|[]]] ?]; [tauto|lia].
      * intros n Hn Hp. apply in_app_iff in Hn. cbn [In] in Hn. destruct Hn as [Hn|[<-|[]]]; [apply Hm; assumption|lia].
    + split; [|split].
      * rewrite filter_app. cbn [filter]. rewrite (proj2 (Nat.eqb_neq _ _) E0), app_nil_r. exact Hs.
      * intros n. cbn [In]. rewrite Hsi, in_app_iff. cbn [In]. split.
        -- intros [<-|[? ?]]; [split; [right; left; reflexivity|assumption]|tauto].
        -- intros [[?|[<-|[]]] ?]; [right; tauto|left; reflexivity].
      * intros n Hn Hp. apply in_app_iff in Hn. cbn [In] in Hn. destruct Hn as [Hn|[<-|[]]]; [apply Hm; assumption|lia].
    + split; [|split].
      * rewrite filter_app. cbn [filter]. rewrite (proj2 (Nat.eqb_neq _ _) E0), app_nil_r. exact Hs.
      * intros n. rewrite Hsi, in_app_iff. cbn [In]. split; [intros [? ?]; tauto|]. intros [[?|[<-|[]]] ?]; [tauto|lia].
      * intros n Hn Hp. destruct (Nat.eqb_spec n a) as [->|Hne]; [reflexivity|].
        apply in_app_iff in Hn. cbn [In] in Hn. destruct Hn as [Hn|[Hn|[]]]; [apply Hm; assumption|congruence].
Qed.

(** [prepare_nodes] yields the model's initial queue (the sources, in graph order), classifies exactly the nodes with one
    predecessor as single-parent, and stores the model's initial counter for every node with two or more predecessors *)
Theorem generated_prepare_is_model (c : cfg) :
  let st := gen_prepare (g c) in
  map N (rev (fst (fst st))) = q (init c) /\
  (forall n, In n (snd (fst st)) <-> In n (nodes (g c)) /\ pcount (g c) n = 1) /\
  (forall n, In n (nodes (g c)) -> 2 <= pcount (g c) n -> snd st n = rem (init c) n).
Proof.
  cbn zeta. unfold gen_prepare.
  match goal with |- context [fold_left ?step (nodes (g c)) ?st0] =>
    assert (Hi : prep_inv (g c) ([] ++ nodes (g c)) (fold_left step (nodes (g c)) st0))
  end.
  { apply prep_fold_spec.
    - intros st node. cbn zeta. split_nat_tests; try reflexivity; exfalso; lia.
    - split; [reflexivity|split]; [intros n; cbn; tauto|intros n []]. }
  cbn [app] in Hi. destruct Hi as (Hs & Hsi & Hm). split; [|split; assumption].
  rewrite Hs, rev_involutive. reflexivity.
Qed.
Print Assumptions generated_prepare_is_model.

(** ** the `with failure_lock:` block is the [KFailBlk] step *)
Theorem generated_fail_block_is_model (c : cfg) (s : st) (w n : nat) :
  nth_error (ws s) w = Some (WFail n) ->
  next c s (KFailBlk w) =
    let r := gen_fail_block (max_errors c) n (stop s) (errc s) (first s) in
    Some {| q := q s; unfinished := unfinished s; rem := rem s; ws := upd w (WTD (N n)) (ws s);
            stop := fst (fst r); errc := snd (fst r); first := snd r;
            co := co s; nsp := nsp s; intr := intr s; hist := hist s; stepped := stepped s |}.
Proof.
  intros H. cbn [next]. rewrite H. unfold gen_fail_block, over_max. cbn zeta. cbn [fst snd].
  destruct (max_errors c) as [k|]; destruct (first s); destruct (stop s); cbn [orb];
    split_nat_tests; try reflexivity; exfalso; lia.
Qed.
Print Assumptions generated_fail_block_is_model.

(** ** the per-successor release is the [KSucc] step *)
Theorem generated_release_is_model (c : cfg) (s : st) (w n x : nat) (todo : list nat) :
  nth_error (ws s) w = Some (WSucc n todo) -> existsb (Nat.eqb x) todo = true ->
  next c s (KSucc w x) =
    match gen_release (fun y => pcount (g c) y =? 1) (rem s) x with
    | None => None
    | Some (rem', putp) =>
        let s2 := {| q := q s; unfinished := unfinished s; rem := rem';
                     ws := upd w (WSucc n (remove_first x todo)) (ws s); stop := stop s;
                     errc := errc s; first := first s; co := co s; nsp := nsp s; intr := intr s;
                     hist := hist s; stepped := (n, x) :: stepped s |} in
        Some (if putp then put s2 (N x) else s2)
    end.
Proof.
  intros H Hx. cbn [next]. rewrite H, Hx. unfold gen_release.
  destruct (pcount (g c) x =? 1); [reflexivity|].
  destruct (rem s x) as [|r]; [reflexivity|]. cbn zeta.
  repeat match goal with
         | |- context [?a <=? 0] => replace (a <=? 0) with (a =? 0) by (destruct a; reflexivity)
         | |- context [?a <? 1] => replace (a <? 1) with (a =? 0) by (destruct a as [|[|?]]; reflexivity)
         end.
  destruct (r =? 0); reflexivity.
Qed.
Print Assumptions generated_release_is_model.

(** ** the coordinator's finally: stop is set, then exactly [workers] DONE items are put *)
Theorem generated_finally_is_model (c : cfg) (s : st) :
  (co s = CStop -> exists s', next c s KCoord = Some s' /\ stop s' = fst (gen_finally (workers c) (stop s)) /\ co s' = CPut 0) /\
  (forall k, co s = CPut k ->
     next c s KCoord = Some (if k <? snd (gen_finally (workers c) (stop s)) then set_co (put s DONE) (CPut (S k)) else set_co s (CJoinW 0))).
Proof.
  split.
  - intros H. cbn [next]. rewrite H. eexists. split; [reflexivity|]. split; reflexivity.
  - intros k H. cbn [next]. rewrite H. unfold gen_finally. cbn [snd]. destruct (k <? workers c); reflexivity.
Qed.
Print Assumptions generated_finally_is_model.
