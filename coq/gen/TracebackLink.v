(** Hand-written link between the Gallina text GENERATED from src/uberjob/_util/traceback.py (TracebackGen.v) and the model
    Obs/Traceback.v ([get_stack_frame], [render]) that the C19 theorems are about. *)
From Coq Require Import List Arith ZArith Bool Lia.
Import ListNotations.
From UJ Require Import Obs.Traceback.
From UJGen Require Import TracebackGen.
Local Open Scope Z_scope.

Ltac split_tests :=
  repeat match goal with
         | |- context [?x >? ?y] => rewrite (Z.gtb_ltb x y)
         | |- context [?x >=? ?y] => rewrite (Z.geb_leb x y)
         end;
  repeat match goal with
         | |- context [?x =? ?y] => destruct (Z.eqb_spec x y)
         | |- context [?x <? ?y] => destruct (Z.ltb_spec x y)
         | |- context [?x <=? ?y] => destruct (Z.leb_spec x y)
         end.

(** [depth] counts MAX, MAX-1, ..., 0, -1 (truncated); the model's [capture] counts the frames still allowed *)
Lemma gen_recurse_is_capture : forall fu stack k, (length stack < fu)%nat ->
  gen_recurse fu stack (Z.of_nat k - 1) = capture k stack.
Proof.
  induction fu as [|fu IH]; intros stack k Hl; [lia|].
  destruct stack as [|f rest]; cbn [gen_recurse capture]; [destruct k; reflexivity|].
  cbn [length] in Hl.
  destruct k as [|k]; cbn [capture]; split_tests; try reflexivity; try (exfalso; lia).
  f_equal. rewrite <- (IH rest k) by lia. f_equal. lia.
Qed.

Theorem generated_get_stack_frame_is_model (initial_depth : nat) (stack : list frame) :
  gen_get_stack_frame initial_depth stack = Traceback.get_stack_frame initial_depth stack.
Proof.
  unfold gen_get_stack_frame, Traceback.get_stack_frame, MAX_TRACEBACK_DEPTH.
  destruct (length stack <? initial_depth)%nat; [reflexivity|]. f_equal.
  match goal with |- gen_recurse _ _ ?d = capture ?k _ => replace d with (Z.of_nat k - 1) by (cbn; lia) end.
  apply gen_recurse_is_capture. rewrite skipn_length. lia.
Qed.
Print Assumptions generated_get_stack_frame_is_model.

Lemma gen_collect_is_collect (is_ipython : frame -> bool) (s : sframe) : gen_collect is_ipython s = collect is_ipython s.
Proof.
  induction s as [| |f o IH]; cbn [gen_collect collect]; try reflexivity.
  destruct (is_ipython f); cbn [negb]; rewrite ?IH; reflexivity.
Qed.

Theorem generated_render_is_model (is_ipython : frame -> bool) (s : sframe) : gen_render is_ipython s = render is_ipython s.
Proof. unfold gen_render, render. rewrite gen_collect_is_collect. reflexivity. Qed.
Print Assumptions generated_render_is_model.

(** ** C19 theorems, stated of the functions generated from the source *)
From UJ Require Props.C19.
Theorem C19_depth_on_source :
  forall (e : entry) (internal : list frame) (u : frame) (below : list frame),
    length internal = internal_frames true e ->
    exists s, gen_get_stack_frame (initial_depth e) (internal ++ u :: below) = Some s /\
      sframes s = firstn 4 (u :: below) /\
      (length (sframes s) <= 4)%nat /\
      (struncated s = true <-> (4 < length (u :: below))%nat).
Proof. intros e internal u below H. rewrite generated_get_stack_frame_is_model. exact (Props.C19.C19_depth e internal u below H). Qed.
Print Assumptions C19_depth_on_source.

Theorem C19_render_outermost_first_on_source :
  forall s : sframe,
    gen_render (fun _ => false) s = (if struncated s then [RTrunc] else []) ++ map RFrame (rev (sframes s)).
Proof. intros s. rewrite generated_render_is_model. apply Props.C19.C19_render_outermost_first. Qed.
Print Assumptions C19_render_outermost_first_on_source.
