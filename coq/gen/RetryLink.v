(** Hand-written link between the Gallina text GENERATED from src/uberjob/_util/retry.py (RetryGen.v) and the model
    [Retry.retry_call]. *)
From Coq Require Import List Arith ZArith Bool Lia.
From UJ Require Import Engine.Retry.
From UJGen Require Import RetryGen.
Local Open Scope Z_scope.

Lemma gen_loop_is_loop (f : nat -> outcome) (attempts : Z) : 2 <= attempts ->
  forall fuel i, gen_loop f attempts i fuel = loop f (Z.to_nat attempts) i fuel.
Proof.
  intros Ha. induction fuel as [|fu IH]; intros i; cbn [gen_loop loop]; [reflexivity|].
  destruct (f i); try reflexivity.
  assert (E : gen_is_last (Z.of_nat i) attempts = Nat.eqb (S i) (Z.to_nat attempts)).
  { unfold gen_is_last. destruct (Nat.eqb_spec (S i) (Z.to_nat attempts));
      repeat match goal with
             | |- context [?x =? ?y] => destruct (Z.eqb_spec x y)
             | |- context [?x <? ?y] => destruct (Z.ltb_spec x y)
             | |- context [?x <=? ?y] => destruct (Z.leb_spec x y)
             | |- context [?x >? ?y] => rewrite (Z.gtb_ltb x y)
             | |- context [?x >=? ?y] => rewrite (Z.geb_leb x y)
             end; try reflexivity; exfalso; lia. }
  rewrite E, IH. reflexivity.
Qed.

Theorem generated_retry_is_model (attempts : Z) (f : nat -> outcome) : gen_retry_call attempts f = retry_call attempts f.
Proof.
  unfold gen_retry_call, retry_call.
  repeat match goal with
         | |- context [?x >? ?y] => rewrite (Z.gtb_ltb x y)
         | |- context [?x >=? ?y] => rewrite (Z.geb_leb x y)
         end.
  destruct (Z.ltb_spec attempts 1) as [L|L];
    repeat match goal with
           | |- context [?x =? ?y] => destruct (Z.eqb_spec x y)
           | |- context [?x <? ?y] => destruct (Z.ltb_spec x y)
           | |- context [?x <=? ?y] => destruct (Z.leb_spec x y)
           end; try reflexivity; try (exfalso; lia).
  apply gen_loop_is_loop. lia.
Qed.
Print Assumptions generated_retry_is_model.

(** ** A C10 theorem, stated of the function generated from the source *)
From UJ Require Props.C10.
Theorem C10_retry_attempts_le_on_source :
  forall (attempts : Z) (f : nat -> outcome), (Z.of_nat (snd (gen_retry_call attempts f)) <= Z.max attempts 0)%Z.
Proof. intros. rewrite generated_retry_is_model. apply Props.C10.C10_retry_attempts_le. Qed.
Print Assumptions C10_retry_attempts_le_on_source.
