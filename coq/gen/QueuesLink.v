(** Hand-written link between the Gallina text GENERATED from src/uberjob/_execution/scheduler.py (QueuesGen.v) and the models of
    Engine/Queues.v, whose refinement of the bag semantics of Engine.v's queue is proved in QueuesProofs.v. *)
From Coq Require Import List Arith Bool Lia.
Import ListNotations.
From UJ Require Import Engine.Engine Engine.Queues.
From UJGen Require Import QueuesGen.

Lemma upd_length {A} (i : nat) (x : A) (l : list A) : length (upd i x l) = length l.
Proof. revert i. induction l as [|h t IH]; intros [|i]; cbn [upd length]; try reflexivity. rewrite IH. reflexivity. Qed.

Lemma nth_error_last {A} (l : list A) (x : A) : nth_error (l ++ [x]) (length l) = Some x.
Proof. induction l as [|h t IH]; cbn; [reflexivity|exact IH]. Qed.

Theorem generated_rq_put_is_model {A} (i : nat) (x : A) (l : list A) : gen_rq_put i x l = rq_put i x l.
Proof.
  unfold gen_rq_put, rq_put. cbv zeta.
  assert (L : length (l ++ [x]) - 1 = length l) by (rewrite app_length; cbn; lia).
  destruct (Nat.ltb_spec i (length (l ++ [x]))) as [Hi|Hi]; cbn [negb].
  - rewrite L, nth_error_last. destruct (nth_error (l ++ [x]) i) as [b|] eqn:E; [|reflexivity].
    rewrite upd_length, L. reflexivity.
  - assert (E : nth_error (l ++ [x]) i = None) by (apply nth_error_None; lia). rewrite E. reflexivity.
Qed.
Print Assumptions generated_rq_put_is_model.

Theorem generated_rq_get_is_model {A} (l : list A) : gen_rq_get l = rq_get l.
Proof. reflexivity. Qed.
Print Assumptions generated_rq_get_is_model.

Theorem generated_rq_init_is_model {A} (shuffled : list A) :
  fst (gen_rq_init shuffled) = rq_init shuffled /\ snd (gen_rq_init shuffled) = q_unfinished0 (rq_init shuffled).
Proof. split; reflexivity. Qed.
Print Assumptions generated_rq_init_is_model.

Theorem generated_fifo_init_is_model {A} (items : list A) :
  fst (gen_fifo_init items) = fifo_init items /\ snd (gen_fifo_init items) = q_unfinished0 (fifo_init items).
Proof. split; reflexivity. Qed.
Print Assumptions generated_fifo_init_is_model.

Theorem generated_pq_is_model {A K} (hify : list (K * A) -> list (K * A)) (hpush : list (K * A) -> K * A -> list (K * A))
        (hpop : list (K * A) -> option ((K * A) * list (K * A))) (prio : A -> K) :
  (forall items, fst (gen_pq_init hify prio items) = pq_init hify prio items /\
                 snd (gen_pq_init hify prio items) = q_unfinished0 (pq_init hify prio items)) /\
  (forall x q, gen_pq_put hpush prio x q = pq_put hpush prio x q) /\
  (forall q, gen_pq_get hpop q = pq_get hpop q).
Proof. repeat split. Qed.
Print Assumptions generated_pq_is_model.

(** the dispatch of create_queue: no scheduler = 'default' = the priority queue; an unknown name is rejected *)
Theorem generated_create_queue_dispatch (s : sched_name) :
  gen_create_queue s = match s with
                       | SNone | SDefault => Some QPriority
                       | SCheap => Some QFifo
                       | SRandom => Some QRandom
                       | SOther => None
                       end.
Proof. destruct s; reflexivity. Qed.
Print Assumptions generated_create_queue_dispatch.
