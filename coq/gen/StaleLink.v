(** Hand-written link between the Gallina text GENERATED from src/uberjob/_transformations/caching.py
    (StaleGen.v, rewritten on every run of ./check C05 by harness/translate_stale.py) and the model
    [Logical.stale_step] that the C03/C05/C08 theorems are about. *)
From Coq Require Import List ZArith Bool Lia.
From UJ Require Import Cache.Logical.
From UJGen Require Import StaleGen.
Local Open Scope Z_scope.

Lemma generated_cond_is_model (ma : option Z) (t : Z) (fresh : option Z) (src : bool) :
  gen_cond ma t fresh src = (is_some ma || negb src) && (gt_opt ma t || gt_opt fresh t).
Proof.
  unfold gen_cond, ogt, oge, smax, gt_opt, is_some.
  destruct ma as [a|], fresh as [f|], src; cbn [negb orb andb];
    repeat match goal with |- context [?x <? ?y] => destruct (Z.ltb_spec x y) end;
    repeat match goal with |- context [?x <=? ?y] => destruct (Z.leb_spec x y) end;
    cbn [negb orb andb]; try reflexivity; exfalso; lia.
Qed.

Theorem generated_step_is_model (reg : registry) (sg : sstate) (fresh : option Z) (acc : list sinfo) (i : nat) (nd : node) :
  gen_process (existsb (fun j => fst (slook acc j)) (preds_of nd))
              (match reg i with None => None | Some e => Some (is_src e, mtime sg (store e)) end)
              (smax_list (map (fun j => snd (slook acc j)) (preds_of nd))) fresh
  = stale_step reg sg fresh acc i nd.
Proof.
  unfold gen_process, gen_no_stale_ancestor, stale_step.
  destruct (existsb _ _); [reflexivity|].
  destruct (reg i) as [e|]; [|reflexivity].
  destruct (mtime sg (store e)) as [t|]; [|reflexivity].
  now rewrite generated_cond_is_model.
Qed.
Print Assumptions generated_step_is_model.

(** [safe_max] as written in src/uberjob/_util/__init__.py (compiled to [gen_safe_max] in StaleGen.v) is the model's [smax_list]: the
    maximum of the times that exist, [None] when there is none - whatever the order of the values and wherever the [None]s are. *)
Lemma fold_left_max_assoc (r : list Z) (x y : Z) : fold_left Z.max r (Z.max x y) = Z.max x (fold_left Z.max r y).
Proof.
  revert x y; induction r as [|a r IH]; intros x y; cbn [fold_left]; [reflexivity|].
  rewrite <- Z.max_assoc. apply IH.
Qed.

Theorem generated_safe_max_is_model (l : list (option Z)) : gen_safe_max l = smax_list l.
Proof.
  unfold gen_safe_max, smax_list.
  induction l as [|a l IH]; [reflexivity|].
  cbn [fold_right]. rewrite <- IH. clear IH.
  destruct a as [x|]; cbn [py_not_none flat_map app]; fold (py_not_none l).
  - destruct (py_not_none l) as [|y r]; cbn [py_max_default_none smax fold_left]; [reflexivity|].
    now rewrite fold_left_max_assoc.
  - destruct (py_max_default_none (py_not_none l)); reflexivity.
Qed.
Print Assumptions generated_safe_max_is_model.

(** The stale step with the source's own [safe_max] in the place where caching.py calls it. *)
Theorem generated_step_on_source_safe_max (reg : registry) (sg : sstate) (fresh : option Z) (acc : list sinfo) (i : nat) (nd : node) :
  gen_process (existsb (fun j => fst (slook acc j)) (preds_of nd))
              (match reg i with None => None | Some e => Some (is_src e, mtime sg (store e)) end)
              (gen_safe_max (map (fun j => snd (slook acc j)) (preds_of nd))) fresh
  = stale_step reg sg fresh acc i nd.
Proof. rewrite generated_safe_max_is_model. apply generated_step_is_model. Qed.
Print Assumptions generated_step_on_source_safe_max.
