(** Hand-written link between the Gallina text GENERATED from src/uberjob/_transformations/caching.py
    (StaleGen.v, rewritten on every run of ./check C05 by harness/translate_stale.py) and the model
    [Logical.stale_step] that the C03/C05/C08 theorems are about. *)
From Coq Require Import List ZArith Bool Lia.
From UJ Require Import Cache.Logical.
From UJGen Require Import StaleGen.
Local Open Scope Z_scope.

Lemma generated_cond_is_model (ma : option Z) (t : Z) (fresh : option Z) (src : bool) :
  gen_cond ma t fresh src = (is_some ma || negb src) && (gt_opt ma t || gt_opt fresh t).
Proof.
  unfold gen_cond, ogt, oge, smax, gt_opt, is_some.
  destruct ma as [a|], fresh as [f|], src; cbn [negb orb andb];
    repeat match goal with |- context [?x <? ?y] => destruct (Z.ltb_spec x y) end;
    repeat match goal with |- context [?x <=? ?y] => destruct (Z.leb_spec x y) end;
    cbn [negb orb andb]; try reflexivity; exfalso; lia.
Qed.

Theorem generated_step_is_model (reg : registry) (sg : sstate) (fresh : option Z) (acc : list sinfo) (i : nat) (nd : node) :
  gen_process (existsb (fun j => fst (slook acc j)) (preds_of nd))
              (match reg i with None => None | Some e => Some (is_src e, mtime sg (store e)) end)
              (smax_list (map (fun j => snd (slook acc j)) (preds_of nd))) fresh
  = stale_step reg sg fresh acc i nd.
Proof.
  unfold gen_process, gen_no_stale_ancestor, stale_step.
  destruct (existsb _ _); [reflexivity|].
  destruct (reg i) as [e|]; [|reflexivity].
  destruct (mtime sg (store e)) as [t|]; [|reflexivity].
  now rewrite generated_cond_is_model.
Qed.
Print Assumptions generated_step_is_model.
