(** Hand-written link between the Gallina text GENERATED from src/uberjob/stores/_file_store.py (MtimeGen.v, rewritten on every run of
    ./check C12 by harness/translate_mtime.py) and the model's [store_mtime] that the C12 modified-time theorems are about. *)
From Coq Require Import List ZArith Bool.
From UJ Require Import Store.FS Store.Codec Store.CodecProofs.
From UJGen Require Import MtimeGen.
Local Open Scope Z_scope.

Theorem generated_get_modified_time_is_model (p : path) (s : state) :
  gen_get_modified_time p s = store_mtime p s.
Proof.
  unfold gen_get_modified_time, py_getmtime, py_fromtimestamp, store_mtime.
  destruct (mtime_of s p); reflexivity.
Qed.
Print Assumptions generated_get_modified_time_is_model.

(** C12, of the function as written in the source: the modified time is None exactly when nothing is stored - whatever the
    timestamp of the file that is there (the epoch itself included: [Some 0] is not [None]). *)
Theorem C12_mtime_none_iff_absent_on_source (p : path) (s : state) :
  (gen_get_modified_time p s = None <-> read_file s p = None) /\
  (gen_get_modified_time p s = None <-> files s p = None) /\
  (forall b, files s p = Some (b, 0) -> gen_get_modified_time p s = Some 0).
Proof.
  rewrite generated_get_modified_time_is_model.
  destruct (mtime_none_iff_absent p s) as [H1 H2].
  split; [exact H1|]. split; [exact H2|].
  intros b Hb. unfold store_mtime, mtime_of. rewrite Hb. reflexivity.
Qed.
Print Assumptions C12_mtime_none_iff_absent_on_source.

(** PathSource: the same modified time; a required path that does not exist is an error, never a silent [None] - and a file that exists is
    never reported missing, whatever its timestamp. *)
Theorem generated_path_source_mtime_is_model (required : bool) (p : path) (s : state) :
  gen_path_source_mtime required p s =
  match store_mtime p s with
  | Some t => Returned (Some t)
  | None => if required then RaisedOSError else Returned None
  end.
Proof.
  unfold gen_path_source_mtime. rewrite generated_get_modified_time_is_model.
  destruct (store_mtime p s), required; reflexivity.
Qed.
Print Assumptions generated_path_source_mtime_is_model.
