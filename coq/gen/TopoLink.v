(** Hand-written link between the Gallina text GENERATED from src/uberjob/_util/networkx_util.py (TopoGen.v) and the models
    of Base/Topo.v / Engine.v ([pcount], [is_source], [kahn_run], [all_ancestors_fuel]) that the C01 / C04 / C07 theorems use. *)
From Coq Require Import List Arith Bool Lia.
Import ListNotations.
From UJ Require Import Engine.Engine Base.Topo Base.TopoProofs.
From UJGen Require Import TopoGen.

Theorem generated_predecessor_count_is_model (g : graph) (n : nat) : gen_predecessor_count g n = pcount g n.
Proof. unfold gen_predecessor_count. apply preds_first_length. Qed.
Print Assumptions generated_predecessor_count_is_model.

Theorem generated_is_source_node_is_model (g : graph) (n : nat) : gen_is_source_node g n = is_source g n.
Proof.
  unfold gen_is_source_node, is_source. rewrite <- preds_first_length.
  repeat match goal with |- context [?a =? ?b] => destruct (Nat.eqb_spec a b) end;
    destruct (preds_first g n); cbn [length] in *; try reflexivity; try discriminate; try lia.
Qed.
Print Assumptions generated_is_source_node_is_model.

(** the inner loop is [relax] *)
Lemma gen_inner_is_relax : forall ss cnt q, gen_inner ss cnt q = relax ss cnt q.
Proof.
  induction ss as [|s t IH]; intros cnt q; cbn [gen_inner relax]; [reflexivity|].
  unfold cdec. destruct (cnt s) as [|c] eqn:E; [reflexivity|].
  rewrite IH. cbn beta. rewrite Nat.eqb_refl.
  repeat match goal with
         | |- context [?a <=? 0] => replace (a <=? 0) with (a =? 0) by (destruct a; reflexivity)
         | |- context [?a <? 1] => replace (a <? 1) with (a =? 0) by (destruct a as [|[|?]]; reflexivity)
         end.
  reflexivity.
Qed.

(** results do not depend on the counters outside pointwise equality *)
Lemma relax_ext : forall ss c1 c2 q, (forall n, c1 n = c2 n) ->
  match relax ss c1 q, relax ss c2 q with
  | Some (d1, q1), Some (d2, q2) => q1 = q2 /\ forall n, d1 n = d2 n
  | None, None => True
  | _, _ => False
  end.
Proof.
  induction ss as [|s t IH]; intros c1 c2 q H; cbn [relax]; [split; [reflexivity|exact H]|].
  rewrite <- (H s). destruct (c1 s) as [|c]; [exact I|].
  apply IH. intros n. destruct (n =? s); [reflexivity|apply H].
Qed.

Lemma existsb_ext_cnt (c1 c2 : nat -> nat) l : (forall n, c1 n = c2 n) ->
  existsb (fun n => negb (c1 n =? 0)) l = existsb (fun n => negb (c2 n =? 0)) l.
Proof. intros H. induction l as [|x l IH]; cbn [existsb]; [reflexivity|]. rewrite H, IH. reflexivity. Qed.

Lemma gen_loop_is_kahn_loop : forall g fuel c1 c2 q out, (forall n, c1 n = c2 n) ->
  gen_loop g fuel c1 q out = kahn_loop g fuel c2 q out.
Proof.
  intros g. induction fuel as [|f IH]; intros c1 c2 q out H; cbn [gen_loop kahn_loop]; [reflexivity|].
  destruct q as [|node q]; [rewrite (existsb_ext_cnt c1 c2 _ H); reflexivity|].
  rewrite gen_inner_is_relax.
  pose proof (relax_ext (succs_first g node) c1 c2 q H) as R.
  destruct (relax (succs_first g node) c1 q) as [[d1 q1]|], (relax (succs_first g node) c2 q) as [[d2 q2]|]; try contradiction; [|reflexivity].
  destruct R as [-> Hd]. apply IH. exact Hd.
Qed.

(** the initialising loop: after the nodes [seen], the counters are [pcount] on [seen] (0 elsewhere) and q holds the sources
    among [seen], newest first *)
Definition init_inv (g : graph) (seen : list nat) (st : (nat -> nat) * list nat) : Prop :=
  (forall n, fst st n = if existsb (Nat.eqb n) seen then pcount g n else 0) /\ snd st = rev (filter (is_source g) seen).

Lemma init_fold_spec (g : graph) (step : (nat -> nat) * list nat -> nat -> (nat -> nat) * list nat) :
  (forall st node, step st node = if is_source g node then (fst st, node :: snd st) else (cset (fst st) node (pcount g node), snd st)) ->
  forall l seen st, init_inv g seen st -> init_inv g (seen ++ l) (fold_left step l st).
Proof.
  intros Hstep. induction l as [|a l IH]; intros seen st [Hc Hq]; cbn [fold_left].
  - rewrite app_nil_r. split; assumption.
  - replace (seen ++ a :: l) with ((seen ++ [a]) ++ l) by (rewrite <- app_assoc; reflexivity).
    apply IH. rewrite Hstep. unfold init_inv.
    destruct (is_source g a) eqn:Sa; cbn [fst snd].
    + split.
      * intros n. rewrite Hc, existsb_app. cbn [existsb]. rewrite orb_false_r.
        destruct (existsb (Nat.eqb n) seen); [reflexivity|]. cbn [orb].
        destruct (Nat.eqb_spec n a) as [->|]; [|reflexivity].
        unfold is_source in Sa. apply Nat.eqb_eq in Sa. symmetry. exact Sa.
      * rewrite filter_app. cbn [filter]. rewrite Sa, rev_app_distr. cbn [rev app]. rewrite Hq. reflexivity.
    + split.
      * intros n. unfold cset. rewrite existsb_app. cbn [existsb]. rewrite orb_false_r.
        destruct (Nat.eqb_spec n a) as [->|]; [rewrite orb_true_r; reflexivity|]. rewrite orb_false_r. apply Hc.
      * rewrite filter_app. cbn [filter]. rewrite Sa, app_nil_r. exact Hq.
Qed.

Lemma pcount_outside (g : graph) (n : nat) : graph_wf g -> existsb (Nat.eqb n) (nodes g) = false -> pcount g n = 0.
Proof.
  intros [_ Hw] Hn. unfold pcount. destruct (preds g n) as [|p t] eqn:E; [reflexivity|]. exfalso.
  assert (Hp : edge g p n) by (apply preds_In; rewrite E; now left).
  apply Hw in Hp. destruct Hp as [_ Hin].
  assert (existsb (Nat.eqb n) (nodes g) = true) by (apply existsb_exists; exists n; split; [assumption|apply Nat.eqb_refl]).
  congruence.
Qed.

(** [topological_sort], fully iterated, is [kahn_run] on every well-formed graph (edges join nodes of the graph) *)
Theorem generated_topological_sort_is_model (g : graph) : graph_wf g -> gen_topological_sort g = kahn_run g.
Proof.
  intros Hwf. unfold gen_topological_sort, kahn_run, gen_init.
  match goal with |- context [fold_left ?step (nodes g) ?st0] =>
    assert (Hi : init_inv g ([] ++ nodes g) (fold_left step (nodes g) st0))
  end.
  { apply init_fold_spec.
    - intros st node. cbn zeta. rewrite preds_first_length. unfold is_source.
      repeat match goal with
             | |- context [?a <=? ?b] => destruct (Nat.leb_spec a b)
             | |- context [?a <? ?b] => destruct (Nat.ltb_spec a b)
             | |- context [?a =? ?b] => destruct (Nat.eqb_spec a b)
             end; cbn [negb]; try reflexivity; exfalso; lia.
    - split; [intros n; reflexivity|reflexivity]. }
  cbn [app] in Hi. destruct Hi as [Hc Hq]. rewrite Hq. unfold kahn_q0.
  apply gen_loop_is_kahn_loop. intros n. rewrite Hc.
  destruct (existsb (Nat.eqb n) (nodes g)) eqn:E; [reflexivity|]. symmetry. apply pcount_outside; assumption.
Qed.
Print Assumptions generated_topological_sort_is_model.

Lemma gen_anc_loop_is_anc_loop (g : graph) : forall fuel visited frontier, gen_anc_loop g fuel visited frontier = anc_loop g fuel visited frontier.
Proof.
  induction fuel as [|f IH]; intros visited frontier; cbn [gen_anc_loop anc_loop]; [reflexivity|].
  destruct frontier as [|node fr]; [reflexivity|]. destruct (inb node visited); apply IH.
Qed.

Theorem generated_all_ancestors_is_model (g : graph) (srcs : list nat) : gen_all_ancestors g srcs = all_ancestors_fuel g srcs.
Proof. unfold gen_all_ancestors, all_ancestors_fuel. apply gen_anc_loop_is_anc_loop. Qed.
Print Assumptions generated_all_ancestors_is_model.

(** ** The C07 theorems, stated of the function generated from the source *)
From UJ Require Props.C07.
From Coq Require Import Permutation.

Definition gen_kahn (g : graph) : option (list nat) := match gen_topological_sort g with KOk l => Some l | _ => None end.

Lemma gen_kahn_is_kahn (g : graph) : graph_wf g -> gen_kahn g = kahn g.
Proof. intros H. unfold gen_kahn, kahn. rewrite (generated_topological_sort_is_model g H). reflexivity. Qed.

Theorem C07_cycle_rejected_on_source : forall g : graph, graph_wf g -> (gen_kahn g <> None <-> acyclic g).
Proof. intros g H. rewrite (gen_kahn_is_kahn g H). apply Props.C07.C07_cycle_rejected. exact H. Qed.
Print Assumptions C07_cycle_rejected_on_source.

Theorem C07_kahn_order_on_source : forall (g : graph) (l : list nat), graph_wf g -> gen_kahn g = Some l ->
  Permutation l (nodes g) /\ forall a b, edge g a b -> before a b l.
Proof. intros g l H E. rewrite (gen_kahn_is_kahn g H) in E. apply Props.C07.C07_kahn_order; assumption. Qed.
Print Assumptions C07_kahn_order_on_source.
