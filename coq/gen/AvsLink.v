(** Hand-written link between the Gallina text GENERATED from `_add_value_store` in src/uberjob/_transformations/caching.py
    (AvsGen.v) and the model [Transform.add_value_store]. *)
From Coq Require Import List Arith Bool.
Import ListNotations.
From UJ Require Import Base.Graph Cache.Transform.
From UJGen Require Import AvsGen.

Lemma is_dep_KDep k : is_dep k = true -> k = KDep.
Proof. destruct k; cbn; congruence. Qed.

Lemma gen_move_is_move_edge n rd wr stale p e : gen_move n rd wr stale p e = move_edge n rd wr stale p e.
Proof.
  unfold gen_move, move_edge. destruct (is_dep (ekind e)) eqn:E; cbn [negb]; [|reflexivity].
  rewrite (is_dep_KDep _ E). reflexivity.
Qed.

Lemma fold_left_ext {A B} (f g : A -> B -> A) l a : (forall x y, f x y = g x y) -> fold_left f l a = fold_left g l a.
Proof. intros H. revert a. induction l as [|x l IH]; intros a; cbn; [reflexivity|]. now rewrite H, IH. Qed.

Theorem generated_avs_is_model (p : pgraph) (c : nat) (e : entry) :
  gen_add_value_store p c (enode e) (esource e) (estale e) = add_value_store p c e.
Proof.
  unfold gen_add_value_store, add_value_store, lit_id, read_id, write_id. cbv zeta.
  rewrite (fold_left_ext (gen_move (enode e) (S c) (S (S c)) (estale e)) (move_edge (enode e) (S c) (S (S c)) (estale e)));
    [|intros; apply gen_move_is_move_edge].
  destruct (estale e), (esource e); reflexivity.
Qed.
Print Assumptions generated_avs_is_model.
