(** Hand-written link between the Gallina text GENERATED from src/uberjob/stores/_file_store.py (StagedGen.v: the control structure
    of staged_write_path / staged_write) and the model Store/Staged.v, plus the C11 atomicity theorem restated of the generated program. *)
From Coq Require Import List Arith Bool ZArith.
Import ListNotations.
From UJ Require Import Store.FS Store.Staged.
From UJGen Require Import StagedGen.
From UJ Require Props.C11.

Lemma gen_handler_is_handler f i st s : gen_handler f i st s = handler f i st s.
Proof. reflexivity. Qed.

Theorem generated_staged_write_is_model (f : fault) (st p : path) (chunks : list bytes) (ser_ok : bool) (s : state) :
  gen_staged_write f st p chunks ser_ok s = staged_write true f st p chunks ser_ok s.
Proof.
  unfold gen_staged_write, staged_write, gen_finish, finish.
  destruct (with_open f st chunks ser_ok s) as [[s1 r] i]. destruct r; try reflexivity;
    try (destruct (step f i (Rename st p) s1) as [s2 r2]; destruct r2; reflexivity).
Qed.
Print Assumptions generated_staged_write_is_model.

(** C11 (old or new, never a part; the modified time moves only with the new value), of the program generated from the source *)
Theorem C11_atomic_on_source :
  forall (f : fault) (st p : path) (chunks : list bytes) (ser_ok : bool) (s : state),
    p <> st -> opened s = None -> clock_ahead s ->
    let s' := fst (gen_staged_write f st p chunks ser_ok s) in
    let installed := exists t, files s' p = Some (new_content chunks, t) /\ (clock s <= t)%Z in
    (files s' p = files s p \/ installed) /\
    (mtime_of s' p <> mtime_of s p <-> installed).
Proof.
  intros f st p chunks ser_ok s. rewrite generated_staged_write_is_model. apply Props.C11.C11_old_or_new.
Qed.
Print Assumptions C11_atomic_on_source.
