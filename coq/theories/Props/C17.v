From Coq Require Import List Arith.
Import ListNotations.
From UJ Require Import Engine.Engine Engine.EngineInv Engine.EngineOrd Engine.EngineTerm.

(** KeyboardInterrupt while the coordinator waits in queue.join(): its handler's first statement sets stop ... *)
Theorem C17_interrupt_sets_stop :
  forall (c : cfg) (s s1 : st), next c s KIntr = Some s1 -> co s = CJoin ->
  co s1 = CStop /\ intr s1 = Some IJoin /\
  exists s2, next c s1 KCoord = Some s2 /\ stop s2 = true /\ hist s2 = hist s1.
Proof. exact intr_join_sets_stop. Qed.
Print Assumptions C17_interrupt_sets_stop.

(** ... and from then on no call is ever started, along any continuation. *)
Theorem C17_no_start_after_stop :
  forall (c : cfg) (ks : list choice) (s s' : st), run_from c s ks = Some s' -> stop s = true ->
  forall n, count_ev (EStart n) (hist s') = count_ev (EStart n) (hist s).
Proof. exact no_start_after_stop_run. Qed.
Print Assumptions C17_no_start_after_stop.

(** The interrupted run still terminates: from every reachable state (interrupted in the join or not)
    a final state is reachable, every step decreases the measure (C07), and at the final state every
    thread has exited and the outcome is the KeyboardInterrupt. *)
Theorem C17_interrupted_run_finishes :
  forall (c : cfg) (s : st), cfg_ok c -> reachable c s -> intr s <> Some ISpawn ->
  exists ks s', run_from c s ks = Some s' /\ final s' /\ ~ In KIntr ks.
Proof. exact can_finish. Qed.
Print Assumptions C17_interrupted_run_finishes.

Theorem C17_interrupted_outcome :
  forall s : st, final s -> intr s <> None -> result s = Some Interrupted.
Proof. exact interrupted_result. Qed.
Print Assumptions C17_interrupted_outcome.

Theorem C17_threads_exited :
  forall (c : cfg) (s : st), cfg_ok c -> reachable c s -> intr s <> Some ISpawn -> final s ->
  (forall w pc, nth_error (ws s) w = Some pc -> pc = WExited) /\ forall k, next c s k = None.
Proof. exact final_quiescent. Qed.
Print Assumptions C17_threads_exited.

(** Finding F6: an interrupt delivered while the pool is still being started deadlocks the model of the
    current code (the started workers never receive DONE). *)
Theorem C17_interrupt_in_spawn_refuted :
  exists c s, cfg_ok c /\ reachable c s /\ ~ final s /\ forall k, next c s k = None.
Proof. exact spawn_interrupt_deadlock_refuted. Qed.
Print Assumptions C17_interrupt_in_spawn_refuted.
