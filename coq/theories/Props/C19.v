From Coq Require Import List Arith.
Import ListNotations.
From UJ Require Import Obs.Traceback Obs.TracebackProofs.

Theorem C19_head_is_user_line :
  forall (e : entry) (internal : list frame) (u : frame) (below : list frame),
    length internal = internal_frames true e ->
    exists s, captured true e (internal ++ u :: below) = Some s /\ shead s = Some u.
Proof. exact head_is_user_line. Qed.
Print Assumptions C19_head_is_user_line.

Theorem C19_head_is_user_line_prefix_refuted :
  exists (internal : list frame) (u : frame) (below : list frame),
    length internal = internal_frames false ERunOutput /\
    exists s, captured false ERunOutput (internal ++ u :: below) = Some s /\ shead s <> Some u.
Proof. exact head_is_user_line_prefix_refuted. Qed.
Print Assumptions C19_head_is_user_line_prefix_refuted.

Theorem C19_depth :
  forall (e : entry) (internal : list frame) (u : frame) (below : list frame),
    length internal = internal_frames true e ->
    exists s, captured true e (internal ++ u :: below) = Some s /\
      sframes s = firstn 4 (u :: below) /\
      length (sframes s) <= 4 /\
      (struncated s = true <-> 4 < length (u :: below)).
Proof. exact depth_limit. Qed.
Print Assumptions C19_depth.

Theorem C19_render_outermost_first :
  forall s : sframe,
    render (fun _ => false) s =
    (if struncated s then [RTrunc] else []) ++ map RFrame (rev (sframes s)).
Proof. exact render_outermost_first. Qed.
Print Assumptions C19_render_outermost_first.

Theorem C19_call_is_failing_node :
  forall p : phase,
    frame_origin (failing_call p) =
    match p with
    | StaleCheck n => CreatedAt n
    | RunNode (Orig n) => CreatedAt n
    | RunNode (ReadOf n) => RegisteredAt n
    | RunNode (WriteOf n) => RegisteredAt n
    end.
Proof. exact failing_call_frame. Qed.
Print Assumptions C19_call_is_failing_node.
