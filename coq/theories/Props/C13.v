From Coq Require Import List Arith Bool.
Import ListNotations.
From UJ Require Import Obs.Alias Obs.AliasProofs.

Theorem C13_frame :
  forall (h0 : heap) (p r : addr),
    (forall (ps : run_params) (oc : outcome) (a : addr),
        a < length h0 -> nth_error (run h0 (run_pipeline false h0 p r ps oc)) a = nth_error h0 a) /\
    (forall (g : addr) (removed : list addr) (groups : list (list nat * list addr * list edge)) (a : addr),
        a < length h0 -> nth_error (run h0 (render_cmds h0 g removed groups)) a = nth_error h0 a).
Proof. exact frame. Qed.
Print Assumptions C13_frame.

Theorem C13_copy_independent :
  (forall (h : heap) (p : addr) (ops : list bop),
      p < length h -> graph_of h p < length h ->
      let h1 := run h (copy_plan_cmds h p) in
      let pc := S (length h) in
      (forall a, a < length h -> nth_error (bops_run h1 pc ops) a = nth_error h a) /\
      (nth_error (bops_run h1 p ops) pc = nth_error h1 pc /\
       nth_error (bops_run h1 p ops) (length h) = nth_error h1 (length h) /\
       forall a, a < length h1 -> a <> p -> a <> graph_of h p -> nth_error (bops_run h1 p ops) a = nth_error h1 a)) /\
  (forall (h : heap) (r : addr) (ops : list rop),
      r < length h -> (forall e, In e (entries_of h r) -> snd e < length h) ->
      let h1 := run h (copy_registry_cmds true h r) in
      let rc := copied_registry true h r in
      (forall a, a < length h -> nth_error (rops_run h1 rc ops) a = nth_error h a) /\
      (forall a, length h <= a -> a < length h1 -> nth_error (rops_run h1 r ops) a = nth_error h1 a)).
Proof. exact (conj plan_copy_independent registry_copy_independent). Qed.
Print Assumptions C13_copy_independent.

Theorem C13_rerun_same_meaning :
  forall (h0 : heap) (p r : addr) (ps : run_params) (oc : outcome),
    refs_ok h0 p r ->
    let h1 := run h0 (run_pipeline false h0 p r ps oc) in
    view h1 p r = view h0 p r /\ refs_ok h1 p r /\
    forall ps' oc' a, a < length h0 ->
      nth_error (run h1 (run_pipeline false h1 p r ps' oc')) a = nth_error h0 a.
Proof. exact rerun_same_meaning. Qed.
Print Assumptions C13_rerun_same_meaning.

Theorem C13_frame_variant_inplace_refuted :
  exists h0 p r ps oc a, a < length h0 /\ refs_ok h0 p r /\
    nth_error (run h0 (run_pipeline true h0 p r ps oc)) a <> nth_error h0 a.
Proof. exact frame_inplace_refuted. Qed.
Print Assumptions C13_frame_variant_inplace_refuted.

Theorem C13_copy_variant_shared_regval_refuted :
  exists h r ops a, a < length h /\ r < length h /\
    (forall e, In e (entries_of h r) -> snd e < length h) /\
    nth_error (rops_run (run h (copy_registry_cmds false h r)) (copied_registry false h r) ops) a <> nth_error h a.
Proof. exact registry_copy_shared_refuted. Qed.
Print Assumptions C13_copy_variant_shared_regval_refuted.
