From Coq Require Import List Arith Bool ZArith.
Import ListNotations.
From UJ Require Import Store.FS Store.Staged Store.StagedProofs Store.Codec Store.CodecProofs.
Open Scope Z_scope.

Theorem C12_text_roundtrip :
  forall (enc : text -> bytes) (dec : bytes -> option text) (repr : text -> Prop),
    (forall s, repr s -> dec (enc s) = Some s) ->
    forall (s : text) (st p : path) (fs : state),
      repr s -> p <> st -> opened fs = None ->
      let w := store_write text (text_ser enc true) st p s fs in
      snd w = Ok /\ store_read text (text_deser dec true) p (fst w) = Some s.
Proof. exact text_roundtrip. Qed.
Print Assumptions C12_text_roundtrip.

Theorem C12_text_roundtrip_prefix_refuted :
  exists s : text,
    forall (enc : text -> bytes) (dec : bytes -> option text),
      dec (enc s) = Some s ->
      forall (st p : path) (fs : state), p <> st -> opened fs = None ->
        let w := store_write text (text_ser enc false) st p s fs in
        snd w = Ok /\ store_read text (text_deser dec false) p (fst w) = Some [LF] /\
        store_read text (text_deser dec false) p (fst w) <> Some s.
Proof. exact text_roundtrip_prefix_refuted. Qed.
Print Assumptions C12_text_roundtrip_prefix_refuted.

Theorem C12_binary_roundtrip :
  forall (b : bytes) (st p : path) (fs : state),
    p <> st -> opened fs = None ->
    let w := store_write bytes bin_ser st p b fs in
    snd w = Ok /\ store_read bytes bin_deser p (fst w) = Some b.
Proof. exact binary_roundtrip. Qed.
Print Assumptions C12_binary_roundtrip.

Theorem C12_json_roundtrip :
  forall (J : Type) (enc : text -> bytes) (dec : bytes -> option text) (repr : text -> Prop)
         (dumps : J -> text) (loads : text -> option J) (dom : J -> Prop),
    (forall s, repr s -> dec (enc s) = Some s) ->
    (forall v, dom v -> loads (dumps v) = Some v) ->
    (forall v, dom v -> ~ In CR (dumps v)) ->
    (forall v, dom v -> repr (dumps v)) ->
    forall (v : J) (st p : path) (fs : state),
      dom v -> p <> st -> opened fs = None ->
      let w := store_write J (json_ser enc dumps) st p v fs in
      snd w = Ok /\ store_read J (json_deser dec loads) p (fst w) = Some v.
Proof. exact (@json_roundtrip). Qed.
Print Assumptions C12_json_roundtrip.

Theorem C12_json_roundtrip_chunked :
  forall (J : Type) (enc : text -> bytes) (dec : bytes -> option text)
         (dumps : J -> text) (loads : text -> option J) (v : J) (chunks : list bytes) (st p : path) (fs : state),
    dec (enc (dumps v)) = Some (dumps v) -> loads (dumps v) = Some v -> ~ In CR (dumps v) ->
    concat chunks = json_ser enc dumps v -> p <> st -> opened fs = None ->
    let w := store_write_chunks st p chunks fs in
    snd w = Ok /\ store_read J (json_deser dec loads) p (fst w) = Some v.
Proof. exact (@json_roundtrip_chunked). Qed.
Print Assumptions C12_json_roundtrip_chunked.

Theorem C12_pickle_roundtrip :
  forall (P : Type) (dumps : P -> bytes) (loads : bytes -> option P) (dom : P -> Prop),
    (forall v, dom v -> loads (dumps v) = Some v) ->
    forall (v : P) (st p : path) (fs : state),
      dom v -> p <> st -> opened fs = None ->
      let w := store_write P (pickle_ser dumps) st p v fs in
      snd w = Ok /\ store_read P (pickle_deser loads) p (fst w) = Some v.
Proof. exact (@pickle_roundtrip). Qed.
Print Assumptions C12_pickle_roundtrip.

Theorem C12_touch_roundtrip :
  forall (st p : path) (fs : state),
    p <> st -> opened fs = None ->
    let w := store_write unit touch_ser st p tt fs in
    snd w = Ok /\ store_read unit touch_deser p (fst w) = Some tt /\ read_file (fst w) p = Some [].
Proof. exact touch_roundtrip. Qed.
Print Assumptions C12_touch_roundtrip.

Theorem C12_mounted_roundtrip :
  forall (V : Type) (ser : V -> bytes) (deser : bytes -> option V) (lst lp lp2 rp : path) (v : V) (s : state),
    lp <> lst -> rp <> lp -> rp <> lst -> rp <> lp2 -> opened s = None -> deser (ser v) = Some v ->
    exists s', mounted_write V ser lst lp rp v s = Some s' /\
               mounted_read V deser lp2 rp s' = Some v /\
               files s' lp = None /\ files s' lst = None /\
               (exists t, files s' rp = Some (ser v, t) /\ clock s <= t).
Proof. exact mounted_roundtrip. Qed.
Print Assumptions C12_mounted_roundtrip.

Theorem C12_mtime_none_iff_absent :
  forall (p : path) (s : state),
    (store_mtime p s = None <-> read_file s p = None) /\
    (store_mtime p s = None <-> files s p = None).
Proof. exact mtime_none_iff_absent. Qed.
Print Assumptions C12_mtime_none_iff_absent.

Theorem C12_mtime_fresh_after_write :
  forall (V : Type) (ser : V -> bytes) (v : V) (st p : path) (s : state),
    p <> st -> opened s = None -> clock_ahead s ->
    let s' := fst (store_write V ser st p v s) in
    exists t, store_mtime p s' = Some t /\ clock s <= t /\
              (forall t0, store_mtime p s = Some t0 -> t0 < t) /\
              opened s' = None /\ clock_ahead s' /\ t < clock s'.
Proof. exact mtime_after_write. Qed.
Print Assumptions C12_mtime_fresh_after_write.

Theorem C12_mtime_monotone :
  forall (st p : path) (writes : list bytes) (s : state),
    p <> st -> opened s = None -> clock_ahead s ->
    match store_mtime p s with
    | Some t0 => increasing_from t0 (mtimes_after st p writes s)
    | None => increasing_from (clock s - 1) (mtimes_after st p writes s)
    end.
Proof. exact mtime_monotone. Qed.
Print Assumptions C12_mtime_monotone.
