From Coq Require Import List Arith.
Import ListNotations.
From UJ Require Import Engine.Engine Engine.EngineTerm.
From Coq Require Import Permutation.
From UJ Require Import Base.Topo Base.TopoProofs Base.Graph Cache.Prune Cache.PruneProofs.

(** Every step strictly decreases a natural-number measure: no infinite run, for any graph, worker count,
    failure pattern, max_errors and interleaving (interrupts included). *)
Theorem C07_measure_decreases :
  forall (c : cfg) (s : st) (k : choice) (s' : st),
  cfg_ok c -> reachable c s -> next c s k = Some s' -> mu c s' < mu c s.
Proof. exact mu_decreases. Qed.
Print Assumptions C07_measure_decreases.

Theorem C07_run_length_bounded :
  forall (c : cfg) (ks : list choice) (s : st), cfg_ok c -> run c ks = Some s -> length ks <= mu c (init c).
Proof. exact run_length_bounded. Qed.
Print Assumptions C07_run_length_bounded.

(** No deadlock: a non-final state always has an enabled step other than an interrupt. *)
Theorem C07_no_deadlock :
  forall (c : cfg) (s : st), cfg_ok c -> reachable c s -> intr s <> Some ISpawn -> ~ final s ->
  exists k s', k <> KIntr /\ next c s k = Some s'.
Proof. exact progress_no_interrupt. Qed.
Print Assumptions C07_no_deadlock.

(** When run returns or raises: every thread has exited and nothing can happen any more. *)
Theorem C07_quiescent :
  forall (c : cfg) (s : st), cfg_ok c -> reachable c s -> intr s <> Some ISpawn -> final s ->
  (forall w pc, nth_error (ws s) w = Some pc -> pc = WExited) /\ forall k, next c s k = None.
Proof. exact final_quiescent. Qed.
Print Assumptions C07_quiescent.

Theorem C07_nothing_running_at_return :
  forall (c : cfg) (s : st), cfg_ok c -> reachable c s -> intr s <> Some ISpawn -> final s -> inflight s = 0.
Proof. exact final_no_running. Qed.
Print Assumptions C07_nothing_running_at_return.

(** assert_acyclic (Kahn) succeeds exactly on acyclic graphs; a failure comes with a real cycle. *)
Theorem C07_cycle_rejected :
  forall g : graph, graph_wf g -> (kahn g <> None <-> acyclic g).
Proof. exact kahn_some_iff_acyclic. Qed.
Print Assumptions C07_cycle_rejected.

Theorem C07_cycle_witness :
  forall g : graph, graph_wf g -> kahn g = None -> exists n, reach g n n.
Proof. exact kahn_none_cycle_witness. Qed.
Print Assumptions C07_cycle_witness.

Theorem C07_kahn_order :
  forall (g : graph) (l : list nat), graph_wf g -> kahn g = Some l ->
  Permutation l (nodes g) /\ forall a b, edge g a b -> before a b l.
Proof. exact kahn_order_topological. Qed.
Print Assumptions C07_kahn_order.

(** pruning cannot create a cycle (so no late HasACycle after pruning) *)
Theorem C07_prune_acyclic :
  forall (p : pgraph) (required : list nat) (output : option nat),
  acyclic (to_graph p) -> acyclic (to_graph (prune_plan p required output)).
Proof. exact prune_acyclic. Qed.
Print Assumptions C07_prune_acyclic.
