From Coq Require Import List Arith.
Import ListNotations.
From UJ Require Import Engine.Engine Engine.EngineOrd Engine.EngineErr.

Theorem C06_no_downstream :
  forall (c : cfg) (s : st) (m n : nat), cfg_ok c -> reachable c s ->
  In (EFail m) (hist s) -> reach (g c) m n -> ~ In (EStart n) (hist s).
Proof. exact no_downstream. Qed.
Print Assumptions C06_no_downstream.

Theorem C06_raises :
  forall (c : cfg) (s : st), cfg_ok c -> reachable c s -> final s -> intr s = None ->
  (exists n, In (EFail n) (hist s)) -> exists n, result s = Some (Raised n).
Proof. exact raises_if_failed. Qed.
Print Assumptions C06_raises.

Theorem C06_real_failure :
  forall (c : cfg) (s : st) (n : nat), cfg_ok c -> reachable c s ->
  result s = Some (Raised n) -> In (EFail n) (hist s).
Proof. exact raised_is_real. Qed.
Print Assumptions C06_real_failure.

Theorem C06_first_when_sequential :
  forall (c : cfg) (s : st) (n : nat), cfg_ok c -> reachable c s -> workers c = 1 -> first s = Some n ->
  exists h1 h2, hist s = h1 ++ EFail n :: h2 /\ forall m, ~ In (EFail m) h2.
Proof. exact first_when_sequential. Qed.
Print Assumptions C06_first_when_sequential.
