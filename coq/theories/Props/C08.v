From Coq Require Import List Arith ZArith.
Import ListNotations.
From UJ Require Import Cache.Logical.

Theorem C08_placeholder_wf : forall p : plan, p = [] -> wf_plan p.
Proof. intros p -> i nd H. destruct i; discriminate. Qed.
Print Assumptions C08_placeholder_wf.
