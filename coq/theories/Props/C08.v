From Coq Require Import List Arith ZArith.
Import ListNotations.
From UJ Require Import Cache.Logical Cache.RunProofs Cache.HistoryProofs Cache.SettleProofs.

(** Whatever subset [w] of a run's store writes took effect before the run was cut (each write is
    all-or-nothing: C11), every stored value that a later run would treat as up to date still equals
    its from-scratch value. *)
Theorem C08_cut_preserves_inv :
  forall (F : nat -> list Z -> Z) (reg : registry) (p : plan),
  wf_plan p -> reg_inj reg -> reg_dom reg p ->
  forall (sg : sstate) (fresh : option Z) (tw : nat -> Z) (w : nat -> bool),
  Inv F reg p sg -> sources_present reg sg -> tw_ok sg tw ->
  Inv F reg p (after_cut F reg sg fresh p tw w).
Proof. exact cut_preserves_inv. Qed.
Print Assumptions C08_cut_preserves_inv.

(** Hence the next complete run (after any further history) is correct: C03 quantifies over histories
    that contain cut runs ([OCut]). *)
Theorem C08_next_run_correct :
  forall (F : nat -> list Z -> Z) (reg : registry) (p : plan),
  wf_plan p -> reg_inj reg -> reg_dom reg p ->
  forall (ops : list op) (fresh : option Z) (output : option nat) (tw : nat -> Z),
  ops_ok F reg p (fun _ : nat => None) ops ->
  let sg := apply_ops F reg p (fun _ : nat => None) ops in
  sources_present reg sg ->
  let sg' := after_run F reg sg fresh p tw in
  (forall (n : nat) (e : rentry), reg n = Some e -> is_src e = false ->
     content sg' (store e) = scratch F reg sg' p n) /\
  (forall (n : nat) (e : rentry), reg n = Some e -> is_src e = true ->
     content sg' (store e) = content sg (store e)) /\
  (forall o : nat, output = Some o -> run_output F reg sg fresh output p = scratch F reg sg p o).
Proof. exact incremental_eq_scratch. Qed.
Print Assumptions C08_next_run_correct.

(** A value completely written before the cut, all of whose upstream writes also completed, is not
    rebuilt by the next run with the same fresh_time (nothing upstream changed). *)
Theorem C08_no_needless_rebuild :
  forall (F : nat -> list Z -> Z) (reg : registry) (p : plan),
  wf_plan p -> reg_inj reg -> reg_dom reg p ->
  forall (sg : sstate) (fresh : option Z) (tw : nat -> Z) (w : nat -> bool) (n : nat),
  tw_ok sg tw -> (forall i j, down p i j -> (tw i < tw j)%Z) -> (forall m, gt_opt fresh (tw m) = false) ->
  (forall m, is_written reg sg fresh p m = true -> w m = true -> value_of F reg sg fresh p m <> None) ->
  (forall m, m = n \/ down p m n ->
     (is_written reg sg fresh p m = true -> w m = true) /\
     (forall e, reg m = Some e -> is_src e = true -> is_stale reg sg fresh p m = false)) ->
  is_stale reg (after_cut F reg sg fresh p tw w) fresh p n = false.
Proof. exact no_needless_rebuild. Qed.
Print Assumptions C08_no_needless_rebuild.
