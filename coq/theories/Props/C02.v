From Coq Require Import List Arith ZArith Bool.
Import ListNotations.
From UJ Require Import Plan.Values Plan.ValuesProofs Plan.Gather Plan.GatherProofs Plan.Eval Plan.EvalProofs Plan.ShapeProofs.

Theorem C02_run_is_subst :
  forall (interp : nat -> list val -> list (nat * val) -> option val)
         (g : graph) (o : sval) (g' : graph) (r : nat) (order : list nat),
    wf g = true -> closed (size g) o = true -> gather g o = (g', r) -> valid_order g' r order ->
    run_result interp g' order r = subst (val_of interp g) o.
Proof. exact run_is_subst. Qed.
Print Assumptions C02_run_is_subst.

Theorem C02_call_is_direct :
  forall (interp : nat -> list val -> list (nat * val) -> option val)
         (g : graph) (f : fn) (args : list sval) (kwargs : list (nat * sval)) (g' : graph) (c : nat),
    wf g = true -> closed_call (size g) args kwargs = true -> call g f args kwargs = (g', c) ->
    received interp g' c = sargvals (val_of interp g) args kwargs /\
    val_of interp g' c = match sargvals (val_of interp g) args kwargs with
                         | Some (vs, kvs) => apply_fn interp f vs kvs
                         | None => None
                         end.
Proof. exact call_sem. Qed.
Print Assumptions C02_call_is_direct.

Theorem C02_creation_order_topological :
  forall (g : graph) (f : fn) (args : list sval) (kwargs : list (nat * sval)) (g' : graph) (c : nat),
    wf g = true -> closed_call (size g) args kwargs = true -> call g f args kwargs = (g', c) ->
    forall e, In e (edges g') -> src e < dst e /\ dst e < size g'.
Proof. exact creation_order_topological. Qed.
Print Assumptions C02_creation_order_topological.

Theorem C02_identity :
  forall (interp : nat -> list val -> list (nat * val) -> option val)
         (g : graph) (f : fn) (args : list sval) (kwargs : list (nat * sval)) (g' : graph) (c : nat)
         (vs : list val) (kvs : list (nat * val)),
    wf g = true -> closed_call (size g) args kwargs = true -> call g f args kwargs = (g', c) ->
    received interp g' c = Some (vs, kvs) ->
    (forall i a, nth_error args i = Some a -> vis_node a = false ->
                 nth_error vs i = Some (freeze a) /\ forall j, sid a = Some j -> vid (freeze a) = j) /\
    (forall i name a, nth_error kwargs i = Some (name, a) -> vis_node a = false ->
                      nth_error kvs i = Some (name, freeze a)) /\
    (forall i id inner, nth_error args i = Some (SCont COpaque id inner) ->
                        nth_error vs i = Some (VCont COpaque id (map freeze inner))).
Proof. exact identity. Qed.
Print Assumptions C02_identity.

Theorem C02_args_order :
  forall (interp : nat -> list val -> list (nat * val) -> option val)
         (g : graph) (f : fn) (args : list sval) (kwargs : list (nat * sval)) (g' : graph) (c : nat),
    wf g = true -> closed_call (size g) args kwargs = true -> call g f args kwargs = (g', c) ->
    received interp g' c = sargvals (val_of interp g) args kwargs /\
    forall vs kvs, received interp g' c = Some (vs, kvs) ->
      length vs = length args /\
      (forall i a, nth_error args i = Some a ->
                   exists v, nth_error vs i = Some v /\ subst (val_of interp g) a = Some v) /\
      map fst kvs = map fst kwargs /\
      (forall j name a, nth_error kwargs j = Some (name, a) ->
                        exists v, nth_error kvs j = Some (name, v) /\ subst (val_of interp g) a = Some v).
Proof. exact args_order. Qed.
Print Assumptions C02_args_order.

Theorem C02_shape :
  (forall env k i items v,
     (k = CList \/ k = CTuple) -> existsb vis_node items = true ->
     subst env (SCont k i items) = Some v ->
     exists vs, v = VCont k fresh_id vs /\ length vs = length items /\
       (forall j x, nth_error items j = Some x -> exists y, nth_error vs j = Some y /\ subst env x = Some y) /\
       (forall j x, nth_error items j = Some x -> vis_node x = false -> nth_error vs j = Some (freeze x))) /\
  (forall vs d,
     build CDict vs = Some d ->
     exists ps, mapM as_pair vs = Some ps /\ Forall (fun p => hashable (fst p) = true) ps /\
       pairs_of d = Some (dict_of ps) /\
       (forall k, dict_get (dict_of ps) k = last_match ps k) /\
       keys_distinct (dict_of ps) /\ length (dict_of ps) <= length vs) /\
  (forall vs s,
     build CSet vs = Some s ->
     s = VCont CSet fresh_id (dedup vs) /\
     (forall v, In v vs -> exists w, In w (dedup vs) /\ veq w v = true) /\
     (forall w, In w (dedup vs) -> In w vs) /\
     (forall i j a b, nth_error (dedup vs) i = Some a -> nth_error (dedup vs) j = Some b -> veq a b = true -> i = j)) /\
  (forall (interp : nat -> list val -> list (nat * val) -> option val) g v n g' hs,
     wf g = true -> closed (size g) v = true -> plan_unpack g v n = (g', hs) ->
     length hs = n /\
     forall i h, nth_error hs i = Some h ->
       val_of interp g' h =
       match subst (val_of interp g) v with
       | Some it => match iter_items it with
                    | Some items => if length items =? n then nth_error items i else None
                    | None => None
                    end
       | None => None
       end).
Proof. exact (conj shape_seq (conj shape_dict (conj shape_set unpack_spec))). Qed.
Print Assumptions C02_shape.

Theorem C02_schedule_independent :
  forall (interp : nat -> list val -> list (nat * val) -> option val)
         (g : graph) (out : nat) (o1 o2 : list nat),
    wf g = true -> out < size g -> valid_order g out o1 -> valid_order g out o2 ->
    run_result interp g o1 out = run_result interp g o2 out.
Proof. exact schedule_independent. Qed.
Print Assumptions C02_schedule_independent.
