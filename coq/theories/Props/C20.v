From Coq Require Import List Arith ZArith QArith Bool.
Import ListNotations.
From UJ Require Import Obs.Progress Obs.ProgressProofs Obs.Render Obs.RenderProofs Obs.ConsoleProofs.
Open Scope Z_scope.

Theorem C20_state_inv :
  forall (Out : Type) (rf : list (key * sstate) -> list nat -> result (Out * list nat)) (mi start : Q)
         (so : bool) (evs : list ev) (o : obs) (outs : list Out),
    wf_evs so (rev evs) = true ->
    run_obs Out rf mi start evs = Ok (o, outs) ->
    (forall k s, In (k, s) (mapping (o_state o)) ->
       0 <= completed s /\ 0 <= failed s /\ 0 <= running s /\ 0 < total s /\
       completed s + failed s + running s <= total s) /\
    running_count (o_state o) = sum_running (mapping (o_state o)) /\
    0 <= running_count (o_state o) /\
    NoDup (map fst (mapping (o_state o))) /\
    (forall k, kmem k (running_set (o_state o)) = true <->
               exists s, lookup k (mapping (o_state o)) = Some s /\ 0 < running s).
Proof. exact (fun Out rf mi start so evs o outs => run_inv Out rf mi start so (rev evs) o outs). Qed.
Print Assumptions C20_state_inv.

Theorem C20_elapsed :
  forall (Out : Type) (rf : list (key * sstate) -> list nat -> result (Out * list nat)) (mi start : Q)
         (so : bool) (evs : list ev) (o : obs) (outs : list Out),
    wf_evs so (rev evs) = true ->
    run_obs Out rf mi start evs = Ok (o, outs) ->
    (sum_elapsed (mapping (o_state o)) ==
     busy start (rev evs) +
     (if 0 <? active (rev evs) then prev_time (o_state o) - last_time start (rev evs) else 0))%Q.
Proof. exact (fun Out rf mi start so evs o outs => elapsed_exact Out rf mi start so (rev evs) o outs). Qed.
Print Assumptions C20_elapsed.

Theorem C20_render_total :
  forall (vty : nat -> nat) (vlt : nat -> nat -> option bool) (vrepr : nat -> nat)
         (kd : kind) (mi start : Q) (so : bool) (evs : list ev),
    wf_evs so (rev evs) = true ->
    exists o outs, run_obs output (render vty vlt vrepr kd true) mi start evs = Ok (o, outs).
Proof. exact observer_never_fails. Qed.
Print Assumptions C20_render_total.

Theorem C20_render_total_prefix_refuted :
  exists (vty : nat -> nat) (vlt : nat -> nat -> option bool) (vrepr : nat -> nat) (evs : list ev),
    wf_evs true (rev evs) = true /\
    forall kd, run_obs output (render vty vlt vrepr kd false) 0 0 evs = Err TypeErrorCompare.
Proof. exact render_total_prefix_refuted. Qed.
Print Assumptions C20_render_total_prefix_refuted.

Theorem C20_last_render_final :
  forall (vty : nat -> nat) (vlt : nat -> nat -> option bool) (vrepr : nat -> nat)
         (kd : kind) (mi start : Q) (evs : list ev) (t1 t2 : Q) (o : obs) (outs : list output),
    kd <> Console ->
    observe output (render vty vlt vrepr kd true) mi start evs t1 t2 = Ok (o, outs) ->
    exists o1 outs1 out rest,
      run_obs output (render vty vlt vrepr kd true) mi start evs = Ok (o1, outs1) /\
      cview (mapping (o_state o)) = cview (mapping (o_state o1)) /\
      outs = out :: rest /\ render_pure vty vlt vrepr kd (mapping (o_state o)) = Ok out.
Proof. exact last_render_final. Qed.
Print Assumptions C20_last_render_final.

Theorem C20_render_shows_counts :
  forall (vty : nat -> nat) (vlt : nat -> nat -> option bool) (vrepr : nat -> nat)
         (kd : kind) (m : list (key * sstate)) (out : output) (s : nat) (sc : scope) (st : sstate),
    render_pure vty vlt vrepr kd m = Ok out -> In s SECTIONS -> In ((s, sc), st) m ->
    exists rows r, In (s, rows) out /\ In r rows /\ r_scope r = Some sc /\ r_ps r = progress_string st.
Proof. exact render_pure_shows. Qed.
Print Assumptions C20_render_shows_counts.

Theorem C20_last_render_final_console :
  forall (vty : nat -> nat) (vlt : nat -> nat -> option bool) (vrepr : nat -> nat)
         (mi start : Q) (evs : list ev) (t1 t2 : Q) (o : obs) (outs : list output),
    wf_evs true (rev evs) = true ->
    observe output (render vty vlt vrepr Console true) mi start evs t1 t2 = Ok (o, outs) ->
    exists o1 outs1,
      run_obs output (render vty vlt vrepr Console true) mi start evs = Ok (o1, outs1) /\
      cview (mapping (o_state o)) = cview (mapping (o_state o1)) /\
      forall s, In s SECTIONS -> sec_items s (mapping (o_state o)) <> [] ->
        exists rows, last_printed s outs = Some rows /\
                     map strip rows = view_rows vty vlt vrepr (cs_view (sec_items s (mapping (o_state o)))).
Proof. exact console_last_render_final. Qed.
Print Assumptions C20_last_render_final_console.

Theorem C20_console_rows_complete :
  forall (vty : nat -> nat) (vlt : nat -> nat -> option bool) (vrepr : nat -> nat)
         (v : list (scope * (Z * Z * Z * Z))) (sc : scope) (c : Z * Z * Z * Z),
    In (sc, c) v -> In (Some sc, pstr_of c) (view_rows vty vlt vrepr v).
Proof. exact view_rows_complete. Qed.
Print Assumptions C20_console_rows_complete.

Theorem C20_last_render_final_console_perkey_refuted :
  exists (evs : list ev) (t : Q) o outs,
    wf_evs false (rev evs) = true /\
    observe output (render (fun _ => 0%nat) (fun _ _ => None) (fun x => x) Console true) 0 0 evs t t = Ok (o, outs) /\
    exists rows, last_printed 0%nat outs = Some rows /\
      map strip rows <> view_rows (fun _ => 0%nat) (fun _ _ => None) (fun x => x)
                          (cs_view (sec_items 0%nat (mapping (o_state o)))).
Proof. exact console_last_render_perkey_refuted. Qed.
Print Assumptions C20_last_render_final_console_perkey_refuted.
