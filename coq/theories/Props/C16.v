From Coq Require Import List Arith Bool.
Import ListNotations.
From UJ Require Import Obs.RefGraph Obs.RefGraphProofs.

Theorem C16_released :
  forall (g : rgraph) (s : state) (p : nat),
    valid g s -> finished s p = true -> out g <> Some p ->
    (forall d, consumer g d p -> finished s d = true) ->
    ~ reach true g s (RS p) /\
    (reach true g s (Res p) ->
     exists q, q <> p /\ mem q (fin_ok s) = true /\ anchored g s q /\ holds_star g q p) /\
    ((forall q, holds g q = []) -> ~ reach true g s (Res p)).
Proof. exact released. Qed.
Print Assumptions C16_released.

Theorem C16_retained_while_needed :
  forall (g : rgraph) (s : state) (p : nat),
    valid g s -> mem p (fin_ok s) = true ->
    (out g = Some p \/ exists d, consumer g d p /\ finished s d = false) ->
    reach true g s (RS p) /\ reach true g s (Res p).
Proof. exact retained. Qed.
Print Assumptions C16_retained_while_needed.

Theorem C16_live_iff :
  forall (g : rgraph) (s : state) (p : nat),
    valid g s -> holds_wf g -> (reach true g s (Res p) <-> live_b g s p = true).
Proof. exact live_iff. Qed.
Print Assumptions C16_live_iff.

Theorem C16_released_without_finally_refuted :
  exists g s p, valid g s /\ finished s p = true /\ out g <> Some p /\
                (forall d, consumer g d p -> finished s d = true) /\
                reach false g s (RS p) /\ reach false g s (Res p).
Proof. exact released_needs_finally. Qed.
Print Assumptions C16_released_without_finally_refuted.
