From Coq Require Import List Arith Bool ZArith.
Import ListNotations.
From UJ Require Import Store.Time Store.TimeProofs.
Open Scope Z_scope.

Theorem C18_decision_by_instants :
  forall z : zone,
    H_tz z ->
    forall (is_source : bool) (mt fresh : option Z) (ancs : list (option Z))
           (mt_r fresh_r : option repr) (anc_rs : list (option repr)),
      opt_reps z mt mt_r -> opt_reps z fresh fresh_r -> Forall2 (opt_reps z) ancs anc_rs ->
      stale_repr true z is_source mt_r anc_rs fresh_r = stale_dec is_source mt (safe_max ancs) fresh /\
      option_map (to_naive_utc true z) mt_r = mt.
Proof. exact decision_by_instants. Qed.
Print Assumptions C18_decision_by_instants.

Theorem C18_stale_set_by_instants :
  forall z : zone,
    H_tz z ->
    forall (fresh : option Z) (fresh_r : option repr) (plan : list (node Z)) (plan_r : list (node repr)),
      opt_reps z fresh fresh_r -> Forall2 (node_rel (opt_reps z)) plan plan_r ->
      stale_nodes (to_naive_utc true z) fresh_r plan_r = stale_nodes (fun i => i) fresh plan.
Proof. exact stale_set_by_instants. Qed.
Print Assumptions C18_stale_set_by_instants.

Theorem C18_decision_by_instants_prefix_refuted :
  exists (z : zone) (is_source : bool) (mt fresh : option Z) (mt_r fresh_r : option repr),
    H_tz z /\ opt_reps z mt mt_r /\ opt_reps z fresh fresh_r /\
    stale_repr false z is_source mt_r [] fresh_r <> stale_dec is_source mt (safe_max []) fresh.
Proof. exact decision_by_instants_prefix_refuted. Qed.
Print Assumptions C18_decision_by_instants_prefix_refuted.

Theorem C18_fixed_offset_zones_satisfy_H_tz :
  forall o : Z, H_tz (fixed_zone o).
Proof. exact fixed_zone_H_tz. Qed.
Print Assumptions C18_fixed_offset_zones_satisfy_H_tz.
