From Coq Require Import List Arith ZArith.
Import ListNotations.
From UJ Require Import Engine.Engine Base.Graph Cache.Prune Cache.Transform Cache.TransformProofs.
From UJ Require Import Cache.Logical Cache.Link Cache.Minimal Cache.Refine.
From UJ Require Run.Api.

(** The physical plan is self-contained: every store write call of the pruned plan has its store literal
    and the value as arguments inside the plan ... *)
Theorem C14_write_call_self_contained :
  forall p c es output e ce, tctx p c es -> In (e, ce) (entry_ids c es) -> estale e = true -> esource e = false ->
  let r := fst (physical p c es output) in
  In (mke (lit_id ce) (write_id ce) (KPos 0)) (pedges r) /\
  In (mke (enode e) (write_id ce) (KPos 1)) (pedges r) /\
  In (lit_id ce) (pnodes r) /\ In (enode e) (pnodes r) /\
  pkind r (lit_id ce) = KLit /\ pkind r (write_id ce) = KCall.
Proof. exact C14_write_call_args_in_physical. Qed.
Print Assumptions C14_write_call_self_contained.

(** ... and so has every surviving store read call. *)
Theorem C14_read_call_self_contained :
  forall p c es output e ce, tctx p c es -> In (e, ce) (entry_ids c es) ->
  let r := fst (physical p c es output) in
  In (read_id ce) (pnodes r) ->
  In (mke (lit_id ce) (read_id ce) (KPos 0)) (pedges r) /\ In (lit_id ce) (pnodes r) /\
  pkind r (lit_id ce) = KLit /\ pkind r (read_id ce) = KCall.
Proof. exact C14_read_call_arg_in_physical. Qed.
Print Assumptions C14_read_call_self_contained.

(** The transformed plan is a well-formed, acyclic graph (no late HasACycle after the stores were queried). *)
Theorem C14_physical_wf :
  forall es p c, tctx p c es -> pgraph_wf (add_all p c es).
Proof. exact transform_wf. Qed.
Print Assumptions C14_physical_wf.

Theorem C14_physical_acyclic :
  forall es p c, tctx p c es -> acyclic (to_graph p) -> acyclic (to_graph (add_all p c es)).
Proof. exact transform_acyclic. Qed.
Print Assumptions C14_physical_acyclic.

(** The physical plan a (dry) run returns is faithful to the stale check: for the plan, registry, store state,
    fresh_time and output of the run,
    - a call of the user's plan is in the physical plan iff the logical model says its function runs,
    - the write call of a stored entry is in it iff that store is (re)written,
    - the read call of an entry is in it iff that store is read
    ([src_no_args]: a registered source is a call with no arguments, as registry.source creates it). *)
Theorem C14_physical_calls_faithful :
  forall (reg : registry) (sg : sstate) (fresh : option Z) (output : option nat) (p : plan),
  wf_plan p -> (forall (i : nat) (e : rentry), reg i = Some e -> i < length p) ->
  (forall o : nat, output = Some o -> o < length p) ->
  forall (i : nat) (nd : node), nth_error p i = Some nd -> is_call nd = true ->
  (In i (Graph.pnodes (fst (physical (to_pgraph p) (length p)
                              (entries_of reg (is_stale reg sg fresh p) (length p)) output)))
   <-> is_exec reg sg fresh output p i = true).
Proof. exact refine_exec. Qed.
Print Assumptions C14_physical_calls_faithful.

Theorem C14_physical_writes_faithful :
  forall (reg : registry) (sg : sstate) (fresh : option Z) (output : option nat) (p : plan),
  wf_plan p -> (forall (i : nat) (e : rentry), reg i = Some e -> i < length p) ->
  forall (e : entry) (ce : nat),
  In (e, ce) (entry_ids (length p) (entries_of reg (is_stale reg sg fresh p) (length p))) ->
  esource e = false ->
  (estale e = true /\
   In (write_id ce) (Graph.pnodes (fst (physical (to_pgraph p) (length p)
                                         (entries_of reg (is_stale reg sg fresh p) (length p)) output)))
   <-> is_written reg sg fresh p (enode e) = true).
Proof. exact refine_written. Qed.
Print Assumptions C14_physical_writes_faithful.

Theorem C14_physical_reads_faithful :
  forall (reg : registry) (sg : sstate) (fresh : option Z) (output : option nat) (p : plan),
  wf_plan p -> (forall (i : nat) (e : rentry), reg i = Some e -> i < length p) ->
  (forall o : nat, output = Some o -> o < length p) ->
  forall (e : entry) (ce : nat),
  src_no_args reg p ->
  In (e, ce) (entry_ids (length p) (entries_of reg (is_stale reg sg fresh p) (length p))) ->
  (In (read_id ce) (Graph.pnodes (fst (physical (to_pgraph p) (length p)
                                        (entries_of reg (is_stale reg sg fresh p) (length p)) output)))
   <-> is_read reg sg fresh output p (enode e) = true).
Proof. exact refine_read. Qed.
Print Assumptions C14_physical_reads_faithful.

(** Hence the executable link check that the harness evaluates on every generated case is empty for every case. *)
Theorem C14_link_always_holds :
  forall (reg : registry) (sg : sstate) (fresh : option Z) (output : option nat) (p : plan),
  wf_plan p -> (forall (i : nat) (e : rentry), reg i = Some e -> i < length p) ->
  (forall o : nat, output = Some o -> o < length p) ->
  src_no_args reg p -> link_mismatches reg sg fresh output p = nil.
Proof. exact link_mismatches_nil. Qed.
Print Assumptions C14_link_always_holds.

(** The plumbing of [run] (Run/Api.v, compared with the passes the real [run] starts on every check run): a dry run performs
    exactly the steps of the real run with the same arguments - the same stale check with the same workers and the same
    retry, the same transform_physical, the same totals - without the engine pass over the physical plan. *)
Theorem C14_dry_run_is_real_run_without_execution :
  forall (a : Api.args) (l : list Api.step) (b : bool),
  Api.run_api (Api.set_dry a false) = Api.Steps l b ->
  Api.run_api (Api.set_dry a true) = Api.Steps (filter (fun s => negb (Api.is_run s)) l) true.
Proof. exact Api.dry_run_is_real_run_without_execution. Qed.
Print Assumptions C14_dry_run_is_real_run_without_execution.

Theorem C14_dry_run_no_execution :
  forall (a : Api.args) (l : list Api.step) (b : bool),
  Api.a_dry_run a = true -> Api.run_api a = Api.Steps l b ->
  b = true /\ forallb (fun s => negb (Api.is_run s)) l = true.
Proof. exact Api.dry_run_no_execution. Qed.
Print Assumptions C14_dry_run_no_execution.
