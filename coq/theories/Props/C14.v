From Coq Require Import List Arith.
Import ListNotations.
From UJ Require Import Engine.Engine Base.Graph Cache.Prune Cache.Transform Cache.TransformProofs.

(** The physical plan is self-contained: every store write call of the pruned plan has its store literal
    and the value as arguments inside the plan ... *)
Theorem C14_write_call_self_contained :
  forall p c es output e ce, tctx p c es -> In (e, ce) (entry_ids c es) -> estale e = true -> esource e = false ->
  let r := fst (physical p c es output) in
  In (mke (lit_id ce) (write_id ce) (KPos 0)) (pedges r) /\
  In (mke (enode e) (write_id ce) (KPos 1)) (pedges r) /\
  In (lit_id ce) (pnodes r) /\ In (enode e) (pnodes r) /\
  pkind r (lit_id ce) = KLit /\ pkind r (write_id ce) = KCall.
Proof. exact C14_write_call_args_in_physical. Qed.
Print Assumptions C14_write_call_self_contained.

(** ... and so has every surviving store read call. *)
Theorem C14_read_call_self_contained :
  forall p c es output e ce, tctx p c es -> In (e, ce) (entry_ids c es) ->
  let r := fst (physical p c es output) in
  In (read_id ce) (pnodes r) ->
  In (mke (lit_id ce) (read_id ce) (KPos 0)) (pedges r) /\ In (lit_id ce) (pnodes r) /\
  pkind r (lit_id ce) = KLit /\ pkind r (read_id ce) = KCall.
Proof. exact C14_read_call_arg_in_physical. Qed.
Print Assumptions C14_read_call_self_contained.

(** The transformed plan is a well-formed, acyclic graph (no late HasACycle after the stores were queried). *)
Theorem C14_physical_wf :
  forall es p c, tctx p c es -> pgraph_wf (add_all p c es).
Proof. exact transform_wf. Qed.
Print Assumptions C14_physical_wf.

Theorem C14_physical_acyclic :
  forall es p c, tctx p c es -> acyclic (to_graph p) -> acyclic (to_graph (add_all p c es)).
Proof. exact transform_acyclic. Qed.
Print Assumptions C14_physical_acyclic.
