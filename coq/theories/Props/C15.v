From Coq Require Import List Arith ZArith Bool.
Import ListNotations.
From UJ Require Import Obs.Progress Obs.Notify Obs.NotifyProofs.
From UJ Require Engine.Engine Obs.EngineTrace Run.Api.
Open Scope Z_scope.

Theorem C15_wellformed :
  forall c : runcfg,
    plan_ok (logical c) -> plan_ok (physical c) ->
    trace_ok (logical c) (stale_trace c) -> trace_ok (physical c) (run_trace c) ->
    wf_run (emit c) = true.
Proof. exact emit_wellformed. Qed.
Print Assumptions C15_wellformed.

Theorem C15_wf_run_meaning :
  forall l : list note,
    wf_run l = true ->
    exists body, l = Enter :: body ++ [Exit] /\ ~ In Enter body /\ ~ In Exit body /\
      (forall pre e post, body = pre ++ e :: post -> ok_next true (rev pre) e = true) /\
      (forall k, nrun k body = ncompl k body + nfail k body).
Proof. exact wf_run_meaning. Qed.
Print Assumptions C15_wf_run_meaning.

Theorem C15_success_counts :
  forall c : runcfg,
    plan_ok (logical c) -> plan_ok (physical c) ->
    trace_ok (logical c) (stale_trace c) -> trace_ok (physical c) (run_trace c) ->
    has_failure (stale_trace c) = false -> has_failure (run_trace c) = false ->
    other_raises c = false -> dry_run c = false ->
    (forall n, In n (map fst (logical c)) -> In n (starts (stale_trace c))) ->
    (forall n, In n (map fst (physical c)) -> In n (starts (run_trace c))) ->
    let body := stale_part c ++ run_part c in
    forall sc,
      (ntot (1%nat, sc) body = zcount sc (call_scopes run_scope (physical c)) /\
       ntot (1%nat, sc) body = cnt run_scope (physical c) sc (starts (run_trace c)) /\
       ncompl (1%nat, sc) body = ntot (1%nat, sc) body /\ nfail (1%nat, sc) body = 0) /\
      (has_registry c = true ->
       ntot (0%nat, sc) body = zcount sc (call_scopes stale_scope (logical c)) /\
       ntot (0%nat, sc) body = cnt stale_scope (logical c) sc (starts (stale_trace c)) /\
       ncompl (0%nat, sc) body = ntot (0%nat, sc) body /\ nfail (0%nat, sc) body = 0).
Proof. exact success_counts. Qed.
Print Assumptions C15_success_counts.

Theorem C15_composite_forwards :
  (forall raises body, forallb negb raises = true ->
     let m := length raises in
     composite_run raises body =
       map MEnter (seq 0 m) ++ flat_map (fun n => map (fun i => MNote i n) (seq 0 m)) body ++ map MExit (rev (seq 0 m)) /\
     forall i, (i < m)%nat ->
       member_view i (composite_run raises body) = MEnter i :: map (MNote i) body ++ [MExit i]) /\
  (forall a b body, forallb negb a = true ->
     composite_run (a ++ true :: b) body =
       map MEnter (seq 0 (length a)) ++ MEnterRaised (length a) :: map MExit (rev (seq 0 (length a)))).
Proof. exact composite_forwards. Qed.
Print Assumptions C15_composite_forwards.

(** The hypothesis [trace_ok] of the theorems above is what the engine provides: for every graph, worker count,
    failing set, queue discipline and interleaving, the Start/End events of a finished run of the engine model
    ([Engine.v]; no interrupt while the pool is being started - finding F6) are a well-formed trace for every
    plan whose call ids are the nodes of the executed graph ... *)
Theorem C15_engine_provides_trace_ok :
  forall (c : Engine.cfg) (s : Engine.st) (p : plan),
  Engine.cfg_ok c -> Engine.reachable c s -> Engine.intr s <> Some Engine.ISpawn -> Engine.final s ->
  map fst p = Engine.nodes (Engine.g c) ->
  trace_ok p (rev (EngineTrace.to_eev (Engine.hist s))).
Proof. exact EngineTrace.engine_trace_ok. Qed.
Print Assumptions C15_engine_provides_trace_ok.

(** ... and in a run that returns normally every node of the graph was started (the premise of [C15_success_counts]). *)
Theorem C15_engine_success_all_started :
  forall (c : Engine.cfg) (s : Engine.st),
  Engine.cfg_ok c -> Engine.acyclic (Engine.g c) -> Engine.reachable c s -> Engine.final s ->
  Engine.result s = Some Engine.Returned ->
  forall n : nat, In n (Engine.nodes (Engine.g c)) -> In n (starts (rev (EngineTrace.to_eev (Engine.hist s)))).
Proof. exact EngineTrace.engine_success_all_started. Qed.
Print Assumptions C15_engine_success_all_started.

(** Whatever the arguments of an accepted [run] (Run/Api.v), the observer is entered before anything else and exited after
    everything else, exactly once each. *)
Theorem C15_observer_brackets_the_run :
  forall (a : Api.args) (l : list Api.step) (b : bool),
  Api.run_api a = Api.Steps l b ->
  exists body, l = Api.StEnter :: body ++ [Api.StExit] /\ ~ In Api.StEnter body /\ ~ In Api.StExit body.
Proof. exact Api.observer_brackets. Qed.
Print Assumptions C15_observer_brackets_the_run.
