From Coq Require Import List Arith ZArith.
Import ListNotations.
From UJ Require Import Cache.Logical Cache.StaleSpec.

(** The stale set of [_get_stale_nodes] is exactly the set of out-of-date nodes of the declarative
    specification [utd] (present; everything it is directly built from is up to date and not newer;
    not older than fresh_time unless it is a source with nothing upstream); a node without a value
    store is stale iff some registry node it is directly built from is out of date. *)
Theorem C05_stale_iff_out_of_date :
  forall (reg : registry) (sg : sstate) (fresh : option Z) (p : plan),
  wf_plan p -> forall n : nat, n < length p ->
  (reg n <> None -> is_stale reg sg fresh p n = false <-> utd reg sg fresh p n) /\
  (reg n = None ->
   is_stale reg sg fresh p n = true <-> (exists m : nat, upstream reg p n m /\ ~ utd reg sg fresh p m)).
Proof. exact stale_iff_out_of_date. Qed.
Print Assumptions C05_stale_iff_out_of_date.
