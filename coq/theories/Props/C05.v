From Coq Require Import List Arith ZArith.
Import ListNotations.
From UJ Require Import Cache.Logical Cache.StaleSpec Cache.RunProofs Cache.HistoryProofs Cache.SettleProofs.

(** The stale set of [_get_stale_nodes] is exactly the set of out-of-date nodes of the declarative
    specification [utd] (present; everything it is directly built from is up to date and not newer;
    not older than fresh_time unless it is a source with nothing upstream); a node without a value
    store is stale iff some registry node it is directly built from is out of date. *)
Theorem C05_stale_iff_out_of_date :
  forall (reg : registry) (sg : sstate) (fresh : option Z) (p : plan),
  wf_plan p -> forall n : nat, n < length p ->
  (reg n <> None -> is_stale reg sg fresh p n = false <-> utd reg sg fresh p n) /\
  (reg n = None ->
   is_stale reg sg fresh p n = true <-> (exists m : nat, upstream reg p n m /\ ~ utd reg sg fresh p m)).
Proof. exact stale_iff_out_of_date. Qed.
Print Assumptions C05_stale_iff_out_of_date.

(** ... and exactly the out-of-date stored (non-source) values are rewritten. *)
Theorem C05_writes_exact :
  forall (reg : registry) (sg : sstate) (fresh : option Z) (p : plan) (n : nat),
  wf_plan p -> n < length p ->
  (is_written reg sg fresh p n = true <->
   exists e, reg n = Some e /\ is_src e = false /\ ~ utd reg sg fresh p n).
Proof. exact writes_exact. Qed.
Print Assumptions C05_writes_exact.

(** A run repeated immediately after a complete one, with no output requested, finds nothing stale and
    performs no write, no call and no read - provided no source was out of date (reading: a missing
    source, or a dependent source nobody refreshes, stays out of date, and with it its dependents). *)
Theorem C05_idempotent :
  forall (F : nat -> list Z -> Z) (reg : registry) (p : plan),
  wf_plan p -> reg_inj reg -> reg_dom reg p ->
  forall (sg : sstate) (fresh : option Z) (tw : nat -> Z),
  tw_ok sg tw -> (forall i j, down p i j -> (tw i < tw j)%Z) -> (forall n, gt_opt fresh (tw n) = false) ->
  (forall m, is_written reg sg fresh p m = true -> value_of F reg sg fresh p m <> None) ->
  (forall m e, reg m = Some e -> is_src e = true -> is_stale reg sg fresh p m = false) ->
  let sg' := after_run F reg sg fresh p tw in
  forall n, is_stale reg sg' fresh p n = false /\
            is_written reg sg' fresh p n = false /\
            is_exec reg sg' fresh None p n = false /\
            is_read reg sg' fresh None p n = false.
Proof. exact repeated_run_does_nothing. Qed.
Print Assumptions C05_idempotent.
