From Coq Require Import List Arith ZArith.
Import ListNotations.
From UJ Require Import Cache.Logical Cache.StaleSpec Cache.RunProofs Cache.HistoryProofs Cache.SettleProofs Cache.Minimal.

(** The stale set of [_get_stale_nodes] is exactly the set of out-of-date nodes of the declarative
    specification [utd] (present; everything it is directly built from is up to date and not newer;
    not older than fresh_time unless it is a source with nothing upstream); a node without a value
    store is stale iff some registry node it is directly built from is out of date. *)
Theorem C05_stale_iff_out_of_date :
  forall (reg : registry) (sg : sstate) (fresh : option Z) (p : plan),
  wf_plan p -> forall n : nat, n < length p ->
  (reg n <> None -> is_stale reg sg fresh p n = false <-> utd reg sg fresh p n) /\
  (reg n = None ->
   is_stale reg sg fresh p n = true <-> (exists m : nat, upstream reg p n m /\ ~ utd reg sg fresh p m)).
Proof. exact stale_iff_out_of_date. Qed.
Print Assumptions C05_stale_iff_out_of_date.

(** ... and exactly the out-of-date stored (non-source) values are rewritten. *)
Theorem C05_writes_exact :
  forall (reg : registry) (sg : sstate) (fresh : option Z) (p : plan) (n : nat),
  wf_plan p -> n < length p ->
  (is_written reg sg fresh p n = true <->
   exists e, reg n = Some e /\ is_src e = false /\ ~ utd reg sg fresh p n).
Proof. exact writes_exact. Qed.
Print Assumptions C05_writes_exact.

(** A run repeated immediately after a complete one, with no output requested, finds nothing stale and
    performs no write, no call and no read - provided no source was out of date (reading: a missing
    source, or a dependent source nobody refreshes, stays out of date, and with it its dependents). *)
Theorem C05_idempotent :
  forall (F : nat -> list Z -> Z) (reg : registry) (p : plan),
  wf_plan p -> reg_inj reg -> reg_dom reg p ->
  forall (sg : sstate) (fresh : option Z) (tw : nat -> Z),
  tw_ok sg tw -> (forall i j, down p i j -> (tw i < tw j)%Z) -> (forall n, gt_opt fresh (tw n) = false) ->
  (forall m, is_written reg sg fresh p m = true -> value_of F reg sg fresh p m <> None) ->
  (forall m e, reg m = Some e -> is_src e = true -> is_stale reg sg fresh p m = false) ->
  let sg' := after_run F reg sg fresh p tw in
  forall n, is_stale reg sg' fresh p n = false /\
            is_written reg sg' fresh p n = false /\
            is_exec reg sg' fresh None p n = false /\
            is_read reg sg' fresh None p n = false.
Proof. exact repeated_run_does_nothing. Qed.
Print Assumptions C05_idempotent.

(** Minimal work, declaratively.  [wanted] is the least set containing the output, every direct predecessor of a stale
    registered node, and every direct predecessor of a wanted node that has no value store; a node "computes"
    ([active_decl]) iff it has no store and is wanted, or is a stale stored (non-source) node.
    The function of a call runs exactly when the call computes ... *)
Theorem C05_calls_minimal :
  forall (reg : registry) (sg : sstate) (fresh : option Z) (output : option nat) (p : plan),
  wf_plan p ->
  forall (i : nat) (nd : node), nth_error p i = Some nd -> is_call nd = true ->
  (is_exec reg sg fresh output p i = true <-> active_decl reg (is_stale reg sg fresh p) output p i).
Proof. exact exec_iff. Qed.
Print Assumptions C05_calls_minimal.

(** ... a node without a value store is kept by the run exactly when it is wanted ... *)
Theorem C05_unstored_minimal :
  forall (reg : registry) (sg : sstate) (fresh : option Z) (output : option nat) (p : plan),
  wf_plan p ->
  forall i : nat, i < length p -> reg i = None ->
  (pulls reg sg fresh output p i = true <-> wanted reg (is_stale reg sg fresh p) output p i).
Proof. exact pulls_iff_wanted. Qed.
Print Assumptions C05_unstored_minimal.

(** ... and a stored value is read exactly when it is the output or an argument of a node that computes. *)
Theorem C05_reads_minimal :
  forall (reg : registry) (sg : sstate) (fresh : option Z) (output : option nat) (p : plan),
  wf_plan p ->
  forall (i : nat) (re : rentry), i < length p -> reg i = Some re ->
  (is_read reg sg fresh output p i = true <->
   output = Some i \/
   (exists (c : nat) (nd : node), nth_error p c = Some nd /\ In i (args nd) /\
                                  active_decl reg (is_stale reg sg fresh p) output p c)).
Proof. exact read_iff. Qed.
Print Assumptions C05_reads_minimal.
