From Coq Require Import List Arith ZArith.
Import ListNotations.
From UJ Require Import Cache.Logical Cache.RunProofs Cache.HistoryProofs.

(** After ANY history (complete runs, runs cut short after any subset of their writes, source updates,
    deletions of stored values; fresh_time is a parameter of every run) starting from empty stores, a
    complete run leaves the from-scratch value in every non-source store, leaves the sources alone
    and returns the from-scratch value of the requested output.  [tw] / [T] are the write times: H-clock
    ([ops_ok]) only asks that they are newer than everything stored before. *)
Theorem C03_incremental_eq_scratch :
  forall (F : nat -> list Z -> Z) (reg : registry) (p : plan),
  wf_plan p -> reg_inj reg -> reg_dom reg p ->
  forall (ops : list op) (fresh : option Z) (output : option nat) (tw : nat -> Z),
  ops_ok F reg p (fun _ : nat => None) ops ->
  let sg := apply_ops F reg p (fun _ : nat => None) ops in
  sources_present reg sg ->
  let sg' := after_run F reg sg fresh p tw in
  (forall (n : nat) (e : rentry), reg n = Some e -> is_src e = false ->
     content sg' (store e) = scratch F reg sg' p n) /\
  (forall (n : nat) (e : rentry), reg n = Some e -> is_src e = true ->
     content sg' (store e) = content sg (store e)) /\
  (forall o : nat, output = Some o -> run_output F reg sg fresh output p = scratch F reg sg p o).
Proof. exact incremental_eq_scratch. Qed.
Print Assumptions C03_incremental_eq_scratch.

(** The invariant behind it: every stored value that a run without fresh_time would treat as up to
    date is the from-scratch value.  It holds for empty stores and is preserved by every operation. *)
Theorem C03_invariant_over_histories :
  forall (F : nat -> list Z -> Z) (reg : registry) (p : plan),
  wf_plan p -> reg_inj reg -> reg_dom reg p ->
  forall (ops : list op) (sg : sstate),
  Inv F reg p sg -> ops_ok F reg p sg ops -> Inv F reg p (apply_ops F reg p sg ops).
Proof. exact inv_history. Qed.
Print Assumptions C03_invariant_over_histories.

Theorem C03_run_from_any_invariant_state :
  forall (F : nat -> list Z -> Z) (reg : registry) (p : plan),
  wf_plan p -> reg_inj reg -> reg_dom reg p ->
  forall (sg : sstate) (fresh : option Z) (output : option nat) (tw : nat -> Z),
  Inv F reg p sg -> sources_present reg sg ->
  let sg' := after_run F reg sg fresh p tw in
  (forall (n : nat) (e : rentry), reg n = Some e -> is_src e = false ->
     content sg' (store e) = scratch F reg sg' p n) /\
  (forall (n : nat) (e : rentry), reg n = Some e -> is_src e = true ->
     content sg' (store e) = content sg (store e)) /\
  (forall o : nat, output = Some o -> run_output F reg sg fresh output p = scratch F reg sg p o).
Proof. exact run_eq_scratch. Qed.
Print Assumptions C03_run_from_any_invariant_state.
