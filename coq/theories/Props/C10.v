From Coq Require Import List Arith.
Import ListNotations.
From UJ Require Import Engine.Engine Engine.EngineErr Engine.EngineComplete.

Theorem C10_inflight_le_workers :
  forall (c : cfg) (s : st), cfg_ok c -> reachable c s -> inflight s <= workers c.
Proof. exact inflight_le_workers. Qed.
Print Assumptions C10_inflight_le_workers.

(** No hidden serialisation: an idle worker can dequeue any available item whatever the others do. *)
Theorem C10_parallelism :
  forall (c : cfg) (s : st) (w i : nat) (it : item),
  nth_error (ws s) w = Some WIdle -> nth_error (q s) i = Some it ->
  exists s', next c s (KGet w i) = Some s'.
Proof. exact get_enabled_parallel. Qed.
Print Assumptions C10_parallelism.

Theorem C10_failures_bound :
  forall (c : cfg) (s : st) (k : nat), cfg_ok c -> reachable c s -> max_errors c = Some k ->
  nfail (hist s) <= k + workers c.
Proof. exact failures_bound. Qed.
Print Assumptions C10_failures_bound.

Theorem C10_single_worker_exact :
  forall (c : cfg) (s : st) (k : nat), cfg_ok c -> acyclic (g c) -> workers c = 1 -> max_errors c = Some k ->
  reachable c s -> final s -> intr s = None ->
  nfail (hist s) = min (k + 1) (length (filter (eligibleb c) (nodes (g c)))).
Proof. exact single_worker_exact. Qed.
Print Assumptions C10_single_worker_exact.

Theorem C10_eligibleb_spec :
  forall (c : cfg) (n : nat), cfg_ok c -> acyclic (g c) -> In n (nodes (g c)) ->
  (eligibleb c n = true <-> eligible c n).
Proof. exact eligibleb_spec. Qed.
Print Assumptions C10_eligibleb_spec.

Theorem C10_none_runs_all :
  forall (c : cfg) (s : st), cfg_ok c -> acyclic (g c) -> max_errors c = None -> intr s = None ->
  reachable c s -> final s ->
  forall n, In n (nodes (g c)) ->
  (In (EStart n) (hist s) <-> forall m, reach (g c) m n -> fails c m = false).
Proof. exact none_runs_all. Qed.
Print Assumptions C10_none_runs_all.
