From Coq Require Import List Arith.
Import ListNotations.
From Coq Require Import ZArith.
From UJ Require Import Engine.Engine Engine.EngineErr Engine.EngineComplete Engine.Retry Engine.RetryProofs.
From UJ Require Run.Api.

Theorem C10_inflight_le_workers :
  forall (c : cfg) (s : st), cfg_ok c -> reachable c s -> inflight s <= workers c.
Proof. exact inflight_le_workers. Qed.
Print Assumptions C10_inflight_le_workers.

(** No hidden serialisation: an idle worker can dequeue any available item whatever the others do. *)
Theorem C10_parallelism :
  forall (c : cfg) (s : st) (w i : nat) (it : item),
  nth_error (ws s) w = Some WIdle -> nth_error (q s) i = Some it ->
  exists s', next c s (KGet w i) = Some s'.
Proof. exact get_enabled_parallel. Qed.
Print Assumptions C10_parallelism.

Theorem C10_failures_bound :
  forall (c : cfg) (s : st) (k : nat), cfg_ok c -> reachable c s -> max_errors c = Some k ->
  nfail (hist s) <= k + workers c.
Proof. exact failures_bound. Qed.
Print Assumptions C10_failures_bound.

Theorem C10_single_worker_exact :
  forall (c : cfg) (s : st) (k : nat), cfg_ok c -> acyclic (g c) -> workers c = 1 -> max_errors c = Some k ->
  reachable c s -> final s -> intr s = None ->
  nfail (hist s) = min (k + 1) (length (filter (eligibleb c) (nodes (g c)))).
Proof. exact single_worker_exact. Qed.
Print Assumptions C10_single_worker_exact.

Theorem C10_eligibleb_spec :
  forall (c : cfg) (n : nat), cfg_ok c -> acyclic (g c) -> In n (nodes (g c)) ->
  (eligibleb c n = true <-> eligible c n).
Proof. exact eligibleb_spec. Qed.
Print Assumptions C10_eligibleb_spec.

Theorem C10_none_runs_all :
  forall (c : cfg) (s : st), cfg_ok c -> acyclic (g c) -> max_errors c = None -> intr s = None ->
  reachable c s -> final s ->
  forall n, In n (nodes (g c)) ->
  (In (EStart n) (hist s) <-> forall m, reach (g c) m n -> fails c m = false).
Proof. exact none_runs_all. Qed.
Print Assumptions C10_none_runs_all.

(** retry = n (Engine/Retry.v models create_retry): at most n attempts; stop at the first success; an eventual
    success is a success; after exhaustion the reported exception is the last attempt's. *)
Theorem C10_retry_attempts_le :
  forall (attempts : Z) (f : nat -> outcome), (Z.of_nat (snd (retry_call attempts f)) <= Z.max attempts 0)%Z.
Proof. exact retry_attempts_le. Qed.
Print Assumptions C10_retry_attempts_le.

Theorem C10_retry_stops_at_first_success :
  forall (attempts : Z) (f : nat -> outcome) (j : nat) (v : Z),
  (Z.of_nat j < attempts)%Z ->
  (forall k, (k < j)%nat -> exists e, f k = ExcRetryable e) -> f j = OOk v ->
  retry_call attempts f = (ROk v, S j).
Proof. exact retry_stops_at_first_success. Qed.
Print Assumptions C10_retry_stops_at_first_success.

Theorem C10_retry_success_is_success :
  forall (attempts : Z) (f : nat -> outcome) (v : Z) (a : nat),
  retry_call attempts f = (ROk v, a) <->
  ((0 < a)%nat /\ (Z.of_nat a <= attempts)%Z /\ f (a - 1)%nat = OOk v /\
   forall k, (k < a - 1)%nat -> exists e, f k = ExcRetryable e).
Proof. exact retry_success_is_success. Qed.
Print Assumptions C10_retry_success_is_success.

Theorem C10_retry_reports_last :
  forall (attempts : Z) (f : nat -> outcome) (exc : nat -> nat),
  (1 <= attempts)%Z ->
  (forall k, (Z.of_nat k < attempts)%Z -> f k = ExcRetryable (exc k)) ->
  retry_call attempts f = (RRaise (exc (Z.to_nat attempts - 1)%nat), Z.to_nat attempts).
Proof. exact retry_reports_last. Qed.
Print Assumptions C10_retry_reports_last.

(** The limits reach the engine passes unchanged (Run/Api.v, the plumbing of [run]): the run pass gets max_workers,
    max_errors and the scheduler; the stale check gets stale_check_max_workers - max_workers when that is not given - and
    tolerates no error; both grant every operation the attempts the retry argument stands for. *)
Theorem C10_limits_reach_the_engine :
  forall (a : Api.args) (l : list Api.step) (b : bool) (p : Api.pass),
  Api.run_api a = Api.Steps l b ->
  (In (Api.StRun p) l ->
     Api.p_workers p = Api.a_max_workers a /\ Api.p_max_errors p = Api.a_max_errors a /\
     Api.p_sched p = Api.sched_of (Api.a_scheduler a) /\ Api.attempts_of (Api.a_retry a) = Some (Api.p_attempts p)) /\
  (In (Api.StStaleCheck p) l ->
     Api.p_workers p = match Api.a_stale_workers a with Some w => Some w | None => Api.a_max_workers a end /\
     Api.p_max_errors p = Some 0%Z /\ Api.attempts_of (Api.a_retry a) = Some (Api.p_attempts p)).
Proof. exact Api.limits_reach_the_engine. Qed.
Print Assumptions C10_limits_reach_the_engine.

(** Out-of-range limits are rejected before anything is started. *)
Theorem C10_invalid_limits_rejected :
  forall a : Api.args,
  (exists w, Api.a_max_workers a = Some w /\ (w < 1)%Z) \/ (exists w, Api.a_stale_workers a = Some w /\ (w < 1)%Z) \/
  (exists e, Api.a_max_errors a = Some e /\ (e < 0)%Z) \/ (exists n, Api.a_retry a = Api.RInt n /\ (n < 1)%Z) ->
  Api.run_api a = Api.Rejected.
Proof. exact Api.invalid_limits_rejected. Qed.
Print Assumptions C10_invalid_limits_rejected.
