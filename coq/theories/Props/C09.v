From Coq Require Import List Arith.
Import ListNotations.
From UJ Require Import Engine.Engine Base.Graph Cache.Prune Cache.Transform Cache.TransformProofs.
From UJ Require Import Cache.EndToEnd.

(** Setting ([tctx]): a well-formed plan [p], fresh ids from [c] on, registry entries [es] on distinct
    plan nodes; [q = add_all p c es] is the plan after [_add_value_store] of every entry and
    [fst (physical p c es output)] the pruned physical plan that the engine executes (C01: the engine
    starts a node only after everything that reaches it has finished). *)

(** A rebuilt stored value: value -> write -> read-back, with the store as a literal argument. *)
Theorem C09_write_then_read :
  forall p c es e ce, tctx p c es -> In (e, ce) (entry_ids c es) ->
  let q := add_all p c es in
  In (mke (lit_id ce) (read_id ce) (KPos 0)) (pedges q) /\
  (estale e = true -> In (mke (write_id ce) (read_id ce) KDep) (pedges q)) /\
  (estale e = true -> esource e = false ->
   In (mke (enode e) (write_id ce) (KPos 1)) (pedges q) /\
   In (mke (lit_id ce) (write_id ce) (KPos 0)) (pedges q)).
Proof. exact TransformProofs.C09_write_then_read. Qed.
Print Assumptions C09_write_then_read.

(** Every argument edge that left a registry node now leaves its read node ... *)
Theorem C09_consumers_on_read :
  forall p c es e ce s k, tctx p c es -> In (e, ce) (entry_ids c es) ->
  In (mke (enode e) s k) (pedges p) -> k <> KDep ->
  In (mke (read_id ce) s k) (pedges (add_all p c es)) /\
  ~ In (mke (enode e) s k) (pedges (add_all p c es)).
Proof. exact TransformProofs.C09_consumers_on_read. Qed.
Print Assumptions C09_consumers_on_read.

(** ... and conversely no consumer receives a registry node's in-memory result: every argument edge into
    an original node comes from an unregistered original node or from a read node. *)
Theorem C09_value_is_read :
  forall p c es x, tctx p c es -> In x (pedges (add_all p c es)) -> In (edst x) (pnodes p) -> ekind x <> KDep ->
  (In x (pedges p) /\ ~ In (esrc x) (map enode es)) \/
  exists e ce, In (e, ce) (entry_ids c es) /\ esrc x = read_id ce /\
               In (mke (enode e) (edst x) (ekind x)) (pedges p).
Proof. exact C09_args_only_from_reads. Qed.
Print Assumptions C09_value_is_read.

(** Nodes that merely depend on a registry node wait for its write when it is rebuilt. *)
Theorem C09_dependents_on_write :
  forall p c es e ce s, tctx p c es -> In (e, ce) (entry_ids c es) -> In (mke (enode e) s KDep) (pedges p) ->
  let q := add_all p c es in
  ~ In (mke (enode e) s KDep) (pedges q) /\
  (estale e = true -> In (mke (write_id ce) s KDep) (pedges q)) /\
  (estale e = false -> ~ In (mke (read_id ce) s KDep) (pedges q)).
Proof. exact TransformProofs.C09_dependents_on_write. Qed.
Print Assumptions C09_dependents_on_write.

(** In the pruned physical plan a surviving consumer is reached by value -> write -> read-back -> consumer. *)
Theorem C09_consumer_in_physical_plan :
  forall p c es output e ce s k, tctx p c es -> In (e, ce) (entry_ids c es) ->
  In (mke (enode e) s k) (pedges p) -> k <> KDep ->
  let r := fst (physical p c es output) in
  In s (pnodes r) ->
  In (mke (read_id ce) s k) (pedges r) /\ ~ In (mke (enode e) s k) (pedges r) /\
  In (read_id ce) (pnodes r) /\
  (estale e = true -> esource e = false ->
   In (mke (enode e) (write_id ce) (KPos 1)) (pedges r) /\
   reach (to_graph r) (enode e) (write_id ce) /\
   reach (to_graph r) (write_id ce) (read_id ce) /\
   reach (to_graph r) (read_id ce) s).
Proof. exact TransformProofs.C09_consumer_in_physical_plan. Qed.
Print Assumptions C09_consumer_in_physical_plan.

(** Downstream stored values are rebuilt after upstream ones; a stale dependent source is read only after
    the (re)writes and the unregistered calls it depends on. *)
Theorem C09_stale_source_after_deps :
  forall p c es e ce e2 c2, tctx p c es -> acyclic (to_graph p) ->
  In (e, ce) (entry_ids c es) -> estale e = true -> esource e = true ->
  In (e2, c2) (entry_ids c es) -> estale e2 = true -> edge (to_graph p) (enode e2) (enode e) ->
  reach (to_graph (add_all p c es)) (write_id c2) (read_id ce).
Proof. exact TransformProofs.C09_stale_source_after_deps. Qed.
Print Assumptions C09_stale_source_after_deps.

Theorem C09_stale_source_order_in_physical :
  forall p c es output e ce pr, tctx p c es -> In (e, ce) (entry_ids c es) -> estale e = true -> esource e = true ->
  edge (to_graph p) pr (enode e) -> ~ In pr (map enode es) ->
  let r := fst (physical p c es output) in
  In pr (pnodes r) -> In (read_id ce) (pnodes r) -> reach (to_graph r) pr (read_id ce).
Proof. exact TransformProofs.C09_stale_source_order_in_physical. Qed.
Print Assumptions C09_stale_source_order_in_physical.

(** The run's output for a registry node is its read node: the value returned is what the store's read returns. *)
Theorem C09_output_is_read_node :
  forall p c es e ce, tctx p c es -> In (e, ce) (entry_ids c es) ->
  snd (physical p c es (Some (enode e))) = Some (read_id ce) /\
  In (read_id ce) (pnodes (fst (physical p c es (Some (enode e))))).
Proof. exact TransformProofs.C09_output_is_read_node. Qed.
Print Assumptions C09_output_is_read_node.

(** End to end: in every run of the executed physical plan, under every schedule, a call that consumes a
    rebuilt stored value starts only after that value was computed, written to its store and read back. *)
Theorem C09_run_order :
  forall (p : pgraph) (c0 : nat) (es : list entry) (output : option nat)
         (e : entry) (ce : nat) (sn : nat) (k : ekey) (c : cfg) (s : st),
  tctx p c0 es -> In (e, ce) (entry_ids c0 es) -> estale e = true -> esource e = false ->
  In (mke (enode e) sn k) (pedges p) -> k <> KDep ->
  let r := fst (physical p c0 es output) in
  In sn (pnodes r) -> pkind r sn = KCall -> pkind r (enode e) = KCall ->
  g c = to_graph (executed r) -> 1 <= workers c -> reachable c s ->
  forall h1 h2, hist s = h1 ++ EStart sn :: h2 ->
    In (EOk (enode e)) h2 /\ In (EOk (write_id ce)) h2 /\ In (EOk (read_id ce)) h2.
Proof. exact physical_run_order. Qed.
Print Assumptions C09_run_order.
