From Coq Require Import List Arith.
Import ListNotations.
From UJ Require Import Base.Graph Cache.Transform.

Theorem C09_placeholder : forall c e, next_id c e = if estale e then S (S (S c)) else S (S c).
Proof. reflexivity. Qed.
Print Assumptions C09_placeholder.
