From Coq Require Import List Arith.
Import ListNotations.
From UJ Require Import Engine.Engine Engine.EngineOrd.

Theorem C01_start_after_deps :
  forall (c : cfg) (s : st), cfg_ok c -> reachable c s ->
  forall h1 h2 n, hist s = h1 ++ EStart n :: h2 ->
  forall m, reach (g c) m n -> In (EOk m) h2.
Proof. exact ordered_reachable. Qed.
Print Assumptions C01_start_after_deps.

Theorem C01_running_deps_finished :
  forall (c : cfg) (s : st) (w n m : nat), cfg_ok c -> reachable c s ->
  nth_error (ws s) w = Some (WRun n) -> reach (g c) m n -> In (EOk m) (hist s).
Proof. exact running_deps_ok. Qed.
Print Assumptions C01_running_deps_finished.
