From Coq Require Import List Arith.
Import ListNotations.
From UJ Require Import Engine.Engine Engine.EngineOrd.
From UJ Require Import Base.Graph Cache.Prune Cache.PruneProofs.
From UJ Require Import Cache.EndToEnd.

Theorem C01_start_after_deps :
  forall (c : cfg) (s : st), cfg_ok c -> reachable c s ->
  forall h1 h2 n, hist s = h1 ++ EStart n :: h2 ->
  forall m, reach (g c) m n -> In (EOk m) h2.
Proof. exact ordered_reachable. Qed.
Print Assumptions C01_start_after_deps.

Theorem C01_running_deps_finished :
  forall (c : cfg) (s : st) (w n m : nat), cfg_ok c -> reachable c s ->
  nth_error (ws s) w = Some (WRun n) -> reach (g c) m n -> In (EOk m) (hist s).
Proof. exact running_deps_ok. Qed.
Print Assumptions C01_running_deps_finished.

(** Plan -> run graph: pruning, literal elision and source-literal removal never drop a dependency
    between surviving nodes, and never invent one. *)
Theorem C01_prune_preserves_deps :
  forall (p : pgraph) (output : option nat) (a b : nat),
  In a (pnodes (run_graph p output)) -> In b (pnodes (run_graph p output)) ->
  reach (to_graph p) a b -> reach (to_graph (run_graph p output)) a b.
Proof. exact run_graph_preserves_deps. Qed.
Print Assumptions C01_prune_preserves_deps.

Theorem C01_prune_no_new_deps :
  forall (p : pgraph) (output : option nat) (a b : nat),
  reach (to_graph (run_graph p output)) a b -> reach (to_graph p) a b.
Proof. exact run_graph_no_new_deps. Qed.
Print Assumptions C01_prune_no_new_deps.

Theorem C01_prune_general :
  forall (p : pgraph) (required : list nat) (output : option nat) (a b : nat),
  In a (pnodes (prune_plan p required output)) -> In b (pnodes (prune_plan p required output)) ->
  reach (to_graph p) a b -> reach (to_graph (prune_plan p required output)) a b.
Proof. exact prune_preserves_deps. Qed.
Print Assumptions C01_prune_general.

(** End to end, without a registry: in every run of the graph that [run] hands to the engine, under every
    schedule, a call starts only after every call it depends on IN THE PLAN (through any mix of edges and
    literals) has finished successfully. *)
Theorem C01_plan_run_order :
  forall (p : pgraph) (output : option nat) (c : cfg) (s : st),
  pgraph_wf p -> g c = to_graph (run_graph p output) -> 1 <= workers c -> reachable c s ->
  forall h1 h2 n, hist s = h1 ++ EStart n :: h2 ->
  forall m, In m (pnodes (run_graph p output)) -> In n (pnodes (run_graph p output)) ->
            reach (to_graph p) m n -> In (EOk m) h2.
Proof. exact plan_run_order. Qed.
Print Assumptions C01_plan_run_order.
