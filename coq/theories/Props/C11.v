From Coq Require Import List Arith Bool ZArith.
Import ListNotations.
From UJ Require Import Store.FS Store.Staged Store.StagedProofs.
Open Scope Z_scope.

Theorem C11_old_or_new :
  forall (fixed : bool) (f : fault) (st p : path) (chunks : list bytes) (ser_ok : bool) (s : state),
    p <> st -> opened s = None -> clock_ahead s ->
    let s' := fst (staged_write fixed f st p chunks ser_ok s) in
    let installed := exists t, files s' p = Some (new_content chunks, t) /\ clock s <= t in
    (files s' p = files s p \/ installed) /\
    (mtime_of s' p <> mtime_of s p <-> installed).
Proof. exact old_or_new. Qed.
Print Assumptions C11_old_or_new.

Theorem C11_success_installs_new :
  forall (fixed : bool) (st p : path) (chunks : list bytes) (s : state),
    p <> st -> opened s = None ->
    let r := staged_write fixed NoFault st p chunks true s in
    snd r = Ok /\ files (fst r) st = None /\
    (forall q, q <> st -> q <> p -> files (fst r) q = files s q) /\
    exists t, files (fst r) p = Some (new_content chunks, t) /\ clock s <= t.
Proof. exact success_installs. Qed.
Print Assumptions C11_success_installs_new.

Theorem C11_no_staging_after_exception :
  forall (f : fault) (st p : path) (chunks : list bytes) (ser_ok : bool) (s : state),
    p <> st -> opened s = None -> is_death f = false -> remove_faulted chunks ser_ok f = false ->
    let r := staged_write true f st p chunks ser_ok s in
    snd r <> Dead /\ files (fst r) st = None.
Proof. exact no_staging_after_exception. Qed.
Print Assumptions C11_no_staging_after_exception.

Theorem C11_no_staging_after_exception_prefix_refuted :
  exists (s : state) (st p : path) (chunks : list bytes) (i pre : nat),
    p <> st /\ opened s = None /\ clock_ahead s /\
    let r := staged_write false (Exc i pre) st p chunks true s in
    snd r = Exn /\ files (fst r) st <> None.
Proof. exact no_staging_after_exception_prefix_refuted. Qed.
Print Assumptions C11_no_staging_after_exception_prefix_refuted.

Theorem C11_leftover_harmless :
  forall (fixed : bool) (f : fault) (st p : path) (chunks : list bytes) (ser_ok : bool) (s : state) (junk : file),
    p <> st -> opened s = None ->
    let r1 := staged_write fixed f st p chunks ser_ok (with_leftover s st junk) in
    let r2 := staged_write fixed f st p chunks ser_ok s in
    files (fst r1) p = files (fst r2) p /\ snd r1 = snd r2 /\
    read_file (with_leftover s st junk) p = read_file s p /\
    mtime_of (with_leftover s st junk) p = mtime_of s p /\
    (snd r1 = Ok -> files (fst r1) st = None).
Proof. exact leftover_harmless. Qed.
Print Assumptions C11_leftover_harmless.
