From Coq Require Import List Arith.
Import ListNotations.
From UJ Require Import Engine.Engine Engine.EngineInv Engine.EngineTermInv Engine.EngineComplete.
From UJ Require Import Base.Graph Cache.Prune Cache.PruneProofs Engine.Queues Engine.QueuesProofs.
From UJ Require Import Cache.EndToEnd.

(** In any run - successful or not, any interleaving - no call is started more than once. *)
Theorem C04_at_most_once :
  forall (c : cfg) (s : st) (n : nat), cfg_ok c -> reachable c s -> count_ev (EStart n) (hist s) <= 1.
Proof. exact at_most_once. Qed.
Print Assumptions C04_at_most_once.

(** A run that returns normally has executed every node of the run graph exactly once. *)
Theorem C04_success_exactly_once :
  forall (c : cfg) (s : st), cfg_ok c -> acyclic (g c) -> reachable c s -> final s ->
  result s = Some Returned ->
  forall n, In n (nodes (g c)) -> count_ev (EStart n) (hist s) = 1.
Proof. exact success_exactly_once. Qed.
Print Assumptions C04_success_exactly_once.

(** Only nodes of the run graph are ever enqueued, hence executed. *)
Theorem C04_only_graph_nodes :
  forall (c : cfg) (s : st) (n : nat), cfg_ok c -> reachable c s -> 0 < lc n s -> In n (nodes (g c)).
Proof. exact enqueued_in_nodes. Qed.
Print Assumptions C04_only_graph_nodes.

(** Without a registry the calls of the run graph are exactly the calls the requested output
    transitively depends on (and the output itself); with no output nothing survives. *)
Theorem C04_prune_exact :
  forall (p : pgraph) (output : option nat) (n : nat), is_lit p n = false ->
  (In n (pnodes (run_graph p output)) <->
   In n (pnodes p) /\ (output = Some n \/ exists o, output = Some o /\ reach (to_graph p) n o)).
Proof. exact run_graph_calls. Qed.
Print Assumptions C04_prune_exact.

Theorem C04_prune_none_empty : forall p : pgraph, pnodes (run_graph p None) = [].
Proof. exact run_graph_none_empty. Qed.
Print Assumptions C04_prune_none_empty.

Theorem C04_prune_required_exact :
  forall (p : pgraph) (required : list nat) (output : option nat) (n : nat), is_lit p n = false ->
  (In n (pnodes (prune_plan p required output)) <->
   In n (pnodes p) /\
   (In n (prune_roots required output) \/
    exists s, In s (prune_roots required output) /\ reach (to_graph p) n s)).
Proof. exact prune_keeps_exactly_ancestors. Qed.
Print Assumptions C04_prune_required_exact.

(** Queue disciplines neither lose nor duplicate items: RandomQueue's put/get are permutations of
    the bag semantics used by the engine model. *)
Theorem C04_random_queue_put :
  forall (A : Type) (i : nat) (x : A) (l l' : list A), rq_put i x l = Some l' -> Permutation.Permutation l' (x :: l).
Proof. exact @rq_put_perm. Qed.
Print Assumptions C04_random_queue_put.

Theorem C04_random_queue_get :
  forall (A : Type) (l : list A) (x : A) (l' : list A),
  rq_get l = Some (x, l') -> In x l /\ Permutation.Permutation (x :: l') l.
Proof. exact @rq_get_spec. Qed.
Print Assumptions C04_random_queue_get.

(** End to end, without a registry: a successful run executes exactly the calls the requested output
    transitively depends on, each exactly once, and no other call of the plan. *)
Theorem C04_plan_run_exact :
  forall (p : pgraph) (output : option nat) (c : cfg) (s : st),
  pgraph_wf p -> acyclic (to_graph p) ->
  g c = to_graph (run_graph p output) -> 1 <= workers c ->
  reachable c s -> final s -> result s = Some Returned ->
  forall n, In n (pnodes p) -> is_lit p n = false ->
    ((output = Some n \/ exists o, output = Some o /\ reach (to_graph p) n o) -> count_ev (EStart n) (hist s) = 1) /\
    (~ (output = Some n \/ exists o, output = Some o /\ reach (to_graph p) n o) -> count_ev (EStart n) (hist s) = 0).
Proof. exact plan_run_exact. Qed.
Print Assumptions C04_plan_run_exact.
