From Coq Require Import List Arith.
Import ListNotations.
From UJ Require Import Engine.Engine Engine.EngineInv Engine.EngineTermInv Engine.EngineComplete.

(** In any run - successful or not, any interleaving - no call is started more than once. *)
Theorem C04_at_most_once :
  forall (c : cfg) (s : st) (n : nat), cfg_ok c -> reachable c s -> count_ev (EStart n) (hist s) <= 1.
Proof. exact at_most_once. Qed.
Print Assumptions C04_at_most_once.

(** A run that returns normally has executed every node of the run graph exactly once. *)
Theorem C04_success_exactly_once :
  forall (c : cfg) (s : st), cfg_ok c -> acyclic (g c) -> reachable c s -> final s ->
  result s = Some Returned ->
  forall n, In n (nodes (g c)) -> count_ev (EStart n) (hist s) = 1.
Proof. exact success_exactly_once. Qed.
Print Assumptions C04_success_exactly_once.

(** Only nodes of the run graph are ever enqueued, hence executed. *)
Theorem C04_only_graph_nodes :
  forall (c : cfg) (s : st) (n : nat), cfg_ok c -> reachable c s -> 0 < lc n s -> In n (nodes (g c)).
Proof. exact enqueued_in_nodes. Qed.
Print Assumptions C04_only_graph_nodes.
