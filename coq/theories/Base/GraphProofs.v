(** Basic facts about the keyed multigraph of Base/Graph.v. *)
From Coq Require Import List Arith Bool Lia Permutation.
Import ListNotations.
From UJ Require Import Engine.Engine Base.Topo Base.TopoProofs Base.Graph.

Lemma ekey_eqb_eq a b : ekey_eqb a b = true <-> a = b.
Proof.
  destruct a, b; cbn; split; intros H; try discriminate; try reflexivity.
  - apply Nat.eqb_eq in H. now subst.
  - inversion H. apply Nat.eqb_refl.
  - apply andb_true_iff in H. destruct H as [H1 H2]. apply Nat.eqb_eq in H1, H2. now subst.
  - inversion H. now rewrite !Nat.eqb_refl.
Qed.

Lemma kedge_eqb_eq a b : kedge_eqb a b = true <-> a = b.
Proof.
  destruct a as [s d k], b as [s' d' k']. unfold kedge_eqb. cbn. split.
  - intros H. apply andb_true_iff in H. destruct H as [H Hk].
    apply andb_true_iff in H. destruct H as [Hs Hd].
    apply Nat.eqb_eq in Hs, Hd. apply ekey_eqb_eq in Hk. now subst.
  - intros H. inversion H. subst. rewrite !Nat.eqb_refl. cbn. now apply ekey_eqb_eq.
Qed.

Lemma kedge_eqb_refl a : kedge_eqb a a = true.
Proof. now apply kedge_eqb_eq. Qed.

Lemma kedge_eq_dec (a b : kedge) : {a = b} + {a <> b}.
Proof.
  destruct (kedge_eqb a b) eqn:E; [left; now apply kedge_eqb_eq|].
  right. intros H. apply kedge_eqb_eq in H. congruence.
Qed.

Lemma has_edge_In p e : has_edge p e = true <-> In e (pedges p).
Proof.
  unfold has_edge. rewrite existsb_exists. split.
  - intros [x [Hx He]]. apply kedge_eqb_eq in He. now subst.
  - intros H. exists e. split; [assumption | apply kedge_eqb_refl].
Qed.

(** edges of the forgetful graph *)
Lemma pedge_iff p a b :
  edge (to_graph p) a b <-> exists k, In {| esrc := a; edst := b; ekind := k |} (pedges p).
Proof.
  unfold edge, to_graph. cbn. rewrite in_map_iff. split.
  - intros [[s d k] [He Hin]]. unfold epair in He. cbn in He. inversion He; subst. now exists k.
  - intros [k Hin]. eexists. split; [|exact Hin]. reflexivity.
Qed.

Lemma pedge_of_In p e : In e (pedges p) -> edge (to_graph p) (esrc e) (edst e).
Proof. intros H. apply pedge_iff. exists (ekind e). now destruct e. Qed.

Lemma pedge_iff' p a b :
  edge (to_graph p) a b <-> exists e, In e (pedges p) /\ esrc e = a /\ edst e = b.
Proof.
  rewrite pedge_iff. split.
  - intros [k H]. eexists. split; [exact H|]. split; reflexivity.
  - intros [[s d k] [H [Hs Hd]]]. cbn in *. subst. now exists k.
Qed.

Lemma ppreds_In p n a : In a (ppreds p n) <-> edge (to_graph p) a n.
Proof. apply preds_first_In. Qed.
Lemma psuccs_In p n b : In b (psuccs p n) <-> edge (to_graph p) n b.
Proof. apply succs_first_In. Qed.
Lemma ppreds_NoDup p n : NoDup (ppreds p n).
Proof. apply preds_first_NoDup. Qed.
Lemma psuccs_NoDup p n : NoDup (psuccs p n).
Proof. apply succs_first_NoDup. Qed.
(** [len(graph.pred[n])] as the engine counts it *)
Lemma ppreds_length p n : length (ppreds p n) = pcount (to_graph p) n.
Proof. apply preds_first_length. Qed.

Lemma out_edges_In p n e : In e (out_edges p n) <-> In e (pedges p) /\ esrc e = n.
Proof. unfold out_edges. rewrite filter_In, Nat.eqb_eq. reflexivity. Qed.
Lemma in_edges_In p n e : In e (in_edges p n) <-> In e (pedges p) /\ edst e = n.
Proof. unfold in_edges. rewrite filter_In, Nat.eqb_eq. reflexivity. Qed.

(** ** add_edge *)
Lemma add_edge_nodes e p : pnodes (add_edge e p) = pnodes p.
Proof. unfold add_edge. now destruct (has_edge p e). Qed.
Lemma add_edge_kind e p : pkind (add_edge e p) = pkind p.
Proof. unfold add_edge. now destruct (has_edge p e). Qed.
Lemma add_edge_In e p e' : In e' (pedges (add_edge e p)) <-> e' = e \/ In e' (pedges p).
Proof.
  unfold add_edge. destruct (has_edge p e) eqn:E; cbn.
  - apply has_edge_In in E. split; [now right|]. intros [-> | H]; assumption.
  - rewrite in_app_iff. cbn. split; intros H; [destruct H as [H | [H | []]] | destruct H as [H | H]]; auto.
Qed.
(** idempotent: the edge list is a set *)
Lemma add_edge_idem e p : add_edge e (add_edge e p) = add_edge e p.
Proof.
  unfold add_edge at 1. assert (H : has_edge (add_edge e p) e = true).
  { apply has_edge_In, add_edge_In. now left. }
  now rewrite H.
Qed.

Lemma add_edges_nodes es p : pnodes (add_edges es p) = pnodes p.
Proof.
  unfold add_edges. revert p. induction es as [|e es IH]; intros p; cbn; [reflexivity|].
  now rewrite IH, add_edge_nodes.
Qed.
Lemma add_edges_kind es p : pkind (add_edges es p) = pkind p.
Proof.
  unfold add_edges. revert p. induction es as [|e es IH]; intros p; cbn; [reflexivity|].
  now rewrite IH, add_edge_kind.
Qed.
Lemma add_edges_In es p e' : In e' (pedges (add_edges es p)) <-> In e' es \/ In e' (pedges p).
Proof.
  unfold add_edges. revert p. induction es as [|e es IH]; intros p; cbn; [tauto|].
  rewrite IH, add_edge_In. intuition auto.
Qed.

(** ** remove_node(s) *)
Lemma remove_node_nodes n p m : In m (pnodes (remove_node n p)) <-> In m (pnodes p) /\ m <> n.
Proof.
  unfold remove_node. cbn. rewrite filter_In, negb_true_iff, Nat.eqb_neq. reflexivity.
Qed.
Lemma remove_node_In n p e :
  In e (pedges (remove_node n p)) <-> In e (pedges p) /\ esrc e <> n /\ edst e <> n.
Proof.
  unfold remove_node, incident. cbn. rewrite filter_In, negb_true_iff, orb_false_iff, !Nat.eqb_neq.
  reflexivity.
Qed.
Lemma remove_node_kind n p : pkind (remove_node n p) = pkind p.
Proof. reflexivity. Qed.

Lemma remove_nodes_nodes l p m : In m (pnodes (remove_nodes l p)) <-> In m (pnodes p) /\ ~ In m l.
Proof.
  unfold remove_nodes. revert p. induction l as [|n l IH]; intros p; cbn; [tauto|].
  rewrite IH, remove_node_nodes. intuition auto.
Qed.
Lemma remove_nodes_In l p e :
  In e (pedges (remove_nodes l p)) <-> In e (pedges p) /\ ~ In (esrc e) l /\ ~ In (edst e) l.
Proof.
  unfold remove_nodes. revert p. induction l as [|n l IH]; intros p; cbn; [tauto|].
  rewrite IH, remove_node_In. intuition auto.
Qed.
Lemma remove_nodes_kind l p : pkind (remove_nodes l p) = pkind p.
Proof.
  unfold remove_nodes. revert p. induction l as [|n l IH]; intros p; cbn; [reflexivity|]. now rewrite IH.
Qed.

(** the surviving nodes keep their insertion order *)
Lemma remove_nodes_nodes_eq l p : pnodes (remove_nodes l p) = filter (fun m => negb (inb m l)) (pnodes p).
Proof.
  unfold remove_nodes. revert p. induction l as [|n l IH]; intros p; cbn [fold_left].
  - cbn. induction (pnodes p) as [|a t IHt]; cbn; [reflexivity | now rewrite <- IHt].
  - rewrite IH. cbn [remove_node pnodes]. induction (pnodes p) as [|a t IHt]; cbn [filter]; [reflexivity|].
    rewrite inb_cons. destruct (a =? n) eqn:E; cbn [negb orb].
    + exact IHt.
    + cbn [filter]. destruct (inb a l); cbn [negb]; [exact IHt | now rewrite IHt].
Qed.

Lemma remove_node_edge n p a b :
  edge (to_graph (remove_node n p)) a b <-> edge (to_graph p) a b /\ a <> n /\ b <> n.
Proof.
  rewrite !pedge_iff'. split.
  - intros [e [He [<- <-]]]. apply remove_node_In in He. destruct He as [He [H1 H2]].
    split; [|split; assumption]. now exists e.
  - intros [[e [He [<- <-]]] [H1 H2]]. exists e. split; [|split; reflexivity].
    apply remove_node_In. auto.
Qed.
Lemma remove_nodes_edge l p a b :
  edge (to_graph (remove_nodes l p)) a b <-> edge (to_graph p) a b /\ ~ In a l /\ ~ In b l.
Proof.
  rewrite !pedge_iff'. split.
  - intros [e [He [<- <-]]]. apply remove_nodes_In in He. destruct He as [He [H1 H2]].
    split; [|split; assumption]. now exists e.
  - intros [[e [He [<- <-]]] [H1 H2]]. exists e. split; [|split; reflexivity].
    apply remove_nodes_In. auto.
Qed.
Lemma add_edges_edge es p a b :
  edge (to_graph (add_edges es p)) a b <->
  edge (to_graph p) a b \/ exists e, In e es /\ esrc e = a /\ edst e = b.
Proof.
  rewrite !pedge_iff'. split.
  - intros [e [He Hab]]. apply add_edges_In in He. destruct He as [He | He]; [right | left]; now exists e.
  - intros [[e [He Hab]] | [e [He Hab]]]; exists e; (split; [|assumption]); apply add_edges_In; auto.
Qed.

(** ** remove_edge *)
Lemma remove_edge_In e p e' : In e' (pedges (remove_edge e p)) <-> In e' (pedges p) /\ e' <> e.
Proof.
  unfold remove_edge. cbn. rewrite filter_In, negb_true_iff. split; intros [H1 H2]; split; try assumption.
  - intros ->. now rewrite kedge_eqb_refl in H2.
  - destruct (kedge_eqb e e') eqn:E; [|reflexivity]. apply kedge_eqb_eq in E. congruence.
Qed.

(** ** well-formedness *)
Lemma to_graph_wf p : pgraph_wf p -> graph_wf (to_graph p).
Proof.
  intros [Hn [_ He]]. split; [exact Hn|]. intros a b Hab. apply pedge_iff' in Hab.
  destruct Hab as [e [Hin [<- <-]]]. now apply He.
Qed.

Lemma add_edge_wf e p :
  pgraph_wf p -> In (esrc e) (pnodes p) -> In (edst e) (pnodes p) -> pgraph_wf (add_edge e p).
Proof.
  intros [Hn [Hd He]] Hs Ht. unfold add_edge. destruct (has_edge p e) eqn:E.
  - split; [assumption | split; assumption].
  - split; [exact Hn | split]; cbn.
    + apply NoDup_app_intro; [assumption | constructor; [intros [] | constructor] |].
      intros x Hx [<- | []]. apply has_edge_In in Hx. congruence.
    + intros e' H. apply in_app_or in H. destruct H as [H | [<- | []]]; [now apply He | now split].
Qed.

Lemma add_edges_wf es p :
  pgraph_wf p -> (forall e, In e es -> In (esrc e) (pnodes p) /\ In (edst e) (pnodes p)) ->
  pgraph_wf (add_edges es p).
Proof.
  unfold add_edges. revert p. induction es as [|e es IH]; intros p Hwf Hes; cbn; [assumption|].
  apply IH.
  - apply add_edge_wf; [assumption | apply Hes; now left | apply Hes; now left].
  - intros e' He'. rewrite add_edge_nodes. apply Hes. now right.
Qed.

Lemma remove_node_wf n p : pgraph_wf p -> pgraph_wf (remove_node n p).
Proof.
  intros [Hn [Hd He]]. split; [|split].
  - cbn. now apply NoDup_filter.
  - cbn. now apply NoDup_filter.
  - intros e H. apply remove_node_In in H. destruct H as [H [H1 H2]].
    split; apply remove_node_nodes; (split; [now apply He | assumption]).
Qed.

Lemma remove_nodes_wf l p : pgraph_wf p -> pgraph_wf (remove_nodes l p).
Proof.
  unfold remove_nodes. revert p. induction l as [|n l IH]; intros p H; cbn; [assumption|].
  apply IH. now apply remove_node_wf.
Qed.

Lemma remove_edge_wf e p : pgraph_wf p -> pgraph_wf (remove_edge e p).
Proof.
  intros [Hn [Hd He]]. split; [exact Hn | split]; cbn.
  - now apply NoDup_filter.
  - intros e' H. apply filter_In in H. now apply He.
Qed.
