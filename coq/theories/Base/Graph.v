(** Keyed multigraph used by the plan-level models: a [networkx.MultiDiGraph] whose nodes are
    uberjob [Literal]/[Call] objects (here: their creation index) and whose edge keys are
    [PositionalArg i] / [KeywordArg name idx] / [Dependency()].  Definitions only; lemmas in GraphProofs.v.

    [pnodes] is in node insertion order ([graph.nodes()]); [pedges] lists the (src, dst, key) triples in
    insertion order and is a SET: networkx's [add_edge u v key] with an existing key only updates the
    (empty) attribute dict, hence [add_edge] below is a no-op for a triple that is present.
    The distinct-neighbour views in first-insertion order ([ppreds]/[psuccs]) are networkx's adjacency
    order provided edges only disappear through [remove_node] (see Base/Topo.v, ORDER). *)
From Coq Require Import List Arith Bool.
Import ListNotations.
From UJ Require Import Engine.Engine Base.Topo.

Inductive ekey := KPos (i : nat) | KKw (name idx : nat) | KDep.
Record kedge := { esrc : nat; edst : nat; ekind : ekey }.
Inductive nkind := KLit | KCall.
Record pgraph := {
  pnodes : list nat;
  pkind : nat -> nkind;
  pedges : list kedge
}.

Definition ekey_eqb (a b : ekey) : bool :=
  match a, b with
  | KPos i, KPos j => i =? j
  | KKw n i, KKw m j => (n =? m) && (i =? j)
  | KDep, KDep => true
  | _, _ => false
  end.
Definition kedge_eqb (a b : kedge) : bool :=
  (esrc a =? esrc b) && (edst a =? edst b) && ekey_eqb (ekind a) (ekind b).
Definition is_dep (k : ekey) : bool := match k with KDep => true | _ => false end.
Definition is_lit (p : pgraph) (n : nat) : bool := match pkind p n with KLit => true | KCall => false end.

(** forgetting the keys: the graph the engine / Kahn / all_ancestors see *)
Definition epair (e : kedge) : nat * nat := (esrc e, edst e).
Definition to_graph (p : pgraph) : graph := {| nodes := pnodes p; edges := map epair (pedges p) |}.

Definition has_node (p : pgraph) (n : nat) : bool := inb n (pnodes p).
Definition has_edge (p : pgraph) (e : kedge) : bool := existsb (kedge_eqb e) (pedges p).

(** [graph.add_node(n)] for a fresh Literal/Call object *)
Definition add_node (n : nat) (k : nkind) (p : pgraph) : pgraph :=
  if has_node p n then p
  else {| pnodes := pnodes p ++ [n];
          pkind := fun m => if m =? n then k else pkind p m;
          pedges := pedges p |}.

(** [graph.add_edge(src, dst, key)]; both endpoints are nodes already (uberjob always adds nodes first;
    networkx would add missing endpoints silently) *)
Definition add_edge (e : kedge) (p : pgraph) : pgraph :=
  if has_edge p e then p
  else {| pnodes := pnodes p; pkind := pkind p; pedges := pedges p ++ [e] |}.
Definition add_edges (es : list kedge) (p : pgraph) : pgraph := fold_left (fun p' e => add_edge e p') es p.

Definition incident (n : nat) (e : kedge) : bool := (esrc e =? n) || (edst e =? n).

(** [graph.remove_node(n)]: the node and every edge touching it *)
Definition remove_node (n : nat) (p : pgraph) : pgraph :=
  {| pnodes := filter (fun m => negb (m =? n)) (pnodes p);
     pkind := pkind p;
     pedges := filter (fun e => negb (incident n e)) (pedges p) |}.
(** [graph.remove_nodes_from(l)] / a loop of remove_node *)
Definition remove_nodes (l : list nat) (p : pgraph) : pgraph := fold_left (fun p' n => remove_node n p') l p.

(** [graph.remove_edge(src, dst, key)] *)
Definition remove_edge (e : kedge) (p : pgraph) : pgraph :=
  {| pnodes := pnodes p; pkind := pkind p; pedges := filter (fun e' => negb (kedge_eqb e e')) (pedges p) |}.

(** [graph.out_edges(n, keys=True)], [graph.in_edges(n, keys=True)] *)
Definition out_edges (p : pgraph) (n : nat) : list kedge := filter (fun e => esrc e =? n) (pedges p).
Definition in_edges (p : pgraph) (n : nat) : list kedge := filter (fun e => edst e =? n) (pedges p).
(** [list(graph.predecessors(n))], [list(graph.successors(n))]: distinct, first-insertion order *)
Definition ppreds (p : pgraph) (n : nat) : list nat := preds_first (to_graph p) n.
Definition psuccs (p : pgraph) (n : nat) : list nat := succs_first (to_graph p) n.

Definition pgraph_wf (p : pgraph) : Prop :=
  NoDup (pnodes p) /\ NoDup (pedges p) /\
  forall e, In e (pedges p) -> In (esrc e) (pnodes p) /\ In (edst e) (pnodes p).

Definition calls (p : pgraph) : list nat := filter (fun n => negb (is_lit p n)) (pnodes p).
Definition literals (p : pgraph) : list nat := filter (is_lit p) (pnodes p).
