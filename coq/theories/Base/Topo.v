(** Models of uberjob/_util/networkx_util.py: [topological_sort] (Kahn's algorithm), [assert_acyclic],
    [all_ancestors], [predecessor_count], [is_source_node].  Definitions only; proofs are in TopoProofs.v.

    Graph vocabulary is Engine.v's ([graph], [preds], [succs], [pcount], [edge], [reach], [graph_wf],
    [acyclic]).  [edges g] lists the edges in insertion order, one entry per (src, dst, key) triple, so
    parallel edges show up as duplicates of the pair.

    ORDER.  Engine's [preds]/[succs] are [nodup], which keeps the LAST occurrence of each element; the
    adjacency dicts of networkx ([graph.succ[n]], [graph.pred[n]]) are keyed by neighbour in order of
    FIRST insertion.  The engine does not care (bag semantics).  [topological_sort]'s output order does, so
    the models here iterate [succs_first]/[preds_first] = distinct neighbours in first-insertion order;
    they have the same elements and the same length as [succs]/[preds] (TopoProofs: [succs_first_In],
    [preds_first_length]).  This is faithful to networkx as long as no single edge of a pair was removed
    while a parallel one stayed and was followed by re-insertion; uberjob's pruning only removes whole
    nodes, which preserves the relative adjacency order, exactly like [filter] on the edge list. *)
From Coq Require Import List Arith Bool Lia.
Import ListNotations.
From UJ Require Import Engine.Engine.

Definition inb (x : nat) (l : list nat) : bool := existsb (Nat.eqb x) l.

(** distinct elements, first occurrences kept, original order *)
Definition nodup_first (l : list nat) : list nat := rev (nodup Nat.eq_dec (rev l)).

Definition succs_first (g : graph) (n : nat) : list nat :=
  nodup_first (map snd (filter (fun e => fst e =? n) (edges g))).
Definition preds_first (g : graph) (n : nat) : list nat :=
  nodup_first (map fst (filter (fun e => snd e =? n) (edges g))).

(** [is_source_node(graph, node)]: [not graph.pred[node]] *)
Definition is_source (g : graph) (n : nat) : bool := pcount g n =? 0.

(** * topological_sort *)

(** What a full iteration of the generator does. *)
Inductive kres :=
| KOk (order : list nat)     (* all nodes yielded, in this order; no exception *)
| KCycle                     (* nx.HasACycle after the loop *)
| KNeg                       (* a counter that is absent/zero is decremented: KeyError / negative count in
                                Python; proved unreachable for well-formed graphs *)
| KFuel.                     (* model artefact: out of fuel; proved unreachable *)

(** The inner [for successor in succ[node]] loop.  [cnt] is [pred_count_mapping] (a node that is not a
    key of the dict has count 0 here: such a node has no predecessor and is therefore never a successor);
    [q] is the Python list [q] REVERSED: its head is the last element, so [q.append x] is [x :: q] and
    [q.pop()] takes the head. *)
Fixpoint relax (ss : list nat) (cnt : nat -> nat) (q : list nat) : option ((nat -> nat) * list nat) :=
  match ss with
  | [] => Some (cnt, q)
  | s :: t =>
      match cnt s with
      | 0 => None
      | S c => relax t (fun y => if y =? s then c else cnt y) (if c =? 0 then s :: q else q)
      end
  end.

(** The [while q] loop; [out] is the list of yielded nodes, newest first. *)
Fixpoint kahn_loop (g : graph) (fuel : nat) (cnt : nat -> nat) (q out : list nat) : kres :=
  match fuel with
  | 0 => KFuel
  | S f =>
      match q with
      | [] => if existsb (fun n => negb (cnt n =? 0)) (nodes g) then KCycle else KOk (rev out)
      | node :: q' =>
          match relax (succs_first g node) cnt q' with
          | None => KNeg
          | Some (cnt', q'') => kahn_loop g f cnt' q'' (node :: out)
          end
      end
  end.

(** initial [q]: the nodes without predecessors, appended in [graph.nodes] order *)
Definition kahn_q0 (g : graph) : list nat := rev (filter (is_source g) (nodes g)).

Definition kahn_run (g : graph) : kres :=
  kahn_loop g (S (length (nodes g))) (pcount g) (kahn_q0 g) [].

(** [Some order] = the generator yields [order] and finishes; [None] = it raises (for well-formed graphs:
    exactly [nx.HasACycle], see TopoProofs.kahn_none_is_cycle). *)
Definition kahn (g : graph) : option (list nat) :=
  match kahn_run g with KOk l => Some l | _ => None end.

(** [assert_acyclic graph] returns normally *)
Definition assert_acyclic_ok (g : graph) : bool :=
  match kahn g with Some _ => true | None => false end.

(** [a] strictly before [b] in [l] *)
Definition before (a b : nat) (l : list nat) : Prop :=
  exists l1 l2, l = l1 ++ a :: l2 /\ In b l2.

(** * all_ancestors *)

(** [frontier] is the Python list reversed (head = last element): [frontier.extend(ps)] pushes the
    elements of [ps] one by one, i.e. [rev ps ++ frontier].  [visited] is the set as a list, newest first.
    [None] = out of fuel (model artefact, unreachable: TopoProofs.anc_fuel_sufficient). *)
Fixpoint anc_loop (g : graph) (fuel : nat) (visited frontier : list nat) : option (list nat) :=
  match fuel with
  | 0 => None
  | S f =>
      match frontier with
      | [] => Some visited
      | node :: fr =>
          if inb node visited then anc_loop g f visited fr
          else anc_loop g f (node :: visited) (rev (preds_first g node) ++ fr)
      end
  end.

Definition anc_fuel (g : graph) (srcs : list nat) : nat := S (length srcs + length (edges g)).

Definition all_ancestors_fuel (g : graph) (srcs : list nat) : option (list nat) :=
  anc_loop g (anc_fuel g srcs) [] (rev srcs).

(** The visited set (as a duplicate-free list).  The default [[]] is never used (anc_fuel_sufficient).
    The real function raises NetworkXError when a source is not a node of the graph
    ([graph.predecessors]); [all_ancestors_checked] makes that visible. *)
Definition all_ancestors (g : graph) (srcs : list nat) : list nat :=
  match all_ancestors_fuel g srcs with Some v => v | None => [] end.

Definition all_ancestors_checked (g : graph) (srcs : list nat) : option (list nat) :=
  if forallb (fun s => inb s (nodes g)) srcs then Some (all_ancestors g srcs) else None.
