(** Proofs about Base/Topo.v: Kahn's algorithm as written in networkx_util.topological_sort is a
    topological sort exactly on acyclic graphs (and names a cycle otherwise), all_ancestors computes
    exactly the ancestor set, plus induction principles over acyclic graphs. *)
From Coq Require Import List Arith Bool Lia Permutation.
Import ListNotations.
From UJ Require Import Engine.Engine Base.Topo.

(** * Lists *)

Lemma inb_In x l : inb x l = true <-> In x l.
Proof.
  unfold inb. rewrite existsb_exists. split.
  - intros [y [Hy He]]. apply Nat.eqb_eq in He. now subst.
  - intros H. exists x. split; [assumption | apply Nat.eqb_refl].
Qed.

Lemma inb_false x l : inb x l = false <-> ~ In x l.
Proof.
  rewrite <- inb_In. destruct (inb x l); split; intros H; try reflexivity; try discriminate.
  exfalso. now apply H.
Qed.

Lemma inb_cons x a l : inb x (a :: l) = (x =? a) || inb x l.
Proof. reflexivity. Qed.

Lemma nodup_first_In x l : In x (nodup_first l) <-> In x l.
Proof. unfold nodup_first. rewrite <- in_rev, nodup_In, <- in_rev. reflexivity. Qed.

Lemma nodup_first_NoDup l : NoDup (nodup_first l).
Proof. unfold nodup_first. apply NoDup_rev, NoDup_nodup. Qed.

Lemma nodup_first_length l : length (nodup_first l) = length (nodup Nat.eq_dec l).
Proof.
  apply Permutation_length, NoDup_Permutation.
  - apply nodup_first_NoDup.
  - apply NoDup_nodup.
  - intros x. rewrite nodup_first_In, nodup_In. reflexivity.
Qed.

Lemma nodup_first_length_le l : length (nodup_first l) <= length l.
Proof.
  apply NoDup_incl_length; [apply nodup_first_NoDup|].
  intros x. apply nodup_first_In.
Qed.

Lemma succs_In g n s : In s (succs g n) <-> edge g n s.
Proof.
  unfold succs, edge. rewrite nodup_In, in_map_iff. split.
  - intros [[a b] [Hb Hin]]. apply filter_In in Hin. destruct Hin as [Hin Ha].
    cbn in *. apply Nat.eqb_eq in Ha. now subst.
  - intros H. exists (n, s). split; [reflexivity|]. apply filter_In. split; [assumption|].
    cbn. apply Nat.eqb_refl.
Qed.

Lemma preds_In g n p : In p (preds g n) <-> edge g p n.
Proof.
  unfold preds, edge. rewrite nodup_In, in_map_iff. split.
  - intros [[a b] [Hb Hin]]. apply filter_In in Hin. destruct Hin as [Hin Ha].
    cbn in *. apply Nat.eqb_eq in Ha. now subst.
  - intros H. exists (p, n). split; [reflexivity|]. apply filter_In. split; [assumption|].
    cbn. apply Nat.eqb_refl.
Qed.

Lemma succs_first_In g n s : In s (succs_first g n) <-> edge g n s.
Proof. unfold succs_first. rewrite nodup_first_In. apply (succs_In g n s) || (rewrite <- succs_In; unfold succs; now rewrite nodup_In). Qed.

Lemma preds_first_In g n p : In p (preds_first g n) <-> edge g p n.
Proof. unfold preds_first. rewrite nodup_first_In. rewrite <- preds_In. unfold preds. now rewrite nodup_In. Qed.

Lemma succs_first_NoDup g n : NoDup (succs_first g n).
Proof. apply nodup_first_NoDup. Qed.

Lemma preds_first_NoDup g n : NoDup (preds_first g n).
Proof. apply nodup_first_NoDup. Qed.

(** the first-insertion-order views have the lengths the engine uses *)
Lemma preds_first_length g n : length (preds_first g n) = pcount g n.
Proof. apply nodup_first_length. Qed.

Lemma succs_first_length g n : length (succs_first g n) = length (succs g n).
Proof. apply nodup_first_length. Qed.

Lemma succs_first_perm g n : Permutation (succs_first g n) (succs g n).
Proof.
  apply NoDup_Permutation; [apply nodup_first_NoDup | apply NoDup_nodup |].
  intros x. now rewrite succs_first_In, succs_In.
Qed.

Lemma preds_first_perm g n : Permutation (preds_first g n) (preds g n).
Proof.
  apply NoDup_Permutation; [apply nodup_first_NoDup | apply NoDup_nodup |].
  intros x. now rewrite preds_first_In, preds_In.
Qed.

Lemma is_source_spec g n : is_source g n = true <-> forall p, ~ edge g p n.
Proof.
  unfold is_source, pcount. rewrite Nat.eqb_eq, length_zero_iff_nil. split.
  - intros H p Hp. apply preds_In in Hp. rewrite H in Hp. contradiction.
  - intros H. destruct (preds g n) as [|p t] eqn:E; [reflexivity|].
    exfalso. apply (H p). apply preds_In. rewrite E. now left.
Qed.

Lemma NoDup_app_intro {A} (l1 l2 : list A) :
  NoDup l1 -> NoDup l2 -> (forall x, In x l1 -> In x l2 -> False) -> NoDup (l1 ++ l2).
Proof.
  intros H1 H2 Hd. induction l1 as [|a l1 IH]; [exact H2|].
  inversion H1 as [|? ? Hna H1']; subst. cbn. constructor.
  - intros Hin. apply in_app_or in Hin. destruct Hin as [Hin | Hin]; [contradiction|].
    apply (Hd a); [now left | assumption].
  - apply IH; [assumption|]. intros x Hx. apply Hd. now right.
Qed.

Lemma NoDup_app_r {A} (l1 l2 : list A) : NoDup (l1 ++ l2) -> NoDup l2.
Proof.
  induction l1 as [|a l1 IH]; [trivial|]. cbn. intros H. inversion H; subst. now apply IH.
Qed.

Lemma NoDup_app_l {A} (l1 l2 : list A) : NoDup (l1 ++ l2) -> NoDup l1.
Proof.
  induction l1 as [|a l1 IH]; [constructor|]. cbn. intros H. inversion H as [|? ? Hn H']; subst.
  constructor; [|now apply IH]. intros Hin. apply Hn. apply in_or_app. now left.
Qed.

Lemma filter_length_le' {A} (f : A -> bool) l : length (filter f l) <= length l.
Proof. induction l as [|a l IH]; cbn; [lia|]. destruct (f a); cbn; lia. Qed.

Lemma filter_true {A} (l : list A) : filter (fun _ => true) l = l.
Proof. induction l as [|a l IH]; cbn; [reflexivity|]. now rewrite IH. Qed.

(** removing one element that passed the filter shortens the result by one *)
Lemma filter_drop_one (f f' : nat -> bool) (x : nat) (l : list nat) :
  NoDup l -> In x l -> f x = true -> f' x = false -> (forall y, y <> x -> f' y = f y) ->
  length (filter f l) = S (length (filter f' l)).
Proof.
  intros Hnd Hin Hfx Hfx' Hother. induction l as [|a l IH]; [contradiction|].
  inversion Hnd as [|? ? Hna Hnd']; subst. cbn. destruct Hin as [-> | Hin].
  - rewrite Hfx, Hfx'. cbn. f_equal. f_equal. apply filter_ext_in.
    intros y Hy. symmetry. apply Hother. intros ->. contradiction.
  - assert (Hne : a <> x) by (intros ->; contradiction).
    rewrite (Hother a Hne). destruct (f a); cbn; rewrite (IH Hnd' Hin); reflexivity.
Qed.

(** * Reachability and acyclicity *)

Lemma reach_trans g a b c : reach g a b -> reach g b c -> reach g a c.
Proof.
  intros Hab Hbc. induction Hbc as [b c Hbc | b k c Hbk IH Hkc].
  - exact (reachS g a b c Hab Hbc).
  - exact (reachS g a k c (IH Hab) Hkc).
Qed.

Lemma reach_cons g a k b : edge g a k -> reach g k b -> reach g a b.
Proof. intros H1 H2. eapply reach_trans; [apply reach1; exact H1 | exact H2]. Qed.

(** first-edge decomposition *)
Lemma reach_first g a b : reach g a b -> edge g a b \/ exists k, edge g a k /\ reach g k b.
Proof.
  intros H. induction H as [a b H | a k b H IH Hkb].
  - now left.
  - right. destruct IH as [IH | [k' [H1 H2]]].
    + exists k. split; [assumption | now apply reach1].
    + exists k'. split; [assumption | eapply reachS; eauto].
Qed.

Lemma reach_in_nodes g a b : graph_wf g -> reach g a b -> In a (nodes g) /\ In b (nodes g).
Proof.
  intros [_ Hwf] H. induction H as [a b H | a k b H IH Hkb].
  - now apply Hwf.
  - split; [apply IH | now apply (Hwf k b)].
Qed.

Lemma rank_reach g rank a b :
  (forall x y, edge g x y -> rank x < rank y) -> reach g a b -> rank a < rank b.
Proof.
  intros Hr H. induction H as [a b H | a k b H IH Hkb].
  - now apply Hr.
  - specialize (Hr _ _ Hkb). lia.
Qed.

Theorem acyclic_reach_irrefl g n : acyclic g -> ~ reach g n n.
Proof. intros [rank Hr] H. pose proof (rank_reach g rank n n Hr H). lia. Qed.

(** Strong induction along the edges of an acyclic graph: to prove [P n] one may assume [P] for every
    direct predecessor of [n]. *)
Theorem acyclic_wf_induction g (P : nat -> Prop) :
  acyclic g ->
  (forall n, (forall p, edge g p n -> P p) -> P n) ->
  forall n, P n.
Proof.
  intros [rank Hr] Hstep.
  assert (H : forall k n, rank n < k -> P n).
  { induction k as [|k IH]; intros n Hn; [lia|].
    apply Hstep. intros p Hp. apply IH. specialize (Hr _ _ Hp). lia. }
  intros n. apply (H (S (rank n))). lia.
Qed.

(** Same, with every ancestor available. *)
Theorem acyclic_wf_induction_reach g (P : nat -> Prop) :
  acyclic g ->
  (forall n, (forall m, reach g m n -> P m) -> P n) ->
  forall n, P n.
Proof.
  intros [rank Hr] Hstep.
  assert (H : forall k n, rank n < k -> P n).
  { induction k as [|k IH]; intros n Hn; [lia|].
    apply Hstep. intros m Hm. apply IH. pose proof (rank_reach g rank m n Hr Hm). lia. }
  intros n. apply (H (S (rank n))). lia.
Qed.

(** dual: along successors (towards the sinks); needs a finite graph for the bound *)
Theorem acyclic_wf_induction_succ g (P : nat -> Prop) :
  acyclic g ->
  (forall n, (forall s, edge g n s -> P s) -> P n) ->
  forall n, P n.
Proof.
  intros [rank Hr] Hstep.
  (* nodes without outgoing edges are immediate; otherwise rank is bounded by the largest target rank *)
  set (bound := S (list_max (map (fun e => rank (snd e)) (edges g)))).
  assert (Hb : forall a b, edge g a b -> rank b < bound).
  { intros a b Hab. unfold bound.
    assert (Hin : In (rank b) (map (fun e => rank (snd e)) (edges g))).
    { apply in_map_iff. exists (a, b). split; [reflexivity | exact Hab]. }
    pose proof (list_max_le (map (fun e => rank (snd e)) (edges g))
                            (list_max (map (fun e => rank (snd e)) (edges g)))) as [Hle _].
    specialize (Hle (Nat.le_refl _)). rewrite Forall_forall in Hle. specialize (Hle _ Hin). lia. }
  assert (H : forall k n, bound - rank n < k -> P n).
  { induction k as [|k IH]; intros n Hn; [lia|].
    apply Hstep. intros s Hs. apply IH. pose proof (Hr _ _ Hs). pose proof (Hb _ _ Hs). lia. }
  intros n. apply (H (S (bound - rank n))). lia.
Qed.

(** Minimal elements: in an acyclic graph every non-empty decidable set of nodes has a member none of
    whose direct predecessors is in the set (e.g. "the first unexecuted node in a topological order"). *)
Theorem acyclic_minimal g (S : nat -> Prop) :
  acyclic g -> (forall x, {S x} + {~ S x}) ->
  forall n, S n -> exists m, S m /\ (m = n \/ reach g m n) /\ forall p, edge g p m -> ~ S p.
Proof.
  intros Hac Sdec n. pattern n. apply (acyclic_wf_induction g); [assumption|].
  clear n. intros n IH Hn.
  (* is some direct predecessor in S? *)
  assert (Hdec : (exists p, In p (preds g n) /\ S p) \/ (forall p, In p (preds g n) -> ~ S p)).
  { induction (preds g n) as [|a l IHl].
    - right. intros p [].
    - destruct (Sdec a) as [Ha | Ha].
      + left. exists a. split; [now left | assumption].
      + destruct IHl as [[p [Hp HS]] | Hno].
        * left. exists p. split; [now right | assumption].
        * right. intros p [<- | Hp]; [assumption | now apply Hno]. }
  destruct Hdec as [[p [Hp HS]] | Hno].
  - apply preds_In in Hp. destruct (IH p Hp HS) as [m [Hm [Hr Hmin]]].
    exists m. split; [assumption|]. split; [|assumption]. right.
    destruct Hr as [-> | Hr]; [now apply reach1 | eapply reachS; eauto].
  - exists n. split; [assumption|]. split; [now left|].
    intros p Hp. apply Hno. now apply preds_In.
Qed.

(** a non-empty acyclic graph has a node without predecessors (the engine's initial queue is not empty) *)
Corollary acyclic_has_source g n :
  graph_wf g -> acyclic g -> In n (nodes g) -> exists s, In s (nodes g) /\ is_source g s = true.
Proof.
  intros Hwf Hac Hn.
  destruct (acyclic_minimal g (fun x => In x (nodes g)) Hac (fun x => in_dec Nat.eq_dec x (nodes g)) n Hn)
    as [m [Hm [_ Hmin]]].
  exists m. split; [assumption|]. apply is_source_spec. intros p Hp.
  apply (Hmin p Hp). destruct Hwf as [_ Hwf]. now apply (Hwf p m).
Qed.

(** a non-empty set of nodes closed under "has a predecessor in the set" contradicts acyclicity *)
Lemma acyclic_no_pred_closed_set g (S : nat -> Prop) :
  acyclic g -> (forall n, S n -> exists p, edge g p n /\ S p) -> forall n, ~ S n.
Proof.
  intros Hac Hcl n. pattern n. apply (acyclic_wf_induction g); [assumption|].
  intros m IH Hm. destruct (Hcl m Hm) as [p [Hp HSp]]. exact (IH p Hp HSp).
Qed.

(** ... and on a finite graph it contains a cycle. *)
Lemma fop_nodup_or_refl (R : nat -> nat -> Prop) l :
  ForallOrdPairs R l -> NoDup l \/ exists x, R x x.
Proof.
  induction 1 as [|a l Hall Hfop IH]; [left; constructor|].
  destruct IH as [IH | IH]; [|now right].
  destruct (in_dec Nat.eq_dec a l) as [Hin | Hnin].
  - right. exists a. rewrite Forall_forall in Hall. now apply Hall.
  - left. now constructor.
Qed.

Lemma pred_closed_set_walk g (S : nat -> Prop) :
  (forall n, S n -> exists p, edge g p n /\ S p) ->
  forall k n, S n -> exists h l, length (h :: l) = Datatypes.S k /\ Forall S (h :: l) /\
                             ForallOrdPairs (reach g) (h :: l).
Proof.
  intros Hcl k. induction k as [|k IH]; intros n Hn.
  - exists n, []. repeat split.
    + constructor; [assumption | constructor].
    + constructor; constructor.
  - destruct (IH n Hn) as [h [l [Hlen [Hall Hfop]]]].
    inversion Hall as [|? ? HSh Hall']; subst.
    destruct (Hcl h HSh) as [p [Hph HSp]].
    exists p, (h :: l). repeat split.
    + cbn in *. lia.
    + constructor; assumption.
    + constructor; [|assumption].
      inversion Hfop as [|? ? Hhl Hfop']; subst.
      constructor; [now apply reach1|].
      rewrite Forall_forall in *. intros x Hx. eapply reach_cons; eauto.
Qed.

Lemma pred_closed_set_cycle g (S : nat -> Prop) n :
  (forall n, S n -> In n (nodes g)) ->
  (forall n, S n -> exists p, edge g p n /\ S p) ->
  S n -> exists x, reach g x x.
Proof.
  intros Hin Hcl Hn.
  destruct (pred_closed_set_walk g S Hcl (length (nodes g)) n Hn) as [h [l [Hlen [Hall Hfop]]]].
  destruct (fop_nodup_or_refl _ _ Hfop) as [Hnd | Hx]; [|assumption].
  exfalso.
  assert (Hle : length (h :: l) <= length (nodes g)).
  { apply NoDup_incl_length; [assumption|]. intros x Hx. apply Hin.
    rewrite Forall_forall in Hall. now apply Hall. }
  lia.
Qed.

(** * Kahn's algorithm *)

(** distinct predecessors of [n] not yet yielded *)
Definition unpopped (g : graph) (out : list nat) (n : nat) : list nat :=
  filter (fun p => negb (inb p out)) (preds g n).

Lemma relax_spec ss : forall cnt q,
  NoDup ss -> (forall s, In s ss -> 1 <= cnt s) ->
  exists cnt', relax ss cnt q = Some (cnt', rev (filter (fun s => cnt s =? 1) ss) ++ q) /\
               forall y, cnt' y = if inb y ss then cnt y - 1 else cnt y.
Proof.
  induction ss as [|s t IH]; intros cnt q Hnd Hpos.
  - exists cnt. split; reflexivity.
  - inversion Hnd as [|? ? Hns Hnd']; subst.
    assert (Hs : 1 <= cnt s) by (apply Hpos; now left).
    cbn [relax]. destruct (cnt s) as [|c] eqn:Ec; [lia|].
    set (cnt1 := fun y => if y =? s then c else cnt y).
    assert (Hpos1 : forall s', In s' t -> 1 <= cnt1 s').
    { intros s' Hs'. unfold cnt1. destruct (s' =? s) eqn:E.
      - apply Nat.eqb_eq in E. subst. contradiction.
      - apply Hpos. now right. }
    destruct (IH cnt1 (if c =? 0 then s :: q else q) Hnd' Hpos1) as [cnt' [Hrel Hcnt']].
    exists cnt'. split.
    + rewrite Hrel. f_equal. f_equal.
      assert (Hfil : filter (fun s0 => cnt1 s0 =? 1) t = filter (fun s0 => cnt s0 =? 1) t).
      { apply filter_ext_in. intros y Hy. unfold cnt1. destruct (y =? s) eqn:E; [|reflexivity].
        apply Nat.eqb_eq in E. subst. contradiction. }
      rewrite Hfil. cbn [filter]. rewrite Ec.
      destruct c as [|c]; cbn [Nat.eqb rev]; [rewrite <- app_assoc|]; reflexivity.
    + intros y. rewrite Hcnt'. rewrite inb_cons. unfold cnt1.
      destruct (y =? s) eqn:E.
      * apply Nat.eqb_eq in E. subst y. cbn.
        assert (Hf : inb s t = false) by (now apply inb_false). rewrite Hf, Ec. lia.
      * cbn. reflexivity.
Qed.

Record kinv (g : graph) (cnt : nat -> nat) (q out : list nat) : Prop := {
  ki_nodup : NoDup (q ++ out);
  ki_incl : incl (q ++ out) (nodes g);
  ki_cnt : forall n, cnt n = length (unpopped g out n);
  ki_zero : forall n, In n (nodes g) -> cnt n = 0 -> In n (q ++ out);
  ki_qzero : forall n, In n (q ++ out) -> cnt n = 0;
  ki_order : forall o1 n o2, out = o1 ++ n :: o2 -> forall p, edge g p n -> In p o2
}.

Lemma kinv_init g : graph_wf g -> kinv g (pcount g) (kahn_q0 g) [].
Proof.
  intros [Hnd Hwf]. unfold kahn_q0. constructor.
  - rewrite app_nil_r. apply NoDup_rev. now apply NoDup_filter.
  - rewrite app_nil_r. intros x Hx. apply in_rev in Hx. apply filter_In in Hx. tauto.
  - intros n. unfold unpopped, pcount. cbn. now rewrite filter_true.
  - intros n Hn Hz. rewrite app_nil_r. apply -> in_rev. apply filter_In. split; [assumption|].
    unfold is_source. now apply Nat.eqb_eq.
  - intros n Hn. rewrite app_nil_r in Hn. apply in_rev in Hn. apply filter_In in Hn.
    destruct Hn as [_ Hn]. unfold is_source in Hn. now apply Nat.eqb_eq in Hn.
  - intros o1 n o2 H. destruct o1; discriminate.
Qed.

Lemma unpopped_nil_all_popped g out n p :
  length (unpopped g out n) = 0 -> edge g p n -> In p out.
Proof.
  intros Hz Hp. apply length_zero_iff_nil in Hz.
  destruct (inb p out) eqn:E; [now apply inb_In|]. exfalso.
  assert (Hin : In p (unpopped g out n)).
  { unfold unpopped. apply filter_In. split; [now apply preds_In | now rewrite E]. }
  rewrite Hz in Hin. contradiction.
Qed.

Lemma kinv_step g cnt node q out :
  graph_wf g -> kinv g cnt (node :: q) out ->
  exists cnt' q', relax (succs_first g node) cnt q = Some (cnt', q') /\ kinv g cnt' q' (node :: out).
Proof.
  intros [Hndn Hwf] I. destruct I as [Ind Iincl Icnt Izero Iqz Iord].
  cbn [app] in Ind. inversion Ind as [|? ? Hnode_notin Hnd_rest]; subst.
  assert (Hnode_out : ~ In node out) by (intros H; apply Hnode_notin, in_or_app; now right).
  assert (Hnode_q : ~ In node q) by (intros H; apply Hnode_notin, in_or_app; now left).
  assert (Hpos : forall s, In s (succs_first g node) -> 1 <= cnt s).
  { intros s Hs. apply succs_first_In in Hs. rewrite Icnt.
    assert (Hin : In node (unpopped g out s)).
    { unfold unpopped. apply filter_In. split; [now apply preds_In|].
      apply inb_false in Hnode_out. now rewrite Hnode_out. }
    destruct (unpopped g out s); [contradiction | cbn; lia]. }
  destruct (relax_spec (succs_first g node) cnt q (succs_first_NoDup g node) Hpos) as [cnt' [Hrel Hcnt']].
  set (new := filter (fun s => cnt s =? 1) (succs_first g node)) in *.
  exists cnt', (rev new ++ q). split; [exact Hrel|].
  assert (Hle : forall y, cnt' y <= cnt y).
  { intros y. rewrite Hcnt'. destruct (inb y (succs_first g node)); lia. }
  assert (Hnew : forall x, In x new <-> edge g node x /\ cnt x = 1).
  { intros x. unfold new. rewrite filter_In, succs_first_In, Nat.eqb_eq. reflexivity. }
  assert (Hcnt_new : forall n, cnt' n = length (unpopped g (node :: out) n)).
  { intros n. rewrite Hcnt'. destruct (inb n (succs_first g node)) eqn:E.
    - apply inb_In, succs_first_In in E. rewrite Icnt. unfold unpopped.
      rewrite (filter_drop_one (fun p => negb (inb p out)) (fun p => negb (inb p (node :: out))) node (preds g n)).
      + lia.
      + apply NoDup_nodup.
      + now apply preds_In.
      + apply inb_false in Hnode_out. now rewrite Hnode_out.
      + rewrite inb_cons, Nat.eqb_refl. reflexivity.
      + intros y Hy. rewrite inb_cons. apply Nat.eqb_neq in Hy. now rewrite Hy.
    - rewrite Icnt. unfold unpopped. f_equal. apply filter_ext_in. intros p Hp.
      rewrite inb_cons. destruct (p =? node) eqn:Ep; [|reflexivity].
      apply Nat.eqb_eq in Ep. subst p. apply preds_In in Hp.
      apply inb_false in E. exfalso. apply E. now apply succs_first_In. }
  constructor.
  - (* NoDup *)
    rewrite <- app_assoc. apply NoDup_app_intro.
    + apply NoDup_rev. unfold new. apply NoDup_filter, succs_first_NoDup.
    + eapply Permutation_NoDup; [apply Permutation_middle | exact Ind].
    + intros x Hx Hx'. apply in_rev in Hx. apply Hnew in Hx. destruct Hx as [_ Hx1].
      assert (Hz : cnt x = 0).
      { apply Iqz. cbn. apply in_app_or in Hx'. destruct Hx' as [Hx' | [Hx' | Hx']].
        - right. apply in_or_app. now left.
        - now left.
        - right. apply in_or_app. now right. }
      lia.
  - (* incl *)
    intros x Hx. rewrite <- app_assoc in Hx. apply in_app_or in Hx. destruct Hx as [Hx | Hx].
    + apply in_rev in Hx. apply Hnew in Hx. destruct Hx as [Hx _]. now apply (Hwf node x).
    + apply Iincl. cbn. apply in_app_or in Hx. destruct Hx as [Hx | [Hx | Hx]].
      * right. apply in_or_app. now left.
      * now left.
      * right. apply in_or_app. now right.
  - exact Hcnt_new.
  - (* zero *)
    intros n Hn Hz. rewrite <- app_assoc.
    destruct (cnt n) as [|c] eqn:Ec.
    + specialize (Izero n Hn Ec). cbn in Izero. apply in_or_app. right.
      destruct Izero as [-> | Hin].
      * apply in_or_app. right. now left.
      * apply in_app_or in Hin. apply in_or_app. destruct Hin; [now left | right; now right].
    + apply in_or_app. left. apply -> in_rev. apply Hnew.
      rewrite Hcnt' in Hz. destruct (inb n (succs_first g node)) eqn:E; [|lia].
      apply inb_In, succs_first_In in E. split; [assumption | lia].
  - (* qzero *)
    intros n Hn. rewrite <- app_assoc in Hn. apply in_app_or in Hn. destruct Hn as [Hn | Hn].
    + apply in_rev in Hn. apply Hnew in Hn. destruct Hn as [He H1].
      rewrite Hcnt'. assert (E : inb n (succs_first g node) = true) by (now apply inb_In, succs_first_In).
      rewrite E. lia.
    + assert (Hz : cnt n = 0).
      { apply Iqz. cbn. apply in_app_or in Hn. destruct Hn as [Hn | [Hn | Hn]].
        - right. apply in_or_app. now left.
        - now left.
        - right. apply in_or_app. now right. }
      specialize (Hle n). lia.
  - (* order *)
    intros o1 n o2 Ho p Hp. destruct o1 as [|a o1]; cbn in Ho; inversion Ho; subst.
    + assert (Hz : cnt n = 0) by (apply Iqz; now left).
      rewrite Icnt in Hz. eapply unpopped_nil_all_popped; eauto.
    + eapply Iord; eauto.
Qed.

(** the nodes the algorithm never yields, when it stops *)
Definition stuck (g : graph) (cnt : nat -> nat) (n : nat) : Prop := In n (nodes g) /\ cnt n <> 0.

Lemma stuck_pred g cnt out :
  graph_wf g -> kinv g cnt [] out ->
  forall n, stuck g cnt n -> exists p, edge g p n /\ stuck g cnt p.
Proof.
  intros [Hndn Hwf] I n [Hn Hc]. destruct I as [Ind Iincl Icnt Izero Iqz Iord].
  rewrite Icnt in Hc. destruct (unpopped g out n) as [|p t] eqn:E; [cbn in Hc; lia|].
  assert (Hp : In p (unpopped g out n)) by (rewrite E; now left).
  unfold unpopped in Hp. apply filter_In in Hp. destruct Hp as [Hp Hpo].
  apply preds_In in Hp. exists p. split; [assumption|]. split; [now apply (Hwf p n)|].
  intros Hz. specialize (Izero p (proj1 (Hwf p n Hp)) Hz). cbn in Izero.
  apply inb_In in Izero. rewrite Izero in Hpo. discriminate.
Qed.

Lemma before_rev_split o1 b o3 a o4 :
  before a b (rev (o1 ++ b :: o3 ++ a :: o4)).
Proof.
  exists (rev o4), (rev o3 ++ b :: rev o1). split.
  - rewrite rev_app_distr. cbn [rev]. rewrite rev_app_distr. cbn [rev].
    repeat rewrite <- app_assoc. cbn. reflexivity.
  - apply in_or_app. right. now left.
Qed.

(** What the loop can return from any state satisfying the invariant. *)
Definition kahn_post (g : graph) (r : kres) : Prop :=
  match r with
  | KOk l => Permutation l (nodes g) /\ forall a b, edge g a b -> before a b l
  | KCycle => exists cnt out, kinv g cnt [] out /\ exists n, stuck g cnt n
  | KNeg | KFuel => False
  end.

Lemma kahn_loop_spec g : graph_wf g ->
  forall fuel cnt q out, kinv g cnt q out -> length (nodes g) < fuel + length out ->
  kahn_post g (kahn_loop g fuel cnt q out).
Proof.
  intros Hwf fuel. induction fuel as [|f IH]; intros cnt q out I Hfuel.
  - exfalso. destruct I as [Ind Iincl _ _ _ _].
    assert (Hle : length out <= length (nodes g)).
    { apply NoDup_incl_length.
      - apply NoDup_app_r in Ind. exact Ind.
      - intros x Hx. apply Iincl. apply in_or_app. now right. }
    cbn in Hfuel. lia.
  - cbn [kahn_loop]. destruct q as [|node q'].
    + destruct (existsb (fun n => negb (cnt n =? 0)) (nodes g)) eqn:Ex.
      * cbn. exists cnt, out. split; [assumption|].
        apply existsb_exists in Ex. destruct Ex as [n [Hn Hc]]. exists n. split; [assumption|].
        apply negb_true_iff, Nat.eqb_neq in Hc. exact Hc.
      * cbn. destruct I as [Ind Iincl Icnt Izero Iqz Iord]. cbn [app] in *.
        assert (Hall : forall n, In n (nodes g) -> In n out).
        { intros n Hn. apply Izero; [assumption|].
          destruct (cnt n =? 0) eqn:E; [now apply Nat.eqb_eq|].
          exfalso. assert (Ht : existsb (fun n => negb (cnt n =? 0)) (nodes g) = true).
          { apply existsb_exists. exists n. split; [assumption | now rewrite E]. }
          rewrite Ht in Ex. discriminate. }
        split.
        -- apply NoDup_Permutation.
           ++ now apply NoDup_rev.
           ++ apply Hwf.
           ++ intros x. rewrite <- in_rev. split; [apply Iincl | apply Hall].
        -- intros a b Hab. destruct Hwf as [_ Hwf].
           assert (Hb : In b out) by (apply Hall; now apply (Hwf a b)).
           apply in_split in Hb. destruct Hb as [o1 [o2 Ho]].
           pose proof (Iord o1 b o2 Ho a Hab) as Ha.
           apply in_split in Ha. destruct Ha as [o3 [o4 Ho2]]. subst o2. subst out.
           apply before_rev_split.
    + destruct (kinv_step g cnt node q' out Hwf I) as [cnt' [q'' [Hrel I']]].
      rewrite Hrel. apply IH; [assumption|]. cbn [length]. lia.
Qed.

Theorem kahn_run_spec g : graph_wf g -> kahn_post g (kahn_run g).
Proof.
  intros Hwf. unfold kahn_run. apply kahn_loop_spec; [assumption | now apply kinv_init | cbn; lia].
Qed.

(** The model's two artefact results never occur on a well-formed graph: the only way [kahn] is [None]
    is [nx.HasACycle]. *)
Theorem kahn_none_is_cycle g : graph_wf g -> kahn g = None -> kahn_run g = KCycle.
Proof.
  intros Hwf Hk. pose proof (kahn_run_spec g Hwf) as H. unfold kahn in Hk.
  destruct (kahn_run g); try reflexivity; try discriminate; contradiction.
Qed.

Theorem kahn_no_fuel_no_neg g : graph_wf g -> kahn_run g <> KFuel /\ kahn_run g <> KNeg.
Proof.
  intros Hwf. pose proof (kahn_run_spec g Hwf) as H.
  split; intros E; rewrite E in H; exact H.
Qed.

(** position of the first occurrence *)
Fixpoint pos (x : nat) (l : list nat) : nat :=
  match l with [] => 0 | h :: t => if h =? x then 0 else S (pos x t) end.

Lemma pos_app_notin x l1 l2 : ~ In x l1 -> pos x (l1 ++ l2) = length l1 + pos x l2.
Proof.
  induction l1 as [|a l1 IH]; intros H; [reflexivity|]. cbn.
  destruct (a =? x) eqn:E.
  - apply Nat.eqb_eq in E. subst. exfalso. apply H. now left.
  - rewrite IH; [reflexivity|]. intros H'. apply H. now right.
Qed.

Lemma before_pos a b l : NoDup l -> before a b l -> pos a l < pos b l.
Proof.
  intros Hnd [l1 [l2 [-> Hb]]].
  apply NoDup_remove in Hnd as Hnd'. destruct Hnd' as [Hnd' Ha].
  assert (Ha1 : ~ In a l1) by (intros H; apply Ha, in_or_app; now left).
  assert (Ha2 : ~ In a l2) by (intros H; apply Ha, in_or_app; now right).
  assert (Hb1 : ~ In b l1).
  { intros H. apply in_split in Hb. destruct Hb as [m1 [m2 ->]]. apply in_split in H.
    destruct H as [k1 [k2 ->]]. clear - Hnd.
    rewrite <- app_assoc in Hnd. cbn in Hnd. apply NoDup_remove_2 in Hnd. apply Hnd.
    apply in_or_app. right. apply in_or_app. right. right. apply in_or_app. right. now left. }
  assert (Hab : a <> b) by (intros ->; contradiction).
  rewrite !pos_app_notin by assumption. cbn. rewrite Nat.eqb_refl.
  apply Nat.eqb_neq in Hab. rewrite Hab. lia.
Qed.

(** ** The theorems *)

Theorem kahn_order_topological g l :
  graph_wf g -> kahn g = Some l ->
  Permutation l (nodes g) /\ forall a b, edge g a b -> before a b l.
Proof.
  intros Hwf Hk. pose proof (kahn_run_spec g Hwf) as H. unfold kahn in Hk.
  destruct (kahn_run g); try discriminate. inversion Hk; subst. exact H.
Qed.

Theorem kahn_some_acyclic g l : graph_wf g -> kahn g = Some l -> acyclic g.
Proof.
  intros Hwf Hk. destruct (kahn_order_topological g l Hwf Hk) as [Hperm Hord].
  exists (fun n => pos n l). intros a b Hab. apply before_pos; [|now apply Hord].
  eapply Permutation_NoDup; [apply Permutation_sym; exact Hperm | apply Hwf].
Qed.

Theorem kahn_acyclic_some g : graph_wf g -> acyclic g -> kahn g <> None.
Proof.
  intros Hwf Hac Hk. pose proof (kahn_run_spec g Hwf) as H.
  rewrite (kahn_none_is_cycle g Hwf Hk) in H. cbn in H.
  destruct H as [cnt [out [I [n Hn]]]].
  exact (acyclic_no_pred_closed_set g (stuck g cnt) Hac (stuck_pred g cnt out Hwf I) n Hn).
Qed.

(** C07 "cycles are rejected": [assert_acyclic] returns normally exactly on acyclic graphs. *)
Theorem kahn_some_iff_acyclic g : graph_wf g -> (kahn g <> None <-> acyclic g).
Proof.
  intros Hwf. split.
  - intros H. destruct (kahn g) as [l|] eqn:E; [|contradiction]. now apply (kahn_some_acyclic g l).
  - now apply kahn_acyclic_some.
Qed.

Theorem kahn_none_cycle_witness g : graph_wf g -> kahn g = None -> exists n, reach g n n.
Proof.
  intros Hwf Hk. pose proof (kahn_run_spec g Hwf) as H.
  rewrite (kahn_none_is_cycle g Hwf Hk) in H. cbn in H.
  destruct H as [cnt [out [I [n Hn]]]].
  apply (pred_closed_set_cycle g (stuck g cnt) n).
  - intros m [Hm _]. exact Hm.
  - now apply (stuck_pred g cnt out).
  - exact Hn.
Qed.

(** On finite well-formed graphs the ranking definition of [acyclic] coincides with "no node reaches itself". *)
Theorem acyclic_iff_no_cycle g : graph_wf g -> (acyclic g <-> forall n, ~ reach g n n).
Proof.
  intros Hwf. split.
  - intros Hac n. now apply acyclic_reach_irrefl.
  - intros Hno. destruct (kahn g) as [l|] eqn:E.
    + now apply (kahn_some_acyclic g l).
    + destruct (kahn_none_cycle_witness g Hwf E) as [n Hn]. exfalso. exact (Hno n Hn).
Qed.

Theorem acyclic_dec g : graph_wf g -> {acyclic g} + {~ acyclic g}.
Proof.
  intros Hwf. destruct (kahn g) as [l|] eqn:E.
  - left. now apply (kahn_some_acyclic g l).
  - right. intros Hac. now apply (kahn_acyclic_some g Hwf Hac).
Qed.

Theorem assert_acyclic_ok_iff g : graph_wf g -> (assert_acyclic_ok g = true <-> acyclic g).
Proof.
  intros Hwf. rewrite <- (kahn_some_iff_acyclic g Hwf). unfold assert_acyclic_ok.
  destruct (kahn g); split; intros H; try reflexivity; try discriminate; try congruence.
Qed.

Lemma pos_in_lt x l1 l2 : In x l1 -> pos x (l1 ++ l2) < length l1.
Proof.
  induction l1 as [|a l1 IH]; intros H; [contradiction|]. cbn.
  destruct (a =? x) eqn:E; [lia|]. apply Nat.eqb_neq in E.
  destruct H as [H | H]; [contradiction|]. specialize (IH H). lia.
Qed.

Lemma before_trans a k b l : NoDup l -> before a k l -> before k b l -> before a b l.
Proof.
  intros Hnd Hak Hkb.
  pose proof (before_pos _ _ _ Hnd Hak) as P1. pose proof (before_pos _ _ _ Hnd Hkb) as P2.
  assert (Hb : In b l).
  { destruct Hkb as [m1 [m2 [-> Hb]]]. apply in_or_app. right. now right. }
  destruct Hak as [l1 [l2 [El _]]]. exists l1, l2. split; [assumption|]. subst l.
  assert (Ha1 : ~ In a l1).
  { apply NoDup_remove_2 in Hnd. intros H. apply Hnd, in_or_app. now left. }
  assert (Pa : pos a (l1 ++ a :: l2) = length l1).
  { rewrite (pos_app_notin a l1 (a :: l2) Ha1). cbn. rewrite Nat.eqb_refl. lia. }
  rewrite Pa in P1.
  apply in_app_or in Hb. destruct Hb as [Hb | [Hb | Hb]].
  - pose proof (pos_in_lt b l1 (a :: l2) Hb). lia.
  - subst b. rewrite Pa in P2. lia.
  - exact Hb.
Qed.

(** the yielded order starts every node after all its ancestors *)
Corollary kahn_order_respects_reach g l a b :
  graph_wf g -> kahn g = Some l -> reach g a b -> before a b l.
Proof.
  intros Hwf Hk Hab. destruct (kahn_order_topological g l Hwf Hk) as [Hperm Hord].
  assert (Hnd : NoDup l) by (eapply Permutation_NoDup; [apply Permutation_sym; exact Hperm | apply Hwf]).
  induction Hab as [a b Hab | a k b Hak IH Hkb]; [now apply Hord|].
  apply (before_trans a k b l Hnd IH). now apply Hord.
Qed.

(** * all_ancestors *)

Definition anc_of (g : graph) (srcs : list nat) (n : nat) : Prop :=
  In n srcs \/ exists s, In s srcs /\ reach g n s.

Record ainv (g : graph) (srcs visited frontier : list nat) : Prop := {
  ai_sound : forall n, In n (visited ++ frontier) -> anc_of g srcs n;
  ai_cov : forall s, In s srcs -> In s (visited ++ frontier);
  ai_closed : forall v p, In v visited -> edge g p v -> In p (visited ++ frontier);
  ai_nodup : NoDup visited
}.

Definition anc_measure (g : graph) (visited frontier : list nat) : nat :=
  length frontier + length (filter (fun e => negb (inb (snd e) visited)) (edges g)).

Lemma anc_measure_visit (es : list (nat * nat)) node visited :
  inb node visited = false ->
  length (filter (fun e => negb (inb (snd e) visited)) es) =
  length (filter (fun e => negb (inb (snd e) (node :: visited))) es) +
  length (filter (fun e => snd e =? node) es).
Proof.
  intros Hn. induction es as [|[a b] es IH]; [reflexivity|]. cbn [filter snd].
  rewrite inb_cons. destruct (b =? node) eqn:E.
  - apply Nat.eqb_eq in E. subst b. rewrite Hn. cbn [orb negb length]. lia.
  - cbn [orb]. destruct (inb b visited); cbn [negb length]; lia.
Qed.

Lemma anc_of_pred g srcs p n : edge g p n -> anc_of g srcs n -> anc_of g srcs p.
Proof.
  intros Hp [Hn | [s [Hs Hr]]]; right.
  - exists n. split; [assumption | now apply reach1].
  - exists s. split; [assumption | eapply reach_cons; eauto].
Qed.

Lemma anc_loop_spec g srcs : forall fuel visited frontier,
  ainv g srcs visited frontier -> anc_measure g visited frontier < fuel ->
  exists v, anc_loop g fuel visited frontier = Some v /\ ainv g srcs v [].
Proof.
  induction fuel as [|f IH]; intros visited frontier I Hm; [lia|].
  cbn [anc_loop]. destruct frontier as [|node fr].
  - exists visited. split; [reflexivity | assumption].
  - destruct I as [Is Ic Icl Ind]. destruct (inb node visited) eqn:E.
    + apply IH.
      * apply inb_In in E. constructor.
        -- intros n Hn. apply Is. apply in_app_or in Hn. apply in_or_app.
           destruct Hn; [now left | right; now right].
        -- intros s Hs. specialize (Ic s Hs). apply in_app_or in Ic. apply in_or_app.
           destruct Ic as [Hc | [Hc | Hc]]; [now left | subst; now left | now right].
        -- intros v p Hv Hp. specialize (Icl v p Hv Hp). apply in_app_or in Icl. apply in_or_app.
           destruct Icl as [Hc | [Hc | Hc]]; [now left | subst; now left | now right].
        -- assumption.
      * unfold anc_measure in *. cbn [length] in Hm. lia.
    + apply IH.
      * constructor.
        -- intros n Hn. cbn in Hn. destruct Hn as [<- | Hn].
           ++ apply Is. apply in_or_app. right. now left.
           ++ apply in_app_or in Hn. destruct Hn as [Hn | Hn].
              ** apply Is. apply in_or_app. now left.
              ** apply in_app_or in Hn. destruct Hn as [Hn | Hn].
                 --- apply in_rev, preds_first_In in Hn.
                     apply (anc_of_pred g srcs n node Hn). apply Is. apply in_or_app. right. now left.
                 --- apply Is. apply in_or_app. right. now right.
        -- intros s Hs. specialize (Ic s Hs). apply in_app_or in Ic. cbn.
           destruct Ic as [Hc | [Hc | Hc]].
           ++ right. apply in_or_app. now left.
           ++ now left.
           ++ right. apply in_or_app. right. apply in_or_app. now right.
        -- intros v p Hv Hp. cbn in Hv. destruct Hv as [<- | Hv].
           ++ cbn. right. apply in_or_app. right. apply in_or_app. left.
              apply -> in_rev. now apply preds_first_In.
           ++ specialize (Icl v p Hv Hp). apply in_app_or in Icl. cbn.
              destruct Icl as [Hc | [Hc | Hc]].
              ** right. apply in_or_app. now left.
              ** now left.
              ** right. apply in_or_app. right. apply in_or_app. now right.
        -- constructor; [now apply inb_false | assumption].
      * unfold anc_measure in *. cbn [length] in Hm.
        rewrite (anc_measure_visit (edges g) node visited E) in Hm.
        rewrite app_length, rev_length.
        assert (Hle : length (preds_first g node) <= length (filter (fun e => snd e =? node) (edges g))).
        { unfold preds_first. etransitivity; [apply nodup_first_length_le|]. now rewrite map_length. }
        lia.
Qed.

Lemma ainv_init g srcs : ainv g srcs [] (rev srcs).
Proof.
  constructor; cbn.
  - intros n Hn. left. now apply in_rev.
  - intros s Hs. now apply -> in_rev.
  - intros v p [].
  - constructor.
Qed.

(** the fuel given to the frontier loop is enough *)
Theorem anc_fuel_sufficient g srcs : exists v, all_ancestors_fuel g srcs = Some v.
Proof.
  unfold all_ancestors_fuel.
  destruct (anc_loop_spec g srcs (anc_fuel g srcs) [] (rev srcs) (ainv_init g srcs)) as [v [Hv _]].
  - unfold anc_measure, anc_fuel. rewrite rev_length.
    pose proof (filter_length_le' (fun e => negb (inb (snd e) [])) (edges g)). lia.
  - now exists v.
Qed.

Lemma all_ancestors_inv g srcs : ainv g srcs (all_ancestors g srcs) [].
Proof.
  unfold all_ancestors, all_ancestors_fuel.
  destruct (anc_loop_spec g srcs (anc_fuel g srcs) [] (rev srcs) (ainv_init g srcs)) as [v [Hv I]].
  - unfold anc_measure, anc_fuel. rewrite rev_length.
    pose proof (filter_length_le' (fun e => negb (inb (snd e) [])) (edges g)). lia.
  - now rewrite Hv.
Qed.

Theorem ancestors_sound g srcs n :
  In n (all_ancestors g srcs) -> In n srcs \/ exists s, In s srcs /\ reach g n s.
Proof.
  intros H. apply (ai_sound _ _ _ _ (all_ancestors_inv g srcs)). now rewrite app_nil_r.
Qed.

Theorem ancestors_complete g srcs :
  (forall s, In s srcs -> In s (all_ancestors g srcs)) /\
  (forall n s, In s srcs -> reach g n s -> In n (all_ancestors g srcs)).
Proof.
  pose proof (all_ancestors_inv g srcs) as [Is Ic Icl Ind].
  assert (Ic' : forall s, In s srcs -> In s (all_ancestors g srcs)).
  { intros s Hs. specialize (Ic s Hs). now rewrite app_nil_r in Ic. }
  assert (Icl' : forall v p, In v (all_ancestors g srcs) -> edge g p v -> In p (all_ancestors g srcs)).
  { intros v p Hv Hp. specialize (Icl v p Hv Hp). now rewrite app_nil_r in Icl. }
  split; [exact Ic'|].
  intros n s Hs Hr. specialize (Ic' s Hs). clear Hs.
  induction Hr as [a b Hab | a k b Hak IH Hkb].
  - apply (Icl' b a Ic' Hab).
  - apply IH. apply (Icl' b k Ic' Hkb).
Qed.

Theorem ancestors_spec g srcs n :
  In n (all_ancestors g srcs) <-> In n srcs \/ exists s, In s srcs /\ reach g n s.
Proof.
  split; [apply ancestors_sound|]. destruct (ancestors_complete g srcs) as [H1 H2].
  intros [H | [s [Hs Hr]]]; [now apply H1 | now apply (H2 n s)].
Qed.

Theorem ancestors_NoDup g srcs : NoDup (all_ancestors g srcs).
Proof. apply (ai_nodup _ _ _ _ (all_ancestors_inv g srcs)). Qed.

(** the result is closed under predecessors *)
Theorem ancestors_closed g srcs p n :
  edge g p n -> In n (all_ancestors g srcs) -> In p (all_ancestors g srcs).
Proof.
  intros Hp Hn. pose proof (ai_closed _ _ _ _ (all_ancestors_inv g srcs) n p Hn Hp) as H.
  now rewrite app_nil_r in H.
Qed.

Theorem ancestors_in_nodes g srcs n :
  graph_wf g -> incl srcs (nodes g) -> In n (all_ancestors g srcs) -> In n (nodes g).
Proof.
  intros Hwf Hs Hn. apply ancestors_sound in Hn. destruct Hn as [Hn | [s [_ Hr]]].
  - now apply Hs.
  - now apply (reach_in_nodes g n s Hwf Hr).
Qed.

Theorem ancestors_nil g : all_ancestors g [] = [].
Proof.
  destruct (all_ancestors g []) as [|n t] eqn:E; [reflexivity|]. exfalso.
  assert (H : In n (all_ancestors g [])) by (rewrite E; now left).
  apply ancestors_sound in H. destruct H as [[] | [s [[] _]]].
Qed.

(** * Non-vacuity *)

Definition g_diamond : graph :=
  {| nodes := [0; 1; 2; 3; 4]; edges := [(0, 1); (0, 2); (0, 1); (1, 3); (2, 3); (0, 3)] |}.
Definition g_cyclic : graph :=
  {| nodes := [0; 1; 2; 3]; edges := [(0, 1); (1, 2); (2, 1); (2, 3)] |}.

Example g_diamond_wf : graph_wf g_diamond.
Proof.
  split.
  - repeat constructor; cbn; intuition lia.
  - intros a b H. unfold edge in H. cbn in H.
    repeat (destruct H as [H | H]; [inversion H; subst; cbn; split; tauto|]). contradiction.
Qed.

Example g_cyclic_wf : graph_wf g_cyclic.
Proof.
  split.
  - repeat constructor; cbn; intuition lia.
  - intros a b H. unfold edge in H. cbn in H.
    repeat (destruct H as [H | H]; [inversion H; subst; cbn; split; tauto|]). contradiction.
Qed.

(** LIFO order with first-insertion successor order: 4 is popped first (last source appended). *)
Example kahn_diamond : kahn g_diamond = Some [4; 0; 2; 1; 3].
Proof. vm_compute. reflexivity. Qed.

Example kahn_cyclic : kahn_run g_cyclic = KCycle.
Proof. vm_compute. reflexivity. Qed.

Example g_diamond_acyclic : acyclic g_diamond.
Proof. apply (kahn_some_acyclic _ _ g_diamond_wf kahn_diamond). Qed.

Example g_cyclic_not_acyclic : ~ acyclic g_cyclic.
Proof.
  intros H. apply (kahn_acyclic_some _ g_cyclic_wf H). vm_compute. reflexivity.
Qed.

Example g_cyclic_witness : exists n, reach g_cyclic n n.
Proof. apply (kahn_none_cycle_witness _ g_cyclic_wf). vm_compute. reflexivity. Qed.

Example diamond_has_source : exists s, In s (nodes g_diamond) /\ is_source g_diamond s = true.
Proof. apply (acyclic_has_source g_diamond 3 g_diamond_wf g_diamond_acyclic). cbn. tauto. Qed.

(** acyclic_wf_induction at work: in the diamond every node other than the sources 0 and 4 descends from 0 *)
Example diamond_induction : forall n, In n (nodes g_diamond) -> n = 0 \/ n = 4 \/ reach g_diamond 0 n.
Proof.
  intros n. pattern n. apply (acyclic_wf_induction g_diamond); [exact g_diamond_acyclic|]. clear n.
  intros n IH Hn. cbn in Hn.
  destruct Hn as [<- | [<- | [<- | [<- | [<- | []]]]]]; auto; right; right.
  - apply reach1. unfold edge. cbn. tauto.
  - apply reach1. unfold edge. cbn. tauto.
  - apply reach1. unfold edge. cbn. tauto.
Qed.

Example ancestors_diamond : all_ancestors g_diamond [2; 4] = [0; 2; 4].
Proof. vm_compute. reflexivity. Qed.

Example ancestors_cyclic : all_ancestors g_cyclic [1] = [0; 2; 1].
Proof. vm_compute. reflexivity. Qed.

Example ancestors_checked_rejects : all_ancestors_checked g_diamond [7] = None.
Proof. vm_compute. reflexivity. Qed.
