(** The hypothesis [trace_ok] of the progress-notification theorems (C15), discharged by the engine:
    the Start/End events of every history of the engine model ([Engine.v]; every graph, worker count,
    failing set and interleaving) form a well-formed trace - each start names a node of the graph that
    was not started before, each end follows the start of its node and is its only end - and when the
    run is over every started node has ended. *)
From Coq Require Import List Arith Bool Lia.
Import ListNotations.
From UJ Require Import Engine.Engine Engine.EngineLemmas Engine.EngineInv Engine.EngineErr
                       Engine.EngineTermInv Engine.EngineTerm Engine.EngineComplete Obs.Progress Obs.Notify.

(** engine events -> observer-level events (both lists most recent first) *)
Definition ev_to_eev (e : Engine.ev) : list eev :=
  match e with
  | Engine.EStart n => [Notify.EStart n]
  | EOk n => [EEnd n true]
  | EFail n => [EEnd n false]
  | _ => []
  end.
Definition to_eev (h : list Engine.ev) : list eev := flat_map ev_to_eev h.

Lemma nat_mem_In n l : nat_mem n l = true <-> In n l.
Proof.
  induction l as [|x r IH]; cbn [nat_mem In]; [split; [discriminate|tauto]|].
  rewrite orb_true_iff, Nat.eqb_eq, IH. split; intros [H|H]; auto.
Qed.

Lemma starts_to_eev n h : In n (starts (to_eev h)) <-> In (Engine.EStart n) h.
Proof.
  induction h as [|e h IH]; [cbn; tauto|].
  unfold to_eev in *. cbn [flat_map]. unfold starts in *. rewrite flat_map_app, in_app_iff, IH.
  destruct e; cbn; intuition (try congruence; try discriminate).
Qed.

Lemma ends_to_eev n h : In n (ends (to_eev h)) <-> In (EOk n) h \/ In (EFail n) h.
Proof.
  induction h as [|e h IH]; [cbn; tauto|].
  unfold to_eev in *. cbn [flat_map]. unfold ends in *. rewrite flat_map_app, in_app_iff, IH.
  destruct e; cbn; intuition (try congruence; try discriminate); subst; auto;
    match goal with H : _ = _ |- _ => inversion H; auto end.
Qed.

Lemma start_in_nodes c s n : cfg_ok c -> reachable c s -> In (Engine.EStart n) (hist s) -> In n (nodes (g c)).
Proof.
  intros Hc Hr Hin. apply (enqueued_in_nodes c s n Hc Hr).
  pose proof (inv_reachable c s Hc Hr) as I.
  apply count_ev_in in Hin.
  pose proof (i_started _ _ I n). unfold lc.
  pose proof (csum_le (post n) (hn n) (ws s) (post_le_hn n)). lia.
Qed.

Theorem engine_trace_ok_rev c s :
  cfg_ok c -> reachable c s -> trace_ok_rev (nodes (g c)) (to_eev (hist s)) = true.
Proof.
  intros Hc Hr. induction Hr as [|s k s' Hr IH Hn]; [reflexivity|].
  assert (Hr' : reachable c s') by (eapply reach_step; eauto).
  pose proof (inv_reachable c s' Hc Hr') as I'.
  destruct (hist_step c s k s' Hn) as [E|[e E]]; [now rewrite E|].
  rewrite E. unfold to_eev in *. cbn [flat_map].
  destruct e as [n|n|n|n|n|]; cbn [ev_to_eev app]; try exact IH; cbn [trace_ok_rev]; rewrite IH; cbn [andb].
  - (* start *)
    assert (Hin : In (Engine.EStart n) (hist s')) by (rewrite E; now left).
    pose proof (start_in_nodes c s' n Hc Hr' Hin) as Hnodes.
    apply nat_mem_In in Hnodes. rewrite Hnodes. cbn [andb].
    apply negb_true_iff. apply not_true_is_false. intros Hm. apply nat_mem_In in Hm.
    apply (starts_to_eev n (hist s)) in Hm. apply count_ev_in in Hm.
    pose proof (start_le_1 c s' n I') as Hle. rewrite E, count_ev_cons in Hle.
    destruct (ev_eq_dec (Engine.EStart n) (Engine.EStart n)) as [_|N]; [lia|congruence].
  - (* ok *)
    pose proof (i_fin _ _ I' n) as Hf. pose proof (start_le_1 c s' n I') as Hle.
    rewrite E in Hf, Hle. rewrite !count_ev_cons in Hf. rewrite count_ev_cons in Hle.
    destruct (ev_eq_dec (EOk n) (Engine.EStart n)) as [X|_]; [discriminate|].
    destruct (ev_eq_dec (EOk n) (EOk n)) as [_|X]; [|congruence].
    destruct (ev_eq_dec (EOk n) (EFail n)) as [X|_]; [discriminate|].
    assert (Hs : nat_mem n (starts (flat_map ev_to_eev (hist s))) = true).
    { apply nat_mem_In. apply (starts_to_eev n (hist s)). apply count_ev_in. lia. }
    rewrite Hs. cbn [andb]. apply negb_true_iff, not_true_is_false. intros Hm.
    apply nat_mem_In in Hm. apply (ends_to_eev n (hist s)) in Hm.
    destruct Hm as [Hm|Hm]; apply count_ev_in in Hm; lia.
  - (* fail *)
    pose proof (i_fin _ _ I' n) as Hf. pose proof (start_le_1 c s' n I') as Hle.
    rewrite E in Hf, Hle. rewrite !count_ev_cons in Hf. rewrite count_ev_cons in Hle.
    destruct (ev_eq_dec (EFail n) (Engine.EStart n)) as [X|_]; [discriminate|].
    destruct (ev_eq_dec (EFail n) (EFail n)) as [_|X]; [|congruence].
    destruct (ev_eq_dec (EFail n) (EOk n)) as [X|_]; [discriminate|].
    assert (Hs : nat_mem n (starts (flat_map ev_to_eev (hist s))) = true).
    { apply nat_mem_In. apply (starts_to_eev n (hist s)). apply count_ev_in. lia. }
    rewrite Hs. cbn [andb]. apply negb_true_iff, not_true_is_false. intros Hm.
    apply nat_mem_In in Hm. apply (ends_to_eev n (hist s)) in Hm.
    destruct Hm as [Hm|Hm]; apply count_ev_in in Hm; lia.
Qed.

Lemma csum_all_exited f l : f WExited = 0 -> (forall w pc, nth_error l w = Some pc -> pc = WExited) -> csum f l = 0.
Proof.
  intros Hf. induction l as [|x r IH]; intros H; [reflexivity|].
  rewrite csum_cons. rewrite (H 0 x eq_refl), Hf. cbn. apply IH. intros w pc Hw. exact (H (S w) pc Hw).
Qed.

(** when the run is over (no interrupt during spawn: finding F6), every started node has ended *)
Theorem engine_trace_complete c s :
  cfg_ok c -> reachable c s -> intr s <> Some ISpawn -> final s ->
  forall n, In n (starts (to_eev (hist s))) -> In n (ends (to_eev (hist s))).
Proof.
  intros Hc Hr Hi Hf n Hn. apply starts_to_eev in Hn. apply count_ev_in in Hn.
  pose proof (inv_reachable c s Hc Hr) as I. pose proof (i_fin _ _ I n) as Hfin.
  destruct (final_quiescent c s Hc Hr Hi Hf) as [Hall _].
  rewrite (csum_all_exited (runs n) (ws s) eq_refl Hall) in Hfin.
  apply ends_to_eev.
  destruct (Nat.eq_dec (count_ev (EOk n) (hist s)) 0) as [Z|NZ].
  - right. apply count_ev_in. lia.
  - left. apply count_ev_in. lia.
Qed.

Lemma starts_rev tr n : In n (starts (rev tr)) <-> In n (starts tr).
Proof. unfold starts. rewrite !in_flat_map. split; intros [x [H1 H2]]; exists x; split; auto; [apply in_rev|apply -> in_rev]; auto. Qed.
Lemma ends_rev tr n : In n (ends (rev tr)) <-> In n (ends tr).
Proof. unfold ends. rewrite !in_flat_map. split; intros [x [H1 H2]]; exists x; split; auto; [apply in_rev|apply -> in_rev]; auto. Qed.

(** the engine's trace (oldest first) satisfies the hypothesis of the C15 theorems for every plan whose call
    ids are the nodes of the executed graph *)
Theorem engine_trace_ok c s (p : plan) :
  cfg_ok c -> reachable c s -> intr s <> Some ISpawn -> final s ->
  map fst p = nodes (g c) ->
  trace_ok p (rev (to_eev (hist s))).
Proof.
  intros Hc Hr Hi Hf Hp. split.
  - rewrite rev_involutive, Hp. now apply engine_trace_ok_rev.
  - intros n Hn. apply (proj2 (ends_rev _ n)). apply (proj1 (starts_rev _ n)) in Hn. exact (engine_trace_complete c s Hc Hr Hi Hf n Hn).
Qed.

(** in a run where no call fails, every node of the graph is started (the premise of [success_counts]) *)
Theorem engine_success_all_started c s :
  cfg_ok c -> acyclic (g c) -> reachable c s -> final s -> Engine.result s = Some Returned ->
  forall n, In n (nodes (g c)) -> In n (starts (rev (to_eev (hist s)))).
Proof.
  intros Hc Ha Hr Hf Hres n Hn. apply (proj2 (starts_rev _ n)). apply starts_to_eev. apply count_ev_in.
  rewrite (success_exactly_once c s Hc Ha Hr Hf Hres n Hn). lia.
Qed.
