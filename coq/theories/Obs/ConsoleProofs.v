(** C20_last_render_final for the console observer.  The console does not re-print a section it has
    already printed complete, so "the last rendering" is taken per section: for every non-empty
    section, the last output that contains the section shows the final counts.  This needs the
    section order uberjob.run guarantees (all totals of a section before its first running, C15);
    without it the statement is false ([console_last_render_perkey_refuted]). *)
From Coq Require Import List Arith ZArith QArith Bool Lia Permutation.
Import ListNotations.
From UJ Require Import Obs.Progress Obs.ProgressProofs Obs.Render Obs.RenderProofs.
Local Open Scope Z_scope.

Fixpoint find_sec (s : nat) (o : output) : option (list row) :=
  match o with
  | [] => None
  | (s', rows) :: r => if Nat.eqb s s' then Some rows else find_sec s r
  end.

(** [outs] most recent first *)
Fixpoint last_printed (s : nat) (outs : list output) : option (list row) :=
  match outs with
  | [] => None
  | o :: r => match find_sec s o with Some rows => Some rows | None => last_printed s r end
  end.

(** what a row shows apart from the elapsed time: scope and progress string *)
Definition strip (r : row) : option scope * pstr := (r_scope r, r_ps r).

Definition cnts (s : sstate) : Z * Z * Z * Z := (completed s, failed s, running s, total s).

Definition pstr_of (c : Z * Z * Z * Z) : pstr :=
  let '(co, fa, ru, to) := c in
  let all_done := co + fa =? to in
  let started := 0 <? co + fa + ru in
  let paren := negb (all_done || negb started) in
  {| ps_paren := paren; ps_c := co; ps_r := if paren then ru else 0; ps_t := to; ps_f := fa |}.

Lemma progress_string_cnts s : progress_string s = pstr_of (cnts s).
Proof. reflexivity. Qed.

Definition cs_view (items : list (scope * sstate)) : list (scope * (Z * Z * Z * Z)) :=
  map (fun it => (fst it, cnts (snd it))) items.

(** * sorting commutes with mapping the payload *)
Section SortMap.
  Context {A B : Type}.
  Variable h : A -> B.
  Variable ltA : A -> A -> option bool.
  Variable ltB : B -> B -> option bool.
  Hypothesis lt_h : forall a b, ltB (h a) (h b) = ltA a b.

  Lemma insert_p_map x l : insert_p ltB (h x) (map h l) = option_map (map h) (insert_p ltA x l).
  Proof.
    induction l as [|e r IH]; cbn; [reflexivity|]. rewrite lt_h. destruct (ltA x e) as [[|]|]; cbn; try reflexivity.
    rewrite IH. destruct (insert_p ltA x r); reflexivity.
  Qed.

  Lemma sort_p_map_gen l acc :
    fold_left (fun a x => match a with Some s => insert_p ltB x s | None => None end) (map h l) (option_map (map h) acc)
    = option_map (map h) (fold_left (fun a x => match a with Some s => insert_p ltA x s | None => None end) l acc).
  Proof.
    revert acc. induction l as [|x l IH]; intros acc; cbn; [reflexivity|].
    destruct acc as [s|]; cbn.
    - rewrite insert_p_map. apply IH.
    - apply (IH None).
  Qed.

  Lemma sort_p_map l : sort_p ltB (map h l) = option_map (map h) (sort_p ltA l).
  Proof. unfold sort_p. apply (sort_p_map_gen l (Some [])). Qed.

  Variable tA : A -> A -> bool.
  Variable tB : B -> B -> bool.
  Hypothesis t_h : forall a b, tB (h a) (h b) = tA a b.

  Lemma insert_t_map x l : insert_t tB (h x) (map h l) = map h (insert_t tA x l).
  Proof. induction l as [|e r IH]; cbn; [reflexivity|]. rewrite t_h. destruct (tA x e); cbn; [reflexivity|now rewrite IH]. Qed.

  Lemma sort_t_map_gen l acc :
    fold_left (fun a x => insert_t tB x a) (map h l) (map h acc) = map h (fold_left (fun a x => insert_t tA x a) l acc).
  Proof. revert acc. induction l as [|x l IH]; intros acc; cbn; [reflexivity|]. rewrite insert_t_map. apply IH. Qed.

  Lemma sort_t_map l : sort_t tB (map h l) = map h (sort_t tA l).
  Proof. unfold sort_t. apply (sort_t_map_gen l []). Qed.
End SortMap.

Section Console.
  Variable vty : nat -> nat.
  Variable vlt : nat -> nat -> option bool.
  Variable vrepr : nat -> nat.

  Local Notation sorted_items := (sorted_scope_items vty vlt vrepr).

  Lemma sorted_items_map {A B} (g : A -> B) fixed (items : list (scope * A)) :
    sorted_items fixed (map (fun it => (fst it, g (snd it))) items) =
    match sorted_items fixed items with
    | Ok l => Ok (map (fun it => (fst it, g (snd it))) l)
    | Err e => Err e
    end.
  Proof.
    unfold sorted_scope_items.
    rewrite (sort_p_map (fun it : scope * A => (fst it, g (snd it)))
               (fun a b => ukey_lt vty vlt (fst a) (fst b)) (fun a b => ukey_lt vty vlt (fst a) (fst b))) by reflexivity.
    destruct (sort_p _ items); cbn; [reflexivity|]. destruct fixed; [|reflexivity].
    now rewrite (sort_t_map (fun it : scope * A => (fst it, g (snd it)))
               (fun a b => fkey_lt vty vrepr (fst a) (fst b)) (fun a b => fkey_lt vty vrepr (fst a) (fst b))) by reflexivity.
  Qed.

  (** the stripped rows the console prints for a section, as a function of scopes and counters only *)
  Definition view_rows (v : list (scope * (Z * Z * Z * Z))) : list (option scope * pstr) :=
    match sorted_items true v with
    | Ok l => map (fun it => (Some (fst it), pstr_of (snd it))) l
    | Err _ => []
    end.

  Lemma console_section_rows items rows :
    console_section vty vlt vrepr true items = Ok rows -> map strip rows = view_rows (cs_view items).
  Proof.
    unfold console_section, view_rows, cs_view. rewrite (sorted_items_map cnts true items).
    destruct (sorted_items true items) as [l|]; cbn [bind]; [|discriminate].
    destruct (ralign _) ; cbn [bind]; [|discriminate]. destruct (ralign _); cbn [bind]; [|discriminate].
    intro H. inversion H; subst. rewrite !map_map. apply map_ext. intros it. reflexivity.
  Qed.

  Definition done_view (v : list (scope * (Z * Z * Z * Z))) : bool :=
    forallb (fun it => let '(co, fa, ru, to) := snd it in co + fa =? to) v.

  Lemma is_done_view items : is_done items = done_view (cs_view items).
  Proof. unfold is_done, done_view, cs_view. induction items as [|it items IH]; cbn; [reflexivity|]. now rewrite IH. Qed.

  Lemma cs_view_nil items : cs_view items = [] <-> items = [].
  Proof. destruct items; cbn; split; congruence. Qed.

  (** ** membership in the skipped set *)
  Lemma nmem_nadd s s0 l : nmem s (nadd s0 l) = Nat.eqb s s0 || nmem s l.
  Proof.
    unfold nadd. destruct (nmem s0 l) eqn:E.
    - destruct (Nat.eqb s s0) eqn:E2; [apply Nat.eqb_eq in E2; subst; now rewrite E|reflexivity].
    - induction l as [|x l IH]; cbn; [now rewrite orb_false_r|]. cbn in E. apply orb_false_iff in E as [E1 E2].
      rewrite (IH E2). destruct (Nat.eqb s x), (Nat.eqb s s0); reflexivity.
  Qed.

  Lemma nmem_ndiscard s s0 l : nmem s (ndiscard s0 l) = negb (Nat.eqb s s0) && nmem s l.
  Proof.
    unfold ndiscard. induction l as [|x l IH]; cbn; [now rewrite andb_false_r|].
    destruct (Nat.eqb s0 x) eqn:E; cbn.
    - apply Nat.eqb_eq in E. subst x. rewrite IH. destruct (Nat.eqb s s0); reflexivity.
    - rewrite IH. destruct (Nat.eqb s x) eqn:E2; cbn; [|reflexivity].
      apply Nat.eqb_eq in E2. subst x. rewrite Nat.eqb_sym, E. reflexivity.
  Qed.

  Lemma find_sec_app s a b : find_sec s (a ++ b) = match find_sec s a with Some r => Some r | None => find_sec s b end.
  Proof. induction a as [|[s' rows] a IH]; cbn; [reflexivity|]. destruct (Nat.eqb s s'); auto. Qed.

  (** ** what one console rendering does for each section *)
  Definition sec_spec (m : list (key * sstate)) (s : nat) (sk : list nat) (out : output) (sk' : list nat) : Prop :=
    let items := sec_items s m in
    match items with
    | [] => find_sec s out = None /\ nmem s sk' = nmem s sk
    | _ :: _ =>
        nmem s sk' = is_done items /\
        if negb (is_done items) || negb (nmem s sk)
        then exists rows, find_sec s out = Some rows /\ console_section vty vlt vrepr true items = Ok rows
        else find_sec s out = None
    end.

  Lemma render_console_spec m : forall secs sk out sk',
    NoDup secs -> render_console vty vlt vrepr true secs m sk = Ok (out, sk') ->
    forall s, (In s secs -> sec_spec m s sk out sk') /\ (~ In s secs -> find_sec s out = None /\ nmem s sk' = nmem s sk).
  Proof.
    induction secs as [|s0 rest IH]; intros sk out sk' Hnd Hr s.
    - cbn in Hr. inversion Hr; subst. split; [intros []|]. intros _. split; reflexivity.
    - inversion Hnd as [|? ? Hni Hnd']; subst. cbn [render_console] in Hr.
      destruct (sec_items s0 m) as [|it items] eqn:Ei.
      + destruct (IH sk out sk' Hnd' Hr s) as [I1 I2]. split.
        * intros [<-|Hin]; [|auto]. unfold sec_spec. rewrite Ei. now apply I2.
        * intros Hn. apply I2. intro Hc. apply Hn. now right.
      + set (done := is_done (it :: items)) in *. set (printed := negb done || negb (nmem s0 sk)) in *.
        set (sk1 := if done then nadd s0 sk else ndiscard s0 sk) in *.
        destruct (if printed then bind (console_section vty vlt vrepr true (it :: items)) (fun rows => Ok [(s0, rows)]) else Ok [])
          as [here|] eqn:Eh; cbn [bind] in Hr; [|discriminate].
        destruct (render_console vty vlt vrepr true rest m sk1) as [[out1 sk2]|] eqn:Er; cbn [bind fst snd] in Hr; [|discriminate].
        inversion Hr; subst out sk'. destruct (IH sk1 out1 sk2 Hnd' Er s) as [I1 I2].
        assert (Hsk1 : forall x, x <> s0 -> nmem x sk1 = nmem x sk).
        { intros x Hx. assert (E : Nat.eqb x s0 = false) by now apply Nat.eqb_neq. unfold sk1.
          destruct done; [rewrite nmem_nadd|rewrite nmem_ndiscard]; rewrite E; reflexivity. }
        assert (Hs0 : nmem s0 sk1 = done).
        { unfold sk1. destruct done; [rewrite nmem_nadd|rewrite nmem_ndiscard]; rewrite Nat.eqb_refl; reflexivity. }
        assert (Hhere : forall x, x <> s0 -> find_sec x here = None).
        { intros x Hx. assert (E : Nat.eqb x s0 = false) by now apply Nat.eqb_neq.
          destruct printed; [|inversion Eh; reflexivity].
          destruct (console_section _ _ _ _ _) as [rows|]; cbn in Eh; [|discriminate]. inversion Eh; subst. cbn. now rewrite E. }
        split.
        * intros [<-|Hin].
          -- destruct (IH sk1 out1 sk2 Hnd' Er s0) as [_ J2]. destruct (J2 Hni) as [J3 J4].
             unfold sec_spec. rewrite Ei. fold done. split; [now rewrite J4|]. fold printed.
             destruct printed.
             ++ destruct (console_section _ _ _ _ _) as [rows|] eqn:Ec; cbn in Eh; [|discriminate]. inversion Eh; subst.
                exists rows. split; [|reflexivity]. cbn. now rewrite Nat.eqb_refl.
             ++ inversion Eh; subst. cbn. exact J3.
          -- assert (Hne : s <> s0) by (intro; subst; contradiction).
             specialize (I1 Hin). unfold sec_spec in *. destruct (sec_items s m) as [|it' items'].
             ++ destruct I1 as [A B]. rewrite find_sec_app, (Hhere s Hne). split; [assumption|]. now rewrite B, Hsk1.
             ++ destruct I1 as [A B]. split; [assumption|]. rewrite (Hsk1 s Hne) in B.
                rewrite find_sec_app, (Hhere s Hne). exact B.
        * intros Hn. assert (Hne : s <> s0) by (intro; subst; apply Hn; now left).
          destruct (I2 ltac:(intro Hc; apply Hn; now right)) as [A B].
          rewrite find_sec_app, (Hhere s Hne). split; [assumption|]. now rewrite B, Hsk1.
  Qed.
End Console.

(** * a complete section receives no further notification (needs the section order) *)
Lemma in_sec_items s sc st m : In (sc, st) (sec_items s m) <-> In ((s, sc), st) m.
Proof.
  unfold sec_items. rewrite in_map_iff. split.
  - intros ([[s' sc'] st'] & E & Hin). cbn in E. inversion E; subst. apply filter_In in Hin as [Hin Hs]. cbn in Hs.
    apply Nat.eqb_eq in Hs. now subst.
  - intros Hin. exists ((s, sc), st). split; [reflexivity|]. apply filter_In. split; [assumption|]. cbn. apply Nat.eqb_refl.
Qed.

Lemma nrun_pos_started k p : 0 < nrun k p -> sec_started (fst k) p = true.
Proof.
  induction p as [|e p IH]; cbn; [lia|]. destruct e as [|k' a|k'|k'|k'|]; cbn; auto.
  destruct (key_eqb k k') eqn:E.
  - apply key_eqb_eq in E. subst. intros _. now rewrite Nat.eqb_refl.
  - intro H. rewrite IH by lia. apply orb_true_r.
Qed.

Definition note_key (n : note) : option key :=
  match n with Total k _ | Running k | Completed k | Failed k => Some k | _ => None end.

Lemma done_section_quiet p st n k :
  Sim p st -> wf_rev true (n :: p) = true -> note_key n = Some k ->
  sec_items (fst k) (mapping st) <> [] -> is_done (sec_items (fst k) (mapping st)) = true -> False.
Proof.
  intros HS Hwf Hk Hne Hdone. pose proof (wf_rev_tail _ _ _ Hwf) as Hwf'. pose proof (wf_rev_head _ _ _ Hwf) as Hok.
  destruct k as [s sc]. cbn [fst] in *.
  assert (Hall : forall sc1 st1, lookup (s, sc1) (mapping st) = Some st1 ->
            ncompl (s, sc1) p + nfail (s, sc1) p = ntot (s, sc1) p /\ 0 < ntot (s, sc1) p).
  { intros sc1 st1 El. destruct (sim_counts _ _ HS _ _ El) as (A1 & A2 & A3 & A4 & A5).
    assert (Hin : In (sc1, st1) (sec_items s (mapping st))) by (apply in_sec_items; now apply lookup_in).
    unfold is_done in Hdone. rewrite forallb_forall in Hdone. specialize (Hdone _ Hin). cbn in Hdone. apply Z.eqb_eq in Hdone.
    pose proof (wf_announced_pos _ _ Hwf' _ A1). lia. }
  assert (Hstarted : sec_started s p = true).
  { destruct (sec_items s (mapping st)) as [|[sc0 st0] items] eqn:Ei; [contradiction|].
    assert (Hin : In (sc0, st0) (sec_items s (mapping st))) by (rewrite Ei; now left).
    apply in_sec_items in Hin. pose proof (in_lookup _ _ _ (sim_nodup _ _ HS) Hin) as El.
    destruct (Hall sc0 st0 El) as [B1 B2]. pose proof (wf_counts _ _ Hwf' (s, sc0)).
    apply (nrun_pos_started (s, sc0)). lia. }
  assert (Hkey : forall st1, lookup (s, sc) (mapping st) = Some st1 -> ncompl (s, sc) p + nfail (s, sc) p = ntot (s, sc) p)
    by (intros st1 El; now destruct (Hall sc st1 El)).
  assert (Hnone : lookup (s, sc) (mapping st) = None -> ntot (s, sc) p = 0).
  { intro El. apply not_announced_ntot. now apply (sim_absent _ _ HS). }
  pose proof (wf_counts _ _ Hwf' (s, sc)) as Hc.
  destruct n as [|k' a|k'|k'|k'|]; cbn in Hk; inversion Hk; subst k'; cbn [ok_next fst] in Hok.
  - rewrite Hstarted in Hok. cbn in Hok. now rewrite andb_false_r in Hok.
  - apply Z.ltb_lt in Hok. destruct (lookup (s, sc) (mapping st)) eqn:El; [specialize (Hkey _ eq_refl)|specialize (Hnone eq_refl)]; lia.
  - apply Z.ltb_lt in Hok. destruct (lookup (s, sc) (mapping st)) eqn:El; [specialize (Hkey _ eq_refl)|specialize (Hnone eq_refl)]; lia.
  - apply Z.ltb_lt in Hok. destruct (lookup (s, sc) (mapping st)) eqn:El; [specialize (Hkey _ eq_refl)|specialize (Hnone eq_refl)]; lia.
Qed.

(** * notifications of other sections and clock updates leave a section's counters alone *)
Lemma sec_items_update_other s k f m : fst k <> s -> sec_items s (update k f m) = sec_items s m.
Proof.
  intro Hne. unfold sec_items. induction m as [|[k' st'] m IH]; cbn; [reflexivity|].
  destruct (key_eqb k k') eqn:E; cbn.
  - apply key_eqb_eq in E. subst k'. assert (E2 : Nat.eqb (fst k) s = false) by now apply Nat.eqb_neq. now rewrite E2.
  - destruct (Nat.eqb (fst k') s); cbn; now rewrite IH.
Qed.

Lemma sec_items_app_other s k x m : fst k <> s -> sec_items s (m ++ [(k, x)]) = sec_items s m.
Proof.
  intro Hne. unfold sec_items. rewrite filter_app, map_app. cbn.
  assert (E2 : Nat.eqb (fst k) s = false) by now apply Nat.eqb_neq. rewrite E2. cbn. now rewrite app_nil_r.
Qed.

Lemma cs_view_uwe s t st : cs_view (sec_items s (mapping (update_weighted_elapsed t st))) = cs_view (sec_items s (mapping st)).
Proof.
  rewrite uwe_mapping. unfold cs_view, sec_items. induction (mapping st) as [|[k x] m IH]; cbn; [reflexivity|].
  destruct (negb (running_count st =? 0) && kmem k (running_set st)); cbn; destruct (Nat.eqb (fst k) s); cbn; now rewrite IH.
Qed.

Section ConsoleRun.
  Variable vty : nat -> nat.
  Variable vlt : nat -> nat -> option bool.
  Variable vrepr : nat -> nat.
  Variable mi : Q.
  Variable start : Q.

  Local Notation run := (run_rev output (render vty vlt vrepr Console true) mi start).
  Local Notation items_of o s := (sec_items s (mapping (o_state o))).

  Definition shows (s : nat) (o : obs) (outs : list output) : Prop :=
    exists rows, last_printed s outs = Some rows /\ map strip rows = view_rows vty vlt vrepr (cs_view (items_of o s)).

  Definition ConsoleInv (o : obs) (outs : list output) : Prop :=
    forall s, In s SECTIONS ->
      (nmem s (o_skipped o) = true -> items_of o s <> [] /\ is_done (items_of o s) = true /\ shows s o outs) /\
      (o_stale o = false -> items_of o s <> [] -> shows s o outs).

  (** a notification: counters of sections it does not belong to are unchanged *)
  Lemma notify_other_section (o1 o : obs) outs1 outs e k s :
    step output (render vty vlt vrepr Console true) mi (o1, outs1) e = Ok (o, outs) ->
    note_of e = [match e with EvTotal k a => Total k a | EvRunning k _ => Running k | EvCompleted k _ => Completed k
                         | EvFailed k _ => Failed k | EvRender _ _ => Enter end] ->
    note_key (hd Enter (note_of e)) = Some k -> fst k <> s ->
    cs_view (items_of o s) = cs_view (items_of o1 s) /\ outs = outs1 /\ o_skipped o = o_skipped o1 /\ o_stale o = true.
  Proof.
    intros Hs _ Hk Hne. destruct e as [k' a|k' t|k' t|k' t|t1 t2]; cbn in Hk; inversion Hk; subst k'; cbn [step] in Hs.
    - inversion Hs; subst o outs. cbn [o_state with_state o_skipped o_stale]. repeat split.
      unfold increment_total; cbn [mapping].
      destruct (lookup k (mapping (o_state o1))); [now rewrite sec_items_update_other|now rewrite sec_items_app_other].
    - destruct (increment_running k t (o_state o1)) as [st'|] eqn:E; [|discriminate]. cbn [bind] in Hs. inversion Hs; subst o outs.
      cbn [o_state with_state o_skipped o_stale]. repeat split.
      destruct (increment_running_shape _ _ _ _ E) as (-> & _). rewrite sec_items_update_other by assumption. apply cs_view_uwe.
    - destruct (increment_finished true k t (o_state o1)) as [st'|] eqn:E; [|discriminate]. cbn [bind] in Hs. inversion Hs; subst o outs.
      cbn [o_state with_state o_skipped o_stale]. repeat split.
      destruct (increment_finished_shape _ _ _ _ _ E) as (-> & _). rewrite sec_items_update_other by assumption. apply cs_view_uwe.
    - destruct (increment_finished false k t (o_state o1)) as [st'|] eqn:E; [|discriminate]. cbn [bind] in Hs. inversion Hs; subst o outs.
      cbn [o_state with_state o_skipped o_stale]. repeat split.
      destruct (increment_finished_shape _ _ _ _ _ E) as (-> & _). rewrite sec_items_update_other by assumption. apply cs_view_uwe.
  Qed.

  Lemma shows_transfer s o1 o outs :
    cs_view (items_of o s) = cs_view (items_of o1 s) -> shows s o1 outs -> shows s o outs.
  Proof. intros E (rows & A & B). exists rows. split; [assumption|]. now rewrite E. Qed.

  Lemma step_notify_facts (o1 o : obs) outs1 outs e n :
    note_of e = [n] ->
    step output (render vty vlt vrepr Console true) mi (o1, outs1) e = Ok (o, outs) ->
    outs = outs1 /\ o_skipped o = o_skipped o1 /\ o_stale o = true.
  Proof.
    intros Hn Hs. destruct e as [k a|k t|k t|k t|t1 t2]; cbn [note_of] in Hn; try discriminate; cbn [step] in Hs.
    - inversion Hs; subst o outs. cbn [with_state o_skipped o_stale]. tauto.
    - destruct (increment_running k t (o_state o1)) as [st'|]; [|discriminate]. cbn [bind] in Hs.
      inversion Hs; subst o outs. cbn [with_state o_skipped o_stale]. tauto.
    - destruct (increment_finished true k t (o_state o1)) as [st'|]; [|discriminate]. cbn [bind] in Hs.
      inversion Hs; subst o outs. cbn [with_state o_skipped o_stale]. tauto.
    - destruct (increment_finished false k t (o_state o1)) as [st'|]; [|discriminate]. cbn [bind] in Hs.
      inversion Hs; subst o outs. cbn [with_state o_skipped o_stale]. tauto.
  Qed.

  Lemma note_of_key e n : note_of e = [n] -> exists k, note_key n = Some k /\ note_key (hd Enter (note_of e)) = Some k.
  Proof.
    intro H. destruct e as [k a|k t|k t|k t|t1 t2]; cbn [note_of] in H; try discriminate; inversion H; subst n;
      exists k; split; reflexivity.
  Qed.

  Lemma console_inv_notify (o1 o : obs) outs1 outs e n p :
    note_of e = [n] -> Sim p (o_state o1) -> wf_rev true (n :: p) = true ->
    step output (render vty vlt vrepr Console true) mi (o1, outs1) e = Ok (o, outs) ->
    ConsoleInv o1 outs1 -> ConsoleInv o outs.
  Proof.
    intros Hn HS Hwfn Hs IH s Hin. destruct (IH s Hin) as [IA IB].
    destruct (step_notify_facts _ _ _ _ _ _ Hn Hs) as (Hout & Hsk & Hst). subst outs.
    destruct (note_of_key _ _ Hn) as (k & Hk1 & Hk2).
    split; [|intro Hc; rewrite Hst in Hc; discriminate].
    intro Hm. rewrite Hsk in Hm. destruct (IA Hm) as (A1 & A2 & A3).
    destruct (Nat.eq_dec (fst k) s) as [Heq|Hneq].
    - exfalso. subst s. exact (done_section_quiet _ _ _ _ HS Hwfn Hk1 A1 A2).
    - destruct (notify_other_section o1 o outs1 outs1 e k s Hs) as (Ev & _ & _ & _).
      + rewrite Hn. destruct e as [k' a|k' t|k' t|k' t|t1 t2]; cbn [note_of] in Hn; try discriminate; inversion Hn; reflexivity.
      + exact Hk2.
      + exact Hneq.
      + split.
        * intro Hc. apply A1. apply cs_view_nil. rewrite <- Ev. now apply cs_view_nil.
        * split; [now rewrite is_done_view, Ev, <- is_done_view|now apply (shows_transfer s o1)].
  Qed.

  Lemma console_inv_render (o1 o : obs) outs1 outs t1 t2 :
    step output (render vty vlt vrepr Console true) mi (o1, outs1) (EvRender t1 t2) = Ok (o, outs) ->
    ConsoleInv o1 outs1 -> ConsoleInv o outs.
  Proof.
    intros Hs IH. cbn [step] in Hs.
    destruct (do_render output (render vty vlt vrepr Console true) mi o1 t1 t2) as [[o' out]|] eqn:Ed; [|discriminate].
    cbn [bind fst snd] in Hs. inversion Hs; subst o outs. clear Hs.
    destruct (do_render_cases _ _ _ _ _ _ _ _ Ed) as [(-> & -> & Hst1)|(x & sk & -> & Hr & Hst' & Hstale' & Hsk')]; [exact IH|].
    cbn [render] in Hr. intros s Hin.
    assert (Hnd : NoDup SECTIONS) by (repeat constructor; cbn; intuition discriminate).
    destruct (render_console_spec vty vlt vrepr _ _ _ _ _ Hnd Hr s) as [Spec _]. specialize (Spec Hin).
    destruct (IH s Hin) as [IA IB].
    assert (Ev : cs_view (items_of o' s) = cs_view (items_of o1 s)) by (rewrite Hst'; apply cs_view_uwe).
    unfold sec_spec in Spec. rewrite <- Hst' in Spec.
    assert (Hcore : items_of o' s <> [] -> shows s o' (x :: outs1)).
    { intros Hne. destruct (items_of o' s) as [|it items] eqn:Ei; [contradiction|]. destruct Spec as [S1 S2].
      destruct (negb (is_done (it :: items)) || negb (nmem s (o_skipped o1))) eqn:Ep.
      - destruct S2 as (rows & F & C). exists rows. split; [cbn [last_printed]; now rewrite F|].
        rewrite (console_section_rows _ _ _ _ _ C). now rewrite Ei.
      - apply orb_false_iff in Ep as [Ep1 Ep2]. apply negb_false_iff in Ep2.
        destruct (IA Ep2) as (_ & _ & (rows & F & C)). exists rows. split; [cbn [last_printed]; now rewrite S2|].
        rewrite C. now rewrite <- Ev, Ei. }
    split.
    - intro Hm. rewrite Hsk' in Hm. destruct (items_of o' s) as [|it items] eqn:Ei.
      + destruct Spec as [_ S2]. rewrite S2 in Hm. destruct (IA Hm) as (A1 & _). exfalso. apply A1.
        apply cs_view_nil. rewrite <- Ev. reflexivity.
      + destruct Spec as [S1 _]. rewrite S1 in Hm. split; [discriminate|]. split; [assumption|].
        apply Hcore. discriminate.
    - intros _ Hne. now apply Hcore.
  Qed.

  Lemma console_inv h : forall o outs,
    wf_evs true h = true -> run h = Ok (o, outs) -> ConsoleInv o outs.
  Proof.
    induction h as [|e p IH]; intros o outs Hwf Hrun.
    - cbn in Hrun. inversion Hrun; subst. intros s Hs. cbn. split; [discriminate|discriminate].
    - destruct (run_cons _ _ _ _ _ _ _ _ Hrun) as (o1 & outs1 & Hp & Hs).
      assert (Hwfp : wf_evs true p = true).
      { unfold wf_evs in *. cbn [notes_of flat_map] in Hwf.
        destruct e; cbn [note_of app] in Hwf; try exact Hwf; exact (wf_rev_tail _ _ _ Hwf). }
      specialize (IH _ _ Hwfp Hp). pose proof (run_sim _ _ _ _ true p o1 outs1 Hwfp Hp) as HS.
      unfold wf_evs in Hwf. cbn [notes_of flat_map] in Hwf.
      destruct e as [k a|k t|k t|k t|t1 t2].
      + apply (console_inv_notify o1 o outs1 outs (EvTotal k a) (Total k a) (notes_of p)); [reflexivity|exact HS|exact Hwf|exact Hs|exact IH].
      + apply (console_inv_notify o1 o outs1 outs (EvRunning k t) (Running k) (notes_of p)); [reflexivity|exact HS|exact Hwf|exact Hs|exact IH].
      + apply (console_inv_notify o1 o outs1 outs (EvCompleted k t) (Completed k) (notes_of p)); [reflexivity|exact HS|exact Hwf|exact Hs|exact IH].
      + apply (console_inv_notify o1 o outs1 outs (EvFailed k t) (Failed k) (notes_of p)); [reflexivity|exact HS|exact Hwf|exact Hs|exact IH].
      + eapply console_inv_render; [exact Hs|exact IH].
  Qed.

  (** C20_last_render_final, console: after the update loop's final _do_render, for every section that
      has counts, the last output containing that section shows the final counts. *)
  Lemma console_last_render_final evs t1 t2 o outs :
    wf_evs true (rev evs) = true ->
    observe output (render vty vlt vrepr Console true) mi start evs t1 t2 = Ok (o, outs) ->
    exists o1 outs1,
      run_obs output (render vty vlt vrepr Console true) mi start evs = Ok (o1, outs1) /\
      cview (mapping (o_state o)) = cview (mapping (o_state o1)) /\
      forall s, In s SECTIONS -> sec_items s (mapping (o_state o)) <> [] ->
        exists rows, last_printed s outs = Some rows /\
                     map strip rows = view_rows vty vlt vrepr (cs_view (sec_items s (mapping (o_state o)))).
  Proof.
    intros Hwf Hobs. unfold observe, run_obs in *. rewrite rev_app_distr in Hobs. cbn [rev app] in Hobs.
    destruct (run_cons _ _ _ _ _ _ _ _ Hobs) as (o1 & outs1 & Hp & _). exists o1, outs1. split; [exact Hp|].
    split; [eapply render_keeps_counters; eassumption|].
    assert (Hwf2 : wf_evs true (EvRender t1 t2 :: rev evs) = true) by exact Hwf.
    pose proof (console_inv _ _ _ Hwf2 Hobs) as HI. pose proof (render_clears_stale _ _ _ _ _ _ _ _ _ Hobs) as Hst.
    intros s Hin Hne. destruct (HI s Hin) as [_ HB]. exact (HB Hst Hne).
  Qed.
End ConsoleRun.

(** Without the section order the console statement fails: a total announced for a section that was
    already printed complete is never shown. *)
Lemma console_last_render_perkey_refuted :
  exists (evs : list ev) (t : Q) o outs,
    wf_evs false (rev evs) = true /\
    observe output (render (fun _ => 0%nat) (fun _ _ => None) (fun x => x) Console true) 0 0 evs t t = Ok (o, outs) /\
    exists rows, last_printed 0%nat outs = Some rows /\
      map strip rows <> view_rows (fun _ => 0%nat) (fun _ _ => None) (fun x => x)
                          (cs_view (sec_items 0%nat (mapping (o_state o)))).
Proof.
  exists [EvTotal (0%nat, [1%nat]) 1; EvRunning (0%nat, [1%nat]) 1; EvCompleted (0%nat, [1%nat]) 2; EvRender 3 3;
          EvTotal (0%nat, [2%nat]) 1; EvRunning (0%nat, [2%nat]) 4; EvCompleted (0%nat, [2%nat]) 5], 6%Q.
  match goal with |- exists o outs, _ /\ ?obs = _ /\ _ => destruct obs as [[o outs]|e] eqn:E end.
  - exists o, outs. split; [vm_compute; reflexivity|]. split; [reflexivity|].
    vm_compute in E. inversion E; subst o outs. clear E.
    eexists. split; [vm_compute; reflexivity|]. vm_compute. discriminate.
  - vm_compute in E. discriminate.
Qed.

(** the rows of a section list every scope with the progress string of its counters *)
Lemma view_rows_complete vty vlt vrepr v sc c :
  In (sc, c) v -> In (Some sc, pstr_of c) (view_rows vty vlt vrepr v).
Proof.
  intro Hin. unfold view_rows. destruct (sorted_fixed_ok vty vlt vrepr v) as (l & -> & Hp).
  apply in_map_iff. exists (sc, c). split; [reflexivity|]. eapply Permutation_in; eassumption.
Qed.

(** Non-vacuity of the console statement: a section-ordered run with a render in between; the stale
    section is printed complete once and skipped by the final rendering, yet its last printing is final. *)
Example nonvacuous_console :
  let evs := [EvTotal (0%nat, [1%nat]) 1; EvRunning (0%nat, [1%nat]) 1; EvCompleted (0%nat, [1%nat]) 2; EvRender 3 3;
              EvTotal (1%nat, [2%nat]) 2; EvRunning (1%nat, [2%nat]) 4; EvFailed (1%nat, [2%nat]) 5] in
  wf_evs true (rev evs) = true /\
  match observe output (render (fun _ => 0%nat) (fun _ _ => None) (fun x => x) Console true) 0 0 evs 6 6 with
  | Ok (o, outs) => map (map fst) outs = [[1%nat]; [0%nat]] /\ o_skipped o = [0%nat] /\
                    option_map (map strip) (last_printed 0%nat outs) =
                      Some [(Some [1%nat], {| ps_paren := false; ps_c := 1; ps_r := 0; ps_t := 1; ps_f := 0 |})]
  | Err _ => False
  end.
Proof. vm_compute. repeat split. Qed.
