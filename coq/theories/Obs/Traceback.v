(** Model of uberjob/_util/traceback.py and of which frame each API entry point captures.
    No proofs here: definitions only (kept runnable when a proof breaks). *)
From Coq Require Import List Arith Bool.
Import ListNotations.

(** A Python frame: (function name id, path id, line). The harness interns strings as nat. *)
Record frame := { fname : nat; fpath : nat; fline : nat }.

Definition frame_eqb (a b : frame) : bool :=
  (fname a =? fname b) && (fpath a =? fpath b) && (fline a =? fline b).

(** StackFrame chain: outer = None | TruncatedStackFrame | StackFrame *)
Inductive sframe := SNil | STrunc | SF (f : frame) (outer : sframe).

Definition MAX_TRACEBACK_DEPTH : nat := 3.

(** [recurse frame depth] with depth counting MAX, MAX-1, .., 0, then (depth < 0) Truncated.
    [fuel] = depth + 1. *)
Fixpoint capture (fuel : nat) (stack : list frame) : sframe :=
  match stack with
  | [] => SNil
  | f :: rest => match fuel with
                 | 0 => STrunc
                 | S k => SF f (capture k rest)
                 end
  end.

(** get_stack_frame(initial_depth): [stack] is the Python stack innermost first, starting with
    get_stack_frame's own frame.  Python raises AttributeError when f_back runs off the stack
    strictly before initial_depth steps: modelled as None. *)
Definition get_stack_frame (initial_depth : nat) (stack : list frame) : option sframe :=
  if length stack <? initial_depth then None
  else Some (capture (S MAX_TRACEBACK_DEPTH) (skipn initial_depth stack)).

(** API entry points that create symbolic calls. *)
Inductive entry := ECall | EGather | EUnpack | ERegAdd | ERegSource | ERunOutput.

(** Number of uberjob frames on top of the user's frame when get_stack_frame runs
    (get_stack_frame's own frame included), per entry point.  [fixed] = tree with the F5 fix:
    run() captures its caller's frame itself; before the fix run() called plan.gather(output). *)
Definition internal_frames (fixed : bool) (e : entry) : nat :=
  match e with
  | ERunOutput => if fixed then 2 else 3
  | _ => 2
  end.

Definition initial_depth (e : entry) : nat := 2.

Definition captured (fixed : bool) (e : entry) (stack : list frame) : option sframe :=
  get_stack_frame (initial_depth e) stack.

Definition shead (s : sframe) : option frame :=
  match s with SF f _ => Some f | _ => None end.

Fixpoint sframes (s : sframe) : list frame :=
  match s with SF f o => f :: sframes o | _ => [] end.

Fixpoint struncated (s : sframe) : bool :=
  match s with SNil => false | STrunc => true | SF _ o => struncated o end.

(** render_symbolic_traceback: collect frames until Truncated / an IPython frame, print reversed. *)
Inductive rline := RFrame (f : frame) | RTrunc.

Fixpoint collect (is_ipython : frame -> bool) (s : sframe) : list rline :=
  match s with
  | SNil => []
  | STrunc => [RTrunc]
  | SF f o => if is_ipython f then [] else RFrame f :: collect is_ipython o
  end.

Definition render (is_ipython : frame -> bool) (s : sframe) : list rline :=
  rev (collect is_ipython s).

(** Which symbolic call a failure is attributed to, and whose frame that call carries.
    Nodes of the physical plan are roles over plan nodes. *)
Inductive role := Orig (n : nat) | ReadOf (n : nat) | WriteOf (n : nat).
Inductive origin := CreatedAt (n : nat)        (* the line that created plan node n *)
                  | RegisteredAt (n : nat).    (* the registry.add / registry.source line for n *)

(** _add_value_store: read/write calls are built with registry_value.stack_frame. *)
Definition frame_origin (r : role) : origin :=
  match r with
  | Orig n => CreatedAt n
  | ReadOf n => RegisteredAt n
  | WriteOf n => RegisteredAt n
  end.

Inductive phase := StaleCheck (n : nat)          (* get_modified_time of node n failed *)
                 | RunNode (r : role).           (* node r of the physical plan raised *)

(** NodeError(node) -> CallError(node): the node is the one being processed. *)
Definition failing_call (p : phase) : role :=
  match p with StaleCheck n => Orig n | RunNode r => r end.
