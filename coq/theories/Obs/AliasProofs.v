(** Frame properties of the heap programs of Obs/Alias.v. *)
From Coq Require Import List Arith Bool Lia.
Import ListNotations.
From UJ Require Import Obs.Alias.

(** ---- update / exec ---- *)
Lemma update_length h : forall a f, length (update h a f) = length h.
Proof. induction h as [|c r IH]; intros [|a] f; cbn; auto. Qed.

Lemma update_other h : forall a b f, a <> b -> nth_error (update h a f) b = nth_error h b.
Proof.
  induction h as [|c r IH]; intros [|a] [|b] f Hne; cbn; auto; try congruence;
    try (apply IH; congruence).
Qed.

Lemma update_same h : forall a f, nth_error (update h a f) a = option_map f (nth_error h a).
Proof. induction h as [|c r IH]; intros [|a] f; cbn; auto. Qed.

Lemma exec_length h c : length h <= length (exec h c).
Proof. destruct c; cbn; rewrite ?update_length, ?app_length; cbn; lia. Qed.

Lemma run_length h cs : length h <= length (run h cs).
Proof.
  revert h; induction cs as [|c r IH]; intros h; cbn; [lia|].
  specialize (IH (exec h c)). pose proof (exec_length h c). unfold run in IH. lia.
Qed.

Lemma run_app h c1 c2 : run h (c1 ++ c2) = run (run h c1) c2.
Proof. unfold run. apply fold_left_app. Qed.

(** a command that does not write cell [a] leaves it as it is *)
Lemma exec_frame h c a : target c <> Some a -> a < length h -> nth_error (exec h c) a = nth_error h a.
Proof.
  intros Ht Ha. destruct c; cbn in *;
    try (apply update_other; congruence).
  now apply nth_error_app1.
Qed.

Lemma run_frame cs : forall h a,
  Forall (fun c => target c <> Some a) cs -> a < length h -> nth_error (run h cs) a = nth_error h a.
Proof.
  induction cs as [|c r IH]; intros h a Hs Ha; cbn; [reflexivity|].
  inversion Hs as [|? ? Hc Hr]; subst.
  change (nth_error (run (exec h c) r) a = nth_error h a).
  rewrite IH; [now apply exec_frame|exact Hr|]. pose proof (exec_length h c). lia.
Qed.

(** all writes go to addresses >= bound *)
Definition safe (bound : nat) (cs : list cmd) : Prop :=
  Forall (fun c => match target c with Some t => bound <= t | None => True end) cs.

Lemma safe_app b c1 c2 : safe b c1 -> safe b c2 -> safe b (c1 ++ c2).
Proof. intros. apply Forall_app. auto. Qed.

Lemma safe_mono b b' cs : b <= b' -> safe b' cs -> safe b cs.
Proof.
  intros Hb H. eapply Forall_impl; [|exact H]. intros c. cbv beta. destruct (target c); [intros; lia|auto].
Qed.

Lemma safe_frame b cs h a : safe b cs -> a < b -> b <= length h -> nth_error (run h cs) a = nth_error h a.
Proof.
  intros Hs Ha Hb. apply run_frame; [|lia].
  eapply Forall_impl; [|exact Hs]. intros c. cbv beta. destruct (target c) as [t|]; [|discriminate].
  intros Hc [= ->]. lia.
Qed.

(** ---- plan pointer is never rewritten ---- *)
Lemma graph_of_exec h c p : p < length h -> graph_of (exec h c) p = graph_of h p.
Proof.
  intros Hp. unfold graph_of. destruct c; cbn;
    try (match goal with |- context [update h ?t ?f] =>
           destruct (Nat.eq_dec t p) as [->|Hne];
           [rewrite update_same; destruct (nth_error h p) as [[]|]; reflexivity
           |rewrite update_other by exact Hne; reflexivity] end).
  now rewrite nth_error_app1.
Qed.

Lemma graph_of_run cs : forall h p, p < length h -> graph_of (run h cs) p = graph_of h p.
Proof.
  induction cs as [|c r IH]; intros h p Hp; cbn; [reflexivity|].
  change (graph_of (run (exec h c) r) p = graph_of h p).
  rewrite IH; [now apply graph_of_exec|]. pose proof (exec_length h c). lia.
Qed.

(** ---- the building API writes only the plan cell and its graph cell ---- *)
Definition only_targets (ok : addr -> Prop) (cs : list cmd) : Prop :=
  Forall (fun c => match target c with Some t => ok t | None => True end) cs.

Lemma only_targets_app (ok : addr -> Prop) c1 c2 : only_targets ok c1 -> only_targets ok c2 -> only_targets ok (c1 ++ c2).
Proof. intros. apply Forall_app. auto. Qed.

Lemma bop_targets h p o : only_targets (fun t => t = p \/ t = graph_of h p) (bop_cmds h p o).
Proof. destruct o; unfold bop_cmds, only_targets; repeat (apply Forall_cons || apply Forall_nil); cbn [target]; auto. Qed.

Lemma bops_targets ops : forall h p, p < length h ->
  only_targets (fun t => t = p \/ t = graph_of h p) (bops_cmds h p ops).
Proof.
  induction ops as [|o r IH]; intros h p Hp; cbn; [constructor|].
  apply only_targets_app; [apply bop_targets|].
  specialize (IH (run h (bop_cmds h p o)) p).
  rewrite graph_of_run in IH by exact Hp. apply IH. pose proof (run_length h (bop_cmds h p o)). lia.
Qed.

Lemma only_targets_safe (ok : addr -> Prop) b cs : (forall t, ok t -> b <= t) -> only_targets ok cs -> safe b cs.
Proof.
  intros Hok H. eapply Forall_impl; [|exact H]. intros c. cbv beta. destruct (target c); auto.
Qed.

Lemma only_targets_avoid (ok : addr -> Prop) cs a : ~ ok a -> only_targets ok cs -> Forall (fun c => target c <> Some a) cs.
Proof.
  intros Hn H. eapply Forall_impl; [|exact H]. intros c. cbv beta. destruct (target c) as [t|]; [|discriminate].
  intros Hc [= ->]. contradiction.
Qed.

(** ---- Plan.copy ---- *)
Lemma run_allocs h cells : run h (map Alloc cells) = h ++ cells.
Proof.
  revert h; induction cells as [|c r IH]; intros h; cbn; [now rewrite app_nil_r|].
  change (run (h ++ [c]) (map Alloc r) = h ++ c :: r). rewrite IH, <- app_assoc. reflexivity.
Qed.

Lemma copy_plan_result h p :
  let h1 := run h (copy_plan_cmds h p) in
  length h1 = S (S (length h)) /\
  nth_error h1 (length h) = Some (CGraph (gnodes h (graph_of h p)) (gedges h (graph_of h p))) /\
  nth_error h1 (S (length h)) = Some (CPlan (length h) []) /\
  graph_of h1 (S (length h)) = length h /\
  forall a, a < length h -> nth_error h1 a = nth_error h a.
Proof.
  intros h1.
  assert (E : h1 = h ++ [CGraph (gnodes h (graph_of h p)) (gedges h (graph_of h p)); CPlan (length h) []]).
  { unfold h1, copy_plan_cmds.
    change [Alloc (CGraph (gnodes h (graph_of h p)) (gedges h (graph_of h p))); Alloc (CPlan (length h) [])]
      with (map Alloc [CGraph (gnodes h (graph_of h p)) (gedges h (graph_of h p)); CPlan (length h) []]).
    apply run_allocs. }
  rewrite E. rewrite app_length. cbn [length]. split; [lia|].
  assert (E1 : nth_error (h ++ [CGraph (gnodes h (graph_of h p)) (gedges h (graph_of h p)); CPlan (length h) []]) (S (length h))
               = Some (CPlan (length h) [])).
  { rewrite nth_error_app2 by lia. replace (S (length h) - length h) with 1 by lia. reflexivity. }
  split; [rewrite nth_error_app2 by lia; now rewrite Nat.sub_diag|].
  split; [exact E1|]. split; [unfold graph_of at 1; now rewrite E1|].
  intros a Ha. now apply nth_error_app1.
Qed.

Lemma copy_plan_safe b h p : safe b (copy_plan_cmds h p).
Proof. repeat constructor. Qed.

(** ---- _add_value_store, prune, render: writes go to the graph / plan handed over and to new cells ---- *)
Lemma avs_safe b gc pc next n ic ns nk src st preds outs :
  b <= gc -> b <= pc -> b <= next ->
  safe b (avs_cmds gc pc next n ic ns nk src st preds outs).
Proof.
  intros Hg Hp Hn. unfold avs_cmds.
  repeat (apply safe_app).
  - repeat constructor; cbn; lia.
  - destruct ic; repeat constructor; cbn; lia.
  - destruct st; [|constructor]. apply safe_app; [|repeat constructor; cbn; lia].
    destruct src.
    + apply safe_app; [repeat constructor; cbn; lia|]. apply Forall_forall. intros c Hc.
      apply in_map_iff in Hc as (x & <- & _). cbn. lia.
    + apply safe_app; [repeat constructor; cbn; lia|]. destruct ic; repeat constructor; cbn; lia.
  - repeat constructor; cbn; lia.
  - apply Forall_forall. intros c Hc. apply in_flat_map in Hc as (o & _ & Hc).
    destruct Hc as [<-|Hc]; [cbn; lia|].
    destruct (snd o); [destruct Hc as [<-|[]]; cbn; lia|destruct Hc as [<-|[]]; cbn; lia|].
    destruct st; [destruct Hc as [<-|[]]; cbn; lia|destruct Hc].
Qed.

Lemma avs_all_safe b gc pc st entries : forall h,
  b <= gc -> b <= pc -> b <= length h -> safe b (avs_all gc pc st h entries).
Proof.
  induction entries as [|e r IH]; intros h Hg Hp Hh; cbn [avs_all]; [constructor|].
  apply safe_app; [apply avs_safe; auto|]. apply IH; auto.
  pose proof (run_length h (avs_phase gc pc st h e)). lia.
Qed.

Lemma prune_safe b g remove elide : b <= g -> safe b (prune_cmds g remove elide).
Proof.
  intros Hg. unfold prune_cmds. apply safe_app.
  - apply Forall_forall. intros c Hc. apply in_map_iff in Hc as (x & <- & _). cbn. lia.
  - apply Forall_forall. intros c Hc. apply in_flat_map in Hc as ([[lit ps] ss] & _ & Hc).
    apply in_app_or in Hc as [Hc|[<-|[]]]; [|cbn; lia].
    apply in_flat_map in Hc as (x & _ & Hc). apply in_map_iff in Hc as (y & <- & _). cbn. lia.
Qed.

Lemma map_remove_safe b g l : b <= g -> safe b (map (RemoveNode g) l).
Proof. intros Hg. apply Forall_forall. intros c Hc. apply in_map_iff in Hc as (x & <- & _). cbn. lia. Qed.

Lemma render_safe h g removed groups : safe (length h) (render_cmds h g removed groups).
Proof.
  unfold render_cmds. apply safe_app; [repeat constructor|]. apply safe_app; [now apply map_remove_safe|].
  generalize (S (length h)). induction groups as [|[[sc members] new_edges] rest IH]; intros next; [constructor|].
  repeat (apply safe_app).
  - repeat constructor; cbn; lia.
  - now apply map_remove_safe.
  - apply Forall_forall. intros c Hc. apply in_map_iff in Hc as (x & <- & _). cbn. lia.
  - apply IH.
Qed.

(** ---- uberjob.run ---- *)
Lemma run_pipeline_safe h0 p r ps oc : safe (length h0) (run_pipeline false h0 p r ps oc).
Proof.
  unfold run_pipeline. cbv zeta.
  set (c1 := copy_plan_cmds h0 p). set (h1 := run h0 c1).
  destruct (copy_plan_result h0 p) as (L1 & _ & _ & G1 & _). fold c1 in L1, G1. fold h1 in L1, G1.
  set (c2 := bops_cmds h1 (S (length h0)) (out_ops ps)). set (h2 := run h1 c2).
  assert (S1 : safe (length h0) c1) by apply copy_plan_safe.
  assert (S2 : safe (length h0) c2).
  { eapply only_targets_safe; [|apply bops_targets; lia].
    intros t [->| ->]; [lia|rewrite G1; lia]. }
  assert (L2 : length h0 <= length h2).
  { unfold h2. pose proof (run_length h1 c2). lia. }
  set (c5 := prune_cmds (length h0) (prune_nodes ps) (elide ps)).
  set (c6 := map (RemoveNode (length h0)) (source_lits ps)).
  assert (S5 : safe (length h0) c5) by (apply prune_safe; lia).
  assert (S6 : safe (length h0) c6) by (apply map_remove_safe; lia).
  destruct (with_registry ps).
  - set (c3 := copy_plan_cmds h2 (S (length h0)) ++ map (RemoveNode (length h2)) (stale_lits ps)).
    assert (S3 : safe (length h0) c3).
    { apply safe_app; [apply copy_plan_safe|now apply map_remove_safe]. }
    set (h3 := run h2 c3).
    assert (L3 : length h0 <= length h3) by (unfold h3; pose proof (run_length h2 c3); lia).
    set (c4 := avs_all (length h0) (S (length h0)) (stale ps) h3 (entries_of h3 r)).
    assert (S4 : safe (length h0) c4) by (apply avs_all_safe; lia).
    clearbody c1 c2 c3 c4 c5 c6.
    destruct oc; repeat (apply safe_app); assumption.
  - clearbody c1 c2 c5 c6.
    destruct oc; repeat (apply safe_app); assumption.
Qed.

(** C13_frame: every cell that exists before the call has the same content afterwards *)
Lemma frame_run h0 p r ps oc a :
  a < length h0 -> nth_error (run h0 (run_pipeline false h0 p r ps oc)) a = nth_error h0 a.
Proof. intros Ha. eapply safe_frame; [apply run_pipeline_safe|exact Ha|lia]. Qed.

Lemma frame_render h g removed groups a :
  a < length h -> nth_error (run h (render_cmds h g removed groups)) a = nth_error h a.
Proof. intros Ha. eapply safe_frame; [apply render_safe|exact Ha|lia]. Qed.

Lemma frame g0 p r :
  (forall ps oc a, a < length g0 -> nth_error (run g0 (run_pipeline false g0 p r ps oc)) a = nth_error g0 a) /\
  (forall g removed groups a, a < length g0 -> nth_error (run g0 (render_cmds g0 g removed groups)) a = nth_error g0 a).
Proof. split; intros; [now apply frame_run|now apply frame_render]. Qed.

(** the view of the caller's objects is unchanged, so a second run reads the same input *)
Lemma view_unchanged h h' p r :
  refs_ok h p r -> (forall a, a < length h -> nth_error h' a = nth_error h a) -> view h' p r = view h p r.
Proof.
  intros (Hp & Hg & Hr & Hn & He) F. unfold view.
  assert (G : graph_of h' p = graph_of h p) by (unfold graph_of; now rewrite F).
  assert (N : gnodes h' (graph_of h p) = gnodes h (graph_of h p)) by (unfold gnodes; now rewrite F).
  assert (E : entries_of h' r = entries_of h r) by (unfold entries_of; now rewrite F).
  rewrite G, N, E, (F p Hp), (F _ Hg), (F r Hr).
  rewrite (map_ext_in (nth_error h') (nth_error h) (gnodes h (graph_of h p))) by (intros n Hin; apply F; now apply Hn).
  rewrite (map_ext_in (fun e => nth_error h' (snd e)) (fun e => nth_error h (snd e)) (entries_of h r))
    by (intros e Hin; apply F; now apply (He e Hin)).
  rewrite (map_ext_in (fun e => nth_error h' (fst e)) (fun e => nth_error h (fst e)) (entries_of h r))
    by (intros e Hin; apply F; now apply (He e Hin)).
  reflexivity.
Qed.

Lemma rerun_same_meaning h0 p r ps oc :
  refs_ok h0 p r ->
  let h1 := run h0 (run_pipeline false h0 p r ps oc) in
  view h1 p r = view h0 p r /\ refs_ok h1 p r /\
  forall ps' oc' a, a < length h0 ->
    nth_error (run h1 (run_pipeline false h1 p r ps' oc')) a = nth_error h0 a.
Proof.
  intros R h1. assert (F : forall a, a < length h0 -> nth_error h1 a = nth_error h0 a) by (intros; now apply frame_run).
  assert (L : length h0 <= length h1) by apply run_length.
  split; [now apply view_unchanged|]. split.
  - destruct R as (Hp & Hg & Hr & Hn & He).
    assert (G : graph_of h1 p = graph_of h0 p) by (unfold graph_of; now rewrite F).
    assert (N : gnodes h1 (graph_of h0 p) = gnodes h0 (graph_of h0 p)) by (unfold gnodes; now rewrite F).
    assert (E : entries_of h1 r = entries_of h0 r) by (unfold entries_of; now rewrite F).
    unfold refs_ok. rewrite G, N, E. repeat split; try lia.
    + intros n Hin. specialize (Hn n Hin). lia.
    + specialize (He e H). lia.
    + specialize (He e H). lia.
  - intros ps' oc' a Ha. rewrite frame_run by lia. now apply F.
Qed.

(** with inplace=True in run's get_mutable_plan the caller's graph is rewritten *)
Definition tiny_heap : heap := [CNode 1 []; CGraph [0] []; CPlan 1 []; CRegistry []].
Definition tiny_params : run_params :=
  {| out_ops := [BNewNode 2]; with_registry := false; stale := fun _ => false; stale_lits := [];
     prune_nodes := []; elide := []; source_lits := [] |}.

Lemma frame_inplace_refuted :
  exists h0 p r ps oc a, a < length h0 /\ refs_ok h0 p r /\
    nth_error (run h0 (run_pipeline true h0 p r ps oc)) a <> nth_error h0 a.
Proof.
  exists tiny_heap, 2, 3, tiny_params, Success, 1. split; [cbn; lia|]. split.
  - unfold refs_ok. cbn. repeat split; try lia;
      intros x Hx; repeat (destruct Hx as [Hx|Hx]; [subst; cbn; lia|]); destruct Hx.
  - vm_compute. discriminate.
Qed.

Example frame_nonvacuous :
  refs_ok tiny_heap 2 3 /\
  run tiny_heap (run_pipeline false tiny_heap 2 3 tiny_params Success) =
  tiny_heap ++ [CGraph [0; 6] []; CPlan 4 []; CNode 2 []].
Proof.
  split; [|reflexivity]. unfold refs_ok. cbn. repeat split; try lia;
    intros x Hx; repeat (destruct Hx as [Hx|Hx]; [subst; cbn; lia|]); destruct Hx.
Qed.

(** ---- Plan.copy: the copy and the original are independent under the building API ---- *)
Lemma plan_copy_independent h p ops :
  p < length h -> graph_of h p < length h ->
  let h1 := run h (copy_plan_cmds h p) in
  let pc := S (length h) in
  (* building on the copy leaves every cell of the original - plan, graph and the shared nodes - alone *)
  (forall a, a < length h -> nth_error (bops_run h1 pc ops) a = nth_error h a) /\
  (* building on the original leaves the copy's plan and graph cells alone, and every node cell *)
  (nth_error (bops_run h1 p ops) pc = nth_error h1 pc /\
   nth_error (bops_run h1 p ops) (length h) = nth_error h1 (length h) /\
   forall a, a < length h1 -> a <> p -> a <> graph_of h p -> nth_error (bops_run h1 p ops) a = nth_error h1 a).
Proof.
  intros Hp Hg h1 pc. destruct (copy_plan_result h p) as (L1 & _ & _ & G1 & F1). fold h1 in L1, G1, F1.
  split.
  - intros a Ha. unfold bops_run. rewrite (safe_frame (length h)); [now apply F1| |exact Ha|lia].
    eapply only_targets_safe; [|apply bops_targets; unfold pc; lia].
    intros t [->| ->]; [unfold pc; lia|fold pc in G1; rewrite G1; lia].
  - assert (Gp : graph_of h1 p = graph_of h p) by (unfold graph_of; now rewrite F1).
    assert (T : only_targets (fun t => t = p \/ t = graph_of h p) (bops_cmds h1 p ops)).
    { rewrite <- Gp. apply bops_targets. lia. }
    assert (A : forall a, a < length h1 -> a <> p -> a <> graph_of h p ->
                          nth_error (bops_run h1 p ops) a = nth_error h1 a).
    { intros a Ha N1 N2. unfold bops_run. apply run_frame; [|exact Ha].
      eapply only_targets_avoid; [|exact T]. intros [H|H]; contradiction. }
    split; [apply A; unfold pc; lia|]. split; [apply A; lia|exact A].
Qed.

(** ---- Registry.copy ---- *)
Lemma copy_registry_result h r :
  let h1 := run h (copy_registry_cmds true h r) in
  let n := length (entries_of h r) in
  length h1 = S (length h + n) /\
  entries_of h1 (length h + n) = combine (map fst (entries_of h r)) (seq (length h) n) /\
  forall a, a < length h -> nth_error h1 a = nth_error h a.
Proof.
  intros h1 n.
  set (cp := fun e : addr * addr => match nth_error h (snd e) with Some c => c | None => CRegVal 0 false 0 end).
  assert (E : h1 = (h ++ map cp (entries_of h r)) ++ [CRegistry (combine (map fst (entries_of h r)) (seq (length h) n))]).
  { unfold h1, copy_registry_cmds. cbv zeta. rewrite run_app.
    replace (map (fun e => Alloc (match nth_error h (snd e) with Some c => c | None => CRegVal 0 false 0 end)) (entries_of h r))
      with (map Alloc (map cp (entries_of h r))) by (rewrite map_map; reflexivity).
    rewrite run_allocs. reflexivity. }
  assert (L : length (h ++ map cp (entries_of h r)) = length h + n) by (rewrite app_length, map_length; reflexivity).
  rewrite E. split; [rewrite app_length, L; cbn; lia|]. split.
  - unfold entries_of at 1. rewrite nth_error_app2 by lia. rewrite L, Nat.sub_diag. reflexivity.
  - intros a Ha. rewrite nth_error_app1 by lia. now apply nth_error_app1.
Qed.

Lemma entries_exec h c r : r < length h ->
  entries_of (exec h c) r = match c with
                            | SetEntry r' n rv => if Nat.eq_dec r' r
                                                  then match nth_error h r with
                                                       | Some (CRegistry en) => filter (fun p => negb (fst p =? n)) en ++ [(n, rv)]
                                                       | _ => entries_of h r end
                                                  else entries_of h r
                            | _ => entries_of h r
                            end.
Proof.
  intros Hr. unfold entries_of. destruct c; cbn;
    try (match goal with |- context [update h ?t ?f] =>
           destruct (Nat.eq_dec t r) as [->|Hne];
           [rewrite update_same; destruct (nth_error h r) as [[]|]; reflexivity
           |rewrite update_other by exact Hne; reflexivity] end).
  now rewrite nth_error_app1.
Qed.

Lemma lookup_entry_in en n rv : lookup_entry en n = Some rv -> In (n, rv) en.
Proof.
  unfold lookup_entry. destruct (find (fun e => fst e =? n) en) as [[a b]|] eqn:E; [|discriminate].
  intros [= <-]. apply find_some in E as [Hin He]. cbn in He. apply Nat.eqb_eq in He. now subst.
Qed.

(** the RegistryValue cells a registry refers to all satisfy P; preserved by add / flag writes *)
Definition rv_inv (P : addr -> Prop) (h : heap) (r : addr) : Prop :=
  forall e, In e (entries_of h r) -> P (snd e).

Lemma rops_frame (P : addr -> Prop) ops : forall h r,
  r < length h -> rv_inv P h r -> (forall t, length h <= t -> P t) ->
  only_targets (fun t => t = r \/ P t) (rops_cmds h r ops).
Proof.
  induction ops as [|o rest IH]; intros h r Hr I Pfresh; cbn; [constructor|].
  apply only_targets_app.
  - destruct o as [n store fr|n b]; cbn.
    + repeat constructor; cbn; auto.
    + destruct (lookup_entry (entries_of h r) n) as [rv|] eqn:E; [|constructor].
      apply Forall_cons; [|constructor]. cbn. right. apply (I (n, rv)). now apply lookup_entry_in.
  - assert (L : length h <= length (run h (rop_cmds h r o))) by apply run_length.
    apply IH; [lia| |intros t Ht; apply Pfresh; lia].
    destruct o as [n store fr|n b].
    + (* RAdd *) intros e He. cbn in He. unfold entries_of in He. rewrite update_same in He.
      rewrite nth_error_app1 in He by exact Hr.
      destruct (nth_error h r) as [[]|] eqn:Ec; cbn in He; try contradiction.
      apply in_app_or in He as [He|[<-|[]]]; [|cbn; apply Pfresh; lia].
      apply filter_In in He as [He _]. apply I. unfold entries_of. now rewrite Ec.
    + (* RSetFlag *) unfold rop_cmds. destruct (lookup_entry (entries_of h r) n) as [rv|] eqn:E; [|exact I].
      intros e He. change (run h [SetIsSource rv b]) with (exec h (SetIsSource rv b)) in He.
      rewrite entries_exec in He by exact Hr. now apply I.
Qed.

Lemma registry_copy_independent h r ops :
  r < length h -> (forall e, In e (entries_of h r) -> snd e < length h) ->
  let h1 := run h (copy_registry_cmds true h r) in
  let rc := copied_registry true h r in
  (* add / flag writes through the copy leave every cell of the original alone *)
  (forall a, a < length h -> nth_error (rops_run h1 rc ops) a = nth_error h a) /\
  (* and through the original leave the copy's registry cell and its RegistryValue cells alone *)
  (forall a, length h <= a -> a < length h1 -> nth_error (rops_run h1 r ops) a = nth_error h1 a).
Proof.
  intros Hr He h1 rc. destruct (copy_registry_result h r) as (L1 & E1 & F1). fold h1 in L1, E1, F1.
  unfold copied_registry in rc. cbn in rc.
  split.
  - intros a Ha. unfold rops_run. rewrite (safe_frame (length h)); [now apply F1| |exact Ha|lia].
    eapply only_targets_safe; [|apply (rops_frame (fun t => length h <= t))].
    + intros t [->|Ht]; [unfold rc; lia|exact Ht].
    + unfold rc. lia.
    + intros e Hin. unfold rc in Hin. rewrite E1 in Hin.
      destruct e as [n rv]. apply in_combine_r in Hin. apply in_seq in Hin. cbn. lia.
    + intros t Ht. lia.
  - intros a Ha1 Ha2. unfold rops_run. apply run_frame; [|exact Ha2].
    eapply only_targets_avoid; [|apply (rops_frame (fun t => t < length h \/ length h1 <= t))].
    + intros [->|[H|H]]; lia.
    + lia.
    + intros e Hin. left. apply He. unfold entries_of in *. now rewrite F1 in Hin.
    + intros t Ht. now right.
Qed.

(** a copy that shares the RegistryValue objects is not independent *)
Definition reg_heap : heap := [CRegVal 7 false 0; CRegistry [(5, 0)]].

Lemma registry_copy_shared_refuted :
  exists h r ops a, a < length h /\ r < length h /\
    (forall e, In e (entries_of h r) -> snd e < length h) /\
    nth_error (rops_run (run h (copy_registry_cmds false h r)) (copied_registry false h r) ops) a <> nth_error h a.
Proof.
  exists reg_heap, 1, [RSetFlag 5 true], 0. split; [cbn; lia|]. split; [cbn; lia|]. split.
  - intros e [<-|[]]. cbn. lia.
  - vm_compute. discriminate.
Qed.

Example registry_copy_nonvacuous :
  rops_run (run reg_heap (copy_registry_cmds true reg_heap 1)) (copied_registry true reg_heap 1)
           [RSetFlag 5 true; RAdd 9 8 0] =
  reg_heap ++ [CRegVal 7 true 0; CRegistry [(5, 2); (9, 4)]; CRegVal 8 false 0].
Proof. reflexivity. Qed.
