From Coq Require Import List Arith Bool Lia.
Import ListNotations.
From UJ Require Import Obs.Traceback.

Lemma capture_frames fuel stack : sframes (capture fuel stack) = firstn fuel stack.
Proof.
  revert stack; induction fuel as [|k IH]; intros [|f rest]; cbn; try reflexivity.
  now rewrite IH.
Qed.

Lemma capture_truncated fuel stack : struncated (capture fuel stack) = (fuel <? length stack).
Proof.
  revert stack; induction fuel as [|k IH]; intros [|f rest]; cbn; try reflexivity.
  rewrite IH. reflexivity.
Qed.

(** The user's frame and everything below it. *)
Lemma skipn_app_exact {A} (l1 l2 : list A) : skipn (length l1) (l1 ++ l2) = l2.
Proof. induction l1; cbn; auto. Qed.

Lemma head_is_user_line_gen (e : entry) (internal : list frame) (u : frame) (below : list frame) :
  length internal = initial_depth e ->
  exists s, get_stack_frame (initial_depth e) (internal ++ u :: below) = Some s /\
            shead s = Some u /\
            sframes s = firstn (S MAX_TRACEBACK_DEPTH) (u :: below) /\
            struncated s = (S MAX_TRACEBACK_DEPTH <? length (u :: below)).
Proof.
  intros Hlen. unfold get_stack_frame.
  assert (Hlt : (length (internal ++ u :: below) <? initial_depth e) = false).
  { apply Nat.ltb_ge. rewrite app_length, Hlen. lia. }
  rewrite Hlt, <- Hlen, skipn_app_exact.
  eexists; split; [reflexivity|]. repeat split.
  - apply capture_frames.
  - apply capture_truncated.
Qed.

(** Full statement for every entry point on the fixed tree: the internal frames of each entry
    point are exactly what get_stack_frame skips. *)
Lemma head_is_user_line (e : entry) (internal : list frame) (u : frame) (below : list frame) :
  length internal = internal_frames true e ->
  exists s, captured true e (internal ++ u :: below) = Some s /\ shead s = Some u.
Proof.
  intros Hlen.
  destruct (head_is_user_line_gen e internal u below) as (s & H1 & H2 & _).
  - rewrite Hlen. destruct e; reflexivity.
  - exists s; split; assumption.
Qed.

(** Before the fix: run(output=...) called plan.gather, so one extra uberjob frame sat on the stack
    and the captured head was run()'s own frame. *)
Lemma head_is_user_line_prefix_refuted :
  exists (internal : list frame) (u : frame) (below : list frame),
    length internal = internal_frames false ERunOutput /\
    exists s, captured false ERunOutput (internal ++ u :: below) = Some s /\ shead s <> Some u.
Proof.
  exists [ {| fname := 1; fpath := 1; fline := 93 |}; {| fname := 2; fpath := 2; fline := 120 |};
           {| fname := 3; fpath := 3; fline := 144 |} ],
         {| fname := 4; fpath := 4; fline := 7 |}, [].
  split; [reflexivity|]. eexists; split; [reflexivity|]. cbn. discriminate.
Qed.

Lemma depth_limit (e : entry) (internal : list frame) (u : frame) (below : list frame) :
  length internal = internal_frames true e ->
  exists s, captured true e (internal ++ u :: below) = Some s /\
    sframes s = firstn 4 (u :: below) /\
    length (sframes s) <= 4 /\
    (struncated s = true <-> 4 < length (u :: below)).
Proof.
  intros Hlen.
  destruct (head_is_user_line_gen e internal u below) as (s & H1 & _ & H3 & H4).
  - rewrite Hlen. destruct e; reflexivity.
  - exists s. split; [exact H1|]. split; [exact H3|]. split.
    + rewrite H3. rewrite firstn_length. apply Nat.le_min_l.
    + rewrite H4. unfold MAX_TRACEBACK_DEPTH. apply Nat.ltb_lt.
Qed.

(** Rendering: outermost first, i.e. the reverse of the captured chain, truncated marker first. *)
Lemma render_outermost_first (s : sframe) :
  render (fun _ => false) s =
  (if struncated s then [RTrunc] else []) ++ map RFrame (rev (sframes s)).
Proof.
  unfold render. induction s as [| |f o IH]; cbn; try reflexivity.
  rewrite IH. rewrite map_app. cbn. rewrite app_assoc. reflexivity.
Qed.

Lemma failing_call_frame (p : phase) :
  frame_origin (failing_call p) =
  match p with
  | StaleCheck n => CreatedAt n
  | RunNode (Orig n) => CreatedAt n
  | RunNode (ReadOf n) => RegisteredAt n
  | RunNode (WriteOf n) => RegisteredAt n
  end.
Proof. destruct p as [n|[n|n|n]]; reflexivity. Qed.

Example nonvacuous :
  exists s, captured true ECall
    ([ {| fname := 1; fpath := 1; fline := 93 |}; {| fname := 2; fpath := 2; fline := 80 |} ] ++
      {| fname := 9; fpath := 9; fline := 5 |} ::
      [ {| fname := 8; fpath := 9; fline := 15 |}; {| fname := 7; fpath := 9; fline := 25 |};
        {| fname := 6; fpath := 9; fline := 35 |}; {| fname := 5; fpath := 9; fline := 45 |} ]) = Some s
    /\ struncated s = true /\ length (sframes s) = 4.
Proof. eexists; split; [reflexivity|]. split; reflexivity. Qed.
