(** Model of the notifications one uberjob.run emits (_run.py, caching.py: _update_stale_totals /
    process_with_callbacks, run_physical.py: process) as a function of the plans and of the engine
    traces of the two passes; and of CompositeProgressObserver (ExitStack).  Definitions only. *)
From Coq Require Import List Arith ZArith Bool.
Import ListNotations.
From UJ Require Import Obs.Progress.
Local Open Scope Z_scope.

(** A symbolic call as far as progress is concerned: the user scope it was created in, the fully
    qualified name of its function, and the class name of its value store if it is in the registry. *)
Record callinfo := { c_scope : list nat; c_fn : nat; c_store : option nat }.

Inductive nodekind := NCall (c : callinfo) | NLit.

(** a plan = its nodes in graph order (ids are distinct) *)
Definition plan := list (nat * nodekind).

(** get_full_call_scope / _get_stale_scope *)
Definition run_scope (c : callinfo) : scope := c_scope c ++ [c_fn c].
Definition stale_scope (c : callinfo) : scope :=
  run_scope c ++ match c_store c with Some s => [s] | None => [] end.

Definition call_scopes (f : callinfo -> scope) (p : plan) : list scope :=
  flat_map (fun nk => match snd nk with NCall c => [f c] | NLit => [] end) p.

Fixpoint node_scope (f : callinfo -> scope) (p : plan) (n : nat) : option scope :=
  match p with
  | [] => None
  | (n', k) :: r => if Nat.eqb n n' then match k with NCall c => Some (f c) | NLit => None end
                    else node_scope f r n
  end.

(** collections.Counter over the scopes, in first-occurrence order *)
Fixpoint count_add (s : scope) (acc : list (scope * Z)) : list (scope * Z) :=
  match acc with
  | [] => [(s, 1)]
  | (s', n) :: r => if scope_eqb s s' then (s', n + 1) :: r else (s', n) :: count_add s r
  end.

Definition counter (l : list scope) : list (scope * Z) := fold_left (fun acc s => count_add s acc) l [].

Definition totals (sec : nat) (l : list scope) : list note :=
  map (fun sn => Total (sec, fst sn) (snd sn)) (counter l).

(** what the engine (run_function_on_graph) did in one pass: it called the callback on some nodes,
    each call ending normally or with an Exception *)
Inductive eev := EStart (n : nat) | EEnd (n : nat) (ok : bool).

Definition pass_notes (sec : nat) (f : callinfo -> scope) (p : plan) (e : eev) : list note :=
  match e with
  | EStart n => match node_scope f p n with Some sc => [Running (sec, sc)] | None => [] end
  | EEnd n ok => match node_scope f p n with
                 | Some sc => [if ok then Completed (sec, sc) else Failed (sec, sc)]
                 | None => []
                 end
  end.

Definition emit_pass (sec : nat) (f : callinfo -> scope) (p : plan) (tr : list eev) : list note :=
  flat_map (pass_notes sec f p) tr.

Definition has_failure (tr : list eev) : bool :=
  existsb (fun e => match e with EEnd _ false => true | _ => false end) tr.

Record runcfg := {
  has_registry : bool;          (* `if registry:` *)
  logical : plan;               (* the plan after the output gather *)
  stale_trace : list eev;       (* engine trace of _get_stale_nodes (over the logical plan) *)
  other_raises : bool;          (* an exception between the stale pass and the run totals
                                   (_add_value_store, prune_plan, transform_physical) *)
  physical : plan;              (* the plan handed to _update_run_totals / run_physical *)
  dry_run : bool;
  run_trace : list eev }.       (* engine trace of run_physical *)

Definition stale_part (c : runcfg) : list note :=
  if has_registry c
  then totals 0 (call_scopes stale_scope (logical c)) ++ emit_pass 0 stale_scope (logical c) (stale_trace c)
  else [].

Definition run_part (c : runcfg) : list note :=
  if (has_registry c && has_failure (stale_trace c)) || other_raises c then []
  else totals 1 (call_scopes run_scope (physical c)) ++
       (if dry_run c then [] else emit_pass 1 run_scope (physical c) (run_trace c)).

(** `with progress_observer:` — Enter first, Exit in every outcome *)
Definition emit (c : runcfg) : list note := Enter :: (stale_part c ++ run_part c) ++ [Exit].

(** ** hypothesis on engine traces (provided by the engine theorems C04/C01/C07): the trace is an
    interleaving of [EStart n; EEnd n _] pairs of distinct nodes of the graph *)
Definition starts (tr : list eev) : list nat :=
  flat_map (fun e => match e with EStart n => [n] | _ => [] end) tr.
Definition ends (tr : list eev) : list nat :=
  flat_map (fun e => match e with EEnd n _ => [n] | _ => [] end) tr.
Definition ends_ok (tr : list eev) : list nat :=
  flat_map (fun e => match e with EEnd n true => [n] | _ => [] end) tr.

Fixpoint nat_mem (n : nat) (l : list nat) : bool :=
  match l with [] => false | x :: r => Nat.eqb n x || nat_mem n r end.

(** history most recent first *)
Fixpoint trace_ok_rev (ids : list nat) (h : list eev) : bool :=
  match h with
  | [] => true
  | EStart n :: p => trace_ok_rev ids p && nat_mem n ids && negb (nat_mem n (starts p))
  | EEnd n _ :: p => trace_ok_rev ids p && nat_mem n (starts p) && negb (nat_mem n (ends p))
  end.

Definition trace_ok (p : plan) (tr : list eev) : Prop :=
  trace_ok_rev (map fst p) (rev tr) = true /\ (forall n, In n (starts tr) -> In n (ends tr)).

Definition plan_ok (p : plan) : Prop := NoDup (map fst p).

(** * CompositeProgressObserver: __enter__ uses an ExitStack *)
Inductive mev :=
| MEnter (i : nat)            (* member i's __enter__ returned *)
| MEnterRaised (i : nat)      (* member i's __enter__ raised *)
| MNote (i : nat) (n : note)  (* member i received notification n *)
| MExit (i : nat).            (* member i's __exit__ was called *)

(** enter members [i, i+1, ...]; [entered] = members entered so far, most recent first.
    Returns the events and, if every enter succeeded, the exit stack. *)
Fixpoint enter_all (i : nat) (raises : list bool) (entered : list nat) : list mev * option (list nat) :=
  match raises with
  | [] => ([], Some entered)
  | r :: rest =>
      if r then (MEnterRaised i :: map MExit entered, None)
      else let (evs, res) := enter_all (S i) rest (i :: entered) in (MEnter i :: evs, res)
  end.

(** a whole `with composite:` whose body delivers the notifications [body] *)
Definition composite_run (raises : list bool) (body : list note) : list mev :=
  let (evs, res) := enter_all 0 raises [] in
  match res with
  | None => evs                  (* __enter__ raised: the with-body and __exit__ do not run *)
  | Some stack =>
      evs ++ flat_map (fun n => map (fun i => MNote i n) (seq 0 (length raises))) body ++ map MExit stack
  end.

Definition member_view (i : nat) (l : list mev) : list mev :=
  filter (fun e => match e with
                   | MEnter j | MEnterRaised j | MExit j | MNote j _ => Nat.eqb i j
                   end) l.
