(** Which results are reachable from uberjob's own objects in every reachable state of a run. *)
From Coq Require Import List Arith Bool Lia.
Import ListNotations.
From UJ Require Import Obs.RefGraph.

Lemma mem_In n l : mem n l = true <-> In n l.
Proof.
  unfold mem. rewrite existsb_exists. split.
  - intros (x & Hx & He). apply Nat.eqb_eq in He. now subst.
  - intros H. exists n. split; [exact H|apply Nat.eqb_refl].
Qed.

Lemma mem_cons n x l : mem n (x :: l) = (n =? x) || mem n l.
Proof. reflexivity. Qed.

Lemma mem_remove x c l : mem x (remove_nat c l) = true -> x <> c /\ mem x l = true.
Proof.
  induction l as [|y r IH]; [discriminate|]. cbn [remove_nat]. rewrite mem_cons.
  destruct (Nat.eqb_spec y c) as [->|Hne].
  - intros H. destruct (IH H) as [H1 H2]. split; [exact H1|]. rewrite H2. apply orb_true_r.
  - rewrite mem_cons. intros H. apply orb_true_iff in H as [H|H].
    + apply Nat.eqb_eq in H. subst. split; [exact Hne|]. now rewrite Nat.eqb_refl.
    + destruct (IH H) as [H1 H2]. split; [exact H1|]. rewrite H2. apply orb_true_r.
Qed.

(** ---- invariant of reachable states ---- *)
Definition inv (g : rgraph) (s : state) : Prop :=
  forall c, mem c (inflight s) = true ->
            finished s c = false /\ c < ncalls g /\ forall a, In a (cargs g c) -> mem a (fin_ok s) = true.

Lemma inv_init g : inv g init.
Proof. intros c H. discriminate. Qed.

Lemma inv_step g s e s' : inv g s -> step g s e = Some s' -> inv g s'.
Proof.
  intros I H. destruct e as [c|c|c]; cbn [step] in H.
  - destruct (_ && _) eqn:G; [|discriminate]. inversion H; subst; clear H.
    apply andb_true_iff in G as [G G4]. apply andb_true_iff in G as [G G3]. apply andb_true_iff in G as [G1 G2].
    intros x Hx. cbn [inflight] in Hx. rewrite mem_cons in Hx. apply orb_true_iff in Hx as [Hx|Hx].
    + apply Nat.eqb_eq in Hx. subst x. unfold finished. cbn [fin_ok fin_fail].
      split; [now apply negb_true_iff in G2|]. split; [now apply Nat.ltb_lt|].
      intros a Ha. rewrite forallb_forall in G4. now apply G4.
    + exact (I x Hx).
  - destruct (mem c (inflight s)) eqn:G; [|discriminate]. inversion H; subst; clear H.
    intros x Hx. cbn [inflight] in Hx. apply mem_remove in Hx as [Hne Hx]. destruct (I x Hx) as (F & L & A).
    unfold finished in *. cbn [fin_ok fin_fail]. rewrite mem_cons. split; [|split; [exact L|]].
    + destruct (Nat.eqb_spec x c); [contradiction|exact F].
    + intros a Ha. rewrite mem_cons, (A a Ha). apply orb_true_r.
  - destruct (mem c (inflight s)) eqn:G; [|discriminate]. inversion H; subst; clear H.
    intros x Hx. cbn [inflight] in Hx. apply mem_remove in Hx as [Hne Hx]. destruct (I x Hx) as (F & L & A).
    unfold finished in *. cbn [fin_ok fin_fail]. rewrite mem_cons. split; [|split; [exact L|exact A]].
    destruct (Nat.eqb_spec x c); [contradiction|]. cbn [orb]. exact F.
Qed.

Lemma inv_run g es : forall s s', inv g s -> run_events g s es = Some s' -> inv g s'.
Proof.
  induction es as [|e r IH]; intros s s' I H; cbn in H.
  - now inversion H; subst.
  - destruct (step g s e) as [s1|] eqn:E; [|discriminate]. eapply IH; [|exact H]. eapply inv_step; eauto.
Qed.

Lemma valid_inv g s : valid g s -> inv g s.
Proof. intros (es & H). eapply inv_run; [apply inv_init|exact H]. Qed.

(** ---- closed form of reachability (current code: fixed = true) ---- *)
Definition expected (g : rgraph) (s : state) (o : obj) : Prop :=
  match o with
  | Lookup | OutRoot => True
  | Frame c => mem c (inflight s) = true
  | SlotBC c => c < ncalls g
  | BC c => finished s c = false /\ c < ncalls g
  | RS c => anchored g s c \/ (finished s c = false /\ c < ncalls g)
  | Res c => live g s c
  end.

Lemma hs_snoc g q c b : holds_star g q c -> In b (holds g c) -> holds_star g q b.
Proof.
  induction 1 as [q|q c' p Hin _ IH]; intros Hb.
  - eapply hs_step; [exact Hb|apply hs_refl].
  - eapply hs_step; [exact Hin|now apply IH].
Qed.

Lemma finished_ok s c : mem c (fin_ok s) = true -> finished s c = true.
Proof. intros H. unfold finished. now rewrite H. Qed.

Lemma reach_expected g s o : inv g s -> reach true g s o -> expected g s o.
Proof.
  intros I H. induction H as [o Hr|o o' _ IH Hin].
  - destruct o; cbn in *; auto; contradiction.
  - destruct o as [| |c|c|c|c|c]; cbn in Hin.
    + apply in_map_iff in Hin as (c & <- & Hc). cbn. apply in_seq in Hc. lia.
    + destruct (out g) as [o|] eqn:Eo; [|destruct Hin]. destruct Hin as [<-|[]]. cbn. left. now left.
    + cbn in IH. destruct (I c IH) as (F & L & A). destruct Hin as [<-|Hin]; [cbn; auto|].
      apply in_map_iff in Hin as (a & <- & Ha). cbn. exists a. split; [now apply A|]. split; [|apply hs_refl].
      right. exists c. split; [split; assumption|exact F].
    + cbn in IH. cbn [andb] in Hin. destruct (finished s c) eqn:F; [destruct Hin|].
      destruct Hin as [<-|[]]. cbn. auto.
    + cbn in IH. destruct IH as [F L]. destruct Hin as [<-|Hin]; [cbn; right; auto|].
      apply in_map_iff in Hin as (a & <- & Ha). cbn. left. right. exists c. split; [split; assumption|exact F].
    + destruct (mem c (fin_ok s)) eqn:Ok; [|destruct Hin]. destruct Hin as [<-|[]]. cbn in IH |- *.
      destruct IH as [An|[F _]].
      * exists c. split; [exact Ok|]. split; [exact An|apply hs_refl].
      * rewrite (finished_ok s c Ok) in F. discriminate.
    + apply in_map_iff in Hin as (b & <- & Hb). cbn in IH |- *. destruct IH as (q & Ok & An & Hs).
      exists q. split; [exact Ok|]. split; [exact An|]. eapply hs_snoc; eauto.
Qed.

Lemma anchored_reach g s q : anchored g s q -> reach true g s (RS q).
Proof.
  intros [Ho|(d & [Ld Hin] & F)].
  - eapply reach_step; [apply (reach_root true g s OutRoot); exact I|]. cbn. rewrite Ho. now left.
  - assert (R1 : reach true g s (SlotBC d)).
    { eapply reach_step; [apply (reach_root true g s Lookup); exact I|]. cbn. apply in_map. apply in_seq. lia. }
    assert (R2 : reach true g s (BC d)).
    { eapply reach_step; [exact R1|]. cbn. rewrite F. now left. }
    eapply reach_step; [exact R2|]. cbn. right. now apply in_map.
Qed.

Lemma live_reach g s p : live g s p -> reach true g s (Res p).
Proof.
  intros (q & Ok & An & Hs).
  assert (R : reach true g s (Res q)).
  { eapply reach_step; [apply anchored_reach; exact An|]. cbn. rewrite Ok. now left. }
  clear Ok An. induction Hs as [q|q c p Hin _ IH]; [exact R|].
  apply IH. eapply reach_step; [exact R|]. cbn. now apply in_map.
Qed.

Lemma reach_res_iff g s p : valid g s -> (reach true g s (Res p) <-> live g s p).
Proof.
  intros V. split; [|apply live_reach]. intros R. exact (reach_expected g s (Res p) (valid_inv g s V) R).
Qed.

(** ---- the property ---- *)
Lemma released g s p :
  valid g s -> finished s p = true -> out g <> Some p ->
  (forall d, consumer g d p -> finished s d = true) ->
  ~ reach true g s (RS p) /\
  (reach true g s (Res p) ->
   exists q, q <> p /\ mem q (fin_ok s) = true /\ anchored g s q /\ holds_star g q p) /\
  ((forall q, holds g q = []) -> ~ reach true g s (Res p)).
Proof.
  intros V F Ho Hc. pose proof (valid_inv g s V) as I.
  assert (NA : ~ anchored g s p).
  { intros [H|(d & Hd & Fd)]; [contradiction|]. rewrite (Hc d Hd) in Fd. discriminate. }
  assert (B : reach true g s (Res p) ->
              exists q, q <> p /\ mem q (fin_ok s) = true /\ anchored g s q /\ holds_star g q p).
  { intros R. apply (reach_expected g s _ I) in R. cbn in R. destruct R as (q & Ok & An & Hs).
    exists q. split; [|auto]. intros ->. contradiction. }
  split; [|split; [exact B|]].
  - intros R. apply (reach_expected g s _ I) in R. cbn in R. destruct R as [An|[F' _]]; [contradiction|congruence].
  - intros Hh R. destruct (B R) as (q & Hne & _ & _ & Hs). destruct Hs as [q|q c p' Hin _]; [congruence|].
    rewrite Hh in Hin. destruct Hin.
Qed.

Lemma retained g s p :
  valid g s -> mem p (fin_ok s) = true ->
  (out g = Some p \/ exists d, consumer g d p /\ finished s d = false) ->
  reach true g s (RS p) /\ reach true g s (Res p).
Proof.
  intros V Ok An. split; [now apply anchored_reach|]. apply live_reach. exists p.
  split; [exact Ok|]. split; [exact An|apply hs_refl].
Qed.

(** ---- the executable closed form ---- *)
Lemma anchored_b_iff g s q : anchored_b g s q = true <-> anchored g s q.
Proof.
  unfold anchored_b, anchored. rewrite orb_true_iff, existsb_exists. split.
  - intros [H|(d & Hd & H)].
    + left. destruct (out g) as [o|]; [|discriminate]. apply Nat.eqb_eq in H. now subst.
    + right. apply andb_true_iff in H as [H1 H2]. exists d. split; [split|].
      * apply in_seq in Hd. lia.
      * now apply mem_In.
      * now apply negb_true_iff in H2.
  - intros [H|(d & [Ld Hin] & F)].
    + left. rewrite H. apply Nat.eqb_refl.
    + right. exists d. split; [apply in_seq; lia|]. apply andb_true_iff. split; [now apply mem_In|now rewrite F].
Qed.

Lemma live_fuel_S g s k p :
  live_fuel g s (S k) p =
  (mem p (fin_ok s) && anchored_b g s p)
  || existsb (fun q => mem p (holds g q) && live_fuel g s k q) (seq (S p) (ncalls g - S p)).
Proof. reflexivity. Qed.

Lemma live_fuel_sound g s fuel : forall p, live_fuel g s fuel p = true -> live g s p.
Proof.
  induction fuel as [|k IH]; intros p; [discriminate|]. rewrite live_fuel_S.
  rewrite orb_true_iff, existsb_exists. intros [H|(q & _ & H)].
  - apply andb_true_iff in H as [Ok An]. exists p. split; [exact Ok|]. split; [now apply anchored_b_iff|apply hs_refl].
  - apply andb_true_iff in H as [Hm Hl]. destruct (IH q Hl) as (q0 & Ok & An & Hs).
    exists q0. split; [exact Ok|]. split; [exact An|]. eapply hs_snoc; [exact Hs|now apply mem_In].
Qed.

Lemma live_fuel_complete g s :
  holds_wf g -> forall q p, holds_star g q p ->
  (forall fuel, ncalls g - q < fuel -> live_fuel g s fuel q = true) ->
  forall fuel, ncalls g - p < fuel -> live_fuel g s fuel p = true.
Proof.
  intros W q p Hs. induction Hs as [q|q c p Hin _ IH]; intros Hq; [exact Hq|].
  apply IH. intros fuel Hf. destruct (W q c Hin) as [Hc Hn].
  destruct fuel as [|k]; [lia|]. rewrite live_fuel_S. apply orb_true_iff. right. apply existsb_exists.
  exists q. split; [apply in_seq; lia|]. apply andb_true_iff. split; [now apply mem_In|].
  apply Hq. lia.
Qed.

Lemma live_b_iff g s p : holds_wf g -> (live_b g s p = true <-> live g s p).
Proof.
  intros W. split; [apply live_fuel_sound|].
  intros (q & Ok & An & Hs). unfold live_b.
  apply (live_fuel_complete g s W q p Hs); [|lia].
  intros fuel Hf. destruct fuel as [|k]; [lia|]. rewrite live_fuel_S, Ok. cbn [andb].
  apply orb_true_iff. left. now apply anchored_b_iff.
Qed.

Lemma live_iff g s p :
  valid g s -> holds_wf g -> (reach true g s (Res p) <-> live_b g s p = true).
Proof. intros V W. rewrite (reach_res_iff g s p V). symmetry. now apply live_b_iff. Qed.

(** ---- without the [finally: bound_call.value = None] results are kept for the whole run ---- *)
Definition chain2 : rgraph :=
  {| ncalls := 2; cargs := fun c => match c with 1 => [0] | _ => [] end; out := None; holds := fun _ => [] |}.
Definition chain2_done : state := {| fin_ok := [1; 0]; fin_fail := []; inflight := [] |}.

Lemma chain2_valid : valid chain2 chain2_done.
Proof. exists [Start 0; EndOk 0; Start 1; EndOk 1]. reflexivity. Qed.

Lemma released_needs_finally :
  exists g s p, valid g s /\ finished s p = true /\ out g <> Some p /\
                (forall d, consumer g d p -> finished s d = true) /\
                reach false g s (RS p) /\ reach false g s (Res p).
Proof.
  exists chain2, chain2_done, 0. split; [apply chain2_valid|]. split; [reflexivity|]. split; [discriminate|].
  split.
  - intros d [Hd Hin]. destruct d as [|[|d]]; cbn in *; try lia; try reflexivity; try contradiction.
  - assert (R0 : reach false chain2 chain2_done Lookup) by (apply reach_root; exact I).
    assert (R1 : reach false chain2 chain2_done (SlotBC 1)) by (apply (reach_step _ _ _ Lookup); [exact R0|cbn; auto]).
    assert (R2 : reach false chain2 chain2_done (BC 1)) by (apply (reach_step _ _ _ (SlotBC 1)); [exact R1|cbn; auto]).
    assert (R : reach false chain2 chain2_done (RS 0)) by (apply (reach_step _ _ _ (BC 1)); [exact R2|cbn; auto]).
    split; [exact R|]. apply (reach_step _ _ _ (RS 0)); [exact R|cbn; auto].
Qed.

(** ---- non-vacuity: a diamond whose output is the structure [a; d] gathered by call 4 ---- *)
Definition diamond : rgraph :=
  {| ncalls := 5;
     cargs := fun c => match c with 1 => [0] | 2 => [0] | 3 => [1; 2] | 4 => [0; 3] | _ => [] end;
     out := Some 4;
     holds := fun c => match c with 4 => [0; 3] | _ => [] end |}.

Definition diamond_mid : state := {| fin_ok := [3; 2; 1; 0]; fin_fail := []; inflight := [] |}.
Definition diamond_end : state := {| fin_ok := [4; 3; 2; 1; 0]; fin_fail := []; inflight := [] |}.

Example diamond_valid :
  valid diamond diamond_mid /\ valid diamond diamond_end /\ holds_wf diamond.
Proof.
  split; [exists [Start 0; EndOk 0; Start 1; EndOk 1; Start 2; EndOk 2; Start 3; EndOk 3]; reflexivity|].
  split; [exists [Start 0; EndOk 0; Start 1; EndOk 1; Start 2; EndOk 2; Start 3; EndOk 3; Start 4; EndOk 4]; reflexivity|].
  intros q c H. destruct q as [|[|[|[|[|q]]]]]; cbn in H; try contradiction.
  destruct H as [<-|[<-|[]]]; cbn; lia.
Qed.

(* before the gather call ran: 1 and 2 are released (their consumer 3 finished), 0 and 3 are kept for call 4;
   at the end: 0 and 3 survive only inside the output object *)
Example diamond_live :
  map (live_b diamond diamond_mid) [0; 1; 2; 3; 4] = [true; false; false; true; false] /\
  map (live_b diamond diamond_end) [0; 1; 2; 3; 4] = [true; false; false; true; true].
Proof. split; reflexivity. Qed.

Example diamond_released_hyps :
  finished diamond_mid 1 = true /\ out diamond <> Some 1 /\
  (forall d, consumer diamond d 1 -> finished diamond_mid d = true).
Proof.
  split; [reflexivity|]. split; [discriminate|]. intros d [Hd Hin].
  destruct d as [|[|[|[|[|d]]]]]; cbn in *; try lia; try reflexivity; try contradiction;
    try (destruct Hin as [H|[H|[]]]; discriminate).
Qed.
