(** Proofs about Obs/Notify.v: the notifications of a run are well-formed for every engine trace, the
    counts on success, and the forwarding discipline of the composite observer. *)
From Coq Require Import List Arith ZArith Bool Lia.
Import ListNotations.
From UJ Require Import Obs.Progress Obs.ProgressProofs Obs.Notify.
Local Open Scope Z_scope.

(** * counting functions are additive and order-insensitive *)
Lemma ntot_app k a b : ntot k (a ++ b) = ntot k a + ntot k b.
Proof. induction a as [|e a IH]; cbn; [lia|]. destruct e; cbn; rewrite ?IH; lia. Qed.
Lemma nrun_app k a b : nrun k (a ++ b) = nrun k a + nrun k b.
Proof. induction a as [|e a IH]; cbn; [lia|]. destruct e; cbn; rewrite ?IH; lia. Qed.
Lemma ncompl_app k a b : ncompl k (a ++ b) = ncompl k a + ncompl k b.
Proof. induction a as [|e a IH]; cbn; [lia|]. destruct e; cbn; rewrite ?IH; lia. Qed.
Lemma nfail_app k a b : nfail k (a ++ b) = nfail k a + nfail k b.
Proof. induction a as [|e a IH]; cbn; [lia|]. destruct e; cbn; rewrite ?IH; lia. Qed.
Lemma sec_started_app s a b : sec_started s (a ++ b) = sec_started s a || sec_started s b.
Proof. induction a as [|e a IH]; cbn; [reflexivity|]. destruct e; cbn; rewrite ?IH; auto using orb_assoc. Qed.

Lemma ntot_rev k a : ntot k (rev a) = ntot k a.
Proof. induction a as [|e a IH]; cbn; [reflexivity|]. rewrite ntot_app, IH. destruct e; cbn; lia. Qed.
Lemma nrun_rev k a : nrun k (rev a) = nrun k a.
Proof. induction a as [|e a IH]; cbn; [reflexivity|]. rewrite nrun_app, IH. destruct e; cbn; lia. Qed.
Lemma ncompl_rev k a : ncompl k (rev a) = ncompl k a.
Proof. induction a as [|e a IH]; cbn; [reflexivity|]. rewrite ncompl_app, IH. destruct e; cbn; lia. Qed.
Lemma nfail_rev k a : nfail k (rev a) = nfail k a.
Proof. induction a as [|e a IH]; cbn; [reflexivity|]. rewrite nfail_app, IH. destruct e; cbn; lia. Qed.
Lemma sec_started_rev s a : sec_started s (rev a) = sec_started s a.
Proof.
  induction a as [|e a IH]; cbn; [reflexivity|]. rewrite sec_started_app, IH. destruct e; cbn; rewrite ?orb_false_r; auto.
  apply orb_comm.
Qed.

(** * well-formedness of a history put on top of an earlier one *)
Fixpoint wf_on (so : bool) (base h : list note) : bool :=
  match h with
  | [] => true
  | e :: p => wf_on so base p && ok_next so (p ++ base) e
  end.

Lemma wf_rev_app so h2 h1 : wf_rev so (h2 ++ h1) = wf_rev so h1 && wf_on so h1 h2.
Proof.
  induction h2 as [|e p IH]; cbn; [now rewrite andb_true_r|]. rewrite IH. now rewrite andb_assoc.
Qed.

Lemma wf_on_app so base h2 h1 : wf_on so base (h2 ++ h1) = wf_on so base h1 && wf_on so (h1 ++ base) h2.
Proof.
  induction h2 as [|e p IH]; cbn; [now rewrite andb_true_r|]. rewrite IH, <- app_assoc. now rewrite andb_assoc.
Qed.

(** notifications that all belong to one section *)
Definition in_sec (s : nat) (e : note) : bool :=
  match e with
  | Total k _ | Running k | Completed k | Failed k => Nat.eqb (fst k) s
  | Enter | Exit => false
  end.

Lemma other_sec_zero s s' l sc :
  forallb (in_sec s') l = true -> s <> s' ->
  ntot (s, sc) l = 0 /\ nrun (s, sc) l = 0 /\ ncompl (s, sc) l = 0 /\ nfail (s, sc) l = 0 /\ sec_started s l = false.
Proof.
  intros H Hne. induction l as [|e l IH]; cbn; [tauto|]. cbn in H. apply andb_true_iff in H as [He Hl].
  destruct (IH Hl) as (A & B & C & D & E).
  assert (Hk : forall k : key, Nat.eqb (fst k) s' = true -> key_eqb (s, sc) k = false /\ Nat.eqb (fst k) s = false).
  { intros [s2 sc2] Hs. cbn in Hs. apply Nat.eqb_eq in Hs. subst s2. unfold key_eqb; cbn.
    assert (Nat.eqb s s' = false) by now apply Nat.eqb_neq.
    assert (Nat.eqb s' s = false) by (apply Nat.eqb_neq; congruence). rewrite H, H0. tauto. }
  destruct e as [|k a|k|k|k|]; cbn in He; try discriminate; destruct (Hk k He) as [K1 K2]; rewrite ?K1, ?K2; cbn;
    repeat split; try assumption; lia.
Qed.

(** * Counter *)
Fixpoint zcount (sc : scope) (l : list scope) : Z :=
  match l with [] => 0 | s :: r => (if scope_eqb sc s then 1 else 0) + zcount sc r end.

Fixpoint ctot (sc : scope) (acc : list (scope * Z)) : Z :=
  match acc with [] => 0 | (s, n) :: r => (if scope_eqb sc s then n else 0) + ctot sc r end.

Lemma scope_eqb_refl s : scope_eqb s s = true.
Proof. now apply scope_eqb_eq. Qed.

Lemma ctot_count_add sc s acc : ctot sc (count_add s acc) = ctot sc acc + (if scope_eqb sc s then 1 else 0).
Proof.
  induction acc as [|[s' n] acc IH]; cbn.
  - destruct (scope_eqb sc s); lia.
  - destruct (scope_eqb s s') eqn:E; cbn.
    + apply scope_eqb_eq in E. subst s'. destruct (scope_eqb sc s); lia.
    + rewrite IH. lia.
Qed.

Lemma ctot_fold sc l acc : ctot sc (fold_left (fun a s => count_add s a) l acc) = ctot sc acc + zcount sc l.
Proof.
  revert acc. induction l as [|s l IH]; intros acc; cbn; [lia|]. rewrite IH, ctot_count_add. lia.
Qed.

Lemma count_add_pos s acc : (forall x, In x acc -> 0 < snd x) -> forall x, In x (count_add s acc) -> 0 < snd x.
Proof.
  induction acc as [|[s' n] acc IH]; cbn; intros H x Hx.
  - destruct Hx as [<-|[]]. cbn. lia.
  - destruct (scope_eqb s s'); cbn in Hx.
    + destruct Hx as [<-|Hx]; [cbn; specialize (H (s', n) (or_introl eq_refl)); cbn in H; lia|apply H; now right].
    + destruct Hx as [<-|Hx]; [apply H; now left|]. apply IH; [intros y Hy; apply H; now right|assumption].
Qed.

Lemma counter_pos l x : In x (counter l) -> 0 < snd x.
Proof.
  unfold counter. assert (G : forall acc, (forall x, In x acc -> 0 < snd x) ->
      forall x, In x (fold_left (fun a s => count_add s a) l acc) -> 0 < snd x).
  { induction l as [|s l IH]; cbn; intros acc H y Hy; [now apply H|]. eapply IH; [|exact Hy]. now apply count_add_pos. }
  apply G. intros y [].
Qed.

Lemma totals_in_sec sec l : forallb (in_sec sec) (totals sec l) = true.
Proof. unfold totals. induction (counter l) as [|[s n] r IH]; cbn; [reflexivity|]. now rewrite Nat.eqb_refl, IH. Qed.

Lemma totals_counts sec l sc :
  ntot (sec, sc) (totals sec l) = zcount sc l /\ nrun (sec, sc) (totals sec l) = 0 /\
  ncompl (sec, sc) (totals sec l) = 0 /\ nfail (sec, sc) (totals sec l) = 0 /\
  forall s, sec_started s (totals sec l) = false.
Proof.
  unfold totals. assert (G : forall acc : list (scope * Z),
     ntot (sec, sc) (map (fun sn => Total (sec, fst sn) (snd sn)) acc) = ctot sc acc /\
     nrun (sec, sc) (map (fun sn => Total (sec, fst sn) (snd sn)) acc) = 0 /\
     ncompl (sec, sc) (map (fun sn => Total (sec, fst sn) (snd sn)) acc) = 0 /\
     nfail (sec, sc) (map (fun sn => Total (sec, fst sn) (snd sn)) acc) = 0 /\
     forall s, sec_started s (map (fun sn => Total (sec, fst sn) (snd sn)) acc) = false).
  { induction acc as [|[s n] acc (A & B & C & D & E)]; cbn; [tauto|]. unfold key_eqb at 1; cbn. rewrite Nat.eqb_refl. cbn.
    rewrite A. tauto. }
  destruct (G (counter l)) as (A & B & C & D & E). rewrite A. unfold counter. rewrite ctot_fold. cbn. tauto.
Qed.

Lemma totals_wf_on sec l base : sec_started sec base = false -> wf_on true base (rev (totals sec l)) = true.
Proof.
  intros Hb. unfold totals.
  assert (G : forall acc : list (scope * Z), (forall x, In x acc -> 0 < snd x) ->
     wf_on true base (rev (map (fun sn => Total (sec, fst sn) (snd sn)) acc)) = true).
  { intros acc. induction acc as [|[s n] acc IH] using rev_ind; intros Hp; [reflexivity|].
    rewrite map_app, rev_app_distr. cbn [map rev app wf_on].
    rewrite IH by (intros x Hx; apply Hp; apply in_or_app; now left). cbn [andb ok_next fst snd].
    assert (0 < n) by (apply (Hp (s, n)); apply in_or_app; right; now left).
    assert (E : (0 <? n) = true) by now apply Z.ltb_lt. rewrite E. cbn [andb].
    rewrite sec_started_app, sec_started_rev, Hb.
    replace (sec_started sec (map (fun sn : scope * Z => Total (sec, fst sn) (snd sn)) acc)) with false; [reflexivity|].
    clear. induction acc as [|[s n] acc IH]; cbn; auto. }
  apply G. apply counter_pos.
Qed.

(** * one engine pass *)
Section Pass.
  Variable sec : nat.
  Variable f : callinfo -> scope.
  Variable p : plan.
  Hypothesis Hplan : plan_ok p.

  Definition hasscope (sc : scope) (n : nat) : bool :=
    match node_scope f p n with Some s => scope_eqb sc s | None => false end.

  Definition cnt (sc : scope) (l : list nat) : Z := Z.of_nat (length (filter (hasscope sc) l)).

  Lemma nat_mem_in n l : nat_mem n l = true <-> In n l.
  Proof.
    induction l as [|x l IH]; cbn; [split; [discriminate|tauto]|]. rewrite orb_true_iff, IH, Nat.eqb_eq. split; intros [H|H]; auto.
  Qed.

  Lemma cnt_le sc l l' : NoDup l -> incl l l' -> cnt sc l <= cnt sc l'.
  Proof.
    intros Hnd Hincl. unfold cnt. apply inj_le. apply NoDup_incl_length.
    - now apply NoDup_filter.
    - intros x Hx. apply filter_In in Hx as [Hx Hp]. apply filter_In. split; [now apply Hincl|assumption].
  Qed.

  Lemma cnt_cons sc n l : cnt sc (n :: l) = (if hasscope sc n then 1 else 0) + cnt sc l.
  Proof. unfold cnt. cbn. destruct (hasscope sc n); cbn [length]; lia. Qed.

  Lemma cnt_lt sc n l l' :
    NoDup l -> incl l l' -> In n l' -> ~ In n l -> hasscope sc n = true -> cnt sc l < cnt sc l'.
  Proof.
    intros Hnd Hincl Hin Hni Hs. assert (H : cnt sc (n :: l) <= cnt sc l').
    { apply cnt_le; [now constructor|]. intros x [<-|Hx]; auto. }
    rewrite cnt_cons, Hs in H. lia.
  Qed.

  (** the totals count exactly the call nodes of the plan with that scope *)
  Lemma node_scope_notin n q : ~ In n (map fst q) -> node_scope f q n = None.
  Proof.
    induction q as [|[n' k] q IH]; cbn; [reflexivity|]. intro H. destruct (Nat.eqb n n') eqn:E.
    - apply Nat.eqb_eq in E. subst. tauto.
    - apply IH. tauto.
  Qed.

  Lemma zcount_call_scopes_gen sc q :
    NoDup (map fst q) ->
    zcount sc (call_scopes f q) =
    Z.of_nat (length (filter (fun n => match node_scope f q n with Some s => scope_eqb sc s | None => false end) (map fst q))).
  Proof.
    induction q as [|[n k] q IH]; intro Hnd; [reflexivity|]. inversion Hnd as [|? ? Hni Hnd']; subst.
    cbn [map fst call_scopes flat_map snd filter node_scope]. rewrite Nat.eqb_refl.
    assert (Hext : filter (fun n0 => match (if Nat.eqb n0 n then match k with NCall c => Some (f c) | NLit => None end
                                             else node_scope f q n0) with Some s => scope_eqb sc s | None => false end) (map fst q)
                   = filter (fun n0 => match node_scope f q n0 with Some s => scope_eqb sc s | None => false end) (map fst q)).
    { apply filter_ext_in. intros x Hx. destruct (Nat.eqb x n) eqn:E; [|reflexivity].
      apply Nat.eqb_eq in E. subst. contradiction. }
    unfold call_scopes in IH. destruct k as [c|]; cbn [app zcount].
    - destruct (scope_eqb sc (f c)); cbn [length]; rewrite Hext, IH by assumption; lia.
    - rewrite Hext, IH by assumption. lia.
  Qed.

  Lemma zcount_call_scopes sc : zcount sc (call_scopes f p) = cnt sc (map fst p).
  Proof. unfold cnt, hasscope. now apply zcount_call_scopes_gen. Qed.

  (** consequences of [trace_ok_rev] *)
  Lemma trace_ok_facts h :
    trace_ok_rev (map fst p) h = true ->
    NoDup (starts h) /\ incl (starts h) (map fst p) /\ NoDup (ends h) /\ incl (ends h) (starts h).
  Proof.
    induction h as [|e h IH]; cbn [trace_ok_rev]; intro H.
    - cbn. repeat split; try constructor; intros x [].
    - destruct e as [n|n ok].
      + apply andb_true_iff in H as [H H3]. apply andb_true_iff in H as [H1 H2].
        destruct (IH H1) as (A & B & C & D). apply nat_mem_in in H2. apply negb_true_iff in H3.
        assert (~ In n (starts h)) by (intro Hc; apply nat_mem_in in Hc; congruence).
        cbn [starts ends flat_map app]. fold (starts h). fold (ends h). repeat split.
        * now constructor.
        * intros x [<-|Hx]; auto.
        * assumption.
        * intros x Hx. right. auto.
      + apply andb_true_iff in H as [H H3]. apply andb_true_iff in H as [H1 H2].
        destruct (IH H1) as (A & B & C & D). apply nat_mem_in in H2. apply negb_true_iff in H3.
        assert (~ In n (ends h)) by (intro Hc; apply nat_mem_in in Hc; congruence).
        cbn [starts ends flat_map app]. fold (starts h). fold (ends h). repeat split.
        * assumption.
        * assumption.
        * now constructor.
        * intros x [<-|Hx]; auto.
  Qed.

  (** counts of the notifications emitted for a history of engine events (most recent first) *)
  Local Notation pn := (pass_notes sec f p).

  Lemma pass_counts h sc :
    ntot (sec, sc) (flat_map pn h) = 0 /\
    nrun (sec, sc) (flat_map pn h) = cnt sc (starts h) /\
    ncompl (sec, sc) (flat_map pn h) + nfail (sec, sc) (flat_map pn h) = cnt sc (ends h).
  Proof.
    induction h as [|e h (A & B & C)]; [cbn; tauto|].
    cbn [flat_map]. rewrite ntot_app, nrun_app, ncompl_app, nfail_app, A, B.
    destruct e as [n|n ok]; cbn [starts ends flat_map app pass_notes]; fold (starts h); fold (ends h).
    - rewrite cnt_cons. unfold hasscope. destruct (node_scope f p n) as [s|]; cbn [ntot nrun ncompl nfail].
      + unfold key_eqb; cbn [fst snd]. rewrite Nat.eqb_refl. cbn [andb]. repeat split; lia.
      + repeat split; lia.
    - rewrite cnt_cons. unfold hasscope. destruct (node_scope f p n) as [s|]; cbn [ntot nrun ncompl nfail].
      + destruct ok; cbn [ntot nrun ncompl nfail]; unfold key_eqb; cbn [fst snd]; rewrite Nat.eqb_refl; cbn [andb];
          repeat split; lia.
      + repeat split; lia.
  Qed.

  Lemma pass_in_sec h : forallb (in_sec sec) (flat_map pn h) = true.
  Proof.
    induction h as [|e h IH]; [reflexivity|]. cbn [flat_map]. rewrite forallb_app, IH, andb_true_r.
    destruct e as [n|n ok]; cbn [pass_notes]; destruct (node_scope f p n); cbn; rewrite ?Nat.eqb_refl; try reflexivity.
    destruct ok; cbn; now rewrite Nat.eqb_refl.
  Qed.

  Lemma rev_emit_pass tr : rev (emit_pass sec f p tr) = flat_map pn (rev tr).
  Proof.
    unfold emit_pass. induction tr as [|e tr IH]; [reflexivity|]. cbn [flat_map rev]. rewrite rev_app_distr, IH.
    rewrite flat_map_app. cbn [flat_map]. rewrite app_nil_r. f_equal.
    destruct e as [n|n ok]; cbn [pass_notes]; destruct (node_scope f p n); reflexivity.
  Qed.

  (** the pass is well-formed on top of any history that announced exactly the plan's totals for this
      section and reported nothing else in it *)
  Lemma pass_wf_on base h :
    trace_ok_rev (map fst p) h = true ->
    (forall sc, ntot (sec, sc) base = zcount sc (call_scopes f p) /\ nrun (sec, sc) base = 0 /\
                ncompl (sec, sc) base = 0 /\ nfail (sec, sc) base = 0) ->
    wf_on true base (flat_map pn h) = true.
  Proof.
    intros Hok Hbase. induction h as [|e h IH]; [reflexivity|].
    assert (Hok' : trace_ok_rev (map fst p) h = true).
    { destruct e; cbn [trace_ok_rev] in Hok; apply andb_true_iff in Hok as [Hok _]; now apply andb_true_iff in Hok as [Hok _]. }
    specialize (IH Hok'). destruct (trace_ok_facts h Hok') as (A & B & C & D).
    cbn [flat_map]. rewrite wf_on_app, IH. cbn [andb].
    destruct e as [n|n ok]; cbn [trace_ok_rev] in Hok; apply andb_true_iff in Hok as [Hok H3];
      apply andb_true_iff in Hok as [_ H2]; apply nat_mem_in in H2; apply negb_true_iff in H3;
      cbn [pass_notes]; destruct (node_scope f p n) as [s|] eqn:En; try reflexivity.
    - cbn [wf_on app ok_next]. rewrite nrun_app, ntot_app.
      destruct (pass_counts h s) as (P1 & P2 & P3). destruct (Hbase s) as (B1 & B2 & B3 & B4).
      rewrite P1, P2, B1, B2, zcount_call_scopes. apply Z.ltb_lt.
      assert (cnt s (starts h) < cnt s (map fst p)); [|lia].
      apply (cnt_lt s n); try assumption.
      + intro Hc. apply nat_mem_in in Hc. congruence.
      + unfold hasscope. rewrite En. apply scope_eqb_refl.
    - assert (Hgoal : ncompl (sec, s) (flat_map pn h ++ base) + nfail (sec, s) (flat_map pn h ++ base)
                      <? nrun (sec, s) (flat_map pn h ++ base) = true).
      { rewrite nrun_app, ncompl_app, nfail_app.
        destruct (pass_counts h s) as (P1 & P2 & P3). destruct (Hbase s) as (B1 & B2 & B3 & B4).
        rewrite P2, B2, B3, B4. apply Z.ltb_lt.
        assert (cnt s (ends h) < cnt s (starts h)); [|lia].
        apply (cnt_lt s n); try assumption.
        + intro Hc. apply nat_mem_in in Hc. congruence.
        + unfold hasscope. rewrite En. apply scope_eqb_refl. }
      destruct ok; cbn [wf_on app ok_next]; exact Hgoal.
  Qed.

  (** when every started callback has ended, every Running has its Completed/Failed *)
  Lemma pass_balanced h sc :
    trace_ok_rev (map fst p) h = true -> (forall n, In n (starts h) -> In n (ends h)) ->
    nrun (sec, sc) (flat_map pn h) = ncompl (sec, sc) (flat_map pn h) + nfail (sec, sc) (flat_map pn h).
  Proof.
    intros Hok Hc. destruct (trace_ok_facts h Hok) as (A & B & C & D). destruct (pass_counts h sc) as (_ & P2 & P3).
    rewrite P2, P3. apply Z.le_antisymm; apply cnt_le; assumption.
  Qed.
End Pass.

(** * one section of a run: its totals followed by its pass *)
Definition part (sec : nat) (f : callinfo -> scope) (p : plan) (tr : list eev) : list note :=
  totals sec (call_scopes f p) ++ emit_pass sec f p tr.

Lemma forallb_rev {A} (g : A -> bool) l : forallb g (rev l) = forallb g l.
Proof. induction l as [|x l IH]; cbn; [reflexivity|]. rewrite forallb_app, IH. cbn. rewrite andb_true_r. apply andb_comm. Qed.

Lemma part_in_sec sec f p tr : forallb (in_sec sec) (part sec f p tr) = true.
Proof.
  unfold part. rewrite forallb_app, totals_in_sec. cbn [andb].
  rewrite <- forallb_rev, rev_emit_pass. apply pass_in_sec.
Qed.

Lemma part_wf_on sec f p tr base :
  plan_ok p -> trace_ok_rev (map fst p) (rev tr) = true ->
  (forall sc, ntot (sec, sc) base = 0 /\ nrun (sec, sc) base = 0 /\ ncompl (sec, sc) base = 0 /\ nfail (sec, sc) base = 0) ->
  sec_started sec base = false ->
  wf_on true base (rev (part sec f p tr)) = true.
Proof.
  intros Hp Hok Hz Hs. unfold part. rewrite rev_app_distr, wf_on_app, totals_wf_on by assumption. cbn [andb].
  rewrite rev_emit_pass. apply pass_wf_on; try assumption.
  intros sc. rewrite ntot_app, nrun_app, ncompl_app, nfail_app, ntot_rev, nrun_rev, ncompl_rev, nfail_rev.
  destruct (totals_counts sec (call_scopes f p) sc) as (A & B & C & D & _). destruct (Hz sc) as (E & F & G & H).
  rewrite A, B, C, D, E, F, G, H. repeat split; lia.
Qed.

Lemma part_balanced sec f p tr k :
  plan_ok p -> trace_ok p tr ->
  nrun k (part sec f p tr) = ncompl k (part sec f p tr) + nfail k (part sec f p tr).
Proof.
  intros Hp [Hok Hc]. destruct k as [s sc]. destruct (Nat.eq_dec s sec) as [->|Hne].
  - unfold part. rewrite nrun_app, ncompl_app, nfail_app.
    destruct (totals_counts sec (call_scopes f p) sc) as (_ & B & C & D & _). rewrite B, C, D.
    rewrite <- (nrun_rev _ (emit_pass _ _ _ _)), <- (ncompl_rev _ (emit_pass _ _ _ _)), <- (nfail_rev _ (emit_pass _ _ _ _)).
    rewrite rev_emit_pass. rewrite (pass_balanced sec f p (rev tr) sc Hok).
    + lia.
    + intros n Hn. assert (Hs : forall l, In n (starts (rev l)) <-> In n (starts l)).
      { intro l. unfold starts. rewrite !in_flat_map. split; intros (x & Hx & Hy); exists x; split; auto;
          [now apply in_rev|now apply -> in_rev]. }
      assert (He : forall l, In n (ends (rev l)) <-> In n (ends l)).
      { intro l. unfold ends. rewrite !in_flat_map. split; intros (x & Hx & Hy); exists x; split; auto;
          [now apply in_rev|now apply -> in_rev]. }
      apply He. apply Hc. now apply Hs.
  - destruct (other_sec_zero s sec (part sec f p tr) sc (part_in_sec sec f p tr) Hne) as (_ & B & C & D & _). lia.
Qed.

Lemma balanced_intro h : (forall k, nrun k h = ncompl k h + nfail k h) -> balanced h = true.
Proof.
  intro H. unfold balanced. apply forallb_forall. intros e _. destruct e; try reflexivity. apply Z.eqb_eq. apply H.
Qed.

(** the two sections of [emit] as parts *)
Definition run_tr (c : runcfg) : list eev := if dry_run c then [] else run_trace c.

Lemma stale_part_eq c :
  stale_part c = if has_registry c then part 0 stale_scope (logical c) (stale_trace c) else [].
Proof. reflexivity. Qed.

Lemma run_part_eq c :
  run_part c = if (has_registry c && has_failure (stale_trace c)) || other_raises c then []
               else part 1 run_scope (physical c) (run_tr c).
Proof.
  unfold run_part, part, run_tr. destruct (_ || _); [reflexivity|]. destruct (dry_run c); reflexivity.
Qed.

Lemma trace_ok_nil p : trace_ok p [].
Proof. split; [reflexivity|]. intros n []. Qed.

(** C15_wellformed *)
Lemma emit_wellformed (c : runcfg) :
  plan_ok (logical c) -> plan_ok (physical c) ->
  trace_ok (logical c) (stale_trace c) -> trace_ok (physical c) (run_trace c) ->
  wf_run (emit c) = true.
Proof.
  intros Hl Hph Ht0 Ht1. unfold emit, wf_run. rewrite rev_unit, rev_app_distr, wf_rev_app.
  set (S := stale_part c). set (R := run_part c).
  assert (HtR : trace_ok (physical c) (run_tr c)) by (unfold run_tr; destruct (dry_run c); [apply trace_ok_nil|assumption]).
  assert (HS_sec : forallb (in_sec 0) S = true).
  { subst S. rewrite stale_part_eq. destruct (has_registry c); [apply part_in_sec|reflexivity]. }
  assert (HS_wf : wf_rev true (rev S) = true).
  { subst S. rewrite stale_part_eq. destruct (has_registry c); [|reflexivity].
    rewrite <- (app_nil_r (rev _)), wf_rev_app. cbn [wf_rev andb].
    apply part_wf_on; try assumption; [apply Ht0| |reflexivity]. intros sc; cbn; tauto. }
  assert (HR_wf : wf_on true (rev S) (rev R) = true).
  { subst R. rewrite run_part_eq. destruct (_ || _); [reflexivity|].
    apply part_wf_on; try assumption; [apply HtR| |].
    - intros sc. rewrite ntot_rev, nrun_rev, ncompl_rev, nfail_rev.
      destruct (other_sec_zero 1%nat 0%nat S sc HS_sec ltac:(discriminate)) as (A & B & C & D & _). tauto.
    - rewrite sec_started_rev. now destruct (other_sec_zero 1%nat 0%nat S [] HS_sec ltac:(discriminate)) as (_ & _ & _ & _ & E). }
  rewrite HS_wf, HR_wf. cbn [andb]. apply balanced_intro. intros k.
  rewrite nrun_app, ncompl_app, nfail_app, !nrun_rev, !ncompl_rev, !nfail_rev.
  assert (HS_b : nrun k S = ncompl k S + nfail k S).
  { subst S. rewrite stale_part_eq. destruct (has_registry c); [now apply part_balanced|reflexivity]. }
  assert (HR_b : nrun k R = ncompl k R + nfail k R).
  { subst R. rewrite run_part_eq. destruct (_ || _); [reflexivity|now apply part_balanced]. }
  lia.
Qed.

(** what [wf_run] says, in words of the property *)
Lemma wf_rev_prefix so body pre e post :
  wf_rev so (rev body) = true -> body = pre ++ e :: post -> ok_next so (rev pre) e = true.
Proof.
  intros H ->. rewrite rev_app_distr in H. cbn [rev] in H. rewrite <- app_assoc in H. cbn [app] in H.
  rewrite wf_rev_app in H. apply andb_true_iff in H as [H _]. now apply wf_rev_head in H.
Qed.

Lemma wf_rev_no_enter_exit so h : wf_rev so h = true -> ~ In Enter h /\ ~ In Exit h.
Proof.
  induction h as [|e h IH]; cbn [wf_rev]; intro H; [cbn; tauto|]. apply andb_true_iff in H as [H1 H2].
  destruct (IH H1) as [A B]. split; (intros [He|Hin]; [subst e; cbn in H2; discriminate|tauto]).
Qed.

Lemma wf_run_meaning l :
  wf_run l = true ->
  exists body, l = Enter :: body ++ [Exit] /\ ~ In Enter body /\ ~ In Exit body /\
    (forall pre e post, body = pre ++ e :: post -> ok_next true (rev pre) e = true) /\
    (forall k, nrun k body = ncompl k body + nfail k body).
Proof.
  unfold wf_run. destruct l as [|[| | | | |] r]; try discriminate.
  destruct (rev r) as [|[| | | | |] h] eqn:E; try discriminate. intro H. apply andb_true_iff in H as [Hwf Hb].
  exists (rev h). assert (Hr : r = rev h ++ [Exit]).
  { rewrite <- (rev_involutive r), E. reflexivity. }
  split; [now rewrite Hr|]. destruct (wf_rev_no_enter_exit _ _ Hwf) as [A B].
  split; [intro Hc; apply A; now apply in_rev|]. split; [intro Hc; apply B; now apply in_rev|]. split.
  - intros pre e post Hbody. eapply wf_rev_prefix; [|exact Hbody]. now rewrite rev_involutive.
  - intros k. rewrite nrun_rev, ncompl_rev, nfail_rev.
    destruct (Z.eq_dec (nrun k h) 0) as [Hz|Hnz].
    + pose proof (wf_counts _ _ Hwf k). lia.
    + assert (Hin : exists k', In (Running k') h /\ key_eqb k k' = true).
      { clear -Hnz. induction h as [|e h IH]; cbn in Hnz; [contradiction|]. destruct e; cbn in Hnz;
          try (destruct (IH Hnz) as (k' & A & B); exists k'; split; [now right|assumption]).
        destruct (key_eqb k k0) eqn:Ek.
        - exists k0. split; [now left|assumption].
        - destruct (IH ltac:(lia)) as (k' & A & B). exists k'. split; [now right|assumption]. }
      destruct Hin as (k' & Hin & Ek). apply key_eqb_eq in Ek. subst k'.
      unfold balanced in Hb. rewrite forallb_forall in Hb. specialize (Hb _ Hin). cbn in Hb. now apply Z.eqb_eq in Hb.
Qed.

(** * counts after a successful run *)
Lemma starts_rev tr : starts (rev tr) = rev (starts tr).
Proof.
  unfold starts. induction tr as [|e tr IH]; [reflexivity|]. cbn [rev flat_map]. rewrite flat_map_app, IH, rev_app_distr.
  cbn [flat_map]. rewrite app_nil_r. destruct e; reflexivity.
Qed.

Lemma filter_rev {A} (g : A -> bool) l : filter g (rev l) = rev (filter g l).
Proof.
  induction l as [|x l IH]; [reflexivity|]. cbn [rev filter]. rewrite filter_app, IH. cbn [filter].
  destruct (g x); cbn; [reflexivity|now rewrite app_nil_r].
Qed.

Lemma cnt_rev f p sc l : cnt f p sc (rev l) = cnt f p sc l.
Proof. unfold cnt. now rewrite filter_rev, rev_length. Qed.

Lemma nfail_no_failure sec f p tr k : has_failure tr = false -> nfail k (emit_pass sec f p tr) = 0.
Proof.
  unfold emit_pass. induction tr as [|e tr IH]; cbn [has_failure existsb flat_map]; [reflexivity|].
  intro H. apply orb_false_iff in H as [H1 H2]. rewrite nfail_app, (IH H2).
  destruct e as [n|n [|]]; try discriminate; cbn [pass_notes]; destruct (node_scope f p n); reflexivity.
Qed.

Lemma part_success sec f p tr sc :
  plan_ok p -> trace_ok p tr -> has_failure tr = false ->
  (forall n, In n (map fst p) -> In n (starts tr)) ->
  ntot (sec, sc) (part sec f p tr) = zcount sc (call_scopes f p) /\
  zcount sc (call_scopes f p) = cnt f p sc (starts tr) /\
  nrun (sec, sc) (part sec f p tr) = ntot (sec, sc) (part sec f p tr) /\
  ncompl (sec, sc) (part sec f p tr) = ntot (sec, sc) (part sec f p tr) /\
  nfail (sec, sc) (part sec f p tr) = 0.
Proof.
  intros Hp [Hok Hc] Hnf Hall. unfold part. rewrite ntot_app, nrun_app, ncompl_app, nfail_app.
  destruct (totals_counts sec (call_scopes f p) sc) as (A & B & C & D & _). rewrite A, B, C, D.
  rewrite (nfail_no_failure sec f p tr (sec, sc) Hnf).
  rewrite <- (ntot_rev _ (emit_pass _ _ _ _)), <- (nrun_rev _ (emit_pass _ _ _ _)), <- (ncompl_rev _ (emit_pass _ _ _ _)).
  pose proof (nfail_no_failure sec f p tr (sec, sc) Hnf) as Hf0. rewrite <- nfail_rev in Hf0.
  rewrite rev_emit_pass in *. destruct (pass_counts sec f p (rev tr) sc) as (P1 & P2 & P3).
  destruct (trace_ok_facts p (rev tr) Hok) as (F1 & F2 & F3 & F4).
  assert (Hse : cnt f p sc (starts (rev tr)) = cnt f p sc (ends (rev tr))).
  { apply Z.le_antisymm; apply cnt_le; try assumption. intros n Hn.
    rewrite starts_rev in Hn. apply in_rev in Hn. specialize (Hc n Hn).
    unfold ends in *. rewrite in_flat_map in *. destruct Hc as (x & Hx & Hy). exists x. split; [now apply -> in_rev|assumption]. }
  assert (Hsi : cnt f p sc (starts (rev tr)) = cnt f p sc (map fst p)).
  { apply Z.le_antisymm; apply cnt_le; try assumption.
    intros n Hn. rewrite starts_rev. apply -> in_rev. now apply Hall. }
  rewrite (zcount_call_scopes f p Hp sc). rewrite starts_rev, cnt_rev in Hse, Hsi. rewrite starts_rev, cnt_rev in P2.
  repeat split; lia.
Qed.

(** C15_success_counts *)
Lemma success_counts (c : runcfg) :
  plan_ok (logical c) -> plan_ok (physical c) ->
  trace_ok (logical c) (stale_trace c) -> trace_ok (physical c) (run_trace c) ->
  has_failure (stale_trace c) = false -> has_failure (run_trace c) = false ->
  other_raises c = false -> dry_run c = false ->
  (forall n, In n (map fst (logical c)) -> In n (starts (stale_trace c))) ->
  (forall n, In n (map fst (physical c)) -> In n (starts (run_trace c))) ->
  let body := stale_part c ++ run_part c in
  forall sc,
    (ntot (1%nat, sc) body = zcount sc (call_scopes run_scope (physical c)) /\
     ntot (1%nat, sc) body = cnt run_scope (physical c) sc (starts (run_trace c)) /\
     ncompl (1%nat, sc) body = ntot (1%nat, sc) body /\ nfail (1%nat, sc) body = 0) /\
    (has_registry c = true ->
     ntot (0%nat, sc) body = zcount sc (call_scopes stale_scope (logical c)) /\
     ntot (0%nat, sc) body = cnt stale_scope (logical c) sc (starts (stale_trace c)) /\
     ncompl (0%nat, sc) body = ntot (0%nat, sc) body /\ nfail (0%nat, sc) body = 0).
Proof.
  intros Hl Hph Ht0 Ht1 Hf0 Hf1 Hor Hdr Hall0 Hall1 body sc. subst body.
  rewrite !ntot_app, !ncompl_app, !nfail_app.
  assert (ER : run_part c = part 1 run_scope (physical c) (run_trace c)).
  { rewrite run_part_eq. unfold run_tr. rewrite Hf0, Hor, Hdr, andb_false_r. reflexivity. }
  assert (HS_sec : forallb (in_sec 0) (stale_part c) = true).
  { rewrite stale_part_eq. destruct (has_registry c); [apply part_in_sec|reflexivity]. }
  assert (HR_sec : forallb (in_sec 1) (run_part c) = true) by (rewrite ER; apply part_in_sec).
  destruct (other_sec_zero 1%nat 0%nat _ sc HS_sec ltac:(discriminate)) as (A1 & A2 & A3 & A4 & _).
  destruct (other_sec_zero 0%nat 1%nat _ sc HR_sec ltac:(discriminate)) as (B1 & B2 & B3 & B4 & _).
  rewrite A1, A3, A4, B1, B3, B4. rewrite ER.
  destruct (part_success 1%nat run_scope (physical c) (run_trace c) sc Hph Ht1 Hf1 Hall1) as (R1 & R2 & R3 & R4 & R5).
  split; [repeat split; lia|]. intros Hreg. rewrite stale_part_eq, Hreg.
  destruct (part_success 0%nat stale_scope (logical c) (stale_trace c) sc Hl Ht0 Hf0 Hall0) as (S1 & S2 & S3 & S4 & S5).
  repeat split; lia.
Qed.

(** * composite observer *)
Lemma enter_all_ok raises : forall i entered,
  forallb negb raises = true ->
  enter_all i raises entered = (map MEnter (seq i (length raises)), Some (rev (seq i (length raises)) ++ entered)).
Proof.
  induction raises as [|r rest IH]; intros i entered H; [reflexivity|]. cbn in H. apply andb_true_iff in H as [Hr Hrest].
  destruct r; [discriminate|]. cbn [enter_all length seq map rev]. rewrite (IH (S i) (i :: entered) Hrest).
  now rewrite <- app_assoc.
Qed.

Lemma enter_all_raise a b : forall i entered,
  forallb negb a = true ->
  enter_all i (a ++ true :: b) entered =
  (map MEnter (seq i (length a)) ++ MEnterRaised (i + length a) :: map MExit (rev (seq i (length a)) ++ entered), None).
Proof.
  induction a as [|r a IH]; intros i entered H.
  - cbn. now rewrite Nat.add_0_r.
  - cbn in H. apply andb_true_iff in H as [Hr Ha]. destruct r; [discriminate|].
    cbn [app enter_all length seq map rev]. rewrite (IH (S i) (i :: entered) Ha).
    rewrite <- app_assoc. cbn. now rewrite Nat.add_succ_r.
Qed.

Lemma filter_eqb_seq_lt i : forall m a, (i < a)%nat -> filter (Nat.eqb i) (seq a m) = [].
Proof.
  induction m as [|m IH]; intros a H; [reflexivity|]. cbn [seq filter].
  assert (E : Nat.eqb i a = false) by (apply Nat.eqb_neq; lia). rewrite E. apply IH. lia.
Qed.

Lemma filter_eqb_seq i : forall m a, (a <= i)%nat -> (i < a + m)%nat -> filter (Nat.eqb i) (seq a m) = [i].
Proof.
  induction m as [|m IH]; intros a H1 H2; [lia|]. cbn [seq filter]. destruct (Nat.eqb i a) eqn:E.
  - apply Nat.eqb_eq in E. subst a. rewrite filter_eqb_seq_lt by lia. reflexivity.
  - apply Nat.eqb_neq in E. apply IH; lia.
Qed.

Lemma member_view_app i a b : member_view i (a ++ b) = member_view i a ++ member_view i b.
Proof. apply filter_app. Qed.

Lemma member_view_enter i l : member_view i (map MEnter l) = map MEnter (filter (Nat.eqb i) l).
Proof. induction l as [|x l IH]; [reflexivity|]. cbn. destruct (Nat.eqb i x); cbn; now rewrite <- IH. Qed.
Lemma member_view_exit i l : member_view i (map MExit l) = map MExit (filter (Nat.eqb i) l).
Proof. induction l as [|x l IH]; [reflexivity|]. cbn. destruct (Nat.eqb i x); cbn; now rewrite <- IH. Qed.
Lemma member_view_note i n l : member_view i (map (fun j => MNote j n) l) = map (fun j => MNote j n) (filter (Nat.eqb i) l).
Proof. induction l as [|x l IH]; [reflexivity|]. cbn. destruct (Nat.eqb i x); cbn; now rewrite <- IH. Qed.

(** C15_composite_forwards *)
Lemma composite_forwards :
  (forall raises body, forallb negb raises = true ->
     let m := length raises in
     composite_run raises body =
       map MEnter (seq 0 m) ++ flat_map (fun n => map (fun i => MNote i n) (seq 0 m)) body ++ map MExit (rev (seq 0 m)) /\
     forall i, (i < m)%nat ->
       member_view i (composite_run raises body) = MEnter i :: map (MNote i) body ++ [MExit i]) /\
  (forall a b body, forallb negb a = true ->
     composite_run (a ++ true :: b) body =
       map MEnter (seq 0 (length a)) ++ MEnterRaised (length a) :: map MExit (rev (seq 0 (length a)))).
Proof.
  split.
  - intros raises body H m. assert (E : composite_run raises body =
       map MEnter (seq 0 m) ++ flat_map (fun n => map (fun i => MNote i n) (seq 0 m)) body ++ map MExit (rev (seq 0 m))).
    { unfold composite_run. rewrite (enter_all_ok raises 0%nat [] H). now rewrite app_nil_r. }
    split; [exact E|]. intros i Hi. rewrite E, !member_view_app, member_view_enter, member_view_exit.
    rewrite filter_rev, (filter_eqb_seq i m 0%nat) by lia. cbn [map rev app]. f_equal. f_equal.
    clear E. induction body as [|n body IH]; [reflexivity|]. cbn [flat_map map]. rewrite member_view_app, member_view_note, IH.
    rewrite (filter_eqb_seq i m 0%nat) by lia. reflexivity.
  - intros a b body H. unfold composite_run. rewrite (enter_all_raise a b 0%nat [] H). now rewrite app_nil_r.
Qed.

(** * Non-vacuity: a two-call plan, one registered, run with two workers (interleaved traces) *)
Example nonvacuous_emit :
  let c1 := {| c_scope := [7%nat]; c_fn := 1%nat; c_store := Some 9%nat |} in
  let c2 := {| c_scope := [7%nat]; c_fn := 1%nat; c_store := None |} in
  let cfg := {| has_registry := true; logical := [(0%nat, NCall c1); (1%nat, NLit); (2%nat, NCall c2)];
                stale_trace := [EStart 0; EStart 1; EEnd 1 true; EStart 2; EEnd 0 true; EEnd 2 true];
                other_raises := false;
                physical := [(0%nat, NCall c2); (3%nat, NCall c2); (4%nat, NCall c1)];
                dry_run := false;
                run_trace := [EStart 0; EStart 3; EEnd 3 false; EEnd 0 true] |} in
  plan_ok (logical cfg) /\ plan_ok (physical cfg) /\
  trace_ok (logical cfg) (stale_trace cfg) /\ trace_ok (physical cfg) (run_trace cfg) /\
  wf_run (emit cfg) = true /\ length (emit cfg) = 13%nat.
Proof.
  cbn zeta. split; [|split; [|split; [|split; [|split]]]].
  - unfold plan_ok. cbn. repeat constructor; cbn; intuition discriminate.
  - unfold plan_ok. cbn. repeat constructor; cbn; intuition discriminate.
  - split; [reflexivity|]. cbn. intuition.
  - split; [reflexivity|]. cbn. intuition.
  - reflexivity.
  - reflexivity.
Qed.

(** Non-vacuity for the composite: three members, two notifications; and the third member's enter raising *)
Example nonvacuous_composite :
  member_view 1 (composite_run [false; false; false] [Total (1%nat, [5%nat]) 2; Running (1%nat, [5%nat])]) =
    [MEnter 1; MNote 1 (Total (1%nat, [5%nat]) 2); MNote 1 (Running (1%nat, [5%nat])); MExit 1] /\
  composite_run [false; false; true] [Running (1%nat, [5%nat])] = [MEnter 0; MEnter 1; MEnterRaised 2; MExit 1; MExit 0].
Proof. split; reflexivity. Qed.
