(** Model of the three bundled _render implementations (console, HTML, IPython widgets): only their
    *partial* operations are kept — sorting scopes ([sorted_scope_items]), [max] of a list ([_ralign]),
    division by [total] (HTML percentages), [IntProgress.max = total] — together with the counts they
    display.  Definitions only: no proofs here. *)
From Coq Require Import List Arith ZArith QArith Bool.
Import ListNotations.
From UJ Require Import Obs.Progress.
Local Open Scope Z_scope.

Inductive kind := Console | Html | IPy.

(** "c / t" or "(c + r) / t", then ", f failed" iff f <> 0  (_get_progress_string) *)
Record pstr := { ps_paren : bool; ps_c : Z; ps_r : Z; ps_t : Z; ps_f : Z }.

Definition progress_string (s : sstate) : pstr :=
  let all_done := completed s + failed s =? total s in
  let started := 0 <? completed s + failed s + running s in
  let paren := negb (all_done || negb started) in
  {| ps_paren := paren; ps_c := completed s; ps_r := if paren then running s else 0;
     ps_t := total s; ps_f := failed s |}.

(** int(weighted_elapsed): truncation towards zero, shown by get_elapsed_string *)
Definition elapsed_secs (s : sstate) : Z := Z.quot (Qnum (welapsed s)) (Zpos (Qden (welapsed s))).

(** one displayed line: scope (None = the HTML "Total" footer), progress string, elapsed seconds and
    renderer-specific numbers (HTML: three percentages; IPython: max, value, bar style) *)
Record row := { r_scope : option scope; r_ps : pstr; r_esecs : Z; r_extra : list Q }.

Definition output := list (nat * list row).     (* printed sections in order, each with its rows *)

Section Env.
  (** What the model needs to know about scope values (ids):
      [vty x]   rank of [str(type(x))] in string order (equal strings = equal ranks);
      [vlt x y] outcome of [x < y] for two unequal values whose type strings are equal: a bool, or
                [None] when Python raises TypeError (no ordering defined);
      [vrepr x] rank of [repr(x)] in string order. *)
  Variable vty : nat -> nat.
  Variable vlt : nat -> nat -> option bool.
  Variable vrepr : nat -> nat.

  (** [_universal_sort_key(a) < _universal_sort_key(b)]: tuples of (str(type(x)), x) compared as Python
      compares tuples: first position where the elements differ decides, a proper prefix is smaller. *)
  Fixpoint ukey_lt (a b : scope) : option bool :=
    match a, b with
    | [], [] => Some false
    | [], _ :: _ => Some true
    | _ :: _, [] => Some false
    | x :: a', y :: b' =>
        if Nat.eqb (vty x) (vty y) then
          if Nat.eqb x y then ukey_lt a' b' else vlt x y
        else Some (vty x <? vty y)%nat
    end.

  (** [_fallback_sort_key(a) < _fallback_sort_key(b)]: tuples of (str(type(x)), repr(x)): strings only *)
  Fixpoint fkey_lt (a b : scope) : bool :=
    match a, b with
    | [], [] => false
    | [], _ :: _ => true
    | _ :: _, [] => false
    | x :: a', y :: b' =>
        if Nat.eqb (vty x) (vty y) then
          if Nat.eqb (vrepr x) (vrepr y) then fkey_lt a' b' else (vrepr x <? vrepr y)%nat
        else (vty x <? vty y)%nat
    end.

  (** stable insertion sort whose comparison may raise: [None] as soon as a comparison raises *)
  Fixpoint insert_p {A} (lt : A -> A -> option bool) (x : A) (l : list A) : option (list A) :=
    match l with
    | [] => Some [x]
    | e :: r =>
        match lt x e with
        | None => None
        | Some true => Some (x :: e :: r)
        | Some false => match insert_p lt x r with Some r' => Some (e :: r') | None => None end
        end
    end.

  Definition sort_p {A} (lt : A -> A -> option bool) (l : list A) : option (list A) :=
    fold_left (fun acc x => match acc with Some s => insert_p lt x s | None => None end) l (Some []).

  Fixpoint insert_t {A} (lt : A -> A -> bool) (x : A) (l : list A) : list A :=
    match l with
    | [] => [x]
    | e :: r => if lt x e then x :: e :: r else e :: insert_t lt x r
    end.

  Definition sort_t {A} (lt : A -> A -> bool) (l : list A) : list A :=
    fold_left (fun acc x => insert_t lt x acc) l [].

  (** sorted_scope_items.  [fixed = true] is the current code (commit 953f16e): a TypeError from the
      first sort falls back to sorting by (type name, repr).  [fixed = false] is the code before it. *)
  Definition sorted_scope_items {A} (fixed : bool) (items : list (scope * A)) : result (list (scope * A)) :=
    match sort_p (fun a b => ukey_lt (fst a) (fst b)) items with
    | Some l => Ok l
    | None => if fixed then Ok (sort_t (fun a b => fkey_lt (fst a) (fst b)) items)
              else Err TypeErrorCompare
    end.

  (** the scope -> ScopeState dict of one section, in insertion order *)
  Definition sec_items (s : nat) (m : list (key * sstate)) : list (scope * sstate) :=
    map (fun ks => (snd (fst ks), snd ks)) (filter (fun ks => Nat.eqb (fst (fst ks)) s) m).

  Definition is_done (items : list (scope * sstate)) : bool :=
    forallb (fun it => completed (snd it) + failed (snd it) =? total (snd it)) items.

  (** _ralign: max(len(s) for s in strings) raises ValueError on an empty list *)
  Definition ralign {A} (l : list A) : result (list A) :=
    match l with [] => Err ValueErrorEmptyMax | _ => Ok l end.

  Fixpoint nmem (s : nat) (l : list nat) : bool :=
    match l with [] => false | x :: r => Nat.eqb s x || nmem s r end.
  Definition nadd (s : nat) (l : list nat) : list nat := if nmem s l then l else l ++ [s].
  Definition ndiscard (s : nat) (l : list nat) : list nat := filter (fun x => negb (Nat.eqb s x)) l.

  (** ** console *)
  Definition console_row (it : scope * sstate) : row :=
    {| r_scope := Some (fst it); r_ps := progress_string (snd it); r_esecs := elapsed_secs (snd it); r_extra := [] |}.

  (** _print_section *)
  Definition console_section (fixed : bool) (items : list (scope * sstate)) : result (list row) :=
    bind (sorted_scope_items fixed items) (fun sorted =>
    bind (ralign (map (fun it => progress_string (snd it)) sorted)) (fun _ =>
    bind (ralign (map (fun it => elapsed_secs (snd it)) sorted)) (fun _ =>
    Ok (map console_row sorted)))).

  Fixpoint render_console (fixed : bool) (secs : list nat) (m : list (key * sstate)) (skipped : list nat)
    : result (output * list nat) :=
    match secs with
    | [] => Ok ([], skipped)
    | s :: rest =>
        let items := sec_items s m in
        match items with
        | [] => render_console fixed rest m skipped
        | _ :: _ =>
            let done := is_done items in
            let printed := negb done || negb (nmem s skipped) in
            bind (if printed then bind (console_section fixed items) (fun rows => Ok [(s, rows)]) else Ok [])
                 (fun here =>
            let skipped' := if done then nadd s skipped else ndiscard s skipped in
            bind (render_console fixed rest m skipped') (fun r => Ok (here ++ fst r, snd r)))
        end
    end.

  (** ** HTML *)
  Definition pct (x tot : Z) : result Q :=
    if tot =? 0 then Err ZeroDivisionError else Ok (inject_Z (100 * x) / inject_Z tot)%Q.

  (** _render_scope *)
  Definition html_row (sc : option scope) (s : sstate) : result row :=
    bind (pct (completed s) (total s)) (fun pc =>
    bind (pct (running s) (total s)) (fun pr =>
    bind (pct (failed s) (total s)) (fun pf =>
    Ok {| r_scope := sc; r_ps := progress_string s; r_esecs := elapsed_secs s; r_extra := [pc; pr; pf] |}))).

  Fixpoint html_rows (sorted : list (scope * sstate)) : result (list row) :=
    match sorted with
    | [] => Ok []
    | it :: r => bind (html_row (Some (fst it)) (snd it)) (fun x => bind (html_rows r) (fun xs => Ok (x :: xs)))
    end.

  (** _get_total_scope_state *)
  Definition total_state (items : list (scope * sstate)) : sstate :=
    fold_left (fun acc it =>
                 {| completed := completed acc + completed (snd it); failed := failed acc + failed (snd it);
                    running := running acc + running (snd it); total := total acc + total (snd it);
                    welapsed := (welapsed acc + welapsed (snd it))%Q |}) items sstate0.

  (** _render_section *)
  Definition html_section (fixed : bool) (items : list (scope * sstate)) : result (list row) :=
    bind (sorted_scope_items fixed items) (fun sorted =>
    bind (html_rows sorted) (fun rows =>
    if (1 <? length items)%nat
    then bind (html_row None (total_state items)) (fun foot => Ok (rows ++ [foot]))
    else Ok rows)).

  Fixpoint render_html (fixed : bool) (secs : list nat) (m : list (key * sstate)) : result output :=
    match secs with
    | [] => Ok []
    | s :: rest =>
        match sec_items s m with
        | [] => render_html fixed rest m
        | items => bind (html_section fixed items) (fun rows =>
                   bind (render_html fixed rest m) (fun r => Ok ((s, rows) :: r)))
        end
    end.

  (** ** IPython widgets: IntProgress(min=0).max = total raises TraitError if total < 0; value is clamped *)
  Definition ipy_row (it : scope * sstate) : result row :=
    let s := snd it in
    if total s <? 0 then Err TraitError
    else
      let v := Z.min (Z.max (completed s + failed s) 0) (total s) in
      let style := if completed s =? total s then 1 else if failed s =? 0 then 0 else 2 in
      Ok {| r_scope := Some (fst it); r_ps := progress_string s; r_esecs := elapsed_secs s;
            r_extra := [inject_Z (total s); inject_Z v; inject_Z style] |}.

  Fixpoint ipy_rows (sorted : list (scope * sstate)) : result (list row) :=
    match sorted with
    | [] => Ok []
    | it :: r => bind (ipy_row it) (fun x => bind (ipy_rows r) (fun xs => Ok (x :: xs)))
    end.

  Fixpoint render_ipy (fixed : bool) (secs : list nat) (m : list (key * sstate)) : result output :=
    match secs with
    | [] => Ok []
    | s :: rest =>
        match sec_items s m with
        | [] => render_ipy fixed rest m
        | items => bind (sorted_scope_items fixed items) (fun sorted =>
                   bind (ipy_rows sorted) (fun rows =>
                   bind (render_ipy fixed rest m) (fun r => Ok ((s, rows) :: r))))
        end
    end.

  (** the sections every renderer walks: ("stale", "run") *)
  Definition SECTIONS : list nat := [0%nat; 1%nat].

  Definition render (k : kind) (fixed : bool) (m : list (key * sstate)) (skipped : list nat)
    : result (output * list nat) :=
    match k with
    | Console => render_console fixed SECTIONS m skipped
    | Html => bind (render_html fixed SECTIONS m) (fun o => Ok (o, skipped))
    | IPy => bind (render_ipy fixed SECTIONS m) (fun o => Ok (o, skipped))
    end.
End Env.
