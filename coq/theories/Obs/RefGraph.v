(** The objects uberjob/_execution/run_physical.py creates for one run and who references whom.
    Definitions only.

    _create_bound_call_lookup_and_output_slot:
      result_lookup[node]      = node itself for a Literal, Slot(None) for a Call   -> RS c  (dropped after prep)
      bound_call_lookup[call]  = Slot(BoundCall(args slots, kwargs slots, result slot))     -> SlotBC c, BC c
      output_slot              = result_lookup[output_node]                         -> OutRoot references RS out
    process(node): bound_call.value.run(fn, retry)   (reads arg.value for every argument slot: Frame c)
                   finally: bound_call.value = None  (finish c)
    Literal arguments are their own slot and live as long as the plan: they play no role for results.

    [holds q] = the calls whose result object is referenced from inside q's result object (user data:
    e.g. gather_list returns a list of its arguments).  uberjob's own references are the other edges. *)
From Coq Require Import List Arith Bool.
Import ListNotations.

Record rgraph := {
  ncalls : nat;                    (* calls are 0 .. ncalls-1 *)
  cargs : nat -> list nat;         (* the CALL arguments (positional and keyword) of a call *)
  out : option nat;                (* output node if it is a call *)
  holds : nat -> list nat          (* results referenced from inside the result of a call *)
}.

Record state := {
  fin_ok : list nat;               (* finished and returned: result slot written *)
  fin_fail : list nat;             (* finished by raising: result slot still None *)
  inflight : list nat              (* started, bound_call.value not yet cleared *)
}.

Definition init : state := {| fin_ok := []; fin_fail := []; inflight := [] |}.

Definition mem (n : nat) (l : list nat) : bool := existsb (Nat.eqb n) l.

Definition finished (s : state) (c : nat) : bool := mem c (fin_ok s) || mem c (fin_fail s).

Inductive event := Start (c : nat) | EndOk (c : nat) | EndFail (c : nat).

Fixpoint remove_nat (n : nat) (l : list nat) : list nat :=
  match l with [] => [] | x :: r => if x =? n then remove_nat n r else x :: remove_nat n r end.

(** one step of the run; None = the engine never does this (C01: a call starts only when all its
    arguments have finished successfully; C04: at most once) *)
Definition step (g : rgraph) (s : state) (e : event) : option state :=
  match e with
  | Start c =>
      if (c <? ncalls g) && negb (finished s c) && negb (mem c (inflight s))
         && forallb (fun a => mem a (fin_ok s)) (cargs g c)
      then Some {| fin_ok := fin_ok s; fin_fail := fin_fail s; inflight := c :: inflight s |}
      else None
  | EndOk c =>
      if mem c (inflight s)
      then Some {| fin_ok := c :: fin_ok s; fin_fail := fin_fail s; inflight := remove_nat c (inflight s) |}
      else None
  | EndFail c =>
      if mem c (inflight s)
      then Some {| fin_ok := fin_ok s; fin_fail := c :: fin_fail s; inflight := remove_nat c (inflight s) |}
      else None
  end.

Fixpoint run_events (g : rgraph) (s : state) (es : list event) : option state :=
  match es with
  | [] => Some s
  | e :: r => match step g s e with Some s' => run_events g s' r | None => None end
  end.

Definition valid (g : rgraph) (s : state) : Prop := exists es, run_events g init es = Some s.

(** ---- the heap ---- *)
Inductive obj :=
| Lookup                 (* bound_call_lookup, held by the process closure *)
| OutRoot                (* run_physical's local output_slot *)
| Frame (c : nat)        (* the frames of process / BoundCall.run for a call in flight *)
| SlotBC (c : nat)       (* Slot holding the BoundCall *)
| BC (c : nat)           (* BoundCall *)
| RS (c : nat)           (* result Slot *)
| Res (c : nat).         (* the result object of call c *)

Definition is_root (s : state) (o : obj) : Prop :=
  match o with
  | Lookup | OutRoot => True
  | Frame c => mem c (inflight s) = true
  | _ => False
  end.

(** [fixed = true]: the code as it is.  [fixed = false]: the same without the
    [finally: bound_call.value = None] - the BoundCall stays referenced for the whole run. *)
Definition refs (fixed : bool) (g : rgraph) (s : state) (o : obj) : list obj :=
  match o with
  | Lookup => map SlotBC (seq 0 (ncalls g))
  | OutRoot => match out g with Some o => [RS o] | None => [] end
  | Frame c => BC c :: map Res (cargs g c)              (* self, and the argument values read from the slots *)
  | SlotBC c => if fixed && finished s c then [] else [BC c]
  | BC c => RS c :: map RS (cargs g c)
  | RS c => if mem c (fin_ok s) then [Res c] else []
  | Res c => map Res (holds g c)
  end.

Inductive reach (fixed : bool) (g : rgraph) (s : state) : obj -> Prop :=
| reach_root o : is_root s o -> reach fixed g s o
| reach_step o o' : reach fixed g s o -> In o' (refs fixed g s o) -> reach fixed g s o'.

(** ---- closed form ---- *)
Definition consumer (g : rgraph) (d p : nat) : Prop := d < ncalls g /\ In p (cargs g d).

(** some object of uberjob still points at the result slot of q *)
Definition anchored (g : rgraph) (s : state) (q : nat) : Prop :=
  out g = Some q \/ exists d, consumer g d q /\ finished s d = false.

Inductive holds_star (g : rgraph) : nat -> nat -> Prop :=
| hs_refl q : holds_star g q q
| hs_step q c p : In c (holds g q) -> holds_star g c p -> holds_star g q p.

Definition live (g : rgraph) (s : state) (p : nat) : Prop :=
  exists q, mem q (fin_ok s) = true /\ anchored g s q /\ holds_star g q p.

(** executable versions *)
Definition anchored_b (g : rgraph) (s : state) (q : nat) : bool :=
  (match out g with Some o => o =? q | None => false end)
  || existsb (fun d => mem q (cargs g d) && negb (finished s d)) (seq 0 (ncalls g)).

(** p is live if its own slot is anchored, or a live result with a larger number holds it
    (written with [if] so that evaluation is lazy) *)
Fixpoint live_fuel (g : rgraph) (s : state) (fuel : nat) (p : nat) : bool :=
  match fuel with
  | O => false
  | S k =>
      if (if mem p (fin_ok s) then anchored_b g s p else false) then true
      else existsb (fun q => if mem p (holds g q) then live_fuel g s k q else false) (seq (S p) (ncalls g - S p))
  end.

Definition live_b (g : rgraph) (s : state) (p : nat) : bool := live_fuel g s (S (ncalls g)) p.

(** results only hold results of calls with smaller numbers (a topological numbering: a result can
    only contain objects that existed when it was made), and only of calls of this run *)
Definition holds_wf (g : rgraph) : Prop :=
  forall q c, In c (holds g q) -> c < q /\ q < ncalls g.
