(** An object heap for Plan / Registry and the heap programs that uberjob.run, dry_run, render,
    Plan.copy, Registry.copy and the public building API execute.  Definitions only.

    Cells:  node objects (Call / Literal: [kind] abstracts the immutable fn / value / stack_frame,
            [scope] is the one slot that is ever re-assigned), networkx graphs (node set and edge
            set), Plan objects (.graph, ._scope), Registry objects (.mapping as an association list
            node -> RegistryValue) and RegistryValue objects.
    A Plan / Registry the caller holds is an address.  Every phase is a function from the current heap
    to the list of commands it issues; addresses of new objects are [length heap + k]. *)
From Coq Require Import List Arith Bool.
Import ListNotations.

Definition addr := nat.
Inductive ekey := Pos (i : nat) | Kw (name idx : nat) | Dep.
Definition edge : Type := addr * addr * ekey.

Inductive cell :=
| CNode (kind : nat) (scope : list nat)
| CGraph (nodes : list addr) (edges : list edge)
| CPlan (graph : addr) (scope : list nat)
| CRegistry (entries : list (addr * addr))
| CRegVal (store : nat) (is_source : bool) (frame : nat).

Definition heap := list cell.

Inductive cmd :=
| Alloc (c : cell)                          (* a new object, at address [length heap] *)
| SetScope (n : addr) (sc : list nat)       (* node.scope = sc *)
| SetPlanScope (p : addr) (sc : list nat)   (* plan._scope = sc   (with plan.scope(...)) *)
| AddNode (g n : addr)                      (* graph.add_node *)
| AddEdge (g : addr) (e : edge)             (* graph.add_edge *)
| RemoveEdge (g : addr) (e : edge)          (* graph.remove_edge *)
| RemoveNode (g n : addr)                   (* graph.remove_node / remove_nodes_from: with incident edges *)
| SetEntry (r n rv : addr)                  (* registry.mapping[n] = rv *)
| SetIsSource (rv : addr) (b : bool).       (* registry.mapping[n].is_source = b (direct attribute write) *)

(** the cell a command writes *)
Definition target (c : cmd) : option addr :=
  match c with
  | Alloc _ => None
  | SetScope n _ => Some n
  | SetPlanScope p _ => Some p
  | AddNode g _ | AddEdge g _ | RemoveEdge g _ | RemoveNode g _ => Some g
  | SetEntry r _ _ => Some r
  | SetIsSource rv _ => Some rv
  end.

Fixpoint update (h : heap) (a : addr) (f : cell -> cell) : heap :=
  match h, a with
  | [], _ => []
  | c :: r, O => f c :: r
  | c :: r, S a' => c :: update r a' f
  end.

Definition ekey_eqb (a b : ekey) : bool :=
  match a, b with
  | Pos i, Pos j => i =? j
  | Kw n i, Kw m j => (n =? m) && (i =? j)
  | Dep, Dep => true
  | _, _ => false
  end.

Definition edge_eqb (a b : edge) : bool :=
  let '(s1, d1, k1) := a in let '(s2, d2, k2) := b in (s1 =? s2) && (d1 =? d2) && ekey_eqb k1 k2.

Definition touches (n : addr) (e : edge) : bool := let '(s, d, _) := e in (s =? n) || (d =? n).

Definition exec (h : heap) (c : cmd) : heap :=
  match c with
  | Alloc x => h ++ [x]
  | SetScope n sc => update h n (fun x => match x with CNode k _ => CNode k sc | y => y end)
  | SetPlanScope p sc => update h p (fun x => match x with CPlan g _ => CPlan g sc | y => y end)
  | AddNode g n => update h g (fun x => match x with
                                        | CGraph ns es => CGraph (if existsb (Nat.eqb n) ns then ns else ns ++ [n]) es
                                        | y => y end)
  | AddEdge g e => update h g (fun x => match x with
                                        | CGraph ns es => CGraph ns (if existsb (edge_eqb e) es then es else es ++ [e])
                                        | y => y end)
  | RemoveEdge g e => update h g (fun x => match x with
                                           | CGraph ns es => CGraph ns (filter (fun e' => negb (edge_eqb e e')) es)
                                           | y => y end)
  | RemoveNode g n => update h g (fun x => match x with
                                           | CGraph ns es => CGraph (filter (fun m => negb (m =? n)) ns)
                                                                    (filter (fun e => negb (touches n e)) es)
                                           | y => y end)
  | SetEntry r n rv => update h r (fun x => match x with
                                            | CRegistry en => CRegistry (filter (fun p => negb (fst p =? n)) en ++ [(n, rv)])
                                            | y => y end)
  | SetIsSource rv b => update h rv (fun x => match x with CRegVal s _ f => CRegVal s b f | y => y end)
  end.

Definition run (h : heap) (cs : list cmd) : heap := fold_left exec cs h.

(** ---- reading the heap ---- *)
Definition graph_of (h : heap) (p : addr) : addr :=
  match nth_error h p with Some (CPlan g _) => g | _ => 0 end.
Definition plan_scope (h : heap) (p : addr) : list nat :=
  match nth_error h p with Some (CPlan _ sc) => sc | _ => [] end.
Definition gnodes (h : heap) (g : addr) : list addr :=
  match nth_error h g with Some (CGraph ns _) => ns | _ => [] end.
Definition gedges (h : heap) (g : addr) : list edge :=
  match nth_error h g with Some (CGraph _ es) => es | _ => [] end.
Definition node_scope (h : heap) (n : addr) : list nat :=
  match nth_error h n with Some (CNode _ sc) => sc | _ => [] end.
Definition node_kind (h : heap) (n : addr) : nat :=
  match nth_error h n with Some (CNode k _) => k | _ => 0 end.
Definition entries_of (h : heap) (r : addr) : list (addr * addr) :=
  match nth_error h r with Some (CRegistry en) => en | _ => [] end.
Definition regval_source (h : heap) (rv : addr) : bool :=
  match nth_error h rv with Some (CRegVal _ b _) => b | _ => false end.

(** kinds: even = Literal, odd = Call (type(node) is Call) *)
Definition is_call_kind (k : nat) : bool := Nat.odd k.
Definition K_STORE_LIT : nat := 100.   (* plan.lit(value_store) *)
Definition K_READ : nat := 101.        (* value_store.__class__.read call *)
Definition K_WRITE : nat := 103.       (* value_store.__class__.write call *)
Definition K_BARRIER : nat := 102.     (* plan.lit(Barrier) *)
Definition K_SCOPE : nat := 104.       (* _rendering.Scope() *)

(** ---- Plan.copy / Registry.copy ---- *)
(** new_plan = Plan(); new_plan.graph = self.graph.copy(): a new graph object with the same node
    objects and edges; a new Plan with empty scope.  New graph at [length h], new plan at [length h + 1]. *)
Definition copy_plan_cmds (h : heap) (p : addr) : list cmd :=
  let g := graph_of h p in
  [Alloc (CGraph (gnodes h g) (gedges h g)); Alloc (CPlan (length h) [])].

(** {node: copy.copy(registry_value) ...}: one new RegistryValue per entry ([fixed]); the variant
    [fixed = false] shares the RegistryValue objects. New registry at [length h + number of entries]. *)
Definition copy_registry_cmds (fixed : bool) (h : heap) (r : addr) : list cmd :=
  let en := entries_of h r in
  if fixed then
    map (fun e => Alloc (match nth_error h (snd e) with Some c => c | None => CRegVal 0 false 0 end)) en ++
    [Alloc (CRegistry (combine (map fst en) (seq (length h) (length en))))]
  else [Alloc (CRegistry en)].

Definition copied_registry (fixed : bool) (h : heap) (r : addr) : addr :=
  if fixed then length h + length (entries_of h r) else length h.

(** ---- the public building API, as operations on a plan / registry address ---- *)
Inductive bop :=
| BNewNode (kind : nat)                   (* Call(...)/Literal(...) with scope = plan._scope; graph.add_node *)
| BEdge (s d : addr) (k : ekey)           (* graph.add_edge(s, d, key): argument edges of _call, add_dependency *)
| BScope (sc : list nat).                 (* entering / leaving plan.scope(...) *)

(** Plan.call / lit / gather / unpack / add_dependency are sequences of these *)
Definition bop_cmds (h : heap) (p : addr) (o : bop) : list cmd :=
  let g := graph_of h p in
  match o with
  | BNewNode k => [Alloc (CNode k (plan_scope h p)); AddNode g (length h)]
  | BEdge s d k => [AddEdge g (s, d, k)]
  | BScope sc => [SetPlanScope p sc]
  end.

Fixpoint bops_cmds (h : heap) (p : addr) (ops : list bop) : list cmd :=
  match ops with
  | [] => []
  | o :: r => bop_cmds h p o ++ bops_cmds (run h (bop_cmds h p o)) p r
  end.

Definition bops_run (h : heap) (p : addr) (ops : list bop) : heap := run h (bops_cmds h p ops).

(** registry.source(plan, store) is [BNewNode] on the plan followed by [RAdd] of the new node *)
Inductive rop :=
| RAdd (n : addr) (store frame : nat)               (* registry.add(node, store) *)
| RSetFlag (n : addr) (b : bool).                   (* registry.mapping[n].is_source = b *)

Definition lookup_entry (en : list (addr * addr)) (n : addr) : option addr :=
  match find (fun e => fst e =? n) en with Some e => Some (snd e) | None => None end.

Definition rop_cmds (h : heap) (r : addr) (o : rop) : list cmd :=
  match o with
  | RAdd n store frame => [Alloc (CRegVal store false frame); SetEntry r n (length h)]
  | RSetFlag n b => match lookup_entry (entries_of h r) n with
                    | Some rv => [SetIsSource rv b]
                    | None => []          (* KeyError: nothing is written *)
                    end
  end.

Fixpoint rops_cmds (h : heap) (r : addr) (ops : list rop) : list cmd :=
  match ops with
  | [] => []
  | o :: rest => rop_cmds h r o ++ rops_cmds (run h (rop_cmds h r o)) r rest
  end.

Definition rops_run (h : heap) (r : addr) (ops : list rop) : heap := run h (rops_cmds h r ops).

(** ---- the phases of uberjob.run on (copy graph gc, copy plan pc) ---- *)
(** _add_value_store(plan, node, registry_value, is_stale) on the plan it is given *)
Definition avs_cmds (gc pc next n : addr) (is_call : bool) (nscope : list nat) (nkind : nat)
           (is_source is_stale : bool) (preds : list addr) (outs : list (addr * ekey)) : list cmd :=
  let a_lit := next in
  let a_read := S next in
  let a_w := S (S next) in
  let full := nscope ++ [nkind] in           (* get_full_call_scope(node) *)
  [SetPlanScope pc nscope;                    (* with plan.scope( *node.scope ) *)
   Alloc (CNode K_STORE_LIT nscope); AddNode gc a_lit;
   Alloc (CNode K_READ nscope); AddNode gc a_read; AddEdge gc (a_lit, a_read, Pos 0)] ++
  (if is_call then [SetScope a_read full] else []) ++
  (if is_stale then
     (if is_source
      then [Alloc (CNode K_BARRIER nscope); AddNode gc a_w] ++ map (fun p => AddEdge gc (p, a_w, Dep)) preds
      else [Alloc (CNode K_WRITE nscope); AddNode gc a_w; AddEdge gc (a_lit, a_w, Pos 0); AddEdge gc (n, a_w, Pos 1)] ++
           (if is_call then [SetScope a_w full] else []))
     ++ [AddEdge gc (a_w, a_read, Dep)]
   else []) ++
  [SetPlanScope pc []] ++
  flat_map (fun o => RemoveEdge gc (n, fst o, snd o) ::
                     match snd o with
                     | Dep => if is_stale then [AddEdge gc (a_w, fst o, Dep)] else []
                     | k => [AddEdge gc (a_read, fst o, k)]
                     end) outs.

Definition preds_of (h : heap) (g n : addr) : list addr :=
  nodup Nat.eq_dec (map (fun e => fst (fst e)) (filter (fun e => snd (fst e) =? n) (gedges h g))).
Definition outs_of (h : heap) (g n : addr) : list (addr * ekey) :=
  map (fun e => (snd (fst e), snd e)) (filter (fun e => fst (fst e) =? n) (gedges h g)).

Definition avs_phase (gc pc : addr) (stale : addr -> bool) (h : heap) (entry : addr * addr) : list cmd :=
  let n := fst entry in
  avs_cmds gc pc (length h) n (is_call_kind (node_kind h n)) (node_scope h n) (node_kind h n)
           (regval_source h (snd entry)) (stale n) (preds_of h gc n) (outs_of h gc n).

Fixpoint avs_all (gc pc : addr) (stale : addr -> bool) (h : heap) (entries : list (addr * addr)) : list cmd :=
  match entries with
  | [] => []
  | e :: r => let c := avs_phase gc pc stale h e in c ++ avs_all gc pc stale (run h c) r
  end.

(** prune_plan / _prune_literal_if_trivial / prune_source_literals: which nodes and literals go is
    decided from the graph; whatever the decision, the writes are these, on the graph handed over *)
Definition prune_cmds (g : addr) (remove : list addr) (elide : list (addr * list addr * list addr)) : list cmd :=
  map (RemoveNode g) remove ++
  flat_map (fun t => let '(lit, ps, ss) := t in
                     flat_map (fun p => map (fun s => AddEdge g (p, s, Dep)) ss) ps ++ [RemoveNode g lit]) elide.

Record run_params := {
  out_ops : list bop;                                   (* plan._gather(output) on the copy *)
  with_registry : bool;
  stale : addr -> bool;                                 (* result of _get_stale_nodes *)
  stale_lits : list addr;                               (* prune_source_literals(inplace=False) inside _get_stale_nodes *)
  prune_nodes : list addr;                              (* prune_plan: complement of the ancestors *)
  elide : list (addr * list addr * list addr);          (* trivial literals with their preds / succs *)
  source_lits : list addr                               (* prune_source_literals in run_physical *)
}.

Inductive outcome := Success | StaleCheckFails | RunFails | DryRun.

(** uberjob.run.  [inplace = false] is the code as it is: get_mutable_plan(plan, inplace=False) first.
    [inplace = true] is the variant that works on the caller's plan. *)
Definition run_pipeline (inplace : bool) (h0 : heap) (p r : addr) (ps : run_params) (oc : outcome) : list cmd :=
  let c1 := if inplace then [] else copy_plan_cmds h0 p in
  let h1 := run h0 c1 in
  let gc := if inplace then graph_of h0 p else length h0 in
  let pc := if inplace then p else S (length h0) in
  let c2 := bops_cmds h1 pc (out_ops ps) in
  let h2 := run h1 c2 in
  if with_registry ps then
    let c3 := copy_plan_cmds h2 pc ++ map (RemoveNode (length h2)) (stale_lits ps) in   (* the stale check's private copy *)
    let h3 := run h2 c3 in
    match oc with
    | StaleCheckFails => c1 ++ c2 ++ c3
    | _ =>
        let c4 := avs_all gc pc (stale ps) h3 (entries_of h3 r) in
        let c5 := prune_cmds gc (prune_nodes ps) (elide ps) in
        match oc with
        | DryRun => c1 ++ c2 ++ c3 ++ c4 ++ c5
        | _ => c1 ++ c2 ++ c3 ++ c4 ++ c5 ++ map (RemoveNode gc) (source_lits ps)
        end
    end
  else
    let c5 := prune_cmds gc (prune_nodes ps) (elide ps) in
    match oc with
    | DryRun => c1 ++ c2 ++ c5
    | _ => c1 ++ c2 ++ c5 ++ map (RemoveNode gc) (source_lits ps)
    end.

(** uberjob.render: graph.copy(), predicate removal, scope grouping - all on the copied graph *)
Definition render_cmds (h : heap) (g : addr) (removed : list addr)
           (groups : list (list nat * list addr * list edge)) : list cmd :=
  let gc := length h in
  [Alloc (CGraph (gnodes h g) (gedges h g))] ++ map (RemoveNode gc) removed ++
  (fix go (next : addr) (gs : list (list nat * list addr * list edge)) : list cmd :=
     match gs with
     | [] => []
     | (sc, members, new_edges) :: rest =>
         [Alloc (CNode K_SCOPE sc); AddNode gc next] ++ map (RemoveNode gc) members ++
         map (AddEdge gc) new_edges ++ go (S next) rest
     end) (S gc) groups.

(** what a run reads from the caller's objects: the plan cell, its graph cell, every node cell of the
    graph, the registry cell and every RegistryValue cell *)
Definition view (h : heap) (p r : addr) : list (option cell) :=
  let g := graph_of h p in
  [nth_error h p; nth_error h g] ++ map (nth_error h) (gnodes h g) ++
  [nth_error h r] ++ map (fun e => nth_error h (snd e)) (entries_of h r) ++
  map (fun e => nth_error h (fst e)) (entries_of h r).

(** every address stored in a cell reachable from the caller's plan / registry is allocated *)
Definition refs_ok (h : heap) (p r : addr) : Prop :=
  p < length h /\ graph_of h p < length h /\ r < length h /\
  (forall n, In n (gnodes h (graph_of h p)) -> n < length h) /\
  (forall e, In e (entries_of h r) -> fst e < length h /\ snd e < length h).
