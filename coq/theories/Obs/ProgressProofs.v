(** Proofs about Obs/Progress.v: counters and elapsed time of the State under well-formed notification
    sequences, independent of the renderer (any [rf]). *)
From Coq Require Import List Arith ZArith QArith Bool Lia.
Import ListNotations.
From UJ Require Import Obs.Progress.
Local Open Scope Z_scope.

(** * keys *)
Lemma scope_eqb_eq a b : scope_eqb a b = true <-> a = b.
Proof.
  revert b; induction a as [|x a IH]; intros [|y b]; cbn; split; intro H; try discriminate; try reflexivity.
  - apply andb_true_iff in H as [H1 H2]. apply Nat.eqb_eq in H1. apply IH in H2. now subst.
  - inversion H; subst. rewrite Nat.eqb_refl. cbn. now apply IH.
Qed.

Lemma key_eqb_eq a b : key_eqb a b = true <-> a = b.
Proof.
  destruct a as [s a], b as [s' b]; unfold key_eqb; cbn. split; intro H.
  - apply andb_true_iff in H as [H1 H2]. apply Nat.eqb_eq in H1. apply scope_eqb_eq in H2. now subst.
  - inversion H; subst. rewrite Nat.eqb_refl. cbn. now apply scope_eqb_eq.
Qed.

Lemma key_eqb_refl a : key_eqb a a = true.
Proof. now apply key_eqb_eq. Qed.

Lemma key_eqb_neq a b : key_eqb a b = false <-> a <> b.
Proof.
  split; intro H.
  - intro E. apply key_eqb_eq in E. congruence.
  - destruct (key_eqb a b) eqn:E; [apply key_eqb_eq in E; contradiction | reflexivity].
Qed.

Lemma key_eqb_sym a b : key_eqb a b = key_eqb b a.
Proof.
  destruct (key_eqb a b) eqn:E.
  - apply key_eqb_eq in E. subst. now rewrite key_eqb_refl.
  - symmetry. apply key_eqb_neq. apply key_eqb_neq in E. congruence.
Qed.

(** * counting under well-formedness *)
Fixpoint announced (k : key) (l : list note) : bool :=
  match l with
  | [] => false
  | Total k' _ :: r => key_eqb k k' || announced k r
  | _ :: r => announced k r
  end.

Lemma not_announced_ntot k p : announced k p = false -> ntot k p = 0.
Proof.
  induction p as [|e p IH]; cbn; [reflexivity|]. destruct e; cbn; auto.
  intro H. apply orb_false_iff in H as [H1 H2]. rewrite H1. rewrite IH by assumption. reflexivity.
Qed.

Lemma wf_rev_tail so e p : wf_rev so (e :: p) = true -> wf_rev so p = true.
Proof. cbn. intro H. now apply andb_true_iff in H as [H _]. Qed.

Lemma wf_rev_head so e p : wf_rev so (e :: p) = true -> ok_next so p e = true.
Proof. cbn. intro H. now apply andb_true_iff in H as [_ H]. Qed.

Lemma wf_counts so p :
  wf_rev so p = true ->
  forall k, 0 <= ncompl k p /\ 0 <= nfail k p /\ ncompl k p + nfail k p <= nrun k p /\ nrun k p <= ntot k p.
Proof.
  induction p as [|e p IH]; intros Hwf k.
  - cbn. lia.
  - pose proof (wf_rev_head _ _ _ Hwf) as Hok. specialize (IH (wf_rev_tail _ _ _ Hwf)).
    destruct e as [|k' a|k'|k'|k'|]; cbn in Hok; try discriminate; cbn [ntot nrun ncompl nfail].
    + apply andb_true_iff in Hok as [Ha _]. apply Z.ltb_lt in Ha.
      specialize (IH k). destruct (key_eqb k k'); lia.
    + apply Z.ltb_lt in Hok. destruct (key_eqb k k') eqn:E.
      * apply key_eqb_eq in E. subst k'. specialize (IH k). lia.
      * specialize (IH k). lia.
    + apply Z.ltb_lt in Hok. destruct (key_eqb k k') eqn:E.
      * apply key_eqb_eq in E. subst k'. specialize (IH k). lia.
      * specialize (IH k). lia.
    + apply Z.ltb_lt in Hok. destruct (key_eqb k k') eqn:E.
      * apply key_eqb_eq in E. subst k'. specialize (IH k). lia.
      * specialize (IH k). lia.
Qed.

Lemma wf_announced_pos so p :
  wf_rev so p = true -> forall k, announced k p = true -> 0 < ntot k p.
Proof.
  induction p as [|e p IH]; intros Hwf k Ha; [discriminate|].
  pose proof (wf_rev_head _ _ _ Hwf) as Hok. pose proof (wf_rev_tail _ _ _ Hwf) as Hwf'.
  pose proof (wf_counts _ _ Hwf' k) as Hc.
  destruct e as [|k' a|k'|k'|k'|]; cbn in Hok, Ha |- *; try discriminate; try (apply IH; assumption).
  apply andb_true_iff in Hok as [Hpos _]. apply Z.ltb_lt in Hpos.
  destruct (key_eqb k k') eqn:E; cbn in Ha.
  - lia.
  - specialize (IH Hwf' k Ha). lia.
Qed.

(** * association-list lemmas *)
Lemma lookup_in k m s : lookup k m = Some s -> In (k, s) m.
Proof.
  induction m as [|[k' s'] m IH]; cbn; [discriminate|]. destruct (key_eqb k k') eqn:E.
  - intro H. inversion H; subst. apply key_eqb_eq in E. subst. now left.
  - intro H. right. auto.
Qed.

Lemma lookup_none_notin k m : lookup k m = None -> ~ In k (map fst m).
Proof.
  induction m as [|[k' s'] m IH]; cbn; [tauto|]. destruct (key_eqb k k') eqn:E; [discriminate|].
  intros H [H1|H1]; [subst; rewrite key_eqb_refl in E; discriminate | now apply IH].
Qed.

Lemma in_lookup k s m : NoDup (map fst m) -> In (k, s) m -> lookup k m = Some s.
Proof.
  induction m as [|[k' s'] m IH]; cbn; [tauto|]. intros Hnd [H|H].
  - inversion H; subst. now rewrite key_eqb_refl.
  - inversion Hnd; subst. destruct (key_eqb k k') eqn:E.
    + apply key_eqb_eq in E. subst. exfalso. apply H2. change k' with (fst (k', s)). now apply in_map.
    + auto.
Qed.

Lemma lookup_update_same k f m s : lookup k m = Some s -> lookup k (update k f m) = Some (f s).
Proof.
  induction m as [|[k' s'] m IH]; cbn; [discriminate|]. destruct (key_eqb k k') eqn:E; cbn; rewrite E.
  - intro H. now inversion H.
  - auto.
Qed.

Lemma lookup_update_other k k2 f m : key_eqb k2 k = false -> lookup k2 (update k f m) = lookup k2 m.
Proof.
  intro Hne. induction m as [|[k' s'] m IH]; cbn; [reflexivity|]. destruct (key_eqb k k') eqn:E; cbn.
  - apply key_eqb_eq in E. subst k'. now rewrite Hne.
  - destruct (key_eqb k2 k'); auto.
Qed.

Lemma update_keys k f m : map fst (update k f m) = map fst m.
Proof.
  induction m as [|[k' s'] m IH]; cbn; [reflexivity|]. destruct (key_eqb k k'); cbn; [reflexivity|now rewrite IH].
Qed.

Lemma sum_running_update k f m s :
  lookup k m = Some s -> sum_running (update k f m) = sum_running m + (running (f s) - running s).
Proof.
  induction m as [|[k' s'] m IH]; cbn; [discriminate|]. destruct (key_eqb k k') eqn:E; cbn.
  - intro H. inversion H; subst. lia.
  - intro H. rewrite IH by assumption. lia.
Qed.

Lemma lookup_app_new k2 k s m :
  lookup k2 (m ++ [(k, s)]) = match lookup k2 m with Some x => Some x | None => if key_eqb k2 k then Some s else None end.
Proof.
  induction m as [|[k' s'] m IH]; cbn; [reflexivity|]. destruct (key_eqb k2 k'); auto.
Qed.

Lemma sum_running_app m k s : sum_running (m ++ [(k, s)]) = sum_running m + running s.
Proof. induction m as [|[k' s'] m IH]; cbn; [lia|]. rewrite IH. lia. Qed.

(** counters of a scope state (everything but the elapsed time) *)
Definition ceq (a b : sstate) : Prop :=
  completed a = completed b /\ failed a = failed b /\ running a = running b /\ total a = total b.

Lemma ceq_refl a : ceq a a.
Proof. unfold ceq; tauto. Qed.

Section MapVals.
  Variable g : key * sstate -> key * sstate.
  Hypothesis g_key : forall ks, fst (g ks) = fst ks.
  Hypothesis g_ceq : forall ks, ceq (snd ks) (snd (g ks)).

  Lemma map_vals_keys m : map fst (map g m) = map fst m.
  Proof. induction m as [|ks m IH]; cbn; [reflexivity|]. now rewrite g_key, IH. Qed.

  Lemma lookup_map_vals k m :
    match lookup k m with
    | None => lookup k (map g m) = None
    | Some s => exists s', lookup k (map g m) = Some s' /\ ceq s s'
    end.
  Proof.
    induction m as [|[k' s'] m IH]; cbn; [reflexivity|].
    pose proof (g_key (k', s')) as Hk. pose proof (g_ceq (k', s')) as Hc.
    destruct (g (k', s')) as [k2 s2] eqn:Eg. cbn in Hk, Hc. subst k2.
    destruct (key_eqb k k') eqn:E.
    - exists s2. split; [reflexivity|assumption].
    - exact IH.
  Qed.

  Lemma sum_running_map_vals m : sum_running (map g m) = sum_running m.
  Proof.
    induction m as [|ks m IH]; cbn; [reflexivity|]. rewrite IH.
    destruct (g_ceq ks) as (_ & _ & H & _). lia.
  Qed.
End MapVals.

Lemma NoDup_app_new {A} (l : list A) (x : A) : NoDup l -> ~ In x l -> NoDup (l ++ [x]).
Proof.
  induction l as [|y l IH]; cbn; intros Hnd Hni.
  - constructor; [tauto|constructor].
  - inversion Hnd; subst. constructor.
    + rewrite in_app_iff. cbn. intros [H|[H|[]]]; [tauto|]. subst. tauto.
    + apply IH; tauto.
Qed.

Fixpoint knodup (l : list key) : Prop :=
  match l with [] => True | k :: r => kmem k r = false /\ knodup r end.

(** * the simulation invariant between a notification history and the State *)
Record Sim (p : list note) (st : State) : Prop := {
  sim_nodup : NoDup (map fst (mapping st));
  sim_absent : forall k, lookup k (mapping st) = None -> announced k p = false;
  sim_counts : forall k s, lookup k (mapping st) = Some s ->
      announced k p = true /\ total s = ntot k p /\ completed s = ncompl k p /\ failed s = nfail k p /\
      running s = nrun k p - ncompl k p - nfail k p;
  sim_rc : running_count st = sum_running (mapping st);
  sim_rs_nodup : knodup (running_set st);
  sim_rs : forall k, kmem k (running_set st) = true <-> exists s, lookup k (mapping st) = Some s /\ 0 < running s }.

Lemma Sim_init start : Sim [] (State0 start).
Proof.
  constructor; cbn.
  - constructor.
  - reflexivity.
  - discriminate.
  - reflexivity.
  - exact I.
  - intros k; split; [discriminate|]. intros (s & H & _). discriminate.
Qed.

Lemma uwe_mapping t st :
  mapping (update_weighted_elapsed t st) =
  map (fun ks => if negb (running_count st =? 0) && kmem (fst ks) (running_set st)
                 then (fst ks, add_elapsed (inject_Z (running (snd ks)) * ((t - prev_time st) / inject_Z (running_count st)))%Q (snd ks))
                 else ks) (mapping st).
Proof.
  unfold update_weighted_elapsed; cbn. destruct (running_count st =? 0); cbn.
  - symmetry. rewrite <- (map_id (mapping st)) at 2. apply map_ext. reflexivity.
  - apply map_ext. intros ks. reflexivity.
Qed.

Lemma Sim_uwe p st t : Sim p st -> Sim p (update_weighted_elapsed t st).
Proof.
  intros [H1 H2 H3 H4 H6 H5].
  set (g := fun ks : key * sstate =>
              if negb (running_count st =? 0) && kmem (fst ks) (running_set st)
              then (fst ks, add_elapsed (inject_Z (running (snd ks)) * ((t - prev_time st) / inject_Z (running_count st)))%Q (snd ks))
              else ks).
  assert (Gk : forall ks, fst (g ks) = fst ks).
  { intros ks. unfold g. destruct (negb _ && _); reflexivity. }
  assert (Gc : forall ks, ceq (snd ks) (snd (g ks))).
  { intros ks. unfold g. destruct (negb _ && _); cbn; unfold ceq; cbn; tauto. }
  assert (Hm : mapping (update_weighted_elapsed t st) = map g (mapping st)) by apply uwe_mapping.
  constructor; rewrite ?Hm.
  - rewrite (map_vals_keys g Gk). assumption.
  - intros k Hk. pose proof (lookup_map_vals g Gk Gc k (mapping st)) as L.
    destruct (lookup k (mapping st)) eqn:E; [destruct L as (s' & L & _); congruence | now apply H2].
  - intros k s' Hk. pose proof (lookup_map_vals g Gk Gc k (mapping st)) as L.
    destruct (lookup k (mapping st)) as [s|] eqn:E; [|congruence].
    destruct L as (s2 & L & (C1 & C2 & C3 & C4)). rewrite L in Hk. inversion Hk; subst s2.
    specialize (H3 k s E). rewrite <- C1, <- C2, <- C3, <- C4. exact H3.
  - cbn [running_count update_weighted_elapsed]. rewrite H4. symmetry. apply (sum_running_map_vals g Gc).
  - exact H6.
  - intros k. cbn [running_set update_weighted_elapsed]. rewrite H5.
    pose proof (lookup_map_vals g Gk Gc k (mapping st)) as L.
    split; intros (s & Hs & Hr).
    + rewrite Hs in L. destruct L as (s' & L & (_ & _ & C3 & _)). exists s'. split; [assumption|lia].
    + destruct (lookup k (mapping st)) as [s0|] eqn:E; [|congruence].
      destruct L as (s' & L & (_ & _ & C3 & _)). rewrite L in Hs. inversion Hs; subst s'.
      exists s0. split; [reflexivity|lia].
Qed.

Lemma kmem_app k l x : kmem k (l ++ [x]) = kmem k l || key_eqb k x.
Proof. induction l as [|y l IH]; cbn; [now rewrite orb_false_r|]. rewrite IH. now rewrite orb_assoc. Qed.

Lemma kmem_kremove_other k k2 l : key_eqb k2 k = false -> kmem k2 (kremove k l) = kmem k2 l.
Proof.
  intro Hne. induction l as [|y l IH]; cbn; [reflexivity|]. destruct (key_eqb k y) eqn:E; cbn.
  - apply key_eqb_eq in E. subst y. now rewrite Hne.
  - now rewrite IH.
Qed.

(** [Sim] determines membership in the running set, so a single removal suffices only if the set has no
    duplicates; we keep that as a separate invariant. *)

Lemma kmem_kremove_same k l : knodup l -> kmem k (kremove k l) = false.
Proof.
  induction l as [|y l IH]; cbn; [reflexivity|]. intros [H1 H2]. destruct (key_eqb k y) eqn:E; cbn.
  - apply key_eqb_eq in E. now subst.
  - rewrite E. now apply IH.
Qed.

Lemma knodup_kremove k l : knodup l -> knodup (kremove k l).
Proof.
  induction l as [|y l IH]; cbn; [tauto|]. intros [H1 H2]. destruct (key_eqb k y) eqn:E; cbn; [assumption|].
  split; [|now apply IH].
  rewrite kmem_kremove_other; [assumption|]. rewrite key_eqb_sym. exact E.
Qed.

Lemma knodup_app_new k l : knodup l -> kmem k l = false -> knodup (l ++ [k]).
Proof.
  induction l as [|y l IH]; cbn; [tauto|]. intros [H1 H2] H3. apply orb_false_iff in H3 as [H3 H4].
  split; [|now apply IH]. rewrite kmem_app, H1. cbn. now rewrite key_eqb_sym.
Qed.

(** * one notification *)
Definition apply_note (n : note) (t : Q) (st : State) : result State :=
  match n with
  | Total k a => Ok (increment_total k a st)
  | Running k => increment_running k t st
  | Completed k => increment_finished true k t st
  | Failed k => increment_finished false k t st
  | Enter | Exit => Ok st
  end.

Lemma Sim_total so p st k a :
  Sim p st -> wf_rev so (Total k a :: p) = true -> Sim (Total k a :: p) (increment_total k a st).
Proof.
  intros [H1 H2 H3 H4 H6 H5] Hwf. unfold increment_total.
  destruct (lookup k (mapping st)) as [s|] eqn:E.
  - constructor; cbn [mapping running_count running_set].
    + now rewrite update_keys.
    + intros k2 Hk. cbn [announced]. destruct (key_eqb k2 k) eqn:E2.
      * apply key_eqb_eq in E2. subst k2. rewrite (lookup_update_same _ _ _ _ E) in Hk. discriminate.
      * rewrite lookup_update_other in Hk by assumption. cbn. now apply H2.
    + intros k2 s2 Hk. cbn [announced ntot nrun ncompl nfail]. destruct (key_eqb k2 k) eqn:E2.
      * apply key_eqb_eq in E2. subst k2. rewrite (lookup_update_same _ _ _ _ E) in Hk. inversion Hk; subst s2.
        destruct (H3 k s E) as (A1 & A2 & A3 & A4 & A5). cbn. repeat split; try assumption; lia.
      * rewrite lookup_update_other in Hk by assumption. destruct (H3 k2 s2 Hk) as (A1 & A2 & A3 & A4 & A5).
        cbn. repeat split; try assumption; lia.
    + rewrite (sum_running_update _ _ _ _ E). cbn. lia.
    + exact H6.
    + intros k2. rewrite H5. destruct (key_eqb k2 k) eqn:E2.
      * apply key_eqb_eq in E2. subst k2. rewrite (lookup_update_same _ _ _ _ E), E. split; intros (s' & Hs & Hr).
        -- inversion Hs; subst s'. eexists; split; [reflexivity|]. cbn. assumption.
        -- inversion Hs; subst s'. eexists; split; [reflexivity|]. cbn in Hr. assumption.
      * rewrite lookup_update_other by assumption. tauto.
  - constructor; cbn [mapping running_count running_set].
    + rewrite map_app. cbn. apply NoDup_app_new.
      * assumption.
      * now apply lookup_none_notin.
    + intros k2 Hk. rewrite lookup_app_new in Hk. cbn [announced].
      destruct (lookup k2 (mapping st)) eqn:E2; [discriminate|]. destruct (key_eqb k2 k) eqn:E3; [discriminate|].
      cbn. now apply H2.
    + intros k2 s2 Hk. rewrite lookup_app_new in Hk. cbn [announced ntot nrun ncompl nfail].
      destruct (lookup k2 (mapping st)) as [s3|] eqn:E2.
      * inversion Hk; subst s3. destruct (H3 k2 s2 E2) as (A1 & A2 & A3 & A4 & A5).
        destruct (key_eqb k2 k) eqn:E3.
        -- apply key_eqb_eq in E3. subst k2. congruence.
        -- cbn. repeat split; try assumption; lia.
      * destruct (key_eqb k2 k) eqn:E3; [|discriminate]. inversion Hk; subst s2. cbn.
        apply key_eqb_eq in E3. subst k2.
        pose proof (H2 k E) as Hna. pose proof (not_announced_ntot _ _ Hna) as Hz.
        pose proof (wf_counts _ _ (wf_rev_tail _ _ _ Hwf) k) as Hc.
        repeat split; lia.
    + rewrite sum_running_app. cbn. lia.
    + exact H6.
    + intros k2. rewrite H5. rewrite lookup_app_new.
      destruct (lookup k2 (mapping st)) as [s3|] eqn:E2; [tauto|].
      split; intros (s' & Hs & Hr); [discriminate|].
      destruct (key_eqb k2 k); [|discriminate]. inversion Hs; subst s'. cbn in Hr. lia.
Qed.

Lemma wf_key_listed so p st k :
  Sim p st -> wf_rev so p = true -> 0 < ntot k p -> exists s, lookup k (mapping st) = Some s.
Proof.
  intros HS Hwf Hpos. destruct (lookup k (mapping st)) as [s|] eqn:E; [eauto|].
  pose proof (sim_absent _ _ HS k E) as Hna. pose proof (not_announced_ntot _ _ Hna). lia.
Qed.

Lemma Sim_running so p st k t :
  Sim p st -> wf_rev so (Running k :: p) = true ->
  exists st', increment_running k t st = Ok st' /\ Sim (Running k :: p) st'.
Proof.
  intros HS0 Hwf. pose proof (wf_rev_tail _ _ _ Hwf) as Hwf'. pose proof (wf_rev_head _ _ _ Hwf) as Hok.
  cbn in Hok. apply Z.ltb_lt in Hok. pose proof (wf_counts _ _ Hwf' k) as Hc.
  pose proof (Sim_uwe p st t HS0) as HS. unfold increment_running.
  set (st1 := update_weighted_elapsed t st) in *.
  destruct (wf_key_listed so p st1 k HS Hwf' ltac:(lia)) as (s & E). rewrite E.
  eexists; split; [reflexivity|]. destruct HS as [H1 H2 H3 H4 H6 H5].
  destruct (H3 k s E) as (A1 & A2 & A3 & A4 & A5).
  constructor; cbn [mapping running_count running_set].
  - now rewrite update_keys.
  - intros k2 Hk. cbn [announced]. destruct (key_eqb k2 k) eqn:E2.
    + apply key_eqb_eq in E2. subst k2. rewrite (lookup_update_same _ _ _ _ E) in Hk. discriminate.
    + rewrite lookup_update_other in Hk by assumption. now apply H2.
  - intros k2 s2 Hk. cbn [announced ntot nrun ncompl nfail]. destruct (key_eqb k2 k) eqn:E2.
    + apply key_eqb_eq in E2. subst k2. rewrite (lookup_update_same _ _ _ _ E) in Hk. inversion Hk; subst s2.
      rewrite ?key_eqb_refl. cbn [add_running finish add_total sstate0 running total completed failed welapsed]. repeat split; try assumption; lia.
    + rewrite lookup_update_other in Hk by assumption. destruct (H3 k2 s2 Hk) as (B1 & B2 & B3 & B4 & B5).
      rewrite ?E2. repeat split; try assumption; lia.
  - rewrite (sum_running_update _ _ _ _ E). cbn [add_running finish add_total sstate0 running total completed failed welapsed]. lia.
  - destruct (kmem k (running_set st1)) eqn:Em; [assumption|]. now apply knodup_app_new.
  - intros k2. destruct (key_eqb k2 k) eqn:E2.
    + apply key_eqb_eq in E2. subst k2. rewrite (lookup_update_same _ _ _ _ E). split.
      * intros _. eexists; split; [reflexivity|]. cbn [add_running finish add_total sstate0 running total completed failed welapsed]. lia.
      * intros _. destruct (kmem k (running_set st1)) eqn:Em; [assumption|].
        rewrite kmem_app, key_eqb_refl. apply orb_true_r.
    + rewrite lookup_update_other by assumption. rewrite <- H5.
      destruct (kmem k (running_set st1)) eqn:Em; [tauto|]. rewrite kmem_app, E2, orb_false_r. tauto.
Qed.

Definition fin_note (ok : bool) (k : key) : note := if ok then Completed k else Failed k.

Lemma Sim_finished so p st ok k t :
  Sim p st -> wf_rev so (fin_note ok k :: p) = true ->
  exists st', increment_finished ok k t st = Ok st' /\ Sim (fin_note ok k :: p) st'.
Proof.
  intros HS0 Hwf. pose proof (wf_rev_tail _ _ _ Hwf) as Hwf'. pose proof (wf_rev_head _ _ _ Hwf) as Hok.
  assert (Hlt : ncompl k p + nfail k p < nrun k p).
  { destruct ok; cbn in Hok; now apply Z.ltb_lt in Hok. }
  clear Hok. pose proof (wf_counts _ _ Hwf' k) as Hc.
  pose proof (Sim_uwe p st t HS0) as HS. unfold increment_finished.
  set (st1 := update_weighted_elapsed t st) in *.
  destruct (wf_key_listed so p st1 k HS Hwf' ltac:(lia)) as (s & E). rewrite E.
  destruct HS as [H1 H2 H3 H4 H6 H5].
  destruct (H3 k s E) as (A1 & A2 & A3 & A4 & A5).
  assert (Hmem : kmem k (running_set st1) = true).
  { apply H5. exists s. split; [assumption|lia]. }
  rewrite Hmem. cbn [negb]. rewrite andb_false_r.
  eexists; split; [reflexivity|].
  constructor; cbn [mapping running_count running_set].
  - now rewrite update_keys.
  - intros k2 Hk. destruct (key_eqb k2 k) eqn:E2.
    + apply key_eqb_eq in E2. subst k2. rewrite (lookup_update_same _ _ _ _ E) in Hk. discriminate.
    + rewrite lookup_update_other in Hk by assumption. destruct ok; cbn [fin_note announced]; now apply H2.
  - intros k2 s2 Hk. destruct (key_eqb k2 k) eqn:E2.
    + apply key_eqb_eq in E2. subst k2. rewrite (lookup_update_same _ _ _ _ E) in Hk. inversion Hk; subst s2.
      destruct ok; cbn [fin_note announced ntot nrun ncompl nfail]; rewrite ?key_eqb_refl; cbn [add_running finish add_total sstate0 running total completed failed welapsed];
        repeat split; try assumption; lia.
    + rewrite lookup_update_other in Hk by assumption. destruct (H3 k2 s2 Hk) as (B1 & B2 & B3 & B4 & B5).
      destruct ok; cbn [fin_note announced ntot nrun ncompl nfail]; rewrite ?E2;
        repeat split; try assumption; lia.
  - rewrite (sum_running_update _ _ _ _ E). destruct ok; cbn [add_running finish add_total sstate0 running total completed failed welapsed]; lia.
  - destruct (running s - 1 =? 0); [now apply knodup_kremove|assumption].
  - intros k2. destruct (key_eqb k2 k) eqn:E2.
    + apply key_eqb_eq in E2. subst k2. rewrite (lookup_update_same _ _ _ _ E).
      destruct (running s - 1 =? 0) eqn:Ez.
      * apply Z.eqb_eq in Ez. rewrite kmem_kremove_same by assumption. split; [discriminate|].
        intros (s' & Hs & Hr). inversion Hs; subst s'. destruct ok; cbn [add_running finish add_total sstate0 running total completed failed welapsed] in Hr; lia.
      * apply Z.eqb_neq in Ez. rewrite Hmem. split; [|reflexivity]. intros _.
        eexists; split; [reflexivity|]. destruct ok; cbn [add_running finish add_total sstate0 running total completed failed welapsed]; lia.
    + rewrite lookup_update_other by assumption. rewrite <- H5.
      destruct (running s - 1 =? 0); [|tauto]. rewrite kmem_kremove_other by assumption. tauto.
Qed.

(** What [Sim] and well-formedness give for the displayed counters (the statement of C20_state_inv). *)
Definition StateInv (st : State) : Prop :=
  (forall k s, In (k, s) (mapping st) ->
     0 <= completed s /\ 0 <= failed s /\ 0 <= running s /\ 0 < total s /\
     completed s + failed s + running s <= total s) /\
  running_count st = sum_running (mapping st) /\
  0 <= running_count st /\
  NoDup (map fst (mapping st)) /\
  (forall k, kmem k (running_set st) = true <-> exists s, lookup k (mapping st) = Some s /\ 0 < running s).

Lemma sum_running_nonneg m : (forall k s, In (k, s) m -> 0 <= running s) -> 0 <= sum_running m.
Proof.
  induction m as [|[k s] m IH]; cbn; intros H; [lia|].
  pose proof (H k s (or_introl eq_refl)). assert (0 <= sum_running m) by (apply IH; intros; eapply H; right; eauto). lia.
Qed.

Lemma Sim_StateInv so p st : Sim p st -> wf_rev so p = true -> StateInv st.
Proof.
  intros HS Hwf. assert (Hall : forall k s, In (k, s) (mapping st) ->
     0 <= completed s /\ 0 <= failed s /\ 0 <= running s /\ 0 < total s /\
     completed s + failed s + running s <= total s).
  { intros k s Hin. pose proof (in_lookup _ _ _ (sim_nodup _ _ HS) Hin) as E.
    destruct (sim_counts _ _ HS k s E) as (A1 & A2 & A3 & A4 & A5).
    pose proof (wf_counts _ _ Hwf k). pose proof (wf_announced_pos _ _ Hwf k A1). lia. }
  split; [exact Hall|]. split; [apply (sim_rc _ _ HS)|]. split.
  - rewrite (sim_rc _ _ HS). apply sum_running_nonneg. intros k s Hin. now destruct (Hall k s Hin) as (_ & _ & ? & _).
  - split; [apply (sim_nodup _ _ HS)|apply (sim_rs _ _ HS)].
Qed.

(** * elapsed time: one update_weighted_elapsed adds exactly the elapsed interval when something runs *)
Lemma sum_elapsed_update k f m :
  (forall s, welapsed (f s) = welapsed s) -> sum_elapsed (update k f m) = sum_elapsed m.
Proof.
  intro Hf. induction m as [|[k' s'] m IH]; cbn; [reflexivity|]. destruct (key_eqb k k'); cbn.
  - now rewrite Hf.
  - now rewrite IH.
Qed.

Lemma sum_elapsed_app m k s : (sum_elapsed (m ++ [(k, s)]) == sum_elapsed m + welapsed s)%Q.
Proof.
  induction m as [|[k' s'] m IH]; cbn.
  - ring.
  - rewrite IH. ring.
Qed.

Fixpoint sum_sel (rs : list key) (m : list (key * sstate)) : Z :=
  match m with
  | [] => 0
  | ks :: r => (if kmem (fst ks) rs then running (snd ks) else 0) + sum_sel rs r
  end.

Lemma sum_sel_all rs m :
  (forall k s, In (k, s) m -> kmem k rs = false -> running s = 0) -> sum_sel rs m = sum_running m.
Proof.
  induction m as [|[k s] m IH]; cbn; intros H; [reflexivity|].
  rewrite IH by (intros; eapply H; eauto). destruct (kmem k rs) eqn:E; [reflexivity|].
  rewrite (H k s (or_introl eq_refl) E). reflexivity.
Qed.

Lemma sum_elapsed_map rs mult m :
  (sum_elapsed (map (fun ks : key * sstate =>
                       if kmem (fst ks) rs
                       then (fst ks, add_elapsed (inject_Z (running (snd ks)) * mult) (snd ks))
                       else ks) m)
   == sum_elapsed m + inject_Z (sum_sel rs m) * mult)%Q.
Proof.
  induction m as [|[k s] m IH]; cbn [map sum_elapsed sum_sel fst snd].
  - cbn. ring.
  - destruct (kmem k rs); cbn [snd fst welapsed add_elapsed]; rewrite IH, inject_Z_plus.
    + ring.
    + change (inject_Z 0) with 0%Q. ring.
Qed.

Lemma inject_Z_nonzero z : z <> 0 -> ~ (inject_Z z == 0)%Q.
Proof. intros Hz H. unfold Qeq in H. cbn in H. lia. Qed.

Lemma sum_elapsed_uwe st t :
  StateInv st ->
  (sum_elapsed (mapping (update_weighted_elapsed t st))
   == sum_elapsed (mapping st) + (if running_count st =? 0 then 0 else t - prev_time st))%Q.
Proof.
  intros (Hall & Hrc & Hnn & Hnd & Hrs). unfold update_weighted_elapsed; cbn [mapping].
  destruct (running_count st =? 0) eqn:Ez.
  - ring.
  - apply Z.eqb_neq in Ez. rewrite sum_elapsed_map. rewrite sum_sel_all.
    + rewrite <- Hrc. field. now apply inject_Z_nonzero.
    + intros k s Hin Hm. pose proof (in_lookup _ _ _ Hnd Hin) as E.
      destruct (Hall k s Hin) as (_ & _ & Hr & _).
      destruct (Z.eq_dec (running s) 0) as [|Hne]; [assumption|]. exfalso.
      assert (kmem k (running_set st) = true) by (apply Hrs; exists s; split; [assumption|lia]). congruence.
Qed.

Lemma increment_running_shape k t st st' :
  increment_running k t st = Ok st' ->
  mapping st' = update k (add_running 1) (mapping (update_weighted_elapsed t st)) /\ prev_time st' = t /\
  running_count st' = running_count st + 1.
Proof.
  unfold increment_running. destruct (lookup k _); [|discriminate]. intro H. inversion H; subst; cbn. tauto.
Qed.

Lemma increment_finished_shape ok k t st st' :
  increment_finished ok k t st = Ok st' ->
  mapping st' = update k (finish ok) (mapping (update_weighted_elapsed t st)) /\ prev_time st' = t /\
  running_count st' = running_count st - 1.
Proof.
  unfold increment_finished. destruct (lookup k _); [|discriminate]. destruct (_ && _); [discriminate|].
  intro H. inversion H; subst; cbn. tauto.
Qed.

(** * the observer: invariants along a run, for any renderer *)
Section ObserverProofs.
  Variable Out : Type.
  Variable rf : list (key * sstate) -> list nat -> result (Out * list nat).
  Variable mi : Q.
  Variable start : Q.

  Local Notation run := (run_rev Out rf mi start).

  Lemma do_render_cases o t1 t2 o' out :
    do_render Out rf mi o t1 t2 = Ok (o', out) ->
    (o' = o /\ out = None /\ o_stale o = false) \/
    (exists x sk, out = Some x /\
       rf (mapping (update_weighted_elapsed t2 (o_state o))) (o_skipped o) = Ok (x, sk) /\
       o_state o' = update_weighted_elapsed t2 (o_state o) /\ o_stale o' = false /\ o_skipped o' = sk).
  Proof.
    unfold do_render. destruct (o_stale o || _) eqn:Ec.
    - destruct (rf _ _) as [[x sk]|] eqn:Er; [|discriminate]. intro H. inversion H; subst. right.
      exists x, sk. cbn. tauto.
    - intro H. inversion H; subst. left. apply orb_false_iff in Ec as [Ec _]. tauto.
  Qed.

  Lemma run_cons e p o outs :
    run (e :: p) = Ok (o, outs) -> exists o1 outs1, run p = Ok (o1, outs1) /\ step Out rf mi (o1, outs1) e = Ok (o, outs).
  Proof. cbn. destruct (run p) as [[o1 outs1]|]; cbn; [eauto|discriminate]. Qed.

  Lemma run_sim so h o outs :
    wf_evs so h = true -> run h = Ok (o, outs) -> Sim (notes_of h) (o_state o).
  Proof.
    revert o outs. induction h as [|e p IH]; intros o outs Hwf Hrun.
    - cbn in Hrun. inversion Hrun; subst. cbn. apply Sim_init.
    - destruct (run_cons _ _ _ _ Hrun) as (o1 & outs1 & Hp & Hs). unfold wf_evs in Hwf. cbn [notes_of flat_map] in Hwf.
      destruct e as [k a|k t|k t|k t|t1 t2]; cbn [note_of app] in Hwf; cbn [step] in Hs.
      + specialize (IH o1 outs1 (wf_rev_tail _ _ _ Hwf) Hp). inversion Hs; subst. cbn.
        now apply (Sim_total so).
      + specialize (IH o1 outs1 (wf_rev_tail _ _ _ Hwf) Hp).
        destruct (Sim_running so _ _ k t IH Hwf) as (st' & E & HS). rewrite E in Hs. cbn in Hs. inversion Hs; subst. exact HS.
      + specialize (IH o1 outs1 (wf_rev_tail _ _ _ Hwf) Hp).
        destruct (Sim_finished so _ _ true k t IH Hwf) as (st' & E & HS). rewrite E in Hs. cbn in Hs. inversion Hs; subst. exact HS.
      + specialize (IH o1 outs1 (wf_rev_tail _ _ _ Hwf) Hp).
        destruct (Sim_finished so _ _ false k t IH Hwf) as (st' & E & HS). rewrite E in Hs. cbn in Hs. inversion Hs; subst. exact HS.
      + specialize (IH o1 outs1 Hwf Hp). destruct (do_render Out rf mi o1 t1 t2) as [[o' out]|] eqn:Ed; [|discriminate].
        cbn in Hs. inversion Hs; subst. cbn.
        destruct (do_render_cases _ _ _ _ _ Ed) as [(-> & _)|(x & sk & _ & _ & -> & _)]; [assumption|now apply Sim_uwe].
  Qed.

  Lemma run_inv so h o outs :
    wf_evs so h = true -> run h = Ok (o, outs) -> StateInv (o_state o).
  Proof. intros Hwf Hrun. eapply Sim_StateInv; [eapply run_sim; eassumption|exact Hwf]. Qed.

  (** a renderer that cannot fail on states whose listed totals are positive *)
  Definition rf_total : Prop :=
    forall m sk, (forall k s, In (k, s) m -> 0 < total s) -> exists r, rf m sk = Ok r.

  Lemma run_ok so h : rf_total -> wf_evs so h = true -> exists o outs, run h = Ok (o, outs).
  Proof.
    intros Hrf. induction h as [|e p IH]; intros Hwf.
    - cbn. eauto.
    - unfold wf_evs in Hwf. cbn [notes_of flat_map] in Hwf.
      assert (Hwfp : wf_evs so p = true).
      { destruct e; cbn [note_of app] in Hwf; try exact Hwf; exact (wf_rev_tail _ _ _ Hwf). }
      destruct (IH Hwfp) as (o1 & outs1 & Hp). pose proof (run_sim so p o1 outs1 Hwfp Hp) as HS.
      cbn [run_rev]. rewrite Hp. cbn [bind step].
      destruct e as [k a|k t|k t|k t|t1 t2]; cbn [note_of app] in Hwf.
      + eauto.
      + destruct (Sim_running so _ _ k t HS Hwf) as (st' & E & _). rewrite E. cbn. eauto.
      + destruct (Sim_finished so _ _ true k t HS Hwf) as (st' & E & _). rewrite E. cbn. eauto.
      + destruct (Sim_finished so _ _ false k t HS Hwf) as (st' & E & _). rewrite E. cbn. eauto.
      + unfold do_render. destruct (o_stale o1 || _); [|cbn; eauto].
        pose proof (Sim_StateInv so _ _ (Sim_uwe _ _ t2 HS) Hwfp) as (Hall & _).
        destruct (Hrf (mapping (update_weighted_elapsed t2 (o_state o1))) (o_skipped o1)) as ([x sk] & Er).
        { intros k s Hin. now destruct (Hall k s Hin) as (_ & _ & _ & ? & _). }
        rewrite Er. cbn. eauto.
  Qed.

  Lemma run_rc h o outs : run h = Ok (o, outs) -> running_count (o_state o) = active h.
  Proof.
    revert o outs. induction h as [|e p IH]; intros o outs Hrun.
    - cbn in Hrun. inversion Hrun; subst. reflexivity.
    - destruct (run_cons _ _ _ _ Hrun) as (o1 & outs1 & Hp & Hs). specialize (IH _ _ Hp).
      destruct e as [k a|k t|k t|k t|t1 t2]; cbn [step] in Hs; cbn [active].
      + inversion Hs; subst. cbn. assumption.
      + destruct (increment_running k t (o_state o1)) as [st'|] eqn:E; [|discriminate]. cbn in Hs. inversion Hs; subst. cbn.
        destruct (increment_running_shape _ _ _ _ E) as (_ & _ & ->). lia.
      + destruct (increment_finished true k t (o_state o1)) as [st'|] eqn:E; [|discriminate]. cbn in Hs. inversion Hs; subst. cbn.
        destruct (increment_finished_shape _ _ _ _ _ E) as (_ & _ & ->). lia.
      + destruct (increment_finished false k t (o_state o1)) as [st'|] eqn:E; [|discriminate]. cbn in Hs. inversion Hs; subst. cbn.
        destruct (increment_finished_shape _ _ _ _ _ E) as (_ & _ & ->). lia.
      + destruct (do_render Out rf mi o1 t1 t2) as [[o' out]|] eqn:Ed; [|discriminate]. cbn in Hs. inversion Hs; subst. cbn.
        destruct (do_render_cases _ _ _ _ _ Ed) as [(-> & _)|(x & sk & _ & _ & -> & _)]; assumption.
  Qed.

  (** C20_elapsed: the elapsed times attributed to scopes add up to the time, up to the last clock
      reading the State has seen, during which at least one call was running *)
  Lemma elapsed_exact so h o outs :
    wf_evs so h = true -> run h = Ok (o, outs) ->
    (sum_elapsed (mapping (o_state o)) ==
     busy start h + (if 0 <? active h then prev_time (o_state o) - last_time start h else 0))%Q.
  Proof.
    revert o outs. induction h as [|e p IH]; intros o outs Hwf Hrun.
    - cbn in Hrun. inversion Hrun; subst. cbn. ring.
    - destruct (run_cons _ _ _ _ Hrun) as (o1 & outs1 & Hp & Hs).
      assert (Hwfp : wf_evs so p = true).
      { unfold wf_evs in *. cbn [notes_of flat_map] in Hwf.
        destruct e; cbn [note_of app] in Hwf; try exact Hwf; exact (wf_rev_tail _ _ _ Hwf). }
      specialize (IH _ _ Hwfp Hp). pose proof (run_inv so p o1 outs1 Hwfp Hp) as HI.
      pose proof (run_rc p o1 outs1 Hp) as Hrc.
      pose proof (sum_elapsed_uwe (o_state o1)) as Hu.
      assert (Hnn : 0 <= active p) by (rewrite <- Hrc; now destruct HI as (_ & _ & ? & _)).
      destruct e as [k a|k t|k t|k t|t1 t2]; cbn [step] in Hs; cbn [busy time_of active last_time].
      + inversion Hs; subst. cbn [o_state with_state]. unfold increment_total; cbn [mapping prev_time].
        destruct (lookup k (mapping (o_state o1))).
        * rewrite sum_elapsed_update by reflexivity. exact IH.
        * rewrite sum_elapsed_app. cbn. rewrite IH. ring.
      + destruct (increment_running k t (o_state o1)) as [st'|] eqn:E; [|discriminate]. cbn in Hs. inversion Hs; subst.
        cbn [o_state with_state]. destruct (increment_running_shape _ _ _ _ E) as (-> & -> & _).
        rewrite sum_elapsed_update by reflexivity. rewrite (Hu t HI), IH, Hrc.
        destruct (active p =? 0) eqn:Ea; [apply Z.eqb_eq in Ea|apply Z.eqb_neq in Ea].
        * rewrite Ea. cbn. ring.
        * assert (Hp1 : (0 <? active p) = true) by (apply Z.ltb_lt; lia).
          assert (Hp2 : (0 <? active p + 1) = true) by (apply Z.ltb_lt; lia).
          rewrite Hp1, Hp2. ring.
      + destruct (increment_finished true k t (o_state o1)) as [st'|] eqn:E; [|discriminate]. cbn in Hs. inversion Hs; subst.
        cbn [o_state with_state]. destruct (increment_finished_shape _ _ _ _ _ E) as (-> & -> & _).
        rewrite sum_elapsed_update by (intros; destruct s; reflexivity). rewrite (Hu t HI), IH, Hrc.
        destruct (active p =? 0) eqn:Ea; [apply Z.eqb_eq in Ea|apply Z.eqb_neq in Ea].
        * rewrite Ea. cbn. ring.
        * assert (Hp1 : (0 <? active p) = true) by (apply Z.ltb_lt; lia). rewrite Hp1.
          destruct (0 <? active p - 1); ring.
      + destruct (increment_finished false k t (o_state o1)) as [st'|] eqn:E; [|discriminate]. cbn in Hs. inversion Hs; subst.
        cbn [o_state with_state]. destruct (increment_finished_shape _ _ _ _ _ E) as (-> & -> & _).
        rewrite sum_elapsed_update by (intros; destruct s; reflexivity). rewrite (Hu t HI), IH, Hrc.
        destruct (active p =? 0) eqn:Ea; [apply Z.eqb_eq in Ea|apply Z.eqb_neq in Ea].
        * rewrite Ea. cbn. ring.
        * assert (Hp1 : (0 <? active p) = true) by (apply Z.ltb_lt; lia). rewrite Hp1.
          destruct (0 <? active p - 1); ring.
      + destruct (do_render Out rf mi o1 t1 t2) as [[o' out]|] eqn:Ed; [|discriminate]. cbn in Hs. inversion Hs; subst.
        cbn [fst]. destruct (do_render_cases _ _ _ _ _ Ed) as [(-> & _)|(x & sk & _ & _ & -> & _)]; [exact IH|].
        rewrite (Hu t2 HI), IH, Hrc. cbn [prev_time update_weighted_elapsed].
        destruct (active p =? 0) eqn:Ea; [apply Z.eqb_eq in Ea|apply Z.eqb_neq in Ea].
        * rewrite Ea. cbn. ring.
        * assert (Hp1 : (0 <? active p) = true) by (apply Z.ltb_lt; lia). rewrite Hp1. ring.
  Qed.

  (** C20_last_render_final for renderers whose output is a function of the state (HTML, IPython):
      whenever nothing changed since the last render ([_stale] is false), the most recent output is the
      rendering of the current state; and [_stale] is false after every [_do_render]. *)
  Lemma last_output_current h o outs :
    run h = Ok (o, outs) -> o_stale o = false ->
    exists out rest sk sk', outs = out :: rest /\ rf (mapping (o_state o)) sk = Ok (out, sk').
  Proof.
    revert o outs. induction h as [|e p IH]; intros o outs Hrun Hst.
    - cbn in Hrun. inversion Hrun; subst. discriminate.
    - destruct (run_cons _ _ _ _ Hrun) as (o1 & outs1 & Hp & Hs).
      destruct e as [k a|k t|k t|k t|t1 t2]; cbn [step] in Hs.
      + inversion Hs; subst. discriminate.
      + destruct (increment_running _ _ _); [|discriminate]. cbn in Hs. inversion Hs; subst. discriminate.
      + destruct (increment_finished _ _ _ _); [|discriminate]. cbn in Hs. inversion Hs; subst. discriminate.
      + destruct (increment_finished _ _ _ _); [|discriminate]. cbn in Hs. inversion Hs; subst. discriminate.
      + destruct (do_render Out rf mi o1 t1 t2) as [[o' out]|] eqn:Ed; [|discriminate]. cbn in Hs. inversion Hs; subst.
        cbn [fst snd] in *. destruct (do_render_cases _ _ _ _ _ Ed) as [(-> & -> & Hst1)|(x & sk & -> & Hr & Hs1 & _ & _)].
        * now apply IH.
        * exists x, outs1, (o_skipped o1), sk. split; [reflexivity|]. now rewrite Hs1.
  Qed.

  Lemma render_clears_stale p t1 t2 o outs : run (EvRender t1 t2 :: p) = Ok (o, outs) -> o_stale o = false.
  Proof.
    intro Hrun. destruct (run_cons _ _ _ _ Hrun) as (o1 & outs1 & Hp & Hs). cbn [step] in Hs.
    destruct (do_render Out rf mi o1 t1 t2) as [[o' out]|] eqn:Ed; [|discriminate]. cbn in Hs. inversion Hs; subst.
    cbn [fst]. destruct (do_render_cases _ _ _ _ _ Ed) as [(-> & _ & ?)|(x & sk & _ & _ & _ & ? & _)]; assumption.
  Qed.

  (** a render point changes no counter *)
  Definition cview (m : list (key * sstate)) : list (key * (Z * Z * Z * Z)) :=
    map (fun ks => (fst ks, (completed (snd ks), failed (snd ks), running (snd ks), total (snd ks)))) m.

  Lemma cview_uwe t st : cview (mapping (update_weighted_elapsed t st)) = cview (mapping st).
  Proof.
    rewrite uwe_mapping. unfold cview. rewrite map_map. apply map_ext. intros [k s]. cbn.
    destruct (negb _ && _); reflexivity.
  Qed.

  Lemma render_keeps_counters p t1 t2 o outs o1 outs1 :
    run p = Ok (o1, outs1) -> run (EvRender t1 t2 :: p) = Ok (o, outs) ->
    cview (mapping (o_state o)) = cview (mapping (o_state o1)).
  Proof.
    intros Hp Hrun. cbn [run_rev] in Hrun. rewrite Hp in Hrun. cbn [bind step] in Hrun.
    destruct (do_render Out rf mi o1 t1 t2) as [[o' out]|] eqn:Ed; [|discriminate]. cbn in Hrun. inversion Hrun; subst.
    destruct (do_render_cases _ _ _ _ _ Ed) as [(-> & _)|(x & sk & _ & _ & -> & _)]; [reflexivity|apply cview_uwe].
  Qed.
End ObserverProofs.

(** * Non-vacuity: a well-formed history with two scopes running at once, rendered in between *)
Example nonvacuous_wf :
  let k1 : key := (1%nat, [1%nat]) in
  let k2 : key := (1%nat, [2%nat]) in
  let h := rev [EvTotal k1 2; EvTotal k2 1; EvRunning k1 (1#1); EvRunning k2 (2#1); EvRender (5#2) (5#2);
                EvRunning k1 (3#1); EvCompleted k2 (4#1); EvFailed k1 (6#1); EvCompleted k1 (7#1)] in
  wf_evs true h = true /\ active h = 0 /\ (busy 0 h == 6)%Q.
Proof. cbn. repeat split. Qed.
