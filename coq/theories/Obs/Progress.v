(** Model of uberjob/progress/_simple_progress_observer.py: notifications, the well-formedness of a
    notification sequence (as C15 characterises it), the State/ScopeState bookkeeping with exact
    rational elapsed times, and the _do_render / _run_update_thread logic of SimpleProgressObserver.
    Definitions only: no proofs here (kept runnable when a proof breaks). *)
From Coq Require Import List Arith ZArith QArith Bool.
Import ListNotations.
Local Open Scope Z_scope.

(** * Keys: (section, scope).  A scope is a tuple of values; a value is the id of its class under
    Python [==]/[hash] (the harness interns them).  Section 0 = "stale", 1 = "run". *)
Definition scope := list nat.
Definition key := (nat * scope)%type.

Fixpoint scope_eqb (a b : scope) : bool :=
  match a, b with
  | [], [] => true
  | x :: a', y :: b' => Nat.eqb x y && scope_eqb a' b'
  | _, _ => false
  end.

Definition key_eqb (a b : key) : bool := Nat.eqb (fst a) (fst b) && scope_eqb (snd a) (snd b).

(** * Notifications received by a ProgressObserver. *)
Inductive note :=
| Enter
| Total (k : key) (amount : Z)
| Running (k : key)
| Completed (k : key)
| Failed (k : key)
| Exit.

(** Counting functions over a set of earlier notifications (order-insensitive). *)
Fixpoint ntot (k : key) (l : list note) : Z :=
  match l with
  | [] => 0
  | Total k' a :: r => (if key_eqb k k' then a else 0) + ntot k r
  | _ :: r => ntot k r
  end.

Fixpoint nrun (k : key) (l : list note) : Z :=
  match l with
  | [] => 0
  | Running k' :: r => (if key_eqb k k' then 1 else 0) + nrun k r
  | _ :: r => nrun k r
  end.

Fixpoint ncompl (k : key) (l : list note) : Z :=
  match l with
  | [] => 0
  | Completed k' :: r => (if key_eqb k k' then 1 else 0) + ncompl k r
  | _ :: r => ncompl k r
  end.

Fixpoint nfail (k : key) (l : list note) : Z :=
  match l with
  | [] => 0
  | Failed k' :: r => (if key_eqb k k' then 1 else 0) + nfail k r
  | _ :: r => nfail k r
  end.

(** some Running of section [s] occurs in [l] *)
Fixpoint sec_started (s : nat) (l : list note) : bool :=
  match l with
  | [] => false
  | Running k :: r => Nat.eqb (fst k) s || sec_started s r
  | _ :: r => sec_started s r
  end.

(** [ok_next so p e]: notification [e] is legal after the notifications [p].
    - totals announce a positive amount (they come from a Counter);
    - a Running for a key needs an announced, not yet exhausted total for that key (so totals come first);
    - a Completed/Failed needs a Running of the same key that is still unmatched.
    With [so = true] (section order, what uberjob.run emits) all totals of a section precede every
    Running of that section. *)
Definition ok_next (so : bool) (p : list note) (e : note) : bool :=
  match e with
  | Total k a => (0 <? a) && negb (so && sec_started (fst k) p)
  | Running k => nrun k p <? ntot k p
  | Completed k | Failed k => ncompl k p + nfail k p <? nrun k p
  | Enter | Exit => false
  end.

(** well-formedness of a history given most-recent-first *)
Fixpoint wf_rev (so : bool) (h : list note) : bool :=
  match h with
  | [] => true
  | e :: p => wf_rev so p && ok_next so p e
  end.

(** the body of a run (everything between Enter and Exit), in order of arrival *)
Definition wf_body (so : bool) (l : list note) : bool := wf_rev so (rev l).

(** nothing is running: every Running has its Completed/Failed *)
Definition balanced (l : list note) : bool :=
  forallb (fun e => match e with
                    | Running k => nrun k l =? ncompl k l + nfail k l
                    | _ => true
                    end) l.

(** a whole run: Enter first, Exit last and only there, well-formed body, nothing running at Exit *)
Definition wf_run (l : list note) : bool :=
  match l with
  | Enter :: r =>
      match rev r with
      | Exit :: h => wf_rev true h && balanced h
      | _ => false
      end
  | _ => false
  end.

(** * Python exceptions the modelled code can raise, and partial results *)
Inductive err := KeyError | ZeroDivisionError | ValueErrorEmptyMax | TypeErrorCompare | TraitError.

Inductive result (A : Type) :=
| Ok (a : A)
| Err (e : err).
Arguments Ok {A} a.
Arguments Err {A} e.

Definition bind {A B} (r : result A) (f : A -> result B) : result B :=
  match r with Ok a => f a | Err e => Err e end.

(** * ScopeState / State (Python ints are Z: they can go negative on ill-formed input) *)
Record sstate := { completed : Z; failed : Z; running : Z; total : Z; welapsed : Q }.

Definition sstate0 : sstate := {| completed := 0; failed := 0; running := 0; total := 0; welapsed := 0%Q |}.

Record State := {
  mapping : list (key * sstate);     (* section_scope_mapping, flattened, in insertion order *)
  running_count : Z;
  running_set : list key;            (* _running_scope_states: one ScopeState object per key *)
  prev_time : Q }.

Definition State0 (start : Q) : State :=
  {| mapping := []; running_count := 0; running_set := []; prev_time := start |}.

Fixpoint lookup (k : key) (m : list (key * sstate)) : option sstate :=
  match m with
  | [] => None
  | (k', s) :: r => if key_eqb k k' then Some s else lookup k r
  end.

Fixpoint update (k : key) (f : sstate -> sstate) (m : list (key * sstate)) : list (key * sstate) :=
  match m with
  | [] => []
  | (k', s) :: r => if key_eqb k k' then (k', f s) :: r else (k', s) :: update k f r
  end.

Fixpoint kmem (k : key) (l : list key) : bool :=
  match l with [] => false | k' :: r => key_eqb k k' || kmem k r end.

Fixpoint kremove (k : key) (l : list key) : list key :=
  match l with [] => [] | k' :: r => if key_eqb k k' then r else k' :: kremove k r end.

Definition add_total (a : Z) (s : sstate) : sstate :=
  {| completed := completed s; failed := failed s; running := running s; total := total s + a; welapsed := welapsed s |}.
Definition add_running (d : Z) (s : sstate) : sstate :=
  {| completed := completed s; failed := failed s; running := running s + d; total := total s; welapsed := welapsed s |}.
Definition finish (ok : bool) (s : sstate) : sstate :=
  {| completed := if ok then completed s + 1 else completed s;
     failed := if ok then failed s else failed s + 1;
     running := running s - 1; total := total s; welapsed := welapsed s |}.
Definition add_elapsed (q : Q) (s : sstate) : sstate :=
  {| completed := completed s; failed := failed s; running := running s; total := total s;
     welapsed := (welapsed s + q)%Q |}.

(** State.increment_total: setdefault(section, {}).setdefault(scope, ScopeState()).total += amount *)
Definition increment_total (k : key) (a : Z) (st : State) : State :=
  {| mapping := match lookup k (mapping st) with
                | Some _ => update k (add_total a) (mapping st)
                | None => mapping st ++ [(k, add_total a sstate0)]
                end;
     running_count := running_count st; running_set := running_set st; prev_time := prev_time st |}.

(** State.update_weighted_elapsed with the clock reading [t]:
    if running_count: multiplier = (t - prev) / running_count; each running scope gets running * multiplier. *)
Definition update_weighted_elapsed (t : Q) (st : State) : State :=
  {| mapping :=
       if running_count st =? 0 then mapping st
       else
         let mult := ((t - prev_time st) / inject_Z (running_count st))%Q in
         map (fun ks => if kmem (fst ks) (running_set st)
                        then (fst ks, add_elapsed (inject_Z (running (snd ks)) * mult)%Q (snd ks))
                        else ks) (mapping st);
     running_count := running_count st; running_set := running_set st; prev_time := t |}.

(** State.increment_running: KeyError if the (section, scope) was never given a total *)
Definition increment_running (k : key) (t : Q) (st0 : State) : result State :=
  let st := update_weighted_elapsed t st0 in
  match lookup k (mapping st) with
  | None => Err KeyError
  | Some _ =>
      Ok {| mapping := update k (add_running 1) (mapping st);
            running_count := running_count st + 1;
            running_set := if kmem k (running_set st) then running_set st else running_set st ++ [k];
            prev_time := prev_time st |}
  end.

(** State.increment_completed / increment_failed ([ok] = completed):
    running -= 1; running_count -= 1; if not running: set.remove (KeyError if absent) *)
Definition increment_finished (ok : bool) (k : key) (t : Q) (st0 : State) : result State :=
  let st := update_weighted_elapsed t st0 in
  match lookup k (mapping st) with
  | None => Err KeyError
  | Some s =>
      if (running s - 1 =? 0) && negb (kmem k (running_set st)) then Err KeyError
      else
        Ok {| mapping := update k (finish ok) (mapping st);
              running_count := running_count st - 1;
              running_set := if running s - 1 =? 0 then kremove k (running_set st) else running_set st;
              prev_time := prev_time st |}
  end.

(** * Events at the observer: notifications with the clock value time.time() returns inside them, and
    _do_render calls ([t1] read by _do_render, [t2] read by update_weighted_elapsed if it renders). *)
Inductive ev :=
| EvTotal (k : key) (a : Z)
| EvRunning (k : key) (t : Q)
| EvCompleted (k : key) (t : Q)
| EvFailed (k : key) (t : Q)
| EvRender (t1 t2 : Q).

Definition note_of (e : ev) : list note :=
  match e with
  | EvTotal k a => [Total k a]
  | EvRunning k _ => [Running k]
  | EvCompleted k _ => [Completed k]
  | EvFailed k _ => [Failed k]
  | EvRender _ _ => []
  end.

Definition notes_of (h : list ev) : list note := flat_map note_of h.

(** legal event histories (most recent first): the notifications are well-formed; render points anywhere *)
Definition wf_evs (so : bool) (h : list ev) : bool := wf_rev so (notes_of h).

(** * SimpleProgressObserver *)
Record obs := {
  o_state : State;
  o_stale : bool;               (* _stale *)
  o_last : option Q;            (* _last_render_time *)
  o_start : Q;                  (* _start_time *)
  o_nexc : nat;                 (* len(_exception_tuples), capped at max_exception_count = 128 *)
  o_newidx : nat;               (* _new_exception_index *)
  o_skipped : list nat }.       (* ConsoleProgressObserver._skipped_sections *)

Definition obs0 (start : Q) : obs :=
  {| o_state := State0 start; o_stale := true; o_last := None; o_start := start;
     o_nexc := 0; o_newidx := 0; o_skipped := [] |}.

Definition with_state (o : obs) (st : State) (exc : nat) : obs :=
  {| o_state := st; o_stale := true; o_last := o_last o; o_start := o_start o;
     o_nexc := exc; o_newidx := o_newidx o; o_skipped := o_skipped o |}.

Definition MAX_EXCEPTION_COUNT : nat := 128.

Section Observer.
  Variable Out : Type.
  (** the subclass's _render: the section/scope mapping and the console's skipped sections *)
  Variable rf : list (key * sstate) -> list nat -> result (Out * list nat).
  Variable max_interval : Q.

  (** _do_render *)
  Definition do_render (o : obs) (t1 t2 : Q) : result (obs * option Out) :=
    if o_stale o || match o_last o with
                    | None => true
                    | Some l => Qle_bool max_interval (t1 - l)
                    end
    then
      let st := update_weighted_elapsed t2 (o_state o) in
      match rf (mapping st) (o_skipped o) with
      | Ok (out, sk) =>
          Ok ({| o_state := st; o_stale := false; o_last := Some t1; o_start := o_start o;
                 o_nexc := o_nexc o; o_newidx := o_nexc o; o_skipped := sk |}, Some out)
      | Err e => Err e
      end
    else Ok (o, None).

  (** one event; outputs are collected most recent first *)
  Definition step (a : obs * list Out) (e : ev) : result (obs * list Out) :=
    let (o, outs) := a in
    match e with
    | EvTotal k amt => Ok (with_state o (increment_total k amt (o_state o)) (o_nexc o), outs)
    | EvRunning k t =>
        bind (increment_running k t (o_state o)) (fun st => Ok (with_state o st (o_nexc o), outs))
    | EvCompleted k t =>
        bind (increment_finished true k t (o_state o)) (fun st => Ok (with_state o st (o_nexc o), outs))
    | EvFailed k t =>
        bind (increment_finished false k t (o_state o))
             (fun st => Ok (with_state o st (if (o_nexc o <? MAX_EXCEPTION_COUNT)%nat then S (o_nexc o) else o_nexc o), outs))
    | EvRender t1 t2 =>
        bind (do_render o t1 t2)
             (fun oo => Ok (fst oo, match snd oo with Some out => out :: outs | None => outs end))
    end.

  (** history most recent first *)
  Fixpoint run_rev (start : Q) (h : list ev) : result (obs * list Out) :=
    match h with
    | [] => Ok (obs0 start, [])
    | e :: p => bind (run_rev start p) (fun a => step a e)
    end.

  (** events in order of arrival *)
  Definition run_obs (start : Q) (evs : list ev) : result (obs * list Out) := run_rev start (rev evs).

  (** _run_update_thread: the loop calls _do_render after every wait; the iteration in which
      [_done_event.wait] returns True is the last one.  [__exit__] sets the event after every
      notification, so a whole observation is: events (renders interleaved anywhere), then one more
      _do_render at [(t1, t2)]. *)
  Definition observe (start : Q) (evs : list ev) (t1 t2 : Q) : result (obs * list Out) :=
    run_obs start (evs ++ [EvRender t1 t2]).
End Observer.

(** * Specification side of C20_elapsed: wall-clock time during which something was running *)
Definition time_of (e : ev) : option Q :=
  match e with
  | EvRunning _ t | EvCompleted _ t | EvFailed _ t => Some t
  | _ => None
  end.

(** number of calls in flight after the history [h] *)
Fixpoint active (h : list ev) : Z :=
  match h with
  | [] => 0
  | EvRunning _ _ :: p => active p + 1
  | EvCompleted _ _ :: p | EvFailed _ _ :: p => active p - 1
  | _ :: p => active p
  end.

Fixpoint last_time (start : Q) (h : list ev) : Q :=
  match h with
  | [] => start
  | e :: p => match time_of e with Some t => t | None => last_time start p end
  end.

(** time, up to the last notification of [h], during which at least one call was running *)
Fixpoint busy (start : Q) (h : list ev) : Q :=
  match h with
  | [] => 0%Q
  | e :: p =>
      match time_of e with
      | Some t => (busy start p + (if 0 <? active p then t - last_time start p else 0))%Q
      | None => busy start p
      end
  end.

Fixpoint sum_elapsed (m : list (key * sstate)) : Q :=
  match m with [] => 0%Q | ks :: r => (welapsed (snd ks) + sum_elapsed r)%Q end.

Fixpoint sum_running (m : list (key * sstate)) : Z :=
  match m with [] => 0 | ks :: r => running (snd ks) + sum_running r end.
