(** Proofs about Obs/Render.v: the current renderers never fail on states with positive listed totals,
    whatever the scope values are; the pre-fix sort does. *)
From Coq Require Import List Arith ZArith QArith Bool Lia Permutation.
Import ListNotations.
From UJ Require Import Obs.Progress Obs.ProgressProofs Obs.Render.
Local Open Scope Z_scope.

Section Sorting.
  Context {A : Type}.

  Lemma insert_p_perm (lt : A -> A -> option bool) x l l' : insert_p lt x l = Some l' -> Permutation (x :: l) l'.
  Proof.
    revert l'. induction l as [|e r IH]; cbn; intros l' H.
    - inversion H; subst. apply Permutation_refl.
    - destruct (lt x e) as [[|]|]; try discriminate.
      + inversion H; subst. apply Permutation_refl.
      + destruct (insert_p lt x r) as [r'|] eqn:E; [|discriminate]. inversion H; subst.
        eapply Permutation_trans; [apply perm_swap|]. apply perm_skip. now apply IH.
  Qed.

  Lemma sort_p_perm_gen (lt : A -> A -> option bool) l acc l' :
    fold_left (fun a x => match a with Some s => insert_p lt x s | None => None end) l (Some acc) = Some l' ->
    Permutation (l ++ acc) l'.
  Proof.
    revert acc l'. induction l as [|x l IH]; cbn; intros acc l' H.
    - inversion H; subst. apply Permutation_refl.
    - destruct (insert_p lt x acc) as [acc'|] eqn:E.
      + apply IH in H. eapply Permutation_trans; [|exact H].
        apply insert_p_perm in E. eapply Permutation_trans; [apply Permutation_middle|].
        apply Permutation_app_head. exact E.
      + exfalso. clear -H. induction l as [|y l IH]; cbn in H; [discriminate|auto].
  Qed.

  Lemma sort_p_perm (lt : A -> A -> option bool) l l' : sort_p lt l = Some l' -> Permutation l l'.
  Proof. intro H. apply sort_p_perm_gen in H. now rewrite app_nil_r in H. Qed.

  Lemma insert_t_perm (lt : A -> A -> bool) x l : Permutation (x :: l) (insert_t lt x l).
  Proof.
    induction l as [|e r IH]; cbn; [apply Permutation_refl|]. destruct (lt x e); [apply Permutation_refl|].
    eapply Permutation_trans; [apply perm_swap|]. now apply perm_skip.
  Qed.

  Lemma sort_t_perm_gen (lt : A -> A -> bool) l acc :
    Permutation (l ++ acc) (fold_left (fun a x => insert_t lt x a) l acc).
  Proof.
    revert acc. induction l as [|x l IH]; cbn; intros acc; [apply Permutation_refl|].
    eapply Permutation_trans; [|apply IH]. eapply Permutation_trans; [apply Permutation_middle|].
    apply Permutation_app_head. apply insert_t_perm.
  Qed.

  Lemma sort_t_perm (lt : A -> A -> bool) l : Permutation l (sort_t lt l).
  Proof. unfold sort_t. pose proof (sort_t_perm_gen lt l []) as H. now rewrite app_nil_r in H. Qed.
End Sorting.

Section EnvProofs.
  Variable vty : nat -> nat.
  Variable vlt : nat -> nat -> option bool.
  Variable vrepr : nat -> nat.

  Local Notation sorted_items := (sorted_scope_items vty vlt vrepr).

  (** the current code: sorting cannot fail, and returns a permutation *)
  Lemma sorted_fixed_ok {A} (items : list (scope * A)) :
    exists l, sorted_items true items = Ok l /\ Permutation items l.
  Proof.
    unfold sorted_scope_items. destruct (sort_p _ items) as [l|] eqn:E.
    - exists l. split; [reflexivity|]. now apply sort_p_perm in E.
    - eexists. split; [reflexivity|]. apply sort_t_perm.
  Qed.

  Lemma sorted_perm {A} fixed (items l : list (scope * A)) : sorted_items fixed items = Ok l -> Permutation items l.
  Proof.
    unfold sorted_scope_items. destruct (sort_p _ items) as [l0|] eqn:E.
    - intro H. inversion H; subst. now apply sort_p_perm in E.
    - destruct fixed; [|discriminate]. intro H. inversion H; subst. apply sort_t_perm.
  Qed.

  Definition pos_totals (items : list (scope * sstate)) : Prop := forall it, In it items -> 0 < total (snd it).

  Lemma sec_items_pos s m :
    (forall k st, In (k, st) m -> 0 < total st) -> pos_totals (sec_items s m).
  Proof.
    intros H it Hin. unfold sec_items in Hin. apply in_map_iff in Hin as ([k st] & <- & Hin).
    apply filter_In in Hin as [Hin _]. cbn. eauto.
  Qed.

  Lemma console_section_ok items :
    items <> [] -> exists rows, console_section vty vlt vrepr true items = Ok rows.
  Proof.
    intro Hne. unfold console_section. destruct (sorted_fixed_ok items) as (l & -> & Hp). cbn [bind].
    destruct l as [|x l]; [apply Permutation_sym, Permutation_nil in Hp; contradiction|]. cbn. eauto.
  Qed.

  Lemma render_console_ok secs m sk :
    exists r, render_console vty vlt vrepr true secs m sk = Ok r.
  Proof.
    revert sk. induction secs as [|s rest IH]; intros sk; cbn [render_console]; [eauto|].
    destruct (sec_items s m) as [|it items] eqn:E; [apply IH|].
    destruct (console_section_ok (it :: items) ltac:(discriminate)) as (rows & Hr). rewrite Hr.
    set (sk' := if is_done (it :: items) then nadd s sk else ndiscard s sk).
    destruct (IH sk') as (r & Hrest). rewrite Hrest.
    destruct (negb (is_done (it :: items)) || negb (nmem s sk)); cbn; eauto.
  Qed.

  Lemma html_row_ok sc s : 0 < total s -> exists r, html_row sc s = Ok r.
  Proof.
    intro H. unfold html_row, pct. assert (E : (total s =? 0) = false) by (apply Z.eqb_neq; lia). rewrite E. cbn. eauto.
  Qed.

  Lemma html_rows_ok l : pos_totals l -> exists rows, html_rows l = Ok rows.
  Proof.
    induction l as [|it l IH]; intro H; cbn [html_rows]; [eauto|].
    destruct (html_row_ok (Some (fst it)) (snd it)) as (r & ->); [apply H; now left|].
    destruct IH as (rows & ->); [intros x Hx; apply H; now right|]. cbn. eauto.
  Qed.

  Lemma total_state_total_gen (items : list (scope * sstate)) (acc : sstate) :
    total (fold_left (fun (acc : sstate) (it : scope * sstate) =>
                 {| completed := completed acc + completed (snd it); failed := failed acc + failed (snd it);
                    running := running acc + running (snd it); total := total acc + total (snd it);
                    welapsed := (welapsed acc + welapsed (snd it))%Q |}) items acc)
    = total acc + fold_right (fun (it : scope * sstate) a => total (snd it) + a) 0 items.
  Proof.
    revert acc. induction items as [|it items IH]; intros acc; cbn [fold_left fold_right]; [lia|].
    rewrite IH. cbn [total]. lia.
  Qed.

  Lemma total_state_pos items : items <> [] -> pos_totals items -> 0 < total (total_state items).
  Proof.
    intros Hne Hpos. unfold total_state. rewrite total_state_total_gen. cbn [total sstate0].
    destruct items as [|it items]; [contradiction|]. cbn [fold_right].
    assert (0 < total (snd it)) by (apply Hpos; now left).
    assert (0 <= fold_right (fun (it : scope * sstate) a => total (snd it) + a) 0 items).
    { clear -Hpos. induction items as [|x items IH]; cbn; [lia|].
      assert (0 < total (snd x)) by (apply Hpos; right; now left).
      assert (0 <= fold_right (fun (it : scope * sstate) a => total (snd it) + a) 0 items).
      { apply IH. intros y [Hy|Hy]; apply Hpos; [now left|right; now right]. }
      lia. }
    lia.
  Qed.

  Lemma html_section_ok items : items <> [] -> pos_totals items -> exists rows, html_section vty vlt vrepr true items = Ok rows.
  Proof.
    intros Hne Hpos. unfold html_section. destruct (sorted_fixed_ok items) as (l & -> & Hp). cbn [bind].
    destruct (html_rows_ok l) as (rows & ->).
    { intros it Hin. apply Hpos. eapply Permutation_in; [apply Permutation_sym; exact Hp|exact Hin]. }
    cbn [bind]. destruct (1 <? length items)%nat; [|eauto].
    destruct (html_row_ok None (total_state items) (total_state_pos _ Hne Hpos)) as (r & ->). cbn. eauto.
  Qed.

  Lemma render_html_ok secs m :
    (forall k st, In (k, st) m -> 0 < total st) -> exists r, render_html vty vlt vrepr true secs m = Ok r.
  Proof.
    intro H. induction secs as [|s rest IH]; cbn [render_html]; [eauto|].
    destruct (sec_items s m) as [|it items] eqn:E; [exact IH|].
    destruct (html_section_ok (it :: items)) as (rows & ->); [discriminate|rewrite <- E; now apply sec_items_pos|].
    destruct IH as (r & ->). cbn. eauto.
  Qed.

  Lemma ipy_rows_ok l : pos_totals l -> exists rows, ipy_rows l = Ok rows.
  Proof.
    induction l as [|it l IH]; intro H; cbn [ipy_rows]; [eauto|].
    assert (Hp : 0 < total (snd it)) by (apply H; now left).
    unfold ipy_row at 1. assert (E : (total (snd it) <? 0) = false) by (apply Z.ltb_ge; lia). rewrite E. cbn [bind].
    destruct IH as (rows & ->); [intros x Hx; apply H; now right|]. cbn. eauto.
  Qed.

  Lemma render_ipy_ok secs m :
    (forall k st, In (k, st) m -> 0 < total st) -> exists r, render_ipy vty vlt vrepr true secs m = Ok r.
  Proof.
    intro H. induction secs as [|s rest IH]; cbn [render_ipy]; [eauto|].
    destruct (sec_items s m) as [|it items] eqn:E; [exact IH|].
    destruct (sorted_fixed_ok (it :: items)) as (l & -> & Hp). cbn [bind].
    destruct (ipy_rows_ok l) as (rows & ->).
    { intros x Hin. assert (Hs : pos_totals (sec_items s m)) by now apply sec_items_pos.
      apply Hs. rewrite E. eapply Permutation_in; [apply Permutation_sym; exact Hp|exact Hin]. }
    destruct IH as (r & ->). cbn. eauto.
  Qed.

  (** every bundled renderer is total on states whose listed totals are positive *)
  Lemma render_total kd : rf_total output (render vty vlt vrepr kd true).
  Proof.
    intros m sk H. destruct kd; cbn [render].
    - apply render_console_ok.
    - destruct (render_html_ok SECTIONS m H) as (r & ->). cbn. eauto.
    - destruct (render_ipy_ok SECTIONS m H) as (r & ->). cbn. eauto.
  Qed.

  (** C20_render_total *)
  Lemma observer_never_fails kd mi start so evs :
    wf_evs so (rev evs) = true ->
    exists o outs, run_obs output (render vty vlt vrepr kd true) mi start evs = Ok (o, outs).
  Proof. intro Hwf. unfold run_obs. eapply run_ok; [apply render_total|exact Hwf]. Qed.

  (** HTML / IPython: the output does not depend on the console's skipped set *)
  Definition render_pure (kd : kind) (m : list (key * sstate)) : result output :=
    match kd with
    | Console => Err KeyError      (* not used: the console output depends on what was printed before *)
    | Html => render_html vty vlt vrepr true SECTIONS m
    | IPy => render_ipy vty vlt vrepr true SECTIONS m
    end.

  Lemma render_pure_spec kd m sk out sk' :
    kd <> Console -> render vty vlt vrepr kd true m sk = Ok (out, sk') -> render_pure kd m = Ok out.
  Proof.
    intros Hk. destruct kd; [contradiction| |]; cbn [render render_pure].
    - destruct (render_html _ _ _ _ _ _) as [o|]; cbn; [|discriminate]. intro H. now inversion H.
    - destruct (render_ipy _ _ _ _ _ _) as [o|]; cbn; [|discriminate]. intro H. now inversion H.
  Qed.

  (** C20_last_render_final (HTML, IPython) *)
  Lemma last_render_final kd mi start evs t1 t2 o outs :
    kd <> Console ->
    observe output (render vty vlt vrepr kd true) mi start evs t1 t2 = Ok (o, outs) ->
    exists o1 outs1 out rest,
      run_obs output (render vty vlt vrepr kd true) mi start evs = Ok (o1, outs1) /\
      cview (mapping (o_state o)) = cview (mapping (o_state o1)) /\
      outs = out :: rest /\ render_pure kd (mapping (o_state o)) = Ok out.
  Proof.
    intros Hk Hobs. unfold observe, run_obs in *. rewrite rev_app_distr in Hobs. cbn [rev app] in Hobs.
    destruct (run_cons _ _ _ _ _ _ _ _ Hobs) as (o1 & outs1 & Hp & _).
    exists o1, outs1.
    pose proof (render_clears_stale _ _ _ _ _ _ _ _ _ Hobs) as Hst.
    destruct (last_output_current _ _ _ _ _ _ _ Hobs Hst) as (out & rest & sk & sk' & -> & Hr).
    exists out, rest. split; [exact Hp|]. split; [eapply render_keeps_counters; eassumption|].
    split; [reflexivity|]. eapply render_pure_spec; eassumption.
  Qed.
End EnvProofs.

(** C20_render_total_prefix_refuted: before commit 953f16e, two unequal scope values of one unorderable
    type (e.g. the scopes (1j,) and (2j,)) made every renderer raise TypeError on a legal sequence. *)
Lemma render_total_prefix_refuted :
  exists (vty : nat -> nat) (vlt : nat -> nat -> option bool) (vrepr : nat -> nat) (evs : list ev),
    wf_evs true (rev evs) = true /\
    forall kd, run_obs output (render vty vlt vrepr kd false) 0 0 evs = Err TypeErrorCompare.
Proof.
  exists (fun _ => 0%nat), (fun _ _ => None), (fun x => x),
         [EvTotal (1%nat, [1%nat]) 1; EvTotal (1%nat, [2%nat]) 1; EvRender 0 0].
  split; [reflexivity|]. intros [| |]; reflexivity.
Qed.

(** ... and the same input is rendered by the current code (rows ordered by repr) *)
Example fixed_renders_unorderable :
  exists o outs, run_obs output (render (fun _ => 0%nat) (fun _ _ => None) (fun x => x) Html true) 0 0
                   [EvTotal (1%nat, [2%nat]) 1; EvTotal (1%nat, [1%nat]) 1; EvRender 0 0] = Ok (o, outs) /\
                 map (fun sr => map r_scope (snd sr)) (hd [] outs) = [[Some [1%nat]; Some [2%nat]; None]].
Proof. eexists; eexists; split; reflexivity. Qed.

(** * the HTML / IPython output lists every scope of the rendered sections with its counts *)
Section ShowsCounts.
  Variable vty : nat -> nat.
  Variable vlt : nat -> nat -> option bool.
  Variable vrepr : nat -> nat.

  Definition row_shows (sc : scope) (st : sstate) (r : row) : Prop :=
    r_scope r = Some sc /\ r_ps r = progress_string st.

  Lemma html_rows_show l rows it :
    html_rows l = Ok rows -> In it l -> exists r, In r rows /\ row_shows (fst it) (snd it) r.
  Proof.
    revert rows. induction l as [|x l IH]; intros rows H Hin; [destruct Hin|]. cbn [html_rows] in H.
    destruct (html_row (Some (fst x)) (snd x)) as [r0|] eqn:E0; cbn [bind] in H; [|discriminate].
    destruct (html_rows l) as [rs|] eqn:E1; cbn [bind] in H; [|discriminate]. inversion H; subst rows.
    destruct Hin as [<-|Hin].
    - exists r0. split; [now left|]. unfold html_row in E0.
      destruct (pct _ _); cbn [bind] in E0; [|discriminate]. destruct (pct _ _); cbn [bind] in E0; [|discriminate].
      destruct (pct _ _); cbn [bind] in E0; [|discriminate]. inversion E0; subst. split; reflexivity.
    - destruct (IH rs eq_refl Hin) as (r & A & B). exists r. split; [now right|assumption].
  Qed.

  Lemma ipy_rows_show l rows it :
    ipy_rows l = Ok rows -> In it l -> exists r, In r rows /\ row_shows (fst it) (snd it) r.
  Proof.
    revert rows. induction l as [|x l IH]; intros rows H Hin; [destruct Hin|]. cbn [ipy_rows] in H.
    destruct (ipy_row x) as [r0|] eqn:E0; cbn [bind] in H; [|discriminate].
    destruct (ipy_rows l) as [rs|] eqn:E1; cbn [bind] in H; [|discriminate]. inversion H; subst rows.
    destruct Hin as [<-|Hin].
    - exists r0. split; [now left|]. unfold ipy_row in E0. destruct (total (snd x) <? 0); [discriminate|].
      inversion E0; subst. split; reflexivity.
    - destruct (IH rs eq_refl Hin) as (r & A & B). exists r. split; [now right|assumption].
  Qed.

  Lemma render_html_shows secs m out s sc st :
    render_html vty vlt vrepr true secs m = Ok out -> In s secs -> In ((s, sc), st) m ->
    exists rows r, In (s, rows) out /\ In r rows /\ row_shows sc st r.
  Proof.
    revert out. induction secs as [|s0 rest IH]; intros out H Hs Hin; [destruct Hs|]. cbn [render_html] in H.
    assert (Hit : In (sc, st) (sec_items s m)).
    { unfold sec_items. apply in_map_iff. exists ((s, sc), st). split; [reflexivity|]. apply filter_In. split; [assumption|].
      cbn. apply Nat.eqb_refl. }
    destruct (Nat.eq_dec s s0) as [->|Hne].
    - destruct (sec_items s0 m) as [|it items] eqn:Ei; [destruct Hit|].
      destruct (html_section vty vlt vrepr true (it :: items)) as [rows|] eqn:Es; cbn [bind] in H; [|discriminate].
      destruct (render_html vty vlt vrepr true rest m) as [r|]; cbn [bind] in H; [|discriminate]. inversion H; subst out.
      unfold html_section in Es. destruct (sorted_scope_items vty vlt vrepr true (it :: items)) as [l|] eqn:El; cbn [bind] in Es; [|discriminate].
      destruct (html_rows l) as [rows0|] eqn:Er; cbn [bind] in Es; [|discriminate].
      pose proof (sorted_perm vty vlt vrepr true _ _ El) as Hp.
      destruct (html_rows_show l rows0 (sc, st) Er (Permutation_in _ Hp Hit)) as (r0 & A & B).
      exists rows, r0. split; [now left|]. split; [|exact B].
      destruct (1 <? length (it :: items))%nat.
      + destruct (html_row None _); cbn [bind] in Es; [|discriminate]. inversion Es; subst. apply in_or_app. now left.
      + inversion Es; subst. assumption.
    - assert (Hr : In s rest) by (destruct Hs; [congruence|assumption]).
      destruct (sec_items s0 m) as [|it items].
      + destruct (IH out H Hr Hin) as (rows & r & A & B & C). eauto.
      + destruct (html_section _ _ _ _ _); cbn [bind] in H; [|discriminate].
        destruct (render_html vty vlt vrepr true rest m) as [o1|] eqn:E1; cbn [bind] in H; [|discriminate]. inversion H; subst out.
        destruct (IH o1 eq_refl Hr Hin) as (rows & r & A & B & C). exists rows, r. split; [now right|tauto].
  Qed.

  Lemma render_ipy_shows secs m out s sc st :
    render_ipy vty vlt vrepr true secs m = Ok out -> In s secs -> In ((s, sc), st) m ->
    exists rows r, In (s, rows) out /\ In r rows /\ row_shows sc st r.
  Proof.
    revert out. induction secs as [|s0 rest IH]; intros out H Hs Hin; [destruct Hs|]. cbn [render_ipy] in H.
    assert (Hit : In (sc, st) (sec_items s m)).
    { unfold sec_items. apply in_map_iff. exists ((s, sc), st). split; [reflexivity|]. apply filter_In. split; [assumption|].
      cbn. apply Nat.eqb_refl. }
    destruct (Nat.eq_dec s s0) as [->|Hne].
    - destruct (sec_items s0 m) as [|it items] eqn:Ei; [destruct Hit|].
      destruct (sorted_scope_items vty vlt vrepr true (it :: items)) as [l|] eqn:El; cbn [bind] in H; [|discriminate].
      destruct (ipy_rows l) as [rows0|] eqn:Er; cbn [bind] in H; [|discriminate].
      destruct (render_ipy vty vlt vrepr true rest m) as [r|]; cbn [bind] in H; [|discriminate]. inversion H; subst out.
      pose proof (sorted_perm vty vlt vrepr true _ _ El) as Hp.
      destruct (ipy_rows_show l rows0 (sc, st) Er (Permutation_in _ Hp Hit)) as (r0 & A & B).
      exists rows0, r0. split; [now left|]. split; assumption.
    - assert (Hr : In s rest) by (destruct Hs; [congruence|assumption]).
      destruct (sec_items s0 m) as [|it items].
      + destruct (IH out H Hr Hin) as (rows & r & A & B & C). eauto.
      + destruct (sorted_scope_items _ _ _ _ _); cbn [bind] in H; [|discriminate].
        destruct (ipy_rows _); cbn [bind] in H; [|discriminate].
        destruct (render_ipy vty vlt vrepr true rest m) as [o1|] eqn:E1; cbn [bind] in H; [|discriminate]. inversion H; subst out.
        destruct (IH o1 eq_refl Hr Hin) as (rows & r & A & B & C). exists rows, r. split; [now right|tauto].
  Qed.

  (** the rendering of a state lists every (section, scope) of the displayed sections with its counts *)
  Lemma render_pure_shows kd m out s sc st :
    render_pure vty vlt vrepr kd m = Ok out -> In s SECTIONS -> In ((s, sc), st) m ->
    exists rows r, In (s, rows) out /\ In r rows /\ r_scope r = Some sc /\ r_ps r = progress_string st.
  Proof.
    destruct kd; cbn [render_pure]; [discriminate| |]; intros H Hs Hin.
    - destruct (render_html_shows _ _ _ _ _ _ H Hs Hin) as (rows & r & A & B & C & D). eauto 6.
    - destruct (render_ipy_shows _ _ _ _ _ _ H Hs Hin) as (rows & r & A & B & C & D). eauto 6.
  Qed.
End ShowsCounts.
