(** Serialisation layers of the bundled stores (uberjob/stores/_*_file_store.py, _mounted_store.py) over
    FS.v / Staged.v.  Definitions only.

    Characters are code points in Z, strings are [list Z]; bytes are [list nat] as in FS.v.
    Everything that is not uberjob code (text encodings, json, pickle) is a *parameter* of the
    definitions below and enters the theorems as explicit premises (H-enc, H-json, H-pickle). *)
From Coq Require Import List Arith Bool ZArith.
Import ListNotations.
From UJ Require Import Store.FS Store.Staged.
Local Open Scope Z_scope.

Definition char := Z.
Definition text := list char.
Definition CR : char := 13.
Definition LF : char := 10.

(** ** The text layer of open()

    Reading with newline=None (universal newlines): "\r\n" and a lone "\r" become "\n".
    Writing with newline=None: "\n" becomes os.linesep, which is "\n" on POSIX.
    With newline="" nothing is translated in either direction. *)
Fixpoint univ_nl (s : text) : text :=
  match s with
  | [] => []
  | c :: rest =>
      if Z.eqb c CR
      then LF :: match rest with
                 | d :: r2 => if Z.eqb d LF then univ_nl r2 else univ_nl rest
                 | [] => []
                 end
      else c :: univ_nl rest
  end.

Definition write_nl (linesep : text) (s : text) : text :=
  flat_map (fun c => if Z.eqb c LF then linesep else [c]) s.

Definition posix_linesep : text := [LF].

(** [raw = true]: the file is opened with newline="" ; [raw = false]: with the default newline=None. *)
Definition text_out (raw : bool) (s : text) : text := if raw then s else write_nl posix_linesep s.
Definition text_in (raw : bool) (s : text) : text := if raw then s else univ_nl s.

(** ** A file store = a serialiser pair over one staged write / one read *)
Section FileStore.
  Variable V : Type.
  Variable ser : V -> bytes.
  Variable deser : bytes -> option V.

  (** FileStore.write: one staged_write (current code) of the serialised value, in whatever chunks. *)
  Definition store_write_chunks (st p : path) (chunks : list bytes) (s : state) : state * res :=
    staged_write true NoFault st p chunks true s.
  Definition store_write (st p : path) (v : V) (s : state) : state * res :=
    store_write_chunks st p [ser v] s.

  Definition store_read (p : path) (s : state) : option V :=
    match read_file s p with
    | Some b => deser b
    | None => None                     (* FileNotFoundError *)
    end.

  (** FileStore.get_modified_time: None when the path does not exist. *)
  Definition store_mtime (p : path) (s : state) : option Z := mtime_of s p.

  (** MountedStore over this store: [rp] is the remote object, [lp]/[lst] a path and its staging path
      inside a fresh temporary directory (removed afterwards).
        write:  create_store(local).write(v); copy_from_local(local)
        read:   copy_to_local(local); create_store(local).read()                                  *)
  Definition mounted_write (lst lp rp : path) (v : V) (s : state) : option state :=
    match store_write lst lp v s with
    | (s1, Ok) =>
        match copy_file s1 lp rp with
        | Some s2 => Some (fst (apply (Remove lp) s2))
        | None => None
        end
    | _ => None
    end.

  Definition mounted_read (lp rp : path) (s : state) : option V :=
    match copy_file s rp lp with
    | Some s1 => store_read lp s1
    | None => None
    end.
End FileStore.

(** ** The serialiser pairs of the five bundled stores *)

(** BinaryFileStore *)
Definition bin_ser (b : bytes) : bytes := b.
Definition bin_deser (b : bytes) : option bytes := Some b.

(** TouchFileStore: stores None as an empty file; read insists on an empty file. *)
Definition touch_ser (_ : unit) : bytes := [].
Definition touch_deser (b : bytes) : option unit := match b with [] => Some tt | _ => None end.

(** TextFileStore(encoding): [raw = true] is the current code (newline=""), [raw = false] the code before
    commit 91596b1 (default newline handling on both sides). *)
Definition text_ser (enc : text -> bytes) (raw : bool) (s : text) : bytes := enc (text_out raw s).
Definition text_deser (dec : bytes -> option text) (raw : bool) (b : bytes) : option text :=
  option_map (text_in raw) (dec b).

(** JsonFileStore(encoding): json.dump / json.load through a text file opened with the default newline handling. *)
Definition json_ser {J : Type} (enc : text -> bytes) (dumps : J -> text) (v : J) : bytes :=
  enc (text_out false (dumps v)).
Definition json_deser {J : Type} (dec : bytes -> option text) (loads : text -> option J) (b : bytes) : option J :=
  match dec b with
  | Some t => loads (text_in false t)
  | None => None
  end.

(** PickleFileStore: pickle.dump / pickle.load through a binary file. *)
Definition pickle_ser {P : Type} (dumps : P -> bytes) (v : P) : bytes := dumps v.
Definition pickle_deser {P : Type} (loads : bytes -> option P) (b : bytes) : option P := loads b.

(** ** Successive writes: the modified times a caller observes after each of them *)
Fixpoint mtimes_after (st p : path) (writes : list bytes) (s : state) : list (option Z) :=
  match writes with
  | [] => []
  | b :: rest =>
      let s' := fst (store_write bytes bin_ser st p b s) in
      mtime_of s' p :: mtimes_after st p rest s'
  end.

(** strictly increasing, all present *)
Fixpoint increasing_from (lo : Z) (l : list (option Z)) : Prop :=
  match l with
  | [] => True
  | Some t :: rest => lo < t /\ increasing_from t rest
  | None :: _ => False
  end.

(** ** A concrete codec for evaluation: latin-1 (code point = byte) *)
Definition latin1_enc (s : text) : bytes := map Z.to_nat s.
Definition latin1_dec (b : bytes) : option text := Some (map Z.of_nat b).
Definition latin1_repr (s : text) : Prop := forall c, In c s -> 0 <= c.
