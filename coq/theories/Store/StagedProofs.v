From Coq Require Import List Arith Bool ZArith Lia.
Import ListNotations.
From UJ Require Import Store.FS Store.Staged.
Local Open Scope Z_scope.

(** * Basic facts about single operations *)

Lemma upd_same m p v : upd m p v p = v.
Proof. unfold upd. now rewrite Nat.eqb_refl. Qed.

Lemma upd_other m p q v : q <> p -> upd m p v q = m q.
Proof. intros H. unfold upd. apply Nat.eqb_neq in H. now rewrite H. Qed.

(** Operations of the staging phase: everything but the rename. *)
Definition on_staging (st : path) (o : op) : Prop :=
  match o with
  | Open q | Write q _ | Close q | Remove q => q = st
  | Rename _ _ => False
  end.

Lemma apply_keeps o s st p :
  on_staging st o -> p <> st -> files (fst (apply o s)) p = files s p.
Proof.
  intros Ho Hp. destruct o as [q|q c|q|a b|q]; cbn in Ho; subst; cbn.
  - destruct (opened s); cbn; auto. now rewrite upd_other.
  - destruct (opened s) as [r|]; cbn; auto.
    destruct (files s st) as [[b t]|]; cbn; auto.
    destruct (Nat.eqb r st); cbn; auto. now rewrite upd_other.
  - destruct (opened s) as [r|]; cbn; auto. destruct (Nat.eqb r st); cbn; auto.
  - contradiction.
  - destruct (files s st); cbn; auto. now rewrite upd_other.
Qed.

Lemma apply_clock o s : clock s <= clock (fst (apply o s)).
Proof.
  destruct o as [q|q c|q|a b|q]; cbn.
  - destruct (opened s); cbn; lia.
  - destruct (opened s) as [r|]; cbn; try lia.
    destruct (files s q) as [[b t]|]; cbn; try lia.
    destruct (Nat.eqb r q); cbn; lia.
  - destruct (opened s) as [r|]; cbn; try lia. destruct (Nat.eqb r q); cbn; lia.
  - destruct (files s a); cbn; lia.
  - destruct (files s q); cbn; lia.
Qed.

Lemma apply_false o s s' : apply o s = (s', false) -> s' = s.
Proof.
  destruct o as [q|q c|q|a b|q]; cbn.
  - destruct (opened s); intros H; now inversion H.
  - destruct (opened s) as [r|]; [|intros H; now inversion H].
    destruct (files s q) as [[b t]|]; [|intros H; now inversion H].
    destruct (Nat.eqb r q); intros H; now inversion H.
  - destruct (opened s) as [r|]; [|intros H; now inversion H].
    destruct (Nat.eqb r q); intros H; now inversion H.
  - destruct (files s a); intros H; now inversion H.
  - destruct (files s q); intros H; now inversion H.
Qed.

Lemma apply_exc_keeps o pre s st p :
  on_staging st o -> p <> st -> files (apply_exc o pre s) p = files s p.
Proof.
  intros Ho Hp. destruct o as [q|q c|q|a b|q]; cbn in Ho; subst; cbn [apply_exc]; auto.
  - destruct (Nat.eqb pre 0); auto.
    destruct (apply (Open st) s) as [s1 [|]] eqn:E; auto.
    rewrite (apply_keeps (Close st) s1 st p); cbn; auto.
    replace s1 with (fst (apply (Open st) s)) by now rewrite E.
    apply (apply_keeps (Open st) s st p); cbn; auto.
  - apply (apply_keeps (Write st (firstn pre c)) s st p); cbn; auto.
  - apply (apply_keeps (Close st) s st p); cbn; auto.
Qed.

Lemma apply_exc_clock o pre s : clock s <= clock (apply_exc o pre s).
Proof.
  destruct o as [q|q c|q|a b|q]; cbn [apply_exc]; try lia; try apply apply_clock.
  destruct (Nat.eqb pre 0); try lia.
  destruct (apply (Open q) s) as [s1 [|]] eqn:E; try lia.
  etransitivity; [|apply apply_clock].
  replace s1 with (fst (apply (Open q) s)) by now rewrite E. apply apply_clock.
Qed.

Lemma step_keeps f i o s st p :
  on_staging st o -> p <> st -> files (fst (step f i o s)) p = files s p.
Proof.
  intros Ho Hp.
  assert (Hn : files (fst (normal o s)) p = files s p).
  { unfold normal. pose proof (apply_keeps o s st p Ho Hp) as H.
    destruct (apply o s) as [s' ok]; exact H. }
  destruct f as [|j pre|j|j]; cbn [step]; auto; destruct (Nat.eqb i j); cbn [fst]; auto.
  - now apply apply_exc_keeps with st.
  - now apply apply_keeps with st.
Qed.

Lemma step_clock f i o s : clock s <= clock (fst (step f i o s)).
Proof.
  assert (Hn : clock s <= clock (fst (normal o s))).
  { unfold normal. pose proof (apply_clock o s) as H. destruct (apply o s); exact H. }
  destruct f as [|j pre|j|j]; cbn [step]; auto; destruct (Nat.eqb i j); cbn [fst]; auto; try lia.
  - apply apply_exc_clock.
  - apply apply_clock.
Qed.

(** A step that reports success was an ordinary, unfaulted, successful operation. *)
Lemma step_ok f i o s s' : step f i o s = (s', Ok) -> apply o s = (s', true) /\ (forall j pre, f = Exc j pre -> i <> j).
Proof.
  assert (Hn : normal o s = (s', Ok) -> apply o s = (s', true)).
  { unfold normal. destruct (apply o s) as [s1 [|]]; intros H; inversion H; auto. }
  destruct f as [|j pre|j|j]; cbn [step].
  - intros H; split; auto. intros; discriminate.
  - destruct (Nat.eqb i j) eqn:E; [intros H; inversion H|].
    intros H; split; auto. intros j' pre' Hf. inversion Hf; subst. now apply Nat.eqb_neq.
  - destruct (Nat.eqb i j); [intros H; inversion H|]. intros H; split; auto. intros; discriminate.
  - destruct (Nat.eqb i j); [intros H; inversion H|]. intros H; split; auto. intros; discriminate.
Qed.

(** A step that raised: either the fault fired here, or the operation itself failed (no effect). *)
Lemma step_exn f i o s s' :
  step f i o s = (s', Exn) ->
  (exists pre, f = Exc i pre /\ s' = apply_exc o pre s) \/ (apply o s = (s', false) /\ s' = s).
Proof.
  assert (Hn : normal o s = (s', Exn) -> apply o s = (s', false) /\ s' = s).
  { unfold normal. destruct (apply o s) as [s1 [|]] eqn:E; intros H; inversion H; subst.
    split; auto. now apply apply_false in E. }
  destruct f as [|j pre|j|j]; cbn [step]; auto.
  - destruct (Nat.eqb i j) eqn:E; auto. intros H; inversion H; subst. apply Nat.eqb_eq in E; subst.
    left; eauto.
  - destruct (Nat.eqb i j); auto. intros H; inversion H.
  - destruct (Nat.eqb i j); auto. intros H; inversion H.
Qed.

(** A step at an index the fault does not name is the ordinary operation. *)
Lemma step_unfaulted f i o s :
  is_death f = false -> (forall j pre, f = Exc j pre -> i <> j) -> step f i o s = normal o s.
Proof.
  intros Hd Hne. destruct f as [|j pre|j|j]; cbn in *; try discriminate; auto.
  destruct (Nat.eqb i j) eqn:E; auto. apply Nat.eqb_eq in E. exfalso. now apply (Hne j pre).
Qed.

(** * The staging file while it is open *)

Definition staging_is (s : state) (st : path) (acc : bytes) (t0 : Z) : Prop :=
  opened s = Some st /\ exists t, files s st = Some (acc, t) /\ t0 <= t.

Lemma write_ok s st acc t0 c s' :
  staging_is s st acc t0 -> t0 <= clock s -> apply (Write st c) s = (s', true) ->
  staging_is s' st (acc ++ c) t0.
Proof.
  intros (Ho & t & Hf & Ht) Hc. cbn. rewrite Ho, Hf, Nat.eqb_refl. intros H; inversion H; subst.
  split; cbn; auto. exists (clock s). rewrite upd_same. split; auto.
Qed.

Lemma write_succeeds s st acc t0 c :
  staging_is s st acc t0 -> exists s', apply (Write st c) s = (s', true).
Proof.
  intros (Ho & t & Hf & Ht). cbn. rewrite Ho, Hf, Nat.eqb_refl. eauto.
Qed.

(** Result of the write loop. [fired i] : the fault has already been consumed below index i. *)
Definition fired (f : fault) (i : nat) : Prop := exists j pre, f = Exc j pre /\ (j < i)%nat.
Definition unfired (f : fault) (i : nat) : Prop := forall j pre, f = Exc j pre -> (i <= j)%nat.

Lemma do_writes_spec f st p chunks : forall i s acc t0 s' r i',
  p <> st -> staging_is s st acc t0 -> t0 <= clock s -> unfired f i ->
  do_writes f i st chunks s = (s', r, i') ->
  files s' p = files s p /\ clock s <= clock s' /\
  match r with
  | Ok => staging_is s' st (acc ++ concat chunks) t0 /\ i' = (i + length chunks)%nat /\ unfired f i'
  | Exn => fired f i' /\ opened s' = Some st
  | Dead => True
  end.
Proof.
  induction chunks as [|c cs IH]; intros i s acc t0 s' r i' Hp Hst Hc Hun; cbn [do_writes].
  - intros H; inversion H; subst. split; auto. split; [lia|]. rewrite app_nil_r, Nat.add_0_r. auto.
  - destruct (step f i (Write st c) s) as [s1 r1] eqn:E.
    pose proof (step_keeps f i (Write st c) s st p eq_refl Hp) as Hk. rewrite E in Hk; cbn in Hk.
    pose proof (step_clock f i (Write st c) s) as Hck. rewrite E in Hck; cbn in Hck.
    destruct r1.
    + apply step_ok in E as [Ea Ene].
      intros H. eapply (IH (S i) s1 (acc ++ c) t0) in H; eauto.
      * destruct H as (H1 & H2 & H3). split; [congruence|]. split; [lia|].
        destruct r; auto. cbn [concat length]. rewrite app_assoc. destruct H3 as (A & B & C).
        split; auto. split; auto. lia.
      * eapply write_ok; eauto.
      * lia.
      * intros j pre Hf. specialize (Hun j pre Hf). specialize (Ene j pre Hf). lia.
    + intros H; inversion H; subst. split; auto. split; auto.
      apply step_exn in E as [(pre & Hf & Hs)|[Ha _]].
      * split. { exists i, pre. split; auto. }
        subst. cbn [apply_exc]. destruct Hst as (Ho & t & Hfl & Ht). cbn. rewrite Ho, Hfl, Nat.eqb_refl. cbn. auto.
      * destruct (write_succeeds s st acc t0 c Hst) as [s2 Hs2]. congruence.
    + intros H; inversion H; subst. auto.
Qed.

(** * The body: with open(staging) as f: ... *)

Lemma open_ok s st s1 :
  apply (Open st) s = (s1, true) ->
  staging_is s1 st [] (clock s) /\ clock s <= clock s1.
Proof.
  cbn. destruct (opened s); intros H; inversion H; subst. unfold staging_is; cbn [opened files clock]. split; [|lia].
  split; auto. exists (clock s). rewrite upd_same. split; auto. lia.
Qed.

Lemma close_staging s st acc t0 :
  staging_is s st acc t0 ->
  exists s', apply (Close st) s = (s', true) /\ opened s' = None /\
             (exists t, files s' st = Some (acc, t) /\ t0 <= t).
Proof.
  intros (Ho & t & Hf & Ht). cbn. rewrite Ho, Nat.eqb_refl. eexists; split; eauto.
Qed.

Lemma with_open_spec f st p chunks ser_ok s s1 r i :
  p <> st -> opened s = None ->
  with_open f st chunks ser_ok s = (s1, r, i) ->
  files s1 p = files s p /\
  match r with
  | Ok => ser_ok = true /\ i = (length chunks + 2)%nat /\ unfired f i /\
          exists t, files s1 st = Some (concat chunks, t) /\ clock s <= t
  | Exn => fired f i \/ (ser_ok = false /\ i = (length chunks + 2)%nat /\ unfired f i)
  | Dead => True
  end.
Proof.
  intros Hp Hop. unfold with_open, after_open.
  destruct (step f 0 (Open st) s) as [s0 r0] eqn:E0.
  pose proof (step_keeps f 0 (Open st) s st p eq_refl Hp) as Hk0. rewrite E0 in Hk0; cbn in Hk0.
  destruct r0.
  2:{ intros H; injection H as <- <- <-. split; auto.
      apply step_exn in E0 as [(pre & Hf & _)|[Ha _]].
      - left. exists 0%nat, pre. split; auto.
      - cbn in Ha. rewrite Hop in Ha. inversion Ha. }
  2:{ intros H; injection H as <- <- <-. auto. }
  apply step_ok in E0 as [Ea Ene].
  apply open_ok in Ea as [Hst Hc0].
  destruct (do_writes f 1 st chunks s0) as [[s2 r2] i2] eqn:E2.
  eapply (do_writes_spec f st p chunks 1 s0 [] (clock s)) in E2; eauto.
  2:{ intros j pre Hf. specialize (Ene j pre Hf). lia. }
  destruct E2 as (Hk2 & Hc2 & Hr2). cbn [app] in Hr2.
  destruct r2.
  - destruct Hr2 as (Hst2 & Hi2 & Hun2).
    destruct (step f i2 (Close st) s2) as [s3 r3] eqn:E3.
    pose proof (step_keeps f i2 (Close st) s2 st p eq_refl Hp) as Hk3. rewrite E3 in Hk3; cbn in Hk3.
    destruct r3; intros H; injection H as <- <- <-; (split; [congruence|]).
    + apply step_ok in E3 as [Ea3 Ene3].
      destruct (close_staging s2 st _ _ Hst2) as (s3' & Hcl & _ & t & Hf3 & Ht3).
      assert (s3' = s3) by congruence; subst s3'.
      assert (Hun3 : unfired f (S i2)).
      { intros j pre Hf. specialize (Hun2 j pre Hf). specialize (Ene3 j pre Hf). lia. }
      assert (Hi3 : S i2 = (length chunks + 2)%nat) by lia.
      destruct ser_ok.
      * split; auto. split; auto. split; auto. exists t. split; auto.
      * right. split; auto.
    + left. apply step_exn in E3 as [(pre & Hf & _)|[Ha _]].
      * exists i2, pre. split; auto.
      * destruct (close_staging s2 st _ _ Hst2) as (s3' & Hcl & _). congruence.
    + auto.
  - destruct Hr2 as [Hfi Ho2].
    destruct (step f i2 (Close st) s2) as [s3 r3] eqn:E3.
    pose proof (step_keeps f i2 (Close st) s2 st p eq_refl Hp) as Hk3. rewrite E3 in Hk3; cbn in Hk3.
    assert (Hfi' : fired f (S i2)).
    { destruct Hfi as (j & pre & Hf & Hlt). exists j, pre. split; auto. }
    destruct r3; intros H; injection H as <- <- <-; (split; [congruence|]); auto.
  - intros H; injection H as <- <- <-. split; [congruence|]. auto.
Qed.

(** Without a death fault nothing dies. *)
Lemma step_not_dead f i o s s' : is_death f = false -> step f i o s = (s', Dead) -> False.
Proof.
  intros Hd H. destruct f as [|j pre|j|j]; cbn in Hd; try discriminate; cbn [step] in H.
  - unfold normal in H. destruct (apply o s) as [? [|]]; inversion H.
  - destruct (Nat.eqb i j); [inversion H|]. unfold normal in H. destruct (apply o s) as [? [|]]; inversion H.
Qed.

Lemma do_writes_not_dead f st cs : forall i sa sb ib,
  is_death f = false -> do_writes f i st cs sa = (sb, Dead, ib) -> False.
Proof.
  induction cs as [|c cs IH]; cbn; intros i sa sb ib Hd H.
  - inversion H.
  - destruct (step f i (Write st c) sa) as [sx rx] eqn:Ex. destruct rx.
    + eapply IH; eauto.
    + inversion H.
    + eapply step_not_dead; eauto.
Qed.

Lemma with_open_not_dead f st chunks ser_ok s s1 i :
  is_death f = false -> with_open f st chunks ser_ok s = (s1, Dead, i) -> False.
Proof.
  intros Hd. unfold with_open, after_open.
  destruct (step f 0 (Open st) s) as [s0 r0] eqn:E0. destruct r0.
  - destruct (do_writes f 1 st chunks s0) as [[s2 r2] i2] eqn:E2. destruct r2.
    + destruct (step f i2 (Close st) s2) as [s3 r3] eqn:E3.
      destruct r3; destruct ser_ok; intros H; inversion H. all: eapply step_not_dead; eauto.
    + destruct (step f i2 (Close st) s2) as [s3 r3] eqn:E3.
      destruct r3; intros H; inversion H. eapply step_not_dead; eauto.
    + intros _. eapply do_writes_not_dead; eauto.
  - intros H; inversion H.
  - intros _. eapply step_not_dead; eauto.
Qed.

(** * Handler *)

Lemma handler_keeps f i st s p : p <> st -> files (fst (handler f i st s)) p = files s p.
Proof.
  intros Hp. unfold handler.
  pose proof (step_keeps f i (Remove st) s st p eq_refl Hp) as H.
  destruct (step f i (Remove st) s) as [s' r]. destruct r; exact H.
Qed.

Lemma normal_remove_gone st s : files (fst (normal (Remove st) s)) st = None.
Proof.
  unfold normal. cbn. destruct (files s st) eqn:E; cbn; auto. apply upd_same.
Qed.

Lemma handler_unfaulted_gone f i st s :
  is_death f = false -> (forall j pre, f = Exc j pre -> i <> j) ->
  files (fst (handler f i st s)) st = None /\ snd (handler f i st s) = Exn.
Proof.
  intros Hd Hne. unfold handler. rewrite step_unfaulted; auto.
  pose proof (normal_remove_gone st s) as H.
  destruct (normal (Remove st) s) as [s' r] eqn:E. cbn in H.
  assert (r <> Dead). { unfold normal in E. destruct (apply (Remove st) s) as [? [|]]; inversion E; discriminate. }
  destruct r; cbn; auto. congruence.
Qed.

(** * C11: old or new *)

Lemma old_or_new_target fixed f st p chunks ser_ok s :
  p <> st -> opened s = None ->
  let s' := fst (staged_write fixed f st p chunks ser_ok s) in
  files s' p = files s p \/
  (ser_ok = true /\ exists t, files s' p = Some (new_content chunks, t) /\ clock s <= t).
Proof.
  intros Hp Hop. unfold staged_write, finish.
  destruct (with_open f st chunks ser_ok s) as [[s1 r1] i1] eqn:E1.
  pose proof (with_open_spec f st p chunks ser_ok s s1 r1 i1 Hp Hop E1) as [Hk1 Hr1].
  destruct r1; cbn zeta.
  - destruct Hr1 as (Hser & Hi & Hun & t & Hst & Ht).
    destruct (step f i1 (Rename st p) s1) as [s2 r2] eqn:E2.
    assert (Hren : forall sx, apply (Rename st p) s1 = (sx, true) -> files sx p = Some (new_content chunks, t)).
    { cbn. rewrite Hst. intros sx H; inversion H; subst. cbn. apply upd_same. }
    destruct r2.
    + apply step_ok in E2 as [Ea _]. right. split; auto. exists t. split; auto.
    + apply step_exn in E2 as [(pre & Hf & Hs)|[_ Hs]]; cbn [apply_exc] in Hs; subst s2;
        left; destruct fixed; cbn [fst]; try congruence; rewrite handler_keeps; auto.
    + (* died before or after the rename *)
      destruct f as [|j pre|j|j]; cbn [step] in E2.
      * unfold normal in E2. destruct (apply (Rename st p) s1) as [? [|]]; inversion E2.
      * destruct (Nat.eqb i1 j); [inversion E2|].
        unfold normal in E2. destruct (apply (Rename st p) s1) as [? [|]]; inversion E2.
      * destruct (Nat.eqb i1 j).
        -- inversion E2; subst. left. auto.
        -- unfold normal in E2. destruct (apply (Rename st p) s1) as [? [|]]; inversion E2.
      * destruct (Nat.eqb i1 j).
        -- inversion E2; subst. right. split; auto. exists t. split; auto. cbn [fst].
           apply Hren. cbn. rewrite Hst. reflexivity.
        -- unfold normal in E2. destruct (apply (Rename st p) s1) as [? [|]]; inversion E2.
  - left. rewrite handler_keeps; auto.
  - left. auto.
Qed.

Lemma old_or_new fixed f st p chunks ser_ok s :
  p <> st -> opened s = None -> clock_ahead s ->
  let s' := fst (staged_write fixed f st p chunks ser_ok s) in
  let installed := exists t, files s' p = Some (new_content chunks, t) /\ clock s <= t in
  (files s' p = files s p \/ installed) /\
  (mtime_of s' p <> mtime_of s p <-> installed).
Proof.
  intros Hp Hop Hck s' installed.
  destruct (old_or_new_target fixed f st p chunks ser_ok s Hp Hop) as [H|[_ H]]; fold s' in H.
  - split; [left; auto|]. unfold mtime_of. rewrite H. split; [congruence|].
    intros (t & Hf & Ht). rewrite Hf in H. symmetry in H. apply Hck in H. lia.
  - split; [right; auto|]. split; auto. intros _. destruct H as (t & Hf & Ht).
    unfold mtime_of. rewrite Hf. cbn. destruct (files s p) as [[b t0]|] eqn:E; cbn; [|discriminate].
    apply Hck in E. intros Heq. inversion Heq. lia.
Qed.

(** A write without fault of a serialisable value installs the new content and leaves no staging file. *)
Lemma success_installs fixed st p chunks s :
  p <> st -> opened s = None ->
  let r := staged_write fixed NoFault st p chunks true s in
  snd r = Ok /\ files (fst r) st = None /\ (forall q, q <> st -> q <> p -> files (fst r) q = files s q) /\
  exists t, files (fst r) p = Some (new_content chunks, t) /\ clock s <= t.
Proof.
  intros Hp Hop. unfold staged_write, finish.
  destruct (with_open NoFault st chunks true s) as [[s1 r1] i1] eqn:E1.
  assert (Hq : forall q, q <> st -> files s1 q = files s q).
  { intros q Hq. apply (with_open_spec NoFault st q chunks true s s1 r1 i1 Hq Hop E1). }
  pose proof (with_open_spec NoFault st p chunks true s s1 r1 i1 Hp Hop E1) as [Hk1 Hr1].
  destruct r1.
  - destruct Hr1 as (_ & Hi & _ & t & Hst & Ht). unfold step, normal. cbn [apply]. rewrite Hst. cbn [fst snd files].
    split; auto. split. { rewrite upd_other; auto. apply upd_same. }
    split. { intros q H1 H2. rewrite !upd_other; auto. }
    exists t. rewrite upd_same. auto.
  - exfalso. destruct Hr1 as [(j & pre & Hf & _)|(Hs & _)]; discriminate.
  - exfalso. eapply (with_open_not_dead NoFault); eauto.
Qed.

(** * C11: no staging file after an exception (fixed code) *)

Lemma no_staging_after_exception f st p chunks ser_ok s :
  p <> st -> opened s = None -> is_death f = false -> remove_faulted chunks ser_ok f = false ->
  let r := staged_write true f st p chunks ser_ok s in
  snd r <> Dead /\ files (fst r) st = None.
Proof.
  intros Hp Hop Hd Hrf. unfold staged_write, finish.
  destruct (with_open f st chunks ser_ok s) as [[s1 r1] i1] eqn:E1.
  pose proof (with_open_spec f st p chunks ser_ok s s1 r1 i1 Hp Hop E1) as [Hk1 Hr1].
  destruct r1.
  - destruct Hr1 as (Hser & Hi & Hun & t & Hst & Ht).
    destruct (step f i1 (Rename st p) s1) as [s2 r2] eqn:E2.
    destruct r2.
    + apply step_ok in E2 as [Ea _]. cbn in Ea. rewrite Hst in Ea. inversion Ea; subst. cbn.
      split; [discriminate|]. rewrite upd_other; auto. apply upd_same.
    + apply step_exn in E2 as [(pre & Hf & Hs)|[Ha _]].
      * destruct (handler_unfaulted_gone f (S i1) st s2 Hd) as [H1 H2].
        { intros j pre' Hf'. rewrite Hf in Hf'. inversion Hf'. lia. }
        split; [rewrite H2; discriminate|auto].
      * cbn in Ha. rewrite Hst in Ha. inversion Ha.
    + exfalso. eapply step_not_dead; eauto.
  - destruct (handler_unfaulted_gone f i1 st s1 Hd) as [H1 H2].
    { intros j pre Hf. destruct Hr1 as [(j' & pre' & Hf' & Hlt)|(Hs & Hi & Hun)].
      - rewrite Hf in Hf'. inversion Hf'. lia.
      - subst. cbn in Hrf. rewrite Nat.eqb_sym in Hrf.
        destruct (Nat.eqb (length chunks + 2) j) eqn:E; [discriminate|]. now apply Nat.eqb_neq. }
    split; [rewrite H2; discriminate|auto].
  - exfalso. eapply with_open_not_dead; eauto.
Qed.

(** Before commit 9fd6722 the rename sat after the try: an exception raised by os.replace escaped
    without the handler and the staging file stayed. *)
Definition st0 : state := mkState (upd empty_fs 0%nat (Some ([1%nat], 5))) None 10.

Lemma no_staging_after_exception_prefix_refuted :
  exists (s : state) (st p : path) (chunks : list bytes) (i pre : nat),
    p <> st /\ opened s = None /\ clock_ahead s /\
    let r := staged_write false (Exc i pre) st p chunks true s in
    snd r = Exn /\ files (fst r) st <> None.
Proof.
  exists st0, 1%nat, 0%nat, [[7%nat; 8%nat]], 3%nat, 0%nat.
  split; [discriminate|]. split; [reflexivity|]. split.
  - intros q b t. unfold st0, upd, empty_fs; cbn. destruct (Nat.eqb q 0); intros H; inversion H. lia.
  - cbn. split; [reflexivity|discriminate].
Qed.

(** The same fault on the fixed code leaves nothing (non-vacuity of no_staging_after_exception). *)
Example fixed_rename_exception_cleans :
  let r := staged_write true (Exc 3 0) 1%nat 0%nat [[7%nat; 8%nat]] true st0 in
  snd r = Exn /\ files (fst r) 1%nat = None /\ files (fst r) 0%nat = Some ([1%nat], 5).
Proof. cbn. auto. Qed.

Example clean_write_installs :
  let r := staged_write true NoFault 1%nat 0%nat [[7%nat]; [8%nat; 9%nat]] true st0 in
  snd r = Ok /\ files (fst r) 1%nat = None /\ files (fst r) 0%nat = Some ([7%nat; 8%nat; 9%nat], 12).
Proof. cbn. auto. Qed.

(** A torn write fault keeps the old file, content and mtime (non-vacuity of old_or_new: a fault
    that really leaves a half-written staging file when the process dies). *)
Example death_mid_write_keeps_old :
  let r := staged_write true (DieAfter 1) 1%nat 0%nat [[7%nat]; [8%nat; 9%nat]] true st0 in
  snd r = Dead /\ files (fst r) 1%nat = Some ([7%nat], 11) /\ files (fst r) 0%nat = Some ([1%nat], 5).
Proof. cbn. auto. Qed.

(** * C11: a leftover staging file is harmless *)

Definition with_leftover (s : state) (st : path) (junk : file) : state :=
  mkState (upd (files s) st (Some junk)) (opened s) (clock s).

(** [agree]: same files everywhere; [agree_off st]: same files except possibly at the staging path. *)
Definition agree (a b : state) : Prop :=
  (forall q, files a q = files b q) /\ opened a = opened b /\ clock a = clock b.
Definition agree_off (st : path) (a b : state) : Prop :=
  (forall q, q <> st -> files a q = files b q) /\ opened a = opened b /\ clock a = clock b.

Lemma agree_weaken st a b : agree a b -> agree_off st a b.
Proof. intros (A & B & C). repeat split; auto. Qed.

Ltac agree_tac Hf :=
  unfold agree; cbn [files opened clock fst snd];
  split; [ intros z; unfold upd;
           repeat match goal with |- context [Nat.eqb ?u ?v] => destruct (Nat.eqb u v) end;
           auto; try congruence; try (rewrite Hf; reflexivity)
         | split; auto; congruence ].

Lemma agree_apply o a b :
  agree a b -> agree (fst (apply o a)) (fst (apply o b)) /\ snd (apply o a) = snd (apply o b).
Proof.
  intros (Hf & Ho & Hc). destruct o as [q|q c|q|x y|q]; cbn [apply].
  - rewrite Ho. destruct (opened b) eqn:Eb; cbn [fst snd]; (split; [agree_tac Hf|reflexivity]).
  - rewrite Ho, Hf. destruct (opened b) as [r|] eqn:Eb; cbn [fst snd]; [|split; [agree_tac Hf|reflexivity]].
    destruct (files b q) as [[bb t]|] eqn:Efq; cbn [fst snd]; [|split; [agree_tac Hf|reflexivity]].
    destruct (Nat.eqb r q); cbn [fst snd]; (split; [agree_tac Hf|reflexivity]).
  - rewrite Ho. destruct (opened b) as [r|] eqn:Eb; cbn [fst snd]; [|split; [agree_tac Hf|reflexivity]].
    destruct (Nat.eqb r q); cbn [fst snd]; (split; [agree_tac Hf|reflexivity]).
  - rewrite Hf, Ho. destruct (files b x) eqn:Efx; cbn [fst snd]; (split; [agree_tac Hf|reflexivity]).
  - rewrite Hf, Ho. destruct (files b q) eqn:Efq; cbn [fst snd]; (split; [agree_tac Hf|reflexivity]).
Qed.

Lemma agree_apply_exc o pre a b : agree a b -> agree (apply_exc o pre a) (apply_exc o pre b).
Proof.
  intros H. destruct o as [q|q c|q|x y|q]; cbn [apply_exc]; auto.
  - destruct (Nat.eqb pre 0); auto.
    destruct (agree_apply (Open q) a b H) as [H1 H2].
    destruct (apply (Open q) a) as [a1 oa], (apply (Open q) b) as [b1 ob]; cbn [fst snd] in *. subst ob.
    destruct oa; auto. apply agree_apply; auto.
  - apply agree_apply; auto.
  - apply agree_apply; auto.
Qed.

Lemma agree_step f i o a b :
  agree a b -> agree (fst (step f i o a)) (fst (step f i o b)) /\ snd (step f i o a) = snd (step f i o b).
Proof.
  intros H.
  assert (Hn : agree (fst (normal o a)) (fst (normal o b)) /\ snd (normal o a) = snd (normal o b)).
  { unfold normal. destruct (agree_apply o a b H) as [H1 H2].
    destruct (apply o a) as [a1 oa], (apply o b) as [b1 ob]; cbn [fst snd] in *. subst. auto. }
  destruct f as [|j pre|j|j]; cbn [step]; auto; destruct (Nat.eqb i j); cbn [fst snd]; auto.
  - split; auto. apply agree_apply_exc; auto.
  - split; auto. apply agree_apply; auto.
Qed.

Lemma agree_do_writes f st chunks : forall i a b,
  agree a b ->
  agree (fst (fst (do_writes f i st chunks a))) (fst (fst (do_writes f i st chunks b))) /\
  snd (fst (do_writes f i st chunks a)) = snd (fst (do_writes f i st chunks b)) /\
  snd (do_writes f i st chunks a) = snd (do_writes f i st chunks b).
Proof.
  induction chunks as [|c cs IH]; intros i a b H; cbn [do_writes].
  - cbn. auto.
  - destruct (agree_step f i (Write st c) a b H) as [H1 H2].
    destruct (step f i (Write st c) a) as [a1 ra], (step f i (Write st c) b) as [b1 rb]; cbn [fst snd] in H1, H2.
    subst rb. destruct ra; cbn [fst snd]; auto.
Qed.

Lemma agree_after_open f st chunks ser_ok a b :
  agree a b ->
  agree (fst (fst (after_open f st chunks ser_ok a))) (fst (fst (after_open f st chunks ser_ok b))) /\
  snd (fst (after_open f st chunks ser_ok a)) = snd (fst (after_open f st chunks ser_ok b)) /\
  snd (after_open f st chunks ser_ok a) = snd (after_open f st chunks ser_ok b).
Proof.
  intros H. unfold after_open.
  destruct (agree_do_writes f st chunks 1 a b H) as (H1 & H2 & H3).
  destruct (do_writes f 1 st chunks a) as [[a2 ra] ia], (do_writes f 1 st chunks b) as [[b2 rb] ib].
  cbn [fst snd] in H1, H2, H3. subst rb ib.
  destruct (agree_step f ia (Close st) a2 b2 H1) as [H4 H5].
  destruct (step f ia (Close st) a2) as [a3 rc], (step f ia (Close st) b2) as [b3 rc'].
  cbn [fst snd] in H4, H5. subst rc'.
  destruct ra; destruct rc; cbn [fst snd]; auto.
Qed.

Lemma agree_handler f i st a b :
  agree a b -> agree (fst (handler f i st a)) (fst (handler f i st b)) /\
               snd (handler f i st a) = snd (handler f i st b).
Proof.
  intros H. unfold handler. destruct (agree_step f i (Remove st) a b H) as [H1 H2].
  destruct (step f i (Remove st) a) as [a1 ra], (step f i (Remove st) b) as [b1 rb]; cbn [fst snd] in H1, H2.
  subst rb. destruct ra; cbn [fst snd]; auto.
Qed.

Lemma agree_finish fixed f st p a b r i :
  agree a b ->
  agree (fst (finish fixed f st p (a, r, i))) (fst (finish fixed f st p (b, r, i))) /\
  snd (finish fixed f st p (a, r, i)) = snd (finish fixed f st p (b, r, i)).
Proof.
  intros H. unfold finish. destruct r; auto.
  - destruct (agree_step f i (Rename st p) a b H) as [H1 H2].
    destruct (step f i (Rename st p) a) as [a1 ra], (step f i (Rename st p) b) as [b1 rb]; cbn [fst snd] in H1, H2.
    subst rb. destruct ra; cbn [fst snd]; auto. destruct fixed; cbn [fst snd]; auto.
    apply agree_handler; auto.
  - apply agree_handler; auto.
Qed.

(** Whether a step dies depends on the fault and the index only, not on the state. *)
Lemma step_dead_indep f i o a b :
  (snd (step f i o a) = Dead <-> snd (step f i o b) = Dead).
Proof.
  assert (Hn : forall x, snd (normal o x) <> Dead).
  { intros x. unfold normal. destruct (apply o x) as [? [|]]; cbn; discriminate. }
  destruct f as [|j pre|j|j]; cbn [step]; try destruct (Nat.eqb i j); cbn [snd]; try tauto;
    split; intros H; exfalso; eapply Hn; eauto.
Qed.

Lemma handler_off f i st a b :
  agree_off st a b ->
  agree_off st (fst (handler f i st a)) (fst (handler f i st b)) /\
  snd (handler f i st a) = snd (handler f i st b).
Proof.
  intros (Hf & Ho & Hc). unfold handler.
  pose proof (step_dead_indep f i (Remove st) a b) as Hd.
  assert (Hfiles : forall q, q <> st -> files (fst (step f i (Remove st) a)) q = files (fst (step f i (Remove st) b)) q).
  { intros q Hq. rewrite (step_keeps f i (Remove st) a st q eq_refl Hq),
                         (step_keeps f i (Remove st) b st q eq_refl Hq). auto. }
  assert (Hrest : opened (fst (step f i (Remove st) a)) = opened (fst (step f i (Remove st) b)) /\
                  clock (fst (step f i (Remove st) a)) = clock (fst (step f i (Remove st) b))).
  { assert (Hap : forall x, opened (fst (apply (Remove st) x)) = opened x /\ clock (fst (apply (Remove st) x)) = clock x).
    { intros x. cbn. destruct (files x st); cbn; auto. }
    assert (Hno : forall x, opened (fst (normal (Remove st) x)) = opened x /\ clock (fst (normal (Remove st) x)) = clock x).
    { intros x. unfold normal. specialize (Hap x). destruct (apply (Remove st) x); auto. }
    destruct f as [|j pre|j|j]; cbn [step]; try destruct (Nat.eqb i j); cbn [fst apply_exc];
      try (destruct (Hno a) as [-> ->]; destruct (Hno b) as [-> ->]; auto); auto.
    destruct (Hap a) as [-> ->]; destruct (Hap b) as [-> ->]; auto. }
  destruct (step f i (Remove st) a) as [a1 ra], (step f i (Remove st) b) as [b1 rb]; cbn [fst snd] in *.
  assert (Hr : (match ra with Dead => Dead | _ => Exn end) = (match rb with Dead => Dead | _ => Exn end)).
  { destruct ra, rb; auto; exfalso; destruct Hd as [H1 H2]; try (specialize (H1 eq_refl); discriminate);
      try (specialize (H2 eq_refl); discriminate). }
  destruct Hrest as [Ho1 Hc1].
  destruct ra, rb; cbn [fst snd] in *; try discriminate; repeat split; auto.
Qed.

(** The Open step merges the two runs (the leftover is truncated away), or - when the fault hits the
    Open itself - leaves them differing at the staging path only. *)
Lemma open_step_merge f st a b :
  agree_off st a b -> opened a = None ->
  snd (step f 0 (Open st) a) = snd (step f 0 (Open st) b) /\
  (snd (step f 0 (Open st) a) = Ok -> agree (fst (step f 0 (Open st) a)) (fst (step f 0 (Open st) b))) /\
  agree_off st (fst (step f 0 (Open st) a)) (fst (step f 0 (Open st) b)).
Proof.
  intros (Hf & Ho & Hc) Hop.
  assert (Hob : opened b = None) by congruence.
  assert (HA : apply (Open st) a = (mkState (upd (files a) st (Some ([], clock a))) (Some st) (clock a + 1), true)).
  { cbn [apply]. rewrite Hop. reflexivity. }
  assert (HB : apply (Open st) b = (mkState (upd (files b) st (Some ([], clock b))) (Some st) (clock b + 1), true)).
  { cbn [apply]. rewrite Hob. reflexivity. }
  assert (Hag : agree (fst (apply (Open st) a)) (fst (apply (Open st) b))).
  { rewrite HA, HB. cbn [fst]. repeat split; cbn [files opened clock]; try congruence.
    intros q. unfold upd. destruct (Nat.eqb q st) eqn:E; [congruence|]. apply Hf. now apply Nat.eqb_neq. }
  assert (Hoff : agree_off st a b) by (repeat split; auto).
  assert (Hn : snd (normal (Open st) a) = snd (normal (Open st) b) /\
               snd (normal (Open st) a) = Ok /\
               agree (fst (normal (Open st) a)) (fst (normal (Open st) b))).
  { unfold normal. rewrite HA, HB in *. cbn [fst snd] in *. auto. }
  destruct Hn as (Hn1 & Hn2 & Hn3).
  destruct f as [|j pre|j|j]; cbn [step].
  - split; auto. split; auto. apply agree_weaken; auto.
  - destruct (Nat.eqb 0 j); cbn [fst snd].
    + split; auto. split; [discriminate|]. cbn [apply_exc]. destruct (Nat.eqb pre 0); auto.
      apply agree_weaken. rewrite HA, HB in *. cbn [fst] in Hag. apply agree_apply; auto.
    + split; auto. split; auto. apply agree_weaken; auto.
  - destruct (Nat.eqb 0 j); cbn [fst snd].
    + split; auto. split; [discriminate|auto].
    + split; auto. split; auto. apply agree_weaken; auto.
  - destruct (Nat.eqb 0 j); cbn [fst snd].
    + split; auto. split; [discriminate|]. apply agree_weaken; auto.
    + split; auto. split; auto. apply agree_weaken; auto.
Qed.

Lemma staged_write_off fixed f st p chunks ser_ok a b :
  p <> st -> agree_off st a b -> opened a = None ->
  files (fst (staged_write fixed f st p chunks ser_ok a)) p =
  files (fst (staged_write fixed f st p chunks ser_ok b)) p /\
  snd (staged_write fixed f st p chunks ser_ok a) = snd (staged_write fixed f st p chunks ser_ok b).
Proof.
  intros Hp Hoff Hop. unfold staged_write, with_open.
  destruct (open_step_merge f st a b Hoff Hop) as (H1 & H2 & H3).
  destruct (step f 0 (Open st) a) as [a0 ra], (step f 0 (Open st) b) as [b0 rb]; cbn [fst snd] in *.
  subst rb. destruct ra.
  - specialize (H2 eq_refl).
    destruct (agree_after_open f st chunks ser_ok a0 b0 H2) as (A & B & C).
    destruct (after_open f st chunks ser_ok a0) as [[a1 r1] i1], (after_open f st chunks ser_ok b0) as [[b1 r1'] i1'].
    cbn [fst snd] in A, B, C. subst r1' i1'.
    destruct (agree_finish fixed f st p a1 b1 r1 i1 A) as [(F & _) R]. split; auto.
  - cbn [finish]. destruct (handler_off f 1 st a0 b0 H3) as [(F & _) R]. split; auto.
  - cbn [finish fst snd]. split; auto. apply H3; auto.
Qed.

Lemma leftover_harmless fixed f st p chunks ser_ok s junk :
  p <> st -> opened s = None ->
  let r1 := staged_write fixed f st p chunks ser_ok (with_leftover s st junk) in
  let r2 := staged_write fixed f st p chunks ser_ok s in
  files (fst r1) p = files (fst r2) p /\ snd r1 = snd r2 /\
  read_file (with_leftover s st junk) p = read_file s p /\
  mtime_of (with_leftover s st junk) p = mtime_of s p /\
  (snd r1 = Ok -> files (fst r1) st = None).
Proof.
  intros Hp Hop. cbn zeta.
  assert (Hoff : agree_off st (with_leftover s st junk) s).
  { split; [|split]; auto. intros q Hq. cbn. now rewrite upd_other. }
  assert (Hrd : files (with_leftover s st junk) p = files s p). { cbn. now rewrite upd_other. }
  destruct (staged_write_off fixed f st p chunks ser_ok _ _ Hp Hoff Hop) as [H1 H2].
  split; auto. split; auto.
  split. { unfold read_file; now rewrite Hrd. }
  split. { unfold mtime_of; now rewrite Hrd. }
  intros Hok. unfold staged_write, finish in *.
  destruct (with_open f st chunks ser_ok (with_leftover s st junk)) as [[s1 r1] i1] eqn:E1.
  pose proof (with_open_spec f st p chunks ser_ok _ s1 r1 i1 Hp (Hop : opened (with_leftover s st junk) = None) E1) as [Hk1 Hr1].
  destruct r1.
  - destruct Hr1 as (Hser & Hi & Hun & t & Hst & Ht).
    destruct (step f i1 (Rename st p) s1) as [s2 r2] eqn:E2. destruct r2.
    + apply step_ok in E2 as [Ea _]. cbn in Ea. rewrite Hst in Ea. inversion Ea; subst. cbn [fst files].
      rewrite upd_other; auto. apply upd_same.
    + destruct fixed; cbn [snd] in Hok; try discriminate.
      unfold handler in Hok. destruct (step f (S i1) (Remove st) s2) as [? []]; discriminate.
    + discriminate.
  - unfold handler in Hok. destruct (step f i1 (Remove st) s1) as [? []]; discriminate.
  - discriminate.
Qed.

(** Non-vacuity: a 3-byte leftover, and a later write that really goes through. *)
Example leftover_instance :
  let s := with_leftover st0 1%nat ([9%nat; 9%nat; 9%nat], 7) in
  files s 1%nat <> None /\
  let r := staged_write true NoFault 1%nat 0%nat [[7%nat]] true s in
  snd r = Ok /\ files (fst r) 1%nat = None /\ files (fst r) 0%nat = Some ([7%nat], 11).
Proof. cbn. split; [discriminate|]. auto. Qed.

(** H-clock is an invariant: every operation keeps all mtimes behind the clock. *)
Lemma apply_clock_ahead o s : clock_ahead s -> clock_ahead (fst (apply o s)).
Proof.
  intros H. destruct o as [q|q c|q|x y|q]; cbn [apply].
  - destruct (opened s); cbn [fst]; auto. intros r b t. cbn [files clock]. unfold upd.
    destruct (Nat.eqb r q). { intros E; inversion E; lia. } intros E. apply H in E. lia.
  - destruct (opened s) as [r|]; cbn [fst]; auto. destruct (files s q) as [[bb tt]|]; cbn [fst]; auto.
    destruct (Nat.eqb r q); cbn [fst]; auto. intros z b t. cbn [files clock]. unfold upd.
    destruct (Nat.eqb z q). { intros E; inversion E; lia. } intros E. apply H in E. lia.
  - destruct (opened s) as [r|]; cbn [fst]; auto. destruct (Nat.eqb r q); cbn [fst]; auto.
  - destruct (files s x) as [[bb tt]|] eqn:Ex; cbn [fst]; auto. intros z b t. cbn [files clock]. unfold upd.
    destruct (Nat.eqb z y). { intros E; inversion E; subst. now apply H in Ex. }
    destruct (Nat.eqb z x). { discriminate. } apply H.
  - destruct (files s q); cbn [fst]; auto. intros z b t. cbn [files clock]. unfold upd.
    destruct (Nat.eqb z q). { discriminate. } apply H.
Qed.
