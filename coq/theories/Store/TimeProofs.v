From Coq Require Import List Arith Bool ZArith Lia.
Import ListNotations.
From UJ Require Import Store.Time.
Local Open Scope Z_scope.

(** * Conversion of a representation of instant i yields i (fixed code, under H-tz) *)

Lemma conv_reps (z : zone) (i : Z) (r : repr) :
  H_tz z -> reps z i r -> to_naive_utc true z r = i /\ denote z r = i.
Proof.
  intros Htz [Hr|[o Hr]]; subst r; cbn.
  - destruct (Htz i) as [H1 H2]. unfold astz_instant. rewrite H1.
    assert (Hk : negb (Z.eqb (loc z (i + off z i) (negb (zfold z i))) i) &&
                 Bool.eqb (Z.ltb i (loc z (i + off z i) (negb (zfold z i)))) (zfold z i) = false).
    { destruct H2 as [H2|H2].
      - rewrite H2, Z.eqb_refl. reflexivity.
      - rewrite H2. destruct (zfold z i); cbn; apply andb_false_r. }
    rewrite Hk. split; lia.
  - split; lia.
Qed.

Lemma conv_opt_reps (z : zone) (i : option Z) (r : option repr) :
  H_tz z -> opt_reps z i r -> option_map (to_naive_utc true z) r = i.
Proof.
  intros Htz. destruct i as [i|], r as [r|]; cbn; try tauto.
  intros H. f_equal. now apply conv_reps.
Qed.

Lemma conv_list_reps (z : zone) (is_ : list (option Z)) (rs : list (option repr)) :
  H_tz z -> Forall2 (opt_reps z) is_ rs -> map (option_map (to_naive_utc true z)) rs = is_.
Proof.
  intros Htz H. induction H as [|i r is' rs' Hir _ IH]; cbn; auto.
  rewrite IH. f_equal. now apply conv_opt_reps.
Qed.

(** * C18 at one node *)

Lemma decision_by_instants (z : zone) :
  H_tz z ->
  forall (is_source : bool) (mt fresh : option Z) (ancs : list (option Z))
         (mt_r fresh_r : option repr) (anc_rs : list (option repr)),
    opt_reps z mt mt_r -> opt_reps z fresh fresh_r -> Forall2 (opt_reps z) ancs anc_rs ->
    stale_repr true z is_source mt_r anc_rs fresh_r = stale_dec is_source mt (safe_max ancs) fresh /\
    option_map (to_naive_utc true z) mt_r = mt.
Proof.
  intros Htz is_source mt fresh ancs mt_r fresh_r anc_rs Hm Hf Ha.
  unfold stale_repr.
  rewrite (conv_opt_reps z mt mt_r Htz Hm), (conv_opt_reps z fresh fresh_r Htz Hf),
          (conv_list_reps z ancs anc_rs Htz Ha). auto.
Qed.

(** * C18 over a whole plan *)

(** [process]/[stale_run] see a node only through its id, predecessors, source flag and converted time. *)
Definition node_sim {A B : Type} (ca : A -> Z) (cb : B -> Z) (a : node A) (b : node B) : Prop :=
  nid a = nid b /\ npreds a = npreds b /\
  match nreg a, nreg b with
  | None, None => True
  | Some (s1, t1), Some (s2, t2) => s1 = s2 /\ option_map ca t1 = option_map cb t2
  | _, _ => False
  end.

Lemma process_sim {A B : Type} (ca : A -> Z) (cb : B -> Z) fresh st (a : node A) (b : node B) :
  node_sim ca cb a b -> process ca fresh st a = process cb fresh st b.
Proof.
  intros (Hid & Hp & Hr). unfold process. rewrite Hp.
  destruct (existsb fst (map (lookup st) (npreds b))); auto.
  destruct (nreg a) as [[s1 t1]|], (nreg b) as [[s2 t2]|]; try tauto.
  destruct Hr as [-> ->]. reflexivity.
Qed.

Lemma stale_run_sim {A B : Type} (ca : A -> Z) (cb : B -> Z) fresh (pa : list (node A)) (pb : list (node B)) :
  Forall2 (node_sim ca cb) pa pb -> forall st, stale_run ca fresh pa st = stale_run cb fresh pb st.
Proof.
  intros H. induction H as [|a b pa' pb' Hab _ IH]; intros st; cbn [stale_run]; auto.
  rewrite (process_sim ca cb fresh st a b Hab). destruct Hab as (-> & _). apply IH.
Qed.

Lemma node_rel_sim (z : zone) (a : node Z) (b : node repr) :
  H_tz z -> node_rel (opt_reps z) a b -> node_sim (fun i => i) (to_naive_utc true z) a b.
Proof.
  intros Htz (Hid & Hp & Hr). split; auto. split; auto.
  destruct (nreg a) as [[s1 t1]|], (nreg b) as [[s2 t2]|]; try tauto.
  destruct Hr as [-> Hr]. split; auto. rewrite (conv_opt_reps z t1 t2 Htz Hr).
  destruct t1; reflexivity.
Qed.

Lemma stale_set_by_instants (z : zone) :
  H_tz z ->
  forall (fresh : option Z) (fresh_r : option repr) (plan : list (node Z)) (plan_r : list (node repr)),
    opt_reps z fresh fresh_r -> Forall2 (node_rel (opt_reps z)) plan plan_r ->
    stale_nodes (to_naive_utc true z) fresh_r plan_r = stale_nodes (fun i => i) fresh plan.
Proof.
  intros Htz fresh fresh_r plan plan_r Hf Hp. unfold stale_nodes.
  rewrite (conv_opt_reps z fresh fresh_r Htz Hf).
  replace (option_map (fun i : Z => i) fresh) with fresh by (destruct fresh; reflexivity).
  rewrite (stale_run_sim (fun i => i) (to_naive_utc true z) fresh plan plan_r); auto.
  clear Hf. induction Hp as [|a b pa pb Hab _ IH]; constructor; auto. now apply node_rel_sim.
Qed.

(** * Zones that satisfy H-tz *)

Lemma fixed_zone_H_tz (o : Z) : H_tz (fixed_zone o).
Proof. intros i. cbn. split; [lia|left; lia]. Qed.

Definition HOUR : Z := 3600000000.

(** US Eastern around the fall-back of 2021-11-07 06:00 UTC, as a one-transition table (EDT -4 h, then EST -5 h). *)
Definition FALLBACK : Z := 1636264800000000.
Definition ny2021 : zone := table_zone [(FALLBACK, -5 * HOUR)] (-4 * HOUR).

(** H-tz holds at instants straddling the transition, both occurrences of the repeated hour included. *)
Example ny2021_H_tz_sample :
  forallb (fun k => let i := FALLBACK + k * (HOUR / 4) in
                    let o := loc ny2021 (i + off ny2021 i) (negb (zfold ny2021 i)) in
                    Z.eqb (loc ny2021 (i + off ny2021 i) (zfold ny2021 i)) i &&
                    (Z.eqb o i || Bool.eqb (Z.ltb i o) (negb (zfold ny2021 i))))
          [-12; -9; -5; -4; -3; -2; -1; 0; 1; 2; 3; 4; 5; 9; 12] = true.
Proof. vm_compute. reflexivity. Qed.

Example ny2021_repeated_hour :
  let i1 := FALLBACK - HOUR / 2 in        (* 01:30 EDT, first occurrence  *)
  let i2 := FALLBACK + HOUR / 4 in        (* 01:15 EST, second occurrence *)
  zfold ny2021 i1 = false /\ zfold ny2021 i2 = true /\
  (i2 + off ny2021 i2 <? i1 + off ny2021 i1) = true /\       (* the later instant reads an earlier wall time *)
  (* the node's own time is i2, its upstream's i1: up to date by instants, and so decides the fixed code *)
  stale_repr true ny2021 false (Some (Naive (i2 + off ny2021 i2) true)) [Some (Naive (i1 + off ny2021 i1) false)] None = false /\
  stale_dec false (Some i2) (Some i1) None = false /\
  (* the pre-fix code compared the wall numbers *)
  stale_repr false ny2021 false (Some (Naive (i2 + off ny2021 i2) true)) [Some (Naive (i1 + off ny2021 i1) false)] None = true.
Proof. vm_compute. repeat split; reflexivity. Qed.

(** * The pre-fix code (naive values left unchanged) decides by wall numbers, not instants *)

Lemma decision_by_instants_prefix_refuted :
  exists (z : zone) (is_source : bool) (mt fresh : option Z) (mt_r fresh_r : option repr),
    H_tz z /\ opt_reps z mt mt_r /\ opt_reps z fresh fresh_r /\
    stale_repr false z is_source mt_r [] fresh_r <> stale_dec is_source mt (safe_max []) fresh.
Proof.
  (* zone UTC-4; the store reports naive local time for instant T; fresh_time is aware (UTC) for T - 1 h *)
  exists (fixed_zone (-4 * HOUR)), false, (Some (10 * HOUR)), (Some (9 * HOUR)),
         (Some (Naive (10 * HOUR + -4 * HOUR) false)), (Some (Aware (9 * HOUR + 0) 0)).
  split; [apply fixed_zone_H_tz|].
  split. { cbn. left. reflexivity. }
  split. { cbn. right. exists 0. reflexivity. }
  vm_compute. discriminate.
Qed.

(** Non-vacuity of the plan-level theorem: source -> a -> b in zone ny2021 with mixed representations. *)
Example plan_instance :
  let i1 := FALLBACK - HOUR / 2 in
  let i2 := FALLBACK + HOUR / 4 in
  let i3 := FALLBACK + 3 * HOUR in
  let plan_r := [ mkNode 0%nat [] (Some (true, Some (Aware (i1 + 19800000000) 19800000000)));
                  mkNode 1%nat [0%nat] (Some (false, Some (Naive (i2 + off ny2021 i2) (zfold ny2021 i2))));
                  mkNode 2%nat [1%nat] (Some (false, Some (Naive (i1 + off ny2021 i1) (zfold ny2021 i1)))) ] in
  let plan_i := [ mkNode 0%nat [] (Some (true, Some i1));
                  mkNode 1%nat [0%nat] (Some (false, Some i2));
                  mkNode 2%nat [1%nat] (Some (false, Some i1)) ] in
  stale_nodes (to_naive_utc true ny2021) None plan_r = [2%nat] /\
  stale_nodes (fun i => i) None plan_i = [2%nat] /\
  stale_nodes (to_naive_utc false ny2021) None plan_r = [2%nat; 1%nat] /\
  stale_nodes (to_naive_utc true ny2021) (Some (Aware i3 0)) plan_r = [2%nat; 1%nat].
Proof. vm_compute. repeat split; reflexivity. Qed.
