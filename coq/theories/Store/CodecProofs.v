From Coq Require Import List Arith Bool ZArith Lia.
Import ListNotations.
From UJ Require Import Store.FS Store.Staged Store.StagedProofs Store.Codec.
Local Open Scope Z_scope.

(** * Text layer *)

Lemma write_nl_posix_id s : write_nl posix_linesep s = s.
Proof.
  unfold write_nl, posix_linesep. induction s as [|c r IH]; cbn [flat_map]; auto.
  destruct (Z.eqb c LF) eqn:E; rewrite IH; cbn; auto. apply Z.eqb_eq in E. now subst.
Qed.

Lemma univ_nl_no_cr s : ~ In CR s -> univ_nl s = s.
Proof.
  induction s as [|c r IH]; cbn [univ_nl]; auto. intros H.
  destruct (Z.eqb c CR) eqn:E.
  - apply Z.eqb_eq in E. exfalso. apply H. left. auto.
  - rewrite IH; auto. intros Hin. apply H. right. auto.
Qed.

Lemma text_in_out_raw s : text_in true (text_out true s) = s.
Proof. reflexivity. Qed.

(** Old newline handling: CR-free strings still round-trip (the fragment that held before the fix). *)
Lemma text_in_out_no_cr s : ~ In CR s -> text_in false (text_out false s) = s.
Proof. intros H. cbn. rewrite write_nl_posix_id. now apply univ_nl_no_cr. Qed.

(** * The generic file store *)

Lemma staged_ok_closed fixed f st p chunks ser_ok s :
  snd (staged_write fixed f st p chunks ser_ok s) = Ok ->
  opened (fst (staged_write fixed f st p chunks ser_ok s)) = None.
Proof.
  unfold staged_write, finish.
  destruct (with_open f st chunks ser_ok s) as [[s1 r1] i1] eqn:E1. destruct r1.
  - assert (Hcl : opened s1 = None).
    { unfold with_open, after_open in E1.
      destruct (step f 0 (Open st) s) as [s0 r0]. destruct r0; try (inversion E1; fail).
      destruct (do_writes f 1 st chunks s0) as [[s2 r2] i2]. destruct r2; try (inversion E1; fail).
      - destruct (step f i2 (Close st) s2) as [s3 r3] eqn:E3.
        destruct r3; destruct ser_ok; inversion E1; subst.
        apply step_ok in E3 as [Ea _]. cbn in Ea. destruct (opened s2) as [q|]; [|inversion Ea].
        destruct (Nat.eqb q st); inversion Ea; subst; reflexivity.
      - destruct (step f i2 (Close st) s2) as [s3 r3] eqn:E3. destruct r3; inversion E1. }
    destruct (step f i1 (Rename st p) s1) as [s2 r2] eqn:E2. destruct r2; cbn [fst snd].
    + intros _. apply step_ok in E2 as [Ea _]. cbn in Ea. destruct (files s1 st); inversion Ea; subst.
      cbn. rewrite Hcl. reflexivity.
    + destruct fixed; cbn [snd]; try discriminate.
      unfold handler. destruct (step f (S i1) (Remove st) s2) as [? []]; cbn; discriminate.
    + discriminate.
  - unfold handler. destruct (step f i1 (Remove st) s1) as [? []]; cbn; discriminate.
  - cbn. discriminate.
Qed.

Lemma apply_exc_clock_ahead o pre s : clock_ahead s -> clock_ahead (apply_exc o pre s).
Proof.
  intros H. destruct o as [q|q c|q|x y|q]; cbn [apply_exc]; auto.
  - destruct (Nat.eqb pre 0); auto.
    pose proof (apply_clock_ahead (Open q) s H) as H1.
    destruct (apply (Open q) s) as [s1 [|]]; auto. cbn [fst] in H1. now apply apply_clock_ahead.
  - now apply apply_clock_ahead.
  - now apply apply_clock_ahead.
Qed.

Lemma step_clock_ahead f i o s : clock_ahead s -> clock_ahead (fst (step f i o s)).
Proof.
  intros H.
  assert (Hn : clock_ahead (fst (normal o s))).
  { unfold normal. pose proof (apply_clock_ahead o s H) as H1. destruct (apply o s); auto. }
  destruct f as [|j pre|j|j]; cbn [step]; auto; destruct (Nat.eqb i j); cbn [fst]; auto.
  - now apply apply_exc_clock_ahead.
  - now apply apply_clock_ahead.
Qed.

(** Anything every single step preserves is preserved by a whole write, whatever the fault. *)
Section Preserved.
  Variable P : state -> Prop.
  Hypothesis P_step : forall f i o x, P x -> P (fst (step f i o x)).

  Lemma do_writes_preserves f st cs : forall i s, P s -> P (fst (fst (do_writes f i st cs s))).
  Proof.
    induction cs as [|c cs IH]; intros i s H; cbn [do_writes]; auto.
    pose proof (P_step f i (Write st c) s H) as H1.
    destruct (step f i (Write st c) s) as [s1 r1]. cbn [fst] in H1. destruct r1; cbn [fst]; auto.
  Qed.

  Lemma staged_write_preserves fixed f st p chunks ser_ok s :
    P s -> P (fst (staged_write fixed f st p chunks ser_ok s)).
  Proof.
    intros H. unfold staged_write.
    assert (Hw : P (fst (fst (with_open f st chunks ser_ok s)))).
    { unfold with_open, after_open.
      pose proof (P_step f 0 (Open st) s H) as H0.
      destruct (step f 0 (Open st) s) as [s0 r0]. cbn [fst] in H0. destruct r0; cbn [fst]; auto.
      pose proof (do_writes_preserves f st chunks 1 s0 H0) as H2.
      destruct (do_writes f 1 st chunks s0) as [[s2 r2] i2]. cbn [fst] in H2.
      pose proof (P_step f i2 (Close st) s2 H2) as H3.
      destruct (step f i2 (Close st) s2) as [s3 r3]. cbn [fst] in H3.
      destruct r2; cbn [fst]; auto; destruct r3; cbn [fst]; auto. }
    destruct (with_open f st chunks ser_ok s) as [[s1 r1] i1]. cbn [fst] in Hw.
    assert (Hh : forall i sx, P sx -> P (fst (handler f i st sx))).
    { intros i sx Hx. unfold handler. pose proof (P_step f i (Remove st) sx Hx) as H1.
      destruct (step f i (Remove st) sx) as [? []]; auto. }
    unfold finish. destruct r1; cbn [fst]; auto.
    pose proof (P_step f i1 (Rename st p) s1 Hw) as H2.
    destruct (step f i1 (Rename st p) s1) as [s2 r2]. cbn [fst] in H2.
    destruct r2; cbn [fst]; auto. destruct fixed; cbn [fst]; auto.
  Qed.
End Preserved.

(** H-clock is an invariant of whole writes, and the clock never runs backwards. *)
Lemma staged_write_clock_ahead fixed f st p chunks ser_ok s :
  clock_ahead s -> clock_ahead (fst (staged_write fixed f st p chunks ser_ok s)).
Proof. apply (staged_write_preserves clock_ahead). intros; now apply step_clock_ahead. Qed.

Lemma staged_write_clock_mono fixed f st p chunks ser_ok s :
  clock s <= clock (fst (staged_write fixed f st p chunks ser_ok s)).
Proof.
  apply (staged_write_preserves (fun x => clock s <= clock x)); [|lia].
  intros f0 i o x Hx. pose proof (step_clock f0 i o x). lia.
Qed.

Section FileStoreFacts.
  Variable V : Type.
  Variable ser : V -> bytes.
  Variable deser : bytes -> option V.

  Lemma store_write_chunks_spec st p chunks s :
    p <> st -> opened s = None ->
    let r := store_write_chunks st p chunks s in
    snd r = Ok /\ opened (fst r) = None /\ files (fst r) st = None /\
    (forall q, q <> st -> q <> p -> files (fst r) q = files s q) /\
    exists t, files (fst r) p = Some (concat chunks, t) /\ clock s <= t.
  Proof.
    intros Hp Hop. cbn zeta. unfold store_write_chunks.
    destruct (success_installs true st p chunks s Hp Hop) as (A & B & C & D).
    split; auto. split; auto. apply staged_ok_closed; auto.
  Qed.

  Lemma store_roundtrip_chunks st p v chunks s :
    p <> st -> opened s = None -> concat chunks = ser v -> deser (ser v) = Some v ->
    let r := store_write_chunks st p chunks s in
    snd r = Ok /\ store_read V deser p (fst r) = Some v.
  Proof.
    intros Hp Hop Hc Hd. cbn zeta.
    destruct (store_write_chunks_spec st p chunks s Hp Hop) as (A & _ & _ & _ & t & Hf & _).
    split; auto. unfold store_read, read_file. rewrite Hf. cbn. rewrite Hc. auto.
  Qed.

  Lemma store_roundtrip st p v s :
    p <> st -> opened s = None -> deser (ser v) = Some v ->
    let r := store_write V ser st p v s in
    snd r = Ok /\ store_read V deser p (fst r) = Some v.
  Proof.
    intros Hp Hop Hd. apply store_roundtrip_chunks; auto. cbn. apply app_nil_r.
  Qed.

  Lemma mounted_roundtrip lst lp lp2 rp v s :
    lp <> lst -> rp <> lp -> rp <> lst -> rp <> lp2 -> opened s = None -> deser (ser v) = Some v ->
    exists s', mounted_write V ser lst lp rp v s = Some s' /\
               mounted_read V deser lp2 rp s' = Some v /\
               files s' lp = None /\ files s' lst = None /\
               (exists t, files s' rp = Some (ser v, t) /\ clock s <= t).
  Proof.
    intros H1 H2 H3 H4 Hop Hd. unfold mounted_write, store_write.
    destruct (store_write_chunks_spec lst lp [ser v] s H1 Hop) as (A & B & C & D & t & Hf & Ht).
    destruct (store_write_chunks lst lp [ser v] s) as [s1 r1] eqn:Es1. cbn [fst snd] in *. subst r1.
    cbn [concat] in Hf. rewrite app_nil_r in Hf.
    unfold copy_file. rewrite Hf. unfold put_file. cbn [apply files]. rewrite upd_other; auto. rewrite Hf.
    eexists. split; [reflexivity|]. cbn [fst files clock opened].
    split.
    - unfold mounted_read, copy_file. cbn [files]. rewrite upd_other; auto. rewrite upd_same.
      unfold store_read, read_file, put_file. cbn [files]. rewrite upd_same. cbn. exact Hd.
    - split. { apply upd_same. }
      split. { rewrite upd_other; auto. rewrite upd_other; auto. }
      exists (clock s1). rewrite upd_other; auto. rewrite upd_same. split; auto.
      pose proof (staged_write_clock_mono true NoFault lst lp [ser v] true s) as Hm.
      unfold store_write_chunks in Es1. rewrite Es1 in Hm. cbn [fst] in Hm. lia.
  Qed.
End FileStoreFacts.

(** * The five stores *)

Lemma text_codec_roundtrip (enc : text -> bytes) (dec : bytes -> option text) (s : text) :
  dec (enc s) = Some s -> text_deser dec true (text_ser enc true s) = Some s.
Proof. intros H. unfold text_deser, text_ser. cbn. rewrite H. reflexivity. Qed.

Lemma text_roundtrip (enc : text -> bytes) (dec : bytes -> option text) (repr : text -> Prop) :
  (forall s, repr s -> dec (enc s) = Some s) ->
  forall (s : text) (st p : path) (fs : state),
    repr s -> p <> st -> opened fs = None ->
    let w := store_write text (text_ser enc true) st p s fs in
    snd w = Ok /\ store_read text (text_deser dec true) p (fst w) = Some s.
Proof.
  intros Henc s st p fs Hr Hp Hop. apply store_roundtrip; auto. apply text_codec_roundtrip; auto.
Qed.

(** Before commit 91596b1 both sides used the default newline handling: a lone CR comes back as LF,
    whatever the encoding (as long as it can represent the string at all). *)
Lemma text_roundtrip_prefix_refuted :
  exists s : text,
    forall (enc : text -> bytes) (dec : bytes -> option text),
      dec (enc s) = Some s ->
      forall (st p : path) (fs : state), p <> st -> opened fs = None ->
        let w := store_write text (text_ser enc false) st p s fs in
        snd w = Ok /\ store_read text (text_deser dec false) p (fst w) = Some [LF] /\
        store_read text (text_deser dec false) p (fst w) <> Some s.
Proof.
  exists [CR]. intros enc dec H st p fs Hp Hop.
  destruct (store_write_chunks_spec st p [text_ser enc false [CR]] fs Hp Hop) as (A & _ & _ & _ & t & Hf & _).
  cbn zeta. unfold store_write. split; auto.
  assert (R : store_read text (text_deser dec false) p (fst (store_write_chunks st p [text_ser enc false [CR]] fs)) = Some [LF]).
  { unfold store_read, read_file. rewrite Hf. cbn [option_map fst concat]. rewrite app_nil_r.
    unfold text_deser, text_ser. cbn [text_out write_nl flat_map posix_linesep].
    replace (Z.eqb CR LF) with false by reflexivity. cbn [app]. rewrite H. reflexivity. }
  split; auto. rewrite R. discriminate.
Qed.

(** ... and CR-free strings did round-trip before the fix. *)
Lemma text_roundtrip_prefix_crfree (enc : text -> bytes) (dec : bytes -> option text) (s : text) st p fs :
  dec (enc s) = Some s -> ~ In CR s -> p <> st -> opened fs = None ->
  let w := store_write text (text_ser enc false) st p s fs in
  snd w = Ok /\ store_read text (text_deser dec false) p (fst w) = Some s.
Proof.
  intros H Hcr Hp Hop. apply store_roundtrip; auto.
  unfold text_deser, text_ser. cbn [text_out]. rewrite write_nl_posix_id, H. cbn [option_map text_in].
  now rewrite univ_nl_no_cr.
Qed.

Lemma binary_roundtrip (b : bytes) (st p : path) (fs : state) :
  p <> st -> opened fs = None ->
  let w := store_write bytes bin_ser st p b fs in
  snd w = Ok /\ store_read bytes bin_deser p (fst w) = Some b.
Proof. intros Hp Hop. apply store_roundtrip; auto. Qed.

Lemma touch_roundtrip (st p : path) (fs : state) :
  p <> st -> opened fs = None ->
  let w := store_write unit touch_ser st p tt fs in
  snd w = Ok /\ store_read unit touch_deser p (fst w) = Some tt /\ read_file (fst w) p = Some [].
Proof.
  intros Hp Hop. cbn zeta.
  destruct (store_roundtrip unit touch_ser touch_deser st p tt fs Hp Hop eq_refl) as [A B].
  split; auto. split; auto.
  destruct (store_write_chunks_spec st p [touch_ser tt] fs Hp Hop) as (_ & _ & _ & _ & t & Hf & _).
  unfold store_write, read_file. rewrite Hf. reflexivity.
Qed.

Lemma json_codec_roundtrip {J : Type} (enc : text -> bytes) (dec : bytes -> option text)
      (dumps : J -> text) (loads : text -> option J) (v : J) :
  dec (enc (dumps v)) = Some (dumps v) -> loads (dumps v) = Some v -> ~ In CR (dumps v) ->
  json_deser dec loads (json_ser enc dumps v) = Some v.
Proof.
  intros He Hj Hcr. unfold json_deser, json_ser. cbn [text_out]. rewrite write_nl_posix_id, He.
  cbn [text_in]. now rewrite univ_nl_no_cr.
Qed.

Lemma json_roundtrip {J : Type} (enc : text -> bytes) (dec : bytes -> option text) (repr : text -> Prop)
      (dumps : J -> text) (loads : text -> option J) (dom : J -> Prop) :
  (forall s, repr s -> dec (enc s) = Some s) ->            (* H-enc *)
  (forall v, dom v -> loads (dumps v) = Some v) ->         (* H-json *)
  (forall v, dom v -> ~ In CR (dumps v)) ->                (* dumps emits no raw CR *)
  (forall v, dom v -> repr (dumps v)) ->                   (* its output is representable *)
  forall (v : J) (st p : path) (fs : state),
    dom v -> p <> st -> opened fs = None ->
    let w := store_write J (json_ser enc dumps) st p v fs in
    snd w = Ok /\ store_read J (json_deser dec loads) p (fst w) = Some v.
Proof.
  intros He Hj Hcr Hr v st p fs Hd Hp Hop. apply store_roundtrip; auto.
  apply json_codec_roundtrip; auto.
Qed.

(** json.dump writes the text in many small chunks: the chunking is irrelevant. *)
Lemma json_roundtrip_chunked {J : Type} (enc : text -> bytes) (dec : bytes -> option text)
      (dumps : J -> text) (loads : text -> option J) (v : J) (chunks : list bytes) st p fs :
  dec (enc (dumps v)) = Some (dumps v) -> loads (dumps v) = Some v -> ~ In CR (dumps v) ->
  concat chunks = json_ser enc dumps v -> p <> st -> opened fs = None ->
  let w := store_write_chunks st p chunks fs in
  snd w = Ok /\ store_read J (json_deser dec loads) p (fst w) = Some v.
Proof.
  intros He Hj Hcr Hc Hp Hop. apply (store_roundtrip_chunks J (json_ser enc dumps)); auto.
  apply json_codec_roundtrip; auto.
Qed.

Lemma pickle_roundtrip {P : Type} (dumps : P -> bytes) (loads : bytes -> option P) (dom : P -> Prop) :
  (forall v, dom v -> loads (dumps v) = Some v) ->         (* H-pickle *)
  forall (v : P) (st p : path) (fs : state),
    dom v -> p <> st -> opened fs = None ->
    let w := store_write P (pickle_ser dumps) st p v fs in
    snd w = Ok /\ store_read P (pickle_deser loads) p (fst w) = Some v.
Proof. intros Hp v st p fs Hd Hne Hop. apply store_roundtrip; auto. Qed.

(** * Modified times *)

Lemma mtime_none_iff_absent (p : path) (s : state) :
  (store_mtime p s = None <-> read_file s p = None) /\
  (store_mtime p s = None <-> files s p = None).
Proof.
  unfold store_mtime, mtime_of, read_file. destruct (files s p) as [[b t]|]; cbn; split; split; auto; discriminate.
Qed.

Lemma mtime_after_write (V : Type) (ser : V -> bytes) (v : V) (st p : path) (s : state) :
  p <> st -> opened s = None -> clock_ahead s ->
  let s' := fst (store_write V ser st p v s) in
  exists t, store_mtime p s' = Some t /\ clock s <= t /\
            (forall t0, store_mtime p s = Some t0 -> t0 < t) /\
            opened s' = None /\ clock_ahead s' /\ t < clock s'.
Proof.
  intros Hp Hop Hck. cbn zeta. unfold store_write.
  destruct (store_write_chunks_spec st p [ser v] s Hp Hop) as (A & B & _ & _ & t & Hf & Ht).
  exists t. unfold store_mtime, mtime_of. rewrite Hf. cbn. split; auto. split; auto.
  assert (Hck' : clock_ahead (fst (store_write_chunks st p [ser v] s))).
  { unfold store_write_chunks. now apply staged_write_clock_ahead. }
  split.
  - intros t0. destruct (files s p) as [[b0 t1]|] eqn:E; cbn; [|discriminate].
    intros H; inversion H; subst. apply Hck in E. lia.
  - split; auto. split; auto. eapply Hck'; eauto.
Qed.

Lemma mtimes_increasing (st p : path) (writes : list bytes) : forall (s : state) (lo : Z),
  p <> st -> opened s = None -> clock_ahead s -> lo < clock s ->
  increasing_from lo (mtimes_after st p writes s).
Proof.
  induction writes as [|b rest IH]; intros s lo Hp Hop Hck Hlo; cbn [mtimes_after increasing_from]; auto.
  destruct (mtime_after_write bytes bin_ser b st p s Hp Hop Hck) as (t & Hm & Ht & _ & Ho' & Hck' & Ht').
  unfold store_mtime in Hm. rewrite Hm. split; [lia|]. apply IH; auto.
Qed.

Lemma mtime_monotone (st p : path) (writes : list bytes) (s : state) :
  p <> st -> opened s = None -> clock_ahead s ->
  match store_mtime p s with
  | Some t0 => increasing_from t0 (mtimes_after st p writes s)
  | None => increasing_from (clock s - 1) (mtimes_after st p writes s)
  end.
Proof.
  intros Hp Hop Hck. unfold store_mtime, mtime_of.
  destruct (files s p) as [[b t0]|] eqn:E; cbn [option_map snd].
  - apply mtimes_increasing; auto. now apply Hck in E.
  - apply mtimes_increasing; auto. lia.
Qed.

(** * Non-vacuity *)

Lemma latin1_roundtrip s : latin1_repr s -> latin1_dec (latin1_enc s) = Some s.
Proof.
  unfold latin1_dec, latin1_enc, latin1_repr. intros H. f_equal. rewrite map_map.
  induction s as [|c r IH]; cbn; auto. rewrite Z2Nat.id by (apply H; left; auto).
  rewrite IH; auto. intros x Hx. apply H. right. auto.
Qed.

Example text_roundtrip_instance :
  let s := [97; CR; LF; 98; CR; 233] in
  let w := store_write text (text_ser latin1_enc true) 1%nat 0%nat s st0 in
  snd w = Ok /\ store_read text (text_deser latin1_dec true) 0%nat (fst w) = Some s /\
  store_read text (text_deser latin1_dec false) 0%nat (fst (store_write text (text_ser latin1_enc false) 1%nat 0%nat s st0))
    = Some [97; LF; 98; LF; 233].
Proof. cbn. auto. Qed.

Example mtimes_instance :
  mtimes_after 1%nat 0%nat [[1%nat]; []; [2%nat; 3%nat]] st0 = [Some 11; Some 13; Some 15] /\
  store_mtime 0%nat st0 = Some 5 /\ store_mtime 7%nat st0 = None.
Proof. cbn. auto. Qed.

Example mounted_instance :
  exists s', mounted_write bytes bin_ser 3%nat 2%nat 9%nat [4%nat; 5%nat] st0 = Some s' /\
             mounted_read bytes bin_deser 6%nat 9%nat s' = Some [4%nat; 5%nat] /\
             store_mtime 9%nat s' = Some 12.
Proof. eexists. cbn. auto. Qed.
