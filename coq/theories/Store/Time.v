(** Times as uberjob's staleness check sees them: uberjob/_transformations/caching.py
    [_to_naive_utc_time] and [process_no_stale_ancestor] / [process] of [_get_stale_nodes].
    Definitions only.

    An instant is a number of microseconds since the epoch (Z).  A naive datetime is the number its
    calendar fields spell ("wall", microseconds since 1970-01-01T00:00 read without any zone) plus the
    fold bit; an aware datetime is a wall number plus its UTC offset.  The naive-UTC datetime of
    instant i has wall = i. *)
From Coq Require Import List Arith Bool ZArith.
Import ListNotations.
Local Open Scope Z_scope.

(** The process's local time zone:
    [off i]      UTC offset in force at instant i  (time.localtime(i).tm_gmtoff),
    [zfold i]    fold bit datetime.fromtimestamp(i) sets (second occurrence of a repeated wall time),
    [loc w f]    the instant CPython assigns to the naive local wall time w with fold f
                 (local_to_seconds, what naive.astimezone() / naive.timestamp() use). *)
Record zone := mkZone { off : Z -> Z; zfold : Z -> bool; loc : Z -> bool -> Z }.

(** H-tz: the local -> instant conversion inverts fromtimestamp when the fold bit is honoured; and the
    same wall time read with the other fold value is either the same instant (unambiguous time) or the
    other occurrence: later when the fold bit is 0, earlier when it is 1. *)
Definition H_tz (z : zone) : Prop :=
  forall i,
    loc z (i + off z i) (zfold z i) = i /\
    (loc z (i + off z i) (negb (zfold z i)) = i \/
     Z.ltb i (loc z (i + off z i) (negb (zfold z i))) = negb (zfold z i)).

Inductive repr := Naive (wall : Z) (fold : bool) | Aware (wall : Z) (offset : Z).

(** The instant a datetime denotes (naive = local time, the reading of the property). *)
Definition denote (z : zone) (r : repr) : Z :=
  match r with
  | Naive w f => loc z w f
  | Aware w o => w - o
  end.

(** The representations of instant i: the naive local one (as datetime.fromtimestamp / the bundled file
    stores produce) and the aware ones in every offset. *)
Definition reps (z : zone) (i : Z) (r : repr) : Prop :=
  r = Naive (i + off z i) (zfold z i) \/ exists o, r = Aware (i + o) o.

Definition opt_reps (z : zone) (i : option Z) (r : option repr) : Prop :=
  match i, r with
  | None, None => True
  | Some i, Some r => reps z i r
  | _, _ => False
  end.

(** The instant whose UTC offset naive.astimezone() applies (CPython local_timezone_from_local /
    datetime._local_timezone): local_to_seconds with the datetime's fold, but inside a gap (the two fold
    readings differ and are "the wrong way round") the other reading is taken. *)
Definition astz_instant (z : zone) (w : Z) (f : bool) : Z :=
  let ts := loc z w f in
  let ts2 := loc z w (negb f) in
  if negb (Z.eqb ts2 ts) && Bool.eqb (Z.ltb ts ts2) f then ts2 else ts.

(** _to_naive_utc_time.  aware: value.astimezone(utc).replace(tzinfo=None) = wall - offset.
    naive, [fixed = true] (commit ef7332b): value.astimezone(utc): CPython finds the instant with
    local_to_seconds (honouring fold), takes the offset in force there and subtracts it;
    naive, [fixed = false]: returned unchanged.
    (Values CPython cannot convert - around datetime.min/max - are returned unchanged by the code; they are
    outside this model and the harness keeps away from them.) *)
Definition to_naive_utc (fixed : bool) (z : zone) (r : repr) : Z :=
  match r with
  | Aware w o => w - o
  | Naive w f => if fixed then w - off z (astz_instant z w f) else w
  end.

(** uberjob._util.safe_max: maximum of the values that are not None. *)
Fixpoint safe_max (l : list (option Z)) : option Z :=
  match l with
  | [] => None
  | None :: rest => safe_max rest
  | Some x :: rest => match safe_max rest with Some y => Some (Z.max x y) | None => Some x end
  end.

(** process_no_stale_ancestor for a node with a value store, on converted numbers:
      if modified_time is None: stale
      if (max_ancestor_modified_time or not is_source)
         and safe_max(modified_time, max_ancestor_modified_time, fresh_time) > modified_time: stale *)
Definition stale_dec (is_source : bool) (mt anc fresh : option Z) : bool :=
  match mt with
  | None => true
  | Some m =>
      (match anc with Some _ => true | None => negb is_source end) &&
      match safe_max [Some m; anc; fresh] with
      | Some mx => Z.ltb m mx
      | None => false
      end
  end.

(** The decision as the code takes it, from datetimes in whatever representation. *)
Definition stale_repr (fixed : bool) (z : zone) (is_source : bool)
           (mt : option repr) (ancs : list (option repr)) (fresh : option repr) : bool :=
  stale_dec is_source (option_map (to_naive_utc fixed z) mt)
            (safe_max (map (option_map (to_naive_utc fixed z)) ancs))
            (option_map (to_naive_utc fixed z) fresh).

(** ** The whole stale check over a plan

    Nodes in the order the engine processes them (any topological order); [nreg = Some (is_source, t)]
    for registry entries whose store reports modified time t.  The state maps a processed node to
    (stale?, modified time that flows downstream). *)
Record node (T : Type) := mkNode { nid : nat; npreds : list nat; nreg : option (bool * option T) }.
Arguments mkNode {T}.
Arguments nid {T}.
Arguments npreds {T}.
Arguments nreg {T}.

Definition nstate := list (nat * (bool * option Z)).

Fixpoint lookup (st : nstate) (n : nat) : bool * option Z :=
  match st with
  | [] => (false, None)           (* not reached for a plan in topological order *)
  | (m, v) :: rest => if Nat.eqb m n then v else lookup rest n
  end.

Definition process {T : Type} (conv : T -> Z) (fresh : option Z) (st : nstate) (n : node T) : bool * option Z :=
  let ps := map (lookup st) (npreds n) in
  if existsb fst ps then (true, None)
  else
    let anc := safe_max (map snd ps) in
    match nreg n with
    | None => (false, anc)
    | Some (is_src, t) =>
        let mt := option_map conv t in
        if stale_dec is_src mt anc fresh then (true, None) else (false, mt)
    end.

Fixpoint stale_run {T : Type} (conv : T -> Z) (fresh : option Z) (plan : list (node T)) (st : nstate) : nstate :=
  match plan with
  | [] => st
  | n :: rest => stale_run conv fresh rest ((nid n, process conv fresh st n) :: st)
  end.

(** _get_stale_nodes: the nodes marked stale. *)
Definition stale_nodes {T : Type} (conv : T -> Z) (fresh : option T) (plan : list (node T)) : list nat :=
  map fst (filter (fun e => fst (snd e)) (stale_run conv (option_map conv fresh) plan [])).

Definition map_node {A B : Type} (f : A -> B) (n : node A) : node B :=
  mkNode (nid n) (npreds n)
         (match nreg n with Some (s, t) => Some (s, option_map f t) | None => None end).

(** Two plans of the same shape whose times are related pointwise. *)
Definition node_rel {A B : Type} (R : option A -> option B -> Prop) (a : node A) (b : node B) : Prop :=
  nid a = nid b /\ npreds a = npreds b /\
  match nreg a, nreg b with
  | None, None => True
  | Some (s1, t1), Some (s2, t2) => s1 = s2 /\ R t1 t2
  | _, _ => False
  end.

(** ** Concrete zones for evaluation *)

(** Offset table: [default] before the first transition, then (start instant, offset) ascending. *)
Fixpoint table_off (tr : list (Z * Z)) (default : Z) (i : Z) : Z :=
  match tr with
  | [] => default
  | (start, o) :: rest => if Z.ltb i start then default else table_off rest o i
  end.

Definition DAY : Z := 86400000000.

(** CPython's local_to_seconds (Modules/_datetimemodule.c; datetime._mktime in the pure Python version),
    with local(u) = u + off u.  Offsets and transitions are whole seconds, so running it on microseconds
    gives the same answer as running it on seconds and re-attaching the microseconds. *)
Definition mktime (off : Z -> Z) (t : Z) (fold : bool) : Z :=
  let local := fun u => u + off u in
  let a := local t - t in
  let u1 := t - a in
  let t1 := local u1 in
  let fallback := fun b =>
      let u2 := t - b in
      let t2 := local u2 in
      if Z.eqb t2 t then u2
      else if Z.eqb t1 t then u1
      else if fold then Z.min u1 u2 else Z.max u1 u2 in
  if Z.eqb t1 t then
    let u2 := if fold then u1 + DAY else u1 - DAY in
    let b := local u2 - u2 in
    if Z.eqb a b then u1 else fallback b
  else fallback (t1 - u1).

(** The fold bit datetime.fromtimestamp sets (Lib/datetime.py _fromtimestamp). *)
Definition fromts_fold (off : Z -> Z) (t : Z) : bool :=
  let result := t + off t in
  let probe1 := (t - DAY) + off (t - DAY) in
  let trans := result - probe1 - DAY in
  if Z.ltb trans 0 then Z.eqb ((t + trans) + off (t + trans)) result else false.

Definition table_zone (tr : list (Z * Z)) (default : Z) : zone :=
  let o := table_off tr default in mkZone o (fromts_fold o) (mktime o).

Definition fixed_zone (o : Z) : zone := mkZone (fun _ => o) (fun _ => false) (fun w _ => w - o).
