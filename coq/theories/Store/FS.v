(** A small file system: the part of POSIX that uberjob/stores/_file_store.py relies on.
    Definitions only (kept runnable when a proof breaks).

    [fs] is a finite map path -> option (content * mtime) (a total function that is [None] almost
    everywhere; theorems speak about it pointwise, so functional extensionality is not needed).
    Every operation that changes a file's content stamps it with the current value of a logical
    clock and then advances the clock (H-clock: the clock is strictly increasing across writes).

    Buffering is not modelled: [Write] reaches the file at once.  The content of a file that is
    still open in the real process is therefore a *prefix* of the model's content (the harness checks
    exactly that); after [Close] both agree.  Only the staging file is ever open, so this does not
    touch anything the theorems say about the target. *)
From Coq Require Import List Arith Bool ZArith.
Import ListNotations.
Local Open Scope Z_scope.

Definition path := nat.
Definition bytes := list nat.
Definition file : Type := bytes * Z.              (* content, modified time *)
Definition fs := path -> option file.

Record state := mkState { files : fs; opened : option path; clock : Z }.

Definition upd (m : fs) (p : path) (v : option file) : fs :=
  fun q => if Nat.eqb q p then v else m q.

Definition empty_fs : fs := fun _ => None.

Inductive op :=
| Open (p : path)                 (* open(p, "w"): create or truncate, one descriptor *)
| Write (p : path) (c : bytes)    (* append a chunk through the descriptor *)
| Close (p : path)
| Rename (p q : path)             (* os.replace(p, q): atomic; q receives p's content AND mtime (H-rename) *)
| Remove (p : path).              (* os.remove(p) *)

(** [apply o s] = (state afterwards, true) or (s, false) when the operation itself fails with OSError
    (missing file, descriptor not open): a failing operation has no effect. *)
Definition apply (o : op) (s : state) : state * bool :=
  match o with
  | Open p =>
      match opened s with
      | Some _ => (s, false)
      | None => (mkState (upd (files s) p (Some ([], clock s))) (Some p) (clock s + 1), true)
      end
  | Write p c =>
      match opened s, files s p with
      | Some q, Some (b, _) =>
          if Nat.eqb q p
          then (mkState (upd (files s) p (Some (b ++ c, clock s))) (opened s) (clock s + 1), true)
          else (s, false)
      | _, _ => (s, false)
      end
  | Close p =>
      match opened s with
      | Some q => if Nat.eqb q p then (mkState (files s) None (clock s), true) else (s, false)
      | None => (s, false)
      end
  | Rename p q =>
      match files s p with
      | Some f =>
          (mkState (upd (upd (files s) p None) q (Some f))
                   (match opened s with
                    | Some r => if Nat.eqb r p then Some q else Some r
                    | None => None
                    end)
                   (clock s), true)
      | None => (s, false)
      end
  | Remove p =>
      match files s p with
      | Some _ => (mkState (upd (files s) p None) (opened s) (clock s), true)
      | None => (s, false)
      end
  end.

(** What a reader / get_modified_time sees. *)
Definition read_file (s : state) (p : path) : option bytes := option_map fst (files s p).
Definition mtime_of (s : state) (p : path) : option Z := option_map snd (files s p).

(** H-clock as an invariant of states: every stored mtime is in the past of the clock. *)
Definition clock_ahead (s : state) : Prop :=
  forall p b t, files s p = Some (b, t) -> t < clock s.

(** Whole-file helpers used by Codec.v (MountedStore's copy_from_local / copy_to_local and plain
    "write these bytes to p" of an already serialised value). *)
Definition put_file (s : state) (p : path) (b : bytes) : state :=
  mkState (upd (files s) p (Some (b, clock s))) (opened s) (clock s + 1).

Definition copy_file (s : state) (src dst : path) : option state :=
  match files s src with
  | Some (b, _) => Some (put_file s dst b)
  | None => None
  end.
