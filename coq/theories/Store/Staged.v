(** One write of a file-backed store: uberjob/stores/_file_store.py staged_write / staged_write_path
    as a program over FS.v, with a single injected fault.  Definitions only.

      @contextmanager
      def staged_write_path(path):
          staging_path = f"{path}.STAGING"
          try:
              yield staging_path                      # body, see with_open
              os.replace(staging_path, path)          # fixed = true  (commit 9fd6722)
          except BaseException:
              _try_remove(staging_path)               # handler
              raise
          # os.replace(staging_path, path)            # fixed = false (the rename sat here)

      def staged_write(path, mode, **kw):
          with staged_write_path(path) as staging_path:
              with open(staging_path, mode, **kw) as outputfile:     # Open ... Close
                  yield outputfile                                   # Write c1 .. Write ck [, serialiser raises]

    File operations are numbered in execution order from 0 (Open).  A fault hits the operation with
    a given number:  [Exc i pre]  operation i raises ([pre]: for Write, the first [pre] bytes of the
    chunk reached the file; for Open, pre > 0 means the file was created before open() raised);
    [DieBefore i] / [DieAfter i]  the process dies right before / after operation i (no handler runs).
    A value that cannot be serialised is [ser_ok = false]: the body raises after its chunks. *)
From Coq Require Import List Arith Bool ZArith.
Import ListNotations.
From UJ Require Import Store.FS.

Inductive fault := NoFault | Exc (i pre : nat) | DieBefore (i : nat) | DieAfter (i : nat).
Inductive res := Ok | Exn | Dead.

(** Effect of an operation that raises an injected exception. Open/Rename/Remove are all-or-nothing. *)
Definition apply_exc (o : op) (pre : nat) (s : state) : state :=
  match o with
  | Open p =>
      if Nat.eqb pre 0 then s
      else match apply (Open p) s with
           | (s1, true) => fst (apply (Close p) s1)      (* created, descriptor released by open() itself *)
           | (_, false) => s
           end
  | Write p c => fst (apply (Write p (firstn pre c)) s)
  | Close p => fst (apply (Close p) s)                   (* the descriptor is released even if close() raises *)
  | Rename _ _ => s
  | Remove _ => s
  end.

Definition normal (o : op) (s : state) : state * res :=
  let (s', ok) := apply o s in (s', if ok then Ok else Exn).

Definition step (f : fault) (i : nat) (o : op) (s : state) : state * res :=
  match f with
  | NoFault => normal o s
  | Exc j pre => if Nat.eqb i j then (apply_exc o pre s, Exn) else normal o s
  | DieBefore j => if Nat.eqb i j then (s, Dead) else normal o s
  | DieAfter j => if Nat.eqb i j then (fst (apply o s), Dead) else normal o s
  end.

Fixpoint do_writes (f : fault) (i : nat) (st : path) (chunks : list bytes) (s : state)
  : state * res * nat :=
  match chunks with
  | [] => (s, Ok, i)
  | c :: cs =>
      match step f i (Write st c) s with
      | (s', Ok) => do_writes f (S i) st cs s'
      | (s', r) => (s', r, S i)
      end
  end.

(** with open(staging, mode) as outputfile: <chunks> [raise]  -- __exit__ closes on every path but death.
    Returns the number of the next file operation as third component. *)
Definition after_open (f : fault) (st : path) (chunks : list bytes) (ser_ok : bool) (s1 : state)
  : state * res * nat :=
  match do_writes f 1 st chunks s1 with
  | (s2, Dead, i) => (s2, Dead, i)
  | (s2, r, i) =>
      let r' := match r with Ok => if ser_ok then Ok else Exn | _ => r end in
      match step f i (Close st) s2 with
      | (s3, Ok) => (s3, r', S i)
      | (s3, rc) => (s3, rc, S i)
      end
  end.

Definition with_open (f : fault) (st : path) (chunks : list bytes) (ser_ok : bool) (s : state)
  : state * res * nat :=
  match step f 0 (Open st) s with
  | (s1, Ok) => after_open f st chunks ser_ok s1
  | (s1, r) => (s1, r, 1)
  end.

(** except BaseException: _try_remove(staging); raise.  OSError from os.remove is swallowed, anything
    else replaces the exception in flight: the write fails by exception either way. *)
Definition handler (f : fault) (i : nat) (st : path) (s : state) : state * res :=
  match step f i (Remove st) s with
  | (s', Dead) => (s', Dead)
  | (s', _) => (s', Exn)
  end.

(** What staged_write_path does once the body has left the with-block. *)
Definition finish (fixed : bool) (f : fault) (st p : path) (b : state * res * nat) : state * res :=
  match b with
  | (s1, Ok, i) =>
      match step f i (Rename st p) s1 with
      | (s2, Exn) => if fixed then handler f (S i) st s2 else (s2, Exn)
      | (s2, r) => (s2, r)
      end
  | (s1, Exn, i) => handler f i st s1
  | (s1, Dead, _) => (s1, Dead)
  end.

Definition staged_write (fixed : bool) (f : fault) (st p : path) (chunks : list bytes) (ser_ok : bool)
           (s : state) : state * res :=
  finish fixed f st p (with_open f st chunks ser_ok s).

(** The value a complete write stores. *)
Definition new_content (chunks : list bytes) : bytes := concat chunks.

(** The fault hits the handler's own os.remove (only reachable when the body already failed without a
    fault, i.e. an unserialisable value, and the fault number is that of the Remove). *)
Definition remove_faulted (chunks : list bytes) (ser_ok : bool) (f : fault) : bool :=
  match f with
  | Exc i _ => negb ser_ok && Nat.eqb i (length chunks + 2)
  | _ => false
  end.

Definition is_death (f : fault) : bool :=
  match f with DieBefore _ | DieAfter _ => true | _ => false end.
