(** graph.get_argument_nodes, run_physical.BoundCall.run, the gather_* / unpack builtins, and two
    evaluators of a plan graph: [val_of] (node by node in number order: direct evaluation) and
    [run_order] (result slots filled in the order a scheduler happens to pick).  Definitions only. *)
From Coq Require Import List Arith ZArith Bool.
Import ListNotations.
From UJ Require Import Plan.Values Plan.Gather.

Definition in_edges (g : graph) (c : nat) : list edge := filter (fun e => dst e =? c) (edges g).

Definition is_pos (e : edge) : bool := match key e with Pos _ => true | _ => false end.
Definition is_kw (e : edge) : bool := match key e with Kw _ _ => true | _ => false end.

(** [args[edge_key.index] = predecessor]: a later edge with the same index overwrites *)
Definition pos_src (es : list edge) (i : nat) : option nat :=
  fold_left (fun acc e => match key e with Pos j => if j =? i then Some (src e) else acc | _ => acc end) es None.

Definition kw_src (es : list edge) (i : nat) : option (nat * nat) :=
  fold_left (fun acc e => match key e with Kw name j => if j =? i then Some (name, src e) else acc | _ => acc end) es None.

Definition idx_ok (np nk : nat) (e : edge) : bool :=
  match key e with Pos j => j <? np | Kw _ j => j <? nk end.

(** get_argument_nodes(graph, call).  None = Python raises: an index beyond the number of
    positional / keyword edges (IndexError), or a slot left None (KeyError on lookup).
    Keyword names are those of a Python **kwargs dict, hence pairwise distinct; dict(pairs) is the
    identity on such lists. *)
Definition get_args (g : graph) (c : nat) : option (list nat * list (nat * nat)) :=
  let es := in_edges g c in
  let np := length (filter is_pos es) in
  let nk := length (filter is_kw es) in
  if forallb (idx_ok np nk) es then
    match mapM (pos_src es) (seq 0 np), mapM (kw_src es) (seq 0 nk) with
    | Some a, Some k => Some (a, k)
    | _, _ => None
    end
  else None.

Section WithInterp.
  (** H-user: a user function is a deterministic function of its (ordered) arguments that returns a
      value or raises (None). *)
  Variable interp : nat -> list val -> list (nat * val) -> option val.

  (** _builtins.unpack(iterable, length) *)
  Definition unpack_val (it : val) (len : Z) : option val :=
    match iter_items it with
    | Some items => if Z.eqb (Z.of_nat (length items)) len then Some (VCont CTuple fresh_id items) else None
    | None => None
    end.

  (** operator.getitem on a list/tuple with a non-negative int index *)
  Definition getitem_val (t : val) (idx : Z) : option val :=
    match t with
    | VCont CTuple _ items | VCont CList _ items =>
        if Z.ltb idx 0 then None else nth_error items (Z.to_nat idx)
    | _ => None
    end.

  (** the call fn( *args, **kwargs ) *)
  Definition apply_fn (f : fn) (args : list val) (kwargs : list (nat * val)) : option val :=
    match f with
    | FUser u => interp u args kwargs
    | FGather k => match kwargs with [] => build k args | _ => None end
    | FUnpack => match args, kwargs with
                 | [it; Atom _ len], [] => unpack_val it len
                 | _, _ => None
                 end
    | FGetItem => match args, kwargs with
                  | [t; Atom _ idx], [] => getitem_val t idx
                  | _, _ => None
                  end
    end.

  Definition lookup_kws (look : nat -> option val) (kws : list (nat * nat)) : option (list (nat * val)) :=
    mapM (fun kn => match look (snd kn) with Some v => Some (fst kn, v) | None => None end) kws.

  (** [arg.value for arg in self.args], [{name: arg.value for name, arg in self.kwargs.items()}] *)
  Definition argvals (look : nat -> option val) (a : list nat) (k : list (nat * nat))
    : option (list val * list (nat * val)) :=
    match mapM look a, lookup_kws look k with
    | Some vs, Some kvs => Some (vs, kvs)
    | _, _ => None
    end.

  (** The argument values BoundCall.run reads from its slots, given a way to look a node's value up. *)
  Definition received_with (look : nat -> option val) (g : graph) (c : nat)
    : option (list val * list (nat * val)) :=
    match get_args g c with
    | Some (a, k) => argvals look a k
    | None => None
    end.

  (** value of node [n] given the values [acc] of the nodes 0 .. n-1 (None: the node raised, or one
      of its ancestors did and it never ran) *)
  Definition look_tab (acc : list (option val)) (a : nat) : option val :=
    match nth_error acc a with Some (Some v) => Some v | _ => None end.

  Definition eval_node (g : graph) (acc : list (option val)) (n : nat) : option val :=
    match nth_error (nodes g) n with
    | Some (KLit v) => Some v
    | Some (KCall f) => match received_with (look_tab acc) g n with
                        | Some (vs, kvs) => apply_fn f vs kvs
                        | None => None
                        end
    | None => None
    end.

  (** direct evaluation: nodes in number order; node n sees nodes 0..n-1 only *)
  Fixpoint tab (g : graph) (n : nat) : list (option val) :=
    match n with
    | 0 => []
    | S m => let t := tab g m in t ++ [eval_node g t m]
    end.

  Definition val_of (g : graph) (n : nat) : option val := look_tab (tab g (S n)) n.

  Definition received (g : graph) (c : nat) : option (list val * list (nat * val)) :=
    received_with (val_of g) g c.

  (** ---- execution in scheduler order with result slots (run_physical.py) ---- *)
  Definition slots := list (nat * val).      (* result slots that have been written *)

  Fixpoint assoc (n : nat) (s : slots) : option val :=
    match s with [] => None | (m, v) :: r => if m =? n then Some v else assoc n r end.

  (** result_lookup[node]: a Literal is its own slot.  An unwritten Slot holds Python None; reading it
      is modelled as an error (None): it is exactly what a valid order excludes. *)
  Definition read_slot (g : graph) (s : slots) (n : nat) : option val :=
    match nth_error (nodes g) n with
    | Some (KLit v) => Some v
    | Some (KCall _) => assoc n s
    | None => None
    end.

  (** process(node) for each node in [order]; None as soon as a call raises (the run raises). *)
  Fixpoint run_order (g : graph) (order : list nat) (s : slots) : option slots :=
    match order with
    | [] => Some s
    | n :: rest =>
        match nth_error (nodes g) n with
        | Some (KCall f) =>
            match received_with (read_slot g s) g n with
            | Some (vs, kvs) => match apply_fn f vs kvs with
                                | Some v => run_order g rest ((n, v) :: s)
                                | None => None
                                end
            | None => None
            end
        | _ => run_order g rest s
        end
    end.

  (** run_physical: [output_slot.value] after all nodes have been processed *)
  Definition run_result (g : graph) (order : list nat) (out : nat) : option val :=
    match run_order g order [] with
    | Some s => read_slot g s out
    | None => None
    end.
End WithInterp.

(** the argument values direct evaluation gives a call: every argument substituted, positional ones in
    order, keyword ones under their names in the order given *)
Definition sargvals (env : nat -> option val) (args : list sval) (kwargs : list (nat * sval))
  : option (list val * list (nat * val)) :=
  match mapM (subst env) args,
        mapM (fun kv => match subst env (snd kv) with Some v => Some (fst kv, v) | None => None end) kwargs with
  | Some vs, Some kvs => Some (vs, kvs)
  | _, _ => None
  end.

(** argument nodes of a node (empty for literals / ill-formed calls) *)
Definition arg_nodes (g : graph) (c : nat) : list nat :=
  match nth_error (nodes g) c with
  | Some (KCall _) => match get_args g c with Some (a, k) => a ++ map snd k | None => [] end
  | _ => []
  end.

(** n is needed for out: reflexive-transitive closure of "is an argument of" *)
Inductive needs (g : graph) : nat -> nat -> Prop :=
| needs_refl n : needs g n n
| needs_step a c out : In a (arg_nodes g c) -> needs g c out -> needs g a out.

(** A valid order for computing [out]: what prune_plan + run_function_on_graph guarantee (C01, C04):
    no node twice, a call only after its call arguments, only nodes that [out] needs, and [out]
    itself unless it is a literal. *)
Definition is_call (g : graph) (n : nat) : bool :=
  match nth_error (nodes g) n with Some (KCall _) => true | _ => false end.

Fixpoint after_args (g : graph) (done : list nat) (order : list nat) : bool :=
  match order with
  | [] => true
  | n :: rest =>
      forallb (fun a => negb (is_call g a) || existsb (Nat.eqb a) done) (arg_nodes g n)
      && negb (existsb (Nat.eqb n) done)
      && after_args g (n :: done) rest
  end.

Definition valid_order (g : graph) (out : nat) (order : list nat) : Prop :=
  after_args g [] order = true /\
  (forall n, In n order -> needs g n out) /\
  (is_call g out = true -> In out order).
