(** Python values with identity tags, and symbolic values (values that may mention plan nodes).
    Definitions only, executable.  (uberjob/_plan.py, _builtins.py treat values through exactly
    these observations: exact type, identity, iteration order, ==/hash.)

    Representation.  Every container is [VCont kind id items]:
      list / tuple / set : [items] in iteration order;
      dict               : [items] is what [d.items()] yields, i.e. 2-tuples [vpair k v]
                           (this is literally what Plan._gather iterates over);
      COpaque            : container *subclasses* and arbitrary objects - things Plan._gather must
                           not look into; [items] is whatever the object holds.
    The constructor names of DESIGN.md 4.4 are provided as smart constructors below
    ([VList], [VTuple], [VSet], [VDict], [Opaque]).
    Identity: [id = fresh_id = 0] means "allocated during the run, identity unknown" (a container
    rebuilt by gather_*, the tuple made by unpack, a pair made by dict.items()); objects supplied by
    the user carry the id the user's object has. *)
From Coq Require Import List Arith ZArith Bool.
Import ListNotations.

Inductive ckind := CList | CTuple | CSet | CDict | COpaque.

Definition ckind_eqb (a b : ckind) : bool :=
  match a, b with
  | CList, CList | CTuple, CTuple | CSet, CSet | CDict, CDict | COpaque, COpaque => true
  | _, _ => false
  end.

(** type(root) in GATHER_LOOKUP: exact list/tuple/set/dict only. *)
Definition gatherable (k : ckind) : bool :=
  match k with COpaque => false | _ => true end.

Inductive val :=
| Atom (id : nat) (payload : Z)
| VCont (k : ckind) (id : nat) (items : list val).

Definition fresh_id : nat := 0.

Definition vid (v : val) : nat := match v with Atom i _ => i | VCont _ i _ => i end.

Definition vpair (k v : val) : val := VCont CTuple fresh_id [k; v].

Definition VList (i : nat) (l : list val) : val := VCont CList i l.
Definition VTuple (i : nat) (l : list val) : val := VCont CTuple i l.
Definition VSet (i : nat) (l : list val) : val := VCont CSet i l.
Definition VDict (i : nat) (kvs : list (val * val)) : val :=
  VCont CDict i (map (fun kv => vpair (fst kv) (snd kv)) kvs).
Definition Opaque (i : nat) (inner : list val) : val := VCont COpaque i inner.

(** Symbolic values: what the user hands to Plan.call / gather / run(output=...). *)
Inductive sval :=
| SNode (n : nat)
| SAtom (id : nat) (payload : Z)
| SCont (k : ckind) (id : nat) (items : list sval).

Definition spair (k v : sval) : sval := SCont CTuple fresh_id [k; v].
Definition SList (i : nat) (l : list sval) : sval := SCont CList i l.
Definition STuple (i : nat) (l : list sval) : sval := SCont CTuple i l.
Definition SSet (i : nat) (l : list sval) : sval := SCont CSet i l.
Definition SDict (i : nat) (kvs : list (sval * sval)) : sval :=
  SCont CDict i (map (fun kv => spair (fst kv) (snd kv)) kvs).
Definition SOpaque (i : nat) (inner : list sval) : sval := SCont COpaque i inner.

Definition sid (v : sval) : option nat :=
  match v with SNode _ => None | SAtom i _ => Some i | SCont _ i _ => Some i end.

Definition is_node (v : sval) : bool := match v with SNode _ => true | _ => false end.

(** A Node object seen as a plain Python object (what a function receives when a node hides inside
    an opaque object): an opaque object whose identity is determined by the node. *)
Definition node_obj (n : nat) : val := VCont COpaque (1000 + n) [].

(** The object itself, untouched: every identity preserved, hidden nodes stay Node objects. *)
Fixpoint freeze (v : sval) : val :=
  match v with
  | SNode n => node_obj n
  | SAtom i p => Atom i p
  | SCont k i items => VCont k i (map freeze items)
  end.

(** A node that Plan._gather's recursion reaches: through exact list/tuple/set/dict only. *)
Fixpoint vis_node (v : sval) : bool :=
  match v with
  | SNode _ => true
  | SAtom _ _ => false
  | SCont k _ items => gatherable k && existsb vis_node items
  end.

Definition mapM {A B : Type} (f : A -> option B) : list A -> option (list B) :=
  fix go (l : list A) : option (list B) :=
    match l with
    | [] => Some []
    | x :: r => match f x with
                | Some y => match go r with Some ys => Some (y :: ys) | None => None end
                | None => None
                end
    end.

(** Python == restricted to the values that can be dict keys / set members (hashable ones):
    atoms compare by payload, tuples elementwise, other objects by identity. *)
Fixpoint veq (a b : val) {struct a} : bool :=
  match a, b with
  | Atom _ p, Atom _ q => Z.eqb p q
  | VCont CTuple _ xs, VCont CTuple _ ys =>
      (fix go (xs ys : list val) {struct xs} : bool :=
         match xs, ys with
         | [], [] => true
         | x :: xs', y :: ys' => veq x y && go xs' ys'
         | _, _ => false
         end) xs ys
  | VCont COpaque i _, VCont COpaque j _ => Nat.eqb i j
  | _, _ => false
  end.

(** hash(v) does not raise: atoms, tuples of hashables, plain objects.  list/set/dict raise TypeError.
    (Unhashable opaque objects - list/dict subclasses - used as keys are outside the model.) *)
Fixpoint hashable (v : val) : bool :=
  match v with
  | Atom _ _ => true
  | VCont CTuple _ items => forallb hashable items
  | VCont COpaque _ _ => true
  | VCont _ _ _ => false
  end.

(** set(args): first occurrence of each ==-class is kept (the model keeps insertion order; Python's
    iteration order of a set is unspecified, the harness compares sets as sorted lists). *)
Fixpoint dedup (vs : list val) : list val :=
  match vs with
  | [] => []
  | v :: r => v :: filter (fun w => negb (veq v w)) (dedup r)
  end.

(** dict(pairs): insert left to right; an existing key keeps its position and key object and takes
    the later value. *)
Fixpoint dict_insert (d : list (val * val)) (k v : val) : list (val * val) :=
  match d with
  | [] => [(k, v)]
  | (k0, v0) :: r => if veq k0 k then (k0, v) :: r else (k0, v0) :: dict_insert r k v
  end.

Definition dict_of (ps : list (val * val)) : list (val * val) :=
  fold_left (fun d kv => dict_insert d (fst kv) (snd kv)) ps [].

Fixpoint dict_get (d : list (val * val)) (k : val) : option val :=
  match d with
  | [] => None
  | (k0, v0) :: r => if veq k0 k then Some v0 else dict_get r k
  end.

(** the value of the LAST pair whose key == k *)
Definition last_match (ps : list (val * val)) (k : val) : option val :=
  fold_left (fun acc kv => if veq (fst kv) k then Some (snd kv) else acc) ps None.

(** one element of the iterable handed to dict(): a 2-sequence *)
Definition as_pair (v : val) : option (val * val) :=
  match v with
  | VCont CTuple _ [k; x] => Some (k, x)
  | VCont CList _ [k; x] => Some (k, x)
  | _ => None
  end.

Definition pairs_of (v : val) : option (list (val * val)) :=
  match v with VCont CDict _ items => mapM as_pair items | _ => None end.

(** uberjob/_builtins.py: gather_list / gather_tuple / gather_set / gather_dict on *args.
    None = the builtin raises (TypeError: unhashable, or a dict item that is not a pair). *)
Definition build (k : ckind) (vs : list val) : option val :=
  match k with
  | CList => Some (VCont CList fresh_id vs)
  | CTuple => Some (VCont CTuple fresh_id vs)
  | CSet => if forallb hashable vs then Some (VCont CSet fresh_id (dedup vs)) else None
  | CDict => match mapM as_pair vs with
             | Some ps => if forallb (fun p => hashable (fst p)) ps
                          then Some (VDict fresh_id (dict_of ps)) else None
             | None => None
             end
  | COpaque => None
  end.

(** iter(v): items of list/tuple/set, keys of a dict; atoms (ints) and opaque objects are treated as
    not iterable (TypeError). *)
Definition iter_items (v : val) : option (list val) :=
  match v with
  | VCont CList _ items | VCont CTuple _ items | VCont CSet _ items => Some items
  | VCont CDict _ items => match mapM as_pair items with Some ps => Some (map fst ps) | None => None end
  | _ => None
  end.

(** Denotational reference: replace every node the gather recursion reaches by its value.
    A container with no reachable node - and every opaque object - is the object itself; a container
    with one is rebuilt by the same constructor over the substituted items, in order. *)
Fixpoint subst (env : nat -> option val) (v : sval) : option val :=
  match v with
  | SNode n => env n
  | SAtom i p => Some (Atom i p)
  | SCont k i items =>
      if gatherable k && existsb vis_node items
      then match mapM (subst env) items with
           | Some vs => build k vs
           | None => None
           end
      else Some (VCont k i (map freeze items))
  end.
