(** Structure of the graph that Plan._call / Plan._gather build: the graph only grows, every new edge
    points at a new node, every edge goes from a smaller to a larger node number (so the completion
    order of node creation is a topological order), and a value without a reachable node leaves the
    graph untouched and is returned as the same object. *)
From Coq Require Import List Arith ZArith Bool Lia.
Import ListNotations.
From UJ Require Import Plan.Values Plan.ValuesProofs Plan.Gather.

Ltac splits := repeat match goal with |- _ /\ _ => split end.


(** g' extends g: nodes and edges are appended, and every new edge points at a new node *)
Definition ext (g g' : graph) : Prop :=
  exists ns es, nodes g' = nodes g ++ ns /\ edges g' = edges g ++ es /\
                Forall (fun e => size g <= dst e) es.

Lemma ext_refl g : ext g g.
Proof. exists [], []. rewrite !app_nil_r. auto. Qed.

Lemma ext_size g g' : ext g g' -> size g <= size g'.
Proof. intros (ns & es & Hn & _). unfold size. rewrite Hn, app_length. lia. Qed.

Lemma ext_trans g1 g2 g3 : ext g1 g2 -> ext g2 g3 -> ext g1 g3.
Proof.
  intros H12 H23. pose proof (ext_size _ _ H12) as Hs.
  destruct H12 as (ns & es & Hn & He & Hd). destruct H23 as (ns' & es' & Hn' & He' & Hd').
  exists (ns ++ ns'), (es ++ es'). rewrite Hn', He', Hn, He, !app_assoc. splits; [reflexivity|reflexivity|].
  apply Forall_app. split; [exact Hd|].
  eapply Forall_impl; [|exact Hd']. cbn. intros e H. lia.
Qed.

Lemma wf_spec g : wf g = true <-> forall e, In e (edges g) -> src e < dst e /\ dst e < size g.
Proof.
  unfold wf, size. rewrite forallb_forall. split; intros H e He; specialize (H e He); unfold wf_edge in *.
  - apply andb_true_iff in H as [H1 H2]. apply Nat.ltb_lt in H1, H2. auto.
  - destruct H as [H1 H2]. apply andb_true_iff. split; now apply Nat.ltb_lt.
Qed.

Lemma closed_mono b b' v : b <= b' -> closed b v = true -> closed b' v = true.
Proof.
  intros Hb. induction v as [n|i p|k i items IH] using sval_ind'; cbn; auto.
  - intros H. apply Nat.ltb_lt in H. apply Nat.ltb_lt. lia.
  - destruct (gatherable k); cbn; [|auto].
    rewrite !forallb_forall. intros H x Hx. rewrite Forall_forall in IH. apply IH; auto.
Qed.

(** ---- add_lit / add_call ---- *)
Lemma add_lit_ext g v : ext g (fst (add_lit g v)).
Proof. exists [KLit v], []. cbn. rewrite app_nil_r. auto. Qed.

Lemma add_lit_wf g v : wf g = true -> wf (fst (add_lit g v)) = true.
Proof.
  rewrite !wf_spec. intros H e He. cbn in He. specialize (H e He). unfold size in *. cbn.
  rewrite app_length. cbn. lia.
Qed.

Lemma add_lit_size g v : size (fst (add_lit g v)) = S (size g).
Proof. unfold size. cbn. rewrite app_length. cbn. lia. Qed.

Lemma pos_edges_spec c i l e :
  In e (pos_edges c i l) -> dst e = c /\ In (src e) l.
Proof.
  revert i; induction l as [|a r IH]; intros i; cbn; [tauto|].
  intros [<-|H]; cbn; [auto|]. destruct (IH _ H). auto.
Qed.

Lemma kw_edges_spec c i l e :
  In e (kw_edges c i l) -> dst e = c /\ In (src e) (map snd l).
Proof.
  revert i; induction l as [|[name a] r IH]; intros i; cbn; [tauto|].
  intros [<-|H]; cbn; [auto|]. destruct (IH _ H). auto.
Qed.

Definition all_lt (b : nat) (l : list nat) : Prop := Forall (fun a => a < b) l.

Lemma add_call_ext g f args kws : ext g (fst (add_call g f args kws)).
Proof.
  exists [KCall f], (pos_edges (size g) 0 args ++ kw_edges (size g) 0 kws). cbn. splits; [reflexivity|reflexivity|].
  apply Forall_forall. intros e He. apply in_app_or in He as [He|He].
  - apply pos_edges_spec in He as [-> _]. lia.
  - apply kw_edges_spec in He as [-> _]. lia.
Qed.

Lemma add_call_size g f args kws : size (fst (add_call g f args kws)) = S (size g).
Proof. unfold size. cbn. rewrite app_length. cbn. lia. Qed.

Lemma add_call_wf g f args kws :
  wf g = true -> all_lt (size g) args -> all_lt (size g) (map snd kws) ->
  wf (fst (add_call g f args kws)) = true.
Proof.
  rewrite !wf_spec. intros H Ha Hk e He. rewrite add_call_size. cbn in He.
  apply in_app_or in He as [He|He].
  - specialize (H e He). lia.
  - unfold all_lt in *. rewrite Forall_forall in Ha, Hk. fold (size g) in He.
    apply in_app_or in He as [He|He].
    + apply pos_edges_spec in He as [-> Hs]. specialize (Ha _ Hs). lia.
    + apply kw_edges_spec in He as [-> Hs]. specialize (Hk _ Hs). lia.
Qed.

(** ---- as_node / as_nodes ---- *)
Definition node_ok (b : nat) (v : sval) : Prop := match v with SNode n => n < b | _ => True end.

Lemma as_node_struct g v g' n :
  wf g = true -> node_ok (size g) v -> as_node g v = (g', n) ->
  ext g g' /\ wf g' = true /\ n < size g'.
Proof.
  intros Hw Hok H. destruct v as [m|i p|k i items]; cbn in H.
  - inversion H; subst. splits; [apply ext_refl|exact Hw|exact Hok].
  - inversion H; subst. splits; [apply (add_lit_ext g)|now apply add_lit_wf|].
    change (size g < size (fst (add_lit g (Atom i p)))). rewrite add_lit_size. lia.
  - inversion H; subst. splits; [apply (add_lit_ext g)|now apply add_lit_wf|].
    change (size g < size (fst (add_lit g (VCont k i (map freeze items))))). rewrite add_lit_size. lia.
Qed.

Lemma node_ok_mono b b' v : b <= b' -> node_ok b v -> node_ok b' v.
Proof. destruct v; cbn; intros; auto; lia. Qed.

Lemma as_nodes_struct vs : forall g g' ns,
  wf g = true -> Forall (node_ok (size g)) vs -> as_nodes g vs = (g', ns) ->
  ext g g' /\ wf g' = true /\ all_lt (size g') ns /\ length ns = length vs.
Proof.
  induction vs as [|v r IH]; intros g g' ns Hw Hok H; cbn in H.
  - inversion H; subst. splits; [apply ext_refl|exact Hw|constructor|reflexivity].
  - destruct (as_node g v) as [g1 n] eqn:E1. destruct (as_nodes g1 r) as [g2 ns'] eqn:E2.
    inversion H; subst. inversion Hok as [|? ? Hv Hr]; subst.
    destruct (as_node_struct _ _ _ _ Hw Hv E1) as (X1 & W1 & N1).
    assert (Hr' : Forall (node_ok (size g1)) r).
    { eapply Forall_impl; [|exact Hr]. intros a. apply node_ok_mono. now apply ext_size. }
    destruct (IH _ _ _ W1 Hr' E2) as (X2 & W2 & N2 & L2).
    splits; [eapply ext_trans; eauto|exact W2| |cbn; now rewrite L2].
    constructor; [|exact N2]. pose proof (ext_size _ _ X2). lia.
Qed.

(** ---- recurse ---- *)
Lemma recurse_cont k i items g :
  recurse (SCont k i items) g =
  if gatherable k then
    let '(g1, children) := recurse_list items g in
    if existsb is_node children
    then let '(g2, ns) := as_nodes g1 children in
         let '(g3, c) := add_call g2 (FGather k) ns [] in (g3, SNode c)
    else (g1, SCont k i items)
  else (g, SCont k i items).
Proof. reflexivity. Qed.

(** what [recurse] returns for one item: the same object if no node is reachable, else a node *)
Definition rec_out (b : nat) (x x' : sval) : Prop :=
  (vis_node x = false /\ x' = x) \/ (vis_node x = true /\ exists c, x' = SNode c /\ c < b).

Definition recurse_struct_stmt (v : sval) : Prop :=
  forall g g' r, wf g = true -> closed (size g) v = true -> recurse v g = (g', r) ->
    ext g g' /\ wf g' = true /\ rec_out (size g') v r /\ (vis_node v = false -> g' = g).

Lemma rec_out_mono b b' x x' : b <= b' -> rec_out b x x' -> rec_out b' x x'.
Proof.
  intros Hb [H|(H & c & -> & Hc)]; [now left|]. right. split; [exact H|]. exists c. split; [reflexivity|lia].
Qed.

Lemma rec_out_node_ok b x x' : rec_out b x x' -> node_ok b x'.
Proof.
  intros [(H & ->)|(H & c & -> & Hc)]; cbn; [|exact Hc].
  destruct x; cbn in *; auto. discriminate.
Qed.

Lemma rec_out_is_node b x x' : rec_out b x x' -> is_node x' = vis_node x.
Proof.
  intros [(H & ->)|(H & c & -> & Hc)]; cbn; [|now rewrite H].
  rewrite H. destruct x; cbn in *; auto.
Qed.

Lemma recurse_list_struct items :
  Forall recurse_struct_stmt items ->
  forall g g' rs, wf g = true -> forallb (closed (size g)) items = true -> recurse_list items g = (g', rs) ->
    ext g g' /\ wf g' = true /\ Forall2 (rec_out (size g')) items rs /\
    (existsb vis_node items = false -> g' = g).
Proof.
  induction 1 as [|x r Hx Hr IH]; intros g g' rs Hw Hc H; cbn in H.
  - inversion H; subst. splits; [apply ext_refl|exact Hw|constructor|reflexivity].
  - destruct (recurse x g) as [ga x'] eqn:Ea. destruct (recurse_list r ga) as [gb r'] eqn:Eb.
    inversion H; subst. cbn in Hc. apply andb_true_iff in Hc as [Hc1 Hc2].
    destruct (Hx _ _ _ Hw Hc1 Ea) as (X1 & W1 & O1 & U1).
    assert (Hc2' : forallb (closed (size ga)) r = true).
    { rewrite forallb_forall in *. intros y Hy. eapply closed_mono; [|apply Hc2, Hy]. now apply ext_size. }
    destruct (IH _ _ _ W1 Hc2' Eb) as (X2 & W2 & O2 & U2).
    splits.
    + eapply ext_trans; eauto.
    + exact W2.
    + constructor; [|exact O2]. eapply rec_out_mono; [|exact O1]. now apply ext_size.
    + cbn. intros Hn. apply orb_false_iff in Hn as [N1 N2].
      rewrite (U2 N2). now apply U1.
Qed.

Lemma Forall2_existsb {A B} (R : A -> B -> Prop) (p : A -> bool) (q : B -> bool) l m :
  Forall2 R l m -> (forall a b, R a b -> q b = p a) -> existsb q m = existsb p l.
Proof.
  intros H Hpq. induction H as [|a b l m Hab _ IH]; cbn; [reflexivity|]. now rewrite (Hpq _ _ Hab), IH.
Qed.

Lemma recurse_struct v : recurse_struct_stmt v.
Proof.
  induction v as [n|i p|k i items IH] using sval_ind'; intros g g' r Hw Hc H.
  - cbn in H. inversion H; subst. cbn in Hc. apply Nat.ltb_lt in Hc.
    splits; [apply ext_refl|exact Hw| |discriminate].
    right. split; [reflexivity|]. exists n. auto.
  - cbn in H. inversion H; subst. splits; [apply ext_refl|exact Hw|now left|reflexivity].
  - rewrite recurse_cont in H. cbn in Hc. cbn [vis_node].
    destruct (gatherable k) eqn:Gk; cbn in Hc |- *.
    2:{ inversion H; subst. splits; [apply ext_refl|exact Hw| |reflexivity].
        left. split; [cbn; now rewrite Gk|reflexivity]. }
    destruct (recurse_list items g) as [g1 children] eqn:E1.
    destruct (recurse_list_struct items IH _ _ _ Hw Hc E1) as (X1 & W1 & O1 & U1).
    assert (En : existsb is_node children = existsb vis_node items).
    { eapply Forall2_existsb; [exact O1|]. intros a b. apply rec_out_is_node. }
    rewrite En in H. destruct (existsb vis_node items) eqn:Ev.
    + destruct (as_nodes g1 children) as [g2 ns] eqn:E2.
      destruct (add_call g2 (FGather k) ns []) as [g3 c] eqn:E3. inversion H; subst.
      assert (Hok : Forall (node_ok (size g1)) children).
      { clear - O1. induction O1; constructor; auto. eapply rec_out_node_ok; eauto. }
      destruct (as_nodes_struct _ _ _ _ W1 Hok E2) as (X2 & W2 & N2 & L2).
      assert (X3 : ext g2 g') by (change g' with (fst (g', c)); rewrite <- E3; apply add_call_ext).
      assert (W3 : wf g' = true).
      { change g' with (fst (g', c)). rewrite <- E3. apply add_call_wf; auto. constructor. }
      assert (S3 : size g' = S (size g2)).
      { change g' with (fst (g', c)). rewrite <- E3. apply add_call_size. }
      assert (Hv : vis_node (SCont k i items) = true) by (cbn; now rewrite Gk, Ev).
      splits.
      * eapply ext_trans; [exact X1|]. eapply ext_trans; eauto.
      * exact W3.
      * right. split; [exact Hv|]. exists c. split; [reflexivity|].
        assert (Ec : c = size g2) by (unfold add_call in E3; now inversion E3). lia.
      * intros Hf. cbn in Hf, Hv. congruence.
    + inversion H; subst.
      assert (Hv : vis_node (SCont k i items) = false) by (cbn; now rewrite Gk, Ev).
      splits; [exact X1|exact W1|left; split; [exact Hv|reflexivity]|]. intros _. now apply U1.
Qed.

(** ---- gather / call ---- *)
Lemma gather_struct g v g' n :
  wf g = true -> closed (size g) v = true -> gather g v = (g', n) ->
  ext g g' /\ wf g' = true /\ n < size g'.
Proof.
  intros Hw Hc H. unfold gather in H. destruct (recurse v g) as [g1 r] eqn:E1.
  destruct (recurse_struct v _ _ _ Hw Hc E1) as (X1 & W1 & O1 & _).
  destruct (as_node_struct _ _ _ _ W1 (rec_out_node_ok _ _ _ O1) H) as (X2 & W2 & N2).
  splits; [eapply ext_trans; eauto|exact W2|exact N2].
Qed.

Lemma gather_list_struct vs : forall g g' ns,
  wf g = true -> forallb (closed (size g)) vs = true -> gather_list g vs = (g', ns) ->
  ext g g' /\ wf g' = true /\ all_lt (size g') ns /\ length ns = length vs.
Proof.
  induction vs as [|v r IH]; intros g g' ns Hw Hc H; cbn in H.
  - inversion H; subst. splits; [apply ext_refl|exact Hw|constructor|reflexivity].
  - destruct (gather g v) as [g1 n] eqn:E1. destruct (gather_list g1 r) as [g2 ns'] eqn:E2.
    inversion H; subst. cbn in Hc. apply andb_true_iff in Hc as [Hc1 Hc2].
    destruct (gather_struct _ _ _ _ Hw Hc1 E1) as (X1 & W1 & N1).
    assert (Hc2' : forallb (closed (size g1)) r = true).
    { rewrite forallb_forall in *. intros y Hy. eapply closed_mono; [|apply Hc2, Hy]. now apply ext_size. }
    destruct (IH _ _ _ W1 Hc2' E2) as (X2 & W2 & N2 & L2).
    splits; [eapply ext_trans; eauto|exact W2| |cbn; now rewrite L2].
    constructor; [|exact N2]. pose proof (ext_size _ _ X2). lia.
Qed.

Lemma gather_kws_struct kws : forall g g' ks,
  wf g = true -> forallb (fun kv => closed (size g) (snd kv)) kws = true -> gather_kws g kws = (g', ks) ->
  ext g g' /\ wf g' = true /\ all_lt (size g') (map snd ks) /\ map fst ks = map fst kws.
Proof.
  induction kws as [|[name v] r IH]; intros g g' ks Hw Hc H; cbn in H.
  - inversion H; subst. splits; [apply ext_refl|exact Hw|constructor|reflexivity].
  - destruct (gather g v) as [g1 n] eqn:E1. destruct (gather_kws g1 r) as [g2 ks'] eqn:E2.
    inversion H; subst. cbn in Hc. apply andb_true_iff in Hc as [Hc1 Hc2].
    destruct (gather_struct _ _ _ _ Hw Hc1 E1) as (X1 & W1 & N1).
    assert (Hc2' : forallb (fun kv => closed (size g1) (snd kv)) r = true).
    { rewrite forallb_forall in *. intros y Hy. eapply closed_mono; [|apply Hc2, Hy]. now apply ext_size. }
    destruct (IH _ _ _ W1 Hc2' E2) as (X2 & W2 & N2 & L2).
    splits; [eapply ext_trans; eauto|exact W2| |cbn; now rewrite L2].
    cbn. constructor; [|exact N2]. pose proof (ext_size _ _ X2). lia.
Qed.

Lemma call_struct g f args kwargs g' c :
  wf g = true -> closed_call (size g) args kwargs = true -> call g f args kwargs = (g', c) ->
  ext g g' /\ wf g' = true /\ c < size g'.
Proof.
  intros Hw Hc H. unfold call in H. apply andb_true_iff in Hc as [Hc1 Hc2].
  destruct (gather_list g args) as [g1 ns] eqn:E1. destruct (gather_kws g1 kwargs) as [g2 ks] eqn:E2.
  destruct (gather_list_struct _ _ _ _ Hw Hc1 E1) as (X1 & W1 & N1 & _).
  assert (Hc2' : forallb (fun kv => closed (size g1) (snd kv)) kwargs = true).
  { rewrite forallb_forall in *. intros y Hy. eapply closed_mono; [|apply Hc2, Hy]. now apply ext_size. }
  destruct (gather_kws_struct _ _ _ _ W1 Hc2' E2) as (X2 & W2 & N2 & _).
  assert (N1' : all_lt (size g2) ns).
  { eapply Forall_impl; [|exact N1]. cbn. intros a Ha. pose proof (ext_size _ _ X2). lia. }
  assert (G : g' = fst (add_call g2 f ns ks)) by now rewrite H. subst g'.
  splits.
  - eapply ext_trans; [exact X1|]. eapply ext_trans; [exact X2|]. apply add_call_ext.
  - now apply add_call_wf.
  - rewrite add_call_size. cbn in H. inversion H; subst. unfold size. lia.
Qed.

(** The completion order of node creation is a topological order of the graph Plan builds:
    every edge created by Plan._call / Plan._gather goes from a lower to a higher number. *)
Lemma creation_order_topological g f args kwargs g' c :
  wf g = true -> closed_call (size g) args kwargs = true -> call g f args kwargs = (g', c) ->
  forall e, In e (edges g') -> src e < dst e /\ dst e < size g'.
Proof.
  intros Hw Hc H. destruct (call_struct _ _ _ _ _ _ Hw Hc H) as (_ & W & _). now apply wf_spec.
Qed.

Lemma gather_topological g v g' n :
  wf g = true -> closed (size g) v = true -> gather g v = (g', n) ->
  forall e, In e (edges g') -> src e < dst e /\ dst e < size g'.
Proof.
  intros Hw Hc H. destruct (gather_struct _ _ _ _ Hw Hc H) as (_ & W & _). now apply wf_spec.
Qed.

(** a value with no reachable node is handed over untouched: one literal holding the same object *)
Lemma gather_no_node g v :
  wf g = true -> closed (size g) v = true -> vis_node v = false ->
  gather g v = add_lit g (freeze v).
Proof.
  intros Hw Hc Hn. unfold gather. destruct (recurse v g) as [g1 r] eqn:E.
  destruct (recurse_struct v _ _ _ Hw Hc E) as (_ & _ & O & U).
  rewrite (U Hn). destruct O as [(_ & ->)|(Ht & _)]; [|congruence].
  destruct v; cbn in *; [discriminate|reflexivity|reflexivity].
Qed.
