(** Argument order, object identity, shape of rebuilt containers, unpack; non-vacuity examples. *)
From Coq Require Import List Arith ZArith Bool Lia.
Import ListNotations.
From UJ Require Import Plan.Values Plan.ValuesProofs Plan.Gather Plan.GatherProofs Plan.Eval Plan.EvalProofs.

Section Shape.
  Variable interp : nat -> list val -> list (nat * val) -> option val.
  Notation val_of := (val_of interp).
  Notation received := (received interp).

  (** ---- arguments: positional by index, keywords under their names in the order given ---- *)
  Lemma args_order g f args kwargs g' c :
    wf g = true -> closed_call (size g) args kwargs = true -> call g f args kwargs = (g', c) ->
    received g' c = sargvals (val_of g) args kwargs /\
    forall vs kvs, received g' c = Some (vs, kvs) ->
      length vs = length args /\
      (forall i a, nth_error args i = Some a ->
                   exists v, nth_error vs i = Some v /\ subst (val_of g) a = Some v) /\
      map fst kvs = map fst kwargs /\
      (forall j name a, nth_error kwargs j = Some (name, a) ->
                        exists v, nth_error kvs j = Some (name, v) /\ subst (val_of g) a = Some v).
  Proof.
    intros Hw Hc H. destruct (call_sem interp _ _ _ _ _ _ Hw Hc H) as [Hr _]. split; [exact Hr|].
    intros vs kvs Hrecv. rewrite Hr in Hrecv. unfold sargvals in Hrecv.
    destruct (mapM (subst (val_of g)) args) as [vs'|] eqn:E1; [|discriminate].
    destruct (mapM _ kwargs) as [kvs'|] eqn:E2; [|discriminate]. inversion Hrecv; subst.
    split; [now apply mapM_length in E1|]. split; [intros i a Hi; eapply mapM_nth; eauto|]. split.
    - clear - E2. revert kvs E2. induction kwargs as [|[name a] r IH]; intros kvs; cbn.
      + now intros [= <-].
      + destruct (subst (val_of g) a); [|discriminate].
        destruct (mapM _ r) eqn:E; [|discriminate]. intros [= <-]. cbn. f_equal. now apply IH.
    - intros j name a Hj. destruct (mapM_nth _ _ _ _ _ E2 Hj) as (y & Hy & Hs). cbn in Hs.
      destruct (subst (val_of g) a) as [v|]; [|discriminate]. inversion Hs; subst. eauto.
  Qed.

  (** ---- identity: a value with no reachable node (however nested), and every opaque object, is
      received as the very object supplied: [freeze] keeps every id, including nested ones ---- *)
  Lemma freeze_id a j : sid a = Some j -> vid (freeze a) = j.
  Proof. destruct a; cbn; congruence. Qed.

  Lemma opaque_no_vis i inner : vis_node (SCont COpaque i inner) = false.
  Proof. reflexivity. Qed.

  Lemma identity g f args kwargs g' c vs kvs :
    wf g = true -> closed_call (size g) args kwargs = true -> call g f args kwargs = (g', c) ->
    received g' c = Some (vs, kvs) ->
    (forall i a, nth_error args i = Some a -> vis_node a = false ->
                 nth_error vs i = Some (freeze a) /\ forall j, sid a = Some j -> vid (freeze a) = j) /\
    (forall i name a, nth_error kwargs i = Some (name, a) -> vis_node a = false ->
                      nth_error kvs i = Some (name, freeze a)) /\
    (forall i id inner, nth_error args i = Some (SCont COpaque id inner) ->
                        nth_error vs i = Some (VCont COpaque id (map freeze inner))).
  Proof.
    intros Hw Hc H Hr. destruct (args_order _ _ _ _ _ _ Hw Hc H) as [_ Ho].
    destruct (Ho _ _ Hr) as (_ & Hpos & _ & Hkw).
    assert (P : forall i a, nth_error args i = Some a -> vis_node a = false -> nth_error vs i = Some (freeze a)).
    { intros i a Hi Hn. destruct (Hpos i a Hi) as (v & Hv & Hs).
      rewrite (subst_no_vis (val_of g) a Hn) in Hs. congruence. }
    split; [|split].
    - intros i a Hi Hn. split; [now apply P|apply freeze_id].
    - intros i name a Hi Hn. destruct (Hkw i name a Hi) as (v & Hv & Hs).
      rewrite (subst_no_vis (val_of g) a Hn) in Hs. congruence.
    - intros i id inner Hi. apply (P i _ Hi). reflexivity.
  Qed.

  (** ---- shape of a rebuilt list / tuple: same constructor, same length, same order; the children
      without a reachable node are the same objects ---- *)
  Lemma shape_seq env k i items v :
    (k = CList \/ k = CTuple) -> existsb vis_node items = true ->
    subst env (SCont k i items) = Some v ->
    exists vs, v = VCont k fresh_id vs /\ length vs = length items /\
      (forall j x, nth_error items j = Some x -> exists y, nth_error vs j = Some y /\ subst env x = Some y) /\
      (forall j x, nth_error items j = Some x -> vis_node x = false -> nth_error vs j = Some (freeze x)).
  Proof.
    intros Hk Hv H. cbn in H. assert (Gk : gatherable k = true) by (destruct Hk; subst; reflexivity).
    rewrite Gk, Hv in H. cbn in H. destruct (mapM (subst env) items) as [vs|] eqn:E; [|discriminate].
    exists vs. assert (Hb : build k vs = Some (VCont k fresh_id vs)) by (destruct Hk; subst; reflexivity).
    rewrite Hb in H. inversion H; subst. split; [reflexivity|]. split; [now apply mapM_length in E|].
    split; [intros j x Hj; eapply mapM_nth; eauto|].
    intros j x Hj Hn. destruct (mapM_nth _ _ _ _ _ E Hj) as (y & Hy & Hs).
    rewrite (subst_no_vis env x Hn) in Hs. congruence.
  Qed.

  Lemma as_pair_vpair d : mapM as_pair (map (fun kv => vpair (fst kv) (snd kv)) d) = Some d.
  Proof. induction d as [|[k v] r IH]; cbn; [reflexivity|]. cbn in IH. now rewrite IH. Qed.

  (** dict: later key wins, keys pairwise distinct; a non-pair item or an unhashable key raises *)
  Lemma shape_dict vs d :
    build CDict vs = Some d ->
    exists ps, mapM as_pair vs = Some ps /\ Forall (fun p => hashable (fst p) = true) ps /\
      pairs_of d = Some (dict_of ps) /\
      (forall k, dict_get (dict_of ps) k = last_match ps k) /\
      keys_distinct (dict_of ps) /\ length (dict_of ps) <= length vs.
  Proof.
    cbn. destruct (mapM as_pair vs) as [ps|] eqn:E; [|discriminate].
    destruct (forallb _ ps) eqn:Eh; [|discriminate]. intros [= <-]. exists ps.
    assert (Hh : Forall (fun p => hashable (fst p) = true) ps) by now apply forallb_Forall in Eh.
    split; [reflexivity|]. split; [exact Hh|]. split; [apply as_pair_vpair|].
    split; [intros k; now apply dict_of_later_wins|]. split; [now apply dict_of_distinct|].
    rewrite <- (mapM_length _ _ _ E). unfold dict_of. clear.
    assert (G : forall d, length (fold_left (fun d kv => dict_insert d (fst kv) (snd kv)) ps d) <= length d + length ps).
    { induction ps as [|p r IH]; intros d; cbn; [lia|]. specialize (IH (dict_insert d (fst p) (snd p))).
      pose proof (dict_insert_length d (fst p) (snd p)). lia. }
    apply (G []).
  Qed.

  (** set: the first of each ==-class is kept; every argument is == to a member *)
  Lemma shape_set vs s :
    build CSet vs = Some s ->
    s = VCont CSet fresh_id (dedup vs) /\
    (forall v, In v vs -> exists w, In w (dedup vs) /\ veq w v = true) /\
    (forall w, In w (dedup vs) -> In w vs) /\
    (forall i j a b, nth_error (dedup vs) i = Some a -> nth_error (dedup vs) j = Some b -> veq a b = true -> i = j).
  Proof.
    cbn. destruct (forallb hashable vs) eqn:Eh; [|discriminate]. intros [= <-].
    split; [reflexivity|]. split; [|split].
    - intros v Hv. apply dedup_covers; [now apply forallb_Forall in Eh|exact Hv].
    - apply dedup_In.
    - apply dedup_distinct.
  Qed.

  (** ---- Plan.unpack ---- *)
  Lemma getitem_tuple i0 items i : getitem_val (VCont CTuple i0 items) (Z.of_nat i) = nth_error items i.
  Proof.
    unfold getitem_val. destruct (Z.ltb_spec (Z.of_nat i) 0); [lia|]. now rewrite Nat2Z.id.
  Qed.

  Lemma unpack_items_sem idxs : forall g t g' cs,
    wf g = true -> t < size g -> unpack_items g t idxs = (g', cs) ->
    ext g g' /\ wf g' = true /\
    Forall2 (fun i c => c < size g' /\
                        val_of g' c = match val_of g t with
                                      | Some tv => getitem_val tv (Z.of_nat i)
                                      | None => None
                                      end) idxs cs.
  Proof.
    induction idxs as [|i r IH]; intros g t g' cs Hw Ht H.
    - cbn in H. inversion H; subst. split; [apply ext_refl|]. split; [exact Hw|constructor].
    - change (unpack_items g t (i :: r)) with
        (let '(g1, c) := call g FGetItem [SNode t; int_atom i] [] in
         let '(g2, cs) := unpack_items g1 t r in (g2, c :: cs)) in H.
      destruct (call g FGetItem [SNode t; int_atom i] []) as [g1 c] eqn:E1.
      destruct (unpack_items g1 t r) as [g2 cs'] eqn:E2. inversion H; subst.
      assert (Hc : closed_call (size g) [SNode t; int_atom i] [] = true).
      { assert (Hlt : (t <? size g) = true) by now apply Nat.ltb_lt.
        unfold closed_call, int_atom. cbn [forallb closed]. now rewrite Hlt. }
      destruct (call_struct _ _ _ _ _ _ Hw Hc E1) as (X1 & W1 & N1).
      destruct (call_sem interp _ _ _ _ _ _ Hw Hc E1) as [_ V1].
      assert (Ht1 : t < size g1) by (pose proof (ext_size _ _ X1); lia).
      destruct (IH _ _ _ _ W1 Ht1 E2) as (X2 & W2 & F2).
      split; [exact (ext_trans _ _ _ X1 X2)|]. split; [exact W2|]. constructor.
      + split; [pose proof (ext_size _ _ X2); lia|]. rewrite (val_of_ext interp g1 g' c X2 N1), V1.
        unfold sargvals. cbn. destruct (val_of g t) as [tv|]; reflexivity.
      + eapply Forall2_impl; [|exact F2]. cbn. intros a b [Hb Hv]. split; [exact Hb|].
        now rewrite Hv, (val_of_ext interp g g1 t X1 Ht).
  Qed.

  Lemma Forall2_seq_nth {B} (R : nat -> B -> Prop) n : forall s (cs : list B),
    Forall2 R (seq s n) cs -> length cs = n /\ forall i c, nth_error cs i = Some c -> R (s + i) c.
  Proof.
    induction n as [|n IH]; intros s cs H; cbn in H; inversion H; subst.
    - split; [reflexivity|]. intros i c Hi. destruct i; discriminate.
    - destruct (IH _ _ H4) as [L Hn]. split; [cbn; now rewrite L|].
      intros [|i] c Hi; cbn in Hi.
      + inversion Hi; subst. now rewrite Nat.add_0_r.
      + specialize (Hn i c Hi). now rewrite Nat.add_succ_r.
  Qed.

  (** unpack yields exactly the n items, or every item node fails *)
  Lemma unpack_spec g v n g' hs :
    wf g = true -> closed (size g) v = true -> plan_unpack g v n = (g', hs) ->
    length hs = n /\
    forall i h, nth_error hs i = Some h ->
      val_of g' h =
      match subst (val_of g) v with
      | Some it => match iter_items it with
                   | Some items => if length items =? n then nth_error items i else None
                   | None => None
                   end
      | None => None
      end.
  Proof.
    intros Hw Hc H. unfold plan_unpack in H.
    destruct (call g FUnpack [v; int_atom n] []) as [g1 t] eqn:E1.
    assert (Hcc : closed_call (size g) [v; int_atom n] [] = true).
    { unfold closed_call, int_atom. cbn [forallb closed]. now rewrite Hc. }
    destruct (call_struct _ _ _ _ _ _ Hw Hcc E1) as (X1 & W1 & N1).
    destruct (call_sem interp _ _ _ _ _ _ Hw Hcc E1) as [_ V1].
    destruct (unpack_items_sem _ _ _ _ _ W1 N1 H) as (X2 & W2 & F2).
    destruct (Forall2_seq_nth _ _ _ _ F2) as [L Hn]. split; [exact L|].
    intros i h Hi. destruct (Hn i h Hi) as [_ Hv]. rewrite Hv, V1. cbn [Nat.add].
    unfold sargvals. cbn. destruct (subst (val_of g) v) as [it|]; [|reflexivity]. cbn.
    unfold unpack_val. destruct (iter_items it) as [items|]; [|reflexivity].
    destruct (Nat.eqb_spec (length items) n) as [->|Hne].
    - rewrite Z.eqb_refl. apply getitem_tuple.
    - destruct (Z.eqb_spec (Z.of_nat (length items)) (Z.of_nat n)); [lia|reflexivity].
  Qed.
End Shape.

(** ---- non-vacuity: a concrete program satisfying every hypothesis above ---- *)
Module Examples.
  (* a user function that returns a tuple of what it received (identity 2000+f) *)
  Definition interp (f : nat) (a : list val) (k : list (nat * val)) : option val :=
    Some (VCont CTuple (2000 + f) (a ++ map snd k)).

  Definition p1 := call empty_graph (FUser 0) [SAtom 0 7%Z] [].
  (* {"a": 1, x: "a"}-style collision: key payload 10 twice once x's value is substituted *)
  Definition args2 : list sval :=
    [ SList 5 [SNode (snd p1); SAtom 0 2%Z];                     (* list with a node: rebuilt *)
      SOpaque 6 [SNode (snd p1)];                                (* opaque hiding a node: untouched *)
      SList 7 [SList 8 [SAtom 0 3%Z]; SAtom 0 4%Z];              (* nested, node-free: same object *)
      SDict 9 [(SAtom 0 10%Z, SAtom 0 1%Z); (STuple 11 [SNode (snd p1); SAtom 0 5%Z], SAtom 0 10%Z)] ].
  Definition kw2 : list (nat * sval) := [(3, SAtom 0 3%Z); (2, SSet 12 [SNode (snd p1); SAtom 0 1%Z; SAtom 13 1%Z])].
  Definition p2 := call (fst p1) (FUser 1) args2 kw2.

  Example hyps_hold : wf (fst p1) = true /\ closed_call (size (fst p1)) args2 kw2 = true.
  Proof. split; reflexivity. Qed.

  Example received_ok :
    received interp (fst p2) (snd p2) =
    Some ([ VCont CList 0 [VCont CTuple 2000 [Atom 0 7]; Atom 0 2];
            VCont COpaque 6 [node_obj 1];
            VCont CList 7 [VCont CList 8 [Atom 0 3]; Atom 0 4];
            VDict 0 [(Atom 0 10, Atom 0 1); (VCont CTuple 0 [VCont CTuple 2000 [Atom 0 7]; Atom 0 5], Atom 0 10)] ],
          [ (3, Atom 0 3); (2, VCont CSet 0 [VCont CTuple 2000 [Atom 0 7]; Atom 0 1]) ]).
  Proof. vm_compute. reflexivity. Qed.

  (* colliding keys: {10: 1, lit 10: 5} -> one entry, the later value *)
  Example collision :
    build CDict [vpair (Atom 1 10) (Atom 0 1); vpair (Atom 2 10) (Atom 0 5)] = Some (VDict 0 [(Atom 1 10, Atom 0 5)]).
  Proof. reflexivity. Qed.

  (* run(output=[y, {"k": y}]) under two different valid orders *)
  Definition out := gather (fst p2) (SList 20 [SNode (snd p2); SDict 21 [(SAtom 0 30%Z, SNode (snd p2))]]).
  Definition calls_of (g : graph) : list nat := filter (is_call g) (seq 0 (size g)).

  Example valid_orders :
    after_args (fst out) [] (calls_of (fst out)) = true /\
    after_args (fst out) [] [1; 15; 7; 9; 11; 3; 16; 18; 19; 20]%nat = true /\
    run_result interp (fst out) (calls_of (fst out)) (snd out) =
      subst (val_of interp (fst p2)) (SList 20 [SNode (snd p2); SDict 21 [(SAtom 0 30%Z, SNode (snd p2))]]) /\
    run_result interp (fst out) [1; 15; 7; 9; 11; 3; 16; 18; 19; 20]%nat (snd out) <> None.
  Proof. vm_compute. repeat split; discriminate. Qed.

  (* unpack: right length gives the items, wrong length fails *)
  Definition u3 := plan_unpack (fst p2) (SNode (snd p2)) 6.
  Definition u2 := plan_unpack (fst p2) (SNode (snd p2)) 2.
  Example unpack_ok :
    map (val_of interp (fst u3)) (snd u3) <> [None; None; None; None; None; None] /\
    length (snd u3) = 6 /\ map (val_of interp (fst u2)) (snd u2) = [None; None].
  Proof. vm_compute. repeat split; discriminate. Qed.
End Examples.
