(** Evaluating the graph that gathering builds = substituting node values into the symbolic value.
    Independence of the evaluation order. *)
From Coq Require Import List Arith ZArith Bool Lia.
Import ListNotations.
From UJ Require Import Plan.Values Plan.ValuesProofs Plan.Gather Plan.GatherProofs Plan.Eval.

Lemma filter_none {A} (p : A -> bool) l : (forall x, In x l -> p x = false) -> filter p l = [].
Proof.
  induction l as [|a r IH]; intros H; cbn; [reflexivity|].
  rewrite (H a (or_introl eq_refl)). apply IH. intros x Hx. apply H. now right.
Qed.

Lemma filter_all {A} (p : A -> bool) l : (forall x, In x l -> p x = true) -> filter p l = l.
Proof.
  induction l as [|a r IH]; intros H; cbn; [reflexivity|].
  rewrite (H a (or_introl eq_refl)). f_equal. apply IH. intros x Hx. apply H. now right.
Qed.

Lemma Forall2_impl_l {A B} (P : A -> Prop) (R R' : A -> B -> Prop) l m :
  Forall P l -> (forall a b, P a -> R a b -> R' a b) -> Forall2 R l m -> Forall2 R' l m.
Proof.
  intros HP Himp H. induction H as [|a b l m Hab _ IH]; constructor.
  - apply Himp; [now inversion HP|exact Hab].
  - apply IH. now inversion HP.
Qed.

Lemma Forall2_impl {A B} (R R' : A -> B -> Prop) l m :
  (forall a b, R a b -> R' a b) -> Forall2 R l m -> Forall2 R' l m.
Proof. intros Himp H. induction H; constructor; auto. Qed.

Lemma forallb_Forall {A} (p : A -> bool) l : forallb p l = true -> Forall (fun x => p x = true) l.
Proof. intros H. apply Forall_forall. now apply forallb_forall. Qed.

Section Sem.
  Variable interp : nat -> list val -> list (nat * val) -> option val.

  Notation tab := (tab interp).
  Notation val_of := (val_of interp).
  Notation eval_node := (eval_node interp).
  Notation received := (received interp).
  Notation apply_fn := (apply_fn interp).

  (** ---- the value table ---- *)
  Lemma tab_length g n : length (tab g n) = n.
  Proof. induction n as [|m IH]; cbn; [reflexivity|]. rewrite app_length, IH. cbn. lia. Qed.

  Lemma tab_nth g m : forall a, a < m -> nth_error (tab g m) a = Some (eval_node g (tab g a) a).
  Proof.
    induction m as [|m IH]; intros a Ha; [lia|]. cbn.
    destruct (Nat.eq_dec a m) as [->|Hne].
    - rewrite nth_error_app2 by (rewrite tab_length; lia). rewrite tab_length, Nat.sub_diag. reflexivity.
    - rewrite nth_error_app1 by (rewrite tab_length; lia). apply IH. lia.
  Qed.

  Lemma val_of_eq g a : val_of g a = eval_node g (tab g a) a.
  Proof.
    unfold Eval.val_of, look_tab. rewrite tab_nth by lia. now destruct (eval_node g (tab g a) a).
  Qed.

  Lemma look_tab_val g m a : a < m -> look_tab (tab g m) a = val_of g a.
  Proof.
    intros Ha. unfold look_tab. rewrite tab_nth by exact Ha. rewrite val_of_eq.
    now destruct (eval_node g (tab g a) a).
  Qed.

  Lemma argvals_ext look look' a k :
    (forall n, In n a -> look n = look' n) -> (forall n, In n (map snd k) -> look n = look' n) ->
    argvals look a k = argvals look' a k.
  Proof.
    intros Ha Hk. unfold argvals, lookup_kws. rewrite (mapM_ext look look' a Ha).
    replace (mapM (fun kn => match look (snd kn) with Some v => Some (fst kn, v) | None => None end) k)
      with (mapM (fun kn => match look' (snd kn) with Some v => Some (fst kn, v) | None => None end) k).
    - reflexivity.
    - apply mapM_ext. intros x Hx. rewrite (Hk (snd x)); [reflexivity|]. now apply in_map.
  Qed.

  (** ---- growing the graph does not change the value of an existing node ---- *)
  Lemma in_edges_ext g g' c : ext g g' -> c < size g -> in_edges g' c = in_edges g c.
  Proof.
    intros (ns & es & Hn & He & Hd) Hc. unfold in_edges. rewrite He, filter_app.
    rewrite (filter_none _ es), app_nil_r; [reflexivity|].
    intros e Hin. rewrite Forall_forall in Hd. specialize (Hd e Hin). apply Nat.eqb_neq. lia.
  Qed.

  Lemma get_args_ext g g' c : ext g g' -> c < size g -> get_args g' c = get_args g c.
  Proof. intros X Hc. unfold get_args. now rewrite (in_edges_ext g g' c X Hc). Qed.

  Lemma nodes_ext g g' c : ext g g' -> c < size g -> nth_error (nodes g') c = nth_error (nodes g) c.
  Proof. intros (ns & es & Hn & _) Hc. rewrite Hn. now apply nth_error_app1. Qed.

  Lemma eval_node_ext g g' acc m : ext g g' -> m < size g -> eval_node g' acc m = eval_node g acc m.
  Proof.
    intros X Hm. unfold Eval.eval_node, received_with.
    now rewrite (nodes_ext g g' m X Hm), (get_args_ext g g' m X Hm).
  Qed.

  Lemma tab_ext g g' n : ext g g' -> n <= size g -> tab g' n = tab g n.
  Proof.
    intros X. induction n as [|m IH]; intros Hn; cbn; [reflexivity|].
    rewrite IH by lia. now rewrite (eval_node_ext g g' _ m X) by lia.
  Qed.

  Lemma val_of_ext g g' n : ext g g' -> n < size g -> val_of g' n = val_of g n.
  Proof. intros X Hn. unfold Eval.val_of. now rewrite (tab_ext g g' (S n) X) by lia. Qed.

  (** ---- get_argument_nodes on a call wired by Plan._call ---- *)
  Lemma pos_src_pos c i l : forall s acc,
    fold_left (fun acc e => match key e with Pos j => if j =? i then Some (src e) else acc | _ => acc end)
              (pos_edges c s l) acc =
    if s <=? i then match nth_error l (i - s) with Some a => Some a | None => acc end else acc.
  Proof.
    induction l as [|a r IH]; intros s acc.
    - cbn. destruct (s <=? i); [|reflexivity]. now destruct (i - s).
    - cbn [pos_edges fold_left key src]. rewrite IH. destruct (Nat.leb_spec s i) as [Hle|Hgt].
      + destruct (Nat.eqb_spec s i) as [->|Hne].
        * rewrite Nat.sub_diag. cbn [nth_error]. destruct (Nat.leb_spec (S i) i); [lia|reflexivity].
        * destruct (Nat.leb_spec (S s) i); [|lia].
          replace (i - s) with (S (i - S s)) by lia. reflexivity.
      + destruct (Nat.leb_spec (S s) i); [lia|]. destruct (Nat.eqb_spec s i); [lia|reflexivity].
  Qed.

  Lemma pos_src_kw c i l : forall s acc,
    fold_left (fun acc e => match key e with Pos j => if j =? i then Some (src e) else acc | _ => acc end)
              (kw_edges c s l) acc = acc.
  Proof. induction l as [|[name a] r IH]; intros s acc; cbn; [reflexivity|apply IH]. Qed.

  Lemma kw_src_kw c i l : forall s acc,
    fold_left (fun acc e => match key e with Kw name j => if j =? i then Some (name, src e) else acc | _ => acc end)
              (kw_edges c s l) acc =
    if s <=? i then match nth_error l (i - s) with Some na => Some na | None => acc end else acc.
  Proof.
    induction l as [|[name a] r IH]; intros s acc.
    - cbn. destruct (s <=? i); [|reflexivity]. now destruct (i - s).
    - cbn [kw_edges fold_left key src]. rewrite IH. destruct (Nat.leb_spec s i) as [Hle|Hgt].
      + destruct (Nat.eqb_spec s i) as [->|Hne].
        * rewrite Nat.sub_diag. cbn [nth_error]. destruct (Nat.leb_spec (S i) i); [lia|reflexivity].
        * destruct (Nat.leb_spec (S s) i); [|lia].
          replace (i - s) with (S (i - S s)) by lia. reflexivity.
      + destruct (Nat.leb_spec (S s) i); [lia|]. destruct (Nat.eqb_spec s i); [lia|reflexivity].
  Qed.

  Lemma kw_src_pos c i l : forall s acc,
    fold_left (fun acc e => match key e with Kw name j => if j =? i then Some (name, src e) else acc | _ => acc end)
              (pos_edges c s l) acc = acc.
  Proof. induction l as [|a r IH]; intros s acc; cbn; [reflexivity|apply IH]. Qed.

  Lemma mapM_seq_nth {A} (l : list A) : forall s,
    mapM (fun i => nth_error l (i - s)) (seq s (length l)) = Some l.
  Proof.
    induction l as [|a r IH]; intros s; cbn; [reflexivity|].
    rewrite Nat.sub_diag. cbn.
    rewrite (mapM_ext _ (fun i => nth_error r (i - S s))).
    - now rewrite IH.
    - intros x Hx. apply in_seq in Hx. replace (x - s) with (S (x - S s)) by lia. reflexivity.
  Qed.

  Lemma mapM_nth_seq {A} (l : list A) : mapM (nth_error l) (seq 0 (length l)) = Some l.
  Proof.
    transitivity (mapM (fun i => nth_error l (i - 0)) (seq 0 (length l))); [|apply mapM_seq_nth].
    apply mapM_ext. intros x _. now rewrite Nat.sub_0_r.
  Qed.

  Lemma filter_pos_edges c l : forall s,
    filter is_pos (pos_edges c s l) = pos_edges c s l /\ filter is_kw (pos_edges c s l) = [] /\
    length (pos_edges c s l) = length l.
  Proof.
    induction l as [|a r IH]; intros s; [cbn; auto|]. destruct (IH (S s)) as (H1 & H2 & H3).
    cbn [pos_edges].
    assert (E1 : is_pos (mkedge a c (Pos s)) = true) by reflexivity.
    assert (E2 : is_kw (mkedge a c (Pos s)) = false) by reflexivity.
    cbn [filter length]. rewrite E1, E2, H1, H2, H3. auto.
  Qed.

  Lemma filter_kw_edges c l : forall s,
    filter is_kw (kw_edges c s l) = kw_edges c s l /\ filter is_pos (kw_edges c s l) = [] /\
    length (kw_edges c s l) = length l.
  Proof.
    induction l as [|[name a] r IH]; intros s; [cbn; auto|]. destruct (IH (S s)) as (H1 & H2 & H3).
    cbn [kw_edges].
    assert (E1 : is_pos (mkedge a c (Kw name s)) = false) by reflexivity.
    assert (E2 : is_kw (mkedge a c (Kw name s)) = true) by reflexivity.
    cbn [filter length]. rewrite E1, E2, H1, H2, H3. auto.
  Qed.

  Lemma idx_ok_pos c np nk l : forall s, s + length l <= np ->
    forallb (idx_ok np nk) (pos_edges c s l) = true.
  Proof.
    induction l as [|a r IH]; intros s Hs; cbn in *; [reflexivity|].
    rewrite IH by lia. unfold idx_ok. cbn. rewrite andb_true_r. apply Nat.ltb_lt. lia.
  Qed.

  Lemma idx_ok_kw c np nk l : forall s, s + length l <= nk ->
    forallb (idx_ok np nk) (kw_edges c s l) = true.
  Proof.
    induction l as [|[name a] r IH]; intros s Hs; cbn in *; [reflexivity|].
    rewrite IH by lia. unfold idx_ok. cbn. rewrite andb_true_r. apply Nat.ltb_lt. lia.
  Qed.

  Lemma get_args_wired c args kws :
    let es := pos_edges c 0 args ++ kw_edges c 0 kws in
    (let np := length (filter is_pos es) in
     let nk := length (filter is_kw es) in
     if forallb (idx_ok np nk) es then
       match mapM (pos_src es) (seq 0 np), mapM (kw_src es) (seq 0 nk) with
       | Some a, Some k => Some (a, k)
       | _, _ => None
       end
     else None) = Some (args, kws).
  Proof.
    intros es. subst es.
    destruct (filter_pos_edges c args 0) as (P1 & P2 & P3).
    destruct (filter_kw_edges c kws 0) as (K1 & K2 & K3).
    rewrite !filter_app, P1, P2, K1, K2, app_nil_r. cbn [app]. rewrite P3, K3.
    rewrite forallb_app, idx_ok_pos, idx_ok_kw by (cbn; lia). cbn [andb].
    rewrite (mapM_ext (pos_src _) (nth_error args)).
    2:{ intros i _. unfold pos_src. rewrite fold_left_app, pos_src_kw, pos_src_pos. cbn.
        rewrite Nat.sub_0_r. now destruct (nth_error args i). }
    rewrite (mapM_ext (kw_src _) (nth_error kws)).
    2:{ intros i _. unfold kw_src. rewrite fold_left_app, kw_src_pos, kw_src_kw. cbn.
        rewrite Nat.sub_0_r. now destruct (nth_error kws i). }
    now rewrite !mapM_nth_seq.
  Qed.

  Lemma in_edges_add_call g f args kws :
    wf g = true ->
    in_edges (fst (add_call g f args kws)) (size g) = pos_edges (size g) 0 args ++ kw_edges (size g) 0 kws.
  Proof.
    intros Hw. unfold in_edges. cbn. rewrite filter_app. fold (size g).
    rewrite filter_none, filter_all; [reflexivity| |].
    - intros e He. apply Nat.eqb_eq. apply in_app_or in He as [He|He].
      + now apply pos_edges_spec in He as [-> _].
      + now apply kw_edges_spec in He as [-> _].
    - intros e He. pose proof (proj1 (wf_spec g) Hw e He). apply Nat.eqb_neq. unfold size in *. lia.
  Qed.

  Lemma get_args_add_call g f args kws :
    wf g = true -> get_args (fst (add_call g f args kws)) (size g) = Some (args, kws).
  Proof.
    intros Hw. unfold get_args. rewrite in_edges_add_call by exact Hw. apply get_args_wired.
  Qed.

  (** ---- value of a call node / a literal node ---- *)
  Lemma val_of_call g c f a k :
    nth_error (nodes g) c = Some (KCall f) -> get_args g c = Some (a, k) ->
    all_lt c a -> all_lt c (map snd k) ->
    val_of g c = match argvals (val_of g) a k with
                 | Some (vs, kvs) => apply_fn f vs kvs
                 | None => None
                 end.
  Proof.
    intros Hn Hg Ha Hk. rewrite val_of_eq. unfold Eval.eval_node, received_with. rewrite Hn, Hg.
    rewrite (argvals_ext (look_tab (tab g c)) (val_of g)); [reflexivity| |].
    - intros n Hin. apply look_tab_val. unfold all_lt in Ha. rewrite Forall_forall in Ha. now apply Ha.
    - intros n Hin. apply look_tab_val. unfold all_lt in Hk. rewrite Forall_forall in Hk. now apply Hk.
  Qed.

  Lemma val_of_lit g c v : nth_error (nodes g) c = Some (KLit v) -> val_of g c = Some v.
  Proof. intros Hn. rewrite val_of_eq. unfold Eval.eval_node. now rewrite Hn. Qed.

  Lemma add_lit_val g v : val_of (fst (add_lit g v)) (size g) = Some v.
  Proof.
    apply val_of_lit. cbn. unfold size. rewrite nth_error_app2 by lia. now rewrite Nat.sub_diag.
  Qed.

  Lemma add_call_received g f args kws :
    wf g = true -> all_lt (size g) args -> all_lt (size g) (map snd kws) ->
    received (fst (add_call g f args kws)) (size g) = argvals (val_of g) args kws.
  Proof.
    intros Hw Ha Hk. unfold Eval.received, received_with. rewrite get_args_add_call by exact Hw.
    unfold all_lt in *. rewrite Forall_forall in Ha, Hk.
    apply argvals_ext; intros n Hin; apply val_of_ext; auto using add_call_ext.
  Qed.

  Lemma add_call_val g f args kws :
    wf g = true -> all_lt (size g) args -> all_lt (size g) (map snd kws) ->
    val_of (fst (add_call g f args kws)) (size g) =
    match argvals (val_of g) args kws with
    | Some (vs, kvs) => apply_fn f vs kvs
    | None => None
    end.
  Proof.
    intros Hw Ha Hk. rewrite (val_of_call _ (size g) f args kws).
    - rewrite (argvals_ext _ (val_of g) args kws); [reflexivity| |];
        unfold all_lt in *; rewrite Forall_forall in Ha, Hk;
        intros n Hin; apply val_of_ext; auto using add_call_ext.
    - cbn. unfold size. rewrite nth_error_app2 by lia. now rewrite Nat.sub_diag.
    - now apply get_args_add_call.
    - exact Ha.
    - exact Hk.
  Qed.

  (** ---- subst ---- *)
  Lemma subst_no_vis env v : vis_node v = false -> subst env v = Some (freeze v).
  Proof.
    destruct v as [n|i p|k i items]; cbn; [discriminate|reflexivity|]. now intros ->.
  Qed.

  Lemma subst_env_ext b env env' v :
    (forall n, n < b -> env n = env' n) -> closed b v = true -> subst env v = subst env' v.
  Proof.
    intros He. induction v as [n|i p|k i items IH] using sval_ind'; cbn; intros Hc.
    - apply He. now apply Nat.ltb_lt.
    - reflexivity.
    - destruct (gatherable k); cbn in *; [|reflexivity].
      destruct (existsb vis_node items); [|reflexivity].
      rewrite (mapM_ext (subst env) (subst env') items); [reflexivity|].
      intros x Hx. rewrite Forall_forall in IH. apply IH; [exact Hx|].
      rewrite forallb_forall in Hc. now apply Hc.
  Qed.

  (** ---- what recurse / as_nodes compute ---- *)
  Definition sem_out (env : nat -> option val) (g' : graph) (x x' : sval) : Prop :=
    (vis_node x = false /\ x' = x) \/
    (vis_node x = true /\ exists c, x' = SNode c /\ c < size g' /\ val_of g' c = subst env x).

  Lemma sem_out_ext env g1 g2 x x' : ext g1 g2 -> sem_out env g1 x x' -> sem_out env g2 x x'.
  Proof.
    intros X [H|(H & c & -> & Hc & Hv)]; [now left|]. right. split; [exact H|]. exists c.
    split; [reflexivity|]. split; [pose proof (ext_size _ _ X); lia|].
    now rewrite (val_of_ext g1 g2 c X Hc).
  Qed.

  Lemma sem_out_env b env env' g x x' :
    (forall n, n < b -> env n = env' n) -> closed b x = true -> sem_out env g x x' -> sem_out env' g x x'.
  Proof.
    intros He Hc [H|(H & c & -> & Hlt & Hv)]; [now left|]. right. split; [exact H|]. exists c.
    split; [reflexivity|]. split; [exact Hlt|]. now rewrite <- (subst_env_ext b env env' x He Hc).
  Qed.

  Definition recurse_sem_stmt (v : sval) : Prop :=
    forall g g' r, wf g = true -> closed (size g) v = true -> recurse v g = (g', r) ->
      sem_out (val_of g) g' v r.

  Lemma all_recurse_struct items : Forall recurse_struct_stmt items.
  Proof. apply Forall_forall. intros x _. apply recurse_struct. Qed.

  Lemma recurse_list_sem items :
    Forall recurse_sem_stmt items ->
    forall g g' rs, wf g = true -> forallb (closed (size g)) items = true ->
      recurse_list items g = (g', rs) -> Forall2 (sem_out (val_of g) g') items rs.
  Proof.
    induction 1 as [|x r Hx Hr IH]; intros g g' rs Hw Hc H; cbn in H.
    - inversion H; subst. constructor.
    - destruct (recurse x g) as [ga x'] eqn:Ea. destruct (recurse_list r ga) as [gb r'] eqn:Eb.
      inversion H; subst. cbn in Hc. apply andb_true_iff in Hc as [Hc1 Hc2].
      destruct (recurse_struct x _ _ _ Hw Hc1 Ea) as (X1 & W1 & _ & _).
      assert (Hc2' : forallb (closed (size ga)) r = true).
      { rewrite forallb_forall in *. intros y Hy. eapply closed_mono; [|apply Hc2, Hy]. now apply ext_size. }
      destruct (recurse_list_struct r (all_recurse_struct r) _ _ _ W1 Hc2' Eb) as (X2 & _ & _ & _).
      constructor.
      + eapply sem_out_ext; [exact X2|]. now apply Hx.
      + eapply Forall2_impl_l; [| |exact (IH _ _ _ W1 Hc2' Eb)].
        * apply (forallb_Forall _ _ Hc2).
        * cbn. intros a b Ha Hab. eapply sem_out_env; [|exact Ha|exact Hab].
          intros n Hn. now apply val_of_ext.
  Qed.

  Definition node_val (env : nat -> option val) (g' : graph) (x : sval) (n : nat) : Prop :=
    n < size g' /\ val_of g' n = subst env x.

  Lemma node_val_ext env g1 g2 x n : ext g1 g2 -> node_val env g1 x n -> node_val env g2 x n.
  Proof.
    intros X [Hn Hv]. split; [pose proof (ext_size _ _ X); lia|]. now rewrite (val_of_ext g1 g2 n X Hn).
  Qed.

  Lemma sem_out_node_ok env g x x' : sem_out env g x x' -> node_ok (size g) x'.
  Proof.
    intros [(H & ->)|(H & c & -> & Hc & _)]; cbn; [|exact Hc]. destruct x; cbn in *; auto. discriminate.
  Qed.

  Lemma as_node_sem env g x x' g' n :
    wf g = true -> sem_out env g x x' -> as_node g x' = (g', n) -> node_val env g' x n.
  Proof.
    intros Hw [(H & ->)|(H & c & -> & Hc & Hv)] E.
    - assert (E' : add_lit g (freeze x) = (g', n)) by (destruct x; [discriminate|exact E|exact E]).
      assert (Eg : g' = fst (add_lit g (freeze x))) by now rewrite E'.
      assert (En : n = size g) by (unfold add_lit in E'; now inversion E'). subst g' n.
      split; [rewrite add_lit_size; lia|]. rewrite add_lit_val. symmetry. now apply subst_no_vis.
    - cbn in E. inversion E; subst. now split.
  Qed.

  Lemma as_nodes_sem env items : forall children g g' ns,
    wf g = true -> Forall2 (sem_out env g) items children -> as_nodes g children = (g', ns) ->
    Forall2 (node_val env g') items ns.
  Proof.
    induction items as [|x r IH]; intros children g g' ns Hw H2 E; inversion H2 as [|? x' ? r' Hx Hr]; subst.
    - cbn in E. inversion E; subst. constructor.
    - cbn in E. destruct (as_node g x') as [g1 n] eqn:E1. destruct (as_nodes g1 r') as [g2 ns'] eqn:E2.
      inversion E; subst.
      destruct (as_node_struct _ _ _ _ Hw (sem_out_node_ok _ _ _ _ Hx) E1) as (X1 & W1 & _).
      assert (Hr' : Forall2 (sem_out env g1) r r').
      { eapply Forall2_impl; [|exact Hr]. intros a b. now apply sem_out_ext. }
      assert (Hok : Forall (node_ok (size g1)) r').
      { clear - Hr'. induction Hr'; constructor; auto. eapply sem_out_node_ok; eauto. }
      destruct (as_nodes_struct _ _ _ _ W1 Hok E2) as (X2 & _).
      constructor.
      + eapply node_val_ext; [exact X2|]. exact (as_node_sem env g x x' g1 n Hw Hx E1).
      + exact (IH r' g1 g' ns' W1 Hr' E2).
  Qed.

  Lemma node_val_mapM env g items ns :
    Forall2 (node_val env g) items ns -> mapM (val_of g) ns = mapM (subst env) items.
  Proof.
    intros H. symmetry. apply mapM_Forall2. eapply Forall2_impl; [|exact H].
    intros a b [_ Hv]. now rewrite Hv.
  Qed.

  Lemma node_val_lt env g items ns : Forall2 (node_val env g) items ns -> all_lt (size g) ns.
  Proof. induction 1 as [|a b l m [Hn _] _ IH]; constructor; auto. Qed.

  Lemma recurse_sem v : recurse_sem_stmt v.
  Proof.
    induction v as [n|i p|k i items IH] using sval_ind'; intros g g' r Hw Hc H.
    - cbn in H. inversion H; subst. cbn in Hc. apply Nat.ltb_lt in Hc.
      right. split; [reflexivity|]. exists n. auto.
    - cbn in H. inversion H; subst. now left.
    - destruct (recurse_struct (SCont k i items) _ _ _ Hw Hc H) as (X & W & O & U).
      destruct O as [(Hv & ->)|(Hv & c & -> & Hlt)]; [now left|].
      right. split; [exact Hv|]. exists c. split; [reflexivity|]. split; [exact Hlt|].
      rewrite recurse_cont in H. cbn in Hc, Hv. destruct (gatherable k) eqn:Gk; [|discriminate].
      cbn in Hc, Hv.
      destruct (recurse_list items g) as [g1 children] eqn:E1.
      destruct (recurse_list_struct items (all_recurse_struct items) _ _ _ Hw Hc E1) as (X1 & W1 & O1 & _).
      pose proof (recurse_list_sem items IH _ _ _ Hw Hc E1) as S1.
      assert (En : existsb is_node children = true).
      { rewrite <- Hv. eapply Forall2_existsb; [exact O1|]. intros a b. apply rec_out_is_node. }
      rewrite En in H.
      destruct (as_nodes g1 children) as [g2 ns] eqn:E2.
      pose proof (as_nodes_sem _ _ _ _ _ _ W1 S1 E2) as S2.
      assert (Hok : Forall (node_ok (size g1)) children).
      { clear - O1. induction O1; constructor; auto. eapply rec_out_node_ok; eauto. }
      destruct (as_nodes_struct _ _ _ _ W1 Hok E2) as (X2 & W2 & N2 & _).
      destruct (add_call g2 (FGather k) ns []) as [g3 c'] eqn:E3. inversion H; subst.
      assert (Ec : c = size g2) by (unfold add_call in E3; now inversion E3).
      assert (Eg : g' = fst (add_call g2 (FGather k) ns [])) by now rewrite E3.
      rewrite Eg, Ec. rewrite add_call_val; [|exact W2|exact N2|constructor].
      unfold argvals. cbn [lookup_kws mapM]. rewrite (node_val_mapM _ _ _ _ S2).
      cbn [subst]. rewrite Gk, Hv. cbn [andb].
      destruct (mapM (subst (val_of g)) items); reflexivity.
  Qed.

  (** ---- Plan._gather: the node it returns evaluates to subst of the value ---- *)
  Lemma gather_sem g v g' n :
    wf g = true -> closed (size g) v = true -> gather g v = (g', n) ->
    node_val (val_of g) g' v n.
  Proof.
    intros Hw Hc H. unfold gather in H. destruct (recurse v g) as [g1 r] eqn:E1.
    destruct (recurse_struct v _ _ _ Hw Hc E1) as (X1 & W1 & _ & _).
    pose proof (recurse_sem v _ _ _ Hw Hc E1) as S1.
    eapply as_node_sem; eauto.
  Qed.

  Lemma gather_list_sem vs : forall g g' ns,
    wf g = true -> forallb (closed (size g)) vs = true -> gather_list g vs = (g', ns) ->
    Forall2 (node_val (val_of g) g') vs ns.
  Proof.
    induction vs as [|v r IH]; intros g g' ns Hw Hc H; cbn in H.
    - inversion H; subst. constructor.
    - destruct (gather g v) as [g1 n] eqn:E1. destruct (gather_list g1 r) as [g2 ns'] eqn:E2.
      inversion H; subst. cbn in Hc. apply andb_true_iff in Hc as [Hc1 Hc2].
      destruct (gather_struct _ _ _ _ Hw Hc1 E1) as (X1 & W1 & N1).
      assert (Hc2' : forallb (closed (size g1)) r = true).
      { rewrite forallb_forall in *. intros y Hy. eapply closed_mono; [|apply Hc2, Hy]. now apply ext_size. }
      destruct (gather_list_struct _ _ _ _ W1 Hc2' E2) as (X2 & _).
      constructor.
      + eapply node_val_ext; [exact X2|]. now apply gather_sem.
      + eapply Forall2_impl_l; [| |exact (IH _ _ _ W1 Hc2' E2)].
        * apply (forallb_Forall _ _ Hc2).
        * cbn. intros a b Ha [Hb Hv]. split; [exact Hb|]. rewrite Hv.
          apply (subst_env_ext (size g)); [|exact Ha]. intros m Hm. now apply val_of_ext.
  Qed.

  Definition kw_val (env : nat -> option val) (g' : graph) (kv : nat * sval) (kn : nat * nat) : Prop :=
    fst kn = fst kv /\ node_val env g' (snd kv) (snd kn).

  Lemma gather_kws_sem kws : forall g g' ks,
    wf g = true -> forallb (fun kv => closed (size g) (snd kv)) kws = true -> gather_kws g kws = (g', ks) ->
    Forall2 (kw_val (val_of g) g') kws ks.
  Proof.
    induction kws as [|[name v] r IH]; intros g g' ks Hw Hc H; cbn in H.
    - inversion H; subst. constructor.
    - destruct (gather g v) as [g1 n] eqn:E1. destruct (gather_kws g1 r) as [g2 ks'] eqn:E2.
      inversion H; subst. cbn in Hc. apply andb_true_iff in Hc as [Hc1 Hc2].
      destruct (gather_struct _ _ _ _ Hw Hc1 E1) as (X1 & W1 & N1).
      assert (Hc2' : forallb (fun kv => closed (size g1) (snd kv)) r = true).
      { rewrite forallb_forall in *. intros y Hy. eapply closed_mono; [|apply Hc2, Hy]. now apply ext_size. }
      destruct (gather_kws_struct _ _ _ _ W1 Hc2' E2) as (X2 & _).
      constructor.
      + split; [reflexivity|]. cbn. eapply node_val_ext; [exact X2|]. now apply gather_sem.
      + eapply Forall2_impl_l; [| |exact (IH _ _ _ W1 Hc2' E2)].
        * apply (forallb_Forall _ _ Hc2).
        * cbn. intros a b Ha [Hf [Hb Hv]]. split; [exact Hf|]. split; [exact Hb|]. rewrite Hv.
          apply (subst_env_ext (size g)); [|exact Ha]. intros m Hm. now apply val_of_ext.
  Qed.

  Lemma call_sem g f args kwargs g' c :
    wf g = true -> closed_call (size g) args kwargs = true -> call g f args kwargs = (g', c) ->
    received g' c = sargvals (val_of g) args kwargs /\
    val_of g' c = match sargvals (val_of g) args kwargs with
                  | Some (vs, kvs) => apply_fn f vs kvs
                  | None => None
                  end.
  Proof.
    intros Hw Hc H. unfold call in H. apply andb_true_iff in Hc as [Hc1 Hc2].
    destruct (gather_list g args) as [g1 ns] eqn:E1. destruct (gather_kws g1 kwargs) as [g2 ks] eqn:E2.
    destruct (gather_list_struct _ _ _ _ Hw Hc1 E1) as (X1 & W1 & N1 & _).
    assert (Hc2' : forallb (fun kv => closed (size g1) (snd kv)) kwargs = true).
    { rewrite forallb_forall in *. intros y Hy. eapply closed_mono; [|apply Hc2, Hy]. now apply ext_size. }
    destruct (gather_kws_struct _ _ _ _ W1 Hc2' E2) as (X2 & W2 & N2 & _).
    pose proof (gather_list_sem _ _ _ _ Hw Hc1 E1) as S1.
    pose proof (gather_kws_sem _ _ _ _ W1 Hc2' E2) as S2.
    assert (S1' : Forall2 (node_val (val_of g) g2) args ns).
    { eapply Forall2_impl; [|exact S1]. intros a b. now apply node_val_ext. }
    assert (S2' : Forall2 (kw_val (val_of g) g2) kwargs ks).
    { eapply Forall2_impl_l; [| |exact S2].
      - apply (forallb_Forall _ _ Hc2).
      - cbn. intros a b Ha [Hf [Hb Hv]]. split; [exact Hf|]. split; [exact Hb|]. rewrite Hv.
        apply (subst_env_ext (size g)); [|exact Ha]. intros m Hm. now apply val_of_ext. }
    assert (N1' : all_lt (size g2) ns) by (eapply node_val_lt; eauto).
    assert (Ec : c = size g2) by (unfold add_call in H; now inversion H).
    assert (Eg : g' = fst (add_call g2 f ns ks)) by now rewrite H.
    assert (EA : argvals (val_of g2) ns ks = sargvals (val_of g) args kwargs).
    { unfold argvals, sargvals, lookup_kws. rewrite (node_val_mapM _ _ _ _ S1').
      replace (mapM (fun kn => match val_of g2 (snd kn) with Some v => Some (fst kn, v) | None => None end) ks)
        with (mapM (fun kv => match subst (val_of g) (snd kv) with Some v => Some (fst kv, v) | None => None end) kwargs);
        [reflexivity|].
      apply mapM_Forall2. eapply Forall2_impl; [|exact S2']. intros a b [Hf [_ Hv]]. now rewrite Hv, Hf. }
    rewrite Eg, Ec. rewrite add_call_received, add_call_val by auto. now rewrite EA.
  Qed.

  (** ---- evaluation order ---- *)
  Lemma fold_src_in (es : list edge) i : forall acc a,
    fold_left (fun acc e => match key e with Pos j => if j =? i then Some (src e) else acc | _ => acc end) es acc = Some a ->
    acc = Some a \/ exists e, In e es /\ src e = a.
  Proof.
    induction es as [|e r IH]; intros acc a; cbn; [auto|].
    intros H. destruct (IH _ _ H) as [Hacc|(e' & He' & Hs)].
    - destruct (key e); [|auto]. destruct (i0 =? i); [|auto]. inversion Hacc; subst. right. exists e. auto.
    - right. exists e'. auto.
  Qed.

  Lemma fold_kw_in (es : list edge) i : forall acc na,
    fold_left (fun acc e => match key e with Kw name j => if j =? i then Some (name, src e) else acc | _ => acc end) es acc = Some na ->
    acc = Some na \/ exists e, In e es /\ src e = snd na.
  Proof.
    induction es as [|e r IH]; intros acc na; cbn; [auto|].
    intros H. destruct (IH _ _ H) as [Hacc|(e' & He' & Hs)].
    - destruct (key e); [auto|]. destruct (idx =? i); [|auto]. inversion Hacc; subst. right. exists e. auto.
    - right. exists e'. auto.
  Qed.

  Lemma mapM_all_in {A B} (f : A -> option B) l ys y :
    mapM f l = Some ys -> In y ys -> exists x, In x l /\ f x = Some y.
  Proof.
    revert ys; induction l as [|a r IH]; intros ys; cbn.
    - intros [= <-] [].
    - destruct (f a) eqn:Ea; [|discriminate]. destruct (mapM f r) eqn:E; [|discriminate].
      intros [= <-] [<-|Hin]; [eauto|]. destruct (IH _ eq_refl Hin) as (x & Hx & Hf). eauto.
  Qed.

  (** in a well-formed graph every argument node has a smaller number than the call *)
  Lemma get_args_lt g c a k :
    wf g = true -> get_args g c = Some (a, k) -> all_lt c a /\ all_lt c (map snd k).
  Proof.
    intros Hw H. unfold get_args in H.
    destruct (forallb _ _); [|discriminate].
    destruct (mapM (pos_src _) _) as [a'|] eqn:Ea; [|discriminate].
    destruct (mapM (kw_src _) _) as [k'|] eqn:Ek; [|discriminate]. inversion H; subst.
    assert (Hin : forall e, In e (in_edges g c) -> src e < c).
    { intros e He. apply filter_In in He as [He Hd]. apply Nat.eqb_eq in Hd.
      pose proof (proj1 (wf_spec g) Hw e He). lia. }
    split; apply Forall_forall.
    - intros n Hn. destruct (mapM_all_in _ _ _ _ Ea Hn) as (i & _ & Hi).
      apply fold_src_in in Hi as [Hi|(e & He & <-)]; [discriminate|now apply Hin].
    - intros n Hn. apply in_map_iff in Hn as (na & <- & Hna).
      destruct (mapM_all_in _ _ _ _ Ek Hna) as (i & _ & Hi).
      apply fold_kw_in in Hi as [Hi|(e & He & <-)]; [discriminate|now apply Hin].
  Qed.

  Lemma val_of_node g c :
    wf g = true ->
    val_of g c = match nth_error (nodes g) c with
                 | Some (KLit v) => Some v
                 | Some (KCall f) => match received g c with
                                     | Some (vs, kvs) => apply_fn f vs kvs
                                     | None => None
                                     end
                 | None => None
                 end.
  Proof.
    intros Hw. destruct (nth_error (nodes g) c) as [[v|f]|] eqn:En.
    - now apply val_of_lit.
    - unfold Eval.received, received_with. destruct (get_args g c) as [[a k]|] eqn:Eg.
      + destruct (get_args_lt _ _ _ _ Hw Eg). now apply val_of_call.
      + rewrite val_of_eq. unfold Eval.eval_node, received_with. now rewrite En, Eg.
    - rewrite val_of_eq. unfold Eval.eval_node. now rewrite En.
  Qed.

  Lemma argvals_none look a k n :
    In n (a ++ map snd k) -> look n = None -> argvals look a k = None.
  Proof.
    intros Hin Hn. unfold argvals. apply in_app_or in Hin as [Hin|Hin].
    - now rewrite (mapM_none look a n Hin Hn).
    - destruct (mapM look a); [|reflexivity]. apply in_map_iff in Hin as (kn & <- & Hk).
      unfold lookup_kws. erewrite mapM_none; [reflexivity|exact Hk|]. now rewrite Hn.
  Qed.

  (** a call whose argument failed never produces a value *)
  Lemma needs_none g n out : wf g = true -> needs g n out -> val_of g n = None -> val_of g out = None.
  Proof.
    intros Hw H. induction H as [n|a c out Ha Hn IH]; [auto|]. intros Hnone. apply IH.
    unfold arg_nodes in Ha. rewrite (val_of_node g c Hw).
    destruct (nth_error (nodes g) c) as [[v|f]|]; [destruct Ha| |reflexivity].
    unfold Eval.received, received_with. destruct (get_args g c) as [[a' k]|]; [|reflexivity].
    now rewrite (argvals_none _ _ _ a Ha Hnone).
  Qed.

  (** slots written so far agree with direct evaluation *)
  Definition slots_ok (g : graph) (done : list nat) (s : slots) : Prop :=
    forall n, In n done -> is_call g n = true -> exists v, assoc n s = Some v /\ val_of g n = Some v.

  Lemma existsb_eqb_In a l : existsb (Nat.eqb a) l = true <-> In a l.
  Proof.
    rewrite existsb_exists. split.
    - intros (x & Hx & He). apply Nat.eqb_eq in He. now subst.
    - intros H. exists a. split; [exact H|apply Nat.eqb_refl].
  Qed.

  Lemma read_slot_ok g done s a :
    wf g = true -> slots_ok g done s ->
    (is_call g a = false \/ In a done) -> a < size g ->
    read_slot g s a = val_of g a.
  Proof.
    intros Hw Hs Ha Hlt. unfold read_slot. rewrite (val_of_node g a Hw).
    destruct (nth_error (nodes g) a) as [[v|f]|] eqn:En; [reflexivity| |reflexivity].
    assert (Hc : is_call g a = true) by (unfold is_call; now rewrite En).
    destruct Ha as [Ha|Ha]; [congruence|].
    destruct (Hs a Ha Hc) as (v & Hv1 & Hv2). rewrite Hv1. rewrite (val_of_node g a Hw), En in Hv2. now symmetry.
  Qed.

  Lemma run_order_sound g order : forall done s,
    wf g = true -> slots_ok g done s -> after_args g done order = true ->
    match run_order interp g order s with
    | Some s' => slots_ok g (rev order ++ done) s'
    | None => exists n, In n order /\ val_of g n = None
    end.
  Proof.
    induction order as [|n rest IH]; intros done s Hw Hs Ha; cbn.
    - exact Hs.
    - cbn in Ha. apply andb_true_iff in Ha as [Ha Ha3]. apply andb_true_iff in Ha as [Ha1 Ha2].
      destruct (nth_error (nodes g) n) as [[v|f]|] eqn:En.
      + specialize (IH (n :: done) s Hw).
        assert (Hs' : slots_ok g (n :: done) s).
        { intros m [<-|Hm] Hc; [unfold is_call in Hc; rewrite En in Hc; discriminate|now apply Hs]. }
        specialize (IH Hs' Ha3). destruct (run_order interp g rest s) as [s'|].
        * now rewrite <- app_assoc.
        * destruct IH as (m & Hm & Hv). exists m. auto.
      + assert (Hrecv : received_with (read_slot g s) g n = received g n).
        { unfold Eval.received, received_with. destruct (get_args g n) as [[a k]|] eqn:Eg; [|reflexivity].
          destruct (get_args_lt _ _ _ _ Hw Eg) as [L1 L2].
          assert (Hn : n < size g) by (apply nth_error_Some; unfold size; congruence).
          assert (Hall : forall m, In m (a ++ map snd k) -> read_slot g s m = val_of g m).
          { intros m Hm. apply (read_slot_ok g done s m Hw Hs).
            - rewrite forallb_forall in Ha1. unfold arg_nodes in Ha1. rewrite En, Eg in Ha1.
              specialize (Ha1 m Hm). apply orb_true_iff in Ha1 as [H1|H1].
              + left. now destruct (is_call g m).
              + right. now apply existsb_eqb_In.
            - unfold all_lt in *. rewrite Forall_forall in L1, L2.
              apply in_app_or in Hm as [Hm|Hm]; [specialize (L1 m Hm)|specialize (L2 m Hm)]; lia. }
          apply argvals_ext; intros m Hm; apply Hall; apply in_or_app; auto. }
        rewrite Hrecv. pose proof (val_of_node g n Hw) as Hv. rewrite En in Hv.
        destruct (received g n) as [[vs kvs]|].
        * destruct (apply_fn f vs kvs) as [v|] eqn:Eap.
          -- assert (Hs' : slots_ok g (n :: done) ((n, v) :: s)).
             { intros m [<-|Hm] Hc.
               - exists v. cbn. rewrite Nat.eqb_refl. auto.
               - destruct (Hs m Hm Hc) as (w & Hw1 & Hw2). exists w. cbn.
                 destruct (Nat.eqb_spec n m) as [->|Hne]; [|auto].
                 exfalso. apply negb_true_iff in Ha2. apply not_true_iff_false in Ha2. apply Ha2.
                 now apply existsb_eqb_In. }
             specialize (IH (n :: done) ((n, v) :: s) Hw Hs' Ha3).
             destruct (run_order interp g rest ((n, v) :: s)) as [s'|].
             ++ now rewrite <- app_assoc.
             ++ destruct IH as (m & Hm & Hvm). exists m. auto.
          -- exists n. auto.
        * exists n. auto.
      + specialize (IH (n :: done) s Hw).
        assert (Hs' : slots_ok g (n :: done) s).
        { intros m [<-|Hm] Hc; [unfold is_call in Hc; rewrite En in Hc; discriminate|now apply Hs]. }
        specialize (IH Hs' Ha3). destruct (run_order interp g rest s) as [s'|].
        * now rewrite <- app_assoc.
        * destruct IH as (m & Hm & Hv). exists m. auto.
  Qed.

  (** run_physical under any valid order returns the directly evaluated value of the output node *)
  Lemma run_result_val_of g out order :
    wf g = true -> out < size g -> valid_order g out order ->
    run_result interp g order out = val_of g out.
  Proof.
    intros Hw Hout (Ha & Hneeds & Hin). unfold run_result.
    pose proof (run_order_sound g order [] [] Hw) as H.
    assert (H0 : slots_ok g [] []) by (intros n []).
    specialize (H H0 Ha). destruct (run_order interp g order []) as [s'|].
    - apply (read_slot_ok g _ s' out Hw H); [|exact Hout].
      destruct (is_call g out) eqn:Ec; [|now left]. right. rewrite app_nil_r. apply in_rev.
      rewrite rev_involutive. now apply Hin.
    - destruct H as (n & Hn & Hv). symmetry. eapply needs_none; eauto.
  Qed.

  Lemma schedule_independent g out o1 o2 :
    wf g = true -> out < size g -> valid_order g out o1 -> valid_order g out o2 ->
    run_result interp g o1 out = run_result interp g o2 out.
  Proof. intros Hw Ho H1 H2. now rewrite !run_result_val_of. Qed.

  (** uberjob.run(plan, output=o): gather the output, execute in some valid order, return the slot *)
  Lemma run_is_subst g o g' r order :
    wf g = true -> closed (size g) o = true -> gather g o = (g', r) -> valid_order g' r order ->
    run_result interp g' order r = subst (val_of g) o.
  Proof.
    intros Hw Hc Hg Hv. destruct (gather_struct _ _ _ _ Hw Hc Hg) as (_ & W & N).
    destruct (gather_sem _ _ _ _ Hw Hc Hg) as [_ S]. now rewrite run_result_val_of.
  Qed.
End Sem.
