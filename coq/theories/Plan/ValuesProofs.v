(** Induction principles for the nested value types and the facts about ==, dict and set building
    that C02_shape rests on. *)
From Coq Require Import List Arith ZArith Bool Lia.
Import ListNotations.
From UJ Require Import Plan.Values.

Section SvalInd.
  Variable P : sval -> Prop.
  Hypothesis Hn : forall n, P (SNode n).
  Hypothesis Ha : forall i p, P (SAtom i p).
  Hypothesis Hc : forall k i items, Forall P items -> P (SCont k i items).
  Fixpoint sval_ind' (v : sval) : P v :=
    match v with
    | SNode n => Hn n
    | SAtom i p => Ha i p
    | SCont k i items =>
        Hc k i items ((fix go (l : list sval) : Forall P l :=
                         match l with
                         | [] => Forall_nil _
                         | x :: r => Forall_cons _ (sval_ind' x) (go r)
                         end) items)
    end.
End SvalInd.

Section ValInd.
  Variable P : val -> Prop.
  Hypothesis Ha : forall i p, P (Atom i p).
  Hypothesis Hc : forall k i items, Forall P items -> P (VCont k i items).
  Fixpoint val_ind' (v : val) : P v :=
    match v with
    | Atom i p => Ha i p
    | VCont k i items =>
        Hc k i items ((fix go (l : list val) : Forall P l :=
                         match l with
                         | [] => Forall_nil _
                         | x :: r => Forall_cons _ (val_ind' x) (go r)
                         end) items)
    end.
End ValInd.

(** ---- mapM ---- *)
Lemma mapM_ext {A B} (f f' : A -> option B) l :
  (forall x, In x l -> f x = f' x) -> mapM f l = mapM f' l.
Proof.
  induction l as [|x r IH]; intros H; cbn; [reflexivity|].
  rewrite (H x (or_introl eq_refl)). rewrite IH; [reflexivity|].
  intros y Hy. apply H. now right.
Qed.

Lemma mapM_length {A B} (f : A -> option B) l ys : mapM f l = Some ys -> length ys = length l.
Proof.
  revert ys; induction l as [|x r IH]; intros ys; cbn.
  - intros [= <-]. reflexivity.
  - destruct (f x); [|discriminate]. destruct (mapM f r) eqn:E; [|discriminate].
    intros [= <-]. cbn. f_equal. now apply IH.
Qed.

Lemma mapM_nth {A B} (f : A -> option B) l ys i x :
  mapM f l = Some ys -> nth_error l i = Some x -> exists y, nth_error ys i = Some y /\ f x = Some y.
Proof.
  revert ys i; induction l as [|a r IH]; intros ys i; cbn.
  - intros _ H. destruct i; discriminate.
  - destruct (f a) eqn:Ea; [|discriminate]. destruct (mapM f r) eqn:E; [|discriminate].
    intros [= <-]. destruct i; cbn.
    + intros [= <-]. eauto.
    + intros H. eapply IH; eauto.
Qed.

Lemma mapM_none {A B} (f : A -> option B) l x : In x l -> f x = None -> mapM f l = None.
Proof.
  induction l as [|a r IH]; cbn; [tauto|].
  intros [->|H] Hx.
  - now rewrite Hx.
  - destruct (f a); [|reflexivity]. now rewrite IH.
Qed.

Lemma mapM_Forall2 {A B C} (f : A -> option C) (h : B -> option C) (l : list A) (m : list B) :
  Forall2 (fun a b => f a = h b) l m -> mapM f l = mapM h m.
Proof.
  induction 1 as [|a b l m H _ IH]; cbn; [reflexivity|]. now rewrite H, IH.
Qed.

Lemma mapM_some_all {A B} (f : A -> option B) l :
  (forall x, In x l -> exists y, f x = Some y) -> exists ys, mapM f l = Some ys.
Proof.
  induction l as [|a r IH]; intros H; cbn; [eauto|].
  destruct (H a (or_introl eq_refl)) as [y ->].
  destruct IH as [ys ->]; [intros x Hx; apply H; now right|]. eauto.
Qed.

(** ---- == on hashable values is an equivalence ---- *)
Definition veq_list : list val -> list val -> bool :=
  fix go (xs ys : list val) {struct xs} : bool :=
    match xs, ys with
    | [], [] => true
    | x :: xs', y :: ys' => veq x y && go xs' ys'
    | _, _ => false
    end.

Lemma veq_tuple i j xs ys : veq (VCont CTuple i xs) (VCont CTuple j ys) = veq_list xs ys.
Proof. reflexivity. Qed.

Lemma veq_refl v : hashable v = true -> veq v v = true.
Proof.
  induction v as [i p|k i items IH] using val_ind'; intros H.
  - cbn. apply Z.eqb_refl.
  - destruct k; cbn in H; try discriminate.
    + rewrite veq_tuple. induction items as [|x r IHr]; [reflexivity|].
      cbn in H. apply andb_true_iff in H as [H1 H2]. inversion IH as [|? ? Hx Hr]; subst.
      cbn. rewrite (Hx H1). cbn. now apply IHr.
    + cbn. apply Nat.eqb_refl.
Qed.

Lemma veq_sym a : forall b, veq a b = veq b a.
Proof.
  induction a as [i p|k i items IH] using val_ind'; intros b.
  - destruct b as [j q|k' j ys]; cbn; [apply Z.eqb_sym|]. destruct k'; reflexivity.
  - destruct b as [j q|k' j ys].
    + destruct k; reflexivity.
    + destruct k, k'; try reflexivity.
      * rewrite !veq_tuple. revert ys. induction items as [|x r IHr]; intros [|y ys']; try reflexivity.
        inversion IH as [|? ? Hx Hr]; subst. cbn. rewrite (Hx y). f_equal. now apply IHr.
      * cbn. apply Nat.eqb_sym.
Qed.

Lemma veq_trans a : forall b c, veq a b = true -> veq b c = true -> veq a c = true.
Proof.
  induction a as [i p|k i items IH] using val_ind'; intros b c Hab Hbc.
  - destruct b as [j q|k' j ys]; [|destruct k'; discriminate].
    destruct c as [l r|k'' l zs]; [|destruct k''; discriminate].
    cbn in *. apply Z.eqb_eq in Hab, Hbc. apply Z.eqb_eq. congruence.
  - destruct b as [j q|k' j ys]; [destruct k; discriminate|].
    destruct c as [l r|k'' l zs]; [destruct k'; discriminate|].
    destruct k, k'; try discriminate; destruct k''; try discriminate.
    + rewrite veq_tuple in *. revert ys zs Hab Hbc.
      induction items as [|x r IHr]; intros [|y ys'] [|z zs'] Hab Hbc; try discriminate; try reflexivity.
      inversion IH as [|? ? Hx Hr]; subst. cbn in *.
      apply andb_true_iff in Hab as [A1 A2]. apply andb_true_iff in Hbc as [B1 B2].
      rewrite (Hx y z A1 B1). cbn. eapply IHr; eauto.
    + cbn in *. apply Nat.eqb_eq in Hab, Hbc. apply Nat.eqb_eq. congruence.
Qed.

(** ---- dict(pairs): the later pair wins, the key keeps its first position ---- *)
Definition keys_distinct (d : list (val * val)) : Prop :=
  forall i j k1 v1 k2 v2, nth_error d i = Some (k1, v1) -> nth_error d j = Some (k2, v2) ->
                          veq k1 k2 = true -> i = j.

Lemma dict_get_insert_same d k v : veq k k = true -> dict_get (dict_insert d k v) k = Some v.
Proof.
  intros Hk. induction d as [|[k0 v0] r IH]; cbn.
  - now rewrite Hk.
  - destruct (veq k0 k) eqn:E; cbn; rewrite E; [reflexivity|exact IH].
Qed.

Lemma dict_get_insert_other d k v k' :
  veq k k = true -> veq k k' = false ->
  dict_get (dict_insert d k v) k' = dict_get d k'.
Proof.
  intros Hk Hne. induction d as [|[k0 v0] r IH]; cbn.
  - now rewrite Hne.
  - destruct (veq k0 k) eqn:E; cbn.
    + destruct (veq k0 k') eqn:E'; [|reflexivity].
      exfalso. rewrite veq_sym in E. rewrite (veq_trans k k0 k' E E') in Hne. discriminate.
    + destruct (veq k0 k'); [reflexivity|exact IH].
Qed.

Lemma dict_get_equiv d k k' : veq k k' = true -> dict_get d k = dict_get d k'.
Proof.
  intros H. induction d as [|[k0 v0] r IH]; cbn; [reflexivity|].
  destruct (veq k0 k) eqn:E, (veq k0 k') eqn:E'; try reflexivity; try exact IH.
  - rewrite (veq_trans k0 k k' E H) in E'. discriminate.
  - rewrite (veq_sym k k') in H. rewrite (veq_trans k0 k' k E' H) in E. discriminate.
Qed.

(** lookup in dict(ps) returns the value of the last pair of ps with an equal key *)
Lemma dict_of_later_wins_gen ps : forall d k,
  Forall (fun p => hashable (fst p) = true) ps ->
  dict_get (fold_left (fun d kv => dict_insert d (fst kv) (snd kv)) ps d) k =
  match last_match ps k with Some v => Some v | None => dict_get d k end.
Proof.
  unfold last_match.
  induction ps as [|[k1 v1] r IH]; intros d k Hh; cbn; [reflexivity|].
  inversion Hh as [|? ? H1 Hr]; subst. cbn in H1.
  rewrite IH by exact Hr.
  assert (G : forall acc, fold_left (fun acc kv => if veq (fst kv) k then Some (snd kv) else acc) r acc =
                          match fold_left (fun acc kv => if veq (fst kv) k then Some (snd kv) else acc) r None with
                          | Some v => Some v | None => acc end).
  { clear. induction r as [|[k2 v2] r IHr]; intros acc; cbn; [reflexivity|].
    destruct (veq k2 k); [|apply IHr]. rewrite (IHr (Some v2)).
    destruct (fold_left _ r None); reflexivity. }
  rewrite (G (if veq k1 k then Some v1 else None)).
  destruct (fold_left _ r None) as [v|]; [reflexivity|].
  destruct (veq k1 k) eqn:E.
  - rewrite <- (dict_get_equiv _ k1 k E). apply dict_get_insert_same. now apply veq_refl.
  - apply dict_get_insert_other; [now apply veq_refl|exact E].
Qed.

Lemma dict_of_later_wins ps k :
  Forall (fun p => hashable (fst p) = true) ps ->
  dict_get (dict_of ps) k = last_match ps k.
Proof.
  intros H. unfold dict_of. rewrite dict_of_later_wins_gen by exact H.
  destruct (last_match ps k); reflexivity.
Qed.

Lemma dict_insert_length d k v : length d <= length (dict_insert d k v) <= S (length d).
Proof.
  induction d as [|[k0 v0] r IH]; cbn; [lia|]. destruct (veq k0 k); cbn; lia.
Qed.

Lemma dict_insert_distinct d k v :
  veq k k = true -> keys_distinct d -> keys_distinct (dict_insert d k v).
Proof.
  intros Hk. induction d as [|[k0 v0] r IH]; intros Hd.
  - cbn. intros [|i] [|j] k1 v1 k2 v2 H1 H2 _; cbn in *; try reflexivity;
      try (destruct i; discriminate); destruct j; discriminate.
  - cbn. destruct (veq k0 k) eqn:E.
    + intros i j k1 v1 k2 v2 H1 H2 He.
      apply (Hd i j k1 (match i with 0 => v0 | _ => v1 end) k2 (match j with 0 => v0 | _ => v2 end)); auto.
      * destruct i; cbn in *; [now inversion H1|exact H1].
      * destruct j; cbn in *; [now inversion H2|exact H2].
    + assert (Hr : keys_distinct r).
      { intros i j k1 v1 k2 v2 H1 H2 He. specialize (Hd (S i) (S j) k1 v1 k2 v2 H1 H2 He). lia. }
      specialize (IH Hr).
      assert (Hin : forall i k1 v1, nth_error (dict_insert r k v) i = Some (k1, v1) ->
                                    (exists j v', nth_error r j = Some (k1, v')) \/ k1 = k).
      { clear. induction r as [|[ka va] r IHr]; intros i k1 v1; cbn.
        - destruct i; cbn; [intros [= <- <-]; now right|destruct i; discriminate].
        - destruct (veq ka k).
          + destruct i; cbn; [intros [= <- <-]; left; exists 0, va; reflexivity|].
            intros H. left. exists (S i), v1. exact H.
          + destruct i; cbn; [intros [= <- <-]; left; exists 0, va; reflexivity|].
            intros H. destruct (IHr i k1 v1 H) as [(j & v' & Hj)| ->]; [|now right].
            left. exists (S j), v'. exact Hj. }
      intros [|i] [|j] k1 v1 k2 v2 H1 H2 He; cbn in *.
      * reflexivity.
      * exfalso. inversion H1; subst.
        destruct (Hin j k2 v2 H2) as [(j' & v' & Hj)| ->].
        -- specialize (Hd 0 (S j') k1 v1 k2 v' eq_refl Hj He). discriminate.
        -- rewrite He in E. discriminate.
      * exfalso. inversion H2; subst. rewrite veq_sym in He.
        destruct (Hin i k1 v1 H1) as [(i' & v' & Hi)| ->].
        -- specialize (Hd 0 (S i') k2 v2 k1 v' eq_refl Hi He). discriminate.
        -- rewrite He in E. discriminate.
      * f_equal. eapply IH; eauto.
Qed.

Lemma dict_of_distinct ps :
  Forall (fun p => hashable (fst p) = true) ps -> keys_distinct (dict_of ps).
Proof.
  unfold dict_of.
  assert (G : forall d, keys_distinct d -> Forall (fun p => hashable (fst p) = true) ps ->
                        keys_distinct (fold_left (fun d kv => dict_insert d (fst kv) (snd kv)) ps d)).
  { induction ps as [|[k v] r IH]; intros d Hd Hh; cbn; [exact Hd|].
    inversion Hh as [|? ? H1 Hr]; subst. apply IH; [|exact Hr].
    apply dict_insert_distinct; [now apply veq_refl|exact Hd]. }
  apply G. intros i j k1 v1 k2 v2 H. destruct i; discriminate.
Qed.

(** ---- set(args): no two members are ==, every argument is == to a member ---- *)
Lemma dedup_In vs w : In w (dedup vs) -> In w vs.
Proof.
  revert w; induction vs as [|v r IH]; intros w; cbn; [tauto|].
  intros [->|H]; [now left|]. right. apply IH. now apply filter_In in H.
Qed.

Lemma dedup_covers vs v :
  Forall (fun x => hashable x = true) vs -> In v vs -> exists w, In w (dedup vs) /\ veq w v = true.
Proof.
  induction vs as [|a r IH]; intros Hh; cbn; [tauto|].
  inversion Hh as [|? ? Ha Hr]; subst.
  intros [->|Hin].
  - exists v. split; [now left|now apply veq_refl].
  - destruct (IH Hr Hin) as (w & Hw & Hwv).
    destruct (veq a w) eqn:E.
    + exists a. split; [now left|]. eapply veq_trans; eauto.
    + exists w. split; [|exact Hwv]. right. apply filter_In. split; [exact Hw|]. now rewrite E.
Qed.

Lemma dedup_distinct vs : forall i j a b,
  nth_error (dedup vs) i = Some a -> nth_error (dedup vs) j = Some b -> veq a b = true -> i = j.
Proof.
  induction vs as [|v r IH]; intros i j a b; cbn.
  - destruct i; discriminate.
  - assert (F : forall (l : list val) n x, nth_error (filter (fun w => negb (veq v w)) l) n = Some x ->
                  veq v x = false /\ exists m, nth_error l m = Some x /\
                  forall n' x' m', nth_error (filter (fun w => negb (veq v w)) l) n' = Some x' ->
                                   nth_error l m' = Some x' -> True).
    { intros l n x H. apply nth_error_In in H. apply filter_In in H as [H1 H2].
      split; [now destruct (veq v x)|]. apply In_nth_error in H1 as [m Hm]. eauto. }
    destruct i as [|i], j as [|j]; cbn; intros Hi Hj He.
    + reflexivity.
    + exfalso. inversion Hi; subst. destruct (F _ _ _ Hj) as [Hf _]. congruence.
    + exfalso. inversion Hj; subst. destruct (F _ _ _ Hi) as [Hf _]. rewrite veq_sym in He. congruence.
    + f_equal.
      (* positions in a filtered list: use the order-preserving embedding *)
      assert (G : forall (l : list val) (P : val -> bool) i j a b,
                 (forall i j a b, nth_error l i = Some a -> nth_error l j = Some b -> veq a b = true -> i = j) ->
                 nth_error (filter P l) i = Some a -> nth_error (filter P l) j = Some b -> veq a b = true -> i = j).
      { clear. induction l as [|x l IHl]; intros P i j a b Hd; cbn.
        - destruct i; discriminate.
        - assert (Hd' : forall i j a b, nth_error l i = Some a -> nth_error l j = Some b -> veq a b = true -> i = j).
          { intros i' j' a' b' H1 H2 H3. specialize (Hd (S i') (S j') a' b' H1 H2 H3). lia. }
          destruct (P x) eqn:Px; [|now apply IHl].
          destruct i as [|i], j as [|j]; cbn; intros Hi Hj He.
          + reflexivity.
          + exfalso. inversion Hi; subst. apply nth_error_In in Hj. apply filter_In in Hj as [Hj _].
            apply In_nth_error in Hj as [m Hm]. specialize (Hd 0 (S m) a b eq_refl Hm He). discriminate.
          + exfalso. inversion Hj; subst. apply nth_error_In in Hi. apply filter_In in Hi as [Hi _].
            apply In_nth_error in Hi as [m Hm]. specialize (Hd (S m) 0 a b Hm eq_refl He). discriminate.
          + f_equal. eapply IHl; eauto. }
      eapply G; eauto.
Qed.
