(** Plan._call / Plan._gather / Plan.lit / Plan.unpack (uberjob/_plan.py) and the graph they build.
    Definitions only.

    Node numbering.  A node's number is its position in [nodes]; the model appends a node when the
    Python method that creates it *returns* (completion order).  Python adds the Call object to the
    networkx graph before it gathers the arguments, but nothing observes that intermediate state; the
    harness numbers the real nodes in the same completion order (wrapping Plan._call / Plan.lit) and
    compares the two graphs node by node and edge by edge. *)
From Coq Require Import List Arith ZArith Bool.
Import ListNotations.
From UJ Require Import Plan.Values.

Inductive fn :=
| FUser (f : nat)            (* a user function *)
| FGather (k : ckind)        (* _builtins.gather_list / gather_tuple / gather_set / gather_dict *)
| FUnpack                    (* _builtins.unpack *)
| FGetItem.                  (* operator.getitem, as used by Plan.unpack *)

Inductive ekey := Pos (i : nat) | Kw (name idx : nat).   (* PositionalArg(index) / KeywordArg(name, index) *)
Record edge := mkedge { src : nat; dst : nat; key : ekey }.
Inductive nkind := KLit (v : val) | KCall (f : fn).
Record graph := mkgraph { nodes : list nkind; edges : list edge }.

Definition empty_graph : graph := mkgraph [] [].
Definition size (g : graph) : nat := length (nodes g).

Fixpoint pos_edges (c i : nat) (l : list nat) : list edge :=
  match l with [] => [] | a :: r => mkedge a c (Pos i) :: pos_edges c (S i) r end.

Fixpoint kw_edges (c i : nat) (l : list (nat * nat)) : list edge :=
  match l with [] => [] | (name, a) :: r => mkedge a c (Kw name i) :: kw_edges c (S i) r end.

(** the wiring part of Plan._call once every argument is a node:
    add_edge(arg, call, PositionalArg(index)) for enumerate(args), then
    add_edge(arg, call, KeywordArg(name, index)) for enumerate(kwargs.items()) *)
Definition add_call (g : graph) (f : fn) (args : list nat) (kws : list (nat * nat)) : graph * nat :=
  let c := length (nodes g) in
  (mkgraph (nodes g ++ [KCall f]) (edges g ++ pos_edges c 0 args ++ kw_edges c 0 kws), c).

(** Plan.lit *)
Definition add_lit (g : graph) (v : val) : graph * nat :=
  (mkgraph (nodes g ++ [KLit v]) (edges g), length (nodes g)).

(** tail of Plan._gather: [value if isinstance(value, Node) else self.lit(value)] *)
Definition as_node (g : graph) (v : sval) : graph * nat :=
  match v with SNode n => (g, n) | _ => add_lit g (freeze v) end.

Fixpoint as_nodes (g : graph) (vs : list sval) : graph * list nat :=
  match vs with
  | [] => (g, [])
  | v :: r => let '(g1, n) := as_node g v in
              let '(g2, ns) := as_nodes g1 r in (g2, n :: ns)
  end.

(** [recurse] of Plan._gather.  Returns the graph and either a node or THE SAME object.
    [children = [recurse(item) for item in items]] first (all nested gather calls are created), then,
    if some child is a Node, [self._call(stack_frame, gather_fn, *children)], which wraps the
    remaining children in literals ([_gather] of an already recursed child finds nothing more). *)
Fixpoint recurse (v : sval) (g : graph) {struct v} : graph * sval :=
  match v with
  | SCont k i items =>
      if gatherable k then
        let '(g1, children) :=
          (fix go (l : list sval) (g : graph) {struct l} : graph * list sval :=
             match l with
             | [] => (g, [])
             | x :: r => let '(ga, x') := recurse x g in
                         let '(gb, r') := go r ga in (gb, x' :: r')
             end) items g in
        if existsb is_node children
        then let '(g2, ns) := as_nodes g1 children in
             let '(g3, c) := add_call g2 (FGather k) ns [] in (g3, SNode c)
        else (g1, v)
      else (g, v)
  | _ => (g, v)
  end.

Fixpoint recurse_list (l : list sval) (g : graph) : graph * list sval :=
  match l with
  | [] => (g, [])
  | x :: r => let '(ga, x') := recurse x g in
              let '(gb, r') := recurse_list r ga in (gb, x' :: r')
  end.

(** Plan._gather / Plan.gather *)
Definition gather (g : graph) (v : sval) : graph * nat :=
  let '(g1, r) := recurse v g in as_node g1 r.

Fixpoint gather_list (g : graph) (vs : list sval) : graph * list nat :=
  match vs with
  | [] => (g, [])
  | v :: r => let '(g1, n) := gather g v in
              let '(g2, ns) := gather_list g1 r in (g2, n :: ns)
  end.

Fixpoint gather_kws (g : graph) (kws : list (nat * sval)) : graph * list (nat * nat) :=
  match kws with
  | [] => (g, [])
  | (name, v) :: r => let '(g1, n) := gather g v in
                      let '(g2, ns) := gather_kws g1 r in (g2, (name, n) :: ns)
  end.

(** Plan._call(stack_frame, fn, *args, **kwargs): positional arguments are gathered in order, then
    the keyword arguments in the order of kwargs.items(). *)
Definition call (g : graph) (f : fn) (args : list sval) (kwargs : list (nat * sval)) : graph * nat :=
  let '(g1, ns) := gather_list g args in
  let '(g2, ks) := gather_kws g1 kwargs in
  add_call g2 f ns ks.

(** Plan.unpack(iterable, length):
    t = _call(unpack, iterable, length); tuple(_call(getitem, t, index) for index in range(length)).
    Integers made on the fly are atoms of unknown identity. *)
Definition int_atom (n : nat) : sval := SAtom fresh_id (Z.of_nat n).

Fixpoint unpack_items (g : graph) (t : nat) (idxs : list nat) : graph * list nat :=
  match idxs with
  | [] => (g, [])
  | i :: r => let '(g1, c) := call g FGetItem [SNode t; int_atom i] [] in
              let '(g2, cs) := unpack_items g1 t r in (g2, c :: cs)
  end.

Definition plan_unpack (g : graph) (v : sval) (n : nat) : graph * list nat :=
  let '(g1, t) := call g FUnpack [v; int_atom n] [] in
  unpack_items g1 t (seq 0 n).

(** every node mentioned by v that the recursion reaches exists in g *)
Fixpoint closed (bound : nat) (v : sval) : bool :=
  match v with
  | SNode n => n <? bound
  | SAtom _ _ => true
  | SCont k _ items => negb (gatherable k) || forallb (closed bound) items
  end.

Definition closed_call (b : nat) (args : list sval) (kwargs : list (nat * sval)) : bool :=
  forallb (closed b) args && forallb (fun kv => closed b (snd kv)) kwargs.

(** well-formed graph: every edge goes from a smaller to a larger existing node number *)
Definition wf_edge (bound : nat) (e : edge) : bool := (src e <? dst e) && (dst e <? bound).
Definition wf (g : graph) : bool := forallb (wf_edge (length (nodes g))) (edges g).
