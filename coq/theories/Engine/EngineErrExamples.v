(** Non-vacuity: concrete runs (explicit choice lists, evaluated by [vm_compute]) that satisfy the hypotheses of the
    theorems of EngineErr.v / EngineComplete.v and show the bounds are attained. *)
From Coq Require Import List Arith Bool Lia.
Import ListNotations.
From UJ Require Import Engine.Engine Engine.EngineLemmas Engine.EngineInv Engine.EngineErr Engine.EngineComplete.

Lemma run_from_reachable c s ks s' : reachable c s -> run_from c s ks = Some s' -> reachable c s'.
Proof.
  revert s. induction ks as [|k ks IH]; intros s Hr H; cbn in H.
  - inversion H; subst; exact Hr.
  - destruct (next c s k) as [s1|] eqn:E; [|discriminate]. apply (IH s1); auto. eapply reach_step; eauto.
Qed.
Lemma run_reachable c ks s : run c ks = Some s -> reachable c s.
Proof. apply run_from_reachable. apply reach_init. Qed.

Definition mem (l : list nat) (n : nat) : bool := existsb (Nat.eqb n) l.
Definition mk (ns : list nat) (es : list (nat * nat)) (w : nat) (k : option nat) (f : list nat) : cfg :=
  {| g := {| nodes := ns; edges := es |}; workers := w; max_errors := k; fails := mem f |}.

Ltac solve_cfg_ok :=
  split; [split; [repeat constructor; cbn; intuition (try discriminate; try lia)
                 |intros a b H; cbn in H; intuition (try match goal with E : (_, _) = (_, _) |- _ => inversion E; subst end; cbn; auto 10)]
         |cbn; lia].
Ltac solve_acyclic :=
  exists (fun n => n); intros a b H; cbn in H;
  intuition (try match goal with E : (_, _) = (_, _) |- _ => inversion E; subst end; lia).

(** what a run shows: result, number of failures, per-node start counts, skipped nodes *)
Definition obs (c : cfg) (ks : list choice) :=
  match run c ks with
  | Some s => Some (result s, nfail (hist s), map (fun n => count_ev (EStart n) (hist s)) (nodes (g c)),
                    map (fun n => count_ev (ESkip n) (hist s)) (nodes (g c)))
  | None => None
  end.

(** * D. two workers, max_errors = 1, three independent failing nodes: both workers are inside fn when the
      limit is hit, so 3 = max_errors + workers failures are observed — [failures_bound] is tight. *)
Definition c1 : cfg := mk [0; 1; 2] [] 2 (Some 1) [0; 1; 2].
Definition ks1 : list choice :=
  [KCoord; KCoord; KCoord;                       (* spawn both workers, enter queue.join() *)
   KGet 0 0; KGet 1 0; KReadStop 0; KReadStop 1; (* nodes 0 and 1 in flight together *)
   KFnEnd 0; KFnEnd 1;                           (* both raise *)
   KFailBlk 0; KTaskDone 0;                      (* error_count = 1, not over the limit *)
   KGet 0 0; KReadStop 0; KFnEnd 0;              (* node 2 starts and raises *)
   KFailBlk 1;                                   (* error_count = 2 > 1: stop *)
   KFailBlk 0; KTaskDone 0; KTaskDone 1;
   KCoord; KCoord; KCoord; KCoord; KCoord;       (* join returns, stop, DONE x2 *)
   KGet 0 0; KGet 1 0; KTaskDone 0; KTaskDone 1;
   KCoord; KCoord; KCoord].                      (* join the workers, raise *)

Example c1_ok : cfg_ok c1 /\ acyclic (g c1).
Proof. split; [solve_cfg_ok|solve_acyclic]. Qed.

Example ex1_obs : obs c1 ks1 = Some (Some (Raised 0), 3, [1; 1; 1], [0; 0; 0]).
Proof. vm_compute. reflexivity. Qed.

Example ex1_inflight : option_map inflight (run c1 (firstn 7 ks1)) = Some 2.
Proof. vm_compute. reflexivity. Qed.

Example ex1 :
  exists s, reachable c1 s /\ final s /\ intr s = None /\ max_errors c1 = Some 1 /\ workers c1 = 2 /\
            result s = Some (Raised 0) /\ nfail (hist s) = 1 + 2 /\ In (EFail 0) (hist s).
Proof.
  destruct (run c1 ks1) as [s|] eqn:E; [|vm_compute in E; discriminate].
  exists s. split; [apply (run_reachable c1 ks1); exact E|].
  vm_compute in E. inversion E; subst; clear E. vm_compute. repeat split; auto 15.
Qed.

(** the same run started with the limit 0 stops earlier: the third node is skipped *)
Definition c1' : cfg := mk [0; 1; 2] [] 2 (Some 0) [0; 1; 2].
Definition ks1' : list choice :=
  [KCoord; KCoord; KCoord; KGet 0 0; KGet 1 0; KReadStop 0; KReadStop 1; KFnEnd 0; KFnEnd 1;
   KFailBlk 1; KTaskDone 1; KGet 1 0; KReadStop 1; KTaskDone 1; KFailBlk 0; KTaskDone 0;
   KCoord; KCoord; KCoord; KCoord; KCoord; KGet 0 0; KGet 1 0; KTaskDone 0; KTaskDone 1;
   KCoord; KCoord; KCoord].
Example ex1'_obs : obs c1' ks1' = Some (Some (Raised 1), 2, [1; 1; 0], [0; 0; 1]).
Proof. vm_compute. reflexivity. Qed.

(** * one worker: min (k+1) (#eligible).  Nodes 1, 2, 3 fail, 3 depends on 1: eligible = {1, 2}. *)
Definition c_seq (k : nat) : cfg := mk [0; 1; 2; 3] [(1, 3)] 1 (Some k) [1; 2; 3].
Definition ks_seq0 : list choice :=
  [KCoord; KCoord; KGet 0 0; KReadStop 0; KFnEnd 0; KSuccEnd 0; KTaskDone 0; KGet 0 0; KReadStop 0;
   KFnEnd 0; KFailBlk 0; KTaskDone 0; KGet 0 0; KReadStop 0; KTaskDone 0; KCoord; KCoord; KCoord; KCoord;
   KGet 0 0; KTaskDone 0; KCoord; KCoord].
Definition ks_seq5 : list choice :=
  [KCoord; KCoord; KGet 0 0; KReadStop 0; KFnEnd 0; KSuccEnd 0; KTaskDone 0; KGet 0 0; KReadStop 0;
   KFnEnd 0; KFailBlk 0; KTaskDone 0; KGet 0 0; KReadStop 0; KFnEnd 0; KFailBlk 0; KTaskDone 0; KCoord; KCoord;
   KCoord; KCoord; KGet 0 0; KTaskDone 0; KCoord; KCoord].

Example c_seq_ok k : cfg_ok (c_seq k) /\ acyclic (g (c_seq k)).
Proof. split; [solve_cfg_ok|solve_acyclic]. Qed.
Example c_seq_eligibles k : eligibles (c_seq k) = [1; 2].
Proof. reflexivity. Qed.
Example ex_seq0_obs : obs (c_seq 0) ks_seq0 = Some (Some (Raised 1), 1, [1; 1; 0; 0], [0; 0; 1; 0]).
Proof. vm_compute. reflexivity. Qed.
Example ex_seq5_obs : obs (c_seq 5) ks_seq5 = Some (Some (Raised 1), 2, [1; 1; 1; 0], [0; 0; 0; 0]).
Proof. vm_compute. reflexivity. Qed.

Example ex_seq0 :
  exists s, reachable (c_seq 0) s /\ final s /\ intr s = None /\ first s = Some 1 /\
            nfail (hist s) = min (0 + 1) (length (filter (eligibleb (c_seq 0)) (nodes (g (c_seq 0))))).
Proof.
  destruct (run (c_seq 0) ks_seq0) as [s|] eqn:E; [|vm_compute in E; discriminate].
  exists s. split; [apply (run_reachable _ ks_seq0); exact E|].
  vm_compute in E. inversion E; subst; clear E. vm_compute. repeat split; auto 15.
Qed.
Example ex_seq5 :
  exists s, reachable (c_seq 5) s /\ final s /\ intr s = None /\ first s = Some 1 /\
            nfail (hist s) = min (5 + 1) (length (filter (eligibleb (c_seq 5)) (nodes (g (c_seq 5))))).
Proof.
  destruct (run (c_seq 5) ks_seq5) as [s|] eqn:E; [|vm_compute in E; discriminate].
  exists s. split; [apply (run_reachable _ ks_seq5); exact E|].
  vm_compute in E. inversion E; subst; clear E. vm_compute. repeat split; auto 15.
Qed.

(** * max_errors = None: chain 0 -> 1 -> 2 and an isolated node 3; node 1 fails.  0, 1, 3 run, 2 does not. *)
Definition c_none : cfg := mk [0; 1; 2; 3] [(0, 1); (1, 2)] 2 None [1].
Definition ks_none : list choice :=
  [KCoord; KCoord; KCoord; KGet 1 0; KGet 0 0; KReadStop 1; KReadStop 0; KFnEnd 1; KFnEnd 0;
   KSucc 1 1; KSuccEnd 0; KSuccEnd 1; KTaskDone 0; KTaskDone 1; KGet 0 0; KReadStop 0; KFnEnd 0;
   KFailBlk 0; KTaskDone 0; KCoord; KCoord; KCoord; KCoord; KCoord;
   KGet 0 0; KGet 1 0; KTaskDone 0; KCoord; KTaskDone 1; KCoord; KCoord].
Example c_none_ok : cfg_ok c_none /\ acyclic (g c_none).
Proof. split; [solve_cfg_ok|solve_acyclic]. Qed.
Example ex_none_obs : obs c_none ks_none = Some (Some (Raised 1), 1, [1; 1; 0; 1], [0; 0; 0; 0]).
Proof. vm_compute. reflexivity. Qed.
Example ex_none :
  exists s, reachable c_none s /\ final s /\ intr s = None /\ max_errors c_none = None /\
            In (EStart 3) (hist s) /\ ~ In (EStart 2) (hist s) /\ reach (g c_none) 1 2 /\ fails c_none 1 = true.
Proof.
  destruct (run c_none ks_none) as [s|] eqn:E; [|vm_compute in E; discriminate].
  exists s. split; [apply (run_reachable _ ks_none); exact E|].
  vm_compute in E. inversion E; subst; clear E. repeat split; try (vm_compute; auto 10; fail).
  - cbn. intuition discriminate.
  - apply reach1. right. left. reflexivity.
Qed.

(** * success: a diamond with a duplicated (parallel) edge, two workers, every node exactly once *)
Definition c_ok : cfg := mk [0; 1; 2; 3] [(0, 1); (0, 2); (1, 3); (2, 3); (2, 3)] 2 (Some 0) [].
Definition ks_ok : list choice :=
  [KCoord; KCoord; KCoord; KGet 1 0; KReadStop 1; KFnEnd 1; KSucc 1 1; KSucc 1 2; KGet 0 0;
   KSuccEnd 1; KReadStop 0; KTaskDone 1; KFnEnd 0; KGet 1 0; KSucc 0 3; KReadStop 1; KSuccEnd 0;
   KFnEnd 1; KTaskDone 0; KSucc 1 3; KGet 0 0; KSuccEnd 1; KReadStop 0; KTaskDone 1; KFnEnd 0;
   KSuccEnd 0; KTaskDone 0; KCoord; KCoord; KCoord; KCoord; KCoord;
   KGet 0 0; KGet 1 0; KTaskDone 0; KCoord; KTaskDone 1; KCoord; KCoord].
Example c_ok_ok : cfg_ok c_ok /\ acyclic (g c_ok).
Proof. split; [solve_cfg_ok|solve_acyclic]. Qed.
Example ex_ok_obs : obs c_ok ks_ok = Some (Some Returned, 0, [1; 1; 1; 1], [0; 0; 0; 0]).
Proof. vm_compute. reflexivity. Qed.
Example ex_ok : exists s, reachable c_ok s /\ final s /\ result s = Some Returned.
Proof.
  destruct (run c_ok ks_ok) as [s|] eqn:E; [|vm_compute in E; discriminate].
  exists s. split; [apply (run_reachable _ ks_ok); exact E|].
  vm_compute in E. inversion E; subst; clear E. vm_compute. auto.
Qed.

(** the theorems applied to the examples (instantiation check) *)
Example ex1_bound s : reachable c1 s -> nfail (hist s) <= 3.
Proof. intros Hr. apply (failures_bound c1 s 1 (proj1 c1_ok) Hr eq_refl). Qed.
Example ex_seq_exact s k :
  reachable (c_seq k) s -> final s -> intr s = None -> nfail (hist s) = min (k + 1) 2.
Proof.
  intros Hr Hf Hi. destruct (c_seq_ok k) as [H1 H2].
  apply (single_worker_exact (c_seq k) s k H1 H2 eq_refl eq_refl Hr Hf Hi).
Qed.

(** get is enabled for the second worker while the first is inside fn *)
Example ex_parallel_get :
  exists s, run c1 (firstn 6 [KCoord; KCoord; KCoord; KGet 0 0; KReadStop 0]) = Some s /\
            nth_error (ws s) 0 = Some (WRun 0) /\ exists s', next c1 s (KGet 1 1) = Some s'.
Proof. eexists. split; [vm_compute; reflexivity|]. split; [reflexivity|]. eexists. vm_compute. reflexivity. Qed.
