(** The three queue disciplines neither lose nor duplicate an item: each [_put] result is a
    permutation of [x :: old], each [_get] returns an element of the old contents and leaves a permutation
    of the rest.  Hence each refines the bag semantics of Engine.v ([put] appends, [KGet w idx] removes
    any element): [*_put_refines], [*_get_refines]. *)
From Coq Require Import List Arith Bool Lia Permutation.
Import ListNotations.
From UJ Require Import Engine.Engine Engine.Queues.

(** * List facts *)

Lemma upd_app_lt {A} (i : nat) (z : A) l1 l2 :
  i < length l1 -> upd i z (l1 ++ l2) = upd i z l1 ++ l2.
Proof.
  revert i. induction l1 as [|a l1 IH]; intros i Hi; cbn in *; [lia|].
  destruct i as [|i]; [reflexivity|]. cbn. f_equal. apply IH. lia.
Qed.

Lemma upd_app_ge {A} (k : nat) (z : A) l1 l2 :
  upd (length l1 + k) z (l1 ++ l2) = l1 ++ upd k z l2.
Proof. induction l1 as [|a l1 IH]; cbn; [reflexivity|]. f_equal. exact IH. Qed.

Lemma upd_same {A} (i : nat) (a : A) l : nth_error l i = Some a -> upd i a l = l.
Proof.
  revert i. induction l as [|b l IH]; intros i H; destruct i as [|i]; cbn in *; try discriminate.
  - now inversion H.
  - f_equal. now apply IH.
Qed.

(** removing an element found at [idx] and putting it back in front is a permutation *)
Lemma remove_nth_perm {A} (l : list A) idx x :
  nth_error l idx = Some x -> Permutation (x :: remove_nth idx l) l.
Proof.
  revert idx. induction l as [|a l IH]; intros idx H; destruct idx as [|idx]; cbn in *; try discriminate.
  - inversion H. subst. apply Permutation_refl.
  - eapply Permutation_trans; [apply perm_swap|]. apply perm_skip. now apply IH.
Qed.

Lemma remove_nth_length {A} (l : list A) idx x :
  nth_error l idx = Some x -> S (length (remove_nth idx l)) = length l.
Proof. intros H. apply (Permutation_length (remove_nth_perm l idx x H)). Qed.

(** * The bag semantics of Engine.v and what refining it means.
    Abstraction relation: the concrete [Queue.queue] contents are a permutation of the engine's [q]. *)

(** any "get" that returns [x] and leaves [c'] with [x :: c'] a permutation of the old contents is one
    of the engine's [KGet] choices *)
Theorem bag_get_refines {A} (c c' a : list A) (x : A) :
  Permutation c a -> Permutation (x :: c') c ->
  exists idx, nth_error a idx = Some x /\ Permutation c' (remove_nth idx a).
Proof.
  intros Hca Hx.
  assert (Hin : In x a).
  { eapply Permutation_in; [exact Hca|]. eapply Permutation_in; [exact Hx|]. now left. }
  apply In_nth_error in Hin. destruct Hin as [idx Hidx]. exists idx. split; [assumption|].
  apply (Permutation_cons_inv (a := x)).
  eapply Permutation_trans; [exact Hx|]. eapply Permutation_trans; [exact Hca|].
  apply Permutation_sym. now apply remove_nth_perm.
Qed.

(** any "put" whose result is a permutation of [x :: old] is the engine's append *)
Theorem bag_put_refines {A} (c c1 a : list A) (x : A) :
  Permutation c a -> Permutation c1 (x :: c) -> Permutation c1 (a ++ [x]).
Proof.
  intros Hca H1. eapply Permutation_trans; [exact H1|].
  eapply Permutation_trans; [apply perm_skip; exact Hca|]. apply Permutation_cons_append.
Qed.

Section QueueProofs.
  Context {A : Type}.

  (** ** deque *)
  Theorem fifo_put_perm (x : A) l : Permutation (fifo_put x l) (x :: l).
  Proof. unfold fifo_put. apply Permutation_sym, Permutation_cons_append. Qed.

  Theorem fifo_get_spec (l : list A) x l' :
    fifo_get l = Some (x, l') -> l = x :: l'.
  Proof. destruct l; cbn; intros H; inversion H; reflexivity. Qed.

  Theorem fifo_get_perm (l : list A) x l' :
    fifo_get l = Some (x, l') -> In x l /\ Permutation (x :: l') l.
  Proof. intros H. apply fifo_get_spec in H. subst. split; [now left | apply Permutation_refl]. Qed.

  Theorem fifo_get_some (l : list A) : l <> [] -> exists x l', fifo_get l = Some (x, l').
  Proof. destruct l as [|a t]; [congruence|]. intros _. now exists a, t. Qed.

  (** first in, first out *)
  Theorem fifo_order (l : list A) x y :
    fifo_get (fifo_put y (fifo_put x l)) =
    match l with [] => Some (x, [y]) | h :: t => Some (h, t ++ [x] ++ [y]) end.
  Proof. destruct l; cbn; [reflexivity|]. now rewrite <- app_assoc. Qed.

  Theorem fifo_put_refines (c a : list A) x :
    Permutation c a -> Permutation (fifo_put x c) (a ++ [x]).
  Proof. intros H. eapply bag_put_refines; [exact H | apply fifo_put_perm]. Qed.

  Theorem fifo_get_refines (c a : list A) x c' :
    Permutation c a -> fifo_get c = Some (x, c') ->
    exists idx, nth_error a idx = Some x /\ Permutation c' (remove_nth idx a).
  Proof. intros H Hg. eapply bag_get_refines; [exact H | apply (fifo_get_perm _ _ _ Hg)]. Qed.

  (** ** RandomQueue *)
  Theorem rq_put_some (i : nat) (x : A) l : i <= length l -> exists l', rq_put i x l = Some l'.
  Proof.
    intros Hi. unfold rq_put.
    destruct (nth_error (l ++ [x]) i) eqn:E; [eexists; reflexivity|].
    apply nth_error_None in E. rewrite app_length in E. cbn in E. lia.
  Qed.

  Theorem rq_put_none (i : nat) (x : A) l : length l < i -> rq_put i x l = None.
  Proof.
    intros Hi. unfold rq_put.
    assert (E : nth_error (l ++ [x]) i = None).
    { apply nth_error_None. rewrite app_length. cbn. lia. }
    now rewrite E.
  Qed.

  (** closed form: the item lands at position [i], the item that was there moves to the end *)
  Theorem rq_put_closed (i : nat) (x : A) l l' :
    rq_put i x l = Some l' ->
    (i = length l /\ l' = l ++ [x]) \/
    (exists l1 a l2, l = l1 ++ a :: l2 /\ length l1 = i /\ l' = l1 ++ x :: l2 ++ [a]).
  Proof.
    unfold rq_put. destruct (nth_error (l ++ [x]) i) as [a|] eqn:E; [|discriminate].
    intros H. inversion H; subst l'; clear H.
    destruct (Nat.lt_ge_cases i (length l)) as [Hlt | Hge].
    - right. rewrite nth_error_app1 in E by assumption.
      apply nth_error_split in E. destruct E as [l1 [l2 [-> Hlen]]].
      exists l1, a, l2. split; [reflexivity|]. split; [assumption|]. subst i.
      assert (E1 : upd (length l1) x ((l1 ++ a :: l2) ++ [x]) = l1 ++ x :: l2 ++ [x]).
      { rewrite <- app_assoc. cbn [app].
        rewrite <- (Nat.add_0_r (length l1)) at 1. rewrite upd_app_ge. reflexivity. }
      rewrite E1.
      assert (E2 : length (l1 ++ a :: l2) = length l1 + S (length l2)).
      { rewrite app_length. reflexivity. }
      rewrite E2, upd_app_ge. cbn [upd]. f_equal. f_equal.
      rewrite <- (Nat.add_0_r (length l2)) at 1. rewrite upd_app_ge. reflexivity.
    - left. assert (Hi : i = length l).
      { assert (Hn : nth_error (l ++ [x]) i <> None) by (rewrite E; discriminate).
        apply nth_error_Some in Hn. rewrite app_length in Hn. cbn in Hn. lia. }
      split; [assumption|]. subst i.
      rewrite nth_error_app2 in E by lia. rewrite Nat.sub_diag in E. cbn in E. inversion E; subst a.
      assert (Hx : nth_error (l ++ [x]) (length l) = Some x).
      { rewrite nth_error_app2 by lia. now rewrite Nat.sub_diag. }
      rewrite (upd_same _ _ _ Hx). now rewrite (upd_same _ _ _ Hx).
  Qed.

  Theorem rq_put_perm (i : nat) (x : A) l l' : rq_put i x l = Some l' -> Permutation l' (x :: l).
  Proof.
    intros H. apply rq_put_closed in H.
    destruct H as [[_ ->] | [l1 [a [l2 [-> [_ ->]]]]]].
    - apply Permutation_sym, Permutation_cons_append.
    - apply Permutation_sym. eapply Permutation_trans; [apply Permutation_middle|].
      apply Permutation_app_head.
      apply perm_skip. apply Permutation_cons_append.
  Qed.

  Theorem rq_put_length (i : nat) (x : A) l l' : rq_put i x l = Some l' -> length l' = S (length l).
  Proof. intros H. apply (Permutation_length (rq_put_perm _ _ _ _ H)). Qed.

  (** [_get] pops the last element *)
  Theorem rq_get_last (l : list A) x l' : rq_get l = Some (x, l') <-> l = l' ++ [x].
  Proof.
    unfold rq_get. split.
    - destruct (rev l) as [|z r] eqn:E; [discriminate|]. intros H. inversion H; subst.
      rewrite <- (rev_involutive l), E. reflexivity.
    - intros ->. rewrite rev_app_distr. cbn. now rewrite rev_involutive.
  Qed.

  Theorem rq_get_spec (l : list A) x l' :
    rq_get l = Some (x, l') -> In x l /\ Permutation (x :: l') l.
  Proof.
    intros H. apply rq_get_last in H. subst. split.
    - apply in_or_app. right. now left.
    - apply Permutation_cons_append.
  Qed.

  Theorem rq_get_some (l : list A) : l <> [] -> exists x l', rq_get l = Some (x, l').
  Proof.
    intros H. unfold rq_get. destruct (rev l) as [|z r] eqn:E.
    - exfalso. apply H. rewrite <- (rev_involutive l), E. reflexivity.
    - now exists z, (rev r).
  Qed.

  Theorem rq_init_perm (shuffled items : list A) :
    Permutation shuffled items -> Permutation (rq_init shuffled) items.
  Proof. trivial. Qed.

  Theorem rq_put_refines (c a : list A) i x c1 :
    Permutation c a -> rq_put i x c = Some c1 -> Permutation c1 (a ++ [x]).
  Proof. intros H Hp. eapply bag_put_refines; [exact H | apply (rq_put_perm _ _ _ _ Hp)]. Qed.

  Theorem rq_get_refines (c a : list A) x c' :
    Permutation c a -> rq_get c = Some (x, c') ->
    exists idx, nth_error a idx = Some x /\ Permutation c' (remove_nth idx a).
  Proof. intros H Hg. eapply bag_get_refines; [exact H | apply (rq_get_spec _ _ _ Hg)]. Qed.

  (** the element just put can be the next one returned (i = length l), and so can any other
      (the swap brings [l[i]] to the end): every bag choice of Engine.v is realised by some [i] *)
  Theorem rq_put_get_any (l : list A) x idx y :
    nth_error (l ++ [x]) idx = Some y ->
    exists l1 l', rq_put idx x l = Some l1 /\ rq_get l1 = Some (y, l').
  Proof.
    intros Hy.
    assert (Hlt : idx < length (l ++ [x])) by (apply nth_error_Some; rewrite Hy; discriminate).
    rewrite app_length in Hlt. cbn in Hlt.
    destruct (rq_put_some idx x l) as [l1 Hp]; [lia|].
    exists l1. pose proof (rq_put_closed _ _ _ _ Hp) as [[-> ->] | [k1 [a [k2 [-> [Hlen ->]]]]]].
    - exists l. split; [assumption|]. apply rq_get_last.
      rewrite nth_error_app2 in Hy by lia. rewrite Nat.sub_diag in Hy. cbn in Hy. now inversion Hy.
    - exists (k1 ++ x :: k2). split; [assumption|]. apply rq_get_last.
      subst idx. rewrite <- app_assoc in Hy. cbn [app] in Hy.
      rewrite nth_error_app2 in Hy by lia. rewrite Nat.sub_diag in Hy. cbn in Hy. inversion Hy; subst.
      rewrite <- app_assoc. reflexivity.
  Qed.

  (** ** PriorityQueue, under H-heapq *)
  Section PQ.
    Context {K : Type}.
    Variable hify : list (K * A) -> list (K * A).
    Variable hpush : list (K * A) -> K * A -> list (K * A).
    Variable hpop : list (K * A) -> option ((K * A) * list (K * A)).
    Variable prio : A -> K.
    (** H-heapq: heapify / heappush / heappop preserve the multiset of entries *)
    Hypothesis hify_perm : forall l, Permutation (hify l) l.
    Hypothesis hpush_perm : forall h e, Permutation (hpush h e) (e :: h).
    Hypothesis hpop_perm : forall h e h', hpop h = Some (e, h') -> Permutation (e :: h') h.
    Hypothesis hpop_some : forall h, h <> [] -> hpop h <> None.

    Theorem pq_init_perm items : Permutation (pq_items (pq_init hify prio items)) items.
    Proof.
      unfold pq_items, pq_init. eapply Permutation_trans; [apply Permutation_map, hify_perm|].
      rewrite map_map. cbn. rewrite map_id. apply Permutation_refl.
    Qed.

    Theorem pq_put_perm x h : Permutation (pq_items (pq_put hpush prio x h)) (x :: pq_items h).
    Proof.
      unfold pq_items, pq_put.
      apply (Permutation_map snd (hpush_perm h (prio x, x))).
    Qed.

    Theorem pq_get_spec h x h' :
      pq_get hpop h = Some (x, h') ->
      In x (pq_items h) /\ Permutation (x :: pq_items h') (pq_items h).
    Proof.
      unfold pq_get, pq_items. destruct (hpop h) as [[kv h1]|] eqn:E; [|discriminate].
      intros H. inversion H; subst. pose proof (hpop_perm _ _ _ E) as Hp.
      pose proof (Permutation_map snd Hp) as Hm. cbn in Hm. split; [|exact Hm].
      eapply Permutation_in; [exact Hm | now left].
    Qed.

    Theorem pq_get_some h : h <> [] -> exists x h', pq_get hpop h = Some (x, h').
    Proof.
      intros H. unfold pq_get. destruct (hpop h) as [[kv h1]|] eqn:E.
      - now exists (snd kv), h1.
      - exfalso. now apply (hpop_some h H).
    Qed.

    (** the key stored with an item is its priority (so the heap order is the priority order) *)
    Definition pq_keys_ok (h : list (K * A)) : Prop := forall kv, In kv h -> fst kv = prio (snd kv).

    Theorem pq_init_keys items : pq_keys_ok (pq_init hify prio items).
    Proof.
      intros kv H. unfold pq_init in H. apply (Permutation_in _ (hify_perm _)) in H.
      apply in_map_iff in H. destruct H as [x [<- _]]. reflexivity.
    Qed.

    Theorem pq_put_keys x h : pq_keys_ok h -> pq_keys_ok (pq_put hpush prio x h).
    Proof.
      intros Hk kv H. unfold pq_put in H. apply (Permutation_in _ (hpush_perm _ _)) in H.
      destruct H as [<- | H]; [reflexivity | now apply Hk].
    Qed.

    Theorem pq_get_keys h x h' : pq_keys_ok h -> pq_get hpop h = Some (x, h') -> pq_keys_ok h'.
    Proof.
      unfold pq_get. destruct (hpop h) as [[kv h1]|] eqn:E; [|discriminate].
      intros Hk H kv' Hin. inversion H; subst. apply Hk.
      apply (Permutation_in _ (hpop_perm _ _ _ E)). now right.
    Qed.

    Theorem pq_put_refines h a x :
      Permutation (pq_items h) a -> Permutation (pq_items (pq_put hpush prio x h)) (a ++ [x]).
    Proof. intros H. eapply bag_put_refines; [exact H | apply pq_put_perm]. Qed.

    Theorem pq_get_refines h a x h' :
      Permutation (pq_items h) a -> pq_get hpop h = Some (x, h') ->
      exists idx, nth_error a idx = Some x /\ Permutation (pq_items h') (remove_nth idx a).
    Proof. intros H Hg. eapply bag_get_refines; [exact H | apply (pq_get_spec _ _ _ Hg)]. Qed.
  End PQ.
End QueueProofs.

(** * The executable instance satisfies H-heapq (so the PQ theorems are not vacuous), and pops a
    minimal key. *)
Lemma ins_push_perm {A} (h : list (nat * A)) e : Permutation (ins_push h e) (e :: h).
Proof.
  induction h as [|kv t IH]; cbn [ins_push]; [apply Permutation_refl|].
  destruct (fst e <? fst kv); [apply Permutation_refl|].
  eapply Permutation_trans; [apply perm_skip; exact IH | apply perm_swap].
Qed.

Lemma ins_pop_perm {A} (h : list (nat * A)) e h' : ins_pop h = Some (e, h') -> Permutation (e :: h') h.
Proof. destruct h; cbn; intros H; inversion H; apply Permutation_refl. Qed.

Lemma ins_pop_some {A} (h : list (nat * A)) : h <> [] -> ins_pop h <> None.
Proof. destruct h; [congruence | discriminate]. Qed.

Lemma ins_hify_perm {A} (l : list (nat * A)) : Permutation (ins_hify l) l.
Proof.
  unfold ins_hify.
  assert (H : forall acc, Permutation (fold_left ins_push l acc) (acc ++ l)).
  { induction l as [|e l IH]; intros acc; cbn; [now rewrite app_nil_r|].
    eapply Permutation_trans; [apply IH|].
    eapply Permutation_trans; [apply Permutation_app_tail, ins_push_perm|].
    cbn. apply Permutation_middle. }
  apply (H []).
Qed.

Fixpoint sorted_keys {A} (h : list (nat * A)) : Prop :=
  match h with
  | [] => True
  | kv :: t => (forall kv', In kv' t -> fst kv <= fst kv') /\ sorted_keys t
  end.

Lemma ins_push_sorted {A} (h : list (nat * A)) e : sorted_keys h -> sorted_keys (ins_push h e).
Proof.
  induction h as [|kv t IH]; intros Hs; cbn [ins_push].
  - split; [intros ? [] | exact I].
  - destruct Hs as [Hmin Hs]. destruct (fst e <? fst kv) eqn:E.
    + apply Nat.ltb_lt in E. split; [|split; assumption].
      intros kv' [<- | Hin]; [lia|]. specialize (Hmin _ Hin). lia.
    + apply Nat.ltb_ge in E. split; [|now apply IH].
      intros kv' Hin. apply (Permutation_in _ (ins_push_perm t e)) in Hin.
      destruct Hin as [<- | Hin]; [assumption | now apply Hmin].
Qed.

Lemma ins_pop_min {A} (h : list (nat * A)) e h' :
  sorted_keys h -> ins_pop h = Some (e, h') ->
  (forall kv, In kv h -> fst e <= fst kv) /\ sorted_keys h'.
Proof.
  destruct h as [|kv t]; cbn; intros Hs H; inversion H; subst. destruct Hs as [Hmin Hs].
  split; [|assumption]. intros kv' [<- | Hin]; [lia | now apply Hmin].
Qed.

(** * Non-vacuity *)
Example rq_put_ex : rq_put 1 9 [1; 2; 3] = Some [1; 9; 3; 2].
Proof. reflexivity. Qed.
Example rq_put_ex_last : rq_put 3 9 [1; 2; 3] = Some [1; 2; 3; 9].
Proof. reflexivity. Qed.
Example rq_put_ex_out_of_contract : rq_put 4 9 [1; 2; 3] = None.
Proof. reflexivity. Qed.
Example rq_get_ex : rq_get [1; 9; 3; 2] = Some (2, [1; 9; 3]).
Proof. reflexivity. Qed.
Example fifo_ex : fifo_get (fifo_put 3 [1; 2]) = Some (1, [2; 3]).
Proof. reflexivity. Qed.
Example pq_ex :
  pq_get ins_pop (pq_put ins_push (fun x => 10 - x) 7 (pq_init ins_hify (fun x => 10 - x) [1; 5; 2]))
  = Some (7, [(5, 5); (8, 2); (9, 1)]).
Proof. reflexivity. Qed.
(** the PQ theorems instantiated: no section hypothesis is left *)
Example pq_put_perm_instance (x : nat) h :
  Permutation (pq_items (pq_put ins_push (fun x => x) x h)) (x :: pq_items h).
Proof. apply pq_put_perm. apply ins_push_perm. Qed.
Example pq_get_spec_instance (h : list (nat * nat)) x h' :
  pq_get ins_pop h = Some (x, h') -> In x (pq_items h) /\ Permutation (x :: pq_items h') (pq_items h).
Proof. apply pq_get_spec. apply ins_pop_perm. Qed.
