(** C07 on the engine model: every run is finite (a strictly decreasing measure), no reachable state is a
    deadlock (unless a KeyboardInterrupt hit the spawn phase: finding F6, refuted below), and a final state
    is quiescent: every worker thread has exited and no step is enabled any more.
    Acyclicity of the graph is NOT needed for any of this: nodes on (or behind) a cycle are never enqueued. *)
From Coq Require Import List Arith Bool Lia.
Import ListNotations.
From UJ Require Import Engine.Engine Engine.EngineLemmas Engine.EngineInv Engine.EngineTermInv.

(** * The termination measure *)
Definition od (c : cfg) (n : nat) : nat := length (succs (g c) n).
(** an item in the queue *)
Definition qpot (c : cfg) (it : item) : nat := match it with N n => 5 + od c n | DONE => 2 end.
(** a worker *)
Definition wpot (c : cfg) (pc : wpc) : nat :=
  match pc with
  | WGot n => 4 + od c n
  | WRun n => 3 + od c n
  | WFail _ => 2
  | WSucc _ todo => 2 + length todo
  | WTD _ => 1
  | WNotStarted | WIdle | WExited => 0
  end.
(** the coordinator *)
Definition cpot (c : cfg) (p : cpc) : nat :=
  match p with
  | CFinal => 0
  | CJoinW j => 1 + (workers c - j)
  | CPut k => workers c + 2 + 3 * (workers c - k)
  | CStop => 4 * workers c + 3
  | CJoin => 4 * workers c + 4
  | CSpawn k => 4 * workers c + 5 + (workers c - k)
  end.
(** a node that has never been enqueued ([f n] is its life-cycle count [lc n s]) *)
Definition npot (c : cfg) (f : nat -> nat) (n : nat) : nat := if f n =? 0 then 6 + od c n else 0.
Definition nsum (c : cfg) (f : nat -> nat) (l : list nat) : nat := list_sum (map (npot c f) l).
Definition qsum (c : cfg) (l : list item) : nat := list_sum (map (qpot c) l).

Definition mu (c : cfg) (s : st) : nat :=
  nsum c (fun n => lc n s) (nodes (g c)) + qsum c (q s) + csum (wpot c) (ws s) + cpot c (co s).

Lemma nsum_cons c f a l : nsum c f (a :: l) = npot c f a + nsum c f l.
Proof. reflexivity. Qed.

Lemma nsum_ext c f f' l : (forall n, f' n = f n) -> nsum c f' l = nsum c f l.
Proof.
  intros E. induction l as [|a l IH]; [reflexivity|]. rewrite !nsum_cons, IH. unfold npot. now rewrite E.
Qed.

Lemma npot_le c f f' n : (f' n = 0 -> f n = 0) -> npot c f' n <= npot c f n.
Proof.
  intros E. unfold npot. destruct (f' n =? 0) eqn:E'; [|lia]. apply Nat.eqb_eq in E'.
  rewrite (E E'). cbn. lia.
Qed.

Lemma nsum_le c f f' l : (forall n, f' n = 0 -> f n = 0) -> nsum c f' l <= nsum c f l.
Proof.
  intros E. induction l as [|a l IH]; [reflexivity|]. rewrite !nsum_cons.
  pose proof (npot_le c f f' a (E a)). lia.
Qed.

Lemma nsum_drop c f f' l x :
  (forall n, f' n = 0 -> f n = 0) -> In x l -> f x = 0 -> f' x <> 0 ->
  nsum c f' l + 6 + od c x <= nsum c f l.
Proof.
  intros E Hin Hx Hx'. induction l as [|a l IH]; [destruct Hin|]. rewrite !nsum_cons.
  destruct Hin as [->|Hin].
  - pose proof (nsum_le c f f' l E). unfold npot. rewrite Hx.
    destruct (f' x =? 0) eqn:E'; [apply Nat.eqb_eq in E'; congruence|]. cbn [Nat.eqb]. lia.
  - specialize (IH Hin). pose proof (npot_le c f f' a (E a)). lia.
Qed.

Lemma qsum_app c l1 l2 : qsum c (l1 ++ l2) = qsum c l1 + qsum c l2.
Proof. unfold qsum. now rewrite map_app, list_sum_app. Qed.
Lemma qsum_cons c a l : qsum c (a :: l) = qpot c a + qsum c l.
Proof. reflexivity. Qed.
Lemma qsum_nil c : qsum c [] = 0.
Proof. reflexivity. Qed.

Lemma remove_first_length x l : In x l -> S (length (remove_first x l)) = length l.
Proof.
  intros H. destruct (remove_first_split _ _ H) as (l1 & l2 & -> & -> & _).
  rewrite !app_length. cbn. lia.
Qed.

Lemma mu_step c s k s' : graph_wf (g c) -> Inv c s -> next c s k = Some s' -> mu c s' < mu c s.
Proof.
  intros [_ Hwf] I H. pose proof (step_lc _ _ _ _ I H) as Hlc. pose proof (i_nsp _ _ I) as Hnsp.
  unfold mu.
  assert (Hmono : forall n, lc n s' = 0 -> lc n s = 0).
  { intros n E. destruct (Hlc n) as [E'|(E' & _)]; lia. }
  assert (Hsame : (forall w x, k <> KSucc w x) ->
                  nsum c (fun n => lc n s') (nodes (g c)) = nsum c (fun n => lc n s) (nodes (g c))).
  { intros Hk. apply nsum_ext. intros n.
    destruct (Hlc n) as [E|(_ & _ & w0 & p & t & Ek & _)]; [exact E|]. exfalso. eapply Hk; eauto. }
  assert (Hle : nsum c (fun n => lc n s') (nodes (g c)) <= nsum c (fun n => lc n s) (nodes (g c))).
  { apply nsum_le. exact Hmono. }
  assert (Hdrop : forall w x, k = KSucc w x -> lc x s' <> 0 ->
                  nsum c (fun n => lc n s') (nodes (g c)) + 6 + od c x
                  <= nsum c (fun n => lc n s) (nodes (g c))).
  { intros w x -> Hx. destruct (next_succ _ _ _ _ _ H) as (p & todo & Hw & Hin & _).
    apply nsum_drop; auto.
    - destruct (i_succ _ _ I _ _ _ Hw) as (_ & _ & Ht). apply Ht in Hin. destruct Hin as [Hs _].
      apply in_succs in Hs. apply Hwf in Hs. tauto.
    - eapply todo_fresh; eauto. }
  remember (nsum c (fun n => lc n s') (nodes (g c))) as A' eqn:EA'.
  remember (nsum c (fun n => lc n s) (nodes (g c))) as A eqn:EA. clear EA EA' Hlc Hmono.
  destruct k;
    try (assert (Es : A' = A) by (apply Hsame; intros; discriminate); clear Hsame Hdrop);
    try (specialize (Hdrop _ _ eq_refl); clear Hsame).
  all: inv_next H; try spawn_case I; try split_ws; try split_q;
    rewrite ?csum_mid, ?qsum_app, ?qsum_cons, ?qsum_nil in *; cbn [wpot qpot cpot] in *; ltb_norm;
    unfold od in *; try lia.
  (* the three shapes of the successor step *)
  all: match goal with Hex : existsb _ _ = true |- _ => apply existsb_eqb_in in Hex;
         pose proof (remove_first_length _ _ Hex) as Hrl end.
  - assert (A' + 6 + length (succs (g c) s0) <= A).
    { apply Hdrop. unfold lc. simpl_st. rewrite cq_app, cq_single.
      destruct (item_eq_dec (N s0) (N s0)); [lia|congruence]. }
    lia.
  - assert (A' + 6 + length (succs (g c) s0) <= A).
    { apply Hdrop. unfold lc. simpl_st. rewrite cq_app, cq_single.
      destruct (item_eq_dec (N s0) (N s0)); [lia|congruence]. }
    lia.
  - lia.
Qed.

(** ** Every step strictly decreases [mu], whatever the thread and the choice (including interrupts). *)
Theorem mu_decreases c s k s' :
  cfg_ok c -> reachable c s -> next c s k = Some s' -> mu c s' < mu c s.
Proof.
  intros Hc Hr H. apply mu_step with k; auto. { apply Hc. } apply inv_reachable; auto.
Qed.

Lemma run_from_reachable c s0 ks s : reachable c s0 -> run_from c s0 ks = Some s -> reachable c s.
Proof.
  revert s0. induction ks as [|k ks IH]; intros s0 Hr H; cbn in H.
  - inversion H; subst; auto.
  - destruct (next c s0 k) as [s1|] eqn:E; [|discriminate]. eapply IH; [|exact H].
    eapply reach_step; eauto.
Qed.

Lemma run_reachable c ks s : run c ks = Some s -> reachable c s.
Proof. apply run_from_reachable. apply reach_init. Qed.

Lemma run_from_length c s0 ks s :
  cfg_ok c -> reachable c s0 -> run_from c s0 ks = Some s -> length ks + mu c s <= mu c s0.
Proof.
  intros Hc. revert s0. induction ks as [|k ks IH]; intros s0 Hr H; cbn in H.
  - inversion H; subst. cbn. lia.
  - destruct (next c s0 k) as [s1|] eqn:E; [|discriminate].
    pose proof (mu_decreases _ _ _ _ Hc Hr E). assert (Hr1 : reachable c s1) by (eapply reach_step; eauto).
    specialize (IH _ Hr1 H). cbn [length]. lia.
Qed.

(** ** No run is longer than the initial measure: there is no infinite run. *)
Theorem run_length_bounded c ks s : cfg_ok c -> run c ks = Some s -> length ks <= mu c (init c).
Proof.
  intros Hc H. pose proof (run_from_length c (init c) ks s Hc (reach_init c) H). lia.
Qed.

(** * Deadlock freedom *)
Lemma csum_pos f l : 0 < csum f l -> exists w a, nth_error l w = Some a /\ 0 < f a.
Proof.
  induction l as [|a l IH]; [cbn; lia|]. rewrite csum_cons. intros H.
  destruct (f a) eqn:E.
  - destruct IH as (w & b & Hw & Hb); [lia|]. exists (S w), b. auto.
  - exists 0, a. cbn. split; auto. lia.
Qed.

Lemma csum_le_len f l : (forall a, f a <= 1) -> csum f l <= length l.
Proof.
  intros Hf. induction l as [|a l IH]; [reflexivity|]. rewrite csum_cons. cbn [length]. specialize (Hf a). lia.
Qed.

Lemma csum_lt_len f l w a :
  (forall a, f a <= 1) -> nth_error l w = Some a -> f a = 0 -> csum f l < length l.
Proof.
  intros Hf Hw Ha. destruct (nth_error_split_upd l w a a Hw) as (l1 & l2 & -> & _ & _).
  rewrite csum_mid, app_length. cbn [length].
  pose proof (csum_le_len f l1 Hf). pose proof (csum_le_len f l2 Hf). lia.
Qed.

Lemma wdx_le1 pc : wdx pc <= 1.
Proof. destruct pc as [| | | | | |[|]|]; cbn; lia. Qed.

(** A worker that holds an item always has an enabled step. *)
Lemma holding_step c s w pc :
  Inv c s -> nth_error (ws s) w = Some pc -> holding pc = true ->
  exists k s', k <> KIntr /\ next c s k = Some s'.
Proof.
  intros I Hw Hh. destruct pc as [| |n|n|n|n todo|it|]; try discriminate.
  - exists (KReadStop w). unfold next. rewrite Hw.
    destruct (stop s); eexists; (split; [discriminate|reflexivity]).
  - exists (KFnEnd w). unfold next. rewrite Hw.
    destruct (fails c n); eexists; (split; [discriminate|reflexivity]).
  - exists (KFailBlk w). unfold next. rewrite Hw. eexists; (split; [discriminate|reflexivity]).
  - destruct todo as [|x t].
    + exists (KSuccEnd w). unfold next. rewrite Hw. eexists; (split; [discriminate|reflexivity]).
    + exists (KSucc w x). unfold next. rewrite Hw. cbn [existsb]. rewrite Nat.eqb_refl. cbn [orb].
      destruct (pcount (g c) x =? 1) eqn:E; [eexists; (split; [discriminate|reflexivity])|].
      apply Nat.eqb_neq in E.
      pose proof (rem_pos c s w n (x :: t) x I Hw (or_introl eq_refl) E) as Hr.
      destruct (rem s x); [lia|]. eexists; (split; [discriminate|reflexivity]).
  - exists (KTaskDone w). unfold next. rewrite Hw.
    pose proof (i_count _ _ I) as Hc. pose proof (csum_ge1 hold1 _ _ _ Hw) as Hg. cbn in Hg.
    destruct (unfinished s); [lia|]. eexists; (split; [discriminate|reflexivity]).
Qed.

(** An idle worker can take an item whenever the queue is non-empty. *)
Lemma idle_get c s w : nth_error (ws s) w = Some WIdle -> 0 < length (q s) ->
  exists k s', k <> KIntr /\ next c s k = Some s'.
Proof.
  intros Hw Hq. exists (KGet w 0). unfold next. rewrite Hw.
  destruct (q s) as [|it t]; [cbn in Hq; lia|]. cbn [nth_error].
  eexists; (split; [discriminate|reflexivity]).
Qed.

(** When nobody holds an item and every worker was started, each worker is idle or has exited. *)
Lemma idle_or_exited c s w pc :
  Inv c s -> Inv2 c s -> nsp s = workers c -> csum hold1 (ws s) = 0 ->
  nth_error (ws s) w = Some pc -> pc = WIdle \/ pc = WExited.
Proof.
  intros I I2 Hn Hh Hw. pose proof (csum_ge1 hold1 _ _ _ Hw) as Hg. rewrite Hh in Hg.
  assert (Hlt : w < length (ws s)) by (apply nth_error_Some; congruence).
  rewrite (i_len _ _ I) in Hlt.
  destruct pc; cbn in Hg; try lia; auto.
  apply (i2_started _ _ I2) in Hw. lia.
Qed.

Lemma dq_pos_len l : 0 < dq l -> 0 < length l.
Proof. destruct l; cbn; [unfold dq; cbn|]; lia. Qed.

(** ** Deadlock freedom, in the strong form: some thread can move *without* the help of an interrupt. *)
Theorem progress_no_interrupt c s :
  cfg_ok c -> reachable c s -> intr s <> Some ISpawn -> ~ final s ->
  exists k s', k <> KIntr /\ next c s k = Some s'.
Proof.
  intros Hc Hr Hi Hf. destruct (inv2_reachable c s Hc Hr) as [I I2]. destruct Hc as [_ Hw1].
  destruct (Nat.eq_dec (csum hold1 (ws s)) 0) as [Hh|Hh].
  2:{ destruct (csum_pos hold1 (ws s)) as (w & pc & Hw & Hp); [lia|].
      apply (holding_step c s w pc I Hw). unfold hold1 in Hp. destruct (holding pc); [reflexivity|lia]. }
  pose proof (i_len _ _ I) as Hlen. pose proof (i2_done _ _ I2) as Hd. pose proof (i2_nsp _ _ I2) as Hn.
  unfold dput in Hd. unfold final in Hf.
  destruct (co s) as [k0| | |k0|j|] eqn:Hco.
  - exists KCoord. unfold next. rewrite Hco.
    destruct (k0 <? workers c); eexists; (split; [discriminate|reflexivity]).
  - (* CJoin *)
    destruct (unfinished s) eqn:Eu.
    + exists KCoord. unfold next. rewrite Hco, Eu. eexists; (split; [discriminate|reflexivity]).
    + destruct Hn as [Hn|Hn]; [contradiction|].
      destruct (nth_error (ws s) 0) as [pc|] eqn:Hw0.
      2:{ apply nth_error_None in Hw0. lia. }
      assert (Hx : csum wdx (ws s) = 0) by (destruct (intr s) as [[|]|]; lia).
      destruct (idle_or_exited c s 0 pc I I2 Hn Hh Hw0) as [->| ->].
      * apply (idle_get c s 0 Hw0). pose proof (i_count _ _ I). lia.
      * pose proof (csum_ge1 wdx _ _ _ Hw0) as Hg. cbn in Hg. lia.
  - exists KCoord. unfold next. rewrite Hco. eexists; (split; [discriminate|reflexivity]).
  - exists KCoord. unfold next. rewrite Hco.
    destruct (k0 <? workers c); eexists; (split; [discriminate|reflexivity]).
  - (* CJoinW j *)
    destruct Hn as [Hn|Hn]; [contradiction|].
    destruct (j <? nsp s) eqn:Ej.
    2:{ exists KCoord. unfold next. rewrite Hco, Ej. eexists; (split; [discriminate|reflexivity]). }
    apply Nat.ltb_lt in Ej.
    destruct (nth_error (ws s) j) as [pc|] eqn:Hwj.
    2:{ apply nth_error_None in Hwj. lia. }
    destruct (idle_or_exited c s j pc I I2 Hn Hh Hwj) as [->| ->].
    + apply (idle_get c s j Hwj). apply dq_pos_len.
      pose proof (csum_lt_len wdx _ _ _ wdx_le1 Hwj eq_refl).
      destruct (intr s) as [[|]|]; try congruence; lia.
    + exists KCoord. unfold next. rewrite Hco. apply Nat.ltb_lt in Ej. rewrite Ej, Hwj.
      eexists; (split; [discriminate|reflexivity]).
  - congruence.
Qed.

Theorem progress c s :
  cfg_ok c -> reachable c s -> intr s <> Some ISpawn -> ~ final s -> exists k s', next c s k = Some s'.
Proof.
  intros Hc Hr Hi Hf. destruct (progress_no_interrupt c s Hc Hr Hi Hf) as (k & s' & _ & H). eauto.
Qed.

(** ** Consequences: a state in which nothing can move is final, and from every reachable state the run can be
    completed (without any interrupt) to a final state. *)
Lemma final_dec s : {final s} + {~ final s}.
Proof. unfold final. destruct (co s); (left; reflexivity) || (right; discriminate). Qed.

Theorem stuck_is_final c s :
  cfg_ok c -> reachable c s -> intr s <> Some ISpawn -> (forall k, next c s k = None) -> final s.
Proof.
  intros Hc Hr Hi Hs. destruct (final_dec s) as [Hf|Hf]; [exact Hf|]. exfalso.
  destruct (progress c s Hc Hr Hi Hf) as (k & s' & H). rewrite Hs in H. discriminate.
Qed.

Lemma next_intr c s k s' : next c s k = Some s' -> k <> KIntr -> intr s' = intr s.
Proof. intros H Hk. destruct k; try congruence; inv_next H; reflexivity. Qed.

Theorem can_finish c s :
  cfg_ok c -> reachable c s -> intr s <> Some ISpawn ->
  exists ks s', run_from c s ks = Some s' /\ final s' /\ ~ In KIntr ks.
Proof.
  intros Hc. remember (mu c s) as m eqn:Em. revert s Em.
  induction m as [m IH] using lt_wf_ind. intros s Em Hr Hi.
  destruct (final_dec s) as [Hf|Hf].
  - exists [], s. cbn. auto.
  - destruct (progress_no_interrupt c s Hc Hr Hi Hf) as (k & s1 & Hk & Hn).
    pose proof (mu_decreases c s k s1 Hc Hr Hn) as Hlt.
    assert (Hr1 : reachable c s1) by (eapply reach_step; eauto).
    assert (Hi1 : intr s1 <> Some ISpawn) by (rewrite (next_intr _ _ _ _ Hn Hk); exact Hi).
    destruct (IH (mu c s1) ltac:(lia) s1 eq_refl Hr1 Hi1) as (ks & s' & Hrun & Hf' & Hni).
    exists (k :: ks), s'. cbn [run_from]. rewrite Hn. split; [exact Hrun|]. split; [exact Hf'|].
    intros [E|E]; [congruence|auto].
Qed.

(** * Quiescence of final states *)
Lemma final_all_exited c s :
  cfg_ok c -> reachable c s -> intr s <> Some ISpawn -> final s ->
  forall w pc, nth_error (ws s) w = Some pc -> pc = WExited.
Proof.
  intros Hc Hr Hi Hf w pc Hw. destruct (inv2_reachable c s Hc Hr) as [I I2].
  pose proof (i2_joined _ _ I2) as Hj. pose proof (i2_nsp _ _ I2) as Hn. unfold final in Hf.
  rewrite Hf in Hj, Hn. destruct Hn as [Hn|Hn]; [contradiction|].
  assert (Hlt : w < length (ws s)) by (apply nth_error_Some; congruence).
  rewrite (i_len _ _ I), <- Hn in Hlt. rewrite (Hj _ Hlt) in Hw. congruence.
Qed.

Theorem final_quiescent c s :
  cfg_ok c -> reachable c s -> intr s <> Some ISpawn -> final s ->
  (forall w pc, nth_error (ws s) w = Some pc -> pc = WExited) /\ forall k, next c s k = None.
Proof.
  intros Hc Hr Hi Hf. pose proof (final_all_exited c s Hc Hr Hi Hf) as Hall. split; [exact Hall|].
  unfold final in Hf. intros k.
  destruct k; unfold next; rewrite ?Hf;
    try (destruct (nth_error (ws s) w) as [pc|] eqn:E; [apply Hall in E; subst pc|]; reflexivity).
  - reflexivity.
  - destruct (intr s); reflexivity.
Qed.

Lemma filter_running_exited l :
  (forall w pc, nth_error l w = Some pc -> pc = WExited) -> filter running l = [].
Proof.
  induction l as [|a l IH]; intros H; [reflexivity|]. cbn [filter].
  rewrite (H 0 a eq_refl). cbn [running]. apply IH. intros w pc Hw. apply (H (S w)). exact Hw.
Qed.

Theorem final_no_running c s :
  cfg_ok c -> reachable c s -> intr s <> Some ISpawn -> final s -> inflight s = 0.
Proof.
  intros Hc Hr Hi Hf. unfold inflight.
  rewrite filter_running_exited; [reflexivity|]. apply (final_all_exited c s); auto.
Qed.

(** At the end every DONE sentinel has been consumed; what is left in the queue are nodes that were
    enqueued but never taken (possible only after a stop / an interrupt; they can never start: no step). *)
Theorem final_no_done c s :
  cfg_ok c -> reachable c s -> intr s <> Some ISpawn -> final s -> dq (q s) = 0.
Proof.
  intros Hc Hr Hi Hf. pose proof (final_all_exited c s Hc Hr Hi Hf) as Hall.
  destruct (inv2_reachable c s Hc Hr) as [I I2]. pose proof (i2_done _ _ I2) as Hd.
  unfold dput in Hd. unfold final in Hf. rewrite Hf in Hd.
  assert (Hx : csum wdx (ws s) = length (ws s)).
  { clear - Hall. induction (ws s) as [|a l IH]; [reflexivity|]. rewrite csum_cons. cbn [length].
    rewrite (Hall 0 a eq_refl). cbn [wdx]. rewrite IH; [reflexivity|].
    intros w pc Hw. apply (Hall (S w)). exact Hw. }
  rewrite (i_len _ _ I) in Hx. destruct (intr s) as [[|]|]; try congruence; lia.
Qed.

(** * Finding F6 as a theorem about the model: a KeyboardInterrupt during the spawn phase deadlocks.
    One node, two workers: worker 0 is started, processes the node and blocks in [get]; the interrupt
    arrives before worker 1 is started; [worker_pool]'s finally joins worker 0, which never receives DONE. *)
Definition f6_cfg : cfg :=
  {| g := {| nodes := [0]; edges := [] |}; workers := 2; max_errors := Some 0; fails := fun _ => false |}.
Definition f6_ks : list choice :=
  [KCoord; KGet 0 0; KReadStop 0; KFnEnd 0; KSuccEnd 0; KTaskDone 0; KIntr].
Definition f6_st : st := match run f6_cfg f6_ks with Some s => s | None => init f6_cfg end.

Lemma f6_cfg_ok : cfg_ok f6_cfg.
Proof.
  split; [split|cbn; lia].
  - cbn. constructor; [intros []|constructor].
  - intros a b [].
Qed.

Lemma f6_run : run f6_cfg f6_ks = Some f6_st.
Proof. vm_compute. reflexivity. Qed.

Lemma f6_stuck : forall k, next f6_cfg f6_st k = None.
Proof.
  intros k. destruct k as [w idx|w|w|w|w x|w|w| |];
    try (destruct w as [|[|[|w]]]; try destruct idx; vm_compute; reflexivity);
    vm_compute; reflexivity.
Qed.

Theorem spawn_interrupt_deadlock_refuted :
  exists c s, cfg_ok c /\ reachable c s /\ ~ final s /\ forall k, next c s k = None.
Proof.
  exists f6_cfg, f6_st. split; [exact f6_cfg_ok|]. split; [exact (run_reachable _ _ _ f6_run)|].
  split; [|exact f6_stuck]. unfold final. vm_compute. discriminate.
Qed.

(** the stuck state: interrupted in spawn, coordinator joining worker 0, which is idle on an empty queue *)
Example f6_shape :
  intr f6_st = Some ISpawn /\ co f6_st = CJoinW 0 /\ ws f6_st = [WIdle; WNotStarted] /\ q f6_st = [] /\
  hist f6_st = [EIntr; EDone 0; EOk 0; EStart 0].
Proof. vm_compute. repeat split. Qed.

(** * Non-vacuity *)
(** A 4-node diamond 0 -> {1, 2} -> 3, two workers, node 1 fails, max_errors = 0. *)
Definition nv_cfg : cfg :=
  {| g := {| nodes := [0; 1; 2; 3]; edges := [(0, 1); (0, 2); (1, 3); (2, 3)] |};
     workers := 2; max_errors := Some 0; fails := fun n => n =? 1 |}.
Definition nv_ks : list choice :=
  [KCoord; KCoord; KCoord;
   KGet 0 0; KReadStop 0; KFnEnd 0; KSucc 0 1; KSucc 0 2; KSuccEnd 0; KTaskDone 0;
   KGet 0 0; KGet 1 0; KReadStop 0; KReadStop 1; KFnEnd 0; KFnEnd 1; KFailBlk 0;
   KSucc 1 3; KSuccEnd 1; KTaskDone 0; KTaskDone 1;
   KCoord; KCoord; KCoord; KCoord; KCoord;
   KGet 0 0; KGet 1 0; KTaskDone 0; KTaskDone 1;
   KCoord; KCoord; KCoord].
Definition nv_st : st := match run nv_cfg nv_ks with Some s => s | None => init nv_cfg end.

Lemma nv_cfg_ok : cfg_ok nv_cfg.
Proof.
  split; [split|cbn; lia].
  - cbn. repeat constructor; cbn; intuition discriminate.
  - intros a b H. cbn in H. cbn.
    repeat (destruct H as [H|H]; [inversion H; subst; auto 10|]). destruct H.
Qed.

Example nv_run : run nv_cfg nv_ks = Some nv_st.
Proof. vm_compute. reflexivity. Qed.

Example nv_final :
  final nv_st /\ result nv_st = Some (Raised 1) /\ intr nv_st = None /\
  ws nv_st = [WExited; WExited] /\ q nv_st = [] /\ inflight nv_st = 0 /\
  count_ev (EStart 3) (hist nv_st) = 0.
Proof. vm_compute. repeat split. Qed.

Example nv_reachable : reachable nv_cfg nv_st.
Proof. exact (run_reachable _ _ _ nv_run). Qed.

(** the hypotheses of [final_quiescent] are satisfied by this instance *)
Example nv_quiescent : forall k, next nv_cfg nv_st k = None.
Proof.
  apply (final_quiescent nv_cfg nv_st nv_cfg_ok nv_reachable).
  - vm_compute. discriminate.
  - vm_compute. reflexivity.
Qed.

Example nv_bound : length nv_ks <= mu nv_cfg (init nv_cfg).
Proof. exact (run_length_bounded _ _ _ nv_cfg_ok nv_run). Qed.

(** An interrupt during the join phase (included in all theorems above): the same graph, interrupted while
    node 0 is running; the run still reaches a final state with every worker exited. *)
Definition nvi_ks : list choice :=
  [KCoord; KCoord; KCoord; KGet 1 0; KReadStop 1; KIntr;
   KCoord; KCoord; KCoord; KCoord; KGet 0 0; KTaskDone 0;
   KFnEnd 1; KSucc 1 2; KSucc 1 1; KSuccEnd 1; KTaskDone 1;
   KGet 1 2; KReadStop 1; KTaskDone 1; KGet 1 0; KTaskDone 1;
   KCoord; KCoord; KCoord].
Definition nvi_st : st := match run nv_cfg nvi_ks with Some s => s | None => init nv_cfg end.

Example nvi_run : run nv_cfg nvi_ks = Some nvi_st.
Proof. vm_compute. reflexivity. Qed.

Example nvi_final :
  final nvi_st /\ result nvi_st = Some Interrupted /\ intr nvi_st = Some IJoin /\
  ws nvi_st = [WExited; WExited] /\ q nvi_st = [N 2] /\
  hist nvi_st = [EDone 1; ESkip 1; EDone 0; EOk 0; EIntr; EStart 0].
Proof. vm_compute. repeat split. Qed.

(** a non-final reachable state of this run, where [progress] applies non-trivially: the coordinator is
    blocked in [queue.join()], worker 1 holds node 0 *)
Definition nvp_ks : list choice := [KCoord; KCoord; KCoord; KGet 1 0; KReadStop 1].
Definition nvp_st : st := match run nv_cfg nvp_ks with Some s => s | None => init nv_cfg end.
Example nv_progress_instance :
  run nv_cfg nvp_ks = Some nvp_st /\ co nvp_st = CJoin /\ unfinished nvp_st = 1 /\ intr nvp_st = None /\
  next nv_cfg nvp_st KCoord = None /\ exists s', next nv_cfg nvp_st (KFnEnd 1) = Some s'.
Proof.
  split; [vm_compute; reflexivity|]. repeat (split; [vm_compute; reflexivity|]).
  destruct (next nv_cfg nvp_st (KFnEnd 1)) eqn:E; [eauto|]. vm_compute in E. discriminate.
Qed.
