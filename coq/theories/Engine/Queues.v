(** Models of the three queue disciplines of uberjob/_execution/scheduler.py as operations on the list
    held in [Queue.queue].  Definitions only; QueuesProofs.v shows that each one neither loses nor
    duplicates an item, i.e. refines the bag semantics Engine.v uses for [queue.get]/[queue.put]
    ([KGet w idx] removes ANY element, [put] appends).

    Only [_put]/[_get]/[_qsize] and the constructors are uberjob code; [Queue.put/get/task_done/join]
    (mutex, conditions, the [unfinished_tasks] counter: +1 per put, -1 per task_done) are the stdlib's and
    are modelled in Engine.v.  [_get] is only called by [Queue.get] when [_qsize() > 0]; on an empty
    list the Python methods raise IndexError, the models return [None]. *)
From Coq Require Import List Arith Bool.
Import ListNotations.
From UJ Require Import Engine.Engine.

Section Queues.
  Context {A : Type}.

  (** every constructor: [unfinished_tasks = len(self.queue)] *)
  Definition q_unfinished0 (contents : list A) : nat := length contents.
  Definition q_size (contents : list A) : nat := length contents.

  (** ** create_simple_queue: [collections.deque]; stdlib Queue._put = append, _get = popleft *)
  Definition fifo_init (items : list A) : list A := items.
  Definition fifo_put (x : A) (l : list A) : list A := l ++ [x].
  Definition fifo_get (l : list A) : option (A * list A) :=
    match l with [] => None | h :: t => Some (h, t) end.

  (** ** RandomQueue *)
  (** [__init__]: [random.shuffle] leaves some permutation [shuffled] of the initial items (stdlib; the
      theorems take [Permutation shuffled items] as a premise and the harness tests it). *)
  Definition rq_init (shuffled : list A) : list A := shuffled.

  (** [_put]: [self.queue.append(item); i = random.randrange(len(self.queue));
      self.queue[i], self.queue[-1] = self.queue[-1], self.queue[i]].
      [i] is the value returned by randrange, so [i <= length l] (= index of the appended item);
      anything else is outside randrange's contract and yields [None].  After the append [queue[-1]] is [x]:
      the tuple assignment stores x at i, then the old [queue[i]] at the last index [length l]. *)
  Definition rq_put (i : nat) (x : A) (l : list A) : option (list A) :=
    let l' := l ++ [x] in
    match nth_error l' i with
    | Some a => Some (upd (length l) a (upd i x l'))
    | None => None
    end.

  (** [_get]: [self.queue.pop()] *)
  Definition rq_get (l : list A) : option (A * list A) :=
    match rev l with [] => None | z :: r => Some (z, rev r) end.

  (** ** PriorityQueue: a list of [KeyValuePair(priority(item), item)] handled by [heapq].
      [heapq] is the stdlib's: [hpush]/[hpop]/[hify] are ANY functions satisfying H-heapq
      (QueuesProofs.v, Section hypotheses): multiset preservation. *)
  Context {K : Type}.
  Variable hify : list (K * A) -> list (K * A).
  Variable hpush : list (K * A) -> K * A -> list (K * A).
  Variable hpop : list (K * A) -> option ((K * A) * list (K * A)).
  Variable prio : A -> K.

  Definition pq_init (items : list A) : list (K * A) := hify (map (fun x => (prio x, x)) items).
  Definition pq_put (x : A) (h : list (K * A)) : list (K * A) := hpush h (prio x, x).
  Definition pq_get (h : list (K * A)) : option (A * list (K * A)) :=
    match hpop h with Some (kv, h') => Some (snd kv, h') | None => None end.
  (** the items held *)
  Definition pq_items (h : list (K * A)) : list A := map snd h.
End Queues.

(** An executable instance of H-heapq with the one property of a heap that is observable through
    [PriorityQueue]: [_get] returns an item of minimal key.  Keys are [Z]-like in Python (priorities
    0..n-1 and -1 for DONE); here [nat] shifted by one (DONE = 0).  Used by the harness and for
    non-vacuity; ties are broken FIFO here, arbitrarily by the real heap. *)
Fixpoint ins_push {A} (h : list (nat * A)) (e : nat * A) : list (nat * A) :=
  match h with
  | [] => [e]
  | kv :: t => if fst e <? fst kv then e :: kv :: t else kv :: ins_push t e
  end.
Definition ins_pop {A} (h : list (nat * A)) : option ((nat * A) * list (nat * A)) :=
  match h with [] => None | kv :: t => Some (kv, t) end.
Definition ins_hify {A} (l : list (nat * A)) : list (nat * A) := fold_left ins_push l [].
