(** Model of uberjob/_util/retry.py: create_retry(attempts, exc_type) applied to a call whose k-th
    attempt has a given outcome.  Definitions only. *)
From Coq Require Import List Arith ZArith Bool.
Import ListNotations.

(** outcome of one attempt: a value, an exception that is an instance of [exc_type] (retried), or any
    other exception (propagates at once).  Exceptions are identified by the id of the raised object. *)
Inductive outcome := OOk (v : Z) | ExcRetryable (e : nat) | ExcOther (e : nat).

(** what the caller of the decorated function sees *)
Inductive rresult :=
| ROk (v : Z)
| RRaise (e : nat)
| RNone                (* the loop ended without returning: `return None` — unreachable, see RetryProofs *)
| RValueError.         (* create_retry itself: "attempts must be positive." *)

(** the wrapper's `for attempt_index in range(attempts)`; [i] = attempt_index, [fuel] = iterations left.
    Returns the result and the number of attempts made so far. *)
Fixpoint loop (f : nat -> outcome) (n i fuel : nat) : rresult * nat :=
  match fuel with
  | O => (RNone, i)
  | S fu =>
      match f i with
      | OOk v => (ROk v, S i)
      | ExcOther e => (RRaise e, S i)                       (* not caught by `except exc_type` *)
      | ExcRetryable e => if Nat.eqb (S i) n then (RRaise e, S i)   (* is_last_attempt: bare `raise` *)
                          else loop f n (S i) fu
      end
  end.

(** create_retry(attempts)(f)(): ValueError for attempts < 1, [identity] for attempts = 1 *)
Definition retry_call (attempts : Z) (f : nat -> outcome) : rresult * nat :=
  if (attempts <? 1)%Z then (RValueError, O)
  else if (attempts =? 1)%Z then
         (match f O with OOk v => ROk v | ExcRetryable e => RRaise e | ExcOther e => RRaise e end, 1%nat)
       else loop f (Z.to_nat attempts) O (Z.to_nat attempts).

(** _coerce_retry: None -> create_retry(1), int n -> create_retry(n), callable -> itself *)
Definition coerce_retry (r : option Z) : Z := match r with None => 1%Z | Some n => n end.
