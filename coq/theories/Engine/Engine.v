(** Model of uberjob/_execution/run_function_on_graph.py: [run_function_on_graph] as a transition
    system whose atomic steps are exactly the engine's atomic sections (DESIGN.md section 4.2).
    Definitions only; proofs live in EngineInv.v / EngineTerm.v / EngineErr.v. *)
From Coq Require Import List Arith Bool Lia.
Import ListNotations.

(** * The graph as the engine sees it: nodes and edges; parallel edges (different keys between the
    same pair) appear as duplicates and are collapsed by [preds]/[succs], as [graph.pred[n]] and
    [graph.successors(n)] collapse them. Edge keys are irrelevant to the engine. *)
Record graph := { nodes : list nat; edges : list (nat * nat) }.

Definition preds (g : graph) (n : nat) : list nat :=
  nodup Nat.eq_dec (map fst (filter (fun e => snd e =? n) (edges g))).
Definition succs (g : graph) (n : nat) : list nat :=
  nodup Nat.eq_dec (map snd (filter (fun e => fst e =? n) (edges g))).
(** predecessor_count = len(graph.pred[node]) *)
Definition pcount (g : graph) (n : nat) : nat := length (preds g n).

Definition edge (g : graph) (a b : nat) : Prop := In (a, b) (edges g).
(** transitive closure, growing at the end *)
Inductive reach (g : graph) : nat -> nat -> Prop :=
| reach1 a b : edge g a b -> reach g a b
| reachS a k b : reach g a k -> edge g k b -> reach g a b.

Definition graph_wf (g : graph) : Prop :=
  NoDup (nodes g) /\ forall a b, edge g a b -> In a (nodes g) /\ In b (nodes g).
(** acyclicity as the existence of a topological ranking (what [assert_acyclic] establishes; Base/Topo.v
    relates it to Kahn's algorithm). *)
Definition acyclic (g : graph) : Prop :=
  exists rank : nat -> nat, forall a b, edge g a b -> rank a < rank b.

Record cfg := {
  g : graph;
  workers : nat;                 (* worker_count >= 1 after coerce_worker_count *)
  max_errors : option nat;       (* None = run as much as possible *)
  fails : nat -> bool            (* which nodes' fn raises (any BaseException); H-user *)
}.

(** * State *)
Inductive item := N (n : nat) | DONE.
Inductive wpc :=
| WNotStarted
| WIdle                                  (* about to call / blocked in queue.get() *)
| WGot (n : nat)                         (* holds n, before `if stop` *)
| WRun (n : nat)                         (* inside fn(n) *)
| WFail (n : nat)                        (* fn raised, before the failure_lock block *)
| WSucc (n : nat) (todo : list nat)      (* else-branch: successors still to handle *)
| WTD (it : item)                        (* in `finally: queue.task_done()` *)
| WExited.
Inductive cpc :=
| CSpawn (k : nat) | CJoin | CStop | CPut (k : nat) | CJoinW (j : nat) | CFinal.
Inductive iphase := ISpawn | IJoin.
Inductive ev := EStart (n : nat) | EOk (n : nat) | EFail (n : nat) | ESkip (n : nat) | EDone (n : nat) | EIntr.

Record st := {
  q : list item;                 (* queue contents as a bag: [get] may remove any element *)
  unfinished : nat;              (* Queue.unfinished_tasks *)
  rem : nat -> nat;              (* remaining_pred_count_mapping (meaningful for pcount >= 2) *)
  ws : list wpc;
  stop : bool;
  errc : nat;
  first : option nat;            (* first_node_error's node *)
  co : cpc;
  nsp : nat;                     (* workers started so far *)
  intr : option iphase;          (* KeyboardInterrupt delivered to the coordinator, and where *)
  hist : list ev;                (* ghost: newest first *)
  stepped : list (nat * nat)     (* ghost: (p, s) such that p performed its successor step for s *)
}.

Definition sources (g : graph) : list nat := filter (fun n => pcount g n =? 0) (nodes g).

Definition init (c : cfg) : st := {|
  q := map N (sources (g c));
  unfinished := length (sources (g c));
  rem := pcount (g c);
  ws := repeat WNotStarted (workers c);
  stop := false; errc := 0; first := None;
  co := CSpawn 0; nsp := 0; intr := None; hist := []; stepped := [] |}.

Inductive outcome := Returned | Raised (n : nat) | Interrupted.
Definition result (s : st) : option outcome :=
  match co s with
  | CFinal => Some (match intr s with
                    | Some _ => Interrupted
                    | None => match first s with Some n => Raised n | None => Returned end
                    end)
  | _ => None
  end.

(** * Steps.  A choice names the thread and resolves the nondeterminism of that step. *)
Inductive choice :=
| KGet (w : nat) (idx : nat)        (* queue.get(): take element idx of q *)
| KReadStop (w : nat)               (* `if stop: return` / start fn *)
| KFnEnd (w : nat)                  (* fn returns or raises *)
| KFailBlk (w : nat)                (* the `with failure_lock:` block *)
| KSucc (w : nat) (s : nat)         (* one successor: put, or the `with remaining_pred_count_lock:` block *)
| KSuccEnd (w : nat)                (* successor loop exhausted *)
| KTaskDone (w : nat)
| KCoord                            (* the coordinator's next step *)
| KIntr.                            (* KeyboardInterrupt in the coordinator *)

Fixpoint remove_nth {A} (i : nat) (l : list A) : list A :=
  match l, i with
  | [], _ => []
  | _ :: t, 0 => t
  | h :: t, S j => h :: remove_nth j t
  end.

Fixpoint upd {A} (i : nat) (x : A) (l : list A) : list A :=
  match l, i with
  | [], _ => []
  | _ :: t, 0 => x :: t
  | h :: t, S j => h :: upd j x t
  end.

Fixpoint remove_first (s : nat) (l : list nat) : list nat :=
  match l with
  | [] => []
  | h :: t => if h =? s then t else h :: remove_first s t
  end.

Definition set_ws (s : st) (w : nat) (pc : wpc) : st :=
  {| q := q s; unfinished := unfinished s; rem := rem s; ws := upd w pc (ws s); stop := stop s;
     errc := errc s; first := first s; co := co s; nsp := nsp s; intr := intr s; hist := hist s;
     stepped := stepped s |}.
Definition add_ev (s : st) (e : ev) : st :=
  {| q := q s; unfinished := unfinished s; rem := rem s; ws := ws s; stop := stop s;
     errc := errc s; first := first s; co := co s; nsp := nsp s; intr := intr s; hist := e :: hist s;
     stepped := stepped s |}.
Definition set_co (s : st) (c : cpc) : st :=
  {| q := q s; unfinished := unfinished s; rem := rem s; ws := ws s; stop := stop s;
     errc := errc s; first := first s; co := c; nsp := nsp s; intr := intr s; hist := hist s;
     stepped := stepped s |}.
(** queue.put(x): append (position is irrelevant, get takes any element) and count the task *)
Definition put (s : st) (x : item) : st :=
  {| q := q s ++ [x]; unfinished := S (unfinished s); rem := rem s; ws := ws s; stop := stop s;
     errc := errc s; first := first s; co := co s; nsp := nsp s; intr := intr s; hist := hist s;
     stepped := stepped s |}.

Definition over_max (c : cfg) (e : nat) : bool :=
  match max_errors c with Some k => k <? e | None => false end.

Definition next (c : cfg) (s : st) (k : choice) : option st :=
  match k with
  | KGet w idx =>
      match nth_error (ws s) w, nth_error (q s) idx with
      | Some WIdle, Some it =>
          let s1 := {| q := remove_nth idx (q s); unfinished := unfinished s; rem := rem s; ws := ws s;
                       stop := stop s; errc := errc s; first := first s; co := co s; nsp := nsp s;
                       intr := intr s; hist := hist s; stepped := stepped s |} in
          Some (set_ws s1 w (match it with N n => WGot n | DONE => WTD DONE end))
      | _, _ => None
      end
  | KReadStop w =>
      match nth_error (ws s) w with
      | Some (WGot n) =>
          if stop s then Some (add_ev (set_ws s w (WTD (N n))) (ESkip n))
          else Some (add_ev (set_ws s w (WRun n)) (EStart n))
      | _ => None
      end
  | KFnEnd w =>
      match nth_error (ws s) w with
      | Some (WRun n) =>
          if fails c n then Some (add_ev (set_ws s w (WFail n)) (EFail n))
          else Some (add_ev (set_ws s w (WSucc n (succs (g c) n))) (EOk n))
      | _ => None
      end
  | KFailBlk w =>
      match nth_error (ws s) w with
      | Some (WFail n) =>
          let e := S (errc s) in
          Some {| q := q s; unfinished := unfinished s; rem := rem s; ws := upd w (WTD (N n)) (ws s);
                  stop := stop s || over_max c e; errc := e;
                  first := match first s with None => Some n | f => f end;
                  co := co s; nsp := nsp s; intr := intr s; hist := hist s; stepped := stepped s |}
      | _ => None
      end
  | KSucc w x =>
      match nth_error (ws s) w with
      | Some (WSucc n todo) =>
          if existsb (Nat.eqb x) todo then
            let s1 := {| q := q s; unfinished := unfinished s; rem := rem s;
                         ws := upd w (WSucc n (remove_first x todo)) (ws s); stop := stop s;
                         errc := errc s; first := first s; co := co s; nsp := nsp s; intr := intr s;
                         hist := hist s; stepped := (n, x) :: stepped s |} in
            if pcount (g c) x =? 1 then Some (put s1 (N x))
            else match rem s x with
                 | 0 => None      (* Python would go negative; unreachable (EngineInv.rem_pos) *)
                 | S r =>
                     let s2 := {| q := q s1; unfinished := unfinished s1;
                                  rem := fun y => if y =? x then r else rem s y;
                                  ws := ws s1; stop := stop s1; errc := errc s1; first := first s1;
                                  co := co s1; nsp := nsp s1; intr := intr s1; hist := hist s1;
                                  stepped := stepped s1 |} in
                     Some (if r =? 0 then put s2 (N x) else s2)
                 end
          else None
      | _ => None
      end
  | KSuccEnd w =>
      match nth_error (ws s) w with
      | Some (WSucc n []) => Some (set_ws s w (WTD (N n)))
      | _ => None
      end
  | KTaskDone w =>
      match nth_error (ws s) w, unfinished s with
      | Some (WTD it), S u =>
          let s1 := {| q := q s; unfinished := u; rem := rem s; ws := ws s; stop := stop s;
                       errc := errc s; first := first s; co := co s; nsp := nsp s; intr := intr s;
                       hist := hist s; stepped := stepped s |} in
          Some (match it with
                | N n => add_ev (set_ws s1 w WIdle) (EDone n)
                | DONE => set_ws s1 w WExited
                end)
      | _, _ => None       (* unfinished = 0 would be Queue's ValueError; unreachable (EngineInv) *)
      end
  | KCoord =>
      match co s with
      | CSpawn k =>
          if k <? workers c then
            Some {| q := q s; unfinished := unfinished s; rem := rem s; ws := upd k WIdle (ws s);
                    stop := stop s; errc := errc s; first := first s; co := CSpawn (S k);
                    nsp := S k; intr := intr s; hist := hist s; stepped := stepped s |}
          else Some (set_co s CJoin)
      | CJoin => match unfinished s with 0 => Some (set_co s CStop) | _ => None end
      | CStop =>
          Some {| q := q s; unfinished := unfinished s; rem := rem s; ws := ws s; stop := true;
                  errc := errc s; first := first s; co := CPut 0; nsp := nsp s; intr := intr s;
                  hist := hist s; stepped := stepped s |}
      | CPut k =>
          if k <? workers c then Some (set_co (put s DONE) (CPut (S k)))
          else Some (set_co s (CJoinW 0))
      | CJoinW j =>
          if j <? nsp s then
            match nth_error (ws s) j with
            | Some WExited => Some (set_co s (CJoinW (S j)))
            | _ => None
            end
          else Some (set_co s CFinal)
      | CFinal => None
      end
  | KIntr =>
      match intr s, co s with
      | None, CJoin =>
          Some {| q := q s; unfinished := unfinished s; rem := rem s; ws := ws s; stop := stop s;
                  errc := errc s; first := first s; co := CStop; nsp := nsp s; intr := Some IJoin;
                  hist := EIntr :: hist s; stepped := stepped s |}
      | None, CSpawn _ =>
          (* pre-existing behaviour (finding F6): the `finally` of worker_pool joins the workers
             started so far; nobody sets stop or puts DONE *)
          Some {| q := q s; unfinished := unfinished s; rem := rem s; ws := ws s; stop := stop s;
                  errc := errc s; first := first s; co := CJoinW 0; nsp := nsp s; intr := Some ISpawn;
                  hist := EIntr :: hist s; stepped := stepped s |}
      | _, _ => None
      end
  end.

(** Runs: a list of choices, each of which must be enabled. *)
Fixpoint run_from (c : cfg) (s : st) (ks : list choice) : option st :=
  match ks with
  | [] => Some s
  | k :: rest => match next c s k with Some s' => run_from c s' rest | None => None end
  end.
Definition run (c : cfg) (ks : list choice) : option st := run_from c (init c) ks.

Inductive reachable (c : cfg) : st -> Prop :=
| reach_init : reachable c (init c)
| reach_step s k s' : reachable c s -> next c s k = Some s' -> reachable c s'.

Definition final (s : st) : Prop := co s = CFinal.
Definition cfg_ok (c : cfg) : Prop := graph_wf (g c) /\ 1 <= workers c.

(** Derived observations used in theorem statements *)
Definition holding (pc : wpc) : bool :=
  match pc with WGot _ | WRun _ | WFail _ | WSucc _ _ | WTD _ => true | _ => false end.
Definition held_node (pc : wpc) : option nat :=
  match pc with
  | WGot n | WRun n | WFail n | WSucc n _ | WTD (N n) => Some n
  | _ => None
  end.
Definition running (pc : wpc) : bool := match pc with WRun _ => true | _ => false end.
Definition inflight (s : st) : nat := length (filter running (ws s)).

Definition ev_eq_dec : forall a b : ev, {a = b} + {a <> b}.
Proof. decide equality; apply Nat.eq_dec. Defined.
Definition item_eq_dec : forall a b : item, {a = b} + {a <> b}.
Proof. decide equality; apply Nat.eq_dec. Defined.
Definition count_ev (e : ev) (h : list ev) : nat := count_occ ev_eq_dec h e.
Definition is_fail (e : ev) : bool := match e with EFail _ => true | _ => false end.
Definition nfail (h : list ev) : nat := length (filter is_fail h).
