(** Ordering theorems: a call starts only after everything it depends on finished successfully (C01),
    and nothing downstream of a failed call ever starts (C06). *)
From Coq Require Import List Arith Bool Lia.
Import ListNotations.
From UJ Require Import Engine.Engine Engine.EngineLemmas Engine.EngineInv.

Lemma hist_cases c s k s' :
  next c s k = Some s' ->
  hist s' = hist s \/
  (exists w n, nth_error (ws s) w = Some (WGot n) /\ stop s = false /\ hist s' = EStart n :: hist s) \/
  (exists e, hist s' = e :: hist s /\ forall n, e <> EStart n).
Proof.
  intros H. inv_next H; auto; try (right; right; eexists; split; [reflexivity|]; intros; discriminate).
  right; left. eauto.
Qed.

Lemma ok_started c s n : Inv c s -> In (EOk n) (hist s) -> In (EStart n) (hist s).
Proof. intros I H. apply count_ev_in in H. apply count_ev_in. pose proof (i_fin _ _ I n). lia. Qed.
Lemma fail_started c s n : Inv c s -> In (EFail n) (hist s) -> In (EStart n) (hist s).
Proof. intros I H. apply count_ev_in in H. apply count_ev_in. pose proof (i_fin _ _ I n). lia. Qed.
Lemma ok_fail_excl c s n : Inv c s -> In (EOk n) (hist s) -> In (EFail n) (hist s) -> False.
Proof.
  intros I H1 H2. apply count_ev_in in H1, H2. pose proof (i_fin _ _ I n). pose proof (start_le_1 _ _ n I). lia.
Qed.

(** direct predecessors of anything enqueued / held have finished successfully *)
Lemma live_preds_ok c s n p :
  Inv c s -> 0 < lc n s -> In p (preds (g c) n) -> In (EOk p) (hist s).
Proof.
  intros I Hl Hp. pose proof (i_ready _ _ I n Hl p Hp) as Hst. apply (i_stepped _ _ I) in Hst. tauto.
Qed.

Lemma held_live s w pc n : nth_error (ws s) w = Some pc -> held_node pc = Some n -> 0 < lc n s.
Proof.
  intros H Hh. unfold lc. pose proof (csum_ge1 (hn n) _ _ _ H). rewrite (hn_held _ _ Hh) in H0. lia.
Qed.

Definition StartedOk (c : cfg) (s : st) : Prop :=
  forall n, In (EStart n) (hist s) -> forall p, In p (preds (g c) n) -> In (EOk p) (hist s).

Lemma started_ok_step c s k s' :
  Inv c s -> StartedOk c s -> next c s k = Some s' -> StartedOk c s'.
Proof.
  intros I SO H n Hn p Hp. pose proof (hist_mono _ _ _ _ H) as Hm.
  destruct (hist_cases _ _ _ _ H) as [E|[(w & n0 & Hw & _ & E)|(e & E & Hne)]]; rewrite E in *.
  - eauto.
  - destruct Hn as [Hn|Hn].
    + inversion Hn; subst. right. eapply live_preds_ok; [eassumption| |eassumption]; eapply held_live; [eassumption|reflexivity].
    + right. eauto.
  - destruct Hn as [Hn|Hn]; [exfalso; eapply Hne; eauto|]. right. eauto.
Qed.

Lemma started_ok_reachable c s : cfg_ok c -> reachable c s -> StartedOk c s.
Proof.
  intros Hc Hr. induction Hr as [|s k s' Hr IH Hn].
  - intros n [].
  - eapply started_ok_step; eauto. apply inv_reachable; auto.
Qed.

(** closure along dependency paths *)
Lemma preds_ok_closure c s n :
  Inv c s -> StartedOk c s ->
  (forall p, In p (preds (g c) n) -> In (EOk p) (hist s)) ->
  forall m, reach (g c) m n -> In (EOk m) (hist s).
Proof.
  intros I SO Hp m Hr. revert Hp. induction Hr as [a b He|a k b Hr IH He]; intros Hp.
  - apply Hp. apply in_preds. exact He.
  - apply IH. intros p Hpk. apply (SO k); auto. apply (ok_started _ _ _ I). apply Hp. apply in_preds. exact He.
Qed.

(** C01 as an invariant over the whole history (newest first): when [EStart n] was appended, every
    transitive dependency already had its [EOk] in the history. *)
Definition Ordered (c : cfg) (h : list ev) : Prop :=
  forall h1 h2 n, h = h1 ++ EStart n :: h2 -> forall m, reach (g c) m n -> In (EOk m) h2.

Lemma ordered_cons_other c e h : (forall n, e <> EStart n) -> Ordered c h -> Ordered c (e :: h).
Proof.
  intros Hne O h1 h2 n E m Hr. destruct h1 as [|e' h1]; cbn in E; inversion E; subst.
  - exfalso. eapply Hne; eauto.
  - eapply O; eauto.
Qed.

Lemma ordered_step c s k s' :
  Inv c s -> StartedOk c s -> Ordered c (hist s) -> next c s k = Some s' -> Ordered c (hist s').
Proof.
  intros I SO O H.
  destruct (hist_cases _ _ _ _ H) as [E|[(w & n0 & Hw & _ & E)|(e & E & Hne)]]; rewrite E.
  - exact O.
  - intros h1 h2 n E' m Hr. destruct h1 as [|e' h1]; cbn in E'; inversion E'; subst.
    + eapply preds_ok_closure; eauto. intros p Hp. eapply live_preds_ok; [eassumption| |eassumption]; eapply held_live; [eassumption|reflexivity].
    + eapply O; eauto.
  - apply ordered_cons_other; auto.
Qed.

Theorem ordered_reachable c s : cfg_ok c -> reachable c s -> Ordered c (hist s).
Proof.
  intros Hc Hr. induction Hr as [|s k s' Hr IH Hn].
  - intros h1 h2 n E. destruct h1; discriminate.
  - eapply ordered_step; eauto. apply inv_reachable; auto. apply started_ok_reachable; auto.
Qed.

(** C01, state form: whatever has started has all its transitive dependencies finished OK. *)
Theorem started_deps_ok c s n m :
  cfg_ok c -> reachable c s -> In (EStart n) (hist s) -> reach (g c) m n -> In (EOk m) (hist s).
Proof.
  intros Hc Hr Hs Hreach. apply in_split in Hs. destruct Hs as (h1 & h2 & E).
  pose proof (ordered_reachable _ _ Hc Hr _ _ _ E m Hreach) as Hin. rewrite E.
  apply in_app_iff. right. right. exact Hin.
Qed.

(** C06: nothing downstream of a failed call is ever started. *)
Theorem no_downstream c s m n :
  cfg_ok c -> reachable c s -> In (EFail m) (hist s) -> reach (g c) m n -> ~ In (EStart n) (hist s).
Proof.
  intros Hc Hr Hf Hreach Hs. pose proof (started_deps_ok _ _ _ _ Hc Hr Hs Hreach) as Hok.
  eapply ok_fail_excl; [apply inv_reachable; eassumption|eassumption|eassumption].
Qed.

(** A node that is running right now has not finished, and its dependencies have. *)
Theorem running_deps_ok c s w n m :
  cfg_ok c -> reachable c s -> nth_error (ws s) w = Some (WRun n) -> reach (g c) m n -> In (EOk m) (hist s).
Proof.
  intros Hc Hr Hw Hreach. pose proof (inv_reachable _ _ Hc Hr) as I.
  eapply preds_ok_closure; [eassumption|apply started_ok_reachable; assumption| |eassumption].
  intros p Hp. eapply live_preds_ok; [eassumption| |eassumption]; eapply held_live; [eassumption|reflexivity].
Qed.

(** Non-vacuity: a diamond with a parallel edge, two workers both in the successor loop of the
    fan-in node's predecessors. *)
Definition dia : graph := {| nodes := [0;1;2;3]; edges := [(0,1);(0,2);(1,3);(2,3);(1,3)] |}.
Definition dia_cfg : cfg := {| g := dia; workers := 2; max_errors := Some 0; fails := fun _ => false |}.
Definition dia_prefix : list choice :=
  [KCoord;KCoord;KCoord; KGet 0 0; KReadStop 0; KFnEnd 0; KSucc 0 2; KSucc 0 1; KSuccEnd 0; KTaskDone 0;
   KGet 0 0; KGet 1 0; KReadStop 0; KReadStop 1; KFnEnd 0; KFnEnd 1; KSucc 0 3].
Example dia_two_in_succ :
  option_map (fun s => (ws s, rem s 3, q s)) (run dia_cfg dia_prefix)
  = Some ([WSucc 2 []; WSucc 1 [3]], 1, []).
Proof. vm_compute. reflexivity. Qed.

(** * C17 building blocks: once [stop] is set nothing starts any more. *)
Lemma stop_mono c s k s' : next c s k = Some s' -> stop s = true -> stop s' = true.
Proof. intros H Hs. inv_next H; auto; rewrite Hs; reflexivity. Qed.

Lemma no_start_after_stop c s k s' :
  next c s k = Some s' -> stop s = true -> forall n, count_ev (EStart n) (hist s') = count_ev (EStart n) (hist s).
Proof.
  intros H Hs n. destruct (hist_cases _ _ _ _ H) as [E|[(w & n0 & _ & Hf & _)|(e & E & Hne)]]; rewrite ?E.
  - reflexivity.
  - congruence.
  - rewrite count_ev_cons. destruct (ev_eq_dec e (EStart n)); [exfalso; eapply Hne; eauto|reflexivity].
Qed.

Lemma no_start_after_stop_run c ks : forall s s',
  run_from c s ks = Some s' -> stop s = true ->
  forall n, count_ev (EStart n) (hist s') = count_ev (EStart n) (hist s).
Proof.
  induction ks as [|k ks IH]; intros s s' H Hs n; cbn in H.
  - inversion H; reflexivity.
  - destruct (next c s k) as [s1|] eqn:E; [|discriminate].
    rewrite (IH _ _ H (stop_mono _ _ _ _ E Hs) n). eapply no_start_after_stop; eauto.
Qed.

(** The interrupt handler's first statement sets [stop]. *)
Lemma intr_join_sets_stop c s s1 :
  next c s KIntr = Some s1 -> co s = CJoin ->
  co s1 = CStop /\ intr s1 = Some IJoin /\
  exists s2, next c s1 KCoord = Some s2 /\ stop s2 = true /\ hist s2 = hist s1.
Proof.
  intros H Hc. inv_next H; try congruence. cbn. repeat split; auto. eexists. split; [reflexivity|]. auto.
Qed.

Lemma interrupted_result s : final s -> intr s <> None -> result s = Some Interrupted.
Proof. unfold final, result. intros -> H. destruct (intr s); congruence. Qed.
