(** Completeness at termination: which calls a finished run has executed (C04 success_exactly_once,
    C06 no_downstream, C10 none_runs_all and single_worker_exact). *)
From Coq Require Import List Arith Bool Lia.
Import ListNotations.
From UJ Require Import Engine.Engine Engine.EngineLemmas Engine.EngineInv Engine.EngineErr.

(** * Where history events come from *)
Lemma ok_new c s k s' p :
  next c s k = Some s' -> In (EOk p) (hist s') ->
  In (EOk p) (hist s) \/
  exists w, k = KFnEnd w /\ nth_error (ws s) w = Some (WRun p) /\ fails c p = false /\
            ws s' = upd w (WSucc p (succs (g c) p)) (ws s).
Proof.
  intros H Hin. inv_next H; auto; destruct Hin as [Hin|Hin]; auto; try discriminate.
  inversion Hin; subst. right. eauto 6.
Qed.

Lemma fail_new c s k s' p :
  next c s k = Some s' -> In (EFail p) (hist s') ->
  In (EFail p) (hist s) \/ exists w, k = KFnEnd w /\ nth_error (ws s) w = Some (WRun p) /\ fails c p = true.
Proof.
  intros H Hin. inv_next H; auto; destruct Hin as [Hin|Hin]; auto; try discriminate.
  inversion Hin; subst. right. eauto 6.
Qed.

(** what a step does to a worker that is inside the successor loop *)
Lemma succ_worker_step c s k s' w p todo :
  Inv c s -> next c s k = Some s' -> nth_error (ws s) w = Some (WSucc p todo) ->
  nth_error (ws s') w = Some (WSucc p todo) \/
  (exists x, k = KSucc w x /\ nth_error (ws s') w = Some (WSucc p (remove_first x todo))) \/
  (k = KSuccEnd w /\ todo = []).
Proof.
  intros I H Hw.
  inv_next H; auto;
    match goal with
    | Hn : nth_error (ws s) ?w0 = Some _ |- _ =>
        destruct (Nat.eq_dec w0 w) as [->|Hne];
        [rewrite Hw in Hn; inversion Hn; subst; clear Hn
        |left; rewrite nth_error_upd_other by exact Hne; exact Hw]
    | _ => idtac
    end.
  all: try (right; left; eexists; split; [reflexivity|]; eapply nth_error_upd_same; eauto; fail).
  all: try (right; right; split; reflexivity).
  (* spawn k0: the slot was WNotStarted *)
  destruct (Nat.eq_dec k0 w) as [->|Hne]; [|left; rewrite nth_error_upd_other by exact Hne; exact Hw].
  spawn_case I. congruence.
Qed.

(** * (O) a node that returned has performed, or is still performing, its successor steps *)
Definition OInv (c : cfg) (s : st) : Prop :=
  forall p, In (EOk p) (hist s) ->
    (exists w todo, nth_error (ws s) w = Some (WSucc p todo)) \/
    forall x, In x (succs (g c) p) -> In (p, x) (stepped s).

Lemma step_oinv c s k s' : Inv c s -> next c s k = Some s' -> OInv c s -> OInv c s'.
Proof.
  intros I H O p Hin. pose proof (stepped_mono _ _ _ _ H) as Hm.
  destruct (ok_new _ _ _ _ _ H Hin) as [Hold|(w & -> & Hw & _ & Ews)].
  - destruct (O p Hold) as [(w & todo & Hw)|Hall]; [|right; intros x Hx; apply Hm; auto].
    destruct (succ_worker_step _ _ _ _ _ _ _ I H Hw) as [Hw'|[(x & _ & Hw')|(-> & ->)]]; [left; eauto..|].
    right. intros x Hx. apply Hm. destruct (i_succ _ _ I _ _ _ Hw) as (_ & _ & Ht).
    destruct (memp p x (stepped s)) eqn:Em; [apply memp_in; exact Em|]. exfalso.
    apply (proj2 (Ht x)). split; auto. rewrite <- memp_in. congruence.
  - left. exists w, (succs (g c) p). rewrite Ews. eapply nth_error_upd_same; eauto.
Qed.

(** * (P) a node all of whose predecessors have performed their successor step has been enqueued *)
Definition PInv (c : cfg) (s : st) : Prop :=
  forall n, In n (nodes (g c)) -> (forall p, In p (preds (g c) n) -> In (p, n) (stepped s)) -> 0 < lc n s.

Lemma filter_all_false {A} (f : A -> bool) l : (forall x, In x l -> f x = false) -> filter f l = [].
Proof.
  induction l as [|a l IH]; intros H; [reflexivity|]. cbn. rewrite (H a (or_introl eq_refl)).
  apply IH. intros x Hx. apply H. right; exact Hx.
Qed.

Lemma lc_pos_step c s k s' n : Inv c s -> next c s k = Some s' -> 0 < lc n s -> 0 < lc n s'.
Proof. intros I H Hp. destruct (step_lc _ _ _ _ I H n) as [E|(_ & E & _)]; lia. Qed.

Lemma cq_in n l : In (N n) l -> 0 < cq n l.
Proof. intros H. unfold cq. apply count_occ_In. exact H. Qed.

Lemma step_pinv c s k s' : Inv c s -> next c s k = Some s' -> PInv c s -> PInv c s'.
Proof.
  intros I H P n Hn Hall. pose proof (inv_step _ _ _ _ I H) as I'.
  destruct k; try (destruct (next_other_stepped _ _ _ _ H) as [Est _]; [congruence|];
                   rewrite Est in Hall; apply (lc_pos_step _ _ _ _ _ I H); apply P; auto; fail).
  destruct (next_succ _ _ _ _ _ H) as (p0 & todo & Hw & Hx & Est & _ & _ & Hcase).
  destruct (Nat.eq_dec s0 n) as [->|Hne].
  - assert (Hq : In (N n) (q s')).
    { destruct (i_succ _ _ I _ _ _ Hw) as (_ & _ & Ht). apply Ht in Hx. destruct Hx as [Hs _].
      assert (Hp0 : In p0 (preds (g c) n)) by (apply in_preds; apply in_succs in Hs; exact Hs).
      destruct Hcase as [(_ & -> & _)|(Hnone & r & _ & Hr2 & ->)]; [apply in_or_app; right; left; reflexivity|].
      assert (H2 : 2 <= pcount (g c) n).
      { unfold pcount in *. destruct (preds (g c) n) as [|a [|b t]]; cbn in *; try lia; tauto. }
      pose proof (i_rem _ _ I' n H2) as Hrem. rewrite Hr2, Nat.eqb_refl in Hrem.
      unfold unstepped in Hrem. rewrite filter_all_false in Hrem.
      - cbn in Hrem. subst r. cbn. apply in_or_app; right; left; reflexivity.
      - intros x Hx. apply negb_false_iff. apply memp_in. apply Hall. exact Hx. }
    apply cq_in in Hq. unfold lc. lia.
  - apply (lc_pos_step _ _ _ _ _ I H). apply P; auto. intros p Hp. specialize (Hall p Hp). rewrite Est in Hall.
    destruct Hall as [Heq|Hin]; [inversion Heq; congruence|exact Hin].
Qed.

Lemma pinv_init c : cfg_ok c -> PInv c (init c).
Proof.
  intros _ n Hn Hall. unfold lc. simpl_st.
  assert (Hs : In n (sources (g c))).
  { apply filter_In. split; auto. apply Nat.eqb_eq. unfold pcount.
    destruct (preds (g c) n) as [|a t] eqn:E; [reflexivity|]. exfalso. apply (Hall a). left; reflexivity. }
  pose proof (cq_in n (map N (sources (g c))) (in_map N _ _ Hs)). lia.
Qed.

(** * user-function outcomes agree with [fails] *)
Definition FInv (c : cfg) (s : st) : Prop :=
  (forall m, In (EOk m) (hist s) -> fails c m = false) /\ (forall m, In (EFail m) (hist s) -> fails c m = true).

Lemma step_finv c s k s' : next c s k = Some s' -> FInv c s -> FInv c s'.
Proof.
  intros H [F1 F2]. split; intros m Hin.
  - destruct (ok_new _ _ _ _ _ H Hin) as [Hold|(w & _ & _ & Hf & _)]; auto.
  - destruct (fail_new _ _ _ _ _ H Hin) as [Hold|(w & _ & _ & Hf)]; auto.
Qed.

Record CInv (c : cfg) (s : st) : Prop := { c_o : OInv c s; c_p : PInv c s; c_f : FInv c s }.

Theorem cinv_reachable c s : cfg_ok c -> reachable c s -> CInv c s.
Proof.
  intros Hc Hr. induction Hr as [|s k s' Hr IH Hn].
  - constructor; [intros p []|apply pinv_init; auto|split; intros m []].
  - pose proof (inv_reachable c s Hc Hr) as I. destruct IH as [O P F]. constructor.
    + eapply step_oinv; eauto.
    + eapply step_pinv; eauto.
    + eapply step_finv; eauto.
Qed.

(** * Order facts that follow from the core invariant *)
Lemma started_enqueued c s n : Inv c s -> In (EStart n) (hist s) -> 0 < lc n s.
Proof.
  intros I H. apply count_ev_in in H. pose proof (i_started _ _ I n).
  pose proof (csum_le (post n) (hn n) (ws s) (post_le_hn n)). unfold lc. lia.
Qed.

Lemma started_preds_ok c s n :
  Inv c s -> In (EStart n) (hist s) -> forall p, In p (preds (g c) n) -> In (EOk p) (hist s).
Proof.
  intros I H p Hp. apply (i_stepped _ _ I p n). apply (i_ready _ _ I n); auto. eapply started_enqueued; eauto.
Qed.

Lemma ok_started c s n : Inv c s -> In (EOk n) (hist s) -> In (EStart n) (hist s).
Proof. intros I H. apply count_ev_in in H. apply count_ev_in. pose proof (i_fin _ _ I n). lia. Qed.

Lemma fail_started c s n : Inv c s -> In (EFail n) (hist s) -> In (EStart n) (hist s).
Proof. intros I H. apply count_ev_in in H. apply count_ev_in. pose proof (i_fin _ _ I n). lia. Qed.

Lemma started_ancestors_ok c s n :
  Inv c s -> In (EStart n) (hist s) -> forall m, reach (g c) m n -> In (EOk m) (hist s).
Proof.
  intros I H m Hr. induction Hr as [a b Hab|a k b Hak IH Hkb].
  - apply (started_preds_ok c s b I H). apply in_preds. exact Hab.
  - apply IH. apply (ok_started c s k I). apply (started_preds_ok c s b I H). apply in_preds. exact Hkb.
Qed.

(** C06: nothing downstream of a failed call is ever started (any max_errors, workers, interleaving) *)
Theorem no_downstream c s m n :
  cfg_ok c -> reachable c s -> In (EFail m) (hist s) -> reach (g c) m n -> ~ In (EStart n) (hist s).
Proof.
  intros Hc Hr Hf Hmn Hs. pose proof (inv_reachable c s Hc Hr) as I.
  destruct (c_f c s (cinv_reachable c s Hc Hr)) as [F1 F2].
  pose proof (F1 m (started_ancestors_ok c s n I Hs m Hmn)). pose proof (F2 m Hf). congruence.
Qed.

Theorem started_no_failed_ancestor c s n :
  cfg_ok c -> reachable c s -> In (EStart n) (hist s) -> forall m, reach (g c) m n -> fails c m = false.
Proof.
  intros Hc Hr Hs m Hmn. pose proof (inv_reachable c s Hc Hr) as I.
  apply (proj1 (c_f c s (cinv_reachable c s Hc Hr))). eapply started_ancestors_ok; eauto.
Qed.

(** * The final state of an uninterrupted run *)
Lemma final_counts c s n :
  cfg_ok c -> reachable c s -> final s -> intr s = None ->
  lc n s = count_ev (EDone n) (hist s) /\
  count_ev (EStart n) (hist s) + count_ev (ESkip n) (hist s) = count_ev (EDone n) (hist s) /\
  count_ev (EStart n) (hist s) = count_ev (EOk n) (hist s) + count_ev (EFail n) (hist s).
Proof.
  intros Hc Hr Hf Hi. pose proof (inv_reachable c s Hc Hr) as I.
  destruct (final_quiet c s Hc Hr Hf Hi) as [Hq Hw].
  pose proof (csum_le (hn n) noisy (ws s) (hn_le_noisy n)).
  pose proof (csum_le (post n) (hn n) (ws s) (post_le_hn n)).
  pose proof (csum_le (runs n) (post n) (ws s) (runs_le_post n)).
  pose proof (i_started _ _ I n). pose proof (i_fin _ _ I n). specialize (Hq n). unfold lc. lia.
Qed.

Lemma final_no_succ_worker c s w p todo :
  cfg_ok c -> reachable c s -> final s -> intr s = None -> nth_error (ws s) w <> Some (WSucc p todo).
Proof.
  intros Hc Hr Hf Hi Hw. destruct (final_quiet c s Hc Hr Hf Hi) as [_ Hz].
  pose proof (csum_0_nth _ _ _ _ Hz Hw) as Hn. discriminate.
Qed.

(** every node none of whose ancestors failed in this run has been started, provided nothing was skipped *)
Lemma final_complete c s :
  cfg_ok c -> acyclic (g c) -> reachable c s -> final s -> intr s = None ->
  (forall n, ~ In (ESkip n) (hist s)) ->
  forall n, In n (nodes (g c)) -> (forall m, reach (g c) m n -> ~ In (EFail m) (hist s)) ->
            In (EStart n) (hist s).
Proof.
  intros Hc [rank Hrank] Hr Hf Hi Hns. pose proof (inv_reachable c s Hc Hr) as I.
  destruct (cinv_reachable c s Hc Hr) as [O P _].
  assert (Hind : forall r n, rank n < r -> In n (nodes (g c)) ->
            (forall m, reach (g c) m n -> ~ In (EFail m) (hist s)) -> In (EStart n) (hist s)).
  { induction r as [|r IH]; intros n Hlt Hn Hanc; [lia|].
    assert (Hlc : 0 < lc n s).
    { apply P; auto. intros p Hp. apply in_preds in Hp.
      assert (Hsp : In (EStart p) (hist s)).
      { apply IH.
        - specialize (Hrank p n Hp). lia.
        - destruct Hc as [[_ Hwf] _]. apply (Hwf p n Hp).
        - intros m Hm. apply Hanc. eapply reachS; eauto. }
      assert (Hok : In (EOk p) (hist s)).
      { destruct (final_counts c s p Hc Hr Hf Hi) as (_ & _ & E).
        apply count_ev_in in Hsp. destruct (Nat.eq_dec (count_ev (EFail p) (hist s)) 0) as [Ez|Enz].
        - apply count_ev_in. lia.
        - exfalso. apply (Hanc p (reach1 _ _ _ Hp)). apply count_ev_in. lia. }
      destruct (O p Hok) as [(w & todo & Hw)|Hall].
      - exfalso. eapply final_no_succ_worker; eauto.
      - apply Hall. apply in_succs. exact Hp. }
    destruct (final_counts c s n Hc Hr Hf Hi) as (E1 & E2 & _).
    apply count_ev_in. specialize (Hns n). rewrite <- count_ev_in in Hns. lia. }
  intros n. apply (Hind (S (rank n))). lia.
Qed.

(** * C10: max_errors = None runs everything that can run *)
Theorem none_runs_all c s :
  cfg_ok c -> acyclic (g c) -> max_errors c = None -> intr s = None -> reachable c s -> final s ->
  forall n, In n (nodes (g c)) ->
    (In (EStart n) (hist s) <-> forall m, reach (g c) m n -> fails c m = false).
Proof.
  intros Hc Ha Hm Hi Hr Hf n Hn. split.
  - intros Hs. apply (started_no_failed_ancestor c s n); auto.
  - intros Hanc. apply (final_complete c s); auto.
    + intros n'. apply (no_skip_before_limit c s n'); auto. unfold over_max. rewrite Hm. reflexivity.
    + intros m Hmn Hfl. apply (proj2 (c_f c s (cinv_reachable c s Hc Hr))) in Hfl.
      rewrite (Hanc m Hmn) in Hfl. discriminate.
Qed.

(** * C04: a successful run has executed every node exactly once *)
Lemma returned_facts c s :
  cfg_ok c -> reachable c s -> result s = Some Returned ->
  final s /\ intr s = None /\ errc s = 0 /\ forall n, ~ In (EFail n) (hist s).
Proof.
  intros Hc Hr H. unfold result in H. destruct (co s) eqn:Hco; try discriminate.
  destruct (intr s) eqn:Hi; [discriminate|]. destruct (first s) eqn:Hfi; [discriminate|].
  assert (He : errc s = 0) by (apply (first_none_iff c s Hc Hr); exact Hfi).
  repeat split; auto. apply nfail_0. rewrite (final_errc c s Hc Hr Hco Hi). exact He.
Qed.

Theorem success_exactly_once c s :
  cfg_ok c -> acyclic (g c) -> reachable c s -> final s -> result s = Some Returned ->
  forall n, In n (nodes (g c)) -> count_ev (EStart n) (hist s) = 1.
Proof.
  intros Hc Ha Hr Hf Hres n Hn. destruct (returned_facts c s Hc Hr Hres) as (_ & Hi & He & Hnf).
  assert (Hs : In (EStart n) (hist s)).
  { apply (final_complete c s); auto.
    intros n'. apply (no_skip_before_limit c s n'); auto. rewrite He. unfold over_max. destruct (max_errors c); reflexivity. }
  apply count_ev_in in Hs. pose proof (at_most_once c s n Hc Hr). lia.
Qed.

(** * C10: the number of failures of a finished run *)
(** only nodes of the graph are ever enqueued *)
Lemma enqueued_is_node c s n : cfg_ok c -> reachable c s -> 0 < lc n s -> In n (nodes (g c)).
Proof.
  intros Hc Hr. induction Hr as [|s k s' Hr IH Hn]; intros Hl.
  - unfold lc in Hl. simpl_st. rewrite csum_repeat_ns in Hl by reflexivity. rewrite cq_map_N in Hl.
    unfold count_ev in Hl. cbn [count_occ] in Hl.
    assert (In n (sources (g c))) by (apply (count_occ_In Nat.eq_dec); lia).
    apply filter_In in H. tauto.
  - pose proof (inv_reachable c s Hc Hr) as I.
    destruct (step_lc _ _ _ _ I Hn n) as [E|(_ & _ & w & p & todo & _ & Hw & Hin)]; [apply IH; lia|].
    destruct (i_succ _ _ I _ _ _ Hw) as (_ & _ & Ht). apply Ht in Hin. destruct Hin as [Hs _].
    apply in_succs in Hs. destruct Hc as [[_ Hwf] _]. apply (Hwf p n Hs).
Qed.

(** a failing node none of whose (transitive) dependencies fails: the failures a run can observe *)
Definition eligible (c : cfg) (n : nat) : Prop :=
  In n (nodes (g c)) /\ fails c n = true /\ forall m, reach (g c) m n -> fails c m = false.

Theorem failed_is_eligible c s n : cfg_ok c -> reachable c s -> In (EFail n) (hist s) -> eligible c n.
Proof.
  intros Hc Hr Hf. pose proof (inv_reachable c s Hc Hr) as I.
  pose proof (fail_started c s n I Hf) as Hs. repeat split.
  - apply (enqueued_is_node c s n Hc Hr). apply (started_enqueued c s n I Hs).
  - apply (proj2 (c_f c s (cinv_reachable c s Hc Hr))). exact Hf.
  - apply (started_no_failed_ancestor c s n Hc Hr Hs).
Qed.

Definition failed (h : list ev) : list nat :=
  flat_map (fun e => match e with EFail n => [n] | _ => [] end) h.

Lemma failed_length h : length (failed h) = nfail h.
Proof.
  induction h as [|e h IH]; [reflexivity|]. rewrite nfail_cons. cbn [failed flat_map]. rewrite app_length.
  fold (failed h). rewrite IH. destruct e; reflexivity.
Qed.

Lemma failed_count n h : count_occ Nat.eq_dec (failed h) n = count_ev (EFail n) h.
Proof.
  induction h as [|e h IH]; [reflexivity|]. rewrite count_ev_cons. cbn [failed flat_map].
  rewrite count_occ_app. fold (failed h). rewrite IH.
  destruct e; cbn [count_occ]; destruct (ev_eq_dec _ _) as [E|E]; try discriminate; try lia.
  - inversion E; subst. destruct (Nat.eq_dec n n); [lia|congruence].
  - destruct (Nat.eq_dec n0 n); [subst; congruence|lia].
Qed.

Lemma failed_in n h : In n (failed h) <-> In (EFail n) h.
Proof. rewrite (count_occ_In Nat.eq_dec), failed_count. unfold gt. apply count_ev_in. Qed.

Lemma fail_le_1 c s n : Inv c s -> count_ev (EFail n) (hist s) <= 1.
Proof. intros I. pose proof (start_le_1 c s n I). pose proof (i_fin _ _ I n). lia. Qed.

Lemma failed_nodup c s : Inv c s -> NoDup (failed (hist s)).
Proof. intros I. apply (NoDup_count_occ Nat.eq_dec). intros n. rewrite failed_count. eapply fail_le_1; eauto. Qed.

(** in every reachable state: at most the eligible nodes have failed *)
Theorem failures_le_eligible c s elig :
  cfg_ok c -> reachable c s -> (forall n, eligible c n -> In n elig) -> nfail (hist s) <= length elig.
Proof.
  intros Hc Hr He. rewrite <- failed_length. apply NoDup_incl_length.
  - apply (failed_nodup c s). apply inv_reachable; auto.
  - intros n Hn. apply He. apply (failed_is_eligible c s n Hc Hr). apply failed_in. exact Hn.
Qed.

(** a finished run that never exceeded the limit has observed every eligible failure *)
Theorem failures_all_if_not_stopped c s elig :
  cfg_ok c -> acyclic (g c) -> reachable c s -> final s -> intr s = None ->
  over_max c (errc s) = false ->
  NoDup elig -> (forall n, In n elig <-> eligible c n) -> nfail (hist s) = length elig.
Proof.
  intros Hc Ha Hr Hf Hi Ho Hnd He. apply Nat.le_antisymm.
  - apply (failures_le_eligible c s elig Hc Hr). intros n. apply He.
  - rewrite <- failed_length. apply NoDup_incl_length; [exact Hnd|].
    intros n Hn. apply He in Hn. destruct Hn as (Hn & Hfl & Hanc). apply failed_in.
    destruct (c_f c s (cinv_reachable c s Hc Hr)) as [F1 F2].
    assert (Hs : In (EStart n) (hist s)).
    { apply (final_complete c s); auto.
      - intros n'. apply (no_skip_before_limit c s n'); auto.
      - intros m Hmn Hm. apply F2 in Hm. rewrite (Hanc m Hmn) in Hm. discriminate. }
    destruct (final_counts c s n Hc Hr Hf Hi) as (_ & _ & E). apply count_ev_in in Hs.
    destruct (Nat.eq_dec (count_ev (EOk n) (hist s)) 0) as [Ez|Enz]; [apply count_ev_in; lia|].
    exfalso. assert (Hok : In (EOk n) (hist s)) by (apply count_ev_in; lia).
    apply F1 in Hok. congruence.
Qed.

(** any number of workers: the exact count, or the limit was exceeded by at most the in-flight calls *)
Theorem failures_final c s k elig :
  cfg_ok c -> acyclic (g c) -> max_errors c = Some k -> reachable c s -> final s -> intr s = None ->
  NoDup elig -> (forall n, In n elig <-> eligible c n) ->
  (errc s <= k /\ nfail (hist s) = length elig) \/
  (k < errc s /\ k + 1 <= nfail (hist s) <= k + workers c /\ nfail (hist s) <= length elig).
Proof.
  intros Hc Ha Hm Hr Hf Hi Hnd He. destruct (over_max c (errc s)) eqn:Ho.
  - right. unfold over_max in Ho. rewrite Hm in Ho. apply Nat.ltb_lt in Ho. split; [exact Ho|].
    pose proof (final_errc c s Hc Hr Hf Hi). pose proof (failures_bound c s k Hc Hr Hm).
    pose proof (failures_le_eligible c s elig Hc Hr (fun n => proj2 (He n))). lia.
  - left. split; [unfold over_max in Ho; rewrite Hm in Ho; apply Nat.ltb_ge in Ho; exact Ho|].
    apply (failures_all_if_not_stopped c s elig); auto.
Qed.

(** one worker: exactly min (k+1) (#eligible) failures *)
Theorem single_worker_exact_list c s k elig :
  cfg_ok c -> acyclic (g c) -> workers c = 1 -> max_errors c = Some k ->
  reachable c s -> final s -> intr s = None ->
  NoDup elig -> (forall n, In n elig <-> eligible c n) ->
  nfail (hist s) = min (k + 1) (length elig).
Proof.
  intros Hc Ha W Hm Hr Hf Hi Hnd He.
  pose proof (final_errc c s Hc Hr Hf Hi) as Herr.
  destruct (failures_final c s k elig Hc Ha Hm Hr Hf Hi Hnd He) as [[H1 H2]|(H1 & H2 & H3)]; lia.
Qed.

(** ** A computable characterisation of the eligible nodes *)
(** [fanc c fuel n]: some node with a path of at most [fuel] edges to [n] fails *)
Fixpoint fanc (c : cfg) (fuel : nat) (n : nat) : bool :=
  match fuel with
  | 0 => false
  | S f => existsb (fun p => fails c p || fanc c f p) (preds (g c) n)
  end.
Definition eligibleb (c : cfg) (n : nat) : bool :=
  fails c n && negb (fanc c (length (nodes (g c))) n).
Definition eligibles (c : cfg) : list nat := filter (eligibleb c) (nodes (g c)).

Lemma fanc_sound c fuel n : fanc c fuel n = true -> exists m, reach (g c) m n /\ fails c m = true.
Proof.
  revert n. induction fuel as [|f IH]; intros n H; [discriminate|]. cbn in H.
  apply existsb_exists in H. destruct H as (p & Hp & H). apply in_preds in Hp.
  apply orb_true_iff in H. destruct H as [H|H].
  - exists p. split; [apply reach1; exact Hp|exact H].
  - destruct (IH p H) as (m & Hm & Hfm). exists m. split; [eapply reachS; eauto|exact Hfm].
Qed.

Lemma rank_reach gr (rank : nat -> nat) :
  (forall a b, edge gr a b -> rank a < rank b) -> forall x y, reach gr x y -> rank x < rank y.
Proof.
  intros Hrank x y Hxy. induction Hxy as [x y Hxy|x z y _ IH Hzy].
  - apply (Hrank x y Hxy).
  - pose proof (Hrank z y Hzy). lia.
Qed.

Lemma fanc_complete c (rank : nat -> nat) :
  (forall a b, edge (g c) a b -> rank a < rank b) ->
  forall m n, reach (g c) m n -> fails c m = true -> forall fuel, rank n - rank m <= fuel -> fanc c fuel n = true.
Proof.
  intros Hrank m n Hr Hf. induction Hr as [a b Hab|a k b Hak IH Hkb]; intros fuel Hle.
  - pose proof (Hrank a b Hab). destruct fuel as [|f]; [lia|]. cbn. apply existsb_exists.
    exists a. split; [apply in_preds; exact Hab|]. rewrite Hf. reflexivity.
  - pose proof (Hrank k b Hkb). pose proof (rank_reach _ rank Hrank a k Hak).
    destruct fuel as [|f]; [lia|]. cbn. apply existsb_exists.
    exists k. split; [apply in_preds; exact Hkb|]. rewrite (IH Hf f) by lia. apply orb_true_r.
Qed.

(** an acyclic well-formed graph has a ranking bounded by the number of nodes *)
Lemma filter_lt {A} (f h : A -> bool) k l :
  (forall x, f x = true -> h x = true) -> In k l -> f k = false -> h k = true ->
  length (filter f l) < length (filter h l).
Proof.
  intros Himp. assert (Hle : forall l', length (filter f l') <= length (filter h l')).
  { induction l' as [|a l' IH]; [reflexivity|]. cbn. destruct (f a) eqn:Ef.
    - rewrite (Himp a Ef). cbn. lia.
    - destruct (h a); cbn; lia. }
  induction l as [|a l IH]; intros Hin Hfk Hhk; [destruct Hin|]. destruct Hin as [->|Hin].
  - cbn. rewrite Hfk, Hhk. cbn. specialize (Hle l). lia.
  - specialize (IH Hin Hfk Hhk). cbn. destruct (f a) eqn:Ef.
    + rewrite (Himp a Ef). cbn. lia.
    + destruct (h a); cbn; lia.
Qed.

Lemma bounded_rank gr :
  graph_wf gr -> acyclic gr ->
  exists rank : nat -> nat, (forall a b, edge gr a b -> rank a < rank b) /\
    forall n, In n (nodes gr) -> rank n < length (nodes gr).
Proof.
  intros [_ Hwf] [rank Hrank].
  exists (fun n => length (filter (fun m => rank m <? rank n) (nodes gr))). split.
  - intros a b Hab. pose proof (Hrank a b Hab) as Hlt. apply (filter_lt _ _ a).
    + intros x Hx. apply Nat.ltb_lt in Hx. apply Nat.ltb_lt. lia.
    + apply (Hwf a b Hab).
    + apply Nat.ltb_irrefl.
    + apply Nat.ltb_lt. exact Hlt.
  - intros n Hn.
    assert (Ht : forall l : list nat, length (filter (fun _ => true) l) = length l).
    { induction l as [|a l IH]; [reflexivity|]. cbn. rewrite IH. reflexivity. }
    rewrite <- (Ht (nodes gr)). apply (filter_lt _ _ n); auto. apply Nat.ltb_irrefl.
Qed.

Lemma eligibleb_spec c n :
  cfg_ok c -> acyclic (g c) -> In n (nodes (g c)) -> (eligibleb c n = true <-> eligible c n).
Proof.
  intros [Hwf _] Ha Hn. destruct (bounded_rank (g c) Hwf Ha) as (rank & Hrank & Hb).
  unfold eligibleb, eligible. rewrite andb_true_iff, negb_true_iff. split.
  - intros [Hf Hna]. repeat split; auto. intros m Hmn. destruct (fails c m) eqn:Hfm; auto.
    rewrite (fanc_complete c rank Hrank m n Hmn Hfm) in Hna; [discriminate|].
    specialize (Hb n Hn). lia.
  - intros (_ & Hf & Hanc). split; auto. destruct (fanc c (length (nodes (g c))) n) eqn:E; auto.
    destruct (fanc_sound c _ n E) as (m & Hmn & Hfm). rewrite (Hanc m Hmn) in Hfm. discriminate.
Qed.

Lemma eligibles_spec c :
  cfg_ok c -> acyclic (g c) -> NoDup (eligibles c) /\ forall n, In n (eligibles c) <-> eligible c n.
Proof.
  intros Hc Ha. split.
  - apply NoDup_filter. destruct Hc as [[Hnd _] _]. exact Hnd.
  - intros n. unfold eligibles. rewrite filter_In. split.
    + intros [Hn He]. apply eligibleb_spec; auto.
    + intros He. pose proof He as (Hn & _). split; auto. apply eligibleb_spec; auto.
Qed.

(** C10, one worker: the run observes exactly min (k+1) (#eligible failing nodes) failures *)
Theorem single_worker_exact c s k :
  cfg_ok c -> acyclic (g c) -> workers c = 1 -> max_errors c = Some k ->
  reachable c s -> final s -> intr s = None ->
  nfail (hist s) = min (k + 1) (length (filter (eligibleb c) (nodes (g c)))).
Proof.
  intros Hc Ha W Hm Hr Hf Hi. destruct (eligibles_spec c Hc Ha) as [Hnd He].
  apply (single_worker_exact_list c s k (eligibles c)); auto.
Qed.

(** any number of workers, computable form *)
Theorem failures_final_b c s k :
  cfg_ok c -> acyclic (g c) -> max_errors c = Some k -> reachable c s -> final s -> intr s = None ->
  (errc s <= k /\ nfail (hist s) = length (eligibles c)) \/
  (k < errc s /\ k + 1 <= nfail (hist s) <= k + workers c /\ nfail (hist s) <= length (eligibles c)).
Proof.
  intros Hc Ha Hm Hr Hf Hi. destruct (eligibles_spec c Hc Ha) as [Hnd He].
  apply (failures_final c s k (eligibles c)); auto.
Qed.

(** max_errors = None: every eligible failure is observed *)
Theorem none_fails_all c s :
  cfg_ok c -> acyclic (g c) -> max_errors c = None -> reachable c s -> final s -> intr s = None ->
  nfail (hist s) = length (eligibles c).
Proof.
  intros Hc Ha Hm Hr Hf Hi. destruct (eligibles_spec c Hc Ha) as [Hnd He].
  apply (failures_all_if_not_stopped c s (eligibles c)); auto. unfold over_max. rewrite Hm. reflexivity.
Qed.
