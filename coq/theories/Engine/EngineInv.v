(** Core safety invariants of the engine model (counting formulation, so that [lia] does the work). *)
From Coq Require Import List Arith Bool Lia.
Import ListNotations.
From UJ Require Import Engine.Engine Engine.EngineLemmas.

(** * Counters *)
Definition hn (n : nat) (pc : wpc) : nat :=
  match held_node pc with Some m => if m =? n then 1 else 0 | None => 0 end.
Definition post (n : nat) (pc : wpc) : nat :=
  match pc with
  | WRun m | WFail m | WSucc m _ | WTD (N m) => if m =? n then 1 else 0
  | _ => 0
  end.
Definition runs (n : nat) (pc : wpc) : nat :=
  match pc with WRun m => if m =? n then 1 else 0 | _ => 0 end.
Definition hold1 (pc : wpc) : nat := if holding pc then 1 else 0.
Definition csum (f : wpc -> nat) (l : list wpc) : nat := list_sum (map f l).
Definition cq (n : nat) (l : list item) : nat := count_occ item_eq_dec l (N n).
Definition lc (n : nat) (s : st) : nat :=
  cq n (q s) + csum (hn n) (ws s) + count_ev (EDone n) (hist s).

Definition memp (a b : nat) (l : list (nat * nat)) : bool :=
  existsb (fun e => (fst e =? a) && (snd e =? b)) l.
Definition unstepped (gr : graph) (st_ : list (nat * nat)) (x : nat) : list nat :=
  filter (fun p => negb (memp p x st_)) (preds gr x).

Lemma memp_in a b l : memp a b l = true <-> In (a, b) l.
Proof.
  unfold memp. rewrite existsb_exists. split.
  - intros ([u v] & H & E). cbn in E. apply andb_true_iff in E. destruct E as [E1 E2].
    apply Nat.eqb_eq in E1, E2. subst. auto.
  - intros H. exists (a, b). split; auto. cbn. now rewrite !Nat.eqb_refl.
Qed.

Lemma csum_app f l1 l2 : csum f (l1 ++ l2) = csum f l1 + csum f l2.
Proof. unfold csum. rewrite map_app, list_sum_app. reflexivity. Qed.
Lemma csum_cons f a l : csum f (a :: l) = f a + csum f l.
Proof. reflexivity. Qed.
Lemma csum_mid f l1 a l2 : csum f (l1 ++ a :: l2) = csum f l1 + f a + csum f l2.
Proof. rewrite csum_app, csum_cons. lia. Qed.
Lemma cq_app n l1 l2 : cq n (l1 ++ l2) = cq n l1 + cq n l2.
Proof. unfold cq. apply count_occ_app. Qed.
Lemma cq_mid n l1 it l2 :
  cq n (l1 ++ it :: l2) = cq n l1 + (if item_eq_dec it (N n) then 1 else 0) + cq n l2.
Proof.
  rewrite cq_app. unfold cq at 2. cbn. destruct (item_eq_dec it (N n)); unfold cq; lia.
Qed.
Lemma csum_le f h l : (forall pc, f pc <= h pc) -> csum f l <= csum h l.
Proof. intros H. induction l as [|a l IH]; [reflexivity|]. rewrite !csum_cons. specialize (H a). lia. Qed.
Lemma post_le_hn n pc : post n pc <= hn n pc.
Proof. destruct pc as [| |m|m|m|m t|[m|]|]; cbn; try lia; destruct (m =? n); lia. Qed.
Lemma runs_le_post n pc : runs n pc <= post n pc.
Proof. destruct pc as [| |m|m|m|m t|[m|]|]; cbn; try lia; destruct (m =? n); lia. Qed.

Lemma count_ev_cons e e' h :
  count_ev e (e' :: h) = (if ev_eq_dec e' e then 1 else 0) + count_ev e h.
Proof. unfold count_ev. cbn. destruct (ev_eq_dec e' e); lia. Qed.
Lemma count_ev_in e h : 0 < count_ev e h <-> In e h.
Proof. unfold count_ev. symmetry. apply count_occ_In. Qed.

(** * The invariant *)
Record Inv (c : cfg) (s : st) : Prop := {
  i_len : length (ws s) = workers c;
  i_nsp : nsp s <= workers c;
  i_notstarted : forall j pc, nth_error (ws s) j = Some pc -> nsp s <= j -> pc = WNotStarted;
  i_spawn : forall k, co s = CSpawn k -> nsp s = k;
  i_count : unfinished s = length (q s) + csum hold1 (ws s);
  i_once : forall n, lc n s <= 1;
  i_ready : forall n, 0 < lc n s -> forall p, In p (preds (g c) n) -> In (p, n) (stepped s);
  i_succ : forall w n todo, nth_error (ws s) w = Some (WSucc n todo) ->
      NoDup todo /\ In (EOk n) (hist s) /\
      forall x, In x todo <-> (In x (succs (g c) n) /\ ~ In (n, x) (stepped s));
  i_rem : forall x, 2 <= pcount (g c) x -> rem s x = length (unstepped (g c) (stepped s) x);
  i_stepped : forall p x, In (p, x) (stepped s) -> In (EOk p) (hist s) /\ In x (succs (g c) p);
  i_started : forall n, count_ev (EStart n) (hist s) + count_ev (ESkip n) (hist s)
                        = csum (post n) (ws s) + count_ev (EDone n) (hist s);
  i_fin : forall n, count_ev (EStart n) (hist s)
                    = csum (runs n) (ws s) + count_ev (EOk n) (hist s) + count_ev (EFail n) (hist s)
}.

Ltac simpl_st :=
  cbn [q unfinished rem ws stop errc first co nsp intr hist stepped set_ws add_ev set_co put init] in *.

(** * Initial state *)
Lemma csum_repeat_ns f k : f WNotStarted = 0 -> csum f (repeat WNotStarted k) = 0.
Proof. intros H. induction k as [|k IH]; [reflexivity|]. cbn [repeat]. rewrite csum_cons, H, IH. reflexivity. Qed.

Lemma cq_map_N n l : cq n (map N l) = count_occ Nat.eq_dec l n.
Proof.
  induction l as [|h t IH]; [reflexivity|]. unfold cq in *. cbn [map count_occ].
  destruct (item_eq_dec (N h) (N n)) as [E|E]; destruct (Nat.eq_dec h n) as [E'|E']; rewrite IH; auto.
  - inversion E; congruence.
  - subst. congruence.
Qed.

Lemma unstepped_nil gr x : unstepped gr [] x = preds gr x.
Proof. unfold unstepped. cbn. induction (preds gr x); cbn; auto. now rewrite IHl. Qed.

Lemma inv_init c : cfg_ok c -> Inv c (init c).
Proof.
  intros [[Hnd Hwf] Hw]. constructor; simpl_st.
  - apply repeat_length.
  - lia.
  - intros j pc H _. apply nth_error_In in H. apply repeat_spec in H. auto.
  - intros k H. inversion H. auto.
  - rewrite map_length, csum_repeat_ns; auto.
  - intros n. unfold lc. simpl_st. rewrite csum_repeat_ns by reflexivity. rewrite cq_map_N.
    unfold count_ev. cbn [count_occ]. assert (NoDup (sources (g c))) by (apply NoDup_filter; auto).
    pose proof (proj1 (NoDup_count_occ Nat.eq_dec _) H n). lia.
  - intros n. unfold lc. simpl_st. rewrite csum_repeat_ns by reflexivity. rewrite cq_map_N.
    unfold count_ev. cbn [count_occ]. intros H p Hp. exfalso.
    assert (In n (sources (g c))). { apply (count_occ_In Nat.eq_dec). lia. }
    apply filter_In in H0. destruct H0 as [_ H0]. apply Nat.eqb_eq in H0. unfold pcount in H0.
    destruct (preds (g c) n); cbn in *; [tauto|discriminate].
  - intros w n todo H. apply nth_error_In in H. apply repeat_spec in H. discriminate.
  - intros x _. rewrite unstepped_nil. reflexivity.
  - intros p x [].
  - intros n. unfold count_ev. cbn [count_occ]. rewrite csum_repeat_ns; auto.
  - intros n. unfold count_ev. cbn [count_occ]. rewrite csum_repeat_ns; auto.
Qed.

(** * Step analysis *)
Ltac inv_next H :=
  unfold next in H;
  repeat match type of H with
  | context [match ?x with _ => _ end] => destruct x eqn:?; try discriminate
  end;
  inversion H; subst; clear H; simpl_st.

Ltac split_ws :=
  match goal with
  | H : nth_error (ws ?s) ?w = Some ?pc |- context [upd ?w ?pc' (ws ?s)] =>
      let l1 := fresh "l1" in let l2 := fresh "l2" in let E := fresh "Ews" in
      let L := fresh "Hlen" in let U := fresh "Eupd" in
      destruct (nth_error_split_upd (ws s) w pc pc' H) as (l1 & l2 & E & L & U);
      rewrite U; clear U; rewrite E in *
  end.

Ltac split_q :=
  match goal with
  | H : nth_error (q ?s) ?i = Some ?it |- context [remove_nth ?i (q ?s)] =>
      let l1 := fresh "q1" in let l2 := fresh "q2" in let E := fresh "Eq" in
      let L := fresh "Hqlen" in let U := fresh "Erem" in
      destruct (nth_error_split_remove (q s) i it H) as (l1 & l2 & E & L & U);
      rewrite U; clear U; rewrite E in *
  end.

Lemma step_shape c s k s' :
  Inv c s -> next c s k = Some s' ->
  length (ws s') = workers c /\ nsp s' <= workers c /\
  (forall j pc, nth_error (ws s') j = Some pc -> nsp s' <= j -> pc = WNotStarted) /\
  (forall k, co s' = CSpawn k -> nsp s' = k).
Proof.
  intros I H. pose proof (i_len _ _ I) as Hl. pose proof (i_nsp _ _ I) as Hn.
  pose proof (i_notstarted _ _ I) as Hns. pose proof (i_spawn _ _ I) as Hsp.
  inv_next H; rewrite ?upd_length; repeat split; auto; try lia;
    try (intros j pc Hj Hge; apply nth_error_upd_inv in Hj;
         destruct Hj as [(-> & -> & Hlt)|(Hne & Hj)]; [|eauto];
         match goal with Hw : nth_error (ws s) _ = Some _ |- _ =>
           apply Hns in Hw; [discriminate|lia] end);
    try (intros k' Hk'; try discriminate; eauto).
  - apply Nat.ltb_lt in Heqb. lia.
  - intros Hj Hge. apply nth_error_upd_inv in Hj. destruct Hj as [(-> & _)|(Hne & Hj)]; [lia|].
    apply (Hns _ _ Hj). rewrite (Hsp _ eq_refl). lia.
  - inversion Hk'. reflexivity.
Qed.

Lemma spawn_slot c s k0 :
  Inv c s -> co s = CSpawn k0 -> k0 < workers c -> nth_error (ws s) k0 = Some WNotStarted.
Proof.
  intros I Hc Hlt. destruct (nth_error (ws s) k0) eqn:E.
  - f_equal. eapply (i_notstarted _ _ I); eauto. rewrite (i_spawn _ _ I _ Hc). lia.
  - apply nth_error_None in E. rewrite (i_len _ _ I) in E. lia.
Qed.

Ltac spawn_case I :=
  match goal with
  | Hc : co ?s = CSpawn ?k0, Hb : (?k0 <? workers ?c) = true |- _ =>
      let Hs := fresh "Hslot" in
      pose proof (spawn_slot c s k0 I Hc (proj1 (Nat.ltb_lt _ _) Hb)) as Hs
  end.

Lemma step_count c s k s' :
  Inv c s -> next c s k = Some s' -> unfinished s' = length (q s') + csum hold1 (ws s').
Proof.
  intros I H. pose proof (i_count _ _ I) as Hc.
  inv_next H; try spawn_case I; try split_ws; try split_q;
    rewrite ?csum_mid, ?app_length in *; cbn [length hold1 holding] in *; try lia.
Qed.

Ltac eqb_norm :=
  repeat match goal with
  | H : (_ =? _) = true |- _ => apply Nat.eqb_eq in H
  | H : (_ =? _) = false |- _ => apply Nat.eqb_neq in H
  end.

Ltac cases :=
  repeat match goal with
  | |- context [if ?b then _ else _] => destruct b eqn:?
  | H : context [if ?b then _ else _] |- _ => destruct b eqn:?
  end; eqb_norm; subst; try congruence; try lia.

Lemma step_started c s k s' :
  Inv c s -> next c s k = Some s' ->
  forall n, count_ev (EStart n) (hist s') + count_ev (ESkip n) (hist s')
            = csum (post n) (ws s') + count_ev (EDone n) (hist s').
Proof.
  intros I H n. pose proof (i_started _ _ I n) as Hc.
  inv_next H; try spawn_case I; try split_ws; try split_q;
    rewrite ?csum_mid, ?count_ev_cons in *; cbn [post] in *; cases.
Qed.

Lemma step_fin c s k s' :
  Inv c s -> next c s k = Some s' ->
  forall n, count_ev (EStart n) (hist s')
            = csum (runs n) (ws s') + count_ev (EOk n) (hist s') + count_ev (EFail n) (hist s').
Proof.
  intros I H n. pose proof (i_fin _ _ I n) as Hc.
  inv_next H; try spawn_case I; try split_ws; try split_q;
    rewrite ?csum_mid, ?count_ev_cons in *; cbn [runs] in *; cases.
Qed.

Lemma cq_single n it : cq n [it] = if item_eq_dec it (N n) then 1 else 0.
Proof. unfold cq. cbn. destruct (item_eq_dec it (N n)); reflexivity. Qed.

Lemma cq_cons n it l : cq n (it :: l) = (if item_eq_dec it (N n) then 1 else 0) + cq n l.
Proof. unfold cq. cbn. destruct (item_eq_dec it (N n)); lia. Qed.

Lemma cq_nil n : cq n [] = 0.
Proof. reflexivity. Qed.

Ltac inj_items :=
  repeat match goal with
  | H : N _ = N _ |- _ => inversion H; clear H
  | H : EStart _ = EStart _ |- _ => inversion H; clear H
  | H : EDone _ = EDone _ |- _ => inversion H; clear H
  | H : EOk _ = EOk _ |- _ => inversion H; clear H
  end.

Ltac cases2 :=
  repeat match goal with
  | |- context [if ?b then _ else _] => destruct b eqn:?
  | H : context [if ?b then _ else _] |- _ => destruct b eqn:?
  end; eqb_norm; inj_items; subst; try congruence; try lia.

(** A successor still in some worker's todo list has never been enqueued. *)
Lemma todo_fresh c s w n todo x :
  Inv c s -> nth_error (ws s) w = Some (WSucc n todo) -> In x todo -> lc x s = 0.
Proof.
  intros I Hw Hx. destruct (i_succ _ _ I _ _ _ Hw) as (_ & _ & Ht).
  apply Ht in Hx. destruct Hx as [Hs Hns].
  destruct (Nat.eq_dec (lc x s) 0) as [|Hne]; auto. exfalso. apply Hns.
  apply (i_ready _ _ I x); [lia|]. apply in_preds. apply in_succs in Hs. exact Hs.
Qed.

Lemma step_lc c s k s' :
  Inv c s -> next c s k = Some s' ->
  forall n, lc n s' = lc n s \/
            (lc n s = 0 /\ lc n s' = 1 /\ exists w p todo, k = KSucc w n /\
               nth_error (ws s) w = Some (WSucc p todo) /\ In n todo).
Proof.
  intros I H n.
  unfold next in H.
  destruct k; repeat match type of H with
  | context [match ?x with _ => _ end] => destruct x eqn:?; try discriminate
  end; inversion H; subst; clear H; simpl_st; try spawn_case I.
  all: try (left; unfold lc; simpl_st; try split_ws; try split_q;
       rewrite ?cq_mid, ?cq_app, ?cq_cons, ?cq_nil, ?csum_mid, ?count_ev_cons in *; cbn [hn held_node] in *; cases2; fail).
  all: match goal with Hex : existsb _ _ = true |- _ => apply existsb_eqb_in in Hex end.
  all: match goal with Hw : nth_error (ws _) _ = Some (WSucc _ _), Hx : In _ _ |- _ =>
         pose proof (todo_fresh _ _ _ _ _ _ I Hw Hx) as Hfresh end.
  all: destruct (Nat.eq_dec s0 n) as [->|Hne];
       [right; split; [exact Hfresh|]; split; [|eauto 10] | left];
       unfold lc in *; simpl_st; try split_ws;
       rewrite ?cq_mid, ?cq_app, ?cq_cons, ?cq_nil, ?csum_mid, ?count_ev_cons in *; cbn [hn held_node] in *; cases2.
Qed.

Lemma step_once c s k s' : Inv c s -> next c s k = Some s' -> forall n, lc n s' <= 1.
Proof.
  intros I H n. pose proof (i_once _ _ I n). destruct (step_lc _ _ _ _ I H n) as [E|(_ & E & _)]; lia.
Qed.

(** Shape of the successor step. *)
Lemma next_succ c s w x s' :
  next c s (KSucc w x) = Some s' ->
  exists p todo, nth_error (ws s) w = Some (WSucc p todo) /\ In x todo /\
    stepped s' = (p, x) :: stepped s /\ hist s' = hist s /\
    ws s' = upd w (WSucc p (remove_first x todo)) (ws s) /\
    ((pcount (g c) x = 1 /\ q s' = q s ++ [N x] /\ rem s' = rem s) \/
     (pcount (g c) x <> 1 /\ exists r, rem s x = S r /\
        (forall y, rem s' y = if y =? x then r else rem s y) /\
        q s' = if r =? 0 then q s ++ [N x] else q s)).
Proof.
  intros H. inv_next H;
    match goal with Hex : existsb _ _ = true |- _ => apply existsb_eqb_in in Hex end;
    eqb_norm; do 2 eexists; (split; [reflexivity|]); (split; [assumption|]);
    repeat (split; [reflexivity|]).
  - left. auto.
  - right. split; auto. eexists. split; [reflexivity|]. split; [reflexivity|]. subst. reflexivity.
  - right. split; auto. eexists. split; [reflexivity|]. split; [reflexivity|].
    destruct (n0 =? 0) eqn:E; [apply Nat.eqb_eq in E; congruence|reflexivity].
Qed.

Lemma next_other_stepped c s k s' :
  next c s k = Some s' -> (forall w x, k <> KSucc w x) -> stepped s' = stepped s /\ rem s' = rem s.
Proof.
  intros H Hk. destruct k; try (exfalso; eapply Hk; reflexivity); inv_next H; auto.
Qed.

Lemma stepped_mono c s k s' : next c s k = Some s' -> incl (stepped s) (stepped s').
Proof.
  intros H. destruct k; try (destruct (next_other_stepped _ _ _ _ H) as [-> _]; [congruence|apply incl_refl]).
  destruct (next_succ _ _ _ _ _ H) as (p & todo & _ & _ & -> & _). apply incl_tl, incl_refl.
Qed.

Lemma hist_mono c s k s' : next c s k = Some s' -> incl (hist s) (hist s').
Proof.
  intros H. inv_next H; try apply incl_refl; try (apply incl_tl, incl_refl).
Qed.

Lemma csum_ge1 f l w a : nth_error l w = Some a -> f a <= csum f l.
Proof.
  intros H. destruct (nth_error_split_upd l w a a H) as (l1 & l2 & -> & _ & _). rewrite csum_mid. lia.
Qed.

Lemma csum_ge2 f l w w' a b :
  nth_error l w = Some a -> nth_error l w' = Some b -> w <> w' -> f a + f b <= csum f l.
Proof.
  intros H H' Hne. destruct (nth_error_split_upd l w a a H) as (l1 & l2 & -> & Hl & _).
  rewrite csum_mid. subst w.
  destruct (Nat.lt_ge_cases w' (length l1)) as [Hlt|Hge].
  - rewrite nth_error_app1 in H' by auto. pose proof (csum_ge1 f _ _ _ H'). lia.
  - rewrite nth_error_app2 in H' by auto. destruct (w' - length l1) eqn:E; [lia|]. cbn in H'.
    pose proof (csum_ge1 f _ _ _ H'). lia.
Qed.

Lemma hn_held n pc : held_node pc = Some n -> hn n pc = 1.
Proof. unfold hn. intros ->. now rewrite Nat.eqb_refl. Qed.

Lemma held_unique c s w w' pc pc' n :
  Inv c s -> nth_error (ws s) w = Some pc -> nth_error (ws s) w' = Some pc' ->
  held_node pc = Some n -> held_node pc' = Some n -> w = w'.
Proof.
  intros I H H' Hh Hh'. destruct (Nat.eq_dec w w') as [|Hne]; auto. exfalso.
  pose proof (csum_ge2 (hn n) _ _ _ _ _ H H' Hne) as Hc.
  rewrite (hn_held _ _ Hh), (hn_held _ _ Hh') in Hc.
  pose proof (i_once _ _ I n). unfold lc in *. lia.
Qed.

Lemma start_le_1 c s n : Inv c s -> count_ev (EStart n) (hist s) <= 1.
Proof.
  intros I. pose proof (i_started _ _ I n). pose proof (i_once _ _ I n). unfold lc in *.
  pose proof (csum_le (post n) (hn n) (ws s) (post_le_hn n)). lia.
Qed.

Lemma run_not_finished c s w n :
  Inv c s -> nth_error (ws s) w = Some (WRun n) -> ~ In (EOk n) (hist s) /\ ~ In (EFail n) (hist s).
Proof.
  intros I H. pose proof (start_le_1 _ _ n I). pose proof (i_fin _ _ I n).
  pose proof (csum_ge1 (runs n) _ _ _ H) as Hr. cbn in Hr. rewrite Nat.eqb_refl in Hr.
  rewrite <- !count_ev_in. lia.
Qed.

Lemma got_not_started c s w n :
  Inv c s -> nth_error (ws s) w = Some (WGot n) -> ~ In (EStart n) (hist s) /\ ~ In (ESkip n) (hist s).
Proof.
  intros I H. pose proof (i_started _ _ I n) as Hs. pose proof (i_once _ _ I n) as Ho. unfold lc in Ho.
  destruct (nth_error_split_upd _ _ _ (WGot n) H) as (l1 & l2 & E & _ & _). rewrite E in *.
  rewrite !csum_mid in *. cbn [post hn held_node] in *. rewrite Nat.eqb_refl in Ho.
  pose proof (csum_le (post n) (hn n) l1 (post_le_hn n)).
  pose proof (csum_le (post n) (hn n) l2 (post_le_hn n)).
  rewrite <- !count_ev_in. lia.
Qed.

Lemma step_stepped c s k s' :
  Inv c s -> next c s k = Some s' ->
  forall p x, In (p, x) (stepped s') -> In (EOk p) (hist s') /\ In x (succs (g c) p).
Proof.
  intros I H p x Hin. pose proof (hist_mono _ _ _ _ H) as Hm.
  destruct k; try (destruct (next_other_stepped _ _ _ _ H) as [E _]; [congruence|];
                   rewrite E in Hin; destruct (i_stepped _ _ I _ _ Hin); split; auto).
  destruct (next_succ _ _ _ _ _ H) as (p0 & todo & Hw & Hx & E & Eh & _).
  rewrite E in Hin. destruct Hin as [Hin|Hin].
  - inversion Hin; subst. destruct (i_succ _ _ I _ _ _ Hw) as (_ & Hok & Ht). split; [auto|].
    apply Ht in Hx. tauto.
  - destruct (i_stepped _ _ I _ _ Hin); split; auto.
Qed.

Lemma filter_remove_one (f : nat -> bool) (p : nat) (l : list nat) :
  NoDup l -> In p l -> f p = true ->
  length (filter f l) = S (length (filter (fun y => f y && negb (y =? p)) l)).
Proof.
  induction l as [|h t IH]; intros Hnd Hin Hf; [destruct Hin|].
  inversion Hnd as [|? ? Hnotin Hnd']; subst. cbn [filter].
  destruct Hin as [->|Hin].
  - rewrite Hf, Nat.eqb_refl. cbn [andb negb length]. f_equal.
    f_equal. apply filter_ext_in. intros y Hy. destruct (y =? p) eqn:E.
    + apply Nat.eqb_eq in E. subst. tauto.
    + now rewrite andb_true_r.
  - destruct (h =? p) eqn:E; [apply Nat.eqb_eq in E; subst; tauto|].
    cbn [negb]. rewrite andb_true_r. destruct (f h); cbn [length]; rewrite (IH Hnd' Hin Hf); reflexivity.
Qed.

Lemma unstepped_cons_other gr p x0 st_ y : y <> x0 -> unstepped gr ((p, x0) :: st_) y = unstepped gr st_ y.
Proof.
  intros Hne. unfold unstepped. apply filter_ext. intros a. unfold memp. cbn.
  destruct (x0 =? y) eqn:E; [apply Nat.eqb_eq in E; congruence|]. now rewrite andb_false_r.
Qed.

Lemma unstepped_cons_same gr p x0 st_ :
  In p (preds gr x0) -> ~ In (p, x0) st_ ->
  length (unstepped gr st_ x0) = S (length (unstepped gr ((p, x0) :: st_) x0)).
Proof.
  intros Hp Hn. unfold unstepped.
  rewrite (filter_remove_one _ p _ (preds_nodup gr x0) Hp).
  - f_equal. f_equal. apply filter_ext. intros a. unfold memp. cbn. rewrite Nat.eqb_refl, andb_true_r.
    rewrite negb_orb. rewrite (Nat.eqb_sym p a). apply andb_comm.
  - apply negb_true_iff. apply not_true_iff_false. rewrite memp_in. exact Hn.
Qed.

Lemma step_rem c s k s' :
  Inv c s -> next c s k = Some s' ->
  forall x, 2 <= pcount (g c) x -> rem s' x = length (unstepped (g c) (stepped s') x).
Proof.
  intros I H x Hx. pose proof (i_rem _ _ I x Hx) as Hr.
  destruct k; try (destruct (next_other_stepped _ _ _ _ H) as [E1 E2]; [congruence|]; rewrite E1, E2; exact Hr).
  destruct (next_succ _ _ _ _ _ H) as (p & todo & Hw & Hin & E & _ & _ & Hcase). rewrite E.
  destruct (i_succ _ _ I _ _ _ Hw) as (_ & _ & Ht). apply Ht in Hin. destruct Hin as [Hs Hns].
  assert (Hp : In p (preds (g c) s0)) by (apply in_preds; apply in_succs in Hs; exact Hs).
  destruct (Nat.eq_dec x s0) as [->|Hne].
  - destruct Hcase as [(Hone & _)|(_ & r & Hr1 & Hr2 & _)]; [lia|].
    rewrite Hr2, Nat.eqb_refl. pose proof (unstepped_cons_same _ _ _ _ Hp Hns). lia.
  - rewrite unstepped_cons_other by auto.
    destruct Hcase as [(_ & _ & ->)|(_ & r & _ & Hr2 & _)]; [exact Hr|].
    rewrite Hr2. destruct (x =? s0) eqn:E'; [apply Nat.eqb_eq in E'; congruence|exact Hr].
Qed.

(** guard of the decrement: never 0 when reached *)
Lemma rem_pos c s w p todo x :
  Inv c s -> nth_error (ws s) w = Some (WSucc p todo) -> In x todo -> pcount (g c) x <> 1 -> 1 <= rem s x.
Proof.
  intros I Hw Hin Hpc. destruct (i_succ _ _ I _ _ _ Hw) as (_ & _ & Ht). apply Ht in Hin.
  destruct Hin as [Hs Hns].
  assert (Hp : In p (preds (g c) x)) by (apply in_preds; apply in_succs in Hs; exact Hs).
  assert (2 <= pcount (g c) x).
  { unfold pcount in *. destruct (preds (g c) x) as [|a [|b t]]; cbn in *; try lia; tauto. }
  rewrite (i_rem _ _ I x H). pose proof (unstepped_cons_same _ _ _ _ Hp Hns). lia.
Qed.

Lemma filter_len1_all (f : nat -> bool) p l :
  NoDup l -> In p l -> f p = true -> length (filter f l) = 1 -> forall y, In y l -> f y = true -> y = p.
Proof.
  intros Hnd Hin Hf Hlen y Hy Hfy. destruct (Nat.eq_dec y p) as [|Hne]; auto. exfalso.
  rewrite (filter_remove_one f p l Hnd Hin Hf) in Hlen.
  assert (In y (filter (fun y => f y && negb (y =? p)) l)).
  { apply filter_In. split; auto. rewrite Hfy. apply Nat.eqb_neq in Hne. now rewrite Hne. }
  destruct (filter (fun y0 : nat => f y0 && negb (y0 =? p)) l); [destruct H|cbn in Hlen; lia].
Qed.

Lemma step_ready c s k s' :
  Inv c s -> next c s k = Some s' ->
  forall n, 0 < lc n s' -> forall p, In p (preds (g c) n) -> In (p, n) (stepped s').
Proof.
  intros I H n Hl p Hp. pose proof (stepped_mono _ _ _ _ H) as Hm.
  destruct (step_lc _ _ _ _ I H n) as [E|(E0 & E1 & w & p0 & todo & -> & Hw & Hin)].
  - apply Hm. apply (i_ready _ _ I n); [lia|exact Hp].
  - destruct (next_succ _ _ _ _ _ H) as (p1 & todo1 & Hw1 & _ & Est & Eh & Ews & Hcase).
    rewrite Hw in Hw1. inversion Hw1; subst p1 todo1. rewrite Est.
    destruct (i_succ _ _ I _ _ _ Hw) as (_ & _ & Ht). apply Ht in Hin. destruct Hin as [Hs Hns].
    assert (Hp0 : In p0 (preds (g c) n)) by (apply in_preds; apply in_succs in Hs; exact Hs).
    destruct (Nat.eq_dec p p0) as [->|Hne]; [left; reflexivity|right].
    destruct Hcase as [(Hone & _)|(Hnone & r & Hr1 & Hr2 & Hq)].
    + exfalso. unfold pcount in Hone. pose proof (preds_nodup (g c) n).
      destruct (preds (g c) n) as [|a [|b t]]; cbn in *; lia.
    + assert (H2 : 2 <= pcount (g c) n).
      { unfold pcount in *. destruct (preds (g c) n) as [|a [|b t]]; cbn in *; try lia; tauto. }
      destruct (r =? 0) eqn:Er.
      * apply Nat.eqb_eq in Er. subst r. pose proof (i_rem _ _ I n H2) as Hrem. rewrite Hr1 in Hrem.
        apply memp_in. destruct (memp p n (stepped s)) eqn:Em; auto. exfalso. apply Hne.
        unfold unstepped in Hrem.
        apply (filter_len1_all (fun q0 => negb (memp q0 n (stepped s))) p0 (preds (g c) n)); auto.
        -- apply preds_nodup.
        -- apply negb_true_iff. apply not_true_iff_false. rewrite memp_in. exact Hns.
        -- now rewrite Em.
      * (* no put: lc unchanged, contradiction *)
        exfalso. unfold lc in E0, E1. rewrite Hq, Eh, Ews in E1.
        destruct (nth_error_split_upd _ _ _ (WSucc p0 (remove_first n todo)) Hw) as (l1 & l2 & El & _ & Eu).
        rewrite Eu in E1. rewrite El in E0. rewrite !csum_mid in *. cbn [hn held_node] in *. lia.
Qed.

Lemma step_succ c s k s' :
  Inv c s -> next c s k = Some s' ->
  forall w' n todo, nth_error (ws s') w' = Some (WSucc n todo) ->
    NoDup todo /\ In (EOk n) (hist s') /\
    forall x, In x todo <-> (In x (succs (g c) n) /\ ~ In (n, x) (stepped s')).
Proof.
  intros I H w' n todo Hn. pose proof (hist_mono _ _ _ _ H) as Hm.
  destruct k.
  all: try (destruct (next_other_stepped _ _ _ _ H) as [Est _]; [congruence|]; rewrite Est).
  all: try (assert (Hold : forall w0, nth_error (ws s) w0 = Some (WSucc n todo) ->
       NoDup todo /\ In (EOk n) (hist s') /\
       (forall x, In x todo <-> In x (succs (g c) n) /\ ~ In (n, x) (stepped s)))
     by (intros w0 Hw0; destruct (i_succ _ _ I _ _ _ Hw0) as (A & B & C); auto)).
  (* every non-successor step except FnEnd: the stepping worker's new pc is not WSucc *)
  all: try (inv_next H; try (apply nth_error_upd_inv in Hn;
            destruct Hn as [(-> & Hd & _)|(_ & Hn)]; [try discriminate|]); eauto; fail).
  - (* KFnEnd *)
    inv_next H; apply nth_error_upd_inv in Hn; destruct Hn as [(-> & Hd & _)|(_ & Hn)];
      try discriminate; eauto.
    inversion Hd; subst. split; [apply succs_nodup|]. split; [left; reflexivity|].
    intros x. split; [|tauto]. intros Hx. split; auto. intros Hst.
    destruct (i_stepped _ _ I _ _ Hst) as [Hok _].
    destruct (run_not_finished _ _ _ _ I Heqo). tauto.
  - (* KSucc *)
    destruct (next_succ _ _ _ _ _ H) as (p & todo0 & Hw & Hin & Est & Eh & Ews & _).
    rewrite Ews in Hn. rewrite Est, Eh. apply nth_error_upd_inv in Hn.
    destruct (i_succ _ _ I _ _ _ Hw) as (Hnd0 & Hok0 & Ht0).
    destruct Hn as [(-> & Hd & _)|(Hne & Hn)].
    + inversion Hd; subst. destruct (remove_first_split _ _ Hin) as (l1 & l2 & E1 & E2 & Hnot).
      rewrite E2. rewrite E1 in Hnd0. pose proof (NoDup_remove_1 _ _ _ Hnd0) as Hnd1.
      pose proof (NoDup_remove_2 _ _ _ Hnd0) as Hnd2.
      split; [exact Hnd1|]. split; [exact Hok0|]. intros x. split.
      * intros Hx. assert (Hx0 : In x todo0).
        { rewrite E1. apply in_app_iff. apply in_app_iff in Hx. cbn. tauto. }
        apply Ht0 in Hx0. split; [tauto|]. intros [Heq|Hst]; [|tauto].
        inversion Heq; subst. apply Hnd2. exact Hx.
      * intros [Hx Hns]. assert (Hx0 : In x todo0).
        { apply Ht0. split; auto. intros Hst. apply Hns. right. exact Hst. }
        rewrite E1 in Hx0. apply in_app_iff in Hx0. apply in_app_iff. cbn in Hx0.
        destruct Hx0 as [?|[->|?]]; auto. exfalso. apply Hns. left. reflexivity.
    + destruct (i_succ _ _ I _ _ _ Hn) as (A & B & C). split; [exact A|]. split; [exact B|].
      intros x. rewrite (C x). split; intros [Hx Hns]; split; auto.
      * intros [Heq|Hst]; [|tauto]. inversion Heq; subst. apply Hne.
        eapply (held_unique _ _ _ _ _ _ _ I Hn Hw); reflexivity.
      * intros Hst. apply Hns. right. exact Hst.
Qed.

Lemma inv_step c s k s' : Inv c s -> next c s k = Some s' -> Inv c s'.
Proof.
  intros I H. destruct (step_shape _ _ _ _ I H) as (A & B & C & D).
  constructor; auto.
  - eapply step_count; eauto.
  - eapply step_once; eauto.
  - eapply step_ready; eauto.
  - eapply step_succ; eauto.
  - eapply step_rem; eauto.
  - eapply step_stepped; eauto.
  - eapply step_started; eauto.
  - eapply step_fin; eauto.
Qed.

Theorem inv_reachable c s : cfg_ok c -> reachable c s -> Inv c s.
Proof.
  intros Hc Hr. induction Hr as [|s k s' Hr IH Hn].
  - apply inv_init; auto.
  - eapply inv_step; eauto.
Qed.

(** C04: no call is started more than once, in any run, failing or not. *)
Theorem at_most_once c s n : cfg_ok c -> reachable c s -> count_ev (EStart n) (hist s) <= 1.
Proof. intros Hc Hr. apply (start_le_1 c). apply inv_reachable; auto. Qed.
