(** Theorems about Engine/Retry.v (referenced from Props/C10.v by the integrator). *)
From Coq Require Import List Arith ZArith Bool Lia.
Import ListNotations.
From UJ Require Import Engine.Retry.

(** generalised loop facts: started at attempt index [i] with [n - i] iterations left *)
Lemma loop_attempts f n : forall fuel i, i + fuel = n -> (snd (loop f n i fuel) <= n)%nat.
Proof.
  induction fuel as [|fu IH]; intros i H; cbn [loop].
  - cbn. lia.
  - destruct (f i); cbn [snd]; try lia. destruct (Nat.eqb (S i) n); cbn [snd]; [lia|]. apply IH. lia.
Qed.

Lemma loop_first_success f n v : forall fuel i j,
  i + fuel = n -> (i <= j)%nat -> (j < n)%nat ->
  (forall k, (i <= k < j)%nat -> exists e, f k = ExcRetryable e) -> f j = OOk v ->
  loop f n i fuel = (ROk v, S j).
Proof.
  induction fuel as [|fu IH]; intros i j H Hij Hjn Hbefore Hj.
  - lia.
  - cbn [loop]. destruct (Nat.eq_dec i j) as [->|Hne].
    + now rewrite Hj.
    + destruct (Hbefore i ltac:(lia)) as (e & ->).
      assert (E : Nat.eqb (S i) n = false) by (apply Nat.eqb_neq; lia). rewrite E.
      apply IH; try lia; try assumption. intros k Hk. apply Hbefore. lia.
Qed.

Lemma loop_first_other f n e : forall fuel i j,
  i + fuel = n -> (i <= j)%nat -> (j < n)%nat ->
  (forall k, (i <= k < j)%nat -> exists e', f k = ExcRetryable e') -> f j = ExcOther e ->
  loop f n i fuel = (RRaise e, S j).
Proof.
  induction fuel as [|fu IH]; intros i j H Hij Hjn Hbefore Hj.
  - lia.
  - cbn [loop]. destruct (Nat.eq_dec i j) as [->|Hne].
    + now rewrite Hj.
    + destruct (Hbefore i ltac:(lia)) as (e' & ->).
      assert (E : Nat.eqb (S i) n = false) by (apply Nat.eqb_neq; lia). rewrite E.
      apply IH; try lia; try assumption. intros k Hk. apply Hbefore. lia.
Qed.

Lemma loop_exhausted f n (exc : nat -> nat) : forall fuel i,
  i + fuel = n -> (0 < fuel)%nat -> (forall k, (i <= k < n)%nat -> f k = ExcRetryable (exc k)) ->
  loop f n i fuel = (RRaise (exc (n - 1)%nat), n).
Proof.
  induction fuel as [|fu IH]; intros i H Hpos Hall; [lia|]. cbn [loop]. rewrite (Hall i) by lia.
  destruct (Nat.eqb (S i) n) eqn:E.
  - apply Nat.eqb_eq in E. repeat f_equal; lia.
  - apply Nat.eqb_neq in E. apply IH; try lia. intros k Hk. apply Hall. lia.
Qed.

Lemma loop_result_inv f n : forall fuel i r a,
  i + fuel = n -> loop f n i fuel = (r, a) ->
  (i <= a <= n)%nat /\
  match r with
  | ROk v => (0 < a)%nat /\ f (a - 1)%nat = OOk v /\ forall k, (i <= k < a - 1)%nat -> exists e, f k = ExcRetryable e
  | RRaise e => (0 < a)%nat /\ (f (a - 1)%nat = ExcOther e \/ (f (a - 1)%nat = ExcRetryable e /\ a = n)) /\
                forall k, (i <= k < a - 1)%nat -> exists e', f k = ExcRetryable e'
  | RNone => fuel = O
  | RValueError => False
  end.
Proof.
  induction fuel as [|fu IH]; intros i r a H Hl; cbn [loop] in Hl.
  - inversion Hl; subst r a. split; [lia|reflexivity].
  - destruct (f i) as [v|e|e] eqn:Ef.
    + inversion Hl; subst r a. replace (S i - 1)%nat with i by lia. split; [lia|]. split; [lia|]. split; [assumption|]. intros k Hk. lia.
    + destruct (Nat.eqb (S i) n) eqn:E.
      * apply Nat.eqb_eq in E. inversion Hl; subst r a. replace (S i - 1)%nat with i by lia. split; [lia|]. split; [lia|].
        split; [right; split; [assumption|exact E]|]. intros k Hk. lia.
      * apply Nat.eqb_neq in E. destruct (IH (S i) r a ltac:(lia) Hl) as (Ha & Hr). split; [lia|].
        assert (Hext : forall k, (i <= k < a - 1)%nat -> (S i <= k < a - 1)%nat \/ k = i) by (intros; lia).
        destruct r as [v| e'| |]; try exact Hr.
        -- destruct Hr as (A & B & C). split; [assumption|]. split; [assumption|]. intros k Hk.
           destruct (Hext k Hk) as [Hk'| ->]; [now apply C|eauto].
        -- destruct Hr as (A & B & C). split; [assumption|]. split; [assumption|]. intros k Hk.
           destruct (Hext k Hk) as [Hk'| ->]; [now apply C|eauto].
        -- lia.
    + inversion Hl; subst r a. replace (S i - 1)%nat with i by lia. split; [lia|]. split; [lia|]. split; [now left|]. intros k Hk. lia.
Qed.

(** * the theorems *)

(** at most n attempts (none for attempts < 1: create_retry raises ValueError) *)
Theorem retry_attempts_le (attempts : Z) (f : nat -> outcome) :
  (Z.of_nat (snd (retry_call attempts f)) <= Z.max attempts 0)%Z.
Proof.
  unfold retry_call. destruct (attempts <? 1)%Z eqn:E1; [cbn; lia|]. apply Z.ltb_ge in E1.
  destruct (attempts =? 1)%Z eqn:E2; [apply Z.eqb_eq in E2; subst; cbn; lia|].
  pose proof (loop_attempts f (Z.to_nat attempts) (Z.to_nat attempts) O ltac:(lia)). lia.
Qed.

(** attempts stop at the first success: exactly j+1 attempts are made and the value is returned *)
Theorem retry_stops_at_first_success (attempts : Z) (f : nat -> outcome) (j : nat) (v : Z) :
  (Z.of_nat j < attempts)%Z ->
  (forall k, (k < j)%nat -> exists e, f k = ExcRetryable e) -> f j = OOk v ->
  retry_call attempts f = (ROk v, S j).
Proof.
  intros Hj Hbefore Hok. unfold retry_call.
  assert (E1 : (attempts <? 1)%Z = false) by (apply Z.ltb_ge; lia). rewrite E1.
  destruct (attempts =? 1)%Z eqn:E2.
  - apply Z.eqb_eq in E2. assert (j = O) by lia. subst. now rewrite Hok.
  - apply loop_first_success; try lia; try assumption. intros k Hk. apply Hbefore. lia.
Qed.

(** an eventual success counts as success, and a success is always the value of some attempt that was
    preceded by retryable failures only *)
Theorem retry_success_is_success (attempts : Z) (f : nat -> outcome) (v : Z) (a : nat) :
  retry_call attempts f = (ROk v, a) <->
  ((0 < a)%nat /\ (Z.of_nat a <= attempts)%Z /\ f (a - 1)%nat = OOk v /\
   forall k, (k < a - 1)%nat -> exists e, f k = ExcRetryable e).
Proof.
  split.
  - unfold retry_call. destruct (attempts <? 1)%Z eqn:E1; [discriminate|]. apply Z.ltb_ge in E1.
    destruct (attempts =? 1)%Z eqn:E2.
    + apply Z.eqb_eq in E2. destruct (f O) eqn:Ef; intro H; inversion H; subst. cbn.
      split; [lia|]. split; [lia|]. split; [assumption|]. intros k Hk. lia.
    + intro H. destruct (loop_result_inv f (Z.to_nat attempts) (Z.to_nat attempts) O (ROk v) a eq_refl H) as (Ha & Hp & Hq & Hr).
      split; [assumption|]. split; [lia|]. split; [assumption|]. intros k Hk. apply Hr. lia.
  - intros (Ha & Hle & Hok & Hbefore). replace a with (S (a - 1)) at 1 by lia.
    apply retry_stops_at_first_success; try assumption. lia.
Qed.

(** after exhaustion the exception reported is the one raised by attempt n (the same object) *)
Theorem retry_reports_last (attempts : Z) (f : nat -> outcome) (exc : nat -> nat) :
  (1 <= attempts)%Z ->
  (forall k, (Z.of_nat k < attempts)%Z -> f k = ExcRetryable (exc k)) ->
  retry_call attempts f = (RRaise (exc (Z.to_nat attempts - 1)%nat), Z.to_nat attempts).
Proof.
  intros Hn Hall. unfold retry_call.
  assert (E1 : (attempts <? 1)%Z = false) by (apply Z.ltb_ge; lia). rewrite E1.
  destruct (attempts =? 1)%Z eqn:E2.
  - apply Z.eqb_eq in E2. subst. rewrite (Hall O) by lia. reflexivity.
  - apply loop_exhausted; try lia. intros k Hk. apply Hall. lia.
Qed.

(** an exception that is not an instance of exc_type is not retried *)
Theorem retry_other_propagates (attempts : Z) (f : nat -> outcome) (j e : nat) :
  (Z.of_nat j < attempts)%Z ->
  (forall k, (k < j)%nat -> exists e', f k = ExcRetryable e') -> f j = ExcOther e ->
  retry_call attempts f = (RRaise e, S j).
Proof.
  intros Hj Hbefore Hoth. unfold retry_call.
  assert (E1 : (attempts <? 1)%Z = false) by (apply Z.ltb_ge; lia). rewrite E1.
  destruct (attempts =? 1)%Z eqn:E2.
  - apply Z.eqb_eq in E2. assert (j = O) by lia. subst. now rewrite Hoth.
  - apply loop_first_other; try lia; try assumption. intros k Hk. apply Hbefore. lia.
Qed.

(** attempts = 1 is the identity decorator: one attempt, its outcome unchanged *)
Theorem retry_identity_1 (f : nat -> outcome) :
  retry_call 1 f = (match f O with OOk v => ROk v | ExcRetryable e => RRaise e | ExcOther e => RRaise e end, 1%nat).
Proof. reflexivity. Qed.

(** attempts < 1 is rejected when the decorator is created; the call is never attempted *)
Theorem retry_nonpositive_rejected (attempts : Z) (f : nat -> outcome) :
  (attempts < 1)%Z -> retry_call attempts f = (RValueError, O).
Proof. intro H. unfold retry_call. assert (E : (attempts <? 1)%Z = true) by (apply Z.ltb_lt; lia). now rewrite E. Qed.

(** the decorated call never "falls off" the loop (it never returns None spuriously) *)
Theorem retry_never_none (attempts : Z) (f : nat -> outcome) (a : nat) : retry_call attempts f <> (RNone, a).
Proof.
  unfold retry_call. destruct (attempts <? 1)%Z eqn:E1; [discriminate|]. apply Z.ltb_ge in E1.
  destruct (attempts =? 1)%Z eqn:E2; [destruct (f O); discriminate|].
  intro H. destruct (loop_result_inv f (Z.to_nat attempts) (Z.to_nat attempts) O RNone a eq_refl H) as (_ & Hz). apply Z.eqb_neq in E2. lia.
Qed.

(** Non-vacuity: three attempts, two retryable failures, then a value; and exhaustion after three *)
Example nonvacuous_retry :
  retry_call 3 (fun k => match k with 0 => ExcRetryable 10 | 1 => ExcRetryable 11 | _ => OOk 7 end) = (ROk 7, 3%nat) /\
  retry_call 3 (fun k => ExcRetryable (10 + k)) = (RRaise 12, 3%nat) /\
  retry_call 3 (fun k => match k with 0 => ExcRetryable 10 | _ => ExcOther 99 end) = (RRaise 99, 2%nat).
Proof. repeat split. Qed.
