(** List / graph helper lemmas for the engine proofs. *)
From Coq Require Import List Arith Bool Lia Permutation.
Import ListNotations.
From UJ Require Import Engine.Engine.

Lemma nth_error_split_upd {A} (l : list A) w a b :
  nth_error l w = Some a ->
  exists l1 l2, l = l1 ++ a :: l2 /\ length l1 = w /\ upd w b l = l1 ++ b :: l2.
Proof.
  revert w; induction l as [|h t IH]; intros [|w] H; cbn in *; try discriminate.
  - inversion H; subst. exists [], t. auto.
  - destruct (IH w H) as (l1 & l2 & -> & <- & E). exists (h :: l1), l2. cbn. rewrite E. auto.
Qed.

Lemma nth_error_split_remove {A} (l : list A) i a :
  nth_error l i = Some a ->
  exists l1 l2, l = l1 ++ a :: l2 /\ length l1 = i /\ remove_nth i l = l1 ++ l2.
Proof.
  revert i; induction l as [|h t IH]; intros [|i] H; cbn in *; try discriminate.
  - inversion H; subst. exists [], t. auto.
  - destruct (IH i H) as (l1 & l2 & -> & <- & E). exists (h :: l1), l2. cbn. rewrite E. auto.
Qed.

Lemma nth_error_app_mid {A} (l1 l2 : list A) a : nth_error (l1 ++ a :: l2) (length l1) = Some a.
Proof. induction l1; cbn; auto. Qed.

Lemma nth_error_upd_same {A} (l : list A) w b a :
  nth_error l w = Some a -> nth_error (upd w b l) w = Some b.
Proof.
  revert w; induction l as [|h t IH]; intros [|w] H; cbn in *; try discriminate; eauto.
Qed.

Lemma nth_error_upd_other {A} (l : list A) w w' b :
  w <> w' -> nth_error (upd w b l) w' = nth_error l w'.
Proof.
  revert w w'; induction l as [|h t IH]; intros [|w] [|w'] H; cbn; auto; try congruence.
Qed.

Lemma upd_length {A} (l : list A) w b : length (upd w b l) = length l.
Proof. revert w; induction l; intros [|w]; cbn; auto. Qed.

Lemma nth_error_upd_inv {A} (l : list A) w b w' x :
  nth_error (upd w b l) w' = Some x ->
  (w' = w /\ x = b /\ w < length l) \/ (w' <> w /\ nth_error l w' = Some x).
Proof.
  destruct (Nat.eq_dec w' w) as [->|Hne].
  - intros H. destruct (nth_error l w) eqn:E.
    + erewrite nth_error_upd_same in H by eauto. inversion H; subst. left. repeat split; auto.
      apply nth_error_Some. congruence.
    + exfalso. apply nth_error_None in E.
      assert (nth_error (upd w b l) w = None). { apply nth_error_None. rewrite upd_length. auto. }
      congruence.
  - intros H. right. split; auto. rewrite nth_error_upd_other in H; auto.
Qed.

Lemma remove_first_in (x y : nat) l : In y (remove_first x l) -> In y l.
Proof.
  induction l as [|h t IH]; cbn; auto. destruct (h =? x); cbn; intuition.
Qed.

Lemma remove_first_split x l :
  In x l -> exists l1 l2, l = l1 ++ x :: l2 /\ remove_first x l = l1 ++ l2 /\ ~ In x l1.
Proof.
  induction l as [|h t IH]; cbn; [tauto|]. intros H.
  destruct (h =? x) eqn:E.
  - apply Nat.eqb_eq in E; subst. exists [], t. auto.
  - apply Nat.eqb_neq in E. destruct H as [H|H]; [congruence|].
    destruct (IH H) as (l1 & l2 & -> & E2 & Hn). exists (h :: l1), l2. cbn. rewrite E2.
    repeat split; auto. intros [?|?]; auto.
Qed.

Lemma existsb_eqb_in x l : existsb (Nat.eqb x) l = true <-> In x l.
Proof.
  rewrite existsb_exists. split.
  - intros (y & Hy & E). apply Nat.eqb_eq in E. subst; auto.
  - intros H. exists x. split; auto. apply Nat.eqb_refl.
Qed.

(** graph *)
Lemma in_preds gr p x : In p (preds gr x) <-> edge gr p x.
Proof.
  unfold preds, edge. rewrite nodup_In, in_map_iff. split.
  - intros ([a b] & E & H). apply filter_In in H. destruct H as [H1 H2]. cbn in *.
    apply Nat.eqb_eq in H2. subst. auto.
  - intros H. exists (p, x). split; auto. apply filter_In. split; auto. cbn. apply Nat.eqb_refl.
Qed.

Lemma in_succs gr p x : In x (succs gr p) <-> edge gr p x.
Proof.
  unfold succs, edge. rewrite nodup_In, in_map_iff. split.
  - intros ([a b] & E & H). apply filter_In in H. destruct H as [H1 H2]. cbn in *.
    apply Nat.eqb_eq in H2. subst. auto.
  - intros H. exists (p, x). split; auto. apply filter_In. split; auto. cbn. apply Nat.eqb_refl.
Qed.

Lemma preds_nodup gr x : NoDup (preds gr x).
Proof. apply NoDup_nodup. Qed.
Lemma succs_nodup gr x : NoDup (succs gr x).
Proof. apply NoDup_nodup. Qed.

