(** Phase / DONE-accounting invariants of the engine model, needed for termination, deadlock freedom and
    quiescence (C07).  They complement [EngineInv.Inv]. *)
From Coq Require Import List Arith Bool Lia.
Import ListNotations.
From UJ Require Import Engine.Engine Engine.EngineLemmas Engine.EngineInv.

(** * Counters *)
Definition dq (l : list item) : nat := count_occ item_eq_dec l DONE.
(** a worker that has consumed a DONE: either still in [task_done] or exited *)
Definition wdx (pc : wpc) : nat := match pc with WTD DONE | WExited => 1 | _ => 0 end.
(** number of DONE sentinels the coordinator has put so far *)
Definition dput (c : cfg) (s : st) : nat :=
  match intr s with
  | Some ISpawn => 0
  | _ => match co s with CPut k => k | CJoinW _ | CFinal => workers c | _ => 0 end
  end.

Lemma dq_app l1 l2 : dq (l1 ++ l2) = dq l1 + dq l2.
Proof. unfold dq. apply count_occ_app. Qed.
Lemma dq_cons it l : dq (it :: l) = (if item_eq_dec it DONE then 1 else 0) + dq l.
Proof. unfold dq. cbn. destruct (item_eq_dec it DONE); lia. Qed.
Lemma dq_nil : dq [] = 0.
Proof. reflexivity. Qed.
Lemma dq_mid l1 it l2 : dq (l1 ++ it :: l2) = dq l1 + (if item_eq_dec it DONE then 1 else 0) + dq l2.
Proof. rewrite dq_app, dq_cons. lia. Qed.

(** * The invariant *)
Record Inv2 (c : cfg) (s : st) : Prop := {
  (** DONE accounting: every DONE put so far is in the queue or has been consumed by exactly one worker;
      before the coordinator's put loop (and after an interrupt in the spawn phase) there is none *)
  i2_done : dq (q s) + csum wdx (ws s) = dput c s;
  (** an interrupt in the spawn phase goes straight to the joins *)
  i2_ispawn : intr s = Some ISpawn -> match co s with CJoinW _ | CFinal => True | _ => False end;
  (** past the spawn phase every worker has been started, unless the spawn phase was interrupted *)
  i2_nsp : match co s with CSpawn _ => True | _ => intr s = Some ISpawn \/ nsp s = workers c end;
  (** a started worker is never [WNotStarted] again *)
  i2_started : forall j, nth_error (ws s) j = Some WNotStarted -> nsp s <= j;
  i2_put_le : forall k, co s = CPut k -> k <= workers c;
  (** the workers already joined have exited *)
  i2_joined : match co s with
              | CJoinW j => j <= nsp s /\ forall w, w < j -> nth_error (ws s) w = Some WExited
              | CFinal => forall w, w < nsp s -> nth_error (ws s) w = Some WExited
              | _ => True
              end
}.

Lemma csum_repeat_ns' f k : f WNotStarted = 0 -> csum f (repeat WNotStarted k) = 0.
Proof. apply csum_repeat_ns. Qed.

Lemma dq_map_N l : dq (map N l) = 0.
Proof.
  induction l as [|h t IH]; [reflexivity|]. cbn [map]. rewrite dq_cons, IH.
  destruct (item_eq_dec (N h) DONE); [discriminate|reflexivity].
Qed.

Lemma inv2_init c : cfg_ok c -> Inv2 c (init c).
Proof.
  intros _. constructor; unfold dput; simpl_st; auto; try discriminate.
  - rewrite dq_map_N, csum_repeat_ns; auto.
  - intros; lia.
Qed.

(** * Preservation *)
Ltac ltb_norm :=
  repeat match goal with
  | H : (_ <? _) = true |- _ => apply Nat.ltb_lt in H
  | H : (_ <? _) = false |- _ => apply Nat.ltb_ge in H
  end.

Lemma step2_done c s k s' :
  Inv c s -> Inv2 c s -> next c s k = Some s' -> dq (q s') + csum wdx (ws s') = dput c s'.
Proof.
  intros I I2 H. pose proof (i2_done _ _ I2) as Hd. pose proof (i2_ispawn _ _ I2) as Hi.
  pose proof (i2_put_le _ _ I2) as Hp. unfold dput in *.
  inv_next H; try spawn_case I; try split_ws; try split_q;
    rewrite ?csum_mid, ?dq_mid, ?dq_app, ?dq_cons, ?dq_nil in *; cbn [wdx] in *;
    try (specialize (Hp _ eq_refl)); eqb_norm; ltb_norm;
    destruct (intr s) as [[|]|]; try (exfalso; exact (Hi eq_refl)); cases.
Qed.

Lemma step2_ispawn c s k s' :
  Inv2 c s -> next c s k = Some s' ->
  intr s' = Some ISpawn -> match co s' with CJoinW _ | CFinal => True | _ => False end.
Proof.
  intros I2 H. pose proof (i2_ispawn _ _ I2) as Hi.
  inv_next H; auto; try discriminate; intros Hs; specialize (Hi Hs); auto.
Qed.

Lemma step2_nsp c s k s' :
  Inv c s -> Inv2 c s -> next c s k = Some s' ->
  match co s' with CSpawn _ => True | _ => intr s' = Some ISpawn \/ nsp s' = workers c end.
Proof.
  intros I I2 H. pose proof (i2_nsp _ _ I2) as Hn. pose proof (i_spawn _ _ I) as Hs.
  pose proof (i_nsp _ _ I) as Hle.
  inv_next H; auto; eqb_norm; ltb_norm.
  - right. specialize (Hs _ eq_refl). lia.
  - destruct Hn as [Hn|Hn]; [discriminate|auto].
Qed.

Lemma step2_started c s k s' :
  Inv c s -> Inv2 c s -> next c s k = Some s' ->
  forall j, nth_error (ws s') j = Some WNotStarted -> nsp s' <= j.
Proof.
  intros I I2 H j. pose proof (i2_started _ _ I2) as Hst. pose proof (i_spawn _ _ I) as Hs.
  inv_next H; auto;
    intros Hj; apply nth_error_upd_inv in Hj; destruct Hj as [(-> & Hd & _)|(Hne & Hj)];
    try discriminate; auto.
  specialize (Hst _ Hj). specialize (Hs _ eq_refl). lia.
Qed.

Lemma step2_put_le c s k s' :
  Inv2 c s -> next c s k = Some s' -> forall k0, co s' = CPut k0 -> k0 <= workers c.
Proof.
  intros I2 H k0. pose proof (i2_put_le _ _ I2) as Hp.
  inv_next H; auto; try discriminate; eqb_norm; ltb_norm; intros E; inversion E; subst; lia.
Qed.

Definition joined (s : st) : Prop :=
  match co s with
  | CJoinW j => j <= nsp s /\ forall w, w < j -> nth_error (ws s) w = Some WExited
  | CFinal => forall w, w < nsp s -> nth_error (ws s) w = Some WExited
  | _ => True
  end.

Lemma exited_upd (l : list wpc) w pc pc' w' :
  nth_error l w = Some pc -> pc <> WExited ->
  nth_error l w' = Some WExited -> nth_error (upd w pc' l) w' = Some WExited.
Proof.
  intros Hw Hne Hw'. destruct (Nat.eq_dec w w') as [->|Hd]; [congruence|].
  rewrite nth_error_upd_other; auto.
Qed.

Lemma joined_upd s s1 w pc pc' :
  co s1 = co s -> nsp s1 = nsp s -> ws s1 = upd w pc' (ws s) ->
  nth_error (ws s) w = Some pc -> pc <> WExited -> joined s -> joined s1.
Proof.
  unfold joined. intros -> -> -> Hw Hne Hj. destruct (co s); auto.
  - destruct Hj as [Hj1 Hj2]. split; auto. intros w' Hw'. eapply exited_upd; eauto.
  - intros w' Hw'. eapply exited_upd; eauto.
Qed.

Lemma step2_joined c s k s' : Inv c s -> Inv2 c s -> next c s k = Some s' -> joined s'.
Proof.
  intros I I2 H. pose proof (i2_joined _ _ I2) as Hj. fold (joined s) in Hj.
  inv_next H; auto; ltb_norm.
  all: try (match goal with Hj0 : joined ?s0 |- _ =>
              eapply (joined_upd s0); [reflexivity|reflexivity|reflexivity|eassumption|discriminate|assumption]
            end).
  all: unfold joined in *; simpl_st;
    repeat match goal with E : co _ = _ |- _ => rewrite E in Hj; clear E end; auto.
  - split; [lia|]. intros w Hw. lia.
  - (* CJoinW j -> CJoinW (S j) *)
    destruct Hj as [Hj1 Hj2]. split; [lia|]. intros w Hw.
    destruct (Nat.eq_dec w j) as [->|Hne]; auto. apply Hj2. lia.
  - destruct Hj as [Hj1 Hj2]. intros w Hw. apply Hj2. lia.
  - split; [lia|]. intros w Hw. lia.
Qed.

Lemma inv2_step c s k s' : Inv c s -> Inv2 c s -> next c s k = Some s' -> Inv2 c s'.
Proof.
  intros I I2 H. constructor.
  - eapply step2_done; eauto.
  - eapply step2_ispawn; eauto.
  - eapply step2_nsp; eauto.
  - eapply step2_started; eauto.
  - eapply step2_put_le; eauto.
  - eapply step2_joined; eauto.
Qed.

Theorem inv2_reachable c s : cfg_ok c -> reachable c s -> Inv c s /\ Inv2 c s.
Proof.
  intros Hc Hr. induction Hr as [|s k s' Hr [IH1 IH2] Hn].
  - split; [apply inv_init|apply inv2_init]; auto.
  - split; [eapply inv_step|eapply inv2_step]; eauto.
Qed.

(** Every node that was ever enqueued (is in the queue, held by a worker, or done) is a node of the graph. *)
Lemma lc_in_nodes_init c n : 0 < lc n (init c) -> In n (nodes (g c)).
Proof.
  unfold lc. simpl_st. rewrite csum_repeat_ns by reflexivity. rewrite cq_map_N.
  unfold count_ev. cbn [count_occ]. intros H.
  assert (Hin : In n (sources (g c))) by (apply (count_occ_In Nat.eq_dec); lia).
  apply filter_In in Hin. tauto.
Qed.

Theorem enqueued_in_nodes c s n : cfg_ok c -> reachable c s -> 0 < lc n s -> In n (nodes (g c)).
Proof.
  intros Hc Hr. induction Hr as [|s k s' Hr IH Hn]; [apply lc_in_nodes_init|].
  pose proof (inv_reachable c s Hc Hr) as I. intros Hl.
  destruct (step_lc _ _ _ _ I Hn n) as [E|(_ & _ & w & p & todo & _ & Hw & Hin)].
  - apply IH. lia.
  - destruct (i_succ _ _ I _ _ _ Hw) as (_ & _ & Ht). apply Ht in Hin. destruct Hin as [Hs _].
    apply in_succs in Hs. destruct Hc as [[_ Hwf] _]. apply Hwf in Hs. tauto.
Qed.
