(** Error accounting of the engine model (C06) and the run limits (C10):
    which failures are counted, when [stop] can be set, what a final state reports. *)
From Coq Require Import List Arith Bool Lia.
Import ListNotations.
From UJ Require Import Engine.Engine Engine.EngineLemmas Engine.EngineInv.

(** * Counters *)
Definition isfail (pc : wpc) : nat := match pc with WFail _ => 1 | _ => 0 end.
Definition isrun (pc : wpc) : nat := match pc with WRun _ => 1 | _ => 0 end.
(** a worker that holds a node item (anything but idle / exited / handling the DONE sentinel) *)
Definition noisy (pc : wpc) : nat :=
  match pc with WGot _ | WRun _ | WFail _ | WSucc _ _ | WTD (N _) => 1 | _ => 0 end.
(** the coordinator has executed `stop = True` *)
Definition past_stop (k : cpc) : bool :=
  match k with CPut _ | CJoinW _ | CFinal => true | _ => false end.
(** `queue.join()` has returned (or was interrupted) *)
Definition past_join (k : cpc) : bool :=
  match k with CStop | CPut _ | CJoinW _ | CFinal => true | _ => false end.

Lemma nfail_cons e h : nfail (e :: h) = (if is_fail e then 1 else 0) + nfail h.
Proof. unfold nfail. cbn [filter]. destruct (is_fail e); reflexivity. Qed.
Lemma nfail_app h1 h2 : nfail (h1 ++ h2) = nfail h1 + nfail h2.
Proof. unfold nfail. rewrite filter_app, app_length. reflexivity. Qed.
Lemma nfail_in n h : In (EFail n) h -> 0 < nfail h.
Proof.
  induction h as [|e h IH]; [intros []|]. intros [->|H]; rewrite nfail_cons; cbn [is_fail]; [lia|].
  specialize (IH H). lia.
Qed.
Lemma nfail_0 h : nfail h = 0 -> forall n, ~ In (EFail n) h.
Proof. intros H n Hin. apply nfail_in in Hin. lia. Qed.

Lemma noisy_le_hold1 pc : noisy pc <= hold1 pc.
Proof. destruct pc as [| |m|m|m|m t|[m|]|]; cbn; lia. Qed.
Lemma hn_le_noisy n pc : hn n pc <= noisy pc.
Proof. destruct pc as [| |m|m|m|m t|[m|]|]; cbn; try lia; destruct (m =? n); lia. Qed.
Lemma isfail_le_noisy pc : isfail pc <= noisy pc.
Proof. destruct pc as [| |m|m|m|m t|[m|]|]; cbn; lia. Qed.
Lemma isrun_le_noisy pc : isrun pc <= noisy pc.
Proof. destruct pc as [| |m|m|m|m t|[m|]|]; cbn; lia. Qed.

Lemma csum_0_nth f l w a : csum f l = 0 -> nth_error l w = Some a -> f a = 0.
Proof. intros H Hn. pose proof (csum_ge1 f _ _ _ Hn). lia. Qed.
Lemma csum_le_length f l : (forall pc, f pc <= 1) -> csum f l <= length l.
Proof.
  intros H. induction l as [|a l IH]; [reflexivity|]. rewrite csum_cons. cbn [length]. specialize (H a). lia.
Qed.

Lemma over_max_mono c a b : a <= b -> over_max c a = true -> over_max c b = true.
Proof.
  unfold over_max. destruct (max_errors c); [|discriminate]. intros Hle H.
  apply Nat.ltb_lt in H. apply Nat.ltb_lt. lia.
Qed.
Lemma over_max_false_mono c a b : a <= b -> over_max c b = false -> over_max c a = false.
Proof.
  intros Hle H. destruct (over_max c a) eqn:E; auto. rewrite (over_max_mono _ _ _ Hle E) in H. discriminate.
Qed.

(** * A. The error-accounting invariant *)
Record EInv (c : cfg) (s : st) : Prop := {
  (** every failure in the history has been counted, or its worker is about to count it *)
  e_nfail : nfail (hist s) = errc s + csum isfail (ws s);
  e_first0 : first s = None <-> errc s = 0;
  e_wfail : forall w n, nth_error (ws s) w = Some (WFail n) -> In (EFail n) (hist s);
  e_first : forall n, first s = Some n -> In (EFail n) (hist s);
  (** [stop] is set only by a failure block exceeding max_errors, or by the coordinator's [CStop] step
      (which is skipped only by an interrupt during spawning, finding F6) *)
  e_stop_f : stop s = false ->
             over_max c (errc s) = false /\ (past_stop (co s) = false \/ intr s = Some ISpawn);
  e_stop_t : stop s = true -> over_max c (errc s) = true \/ past_stop (co s) = true;
  (** after an uninterrupted [queue.join()] returned, only DONE sentinels circulate *)
  e_quiet : intr s = None -> past_join (co s) = true ->
            (forall n, cq n (q s) = 0) /\ csum noisy (ws s) = 0;
  e_skip : forall n, In (ESkip n) (hist s) -> stop s = true;
  (** without interrupt, a node is skipped only after the error limit was exceeded *)
  e_noskip : intr s = None -> over_max c (errc s) = false -> forall n, ~ In (ESkip n) (hist s)
}.

Lemma einv_init c : EInv c (init c).
Proof.
  constructor; simpl_st; try (intros; discriminate); try tauto.
  - rewrite csum_repeat_ns; reflexivity.
  - intros w n H. apply nth_error_In in H. apply repeat_spec in H. discriminate.
  - intros _. split; [|left; reflexivity]. unfold over_max. destruct (max_errors c); reflexivity.
  - intros n [].
Qed.

Lemma step_nfail c s k s' :
  Inv c s -> next c s k = Some s' ->
  nfail (hist s) = errc s + csum isfail (ws s) -> nfail (hist s') = errc s' + csum isfail (ws s').
Proof.
  intros I H Hc.
  inv_next H; try spawn_case I; try split_ws; try split_q;
    rewrite ?csum_mid, ?nfail_cons in *; cbn [isfail is_fail] in *; cases.
Qed.

Lemma step_first0 c s k s' :
  next c s k = Some s' -> (first s = None <-> errc s = 0) -> (first s' = None <-> errc s' = 0).
Proof.
  intros H Hc. inv_next H; try exact Hc.
  all: split; intros; try discriminate; lia.
Qed.

Lemma in_upd_inv {A} (l : list A) w b w' x :
  nth_error (upd w b l) w' = Some x -> x = b \/ nth_error l w' = Some x.
Proof. intros H. apply nth_error_upd_inv in H. destruct H as [(_ & -> & _)|(_ & H)]; auto. Qed.

Lemma step_wfail c s k s' :
  next c s k = Some s' ->
  (forall w n, nth_error (ws s) w = Some (WFail n) -> In (EFail n) (hist s)) ->
  forall w n, nth_error (ws s') w = Some (WFail n) -> In (EFail n) (hist s').
Proof.
  intros H Hc w' n' Hn. pose proof (hist_mono _ _ _ _ H) as Hm.
  inv_next H; try (apply in_upd_inv in Hn; destruct Hn as [Hn|Hn]; [try discriminate|]); eauto.
  inversion Hn; subst. left; reflexivity.
Qed.

Lemma step_efirst c s k s' :
  next c s k = Some s' ->
  (forall w n, nth_error (ws s) w = Some (WFail n) -> In (EFail n) (hist s)) ->
  (forall n, first s = Some n -> In (EFail n) (hist s)) ->
  forall n, first s' = Some n -> In (EFail n) (hist s').
Proof.
  intros H Hw Hc n' Hn. pose proof (hist_mono _ _ _ _ H) as Hm.
  inv_next H; eauto.
  destruct (first s) eqn:E; inversion Hn; subst; eauto.
Qed.

Lemma step_stop_f c s k s' :
  next c s k = Some s' ->
  (stop s = false -> over_max c (errc s) = false /\ (past_stop (co s) = false \/ intr s = Some ISpawn)) ->
  stop s' = false -> over_max c (errc s') = false /\ (past_stop (co s') = false \/ intr s' = Some ISpawn).
Proof.
  intros H Hc Hs.
  inv_next H; try (specialize (Hc Hs)); try discriminate; try tauto;
    try (match goal with Hco : co s = _ |- _ => rewrite Hco in Hc end); cbn [past_stop] in *;
    try tauto; try (destruct Hc as [Hc1 [Hc2|Hc2]]; (discriminate || congruence || tauto)).
  all: apply orb_false_iff in Hs; destruct Hs as [Hs1 Hs2]; specialize (Hc Hs1); tauto.
Qed.

Lemma step_stop_t c s k s' :
  next c s k = Some s' ->
  (stop s = true -> over_max c (errc s) = true \/ past_stop (co s) = true) ->
  stop s' = true -> over_max c (errc s') = true \/ past_stop (co s') = true.
Proof.
  intros H Hc Hs.
  inv_next H; try congruence; try (specialize (Hc Hs)); try tauto;
    try (match goal with Hco : co s = _ |- _ => rewrite Hco in Hc end); cbn [past_stop] in *;
    try tauto; try (destruct Hc as [Hc|Hc]; [tauto|discriminate]).
  all: apply orb_true_iff in Hs; destruct Hs as [Hs|Hs]; [|tauto];
    destruct (Hc Hs) as [Hc'|Hc']; [|tauto]; left; eapply over_max_mono; [|exact Hc']; lia.
Qed.

Lemma length_0_nil {A} (l : list A) : length l = 0 -> l = [].
Proof. destruct l; [reflexivity|discriminate]. Qed.

Lemma step_quiet c s k s' :
  Inv c s -> next c s k = Some s' ->
  (intr s = None -> past_join (co s) = true -> (forall n, cq n (q s) = 0) /\ csum noisy (ws s) = 0) ->
  intr s' = None -> past_join (co s') = true -> (forall n, cq n (q s') = 0) /\ csum noisy (ws s') = 0.
Proof.
  intros I H Hc Hi Hp. pose proof (i_count _ _ I) as Hcount.
  inv_next H; try discriminate;
    try (match goal with Hco : co s = _ |- _ => rewrite Hco in Hc end); cbn [past_join] in *;
    try discriminate; try (specialize (Hc Hi Hp); destruct Hc as [Hq Hw]).
  (* worker steps: the stepping worker is not noisy, so only KGet of DONE and its task_done remain *)
  all: try (exfalso;
       match goal with Hn : nth_error (ws _) _ = Some _ |- _ =>
         pose proof (csum_0_nth _ _ _ _ Hw Hn) as Hz; cbn in Hz; discriminate end).
  all: try split_ws; try split_q; rewrite ?csum_mid in *; cbn [noisy] in *.
  all: try (split; [|lia]; intros n'; specialize (Hq n');
            rewrite ?cq_mid, ?cq_app, ?cq_single, ?cq_nil in *; cases2; fail).
  (* a node item in the queue: impossible *)
  - exfalso. specialize (Hq n). rewrite cq_mid in Hq. destruct (item_eq_dec (N n) (N n)); [lia|congruence].
  (* CJoin -> CStop with unfinished = 0 *)
  - assert (Hl : length (q s) = 0) by lia. apply length_0_nil in Hl. rewrite Hl. split; [reflexivity|].
    pose proof (csum_le noisy hold1 (ws s) noisy_le_hold1). lia.
Qed.

Lemma stop_mono c s k s' : next c s k = Some s' -> stop s = true -> stop s' = true.
Proof. intros H Hs. inv_next H; auto; try congruence; rewrite Hs; reflexivity. Qed.

Lemma past_stop_join k : past_stop k = true -> past_join k = true.
Proof. destruct k; cbn; congruence. Qed.

Lemma step_skip c s k s' :
  next c s k = Some s' ->
  (forall n, In (ESkip n) (hist s) -> stop s = true) ->
  forall n, In (ESkip n) (hist s') -> stop s' = true.
Proof.
  intros H Hc n Hin. pose proof (stop_mono _ _ _ _ H) as Hm.
  inv_next H; eauto; try (destruct Hin as [Hin|Hin]; [try discriminate|]; eauto).
  all: try (rewrite (Hc _ Hin); reflexivity).
Qed.

Lemma step_noskip c s k s' :
  Inv c s -> next c s k = Some s' ->
  (stop s = true -> over_max c (errc s) = true \/ past_stop (co s) = true) ->
  (intr s = None -> past_join (co s) = true -> (forall n, cq n (q s) = 0) /\ csum noisy (ws s) = 0) ->
  (intr s = None -> over_max c (errc s) = false -> forall n, ~ In (ESkip n) (hist s)) ->
  intr s' = None -> over_max c (errc s') = false -> forall n, ~ In (ESkip n) (hist s').
Proof.
  intros I H Hst Hq Hc Hi Ho n Hin.
  inv_next H; try discriminate;
    try (destruct Hin as [Hin|Hin]; [try discriminate|]); try (eapply Hc; eauto; fail).
  - (* the skip itself *)
    destruct (Hst eq_refl) as [Hov|Hps]; [congruence|].
    destruct (Hq Hi (past_stop_join _ Hps)) as [_ Hw].
    pose proof (csum_0_nth _ _ _ _ Hw Heqo) as Hz. discriminate.
  - eapply Hc; eauto. eapply over_max_false_mono; [|exact Ho]. lia.
  - eapply Hc; eauto. eapply over_max_false_mono; [|exact Ho]. lia.
Qed.

Lemma einv_step c s k s' : Inv c s -> EInv c s -> next c s k = Some s' -> EInv c s'.
Proof.
  intros I [A1 A2 A3 A4 A5 A6 A7 A8 A9] H. constructor.
  - eapply step_nfail; eauto.
  - eapply step_first0; eauto.
  - eapply step_wfail; eauto.
  - eapply step_efirst; eauto.
  - eapply step_stop_f; eauto.
  - eapply step_stop_t; eauto.
  - eapply step_quiet; eauto.
  - eapply step_skip; eauto.
  - eapply step_noskip; eauto.
Qed.

Theorem einv_reachable c s : cfg_ok c -> reachable c s -> EInv c s.
Proof.
  intros Hc Hr. induction Hr as [|s k s' Hr IH Hn].
  - apply einv_init.
  - eapply einv_step; eauto. apply inv_reachable; auto.
Qed.

(** A, restated for reachable states *)
Theorem failures_accounted c s :
  cfg_ok c -> reachable c s -> nfail (hist s) = errc s + csum isfail (ws s).
Proof. intros Hc Hr. apply (e_nfail c s). apply einv_reachable; auto. Qed.

Theorem first_none_iff c s : cfg_ok c -> reachable c s -> (first s = None <-> errc s = 0).
Proof. intros Hc Hr. apply (e_first0 c s). apply einv_reachable; auto. Qed.

Theorem stop_false_inv c s :
  cfg_ok c -> reachable c s -> stop s = false ->
  over_max c (errc s) = false /\ (past_stop (co s) = false \/ intr s = Some ISpawn).
Proof. intros Hc Hr. apply (e_stop_f c s). apply einv_reachable; auto. Qed.

Theorem stop_true_inv c s :
  cfg_ok c -> reachable c s -> stop s = true -> over_max c (errc s) = true \/ past_stop (co s) = true.
Proof. intros Hc Hr. apply (e_stop_t c s). apply einv_reachable; auto. Qed.

Theorem skip_implies_stop c s n : cfg_ok c -> reachable c s -> In (ESkip n) (hist s) -> stop s = true.
Proof. intros Hc Hr. apply (e_skip c s). apply einv_reachable; auto. Qed.

Theorem no_skip_before_limit c s n :
  cfg_ok c -> reachable c s -> intr s = None -> over_max c (errc s) = false -> ~ In (ESkip n) (hist s).
Proof. intros Hc Hr Hi Ho. apply (e_noskip c s); auto. apply einv_reachable; auto. Qed.

(** * B. C06 *)
Lemma final_quiet c s :
  cfg_ok c -> reachable c s -> final s -> intr s = None ->
  (forall n, cq n (q s) = 0) /\ csum noisy (ws s) = 0.
Proof.
  intros Hc Hr Hf Hi. apply (e_quiet c s); auto. apply einv_reachable; auto.
  unfold final in Hf. rewrite Hf. reflexivity.
Qed.

Lemma final_errc c s :
  cfg_ok c -> reachable c s -> final s -> intr s = None -> nfail (hist s) = errc s.
Proof.
  intros Hc Hr Hf Hi. rewrite (failures_accounted c s Hc Hr).
  destruct (final_quiet c s Hc Hr Hf Hi) as [_ Hw].
  pose proof (csum_le isfail noisy (ws s) isfail_le_noisy). lia.
Qed.

Theorem raises_if_failed c s :
  cfg_ok c -> reachable c s -> final s -> intr s = None ->
  (exists n, In (EFail n) (hist s)) -> exists n, result s = Some (Raised n).
Proof.
  intros Hc Hr Hf Hi [n Hn]. unfold result. unfold final in Hf. rewrite Hf, Hi.
  destruct (first s) as [m|] eqn:E; [eauto|]. exfalso.
  apply (first_none_iff c s Hc Hr) in E. apply nfail_in in Hn.
  rewrite (final_errc c s Hc Hr Hf Hi) in Hn. lia.
Qed.

(** whatever the interrupt status: a final state with a failure never reports success *)
Corollary failed_never_returned c s :
  cfg_ok c -> reachable c s -> final s -> (exists n, In (EFail n) (hist s)) -> result s <> Some Returned.
Proof.
  intros Hc Hr Hf He. destruct (intr s) eqn:Hi.
  - unfold result. unfold final in Hf. rewrite Hf, Hi. discriminate.
  - destruct (raises_if_failed c s Hc Hr Hf Hi He) as [n ->]. discriminate.
Qed.

Theorem raised_is_real c s n :
  cfg_ok c -> reachable c s -> result s = Some (Raised n) -> In (EFail n) (hist s).
Proof.
  intros Hc Hr H. apply (e_first c s); [apply einv_reachable; auto|].
  unfold result in H. destruct (co s); try discriminate. destruct (intr s); [discriminate|].
  destruct (first s); inversion H; reflexivity.
Qed.

(** ** With one worker the reported failure is the oldest one *)
Definition oldest_fail (n : nat) (h : list ev) : Prop :=
  exists h1 h2, h = h1 ++ EFail n :: h2 /\ forall m, ~ In (EFail m) h2.

Lemma oldest_fail_cons n e h : oldest_fail n h -> oldest_fail n (e :: h).
Proof. intros (h1 & h2 & -> & H). exists (e :: h1), h2. auto. Qed.

Definition SeqInv (s : st) : Prop :=
  forall n, (first s = Some n \/ (first s = None /\ exists w, nth_error (ws s) w = Some (WFail n))) ->
            oldest_fail n (hist s).

Lemma hist_step c s k s' : next c s k = Some s' -> hist s' = hist s \/ exists e, hist s' = e :: hist s.
Proof. intros H. inv_next H; eauto. Qed.

Lemma single_worker_ws c s w pc :
  workers c = 1 -> Inv c s -> nth_error (ws s) w = Some pc -> ws s = [pc].
Proof.
  intros W I H. pose proof (i_len _ _ I) as Hl. rewrite W in Hl.
  destruct (ws s) as [|a [|b t]]; try discriminate. destruct w as [|w]; cbn in H.
  - congruence.
  - destruct w; discriminate.
Qed.

Lemma step_seq c s k s' :
  workers c = 1 -> Inv c s -> EInv c s -> next c s k = Some s' -> SeqInv s -> SeqInv s'.
Proof.
  intros W I E H J n Hp.
  assert (Hold : (first s = Some n \/ (first s = None /\ exists w, nth_error (ws s) w = Some (WFail n))) ->
                 oldest_fail n (hist s')).
  { intros Hq. specialize (J n Hq). destruct (hist_step _ _ _ _ H) as [->|[e ->]]; auto.
    apply oldest_fail_cons; auto. }
  inv_next H; try (apply Hold; exact Hp).
  all: try (apply Hold; destruct Hp as [Hp|[Hp [w' Hw']]]; [auto|];
            right; split; [exact Hp|];
            apply in_upd_inv in Hw'; destruct Hw' as [Hw'|Hw']; [discriminate|eauto]; fail).
  - (* fn raises *)
    destruct Hp as [Hp|[Hp [w' Hw']]]; [apply Hold; auto|].
    apply in_upd_inv in Hw'. destruct Hw' as [Hw'|Hw']; [|apply Hold; eauto].
    inversion Hw'; subst n0. exists [], (hist s). split; [reflexivity|].
    apply nfail_0. rewrite (e_nfail _ _ E). rewrite (proj1 (e_first0 _ _ E) Hp).
    rewrite (single_worker_ws _ _ _ _ W I Heqo). reflexivity.
  - (* failure block sets first *)
    apply Hold. destruct Hp as [Hp|[Hp _]]; [|discriminate]. inversion Hp; subst. right. eauto.
Qed.

Lemma seq_reachable c s : cfg_ok c -> workers c = 1 -> reachable c s -> SeqInv s.
Proof.
  intros Hc W Hr. induction Hr as [|s k s' Hr IH Hn].
  - intros n [H|[_ [w H]]]; [discriminate|]. cbn in H. apply nth_error_In in H. apply repeat_spec in H.
    discriminate.
  - eapply step_seq; eauto; [apply inv_reachable|apply einv_reachable]; auto.
Qed.

Theorem first_when_sequential c s n :
  cfg_ok c -> reachable c s -> workers c = 1 -> first s = Some n ->
  exists h1 h2, hist s = h1 ++ EFail n :: h2 /\ forall m, ~ In (EFail m) h2.
Proof. intros Hc Hr W Hf. apply (seq_reachable c s Hc W Hr). left. exact Hf. Qed.

(** * C. C10: run limits *)
Lemma filter_len_le {A} (f : A -> bool) l : length (filter f l) <= length l.
Proof. induction l as [|a l IH]; [reflexivity|]. cbn. destruct (f a); cbn; lia. Qed.

Theorem inflight_le_workers c s : cfg_ok c -> reachable c s -> inflight s <= workers c.
Proof.
  intros Hc Hr. rewrite <- (i_len c s (inv_reachable c s Hc Hr)). unfold inflight. apply filter_len_le.
Qed.

(** potential: failures counted + failures about to be counted + calls that may still fail *)
Definition fpot (s : st) : nat := errc s + csum isfail (ws s) + csum isrun (ws s).
Definition failrun (pc : wpc) : nat := isfail pc + isrun pc.

Lemma csum_plus f h l : csum (fun pc => f pc + h pc) l = csum f l + csum h l.
Proof. induction l as [|a l IH]; [reflexivity|]. rewrite !csum_cons, IH. lia. Qed.

Lemma step_fpot c s k s' kmax :
  max_errors c = Some kmax -> Inv c s -> EInv c s -> next c s k = Some s' ->
  fpot s <= kmax + workers c -> fpot s' <= kmax + workers c.
Proof.
  intros Hm I E H Hc. unfold fpot in *.
  pose proof (e_stop_f _ _ E) as Hsf. pose proof (i_len _ _ I) as Hlen.
  inv_next H; try spawn_case I; try split_ws; try split_q;
    rewrite ?csum_mid in *; cbn [isfail isrun] in *; try lia.
  (* KReadStop with stop = false starts a call: errc <= kmax, and the workers bound the rest *)
  destruct (Hsf eq_refl) as [Hov _]. unfold over_max in Hov. rewrite Hm in Hov. apply Nat.ltb_ge in Hov.
  rewrite app_length in Hlen. cbn [length] in Hlen.
  assert (Hb : forall l, csum isfail l + csum isrun l <= length l).
  { intros l. rewrite <- csum_plus. apply csum_le_length. intros [| | | | | |[|]|]; cbn; lia. }
  pose proof (Hb l1). pose proof (Hb l2). lia.
Qed.

Lemma fpot_reachable c s kmax :
  cfg_ok c -> max_errors c = Some kmax -> reachable c s -> fpot s <= kmax + workers c.
Proof.
  intros Hc Hm Hr. induction Hr as [|s k s' Hr IH Hn].
  - unfold fpot. simpl_st. rewrite !csum_repeat_ns by reflexivity. lia.
  - eapply step_fpot; eauto; [apply inv_reachable|apply einv_reachable]; auto.
Qed.

Theorem failures_bound c s k :
  cfg_ok c -> reachable c s -> max_errors c = Some k -> nfail (hist s) <= k + workers c.
Proof.
  intros Hc Hr Hm. pose proof (fpot_reachable c s k Hc Hm Hr) as Hp. unfold fpot in Hp.
  rewrite (failures_accounted c s Hc Hr). lia.
Qed.

Corollary single_worker_le c s k :
  cfg_ok c -> reachable c s -> workers c = 1 -> max_errors c = Some k -> nfail (hist s) <= k + 1.
Proof. intros Hc Hr W Hm. rewrite <- W. apply failures_bound; auto. Qed.

(** no hidden serialisation: an idle worker can always dequeue any available item, and a worker holding a
    node starts it as soon as it reads [stop = false], whatever the other workers are doing *)
Theorem get_enabled_parallel c s w i it :
  nth_error (ws s) w = Some WIdle -> nth_error (q s) i = Some it -> exists s', next c s (KGet w i) = Some s'.
Proof. intros Hw Hq. unfold next. rewrite Hw, Hq. eauto. Qed.

Theorem start_enabled c s w n :
  nth_error (ws s) w = Some (WGot n) -> stop s = false ->
  next c s (KReadStop w) = Some (add_ev (set_ws s w (WRun n)) (EStart n)).
Proof. intros Hw Hs. unfold next. rewrite Hw, Hs. reflexivity. Qed.
