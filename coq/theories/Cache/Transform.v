(** L2: model of caching.py's [_add_value_store] / [plan_with_value_stores] edge surgery on the keyed
    multigraph.  Definitions only; proofs in TransformProofs.v. *)
From Coq Require Import List Arith Bool.
Import ListNotations.
From UJ Require Import Engine.Engine Base.Topo Base.Graph Cache.Prune.

(** one registry entry in [registry.mapping] order *)
Record entry := { enode : nat; esource : bool; estale : bool }.

Definition mke (a b : nat) (k : ekey) : kedge := {| esrc := a; edst := b; ekind := k |}.

(** ids of the nodes [_add_value_store] creates, given the id counter [c] when it starts:
    [plan.lit(value_store)], the read call, then (if stale) the write call / Barrier literal *)
Definition lit_id (c : nat) : nat := c.
Definition read_id (c : nat) : nat := S c.
Definition write_id (c : nat) : nat := S (S c).
Definition next_id (c : nat) (e : entry) : nat := if estale e then S (S (S c)) else S (S c).

(** the edge moves of the final loop over the out-edges captured at the start *)
Definition move_edge (n rd wr : nat) (stale : bool) (p : pgraph) (e : kedge) : pgraph :=
  let p1 := remove_edge e p in
  if is_dep (ekind e) then (if stale then add_edge (mke wr (edst e) KDep) p1 else p1)
  else add_edge (mke rd (edst e) (ekind e)) p1.

Definition add_value_store (p : pgraph) (c : nat) (e : entry) : pgraph :=
  let n := enode e in
  let out := out_edges p n in
  let l := lit_id c in let rd := read_id c in let wr := write_id c in
  let p1 := add_node l KLit p in
  let p2 := add_edge (mke l rd (KPos 0)) (add_node rd KCall p1) in
  let p3 :=
    if estale e then
      if esource e then
        let pb := add_node wr KLit p2 in
        let pb' := fold_left (fun q pr => add_edge (mke pr wr KDep) q) (ppreds pb n) pb in
        add_edge (mke wr rd KDep) pb'
      else
        let pw := add_node wr KCall p2 in
        add_edge (mke wr rd KDep) (add_edge (mke n wr (KPos 1)) (add_edge (mke l wr (KPos 0)) pw))
    else p2 in
  fold_left (move_edge n rd wr (estale e)) out p3.

Fixpoint add_all (p : pgraph) (c : nat) (es : list entry) : pgraph :=
  match es with
  | [] => p
  | e :: rest => add_all (add_value_store p c e) (next_id c e) rest
  end.

(** ids assigned to each entry, in order *)
Fixpoint entry_ids (c : nat) (es : list entry) : list (entry * nat) :=
  match es with
  | [] => []
  | e :: rest => (e, c) :: entry_ids (next_id c e) rest
  end.

Definition required_writes (c : nat) (es : list entry) : list nat :=
  map (fun ec => write_id (snd ec)) (filter (fun ec => estale (fst ec)) (entry_ids c es)).

Definition redirect (c : nat) (es : list entry) (output : option nat) : option nat :=
  match output with
  | None => None
  | Some o => match find (fun ec => enode (fst ec) =? o) (entry_ids c es) with
              | Some ec => Some (read_id (snd ec))
              | None => Some o
              end
  end.

(** plan_with_value_stores after the stale computation: returns (physical plan, redirected output) *)
Definition physical (p : pgraph) (c : nat) (es : list entry) (output : option nat) : pgraph * option nat :=
  let out' := redirect c es output in
  (prune_plan (add_all p c es) (required_writes c es) out', out').
