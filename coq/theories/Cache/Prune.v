(** Model of uberjob/_transformations/pruning.py: [prune_plan], [_prune_literal_if_trivial],
    [prune_source_literals].  Definitions only; proofs in PruneProofs.v. *)
From Coq Require Import List Arith Bool.
Import ListNotations.
From UJ Require Import Engine.Engine Base.Topo Base.Graph.

Definition opt_list (o : option nat) : list nat := match o with Some x => [x] | None => [] end.
Definition opt_is (o : option nat) (n : nat) : bool := match o with Some x => x =? n | None => false end.

(** [required_nodes = set(required_nodes); if output_node: required_nodes.add(output_node)]
    ([Node] objects are always truthy).  A set; the order is irrelevant for [all_ancestors]' result. *)
Definition prune_roots (required : list nat) (output : option nat) : list nat := required ++ opt_list output.

(** [required_nodes = all_ancestors(plan.graph, required_nodes);
     prune_nodes = set(plan.graph.nodes()) - required_nodes; plan.graph.remove_nodes_from(prune_nodes)] *)
Definition restrict (keep : list nat) (p : pgraph) : pgraph :=
  remove_nodes (filter (fun n => negb (inb n keep)) (pnodes p)) p.

(** the edges [itertools.product(predecessors, successors)] x [Dependency()] *)
Definition bypass_edges (ps ss : list nat) : list kedge :=
  map (fun ab => {| esrc := fst ab; edst := snd ab; ekind := KDep |}) (list_prod ps ss).

(** the last three lines of [_prune_literal_if_trivial] *)
Definition elide (l : nat) (p : pgraph) : pgraph :=
  remove_node l (add_edges (bypass_edges (ppreds p l) (psuccs p l)) p).

(** [_prune_literal_if_trivial]: return unless every out-edge is a plain [Dependency]; return when
    [m * n > m + n] ([m], [n] = number of distinct predecessors / successors). *)
Definition prune_literal_if_trivial (p : pgraph) (l : nat) : pgraph :=
  if negb (forallb (fun e => is_dep (ekind e)) (out_edges p l)) then p
  else
    let m := length (ppreds p l) in
    let n := length (psuccs p l) in
    if m + n <? m * n then p else elide l p.

(** The real function raises NetworkXError (from [graph.predecessors]) when a required node or the output
    node is not in the plan; callers pass nodes of the plan ([_run.py]: the gathered output; caching.py:
    the write nodes it just added).  [prune_ok] is that precondition. *)
Definition prune_ok (p : pgraph) (required : list nat) (output : option nat) : bool :=
  forallb (has_node p) (prune_roots required output).

Definition prune_plan (p : pgraph) (required : list nat) (output : option nat) : pgraph :=
  let keep := all_ancestors (to_graph p) (prune_roots required output) in
  let p1 := restrict keep p in
  let lits := filter (fun u => is_lit p1 u && negb (opt_is output u)) (pnodes p1) in
  fold_left prune_literal_if_trivial lits p1.

(** [prune_source_literals(plan, predicate=pred)]: the list is computed first, then removed node by node *)
Definition source_literals (p : pgraph) (pred : nat -> bool) : list nat :=
  filter (fun n => is_lit p n && is_source (to_graph p) n && pred n) (pnodes p).
Definition prune_source_literals (p : pgraph) (pred : nat -> bool) : pgraph :=
  remove_nodes (source_literals p pred) p.

(** what [_run.py] without a registry hands to the engine: prune_plan with no required nodes, then
    run_physical's prune_source_literals without predicate *)
Definition run_graph (p : pgraph) (output : option nat) : pgraph :=
  prune_source_literals (prune_plan p [] output) (fun _ => true).
