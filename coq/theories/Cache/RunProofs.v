(** C03 for one run: from any store state satisfying the invariant [Inv], a complete run returns the
    from-scratch value and leaves the from-scratch value in every non-source store. *)
From Coq Require Import List Arith ZArith Bool Lia.
Import ListNotations.
From UJ Require Import Cache.Logical Cache.LogicalProofs.
Local Open Scope Z_scope.

Lemma find_ext_local {A} (f g : A -> bool) l : (forall x, f x = g x) -> find f l = find g l.
Proof. intros H. induction l as [|h t IH]; cbn; auto. rewrite H, IH. reflexivity. Qed.

Section Run.
  Variable F : nat -> list Z -> Z.
  Variables (reg : registry) (p : plan).
  Hypothesis wf : wf_plan p.

  (** distinct registry entries use distinct stores *)
  Definition reg_inj : Prop :=
    forall i j ei ej, reg i = Some ei -> reg j = Some ej -> store ei = store ej -> i = j.
  (** registry entries refer to plan nodes *)
  Definition reg_dom : Prop := forall i e, reg i = Some e -> (i < length p)%nat.

  (** [Inv]: every stored value that looks up to date (with no fresh_time) is the from-scratch value. *)
  Definition Inv (sg : sstate) : Prop :=
    forall n e, reg n = Some e -> is_src e = false ->
      is_stale reg sg None p n = false -> content sg (store e) = scratch F reg sg p n.

  (** * staleness is monotone in fresh_time *)
  Lemma step_unfold sg fresh i nd :
    nth_error p i = Some nd ->
    (stl reg sg fresh p i, mt reg sg fresh p i) =
    (if existsb (stl reg sg fresh p) (preds_of nd) then (true, None)
     else let ma := smax_list (map (mt reg sg fresh p) (preds_of nd)) in
          match reg i with
          | None => (false, ma)
          | Some e => match mtime sg (store e) with
                      | None => (true, None)
                      | Some t => if (is_some ma || negb (is_src e)) && (gt_opt ma t || gt_opt fresh t)
                                  then (true, None) else (false, Some t)
                      end
          end).
  Proof.
    intros Hi. pose proof (stale_fix reg sg fresh p wf i nd Hi) as H.
    unfold stl, mt. rewrite <- surjective_pairing. rewrite H. reflexivity.
  Qed.

  Lemma stl_out sg fresh i : (length p <= i)%nat -> stl reg sg fresh p i = false.
  Proof. intros H. unfold stl. rewrite slook_out; auto. Qed.

  Lemma fresh_mono sg fresh n :
    stl reg sg fresh p n = false ->
    stl reg sg None p n = false /\ mt reg sg None p n = mt reg sg fresh p n.
  Proof.
    induction n as [n IH] using lt_wf_ind. intros Hs.
    destruct (nth_error p n) as [nd|] eqn:Hn.
    2:{ apply nth_error_None in Hn. unfold stl, mt. rewrite !slook_out by auto. auto. }
    pose proof (step_unfold sg fresh n nd Hn) as Hf. pose proof (step_unfold sg None n nd Hn) as H0.
    assert (Hlt : forall j, In j (preds_of nd) -> (j < n)%nat) by (intros; eapply wf; eauto).
    destruct (existsb (stl reg sg fresh p) (preds_of nd)) eqn:Ef.
    { inversion Hf. congruence. }
    assert (Hns : forall j, In j (preds_of nd) -> stl reg sg fresh p j = false).
    { intros j Hj. destruct (stl reg sg fresh p j) eqn:E; auto.
      assert (existsb (stl reg sg fresh p) (preds_of nd) = true) by (apply existsb_exists; eauto). congruence. }
    assert (E0 : existsb (stl reg sg None p) (preds_of nd) = false).
    { apply not_true_iff_false. intros H. apply existsb_exists in H. destruct H as (j & Hj & Hjs).
      destruct (IH j (Hlt j Hj) (Hns j Hj)). congruence. }
    assert (Ema : map (mt reg sg None p) (preds_of nd) = map (mt reg sg fresh p) (preds_of nd)).
    { apply map_ext_in. intros j Hj. apply (IH j (Hlt j Hj) (Hns j Hj)). }
    rewrite E0 in H0. cbv zeta in H0, Hf. rewrite Ema in H0.
    set (ma := smax_list (map (mt reg sg fresh p) (preds_of nd))) in *.
    destruct (reg n) as [e|].
    - destruct (mtime sg (store e)) as [t|].
      + cbn [gt_opt] in H0. rewrite orb_false_r in H0.
        destruct ((is_some ma || negb (is_src e)) && (gt_opt ma t || gt_opt fresh t)) eqn:Ec.
        * inversion Hf. congruence.
        * assert (Ec0 : (is_some ma || negb (is_src e)) && gt_opt ma t = false).
          { apply andb_false_iff in Ec. apply andb_false_iff. destruct Ec as [Ec|Ec]; auto.
            apply orb_false_iff in Ec. tauto. }
          rewrite Ec0 in H0. inversion H0. inversion Hf. split; congruence.
      + inversion Hf. congruence.
    - inversion H0. inversion Hf. split; congruence.
  Qed.

  (** * run values are the from-scratch values *)
  Lemma compute_ext (acc acc' : list (option Z)) nd :
    (forall j, In j (args nd) -> vlook acc j = vlook acc' j) -> compute F acc nd = compute F acc' nd.
  Proof. intros H. unfold compute. rewrite (map_ext_in _ (vlook acc')) by auto. reflexivity. Qed.

  Lemma values_are_scratch sg fresh :
    Inv sg -> forall n, value_of F reg sg fresh p n = scratch F reg sg p n.
  Proof.
    intros I n. induction n as [n IH] using lt_wf_ind.
    destruct (nth_error p n) as [nd|] eqn:Hn.
    2:{ apply nth_error_None in Hn. unfold value_of, scratch, value_table, scratch_table.
        rewrite !nth_overflow; auto; rewrite table_length; auto. }
    rewrite (value_fix F reg sg fresh p wf n nd Hn), (scratch_fix F reg sg p wf n nd Hn).
    unfold value_step, scratch_step.
    assert (Hc : compute F (value_table F reg sg fresh p) nd = compute F (scratch_table F reg sg p) nd).
    { apply compute_ext. intros j Hj. apply IH. eapply wf; eauto. unfold preds_of. apply in_or_app. auto. }
    destruct (reg n) as [e|] eqn:Er; [|exact Hc].
    destruct (is_src e) eqn:Es.
    - rewrite andb_false_r. reflexivity.
    - rewrite andb_true_r. unfold st_of. destruct (is_stale reg sg fresh p n) eqn:Est; [exact Hc|].
      pose proof (I n e Er Es) as Hi. rewrite (scratch_fix F reg sg p wf n nd Hn) in Hi.
      unfold scratch_step in Hi. rewrite Er, Es in Hi. apply Hi.
      apply (fresh_mono sg fresh n). exact Est.
  Qed.

  (** * scratch depends on the store state only through the contents of the source stores *)
  Lemma scratch_ext sg sg' :
    (forall n e, reg n = Some e -> is_src e = true -> content sg' (store e) = content sg (store e)) ->
    forall n, scratch F reg sg' p n = scratch F reg sg p n.
  Proof.
    intros H n. induction n as [n IH] using lt_wf_ind.
    destruct (nth_error p n) as [nd|] eqn:Hn.
    2:{ apply nth_error_None in Hn. unfold scratch, scratch_table. rewrite !nth_overflow; auto; rewrite table_length; auto. }
    rewrite (scratch_fix F reg sg' p wf n nd Hn), (scratch_fix F reg sg p wf n nd Hn). unfold scratch_step.
    assert (Hc : compute F (scratch_table F reg sg' p) nd = compute F (scratch_table F reg sg p) nd).
    { apply compute_ext. intros j Hj. apply IH. eapply wf; eauto. unfold preds_of. apply in_or_app. auto. }
    destruct (reg n) as [e|] eqn:Er; [|exact Hc]. destruct (is_src e) eqn:Es; [|exact Hc]. apply (H n e Er Es).
  Qed.

  (** * the store state after a complete run *)
  Hypothesis inj : reg_inj.
  Hypothesis dom : reg_dom.

  Lemma find_written sg fresh (w : nat -> bool) s :
    match find (fun i => match reg i with
                         | Some e => (store e =? s)%nat && is_written reg sg fresh p i && w i
                         | None => false end) (seq 0 (length p)) with
    | Some i => exists e, reg i = Some e /\ store e = s /\ is_written reg sg fresh p i = true /\ w i = true
    | None => forall i e, reg i = Some e -> store e = s -> is_written reg sg fresh p i && w i = false
    end.
  Proof.
    destruct (find _ _) as [i|] eqn:Ef.
    - apply find_some in Ef. destruct Ef as [_ Hi]. destruct (reg i) as [e|]; [|discriminate].
      apply andb_true_iff in Hi. destruct Hi as [Hi Hw]. apply andb_true_iff in Hi. destruct Hi as [Hs Hi].
      apply Nat.eqb_eq in Hs. eauto.
    - intros i e Hr Hs. pose proof (find_none _ _ Ef i) as Hn.
      assert (Hin : In i (seq 0 (length p))) by (apply in_seq; split; [lia|]; cbn; eapply dom; eauto).
      specialize (Hn Hin). cbn in Hn. rewrite Hr in Hn. rewrite Hs, Nat.eqb_refl in Hn. cbn in Hn.
      exact Hn.
  Qed.

  Lemma after_cut_spec sg fresh tw w s :
    (exists n e v, reg n = Some e /\ store e = s /\ is_written reg sg fresh p n = true /\ w n = true /\
                   value_of F reg sg fresh p n = Some v /\ after_cut F reg sg fresh p tw w s = Some (v, tw n)) \/
    after_cut F reg sg fresh p tw w s = sg s.
  Proof.
    unfold after_cut. pose proof (find_written sg fresh w s) as H.
    destruct (find _ _) as [i|].
    - destruct H as (e & Hr & Hs & Hw & Hwi). destruct (value_of F reg sg fresh p i) as [v|] eqn:Ev; [|auto].
      left. exists i, e, v. auto 10.
    - auto.
  Qed.

  Lemma after_cut_written sg fresh tw w n e :
    reg n = Some e -> is_written reg sg fresh p n = true -> w n = true ->
    after_cut F reg sg fresh p tw w (store e) =
    match value_of F reg sg fresh p n with Some v => Some (v, tw n) | None => sg (store e) end.
  Proof.
    intros Hr Hw Hwn. unfold after_cut. pose proof (find_written sg fresh w (store e)) as H.
    destruct (find _ _) as [i|].
    - destruct H as (e' & Hr' & Hs & _). assert (i = n) by (eapply inj; eauto). subst. reflexivity.
    - specialize (H n e Hr eq_refl). rewrite Hw, Hwn in H. discriminate.
  Qed.

  Lemma after_cut_untouched sg fresh tw w s :
    (forall n e, reg n = Some e -> store e = s -> is_written reg sg fresh p n && w n = false) ->
    after_cut F reg sg fresh p tw w s = sg s.
  Proof.
    intros H. unfold after_cut. pose proof (find_written sg fresh w s) as Hf.
    destruct (find _ _) as [i|]; auto. destruct Hf as (e & Hr & Hs & Hw & Hwi).
    specialize (H i e Hr Hs). rewrite Hw, Hwi in H. discriminate.
  Qed.

  Lemma after_run_is_cut sg fresh tw s :
    after_run F reg sg fresh p tw s = after_cut F reg sg fresh p tw (fun _ => true) s.
  Proof. reflexivity. Qed.

  Definition sources_present (sg : sstate) : Prop :=
    forall n e, reg n = Some e -> is_src e = true -> content sg (store e) <> None.

  Lemma all_some_ok l : (forall o, In o l -> o <> None) -> all_some l <> None.
  Proof.
    induction l as [|[x|] t IH]; intros H; cbn; try congruence.
    - destruct (all_some t) eqn:E; cbn; try congruence. apply IH. intros o Ho. apply H. right; auto.
    - exfalso. apply (H None); auto. left; auto.
  Qed.

  Lemma scratch_defined sg : sources_present sg -> forall n, (n < length p)%nat -> scratch F reg sg p n <> None.
  Proof.
    intros Hp n. induction n as [n IH] using lt_wf_ind. intros Hn.
    destruct (nth_error p n) as [nd|] eqn:E; [|apply nth_error_None in E; lia].
    rewrite (scratch_fix F reg sg p wf n nd E). unfold scratch_step.
    assert (Hc : compute F (scratch_table F reg sg p) nd <> None).
    { unfold compute. destruct (is_call nd); [|congruence].
      destruct (all_some (map (vlook (scratch_table F reg sg p)) (args nd))) eqn:Ea; cbn; [congruence|].
      exfalso. revert Ea. apply all_some_ok. intros o Ho. apply in_map_iff in Ho. destruct Ho as (j & <- & Hj).
      assert (j < n)%nat by (eapply wf; eauto; unfold preds_of; apply in_or_app; auto).
      apply (IH j); lia. }
    destruct (reg n) as [e|] eqn:Er; auto. destruct (is_src e) eqn:Es; auto. eapply Hp; eauto.
  Qed.

  (** C03, one run: every non-source store holds the from-scratch value afterwards, and so does the output. *)
  Theorem run_eq_scratch sg fresh output tw :
    Inv sg -> sources_present sg ->
    let sg' := after_run F reg sg fresh p tw in
    (forall n e, reg n = Some e -> is_src e = false -> content sg' (store e) = scratch F reg sg' p n) /\
    (forall n e, reg n = Some e -> is_src e = true -> content sg' (store e) = content sg (store e)) /\
    (forall o, output = Some o -> run_output F reg sg fresh output p = scratch F reg sg p o).
  Proof.
    intros I Hp sg'.
    assert (Hsrc : forall n e, reg n = Some e -> is_src e = true -> content sg' (store e) = content sg (store e)).
    { intros n e Hr Hs. unfold sg', content. rewrite after_run_is_cut, after_cut_untouched; auto.
      intros m e' Hr' Hst. assert (m = n) by (eapply inj; eauto). subst. rewrite Hr in Hr'. inversion Hr'; subst.
      unfold is_written. rewrite Hr, Hs, andb_false_r. reflexivity. }
    split; [|split; [exact Hsrc|]].
    - intros n e Hr Hs. rewrite (scratch_ext sg sg' Hsrc n).
      destruct (is_written reg sg fresh p n) eqn:Hw.
      + unfold sg', content. rewrite after_run_is_cut, (after_cut_written sg fresh tw _ n e Hr Hw eq_refl).
        rewrite (values_are_scratch sg fresh I n).
        destruct (scratch F reg sg p n) as [v|] eqn:Ev; [reflexivity|].
        exfalso. eapply scratch_defined; eauto.
      + unfold sg', content. rewrite after_run_is_cut, after_cut_untouched.
        * apply (I n e Hr Hs). apply (fresh_mono sg fresh n).
          unfold is_written in Hw. rewrite Hr, Hs, andb_true_r in Hw. exact Hw.
        * intros m e' Hr' Hst. assert (m = n) by (eapply inj; eauto). subst. rewrite Hw. reflexivity.
    - intros o ->. unfold run_output. apply values_are_scratch. exact I.
  Qed.
End Run.
