(** C05 "calls minimal": the closed forms of Cache/Logical.v for what a run executes and reads
    ([need_table] / [read_table], computed by a BACKWARD pass over the plan) characterised declaratively.

    Part A: fixpoint equations of the backward tables ([need_table_nth], [read_table_nth],
            [any_consumer_spec]) - the counterpart of LogicalProofs.[table_fix] for the forward tables.
    Part B: [wanted], the least set of nodes WITHOUT a value store that a run has to compute, and
            [pulls_iff_wanted], [read_iff].
    Part C: non-vacuity on a 6-node plan.

    Everything is stated for an arbitrary stale predicate [st]; the instances for the real stale set
    ([is_stale]) are at the end of Part B. *)
From Coq Require Import List Arith ZArith Bool Lia.
Import ListNotations.
From UJ Require Import Cache.Logical Cache.LogicalProofs.

Lemma nth_error_skipn_add {A} (l : list A) : forall m k, nth_error (skipn m l) k = nth_error l (m + k).
Proof.
  induction l as [|a l IH]; intros [|m] k; cbn; auto.
  - destruct k; reflexivity.
Qed.

Lemma existsb_eqb_In i l : existsb (Nat.eqb i) l = true <-> In i l.
Proof.
  rewrite existsb_exists. split.
  - intros [x [Hx He]]. apply Nat.eqb_eq in He. now subst.
  - intros H. exists i. split; [assumption | apply Nat.eqb_refl].
Qed.

(** * Part A: the backward tables *)
Section Backward.
  Variables (reg : registry) (st : nat -> bool) (output : option nat).
  Notation ntab := (need_table reg st output).
  Notation d0 := (false, false).

  Lemma is_out_true i : is_out output i = true <-> output = Some i.
  Proof.
    unfold is_out. destruct output as [o|]; [|split; discriminate].
    rewrite Nat.eqb_eq. split; [intros ->; reflexivity | intros H; now inversion H].
  Qed.

  Lemma need_table_length : forall p b, length (ntab b p) = length p.
  Proof. induction p as [|nd p IH]; intros b; cbn; [reflexivity|]. now rewrite IH. Qed.

  (** the table of a suffix is the suffix of the table *)
  Lemma need_table_skipn : forall p b k, skipn k (ntab b p) = ntab (b + k) (skipn k p).
  Proof.
    induction p as [|nd p IH]; intros b [|k]; cbn [skipn need_table]; try reflexivity.
    - now rewrite Nat.add_0_r.
    - rewrite IH. replace (b + S k) with (S b + k) by lia. reflexivity.
  Qed.

  Lemma need_table_nth_gen : forall p b k nd,
    nth_error p k = Some nd ->
    nth k (ntab b p) d0 =
    need_step reg st output (b + k) nd (skipn (S k) p) (ntab (S (b + k)) (skipn (S k) p)).
  Proof.
    induction p as [|nd0 p IH]; intros b [|k] nd Hk; cbn in Hk; try discriminate.
    - inversion Hk; subst nd0. cbn [need_table nth skipn]. now rewrite Nat.add_0_r.
    - cbn [need_table nth]. rewrite (IH (S b) k nd Hk).
      replace (b + S k) with (S b + k) by lia. reflexivity.
  Qed.

  (** the fixpoint equation of [need_table] *)
  Lemma need_table_nth p i nd :
    nth_error p i = Some nd ->
    nth i (ntab 0 p) d0 =
    need_step reg st output i nd (skipn (S i) p) (ntab (S i) (skipn (S i) p)).
  Proof. intros H. exact (need_table_nth_gen p 0 i nd H). Qed.

  Lemma need_table_overflow p i : length p <= i -> nth i (ntab 0 p) d0 = d0.
  Proof. intros H. apply nth_overflow. now rewrite need_table_length. Qed.

  Lemma any_consumer_spec sel which i : forall rest later,
    any_consumer sel which i rest later = true <->
    exists k c e, nth_error rest k = Some c /\ nth_error later k = Some e /\ In i (which c) /\ sel e = true.
  Proof.
    induction rest as [|c rest IH]; intros [|e later]; cbn [any_consumer].
    - split; [discriminate|]. intros [[|k] [c [e [H _]]]]; discriminate.
    - split; [discriminate|]. intros [[|k] [c [e' [H _]]]]; discriminate.
    - split; [discriminate|]. intros [[|k] [c' [e' [_ [H _]]]]]; discriminate.
    - rewrite orb_true_iff, andb_true_iff, existsb_eqb_In, IH. split.
      + intros [[H1 H2] | [k [c' [e' [H1 [H2 [H3 H4]]]]]]].
        * exists 0, c, e. cbn. auto.
        * exists (S k), c', e'. cbn. auto.
      + intros [[|k] [c' [e' [H1 [H2 [H3 H4]]]]]]; cbn in H1, H2.
        * inversion H1; inversion H2; subst. now left.
        * right. exists k, c', e'. auto.
  Qed.

  (** the same with global node indices *)
  Lemma any_consumer_global sel which p i :
    any_consumer sel which i (skipn (S i) p) (ntab (S i) (skipn (S i) p)) = true <->
    exists c nd, i < c /\ nth_error p c = Some nd /\ In i (which nd) /\ sel (nth c (ntab 0 p) d0) = true.
  Proof.
    rewrite any_consumer_spec.
    replace (ntab (S i) (skipn (S i) p)) with (skipn (S i) (ntab 0 p))
      by (rewrite need_table_skipn; reflexivity).
    split.
    - intros [k [c [e [H1 [H2 [H3 H4]]]]]]. rewrite nth_error_skipn_add in H1. rewrite nth_error_skipn_add in H2.
      exists (S i + k), c. split; [lia|]. split; [assumption|]. split; [assumption|].
      assert (E : nth (S i + k) (ntab 0 p) d0 = e) by (apply nth_error_nth; exact H2).
      now rewrite E.
    - intros [c [nd [Hlt [H1 [H2 H3]]]]]. exists (c - S i), nd, (nth c (ntab 0 p) d0).
      rewrite !nth_error_skipn_add. replace (S i + (c - S i)) with c by lia.
      split; [assumption|]. split; [|split; assumption].
      apply nth_error_nth'. rewrite need_table_length. apply nth_error_Some. congruence.
  Qed.

  Lemma read_table_nth_gen : forall p b k nd,
    nth_error p k = Some nd ->
    nth k (read_table reg output b p (ntab b p)) false =
    match reg (b + k) with
    | Some _ => is_out output (b + k) ||
                any_consumer snd args (b + k) (skipn (S k) p) (ntab (S (b + k)) (skipn (S k) p))
    | None => false
    end.
  Proof.
    induction p as [|nd0 p IH]; intros b [|k] nd Hk; cbn in Hk; try discriminate.
    - inversion Hk; subst nd0. cbn [need_table read_table nth skipn]. now rewrite Nat.add_0_r.
    - cbn [need_table read_table nth]. rewrite (IH (S b) k nd Hk).
      replace (b + S k) with (S b + k) by lia. reflexivity.
  Qed.

  (** the fixpoint equation of [read_table] *)
  Lemma read_table_nth p i nd :
    nth_error p i = Some nd ->
    nth i (read_table reg output 0 p (ntab 0 p)) false =
    match reg i with
    | Some _ => is_out output i || any_consumer snd args i (skipn (S i) p) (ntab (S i) (skipn (S i) p))
    | None => false
    end.
  Proof. intros H. exact (read_table_nth_gen p 0 i nd H). Qed.

  (** ** the entries, unfolded *)
  Section Plan.
    Variable p : plan.
    Hypothesis wf : wf_plan p.
    Notation needs_g := (ntab 0 p).
    Definition pulls_g (i : nat) : bool := fst (nth i (need_table reg st output 0 p) (false, false)).
    Definition active_g (i : nat) : bool := snd (nth i (need_table reg st output 0 p) (false, false)).
    Definition is_read_g (i : nat) : bool :=
      nth i (read_table reg output 0 p (need_table reg st output 0 p)) false.

    Lemma need_registered i nd e :
      nth_error p i = Some nd -> reg i = Some e -> nth i needs_g d0 = (st i, st i && negb (is_src e)).
    Proof. intros Hi He. rewrite (need_table_nth p i nd Hi). unfold need_step. now rewrite He. Qed.

    Lemma need_unregistered_eq i : reg i = None -> pulls_g i = active_g i.
    Proof.
      intros Hr. unfold pulls_g, active_g. destruct (nth_error p i) as [nd|] eqn:E.
      - rewrite (need_table_nth p i nd E). unfold need_step. now rewrite Hr.
      - apply nth_error_None in E. now rewrite need_table_overflow.
    Qed.

    Lemma pulls_unfold i nd :
      nth_error p i = Some nd -> reg i = None ->
      (pulls_g i = true <->
       output = Some i \/
       exists c ndc, nth_error p c = Some ndc /\ In i (preds_of ndc) /\ pulls_g c = true).
    Proof.
      intros Hi Hr. unfold pulls_g at 1. rewrite (need_table_nth p i nd Hi). unfold need_step. rewrite Hr.
      cbn [fst]. rewrite orb_true_iff, is_out_true, any_consumer_global. split.
      - intros [H | [c [ndc [_ H]]]]; [now left | right; now exists c, ndc].
      - intros [H | [c [ndc [H1 [H2 H3]]]]]; [now left|]. right. exists c, ndc.
        split; [exact (wf c ndc H1 i H2) | auto].
    Qed.

    Lemma read_unfold i nd re :
      nth_error p i = Some nd -> reg i = Some re ->
      (is_read_g i = true <->
       output = Some i \/
       exists c ndc, nth_error p c = Some ndc /\ In i (args ndc) /\ active_g c = true).
    Proof.
      intros Hi Hr. unfold is_read_g. rewrite (read_table_nth p i nd Hi), Hr.
      rewrite orb_true_iff, is_out_true, any_consumer_global. split.
      - intros [H | [c [ndc [_ H]]]]; [now left | right; now exists c, ndc].
      - intros [H | [c [ndc [H1 [H2 H3]]]]]; [now left|]. right. exists c, ndc.
        split; [|auto]. apply (wf c ndc H1 i). unfold preds_of. apply in_or_app. now left.
    Qed.

    Lemma is_read_unregistered i : reg i = None -> is_read_g i = false.
    Proof.
      intros Hr. unfold is_read_g. destruct (nth_error p i) as [nd|] eqn:E.
      - now rewrite (read_table_nth p i nd E), Hr.
      - apply nth_error_None in E. apply nth_overflow.
        assert (H : forall q b nt, length (read_table reg output b q nt) <= length q).
        { induction q as [|x q IHq]; intros b [|y nt]; cbn; try lia. specialize (IHq (S b) nt). lia. }
        specialize (H p 0 needs_g). lia.
    Qed.

    (** * Part B: the declarative characterisation *)

    (** [wanted u]: the value of the node [u] (which has no value store) has to be computed by this
        run: it is the requested output, or some consumer - through ANY edge, argument or plain
        Dependency - is a stale node with a value store (which is therefore rebuilt, or, for a stale
        dependent source, must wait for [u]), or some consumer without a value store is itself wanted.
        An up-to-date stored consumer does NOT make its predecessors wanted: that is the minimality. *)
    Inductive wanted : nat -> Prop :=
    | w_out u : output = Some u -> wanted u
    | w_stale u c nd rc :
        nth_error p c = Some nd -> In u (preds_of nd) -> reg c = Some rc -> st c = true -> wanted u
    | w_step u c nd :
        nth_error p c = Some nd -> In u (preds_of nd) -> reg c = None -> wanted c -> wanted u.

    Lemma wanted_pulls u : wanted u -> u < length p -> reg u = None -> pulls_g u = true.
    Proof.
      induction 1 as [u Ho | u c nd rc Hc Hin Hrc Hst | u c nd Hc Hin Hrc Hw IH]; intros Hu Hr;
        (destruct (nth_error p u) as [ndu|] eqn:Eu; [|apply nth_error_None in Eu; lia]);
        apply (pulls_unfold u ndu Eu Hr).
      - now left.
      - right. exists c, nd. split; [assumption|]. split; [assumption|].
        unfold pulls_g. now rewrite (need_registered c nd rc Hc Hrc).
      - right. exists c, nd. split; [assumption|]. split; [assumption|].
        apply IH; [|assumption]. apply nth_error_Some. congruence.
    Qed.

    Lemma pulls_wanted : forall k i, length p <= i + k -> i < length p -> reg i = None ->
      pulls_g i = true -> wanted i.
    Proof.
      induction k as [|k IH]; intros i Hk Hi Hr Hp; [lia|].
      destruct (nth_error p i) as [nd|] eqn:Ei; [|apply nth_error_None in Ei; lia].
      apply (pulls_unfold i nd Ei Hr) in Hp. destruct Hp as [Ho | [c [ndc [Hc [Hin Hpc]]]]].
      - now apply w_out.
      - pose proof (wf c ndc Hc i Hin) as Hlt.
        assert (Hcl : c < length p) by (apply nth_error_Some; congruence).
        destruct (reg c) as [rc|] eqn:Erc.
        + apply (w_stale i c ndc rc Hc Hin Erc).
          unfold pulls_g in Hpc. now rewrite (need_registered c ndc rc Hc Erc) in Hpc.
        + apply (w_step i c ndc Hc Hin Erc). apply IH; try assumption. lia.
    Qed.

    (** C05 minimality: a node without a value store is kept by the run exactly when it is wanted *)
    Theorem pulls_iff_wanted_g i :
      i < length p -> reg i = None -> (pulls_g i = true <-> wanted i).
    Proof.
      intros Hi Hr. split.
      - apply (pulls_wanted (length p) i); [lia | assumption | assumption].
      - intros H. now apply wanted_pulls.
    Qed.

    (** [active c] spelled out: the node computes (its function runs / its literal is materialised) *)
    Definition active_decl (c : nat) : Prop :=
      (reg c = None /\ wanted c) \/ (exists rc, reg c = Some rc /\ is_src rc = false /\ st c = true).

    Lemma active_iff c : c < length p -> (active_g c = true <-> active_decl c).
    Proof.
      intros Hc. destruct (nth_error p c) as [nd|] eqn:Ec; [|apply nth_error_None in Ec; lia].
      unfold active_decl. destruct (reg c) as [rc|] eqn:Erc.
      - unfold active_g. rewrite (need_registered c nd rc Ec Erc). cbn [snd].
        rewrite andb_true_iff, negb_true_iff. split.
        + intros [H1 H2]. right. exists rc. auto.
        + intros [[H _] | [rc' [H [H1 H2]]]]; [discriminate|]. inversion H; subst. auto.
      - rewrite <- (need_unregistered_eq c Erc), (pulls_iff_wanted_g c Hc Erc). split.
        + intros H. left. auto.
        + intros [[_ H] | [rc [H _]]]; [assumption | discriminate].
    Qed.

    (** a value store is read back exactly when its node is the requested output or an argument of a
        node that computes; a plain Dependency never causes a read *)
    Theorem read_iff_g i re :
      i < length p -> reg i = Some re ->
      (is_read_g i = true <->
       output = Some i \/ exists c nd, nth_error p c = Some nd /\ In i (args nd) /\ active_decl c).
    Proof.
      intros Hi Hr. destruct (nth_error p i) as [ndi|] eqn:Ei; [|apply nth_error_None in Ei; lia].
      rewrite (read_unfold i ndi re Ei Hr). split.
      - intros [H | [c [nd [H1 [H2 H3]]]]]; [now left|]. right. exists c, nd.
        split; [assumption|]. split; [assumption|]. apply active_iff; [|assumption].
        apply nth_error_Some. congruence.
      - intros [H | [c [nd [H1 [H2 H3]]]]]; [now left|]. right. exists c, nd.
        split; [assumption|]. split; [assumption|]. apply active_iff; [|assumption].
        apply nth_error_Some. congruence.
    Qed.
  End Plan.
End Backward.

(** ** the instances for the real stale set of [_get_stale_nodes] *)
Section Real.
  Variables (reg : registry) (sg : sstate) (fresh : option Z) (output : option nat) (p : plan).
  Hypothesis wf : wf_plan p.
  Notation st := (is_stale reg sg fresh p).

  Theorem pulls_iff_wanted i :
    i < length p -> reg i = None ->
    (pulls reg sg fresh output p i = true <-> wanted reg st output p i).
  Proof. apply (pulls_iff_wanted_g reg st output p wf). Qed.

  Theorem read_iff i re :
    i < length p -> reg i = Some re ->
    (is_read reg sg fresh output p i = true <->
     output = Some i \/
     exists c nd, nth_error p c = Some nd /\ In i (args nd) /\ active_decl reg st output p c).
  Proof. apply (read_iff_g reg st output p wf). Qed.

  Theorem active_iff_decl c :
    c < length p -> (active reg sg fresh output p c = true <-> active_decl reg st output p c).
  Proof. apply (active_iff reg st output p wf). Qed.

  (** the function of a Call runs exactly when the call computes *)
  Theorem exec_iff i nd :
    nth_error p i = Some nd -> is_call nd = true ->
    (is_exec reg sg fresh output p i = true <-> active_decl reg st output p i).
  Proof.
    intros Hi Hc. unfold is_exec. rewrite Hi, Hc. cbn [andb]. apply active_iff_decl.
    apply nth_error_Some. congruence.
  Qed.
End Real.

(** * Part C: non-vacuity.
    0 = source (up to date, time 10); 1 = stored call(0), store time 5 < 10: stale;
    2 = unstored call(1); 3 = stored call(2) with a plain Dependency on 1 (stale: stale ancestor);
    4 = unstored side call(2), not wanted by anything; 5 = stored call(0), store time 30: up to date.
    Output: 3. *)
Definition ex_nd (c : bool) (a d : list nat) : node :=
  {| is_call := c; fn := 0; litv := 0%Z; args := a; deps := d |}.
Definition ex_plan6 : plan :=
  [ ex_nd true [] []; ex_nd true [0] []; ex_nd true [1] []; ex_nd true [2] [1]; ex_nd true [2] [];
    ex_nd true [0] [] ].
Definition ex_reg6 : registry := fun i =>
  match i with
  | 0 => Some {| store := 0; is_src := true |}
  | 1 => Some {| store := 1; is_src := false |}
  | 3 => Some {| store := 3; is_src := false |}
  | 5 => Some {| store := 5; is_src := false |}
  | _ => None
  end.
Definition ex_sg6 : sstate := fun s =>
  match s with
  | 0 => Some (7, 10)%Z | 1 => Some (7, 5)%Z | 3 => Some (7, 20)%Z | 5 => Some (7, 30)%Z | _ => None
  end.

Example ex_wf6 : wf_plan ex_plan6.
Proof.
  intros i nd Hi j Hj. do 6 (destruct i as [|i]; [inversion Hi; subst; cbn in Hj; intuition lia|]).
  destruct i; discriminate.
Qed.

Example ex_stale6 : map (is_stale ex_reg6 ex_sg6 None ex_plan6) (seq 0 6) = [false; true; true; true; true; false].
Proof. vm_compute. reflexivity. Qed.
Example ex_pulls6 : map (pulls ex_reg6 ex_sg6 None (Some 3) ex_plan6) (seq 0 6) = [false; true; true; true; false; false].
Proof. vm_compute. reflexivity. Qed.
Example ex_reads6 : map (is_read ex_reg6 ex_sg6 None (Some 3) ex_plan6) (seq 0 6) = [true; true; false; true; false; false].
Proof. vm_compute. reflexivity. Qed.

(** both sides of [pulls_iff_wanted]: node 2 is wanted (its consumer 3 is stale and stored), node 4 is not *)
Example ex_wanted_2 : wanted ex_reg6 (is_stale ex_reg6 ex_sg6 None ex_plan6) (Some 3) ex_plan6 2.
Proof. apply (pulls_iff_wanted ex_reg6 ex_sg6 None (Some 3) ex_plan6 ex_wf6 2); [cbn; lia | reflexivity | vm_compute; reflexivity]. Qed.
Example ex_wanted_2_direct : wanted ex_reg6 (is_stale ex_reg6 ex_sg6 None ex_plan6) (Some 3) ex_plan6 2.
Proof. eapply (w_stale _ _ _ _ 2 3); [reflexivity | cbn; auto | reflexivity | vm_compute; reflexivity]. Qed.
Example ex_not_wanted_4 : ~ wanted ex_reg6 (is_stale ex_reg6 ex_sg6 None ex_plan6) (Some 3) ex_plan6 4.
Proof.
  intros H. apply (pulls_iff_wanted ex_reg6 ex_sg6 None (Some 3) ex_plan6 ex_wf6 4) in H;
    [vm_compute in H; discriminate | cbn; lia | reflexivity].
Qed.
(** both sides of [read_iff]: store 1 is read (argument of the wanted node 2), store 5 is not *)
Example ex_read_1 :
  exists c nd, nth_error ex_plan6 c = Some nd /\ In 1 (args nd) /\
               active_decl ex_reg6 (is_stale ex_reg6 ex_sg6 None ex_plan6) (Some 3) ex_plan6 c.
Proof.
  destruct (proj1 (read_iff ex_reg6 ex_sg6 None (Some 3) ex_plan6 ex_wf6 1 _ ltac:(cbn; lia) eq_refl))
    as [H | H]; [vm_compute; reflexivity | discriminate | exact H].
Qed.
Example ex_not_read_5 :
  ~ (Some 3 = Some 5 \/
     exists c nd, nth_error ex_plan6 c = Some nd /\ In 5 (args nd) /\
                  active_decl ex_reg6 (is_stale ex_reg6 ex_sg6 None ex_plan6) (Some 3) ex_plan6 c).
Proof.
  intros H. apply (read_iff ex_reg6 ex_sg6 None (Some 3) ex_plan6 ex_wf6 5 _ ltac:(cbn; lia) eq_refl) in H.
  vm_compute in H. discriminate.
Qed.
