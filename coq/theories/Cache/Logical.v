(** L1: logical model of a run with a registry (uberjob/_transformations/caching.py + pruning.py + _run.py):
    the stale computation of [_get_stale_nodes] verbatim, and closed forms for what the physical plan
    executes, reads and writes.  Nodes are numbered in a topological order (every predecessor has a
    smaller index), so all definitions are structural.  Definitions only. *)
From Coq Require Import List Arith ZArith Bool Lia.
Import ListNotations.
Local Open Scope Z_scope.

(** * Plans *)
Record node := {
  is_call : bool;          (* Call vs Literal *)
  fn : nat;                (* function id (calls) *)
  litv : Z;                (* value (literals) *)
  args : list nat;         (* argument predecessors, positional then keyword, in call order *)
  deps : list nat          (* plain Dependency predecessors *)
}.
Definition plan := list node.
Definition preds_of (nd : node) : list nat := args nd ++ deps nd.
Definition wf_plan (p : plan) : Prop :=
  forall i nd, nth_error p i = Some nd -> forall j, In j (preds_of nd) -> (j < i)%nat.

Record rentry := { store : nat; is_src : bool }.
Definition registry := nat -> option rentry.        (* node -> its value store *)
Definition sstate := nat -> option (Z * Z).         (* store -> (content, modified time) *)
Definition content (sg : sstate) (s : nat) : option Z := option_map fst (sg s).
Definition mtime (sg : sstate) (s : nat) : option Z := option_map snd (sg s).

(** * safe_max *)
Definition smax (a b : option Z) : option Z :=
  match a, b with
  | None, x => x
  | x, None => x
  | Some x, Some y => Some (Z.max x y)
  end.
Definition smax_list (l : list (option Z)) : option Z := fold_right smax None l.
Definition gt_opt (a : option Z) (t : Z) : bool := match a with Some x => t <? x | None => false end.
Definition is_some {A} (o : option A) : bool := match o with Some _ => true | None => false end.

(** * Tables built in index order *)
Section Build.
  Context {A : Type}.
  Variable step : list A -> nat -> node -> A.
  Fixpoint build (acc : list A) (i : nat) (p : plan) : list A :=
    match p with
    | [] => acc
    | nd :: rest => build (acc ++ [step acc i nd]) (S i) rest
    end.
  Definition table (p : plan) : list A := build [] 0%nat p.
End Build.

(** * _get_stale_nodes *)
Section Stale.
  Variables (reg : registry) (sg : sstate) (fresh : option Z).
  Definition sinfo := (bool * option Z)%type.             (* (stale, modified time presented downstream) *)
  Definition slook (acc : list sinfo) (j : nat) : sinfo := nth j acc (false, None).

  (** process / process_no_stale_ancestor *)
  Definition stale_step (acc : list sinfo) (i : nat) (nd : node) : sinfo :=
    let ps := preds_of nd in
    if existsb (fun j => fst (slook acc j)) ps then (true, None)
    else
      let ma := smax_list (map (fun j => snd (slook acc j)) ps) in
      match reg i with
      | None => (false, ma)
      | Some e =>
          match mtime sg (store e) with
          | None => (true, None)
          | Some t =>
              if (is_some ma || negb (is_src e)) && (gt_opt ma t || gt_opt fresh t)
              then (true, None)
              else (false, Some t)
          end
      end.
  Definition stale_table (p : plan) : list sinfo := table stale_step p.
  Definition is_stale (p : plan) (i : nat) : bool := fst (slook (stale_table p) i).
  Definition stale_nodes (p : plan) : list nat := filter (is_stale p) (seq 0 (length p)).
End Stale.

(** * What the pruned physical plan executes: backward pass *)
Section Needs.
  Variables (reg : registry) (st : nat -> bool) (output : option nat).
  (* entry for node c: (pulls c, active c) *)
  Definition ninfo := (bool * bool)%type.
  Definition is_out (i : nat) : bool := match output with Some o => o =? i | None => false end%nat.

  (** [later] holds the entries of nodes i+1, i+2, ... ; [rest] those nodes. *)
  Fixpoint any_consumer (sel : ninfo -> bool) (which : node -> list nat) (i : nat)
           (rest : plan) (later : list ninfo) : bool :=
    match rest, later with
    | c :: rest', e :: later' =>
        (existsb (Nat.eqb i) (which c) && sel e) || any_consumer sel which i rest' later'
    | _, _ => false
    end.

  Definition need_step (i : nat) (nd : node) (rest : plan) (later : list ninfo) : ninfo :=
    match reg i with
    | None =>
        let n := is_out i || any_consumer fst preds_of i rest later in (n, n)
    | Some e => (st i, st i && negb (is_src e))
    end.

  Fixpoint need_table (i : nat) (p : plan) : list ninfo :=
    match p with
    | [] => []
    | nd :: rest => let later := need_table (S i) rest in need_step i nd rest later :: later
    end.

  (** reads: a registered node's store is read iff it is the output or an active consumer takes it as an argument *)
  Fixpoint read_table (i : nat) (p : plan) (nt : list ninfo) : list bool :=
    match p, nt with
    | nd :: rest, _ :: later =>
        (match reg i with
         | Some _ => is_out i || any_consumer snd args i rest later
         | None => false
         end) :: read_table (S i) rest later
    | _, _ => []
    end.
End Needs.

(** * Values and effects of a run *)
Section Run.
  Variable F : nat -> list Z -> Z.                         (* H-user: calls are deterministic functions *)
  Variables (reg : registry) (sg : sstate) (fresh : option Z) (output : option nat).
  Variable p : plan.

  Definition st_of (i : nat) : bool := is_stale reg sg fresh p i.
  Definition needs : list ninfo := need_table reg st_of output 0%nat p.
  Definition pulls (i : nat) : bool := fst (nth i needs (false, false)).
  Definition active (i : nat) : bool := snd (nth i needs (false, false)).
  Definition reads_tbl : list bool := read_table reg output 0%nat p needs.
  Definition is_read (i : nat) : bool := nth i reads_tbl false.
  Definition is_written (i : nat) : bool :=
    match reg i with Some e => st_of i && negb (is_src e) | None => false end.
  (** the Call's own function runs (the registry.source placeholder never does) *)
  Definition is_exec (i : nat) : bool :=
    match nth_error p i with Some nd => is_call nd && active i | None => false end.

  (** value a node presents to its consumers: None = unavailable (missing store content) *)
  Definition vlook (acc : list (option Z)) (j : nat) : option Z := nth j acc None.
  Fixpoint all_some (l : list (option Z)) : option (list Z) :=
    match l with
    | [] => Some []
    | None :: _ => None
    | Some x :: t => option_map (cons x) (all_some t)
    end.
  (** the node's own computation *)
  Definition compute (acc : list (option Z)) (nd : node) : option Z :=
    if is_call nd then option_map (F (fn nd)) (all_some (map (vlook acc) (args nd)))
    else Some (litv nd).
  Definition value_step (acc : list (option Z)) (i : nat) (nd : node) : option Z :=
    match reg i with
    | None => compute acc nd
    | Some e =>
        if st_of i && negb (is_src e) then compute acc nd        (* written, then read back *)
        else content sg (store e)                               (* read *)
    end.
  Definition value_table : list (option Z) := table value_step p.
  Definition value_of (i : nat) : option Z := nth i value_table None.

  (** store state after a run in which exactly the nodes in [w] completed their write; [tw i] is the
      time at which node i's store is written *)
  Definition after_cut (tw : nat -> Z) (w : nat -> bool) : sstate :=
    fun s =>
      match find (fun i => match reg i with
                           | Some e => (store e =? s)%nat && is_written i && w i
                           | None => false end) (seq 0 (length p)) with
      | Some i => match value_of i with Some v => Some (v, tw i) | None => sg s end
      | None => sg s
      end.
  (** ... and after a complete successful run *)
  Definition after_run (tw : nat -> Z) : sstate := after_cut tw (fun _ => true).

  Definition run_output : option Z := match output with Some o => value_of o | None => None end.
End Run.

(** * From-scratch evaluation on the current source contents *)
Section Scratch.
  Variable F : nat -> list Z -> Z.
  Variables (reg : registry) (sg : sstate).
  Definition scratch_step (acc : list (option Z)) (i : nat) (nd : node) : option Z :=
    match reg i with
    | Some e => if is_src e then content sg (store e) else compute F acc nd
    | None => compute F acc nd
    end.
  Definition scratch_table (p : plan) : list (option Z) := table scratch_step p.
  Definition scratch (p : plan) (i : nat) : option Z := nth i (scratch_table p) None.
End Scratch.
