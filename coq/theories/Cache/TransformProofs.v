(** Structural facts about Cache/Transform.v (the L2 model of caching.py's [_add_value_store] /
    [plan_with_value_stores]) on which C09 ("rebuilt stored values are written, then read back, before
    downstream use") and C14 ("the physical plan is self-contained") rest.

    Part A: exact characterisation of one [add_value_store] step (edges, nodes, kinds, wf, acyclicity).
    Part B: the whole transformation [add_all] / [physical] (by induction over the registry entries).
    Part C: non-vacuity examples. *)
From Coq Require Import List Arith Bool Lia Permutation.
Import ListNotations.
From UJ Require Import Engine.Engine Base.Topo Base.TopoProofs Base.Graph Base.GraphProofs
  Cache.Prune Cache.PruneProofs Cache.Transform.

(** * Preliminaries *)

Lemma mke_eq a b k a' b' k' : mke a b k = mke a' b' k' <-> a = a' /\ b = b' /\ k = k'.
Proof.
  unfold mke. split.
  - intros H. inversion H. auto.
  - intros [-> [-> ->]]. reflexivity.
Qed.

Lemma mke_eta x : x = mke (esrc x) (edst x) (ekind x).
Proof. now destruct x. Qed.

Lemma is_dep_true k : is_dep k = true <-> k = KDep.
Proof. destruct k; cbn; split; intros H; try discriminate; reflexivity. Qed.

Lemma is_dep_false k : is_dep k = false <-> k <> KDep.
Proof. destruct k; cbn; split; intros H; try discriminate; try reflexivity; try congruence. Qed.

(** ** add_node on a fresh id *)
Lemma add_node_eq n k p :
  ~ In n (pnodes p) ->
  add_node n k p = {| pnodes := pnodes p ++ [n];
                      pkind := fun m => if m =? n then k else pkind p m;
                      pedges := pedges p |}.
Proof.
  intros Hn. unfold add_node, has_node. apply inb_false in Hn. now rewrite Hn.
Qed.

Lemma add_node_edges n k p : pedges (add_node n k p) = pedges p.
Proof. unfold add_node. now destruct (has_node p n). Qed.

Lemma add_node_wf n k p : pgraph_wf p -> pgraph_wf (add_node n k p).
Proof.
  intros Hwf. unfold add_node, has_node. destruct (inb n (pnodes p)) eqn:E; [assumption|].
  apply inb_false in E. destruct Hwf as [Hn [Hd He]]. split; [|split]; cbn.
  - apply NoDup_app_intro; [assumption | constructor; [intros [] | constructor] |].
    intros x Hx [<- | []]. contradiction.
  - assumption.
  - intros e H. destruct (He e H) as [H1 H2]. split; apply in_or_app; now left.
Qed.

(** ** a fold of [add_edge] over a list of sources *)
Lemma fold_add_edge_nodes (f : nat -> kedge) l : forall P,
  pnodes (fold_left (fun q pr => add_edge (f pr) q) l P) = pnodes P.
Proof. induction l as [|a l IH]; intros P; cbn; [reflexivity|]. now rewrite IH, add_edge_nodes. Qed.

Lemma fold_add_edge_kind (f : nat -> kedge) l : forall P,
  pkind (fold_left (fun q pr => add_edge (f pr) q) l P) = pkind P.
Proof. induction l as [|a l IH]; intros P; cbn; [reflexivity|]. now rewrite IH, add_edge_kind. Qed.

Lemma fold_add_edge_In (f : nat -> kedge) l : forall P x,
  In x (pedges (fold_left (fun q pr => add_edge (f pr) q) l P)) <->
  (exists pr, In pr l /\ x = f pr) \/ In x (pedges P).
Proof.
  induction l as [|a l IH]; intros P x; cbn.
  - split; [now right | intros [[pr [[] _]] | H]; assumption].
  - rewrite IH, add_edge_In. split.
    + intros [[pr [Hpr ->]] | [-> | H]].
      * left. exists pr. split; [now right | reflexivity].
      * left. exists a. split; [now left | reflexivity].
      * now right.
    + intros [[pr [[<- | Hpr] ->]] | H].
      * right. now left.
      * left. exists pr. split; [assumption | reflexivity].
      * right. now right.
Qed.

Lemma fold_add_edge_wf (f : nat -> kedge) l : forall P,
  pgraph_wf P ->
  (forall pr, In pr l -> In (esrc (f pr)) (pnodes P) /\ In (edst (f pr)) (pnodes P)) ->
  pgraph_wf (fold_left (fun q pr => add_edge (f pr) q) l P).
Proof.
  induction l as [|a l IH]; intros P Hwf Hl; cbn; [assumption|].
  apply IH.
  - apply add_edge_wf; [assumption | apply Hl; now left | apply Hl; now left].
  - intros pr Hpr. rewrite add_edge_nodes. apply Hl. now right.
Qed.

(** ** the edge moves of the final loop *)
Lemma move_edge_nodes n rd wr stale P o : pnodes (move_edge n rd wr stale P o) = pnodes P.
Proof.
  unfold move_edge. destruct (is_dep (ekind o)); [destruct stale|]; now rewrite ?add_edge_nodes.
Qed.

Lemma move_edge_kind n rd wr stale P o : pkind (move_edge n rd wr stale P o) = pkind P.
Proof.
  unfold move_edge. destruct (is_dep (ekind o)); [destruct stale|]; now rewrite ?add_edge_kind.
Qed.

Lemma move_edge_In n rd wr stale P o x :
  In x (pedges (move_edge n rd wr stale P o)) <->
  (In x (pedges P) /\ x <> o) \/
  (is_dep (ekind o) = false /\ x = mke rd (edst o) (ekind o)) \/
  (stale = true /\ is_dep (ekind o) = true /\ x = mke wr (edst o) KDep).
Proof.
  unfold move_edge. destruct (is_dep (ekind o)) eqn:Ed; [destruct stale|];
    rewrite ?add_edge_In, remove_edge_In.
  - split.
    + intros [-> | H]; [right; right; auto | now left].
    + intros [H | [[H _] | [_ [_ ->]]]]; [now right | discriminate | now left].
  - split.
    + intros H. now left.
    + intros [H | [[H _] | [H _]]]; [assumption | discriminate | discriminate].
  - split.
    + intros [-> | H]; [right; left; auto | now left].
    + intros [H | [[_ ->] | [_ [H _]]]]; [now right | now left | discriminate].
Qed.

Lemma fold_move_nodes n rd wr stale out : forall P,
  pnodes (fold_left (move_edge n rd wr stale) out P) = pnodes P.
Proof. induction out as [|o out IH]; intros P; cbn; [reflexivity|]. now rewrite IH, move_edge_nodes. Qed.

Lemma fold_move_kind n rd wr stale out : forall P,
  pkind (fold_left (move_edge n rd wr stale) out P) = pkind P.
Proof. induction out as [|o out IH]; intros P; cbn; [reflexivity|]. now rewrite IH, move_edge_kind. Qed.

(** the moved edges leave [rd]/[wr], the removed ones leave [n]: no interference *)
Lemma fold_move_In n rd wr stale out : forall P x,
  (forall o, In o out -> esrc o = n) -> n <> rd -> n <> wr ->
  (In x (pedges (fold_left (move_edge n rd wr stale) out P)) <->
   (In x (pedges P) /\ ~ In x out) \/
   (exists o, In o out /\ is_dep (ekind o) = false /\ x = mke rd (edst o) (ekind o)) \/
   (stale = true /\ exists o, In o out /\ is_dep (ekind o) = true /\ x = mke wr (edst o) KDep)).
Proof.
  induction out as [|o out IH]; intros P x Hsrc Hrd Hwr; cbn [fold_left].
  - split.
    + intros H. left. split; [assumption | intros []].
    + intros [[H _] | [[o [[] _]] | [_ [o [[] _]]]]]. assumption.
  - assert (Hsrc' : forall o', In o' out -> esrc o' = n) by (intros o' Ho'; apply Hsrc; now right).
    rewrite (IH _ x Hsrc' Hrd Hwr), move_edge_In. split.
    + intros [[[[Hx Hne] | [[Hd ->] | [Hs [Hd ->]]]] Hno] | [[o' [Ho' [Hd ->]]] | [Hs [o' [Ho' [Hd ->]]]]]].
      * left. split; [assumption|]. intros [<- | H]; [now apply Hne | now apply Hno].
      * right. left. exists o. split; [now left | auto].
      * right. right. split; [assumption|]. exists o. split; [now left | auto].
      * right. left. exists o'. split; [now right | auto].
      * right. right. split; [assumption|]. exists o'. split; [now right | auto].
    + intros [[Hx Hno] | [[o' [[<- | Ho'] [Hd ->]]] | [Hs [o' [[<- | Ho'] [Hd ->]]]]]].
      * left. split; [|intros H; apply Hno; now right]. left. split; [assumption|].
        intros ->. apply Hno. now left.
      * left. split; [right; left; auto|]. intros H. apply Hsrc' in H. cbn in H. congruence.
      * right. left. exists o'. auto.
      * left. split; [right; right; auto|]. intros H. apply Hsrc' in H. cbn in H. congruence.
      * right. right. split; [assumption|]. exists o'. auto.
Qed.

Lemma fold_move_wf n rd wr stale out : forall P,
  pgraph_wf P -> In rd (pnodes P) -> (stale = true -> In wr (pnodes P)) ->
  (forall o, In o out -> In (edst o) (pnodes P)) ->
  pgraph_wf (fold_left (move_edge n rd wr stale) out P).
Proof.
  induction out as [|o out IH]; intros P Hwf Hr Hw Ho; cbn [fold_left]; [assumption|].
  apply IH; rewrite ?move_edge_nodes; auto.
  - unfold move_edge. assert (Hd : In (edst o) (pnodes P)) by (apply Ho; now left).
    destruct (is_dep (ekind o)); [destruct stale|].
    + apply add_edge_wf; [now apply remove_edge_wf | cbn; now apply Hw | cbn; assumption].
    + now apply remove_edge_wf.
    + apply add_edge_wf; [now apply remove_edge_wf | cbn; assumption | cbn; assumption].
  - intros o' Ho'. apply Ho. now right.
Qed.

(** * Part A: one [add_value_store] step *)

(** side conditions of one step: the plan is well formed, the id counter is above every node (so the ids
    [lit_id c], [read_id c], [write_id c] are fresh) and the registered node is a plan node *)
Definition sctx (p : pgraph) (c : nat) (e : entry) : Prop :=
  pgraph_wf p /\ (forall n, In n (pnodes p) -> n < c) /\ In (enode e) (pnodes p).

(** the plan after [plan.lit(value_store)] and the read call *)
Definition avs_p2 (p : pgraph) (c : nat) : pgraph :=
  add_edge (mke (lit_id c) (read_id c) (KPos 0)) (add_node (read_id c) KCall (add_node (lit_id c) KLit p)).

(** the plan just before the final loop over the captured out-edges *)
Definition avs_pre (p : pgraph) (c : nat) (e : entry) : pgraph :=
  let n := enode e in
  let l := lit_id c in let rd := read_id c in let wr := write_id c in
  let p2 := avs_p2 p c in
  if estale e then
    if esource e then
      let pb := add_node wr KLit p2 in
      let pb' := fold_left (fun q pr => add_edge (mke pr wr KDep) q) (ppreds pb n) pb in
      add_edge (mke wr rd KDep) pb'
    else
      let pw := add_node wr KCall p2 in
      add_edge (mke wr rd KDep) (add_edge (mke n wr (KPos 1)) (add_edge (mke l wr (KPos 0)) pw))
  else p2.

Lemma avs_unfold p c e :
  add_value_store p c e =
  fold_left (move_edge (enode e) (read_id c) (write_id c) (estale e)) (out_edges p (enode e)) (avs_pre p c e).
Proof. reflexivity. Qed.

Lemma fresh_notin p c k : (forall n, In n (pnodes p) -> n < c) -> ~ In (k + c) (pnodes p).
Proof. intros H Hin. apply H in Hin. lia. Qed.

Lemma avs_p2_nodes p c :
  (forall n, In n (pnodes p) -> n < c) -> pnodes (avs_p2 p c) = pnodes p ++ [lit_id c; read_id c].
Proof.
  intros Hc. unfold avs_p2, lit_id, read_id. rewrite add_edge_nodes.
  rewrite (add_node_eq c KLit p) by (apply (fresh_notin p c 0 Hc)).
  rewrite add_node_eq; cbn [pnodes].
  - now rewrite <- app_assoc.
  - intros H. apply in_app_or in H. destruct H as [H | [H | []]]; [apply Hc in H|]; lia.
Qed.

Lemma avs_p2_kind p c m :
  (forall n, In n (pnodes p) -> n < c) ->
  pkind (avs_p2 p c) m = if m =? read_id c then KCall else if m =? lit_id c then KLit else pkind p m.
Proof.
  intros Hc. unfold avs_p2, lit_id, read_id. rewrite add_edge_kind.
  rewrite (add_node_eq c KLit p) by (apply (fresh_notin p c 0 Hc)).
  rewrite add_node_eq; cbn [pnodes pkind]; [reflexivity|].
  intros H. apply in_app_or in H. destruct H as [H | [H | []]]; [apply Hc in H|]; lia.
Qed.

Lemma avs_p2_In p c x :
  In x (pedges (avs_p2 p c)) <-> x = mke (lit_id c) (read_id c) (KPos 0) \/ In x (pedges p).
Proof. unfold avs_p2. now rewrite add_edge_In, !add_node_edges. Qed.

Lemma avs_p2_wf p c :
  (forall n, In n (pnodes p) -> n < c) -> pgraph_wf p -> pgraph_wf (avs_p2 p c).
Proof.
  intros Hc Hwf. pose proof (avs_p2_nodes p c Hc) as Hn. unfold avs_p2 in *.
  rewrite add_edge_nodes in Hn.
  apply add_edge_wf; [now apply add_node_wf, add_node_wf | |]; rewrite Hn; cbn [esrc edst mke];
    apply in_or_app; right; cbn; auto.
Qed.

(** predecessors of the registered node when the Barrier is wired: exactly its predecessors in [p] *)
Lemma avs_preds p c e k a :
  sctx p c e ->
  (In a (ppreds (add_node (write_id c) k (avs_p2 p c)) (enode e)) <-> edge (to_graph p) a (enode e)).
Proof.
  intros [Hwf [Hc Hn]]. rewrite ppreds_In, !pedge_iff. split; intros [k' H]; exists k'.
  - rewrite add_node_edges in H. apply avs_p2_In in H. destruct H as [H | H]; [|assumption].
    apply mke_eq in H. destruct H as [_ [H _]]. apply Hc in Hn. unfold read_id in H. lia.
  - rewrite add_node_edges. apply avs_p2_In. now right.
Qed.

Lemma avs_pre_nodes p c e :
  sctx p c e ->
  pnodes (avs_pre p c e) =
  pnodes p ++ [lit_id c; read_id c] ++ (if estale e then [write_id c] else []).
Proof.
  intros [Hwf [Hc Hn]]. unfold avs_pre. pose proof (avs_p2_nodes p c Hc) as H2.
  assert (Hw : ~ In (write_id c) (pnodes (avs_p2 p c))).
  { rewrite H2. unfold write_id, lit_id, read_id. intros H. apply in_app_or in H.
    destruct H as [H | [H | [H | []]]]; [apply Hc in H| |]; lia. }
  destruct (estale e); [destruct (esource e)|].
  - rewrite add_edge_nodes, fold_add_edge_nodes, add_node_eq by exact Hw. cbn [pnodes].
    rewrite H2, <- app_assoc. reflexivity.
  - rewrite !add_edge_nodes, add_node_eq by exact Hw. cbn [pnodes].
    rewrite H2, <- app_assoc. reflexivity.
  - rewrite H2. reflexivity.
Qed.

Lemma avs_pre_In p c e x :
  sctx p c e ->
  (In x (pedges (avs_pre p c e)) <->
   In x (pedges p) \/ x = mke (lit_id c) (read_id c) (KPos 0) \/
   (estale e = true /\ esource e = false /\
    (x = mke (lit_id c) (write_id c) (KPos 0) \/ x = mke (enode e) (write_id c) (KPos 1) \/
     x = mke (write_id c) (read_id c) KDep)) \/
   (estale e = true /\ esource e = true /\
    (x = mke (write_id c) (read_id c) KDep \/
     exists pr, edge (to_graph p) pr (enode e) /\ x = mke pr (write_id c) KDep))).
Proof.
  intros Hs. unfold avs_pre. destruct (estale e); [destruct (esource e)|].
  - rewrite add_edge_In, fold_add_edge_In, add_node_edges, avs_p2_In. split.
    + intros [-> | [[pr [Hpr ->]] | [-> | H]]].
      * right. right. right. auto.
      * right. right. right. repeat split. right. exists pr. split; [|reflexivity].
        now apply (avs_preds p c e KLit pr Hs).
      * right. now left.
      * now left.
    + intros [H | [-> | [[_ [H _]] | [_ [_ [-> | [pr [Hpr ->]]]]]]]].
      * right. right. now right.
      * right. right. now left.
      * discriminate.
      * now left.
      * right. left. exists pr. split; [|reflexivity]. now apply (avs_preds p c e KLit pr Hs).
  - rewrite !add_edge_In, add_node_edges, avs_p2_In. split.
    + intros [-> | [-> | [-> | [-> | H]]]].
      * right. right. left. auto.
      * right. right. left. auto.
      * right. right. left. auto.
      * right. now left.
      * now left.
    + intros [H | [-> | [[_ [_ [-> | [-> | ->]]]] | [_ [H _]]]]]; auto; try discriminate.
  - rewrite avs_p2_In. split.
    + intros [-> | H]; [right; now left | now left].
    + intros [H | [-> | [[H _] | [H _]]]]; auto; discriminate.
Qed.

Lemma avs_pre_wf p c e : sctx p c e -> pgraph_wf (avs_pre p c e).
Proof.
  intros Hs. pose proof (avs_pre_nodes p c e Hs) as Hnodes. destruct Hs as [Hwf [Hc Hn]].
  pose proof (avs_p2_wf p c Hc Hwf) as H2. pose proof (avs_p2_nodes p c Hc) as H2n.
  unfold avs_pre in *. destruct (estale e); [destruct (esource e)|]; [| |assumption].
  - rewrite add_edge_nodes in Hnodes.
    apply add_edge_wf.
    + apply fold_add_edge_wf; [now apply add_node_wf|].
      intros pr Hpr. rewrite fold_add_edge_nodes in Hnodes. rewrite Hnodes. cbn [esrc edst mke].
      split; apply in_or_app; [left | right; cbn; auto].
      apply (avs_preds p c e KLit pr) in Hpr; [|exact (conj Hwf (conj Hc Hn))].
      apply (to_graph_wf p Hwf) in Hpr. apply Hpr.
    + rewrite Hnodes. cbn [esrc mke]. apply in_or_app; right; cbn; auto.
    + rewrite Hnodes. cbn [edst mke]. apply in_or_app; right; cbn; auto.
  - rewrite !add_edge_nodes in Hnodes.
    repeat (apply add_edge_wf; [| rewrite ?add_edge_nodes, Hnodes; cbn [esrc edst mke] ..]).
    + now apply add_node_wf.
    + apply in_or_app; right; cbn; auto.
    + apply in_or_app; right; cbn; auto.
    + apply in_or_app; now left.
    + apply in_or_app; right; cbn; auto.
    + apply in_or_app; right; cbn; auto.
    + apply in_or_app; right; cbn; auto.
Qed.

Lemma edge_lt p c x :
  pgraph_wf p -> (forall n, In n (pnodes p) -> n < c) -> In x (pedges p) -> esrc x < c /\ edst x < c.
Proof. intros [_ [_ He]] Hc Hx. destruct (He x Hx) as [H1 H2]. split; now apply Hc. Qed.

(** ** A.1 the exact edge set of [add_value_store p c e] *)
Inductive avs_edge (p : pgraph) (c : nat) (e : entry) : kedge -> Prop :=
| AE_old x :                      (* (1) edges of p that do not leave the registered node *)
    In x (pedges p) -> esrc x <> enode e -> avs_edge p c e x
| AE_lit_read :                   (* (2) read(store_literal) *)
    avs_edge p c e (mke (lit_id c) (read_id c) (KPos 0))
| AE_lit_write :                  (* (3) write(store_literal, node); write before read *)
    estale e = true -> esource e = false -> avs_edge p c e (mke (lit_id c) (write_id c) (KPos 0))
| AE_val_write :
    estale e = true -> esource e = false -> avs_edge p c e (mke (enode e) (write_id c) (KPos 1))
| AE_write_read :                 (* (3)/(4) write (or Barrier) -> read *)
    estale e = true -> avs_edge p c e (mke (write_id c) (read_id c) KDep)
| AE_barrier pr :                 (* (4) predecessors of a stale source -> Barrier *)
    estale e = true -> esource e = true -> edge (to_graph p) pr (enode e) ->
    avs_edge p c e (mke pr (write_id c) KDep)
| AE_arg s k :                    (* (5) argument out-edges now leave the read node *)
    In (mke (enode e) s k) (pedges p) -> k <> KDep -> avs_edge p c e (mke (read_id c) s k)
| AE_dep s :                      (* (6) Dependency out-edges of a stale node leave the write node *)
    estale e = true -> In (mke (enode e) s KDep) (pedges p) -> avs_edge p c e (mke (write_id c) s KDep).

Theorem add_value_store_edges p c e x :
  sctx p c e -> (In x (pedges (add_value_store p c e)) <-> avs_edge p c e x).
Proof.
  intros Hs. pose proof Hs as [Hwf [Hc Hn]]. pose proof (Hc _ Hn) as Hnc.
  assert (Hout : forall o, In o (out_edges p (enode e)) -> esrc o = enode e).
  { intros o Ho. now apply out_edges_In in Ho. }
  assert (Hlow : forall o, In o (out_edges p (enode e)) -> esrc o < c /\ edst o < c).
  { intros o Ho. apply out_edges_In in Ho. now apply (edge_lt p c o Hwf Hc). }
  rewrite avs_unfold, fold_move_In by (try exact Hout; unfold read_id, write_id; lia).
  rewrite (avs_pre_In p c e x Hs). split.
  - intros [[Hpre Hno] | [[o [Ho [Hd ->]]] | [Hst [o [Ho [Hd ->]]]]]].
    + destruct Hpre as [Hx | [-> | [[Hst [Hso [-> | [-> | ->]]]] | [Hst [Hso [-> | [pr [Hpr ->]]]]]]]].
      * apply AE_old; [assumption|]. intros Hsrc. apply Hno. apply out_edges_In. now split.
      * apply AE_lit_read.
      * now apply AE_lit_write.
      * now apply AE_val_write.
      * now apply AE_write_read.
      * now apply AE_write_read.
      * now apply AE_barrier.
    + apply out_edges_In in Ho. destruct Ho as [Ho Hsrc]. apply AE_arg; [|now apply is_dep_false].
      rewrite <- Hsrc. now rewrite <- mke_eta.
    + apply out_edges_In in Ho. destruct Ho as [Ho Hsrc]. apply is_dep_true in Hd.
      apply AE_dep; [assumption|]. rewrite <- Hsrc, <- Hd. now rewrite <- mke_eta.
  - intros H. destruct H as [x Hx Hsrc | | Hst Hso | Hst Hso | Hst | pr Hst Hso Hpr | s k Hin Hk | s Hst Hin].
    + left. split; [now left|]. intros Ho. apply Hout in Ho. contradiction.
    + left. split; [right; now left|]. intros Ho. apply Hlow in Ho. cbn in Ho. unfold lit_id in Ho. lia.
    + left. split; [right; right; left; auto|]. intros Ho. apply Hlow in Ho. cbn in Ho.
      unfold lit_id in Ho. lia.
    + left. split; [right; right; left; auto|]. intros Ho. apply Hlow in Ho. cbn in Ho.
      unfold write_id in Ho. lia.
    + left. split.
      * destruct (esource e) eqn:Hso; [right; right; right; auto | right; right; left; auto].
      * intros Ho. apply Hlow in Ho. cbn in Ho. unfold write_id in Ho. lia.
    + left. split; [right; right; right; split; [assumption|split; [assumption|]]; right; now exists pr|].
      intros Ho. apply Hlow in Ho. cbn in Ho. unfold write_id in Ho. lia.
    + right. left. exists (mke (enode e) s k). split; [|split].
      * apply out_edges_In. now split.
      * now apply is_dep_false.
      * reflexivity.
    + right. right. split; [assumption|]. exists (mke (enode e) s KDep). split; [|split].
      * apply out_edges_In. now split.
      * reflexivity.
      * reflexivity.
Qed.

(** ** A.2 nodes, kinds, well-formedness, freshness bound *)
Theorem add_value_store_nodes p c e :
  sctx p c e ->
  pnodes (add_value_store p c e) =
  pnodes p ++ [lit_id c; read_id c] ++ (if estale e then [write_id c] else []).
Proof. intros Hs. rewrite avs_unfold, fold_move_nodes. now apply avs_pre_nodes. Qed.

Lemma add_value_store_nodes_In p c e m :
  sctx p c e ->
  (In m (pnodes (add_value_store p c e)) <->
   In m (pnodes p) \/ m = lit_id c \/ m = read_id c \/ (estale e = true /\ m = write_id c)).
Proof.
  intros Hs. rewrite (add_value_store_nodes p c e Hs), in_app_iff. cbn [app In].
  destruct (estale e); cbn [In]; intuition (auto; try discriminate).
Qed.

Theorem add_value_store_bound p c e m :
  sctx p c e -> In m (pnodes (add_value_store p c e)) -> m < next_id c e.
Proof.
  intros Hs Hm. pose proof Hs as [_ [Hc _]]. apply (add_value_store_nodes_In p c e m Hs) in Hm.
  unfold next_id, lit_id, read_id, write_id in *.
  destruct Hm as [Hm | [-> | [-> | [Hst ->]]]]; [apply Hc in Hm|..]; destruct (estale e); try lia; discriminate.
Qed.

Lemma next_id_ge c e : c < next_id c e.
Proof. unfold next_id. destruct (estale e); lia. Qed.

Theorem add_value_store_wf p c e : sctx p c e -> pgraph_wf (add_value_store p c e).
Proof.
  intros Hs. pose proof (avs_pre_nodes p c e Hs) as Hnodes. pose proof Hs as [Hwf [Hc Hn]].
  rewrite avs_unfold. apply fold_move_wf.
  - now apply avs_pre_wf.
  - rewrite Hnodes. apply in_or_app. right. cbn. auto.
  - intros Hst. rewrite Hnodes, Hst. apply in_or_app. right. cbn. auto.
  - intros o Ho. apply out_edges_In in Ho. destruct Ho as [Ho _]. rewrite Hnodes. apply in_or_app. left.
    destruct Hwf as [_ [_ He]]. now apply He.
Qed.

(** kinds: old nodes unchanged; store literal is a Literal, read is a Call, write is a Call for a stored
    node and the [Barrier] literal for a source *)
Lemma avs_pre_kind p c e m :
  sctx p c e ->
  pkind (avs_pre p c e) m =
  if estale e && (m =? write_id c) then (if esource e then KLit else KCall)
  else if m =? read_id c then KCall else if m =? lit_id c then KLit else pkind p m.
Proof.
  intros [Hwf [Hc Hn]]. unfold avs_pre. pose proof (avs_p2_nodes p c Hc) as H2.
  assert (Hw : ~ In (write_id c) (pnodes (avs_p2 p c))).
  { rewrite H2. unfold write_id, lit_id, read_id. intros H. apply in_app_or in H.
    destruct H as [H | [H | [H | []]]]; [apply Hc in H| |]; lia. }
  destruct (estale e); [destruct (esource e)|]; cbn [andb].
  - rewrite add_edge_kind, fold_add_edge_kind, add_node_eq by exact Hw. cbn [pkind].
    rewrite (avs_p2_kind p c m Hc). reflexivity.
  - rewrite !add_edge_kind, add_node_eq by exact Hw. cbn [pkind].
    rewrite (avs_p2_kind p c m Hc). reflexivity.
  - apply (avs_p2_kind p c m Hc).
Qed.

Theorem add_value_store_kind_old p c e m :
  sctx p c e -> In m (pnodes p) -> pkind (add_value_store p c e) m = pkind p m.
Proof.
  intros Hs Hm. rewrite avs_unfold, fold_move_kind, (avs_pre_kind p c e m Hs).
  destruct Hs as [_ [Hc _]]. apply Hc in Hm. unfold write_id, read_id, lit_id.
  replace (m =? S (S c)) with false by (symmetry; apply Nat.eqb_neq; lia).
  replace (m =? S c) with false by (symmetry; apply Nat.eqb_neq; lia).
  replace (m =? c) with false by (symmetry; apply Nat.eqb_neq; lia).
  now rewrite andb_false_r.
Qed.

Theorem add_value_store_kind_lit p c e :
  sctx p c e -> pkind (add_value_store p c e) (lit_id c) = KLit.
Proof.
  intros Hs. rewrite avs_unfold, fold_move_kind, (avs_pre_kind p c e _ Hs).
  unfold write_id, read_id, lit_id.
  replace (c =? S (S c)) with false by (symmetry; apply Nat.eqb_neq; lia).
  replace (c =? S c) with false by (symmetry; apply Nat.eqb_neq; lia).
  now rewrite andb_false_r, Nat.eqb_refl.
Qed.

Theorem add_value_store_kind_read p c e :
  sctx p c e -> pkind (add_value_store p c e) (read_id c) = KCall.
Proof.
  intros Hs. rewrite avs_unfold, fold_move_kind, (avs_pre_kind p c e _ Hs).
  unfold write_id, read_id, lit_id.
  replace (S c =? S (S c)) with false by (symmetry; apply Nat.eqb_neq; lia).
  now rewrite andb_false_r, Nat.eqb_refl.
Qed.

Theorem add_value_store_kind_write p c e :
  sctx p c e -> estale e = true ->
  pkind (add_value_store p c e) (write_id c) = if esource e then KLit else KCall.
Proof.
  intros Hs Hst. rewrite avs_unfold, fold_move_kind, (avs_pre_kind p c e _ Hs).
  now rewrite Hst, Nat.eqb_refl.
Qed.

(** ** A.3 one step keeps the plan acyclic and loop-free *)
Definition avs_rank (rank : nat -> nat) (c n : nat) (x : nat) : nat :=
  if x =? lit_id c then 0
  else if x =? read_id c then 3 * rank n + 2
  else if x =? write_id c then 3 * rank n + 1
  else 3 * rank x.

Lemma avs_rank_old rank c n x : x < c -> avs_rank rank c n x = 3 * rank x.
Proof.
  intros H. unfold avs_rank, lit_id, read_id, write_id.
  replace (x =? c) with false by (symmetry; apply Nat.eqb_neq; lia).
  replace (x =? S c) with false by (symmetry; apply Nat.eqb_neq; lia).
  replace (x =? S (S c)) with false by (symmetry; apply Nat.eqb_neq; lia).
  reflexivity.
Qed.
Lemma avs_rank_lit rank c n : avs_rank rank c n (lit_id c) = 0.
Proof. unfold avs_rank. now rewrite Nat.eqb_refl. Qed.
Lemma avs_rank_read rank c n : avs_rank rank c n (read_id c) = 3 * rank n + 2.
Proof.
  unfold avs_rank, lit_id, read_id.
  replace (S c =? c) with false by (symmetry; apply Nat.eqb_neq; lia). now rewrite Nat.eqb_refl.
Qed.
Lemma avs_rank_write rank c n : avs_rank rank c n (write_id c) = 3 * rank n + 1.
Proof.
  unfold avs_rank, lit_id, read_id, write_id.
  replace (S (S c) =? c) with false by (symmetry; apply Nat.eqb_neq; lia).
  replace (S (S c) =? S c) with false by (symmetry; apply Nat.eqb_neq; lia). now rewrite Nat.eqb_refl.
Qed.

Lemma avs_rank_ok p c e rank x :
  sctx p c e -> (forall a b, edge (to_graph p) a b -> rank a < rank b) ->
  avs_edge p c e x -> avs_rank rank c (enode e) (esrc x) < avs_rank rank c (enode e) (edst x).
Proof.
  intros [Hwf [Hc Hn]] Hr Hx. pose proof (Hc _ Hn) as Hnc.
  assert (Hlow : forall y, In y (pedges p) -> esrc y < c /\ edst y < c /\ rank (esrc y) < rank (edst y)).
  { intros y Hy. destruct (edge_lt p c y Hwf Hc Hy) as [H1 H2]. repeat split; try assumption.
    apply Hr. now apply pedge_of_In. }
  destruct Hx as [x Hx Hsrc | | Hst Hso | Hst Hso | Hst | pr Hst Hso Hpr | s k Hin Hk | s Hst Hin];
    cbn [esrc edst mke].
  - destruct (Hlow x Hx) as [H1 [H2 H3]]. rewrite !avs_rank_old by assumption. lia.
  - rewrite avs_rank_lit, avs_rank_read. lia.
  - rewrite avs_rank_lit, avs_rank_write. lia.
  - rewrite avs_rank_old, avs_rank_write by assumption. lia.
  - rewrite avs_rank_read, avs_rank_write. lia.
  - pose proof (Hr _ _ Hpr) as Hlt. apply (to_graph_wf p Hwf) in Hpr. destruct Hpr as [Hpr _].
    apply Hc in Hpr. rewrite avs_rank_old, avs_rank_write by assumption. lia.
  - destruct (Hlow _ Hin) as [H1 [H2 H3]]. cbn in H1, H2, H3.
    rewrite avs_rank_read, avs_rank_old by assumption. lia.
  - destruct (Hlow _ Hin) as [H1 [H2 H3]]. cbn in H1, H2, H3.
    rewrite avs_rank_write, avs_rank_old by assumption. lia.
Qed.

Theorem add_value_store_acyclic p c e :
  sctx p c e -> acyclic (to_graph p) -> acyclic (to_graph (add_value_store p c e)).
Proof.
  intros Hs [rank Hr]. exists (avs_rank rank c (enode e)). intros a b Hab.
  apply pedge_iff in Hab. destruct Hab as [k Hin]. apply (add_value_store_edges p c e _ Hs) in Hin.
  apply (avs_rank_ok p c e rank _ Hs Hr) in Hin. exact Hin.
Qed.

(** * Part B: the whole transformation [add_all p c es] *)

(** the setting of every theorem below: [p] well formed, every node below the id counter [c] (so every id
    created is fresh), the registry entries [es] are pairwise distinct nodes of the plan *)
Definition tctx (p : pgraph) (c : nat) (es : list entry) : Prop :=
  pgraph_wf p /\ (forall n, In n (pnodes p) -> n < c) /\
  NoDup (map enode es) /\ (forall e, In e es -> In (enode e) (pnodes p)).

Lemma tctx_head p c e es : tctx p c (e :: es) -> sctx p c e.
Proof. intros [Hwf [Hc [_ Hn]]]. exact (conj Hwf (conj Hc (Hn e (or_introl eq_refl)))). Qed.

Lemma tctx_step p c e es : tctx p c (e :: es) -> tctx (add_value_store p c e) (next_id c e) es.
Proof.
  intros Ht. pose proof (tctx_head _ _ _ _ Ht) as Hs. destruct Ht as [Hwf [Hc [Hnd Hn]]].
  split; [|split; [|split]].
  - now apply add_value_store_wf.
  - intros n. now apply add_value_store_bound.
  - cbn in Hnd. now inversion Hnd.
  - intros e' He'. apply (add_value_store_nodes_In p c e _ Hs). left. apply Hn. now right.
Qed.

Lemma tctx_reg_lt p c es n : tctx p c es -> In n (map enode es) -> n < c.
Proof.
  intros [_ [Hc [_ Hn]]] Hin. apply in_map_iff in Hin. destruct Hin as [e [<- He]]. apply Hc. now apply Hn.
Qed.

Lemma tctx_head_notin p c e es : tctx p c (e :: es) -> ~ In (enode e) (map enode es).
Proof. intros [_ [_ [Hnd _]]]. cbn in Hnd. now inversion Hnd. Qed.

Lemma entry_ids_In c es : forall e ce, In (e, ce) (entry_ids c es) -> In e es /\ c <= ce.
Proof.
  revert c. induction es as [|e0 es IH]; intros c e ce H; cbn in H; [contradiction|].
  destruct H as [H | H].
  - inversion H; subst. split; [now left | lia].
  - apply IH in H. destruct H as [H1 H2]. split; [now right|]. pose proof (next_id_ge c e0). lia.
Qed.

Lemma entry_ids_complete c es : forall e, In e es -> exists ce, In (e, ce) (entry_ids c es).
Proof.
  revert c. induction es as [|e0 es IH]; intros c e H; [contradiction|]. cbn.
  destruct H as [-> | H]; [exists c; now left|].
  destruct (IH (next_id c e0) e H) as [ce Hce]. exists ce. now right.
Qed.

(** ** the stability facts: a later step only removes edges leaving its own registered node, and every
    edge it creates has a fresh endpoint *)
Lemma add_all_keeps x : forall es p c,
  tctx p c es -> In x (pedges p) -> ~ In (esrc x) (map enode es) -> In x (pedges (add_all p c es)).
Proof.
  induction es as [|e es IH]; intros p c Ht Hx Hno; cbn [add_all]; [assumption|].
  apply IH.
  - now apply tctx_step.
  - apply (add_value_store_edges p c e x (tctx_head _ _ _ _ Ht)). apply AE_old; [assumption|].
    intros H. apply Hno. cbn. now left.
  - intros H. apply Hno. cbn. now right.
Qed.

Lemma avs_edge_new_high p c e x :
  avs_edge p c e x -> In x (pedges p) \/ c <= esrc x \/ c <= edst x.
Proof.
  intros H. destruct H; cbn [esrc edst mke]; unfold lit_id, read_id, write_id; auto; right; lia.
Qed.

Lemma add_all_no_new_low x : forall es p c,
  tctx p c es -> ~ In x (pedges p) -> esrc x < c -> edst x < c -> ~ In x (pedges (add_all p c es)).
Proof.
  induction es as [|e es IH]; intros p c Ht Hx Hs Hd; cbn [add_all]; [assumption|].
  pose proof (next_id_ge c e) as Hge. apply IH; [now apply tctx_step | | lia | lia].
  intros H. apply (add_value_store_edges p c e x (tctx_head _ _ _ _ Ht)) in H.
  apply avs_edge_new_high in H. destruct H as [H | [H | H]]; [contradiction | lia | lia].
Qed.

(** every edge leaving a registered node towards an old node is gone at the end *)
Lemma add_all_removes x : forall es p c,
  tctx p c es -> In (esrc x) (map enode es) -> edst x < c -> ~ In x (pedges (add_all p c es)).
Proof.
  induction es as [|e es IH]; intros p c Ht Hreg Hd; cbn [add_all]; [contradiction|].
  pose proof (next_id_ge c e) as Hge. pose proof (tctx_step _ _ _ _ Ht) as Ht'.
  cbn in Hreg. destruct Hreg as [Hreg | Hreg].
  - assert (Hlt : enode e < c) by (apply (tctx_reg_lt p c (e :: es)); [assumption | now left]).
    apply add_all_no_new_low; [assumption | | lia | lia].
    intros H. apply (add_value_store_edges p c e x (tctx_head _ _ _ _ Ht)) in H.
    destruct H; cbn [esrc edst mke] in *; unfold lit_id, read_id, write_id in *; lia.
  - apply IH; [assumption | assumption | lia].
Qed.

(** the workhorse: a property [phi] of the current plan that survives the steps of the other entries and
    makes the step of entry [e] create the edge [x], whose source is a created id or [e]'s own node *)
Lemma add_all_at (phi : pgraph -> Prop) x e ce : forall es p c,
  tctx p c es -> In (e, ce) (entry_ids c es) -> phi p ->
  (forall p' c' e', sctx p' c' e' -> In e' es -> enode e' <> enode e -> phi p' ->
                    phi (add_value_store p' c' e')) ->
  (forall p', sctx p' ce e -> phi p' -> In x (pedges (add_value_store p' ce e))) ->
  ~ In (esrc x) (map enode es) \/ ce <= esrc x \/ esrc x = enode e ->
  In x (pedges (add_all p c es)).
Proof.
  induction es as [|e0 es IH]; intros p c Ht Hin Hphi Hpres Hat Hsrc; cbn [add_all entry_ids] in *;
    [contradiction|].
  pose proof (tctx_head _ _ _ _ Ht) as Hs. pose proof (tctx_step _ _ _ _ Ht) as Ht'.
  destruct Hin as [Heq | Hin].
  - inversion Heq; subst e0 ce. apply add_all_keeps; [assumption | now apply Hat |].
    intros Hreg. destruct Hsrc as [Hno | [Hge | Heq']].
    + apply Hno. cbn. now right.
    + assert (Hlt : esrc x < c) by (apply (tctx_reg_lt p c (e :: es) _ Ht); cbn; now right). lia.
    + rewrite Heq' in Hreg. now apply (tctx_head_notin _ _ _ _ Ht).
  - apply (IH _ (next_id c e0)); try assumption.
    + apply Hpres; [assumption | now left | | assumption].
      intros Heq. apply entry_ids_In in Hin. destruct Hin as [Hin _].
      apply (tctx_head_notin _ _ _ _ Ht). rewrite Heq. now apply in_map.
    + intros p' c' e' Hs' He'. apply Hpres; [assumption | now right].
    + destruct Hsrc as [Hno | Hsrc]; [left | now right]. intros H. apply Hno. cbn. now right.
Qed.

Lemma add_all_created x e ce es p c :
  tctx p c es -> In (e, ce) (entry_ids c es) ->
  (forall p', sctx p' ce e -> In x (pedges (add_value_store p' ce e))) ->
  ce <= esrc x \/ esrc x = enode e ->
  In x (pedges (add_all p c es)).
Proof.
  intros Ht Hin Hat Hsrc.
  apply (add_all_at (fun _ => True) x e ce es p c); [exact Ht | exact Hin | exact I | | | exact (or_intror Hsrc)].
  - intros; exact I.
  - intros p' Hs _. now apply Hat.
Qed.

Lemma entry_reg c es e ce : In (e, ce) (entry_ids c es) -> In (enode e) (map enode es).
Proof. intros H. apply entry_ids_In in H. apply in_map. apply H. Qed.

(** ids of different entries do not overlap *)
Lemma entry_ids_order c es : forall e1 c1 e2 c2,
  In (e1, c1) (entry_ids c es) -> In (e2, c2) (entry_ids c es) ->
  (e1 = e2 /\ c1 = c2) \/ next_id c1 e1 <= c2 \/ next_id c2 e2 <= c1.
Proof.
  revert c. induction es as [|e0 es IH]; intros c e1 c1 e2 c2 H1 H2; cbn in *; [contradiction|].
  destruct H1 as [H1 | H1], H2 as [H2 | H2].
  - inversion H1; inversion H2; subst. now left.
  - inversion H1; subst. apply entry_ids_In in H2. right. left. apply H2.
  - inversion H2; subst. apply entry_ids_In in H1. right. right. apply H1.
  - now apply (IH (next_id c e0)).
Qed.

(** ** B.1 write, then read; both carry their store as a literal argument *)
Theorem C09_write_then_read p c es e ce :
  tctx p c es -> In (e, ce) (entry_ids c es) ->
  let q := add_all p c es in
  In (mke (lit_id ce) (read_id ce) (KPos 0)) (pedges q) /\
  (estale e = true -> In (mke (write_id ce) (read_id ce) KDep) (pedges q)) /\
  (estale e = true -> esource e = false ->
   In (mke (enode e) (write_id ce) (KPos 1)) (pedges q) /\
   In (mke (lit_id ce) (write_id ce) (KPos 0)) (pedges q)).
Proof.
  intros Ht Hin q. subst q. split; [|split].
  - apply (add_all_created _ e ce); [exact Ht | exact Hin | |].
    + intros p' Hs. apply (add_value_store_edges p' ce e _ Hs). apply AE_lit_read.
    + left. cbn. unfold lit_id. lia.
  - intros Hst. apply (add_all_created _ e ce); [exact Ht | exact Hin | |].
    + intros p' Hs. apply (add_value_store_edges p' ce e _ Hs). now apply AE_write_read.
    + left. cbn. unfold write_id. lia.
  - intros Hst Hso. split.
    + apply (add_all_created _ e ce); [exact Ht | exact Hin | |].
      * intros p' Hs. apply (add_value_store_edges p' ce e _ Hs). now apply AE_val_write.
      * right. reflexivity.
    + apply (add_all_created _ e ce); [exact Ht | exact Hin | |].
      * intros p' Hs. apply (add_value_store_edges p' ce e _ Hs). now apply AE_lit_write.
      * left. cbn. unfold lit_id. lia.
Qed.

(** ** B.2 consumers take the value from the read node *)
Lemma phi_edge_preserved (y : kedge) p' c' e' :
  sctx p' c' e' -> enode e' <> esrc y -> In y (pedges p') -> In y (pedges (add_value_store p' c' e')).
Proof.
  intros Hs Hne Hy. apply (add_value_store_edges p' c' e' _ Hs). apply AE_old; [assumption | congruence].
Qed.

Theorem C09_consumers_on_read p c es e ce s k :
  tctx p c es -> In (e, ce) (entry_ids c es) ->
  In (mke (enode e) s k) (pedges p) -> k <> KDep ->
  In (mke (read_id ce) s k) (pedges (add_all p c es)) /\
  ~ In (mke (enode e) s k) (pedges (add_all p c es)).
Proof.
  intros Ht Hin Hx Hk. split.
  - apply (add_all_at (fun p' => In (mke (enode e) s k) (pedges p')) _ e ce es p c);
      [exact Ht | exact Hin | exact Hx | | |].
    + intros p' c' e' Hs He' Hne Hy. now apply phi_edge_preserved.
    + intros p' Hs Hy. apply (add_value_store_edges p' ce e _ Hs). now apply AE_arg.
    + right. left. cbn. unfold read_id. lia.
  - apply add_all_removes; [assumption | cbn; now apply (entry_reg c es e ce) |].
    destruct Ht as [Hwf [Hc _]]. apply (edge_lt p c _ Hwf Hc Hx).
Qed.

(** edges (of any kind) leaving a node that is not registered are untouched *)
Theorem C09_unregistered_edges_kept p c es x :
  tctx p c es -> In x (pedges p) -> ~ In (esrc x) (map enode es) -> In x (pedges (add_all p c es)).
Proof. intros Ht Hx Hno. now apply add_all_keeps. Qed.

(** Conversely: every in-edge that an ORIGINAL node has in the transformed plan is an original edge from
    an unregistered node, or stands for an original edge from a registered node [enode e]: an argument
    edge now leaves [read_id ce], a Dependency edge now leaves [write_id ce] (stale entries only). *)
Theorem C09_in_edges_of_original x : forall es p c,
  tctx p c es -> In x (pedges (add_all p c es)) -> In (edst x) (pnodes p) ->
  (In x (pedges p) /\ ~ In (esrc x) (map enode es)) \/
  exists e ce, In (e, ce) (entry_ids c es) /\ In (mke (enode e) (edst x) (ekind x)) (pedges p) /\
    ((ekind x <> KDep /\ esrc x = read_id ce) \/
     (ekind x = KDep /\ estale e = true /\ esrc x = write_id ce)).
Proof.
  induction es as [|e0 es IH]; intros p c Ht Hx Hd; cbn [add_all entry_ids] in *.
  - left. split; [assumption | intros []].
  - pose proof (tctx_head _ _ _ _ Ht) as Hs. pose proof (tctx_step _ _ _ _ Ht) as Ht'.
    pose proof Ht as [Hwf [Hc [Hnd Hn]]]. pose proof (Hc _ Hd) as Hdc.
    assert (Hd' : In (edst x) (pnodes (add_value_store p c e0))).
    { apply (add_value_store_nodes_In p c e0 _ Hs). now left. }
    destruct (IH _ _ Ht' Hx Hd') as [[Hx' Hno] | [e [ce [Hin [Hy Hcase]]]]].
    + apply (add_value_store_edges p c e0 _ Hs) in Hx'.
      destruct Hx' as [x Hx' Hsrc | | Hst Hso | Hst Hso | Hst | pr Hst Hso Hpr | s k Hin Hk | s Hst Hin];
        cbn [esrc edst ekind mke] in *; unfold lit_id, read_id, write_id in *; try lia.
      * left. split; [assumption|]. cbn. intros [H | H]; [congruence | contradiction].
      * right. exists e0, c. split; [now left|]. split; [assumption|]. left. auto.
      * right. exists e0, c. split; [now left|]. split; [assumption|]. right. auto.
    + assert (Hec : enode e < c).
      { apply Hc, Hn. right. apply entry_ids_In in Hin. apply Hin. }
      apply (add_value_store_edges p c e0 _ Hs) in Hy.
      remember (mke (enode e) (edst x) (ekind x)) as y eqn:Ey.
      assert (Ey1 : esrc y = enode e) by now subst y.
      assert (Ey2 : edst y = edst x) by now subst y.
      destruct Hy as [y Hy Hsrc | | Hst Hso | Hst Hso | Hst | pr Hst Hso Hpr | s k Hin' Hk | s Hst Hin'];
        cbn [esrc edst ekind mke] in *; unfold lit_id, read_id, write_id in *; try lia.
      right. exists e, ce. split; [now right|]. split; [|assumption]. now rewrite <- Ey.
Qed.

Corollary C09_args_only_from_reads p c es x :
  tctx p c es -> In x (pedges (add_all p c es)) -> In (edst x) (pnodes p) -> ekind x <> KDep ->
  (In x (pedges p) /\ ~ In (esrc x) (map enode es)) \/
  exists e ce, In (e, ce) (entry_ids c es) /\ esrc x = read_id ce /\
               In (mke (enode e) (edst x) (ekind x)) (pedges p).
Proof.
  intros Ht Hx Hd Hk. destruct (C09_in_edges_of_original x es p c Ht Hx Hd) as [H | [e [ce [H1 [H2 H3]]]]].
  - now left.
  - right. exists e, ce. destruct H3 as [[_ H3] | [H3 _]]; [auto | contradiction].
Qed.

Corollary C09_deps_only_from_writes p c es x :
  tctx p c es -> In x (pedges (add_all p c es)) -> In (edst x) (pnodes p) -> ekind x = KDep ->
  (In x (pedges p) /\ ~ In (esrc x) (map enode es)) \/
  exists e ce, In (e, ce) (entry_ids c es) /\ estale e = true /\ esrc x = write_id ce /\
               In (mke (enode e) (edst x) KDep) (pedges p).
Proof.
  intros Ht Hx Hd Hk. destruct (C09_in_edges_of_original x es p c Ht Hx Hd) as [H | [e [ce [H1 [H2 H3]]]]].
  - now left.
  - right. exists e, ce. rewrite Hk in H2. destruct H3 as [[H3 _] | [_ [H3 H4]]]; [contradiction | auto].
Qed.

(** ** B.3 plain dependents wait for the write (stale) or lose the edge (up to date) *)
Lemma dep_moved_to_write p c es e ce s :
  tctx p c es -> In (e, ce) (entry_ids c es) -> In (mke (enode e) s KDep) (pedges p) ->
  estale e = true -> In (mke (write_id ce) s KDep) (pedges (add_all p c es)).
Proof.
  intros Ht Hin Hx Hst.
  apply (add_all_at (fun p' => In (mke (enode e) s KDep) (pedges p')) _ e ce es p c);
    [exact Ht | exact Hin | exact Hx | | |].
  - intros p' c' e' Hs He' Hne Hy. now apply phi_edge_preserved.
  - intros p' Hs Hy. apply (add_value_store_edges p' ce e _ Hs). now apply AE_dep.
  - right. left. cbn. unfold write_id. lia.
Qed.

Theorem C09_dependents_on_write p c es e ce s :
  tctx p c es -> In (e, ce) (entry_ids c es) -> In (mke (enode e) s KDep) (pedges p) ->
  let q := add_all p c es in
  ~ In (mke (enode e) s KDep) (pedges q) /\
  (estale e = true -> In (mke (write_id ce) s KDep) (pedges q)) /\
  (estale e = false -> ~ In (mke (read_id ce) s KDep) (pedges q)).
Proof.
  intros Ht Hin Hx q. subst q. pose proof Ht as [Hwf [Hc _]].
  destruct (edge_lt p c _ Hwf Hc Hx) as [Hlt1 Hlt2]. cbn in Hlt1, Hlt2.
  split; [|split].
  - apply add_all_removes; [assumption | cbn; now apply (entry_reg c es e ce) | assumption].
  - now apply dep_moved_to_write.
  - intros Hst Hq.
    assert (Hs : In s (pnodes p)). { destruct Hwf as [_ [_ He]]. apply (He _ Hx). }
    destruct (C09_deps_only_from_writes p c es _ Ht Hq Hs eq_refl)
      as [[Hp _] | [e2 [c2 [Hin2 [Hst2 [Heq _]]]]]].
    + destruct (edge_lt p c _ Hwf Hc Hp) as [H1 _]. cbn in H1. apply entry_ids_In in Hin.
      unfold read_id in H1. lia.
    + cbn in Heq. destruct (entry_ids_order c es _ _ _ _ Hin Hin2) as [[-> _] | [H | H]].
      * congruence.
      * unfold next_id, read_id, write_id in *. destruct (estale e); lia.
      * unfold next_id, read_id, write_id in *. rewrite Hst2 in H. lia.
Qed.

(** ** B.5 the transformed plan is well formed and acyclic (C07: no late HasACycle) *)
Theorem transform_wf : forall es p c, tctx p c es -> pgraph_wf (add_all p c es).
Proof.
  induction es as [|e es IH]; intros p c Ht; cbn [add_all]; [apply Ht|].
  apply IH. now apply tctx_step.
Qed.

Theorem transform_acyclic : forall es p c,
  tctx p c es -> acyclic (to_graph p) -> acyclic (to_graph (add_all p c es)).
Proof.
  induction es as [|e es IH]; intros p c Ht Hac; cbn [add_all]; [assumption|].
  apply IH; [now apply tctx_step|]. apply add_value_store_acyclic; [|assumption].
  now apply (tctx_head _ _ _ _ Ht).
Qed.

(** nodes and kinds of the transformed plan *)
Theorem transform_nodes m : forall es p c,
  tctx p c es ->
  (In m (pnodes (add_all p c es)) <->
   In m (pnodes p) \/
   exists e ce, In (e, ce) (entry_ids c es) /\
                (m = lit_id ce \/ m = read_id ce \/ (estale e = true /\ m = write_id ce))).
Proof.
  induction es as [|e0 es IH]; intros p c Ht; cbn [add_all entry_ids].
  - split; [now left | intros [H | [e [ce [[] _]]]]; assumption].
  - rewrite (IH _ _ (tctx_step _ _ _ _ Ht)).
    rewrite (add_value_store_nodes_In p c e0 m (tctx_head _ _ _ _ Ht)). split.
    + intros [[H | H] | [e [ce [Hin H]]]].
      * now left.
      * right. exists e0, c. split; [now left | assumption].
      * right. exists e, ce. split; [now right | assumption].
    + intros [H | [e [ce [[Heq | Hin] H]]]].
      * left. now left.
      * inversion Heq; subst. left. now right.
      * right. exists e, ce. split; assumption.
Qed.

Lemma add_all_kind_old m : forall es p c,
  tctx p c es -> In m (pnodes p) -> pkind (add_all p c es) m = pkind p m.
Proof.
  induction es as [|e es IH]; intros p c Ht Hm; cbn [add_all]; [reflexivity|].
  pose proof (tctx_head _ _ _ _ Ht) as Hs.
  rewrite IH; [now apply add_value_store_kind_old | now apply tctx_step |].
  apply (add_value_store_nodes_In p c e m Hs). now left.
Qed.

(** C14: the store literal is a Literal, the read is a Call, the write is a Call (stored node) or the
    Barrier Literal (source); the kinds of the original nodes are unchanged *)
Theorem transform_kinds : forall es p c e ce,
  tctx p c es -> In (e, ce) (entry_ids c es) ->
  let q := add_all p c es in
  pkind q (lit_id ce) = KLit /\ pkind q (read_id ce) = KCall /\
  (estale e = true -> pkind q (write_id ce) = if esource e then KLit else KCall).
Proof.
  induction es as [|e0 es IH]; intros p c e ce Ht Hin; cbn [add_all entry_ids] in *; [contradiction|].
  pose proof (tctx_head _ _ _ _ Ht) as Hs. pose proof (tctx_step _ _ _ _ Ht) as Ht'.
  destruct Hin as [Heq | Hin]; [|now apply IH].
  inversion Heq; subst e0 ce. cbn zeta. split; [|split].
  - rewrite add_all_kind_old; [now apply add_value_store_kind_lit | assumption |].
    apply (add_value_store_nodes_In p c e _ Hs). auto.
  - rewrite add_all_kind_old; [now apply add_value_store_kind_read | assumption |].
    apply (add_value_store_nodes_In p c e _ Hs). auto.
  - intros Hst. rewrite add_all_kind_old; [now apply add_value_store_kind_write | assumption |].
    apply (add_value_store_nodes_In p c e _ Hs). auto.
Qed.

Theorem transform_kind_old p c es m :
  tctx p c es -> In m (pnodes p) -> pkind (add_all p c es) m = pkind p m.
Proof. intros. now apply add_all_kind_old. Qed.

(** ** B.4 a stale dependent source is read only after the calls it depends on *)
Lemma barrier_unregistered p c es e ce x :
  tctx p c es -> In (e, ce) (entry_ids c es) -> estale e = true -> esource e = true ->
  In x (pedges p) -> edst x = enode e -> ~ In (esrc x) (map enode es) ->
  In (mke (esrc x) (write_id ce) KDep) (pedges (add_all p c es)).
Proof.
  intros Ht Hin Hst Hso Hx Hd Hno.
  apply (add_all_at (fun p' => In x (pedges p')) _ e ce es p c); [exact Ht | exact Hin | exact Hx | | |].
  - intros p' c' e' Hs He' _ Hy. apply phi_edge_preserved; [assumption | | assumption].
    intros Heq. apply Hno. rewrite <- Heq. now apply in_map.
  - intros p' Hs Hy. apply (add_value_store_edges p' ce e _ Hs). apply AE_barrier; [assumption | assumption |].
    rewrite <- Hd. now apply pedge_of_In.
  - left. exact Hno.
Qed.

Lemma barrier_registered : forall es p c e ce e2 c2 k,
  tctx p c es -> In (e, ce) (entry_ids c es) -> In (e2, c2) (entry_ids c es) ->
  estale e = true -> esource e = true -> estale e2 = true ->
  In (mke (enode e2) (enode e) k) (pedges p) -> enode e2 <> enode e ->
  reach (to_graph (add_all p c es)) (write_id c2) (write_id ce).
Proof.
  induction es as [|e0 es IH]; intros p c e ce e2 c2 k Ht Hin Hin2 Hst Hso Hst2 Hx Hne;
    cbn [add_all entry_ids] in *; [contradiction|].
  pose proof (tctx_head _ _ _ _ Ht) as Hs. pose proof (tctx_step _ _ _ _ Ht) as Ht'.
  assert (Hfresh : forall m, c <= m -> ~ In m (map enode es)).
  { intros m Hm Hreg. assert (m < c); [|lia]. apply (tctx_reg_lt p c (e0 :: es) m Ht). cbn. now right. }
  destruct Hin as [Heq | Hin], Hin2 as [Heq2 | Hin2].
  - inversion Heq; inversion Heq2; subst. now contradiction Hne.
  - (* the source is processed first: its Barrier gets the edge from [enode e2], which the later step
       of [e2] moves to [e2]'s write node *)
    inversion Heq; subst e0 ce.
    apply reach1, pedge_iff. exists KDep.
    apply (dep_moved_to_write _ _ es e2 c2 (write_id c)); [exact Ht' | exact Hin2 | | exact Hst2].
    apply (add_value_store_edges p c e _ Hs). apply AE_barrier; [assumption | assumption |].
    exact (pedge_of_In p _ Hx).
  - (* the predecessor is processed first: the edge into the source then leaves its write node (Dep) or
       its read node (argument), which is what the Barrier is wired to later *)
    inversion Heq2; subst e0 c2.
    destruct (is_dep k) eqn:Ek.
    + apply is_dep_true in Ek. subst k.
      apply reach1, pedge_iff. exists KDep.
      apply (barrier_unregistered _ _ es e ce (mke (write_id c) (enode e) KDep));
        [exact Ht' | exact Hin | exact Hst | exact Hso | | reflexivity |].
      * apply (add_value_store_edges p c e2 _ Hs). now apply AE_dep.
      * apply Hfresh. cbn. unfold write_id. lia.
    + apply is_dep_false in Ek. apply (reachS _ _ (read_id c)).
      * apply reach1, pedge_iff. exists KDep. apply add_all_keeps; [exact Ht' | |].
        -- apply (add_value_store_edges p c e2 _ Hs). now apply AE_write_read.
        -- apply Hfresh. cbn. unfold write_id. lia.
      * apply pedge_iff. exists KDep.
        apply (barrier_unregistered _ _ es e ce (mke (read_id c) (enode e) k));
          [exact Ht' | exact Hin | exact Hst | exact Hso | | reflexivity |].
        -- apply (add_value_store_edges p c e2 _ Hs). now apply AE_arg.
        -- apply Hfresh. cbn. unfold read_id. lia.
  - apply (IH _ _ e ce e2 c2 k); try assumption.
    apply phi_edge_preserved; [exact Hs | | exact Hx]. cbn. intros Heq.
    apply (tctx_head_notin _ _ _ _ Ht). rewrite Heq. now apply (entry_reg _ _ _ _ Hin2).
Qed.

Theorem C09_stale_source_barrier p c es e ce :
  tctx p c es -> In (e, ce) (entry_ids c es) -> estale e = true -> esource e = true ->
  let q := add_all p c es in
  In (mke (write_id ce) (read_id ce) KDep) (pedges q) /\
  forall pr, edge (to_graph p) pr (enode e) ->
    (* an unregistered predecessor is wired to the Barrier directly *)
    (~ In pr (map enode es) -> In (mke pr (write_id ce) KDep) (pedges q) /\ reach (to_graph q) pr (write_id ce)) /\
    (* a stale registered predecessor: its write node precedes the Barrier *)
    (forall e2 c2, In (e2, c2) (entry_ids c es) -> enode e2 = pr -> estale e2 = true -> pr <> enode e ->
                   reach (to_graph q) (write_id c2) (write_id ce)).
Proof.
  intros Ht Hin Hst Hso q. subst q. split.
  - now apply (C09_write_then_read p c es e ce Ht Hin).
  - intros pr Hpr. apply pedge_iff in Hpr. destruct Hpr as [k Hx]. split.
    + intros Hno.
      assert (H : In (mke pr (write_id ce) KDep) (pedges (add_all p c es))).
      { apply (barrier_unregistered p c es e ce _ Ht Hin Hst Hso Hx); [reflexivity | exact Hno]. }
      split; [exact H|]. apply reach1, pedge_iff. now exists KDep.
    + intros e2 c2 Hin2 Heq Hst2 Hne. subst pr.
      now apply (barrier_registered es p c e ce e2 c2 k).
Qed.

Lemma acyclic_no_self_loop g a : acyclic g -> ~ edge g a a.
Proof. intros [rank Hr] H. apply Hr in H. lia. Qed.

(** in an acyclic plan the side condition [pr <> enode e] is automatic, and the Barrier precedes the read *)
Corollary C09_stale_source_after_deps p c es e ce e2 c2 :
  tctx p c es -> acyclic (to_graph p) ->
  In (e, ce) (entry_ids c es) -> estale e = true -> esource e = true ->
  In (e2, c2) (entry_ids c es) -> estale e2 = true -> edge (to_graph p) (enode e2) (enode e) ->
  reach (to_graph (add_all p c es)) (write_id c2) (read_id ce).
Proof.
  intros Ht Hac Hin Hst Hso Hin2 Hst2 Hpr.
  destruct (C09_stale_source_barrier p c es e ce Ht Hin Hst Hso) as [Hwr Hall].
  destruct (Hall _ Hpr) as [_ Hreg].
  apply (reachS _ _ (write_id ce)).
  - apply (Hreg e2 c2 Hin2 eq_refl Hst2). intros Heq. rewrite Heq in Hpr.
    now apply (acyclic_no_self_loop _ _ Hac) in Hpr.
  - apply pedge_iff. now exists KDep.
Qed.

(** ** B.6 order in the pruned physical plan *)
Lemma physical_fst p c es output :
  fst (physical p c es output) =
  prune_plan (add_all p c es) (required_writes c es) (redirect c es output).
Proof. reflexivity. Qed.

Lemma required_writes_In c es e ce :
  In (e, ce) (entry_ids c es) -> estale e = true -> In (write_id ce) (required_writes c es).
Proof.
  intros Hin Hst. unfold required_writes. apply in_map_iff. exists (e, ce). split; [reflexivity|].
  apply filter_In. split; assumption.
Qed.

Lemma edge_reach p a b k : In (mke a b k) (pedges p) -> reach (to_graph p) a b.
Proof. intros H. apply reach1, pedge_iff. now exists k. Qed.

(** the write call of every stale stored node survives pruning (it is a required node and a Call) *)
Theorem C09_write_survives p c es output e ce :
  tctx p c es -> In (e, ce) (entry_ids c es) -> estale e = true -> esource e = false ->
  In (write_id ce) (pnodes (fst (physical p c es output))).
Proof.
  intros Ht Hin Hst Hso. rewrite physical_fst. apply prune_nodes_complete.
  - apply (transform_nodes _ es p c Ht). right. exists e, ce. auto.
  - left. unfold prune_roots. apply in_or_app. left. now apply (required_writes_In c es e ce).
  - left. unfold is_lit. destruct (transform_kinds es p c e ce Ht Hin) as [_ [_ Hk]].
    rewrite (Hk Hst), Hso. reflexivity.
Qed.

(** C14 self-containedness in the physical plan: a surviving write call still has the store literal and the
    value as arguments, a surviving read call still has its store literal *)
Theorem C14_write_call_args_in_physical p c es output e ce :
  tctx p c es -> In (e, ce) (entry_ids c es) -> estale e = true -> esource e = false ->
  let r := fst (physical p c es output) in
  In (mke (lit_id ce) (write_id ce) (KPos 0)) (pedges r) /\
  In (mke (enode e) (write_id ce) (KPos 1)) (pedges r) /\
  In (lit_id ce) (pnodes r) /\ In (enode e) (pnodes r) /\
  pkind r (lit_id ce) = KLit /\ pkind r (write_id ce) = KCall.
Proof.
  intros Ht Hin Hst Hso r. subst r.
  pose proof (C09_write_survives p c es output e ce Ht Hin Hst Hso) as Hw.
  destruct (C09_write_then_read p c es e ce Ht Hin) as [_ [_ Hargs]].
  destruct (Hargs Hst Hso) as [Hval Hlit].
  rewrite physical_fst in *.
  assert (Hwf : pgraph_wf (prune_plan (add_all p c es) (required_writes c es) (redirect c es output))).
  { apply prune_wf. now apply transform_wf. }
  assert (H1 : In (mke (lit_id ce) (write_id ce) (KPos 0))
                  (pedges (prune_plan (add_all p c es) (required_writes c es) (redirect c es output)))).
  { apply prune_arg_edges_kept; [assumption | discriminate | exact Hw]. }
  assert (H2 : In (mke (enode e) (write_id ce) (KPos 1))
                  (pedges (prune_plan (add_all p c es) (required_writes c es) (redirect c es output)))).
  { apply prune_arg_edges_kept; [assumption | discriminate | exact Hw]. }
  destruct Hwf as [_ [_ He]]. destruct (transform_kinds es p c e ce Ht Hin) as [Hk1 [_ Hk3]].
  repeat split; try assumption.
  - apply (He _ H1).
  - apply (He _ H2).
  - now rewrite prune_kind.
  - rewrite prune_kind, (Hk3 Hst), Hso. reflexivity.
Qed.

Theorem C14_read_call_arg_in_physical p c es output e ce :
  tctx p c es -> In (e, ce) (entry_ids c es) ->
  let r := fst (physical p c es output) in
  In (read_id ce) (pnodes r) ->
  In (mke (lit_id ce) (read_id ce) (KPos 0)) (pedges r) /\ In (lit_id ce) (pnodes r) /\
  pkind r (lit_id ce) = KLit /\ pkind r (read_id ce) = KCall.
Proof.
  intros Ht Hin r Hr. subst r. rewrite physical_fst in *.
  destruct (C09_write_then_read p c es e ce Ht Hin) as [Hlit _].
  assert (Hwf : pgraph_wf (prune_plan (add_all p c es) (required_writes c es) (redirect c es output))).
  { apply prune_wf. now apply transform_wf. }
  assert (H1 : In (mke (lit_id ce) (read_id ce) (KPos 0))
                  (pedges (prune_plan (add_all p c es) (required_writes c es) (redirect c es output)))).
  { apply prune_arg_edges_kept; [assumption | discriminate | exact Hr]. }
  destruct Hwf as [_ [_ He]]. destruct (transform_kinds es p c e ce Ht Hin) as [Hk1 [Hk2 _]].
  repeat split; try assumption.
  - apply (He _ H1).
  - now rewrite prune_kind.
  - now rewrite prune_kind.
Qed.

(** the statement asked for: whatever survives is ordered  enode e -> write -> read -> consumer *)
Theorem C09_order_in_physical_plan p c es output e ce s k :
  tctx p c es -> In (e, ce) (entry_ids c es) -> estale e = true ->
  In (mke (enode e) s k) (pedges p) -> k <> KDep ->
  let r := fst (physical p c es output) in
  In (write_id ce) (pnodes r) -> In (read_id ce) (pnodes r) -> In s (pnodes r) ->
  reach (to_graph r) (write_id ce) (read_id ce) /\ reach (to_graph r) (read_id ce) s /\
  (esource e = false -> In (enode e) (pnodes r) -> reach (to_graph r) (enode e) (write_id ce)).
Proof.
  intros Ht Hin Hst Hx Hk r Hw Hr Hs. subst r. rewrite physical_fst in *.
  destruct (C09_write_then_read p c es e ce Ht Hin) as [_ [Hwr Hargs]].
  destruct (C09_consumers_on_read p c es e ce s k Ht Hin Hx Hk) as [Hcons _].
  split; [|split].
  - apply prune_preserves_deps; [assumption | assumption |]. apply (edge_reach _ _ _ KDep). now apply Hwr.
  - apply prune_preserves_deps; [assumption | assumption |]. now apply (edge_reach _ _ _ k).
  - intros Hso Hn. apply prune_preserves_deps; [assumption | assumption |].
    apply (edge_reach _ _ _ (KPos 1)). now apply Hargs.
Qed.

(** stronger: a surviving consumer of a registered node gets its argument from the read node (so the read
    node survives), never from the node itself; if the entry is a stale stored node then the write call and
    the node survive as well and  enode e -> write -> read -> consumer  in the physical plan *)
Theorem C09_consumer_in_physical_plan p c es output e ce s k :
  tctx p c es -> In (e, ce) (entry_ids c es) ->
  In (mke (enode e) s k) (pedges p) -> k <> KDep ->
  let r := fst (physical p c es output) in
  In s (pnodes r) ->
  In (mke (read_id ce) s k) (pedges r) /\ ~ In (mke (enode e) s k) (pedges r) /\
  In (read_id ce) (pnodes r) /\
  (estale e = true -> esource e = false ->
   In (mke (enode e) (write_id ce) (KPos 1)) (pedges r) /\
   reach (to_graph r) (enode e) (write_id ce) /\
   reach (to_graph r) (write_id ce) (read_id ce) /\
   reach (to_graph r) (read_id ce) s).
Proof.
  intros Ht Hin Hx Hk r Hs. subst r.
  destruct (C09_consumers_on_read p c es e ce s k Ht Hin Hx Hk) as [Hcons Hgone].
  assert (Hwf : pgraph_wf (fst (physical p c es output))).
  { rewrite physical_fst. apply prune_wf. now apply transform_wf. }
  assert (H1 : In (mke (read_id ce) s k) (pedges (fst (physical p c es output)))).
  { rewrite physical_fst in *. apply prune_arg_edges_kept; [assumption | exact Hk | exact Hs]. }
  assert (Hr : In (read_id ce) (pnodes (fst (physical p c es output)))).
  { destruct Hwf as [_ [_ He]]. apply (He _ H1). }
  split; [exact H1 | split; [|split; [exact Hr|]]].
  - intros H. apply Hgone. rewrite physical_fst in H. now apply prune_arg_edges_sub in H.
  - intros Hst Hso.
    pose proof (C09_write_survives p c es output e ce Ht Hin Hst Hso) as Hw.
    destruct (C14_write_call_args_in_physical p c es output e ce Ht Hin Hst Hso) as [_ [Hval [_ [Hn _]]]].
    destruct (C09_order_in_physical_plan p c es output e ce s k Ht Hin Hst Hx Hk Hw Hr Hs) as [Ha [Hb Hc]].
    split; [exact Hval | split; [now apply Hc | split; assumption]].
Qed.

(** a stale dependent source in the physical plan: even when the Barrier literal is elided by
    [_prune_literal_if_trivial], the read of the source comes after its (surviving) predecessors *)
Theorem C09_stale_source_order_in_physical p c es output e ce pr :
  tctx p c es -> In (e, ce) (entry_ids c es) -> estale e = true -> esource e = true ->
  edge (to_graph p) pr (enode e) -> ~ In pr (map enode es) ->
  let r := fst (physical p c es output) in
  In pr (pnodes r) -> In (read_id ce) (pnodes r) -> reach (to_graph r) pr (read_id ce).
Proof.
  intros Ht Hin Hst Hso Hpr Hno r Hp Hr. subst r. rewrite physical_fst in *.
  destruct (C09_stale_source_barrier p c es e ce Ht Hin Hst Hso) as [Hwr Hall].
  destruct (Hall _ Hpr) as [Hun _]. destruct (Hun Hno) as [_ Hreach].
  apply prune_preserves_deps; [assumption | assumption |].
  apply (reachS _ _ (write_id ce)); [exact Hreach|]. apply pedge_iff. now exists KDep.
Qed.

Theorem C09_stale_source_after_writes_in_physical p c es output e ce e2 c2 :
  tctx p c es -> acyclic (to_graph p) ->
  In (e, ce) (entry_ids c es) -> estale e = true -> esource e = true ->
  In (e2, c2) (entry_ids c es) -> estale e2 = true -> esource e2 = false ->
  edge (to_graph p) (enode e2) (enode e) ->
  let r := fst (physical p c es output) in
  In (read_id ce) (pnodes r) -> reach (to_graph r) (write_id c2) (read_id ce).
Proof.
  intros Ht Hac Hin Hst Hso Hin2 Hst2 Hso2 Hpr r Hr. subst r.
  pose proof (C09_write_survives p c es output e2 c2 Ht Hin2 Hst2 Hso2) as Hw.
  rewrite physical_fst in *. apply prune_preserves_deps; [assumption | assumption |].
  now apply (C09_stale_source_after_deps p c es e ce e2 c2).
Qed.

(** * Part C: non-vacuity.  A 5-node plan: source literal 0 -> stored call 1 -> unstored call 2 -> stored
    call 3, a plain Dependency 1 -> 3, and a dependent stale source 4 with an unregistered predecessor (2),
    a stale stored predecessor processed after it (1, Dependency) and one processed before it (3, keyword
    argument).  Registry order: 3, 0, 4, 1; entry 0 is an up-to-date source, the others are stale. *)
Definition ex_p : pgraph := {|
  pnodes := [0; 1; 2; 3; 4];
  pkind := fun n => match n with 0 => KLit | _ => KCall end;
  pedges := [ mke 0 1 (KPos 0); mke 1 2 (KPos 0); mke 2 3 (KPos 0); mke 1 3 KDep;
              mke 2 4 KDep; mke 1 4 KDep; mke 3 4 (KKw 0 0) ] |}.
Definition ex_e3 : entry := {| enode := 3; esource := false; estale := true |}.
Definition ex_e0 : entry := {| enode := 0; esource := true; estale := false |}.
Definition ex_e4 : entry := {| enode := 4; esource := true; estale := true |}.
Definition ex_e1 : entry := {| enode := 1; esource := false; estale := true |}.
Definition ex_es : list entry := [ex_e3; ex_e0; ex_e4; ex_e1].
Definition ex_q : pgraph := add_all ex_p 5 ex_es.

Example ex_entry_ids : entry_ids 5 ex_es = [(ex_e3, 5); (ex_e0, 8); (ex_e4, 10); (ex_e1, 13)].
Proof. reflexivity. Qed.

(** boolean duplicate check, to establish [NoDup] of concrete lists by computation *)
Fixpoint nodupb {A} (eqb : A -> A -> bool) (l : list A) : bool :=
  match l with
  | [] => true
  | a :: t => negb (existsb (eqb a) t) && nodupb eqb t
  end.

Lemma nodupb_NoDup {A} (eqb : A -> A -> bool) (l : list A) :
  (forall a b, eqb a b = true <-> a = b) -> nodupb eqb l = true -> NoDup l.
Proof.
  intros Heq. induction l as [|a t IH]; intros H; [constructor|].
  cbn in H. apply andb_true_iff in H. destruct H as [H1 H2]. constructor; [|now apply IH].
  intros Hin. apply negb_true_iff in H1. assert (H : existsb (eqb a) t = true); [|congruence].
  apply existsb_exists. exists a. split; [assumption | now apply Heq].
Qed.

(** the hypotheses of every theorem above are satisfiable *)
Example ex_tctx : tctx ex_p 5 ex_es.
Proof.
  split; [|split; [|split]].
  - split; [|split].
    + apply (nodupb_NoDup Nat.eqb); [apply Nat.eqb_eq | reflexivity].
    + apply (nodupb_NoDup kedge_eqb); [apply kedge_eqb_eq | reflexivity].
    + intros e He. cbn in He. cbn [ex_p pnodes].
      repeat (destruct He as [<- | He]; [cbn; split; auto 10|]). contradiction.
  - intros n Hn. cbn in Hn. repeat (destruct Hn as [<- | Hn]; [lia|]). contradiction.
  - apply (nodupb_NoDup Nat.eqb); [apply Nat.eqb_eq | reflexivity].
  - intros e He. cbn in He. repeat (destruct He as [<- | He]; [cbn; auto 10|]). contradiction.
Qed.

Example ex_acyclic : acyclic (to_graph ex_p).
Proof.
  exists (fun n => n). intros a b H. cbn in H.
  repeat (destruct H as [H | H]; [inversion H; subst; lia|]). contradiction.
Qed.

(** the transformed plan, computed by the model *)
Example ex_q_nodes : pnodes ex_q = [0; 1; 2; 3; 4; 5; 6; 7; 8; 9; 10; 11; 12; 13; 14; 15].
Proof. vm_compute. reflexivity. Qed.

Example ex_q_edges :
  pedges ex_q =
  [ mke 2 3 (KPos 0); mke 2 4 KDep;
    (* entry 3 (ids 5 6 7): literal -> read, literal/value -> write, write -> read, consumer 4 on read *)
    mke 5 6 (KPos 0); mke 5 7 (KPos 0); mke 3 7 (KPos 1); mke 7 6 KDep; mke 6 4 (KKw 0 0);
    (* entry 0 (ids 8 9; up to date: no write): consumer 1 on read *)
    mke 8 9 (KPos 0); mke 9 1 (KPos 0);
    (* entry 4 (ids 10 11 12; stale source): Barrier 12 after 2 and after read 6 of entry 3 *)
    mke 10 11 (KPos 0); mke 2 12 KDep; mke 6 12 KDep; mke 12 11 KDep;
    (* entry 1 (ids 13 14 15): consumer 2 on read 14, Dep successors 3, 4 and Barrier 12 on write 15 *)
    mke 13 14 (KPos 0); mke 13 15 (KPos 0); mke 1 15 (KPos 1); mke 15 14 KDep; mke 14 2 (KPos 0);
    mke 15 3 KDep; mke 15 4 KDep; mke 15 12 KDep ].
Proof. vm_compute. reflexivity. Qed.

(** instances of the theorems (obtained FROM the theorems, so their premises hold on this plan) *)
Example ex_B1 :
  In (mke 13 14 (KPos 0)) (pedges ex_q) /\ In (mke 15 14 KDep) (pedges ex_q) /\
  In (mke 1 15 (KPos 1)) (pedges ex_q) /\ In (mke 13 15 (KPos 0)) (pedges ex_q).
Proof.
  assert (Hin : In (ex_e1, 13) (entry_ids 5 ex_es)) by (cbn; auto).
  destruct (C09_write_then_read ex_p 5 ex_es ex_e1 13 ex_tctx Hin) as [H1 [H2 H3]].
  destruct (H3 eq_refl eq_refl) as [H4 H5].
  exact (conj H1 (conj (H2 eq_refl) (conj H4 H5))).
Qed.

Example ex_B2 : In (mke 14 2 (KPos 0)) (pedges ex_q) /\ ~ In (mke 1 2 (KPos 0)) (pedges ex_q).
Proof.
  apply (C09_consumers_on_read ex_p 5 ex_es ex_e1 13 2 (KPos 0) ex_tctx); [cbn; auto | cbn; auto | discriminate].
Qed.

Example ex_B2_unregistered : In (mke 2 3 (KPos 0)) (pedges ex_q).
Proof.
  apply (C09_unregistered_edges_kept ex_p 5 ex_es _ ex_tctx); [cbn; auto | cbn; intuition lia].
Qed.

Example ex_B3 : In (mke 15 3 KDep) (pedges ex_q) /\ ~ In (mke 1 3 KDep) (pedges ex_q).
Proof.
  assert (Hin : In (ex_e1, 13) (entry_ids 5 ex_es)) by (cbn; auto).
  assert (Hx : In (mke (enode ex_e1) 3 KDep) (pedges ex_p)) by (cbn; auto).
  destruct (C09_dependents_on_write ex_p 5 ex_es ex_e1 13 3 ex_tctx Hin Hx) as [H1 [H2 _]].
  split; [exact (H2 eq_refl) | exact H1].
Qed.

Example ex_B4 :
  In (mke 12 11 KDep) (pedges ex_q) /\ In (mke 2 12 KDep) (pedges ex_q) /\
  reach (to_graph ex_q) 15 12 /\ reach (to_graph ex_q) 7 12.
Proof.
  assert (Hin : In (ex_e4, 10) (entry_ids 5 ex_es)) by (cbn; auto).
  assert (Hp2 : edge (to_graph ex_p) 2 (enode ex_e4)) by (cbn; auto 10).
  assert (Hp1 : edge (to_graph ex_p) 1 (enode ex_e4)) by (cbn; auto 10).
  assert (Hp3 : edge (to_graph ex_p) 3 (enode ex_e4)) by (cbn; auto 10).
  assert (Hno : ~ In 2 (map enode ex_es)) by (cbn; intuition lia).
  assert (Hin1 : In (ex_e1, 13) (entry_ids 5 ex_es)) by (cbn; auto).
  assert (Hin3 : In (ex_e3, 5) (entry_ids 5 ex_es)) by (cbn; auto).
  assert (Hne1 : 1 <> enode ex_e4) by (cbn; lia).
  assert (Hne3 : 3 <> enode ex_e4) by (cbn; lia).
  destruct (C09_stale_source_barrier ex_p 5 ex_es ex_e4 10 ex_tctx Hin eq_refl eq_refl) as [H1 H2].
  destruct (H2 2 Hp2) as [Hun _]. destruct (Hun Hno) as [Hedge _].
  destruct (H2 1 Hp1) as [_ Hreg1]. destruct (H2 3 Hp3) as [_ Hreg3].
  exact (conj H1 (conj Hedge (conj (Hreg1 ex_e1 13 Hin1 eq_refl eq_refl Hne1)
                                   (Hreg3 ex_e3 5 Hin3 eq_refl eq_refl Hne3)))).
Qed.

Example ex_B5 : pgraph_wf ex_q /\ acyclic (to_graph ex_q).
Proof.
  split; [apply transform_wf, ex_tctx | apply transform_acyclic; [apply ex_tctx | apply ex_acyclic]].
Qed.

(** the physical plan for output = the stale source 4: the output is redirected to its read node 11, the
    Barrier 12 is elided into 2 -> 11, 6 -> 11, 15 -> 11, the up-to-date source 0 and the node 4 are pruned *)
Example ex_physical_nodes :
  pnodes (fst (physical ex_p 5 ex_es (Some 4))) = [1; 2; 3; 5; 6; 7; 8; 9; 10; 11; 13; 14; 15]
  /\ snd (physical ex_p 5 ex_es (Some 4)) = Some 11.
Proof. vm_compute. split; reflexivity. Qed.

Example ex_physical_edges :
  pedges (fst (physical ex_p 5 ex_es (Some 4))) =
  [ mke 2 3 (KPos 0); mke 5 6 (KPos 0); mke 5 7 (KPos 0); mke 3 7 (KPos 1); mke 7 6 KDep;
    mke 8 9 (KPos 0); mke 9 1 (KPos 0); mke 10 11 (KPos 0);
    mke 13 14 (KPos 0); mke 13 15 (KPos 0); mke 1 15 (KPos 1); mke 15 14 KDep; mke 14 2 (KPos 0);
    mke 15 3 KDep; mke 2 11 KDep; mke 6 11 KDep; mke 15 11 KDep ].
Proof. vm_compute. reflexivity. Qed.

Example ex_B6 :
  let r := fst (physical ex_p 5 ex_es (Some 4)) in
  In (mke 14 2 (KPos 0)) (pedges r) /\ reach (to_graph r) 1 15 /\ reach (to_graph r) 15 14 /\
  reach (to_graph r) 14 2.
Proof.
  assert (Hin : In (ex_e1, 13) (entry_ids 5 ex_es)) by (cbn; auto).
  assert (Hx : In (mke (enode ex_e1) 2 (KPos 0)) (pedges ex_p)) by (cbn; auto).
  assert (Hk : KPos 0 <> KDep) by discriminate.
  assert (Hs : In 2 (pnodes (fst (physical ex_p 5 ex_es (Some 4))))).
  { destruct ex_physical_nodes as [-> _]. cbn. auto. }
  destruct (C09_consumer_in_physical_plan ex_p 5 ex_es (Some 4) ex_e1 13 2 (KPos 0) ex_tctx Hin Hx Hk Hs)
    as [H1 [_ [_ H4]]].
  destruct (H4 eq_refl eq_refl) as [_ [H5 [H6 H7]]].
  exact (conj H1 (conj H5 (conj H6 H7))).
Qed.

Example ex_B6_source :
  reach (to_graph (fst (physical ex_p 5 ex_es (Some 4)))) 2 11 /\
  reach (to_graph (fst (physical ex_p 5 ex_es (Some 4)))) 15 11.
Proof.
  assert (Hin : In (ex_e4, 10) (entry_ids 5 ex_es)) by (cbn; auto).
  assert (Hin1 : In (ex_e1, 13) (entry_ids 5 ex_es)) by (cbn; auto).
  assert (Hp2 : edge (to_graph ex_p) 2 (enode ex_e4)) by (cbn; auto 10).
  assert (Hp1 : edge (to_graph ex_p) (enode ex_e1) (enode ex_e4)) by (cbn; auto 10).
  assert (Hno : ~ In 2 (map enode ex_es)) by (cbn; intuition lia).
  assert (Hm : In 2 [1; 2; 3; 5; 6; 7; 8; 9; 10; 11; 13; 14; 15] /\
               In 11 [1; 2; 3; 5; 6; 7; 8; 9; 10; 11; 13; 14; 15]) by (cbn; auto 20).
  destruct Hm as [Hm2 Hm11].
  destruct ex_physical_nodes as [Hnodes _]. rewrite <- Hnodes in Hm2, Hm11. clear Hnodes.
  exact (conj
    (C09_stale_source_order_in_physical ex_p 5 ex_es (Some 4) ex_e4 10 2 ex_tctx Hin eq_refl eq_refl
       Hp2 Hno Hm2 Hm11)
    (C09_stale_source_after_writes_in_physical ex_p 5 ex_es (Some 4) ex_e4 10 ex_e1 13
       ex_tctx ex_acyclic Hin eq_refl eq_refl Hin1 eq_refl eq_refl Hp1 Hm11)).
Qed.

(** Part A on the same plan: one step for the stale source 4 wires the Barrier (id 7) to the three
    predecessors 2, 1, 3 of node 4 and to the read node 6 *)
Example ex_sctx : sctx ex_p 5 ex_e4.
Proof.
  destruct ex_tctx as [Hwf [Hc [_ Hn]]].
  refine (conj Hwf (conj Hc (Hn ex_e4 _))). cbn. auto.
Qed.

Example ex_step_edges :
  pedges (add_value_store ex_p 5 ex_e4) =
  [ mke 0 1 (KPos 0); mke 1 2 (KPos 0); mke 2 3 (KPos 0); mke 1 3 KDep; mke 2 4 KDep; mke 1 4 KDep;
    mke 3 4 (KKw 0 0); mke 5 6 (KPos 0); mke 2 7 KDep; mke 1 7 KDep; mke 3 7 KDep; mke 7 6 KDep ].
Proof. vm_compute. reflexivity. Qed.

Example ex_step_barrier : In (mke 3 7 KDep) (pedges (add_value_store ex_p 5 ex_e4)).
Proof.
  apply (add_value_store_edges ex_p 5 ex_e4 _ ex_sctx).
  apply (AE_barrier ex_p 5 ex_e4 3); [reflexivity | reflexivity | cbn; auto 10].
Qed.

(** the converse on the example: the only argument edge into the original node 2 comes from the read node
    of entry 1 *)
Example ex_B2_converse :
  forall x, In x (pedges ex_q) -> edst x = 2 -> ekind x <> KDep -> x = mke 14 2 (KPos 0).
Proof.
  intros x Hx Hd Hk. rewrite ex_q_edges in Hx. cbn in Hx.
  repeat (destruct Hx as [<- | Hx]; [try reflexivity; try discriminate Hd; try (now contradiction Hk)|]).
  contradiction.
Qed.

(** ** B.7 the output node: a registered output is replaced by its read node, which survives pruning *)
Lemma redirect_registered : forall es c e ce,
  NoDup (map enode es) -> In (e, ce) (entry_ids c es) ->
  redirect c es (Some (enode e)) = Some (read_id ce).
Proof.
  unfold redirect. induction es as [|e0 es IH]; intros c e ce Hnd Hin; cbn [entry_ids] in *; [contradiction|].
  cbn [find fst]. cbn [map] in Hnd. inversion Hnd as [|? ? Hno Hnd']; subst.
  destruct Hin as [Heq | Hin].
  - inversion Heq; subst. now rewrite Nat.eqb_refl.
  - assert (Hne : enode e0 <> enode e).
    { intros Heq. apply Hno. rewrite Heq. now apply (entry_reg _ _ _ _ Hin). }
    apply Nat.eqb_neq in Hne. rewrite Hne. now apply IH.
Qed.

Lemma redirect_unregistered : forall es c o,
  ~ In o (map enode es) -> redirect c es (Some o) = Some o.
Proof.
  unfold redirect. induction es as [|e0 es IH]; intros c o Hno; cbn [entry_ids find fst]; [reflexivity|].
  assert (Hne : enode e0 <> o) by (intros H; apply Hno; cbn; now left).
  apply Nat.eqb_neq in Hne. rewrite Hne. apply IH. intros H. apply Hno. cbn. now right.
Qed.

Theorem C09_output_is_read_node p c es e ce :
  tctx p c es -> In (e, ce) (entry_ids c es) ->
  snd (physical p c es (Some (enode e))) = Some (read_id ce) /\
  In (read_id ce) (pnodes (fst (physical p c es (Some (enode e))))).
Proof.
  intros Ht Hin. pose proof Ht as [_ [_ [Hnd _]]].
  unfold physical. cbn [fst snd]. rewrite (redirect_registered es c e ce Hnd Hin). split; [reflexivity|].
  apply prune_keeps_output. apply (transform_nodes _ es p c Ht). right. exists e, ce. auto.
Qed.

Theorem C09_unregistered_output_kept p c es o :
  tctx p c es -> In o (pnodes p) -> ~ In o (map enode es) ->
  snd (physical p c es (Some o)) = Some o /\ In o (pnodes (fst (physical p c es (Some o)))).
Proof.
  intros Ht Ho Hno. unfold physical. cbn [fst snd]. rewrite (redirect_unregistered es c o Hno).
  split; [reflexivity|]. apply prune_keeps_output. apply (transform_nodes _ es p c Ht). now left.
Qed.

Example ex_B7 :
  snd (physical ex_p 5 ex_es (Some 4)) = Some 11 /\ In 11 (pnodes (fst (physical ex_p 5 ex_es (Some 4)))).
Proof.
  assert (Hin : In (ex_e4, 10) (entry_ids 5 ex_es)) by (cbn; auto).
  exact (C09_output_is_read_node ex_p 5 ex_es ex_e4 10 ex_tctx Hin).
Qed.
