(** Proofs about the L1 cache model: table fixpoint equations. *)
From Coq Require Import List Arith ZArith Bool Lia.
Import ListNotations.
From UJ Require Import Cache.Logical.

Lemma nth_error_firstn_lt {A} (l : list A) : forall n j, (j < n)%nat -> nth_error (firstn n l) j = nth_error l j.
Proof.
  induction l as [|h t IH]; intros [|n] [|j] H; cbn; auto; try lia. apply IH. lia.
Qed.

Section Tables.
  Context {A : Type}.
  Variable step : list A -> nat -> node -> A.

  Lemma build_app : forall p acc i, exists rest, build step acc i p = acc ++ rest /\ length rest = length p.
  Proof.
    induction p as [|nd p IH]; intros acc i; cbn.
    - exists []. rewrite app_nil_r. auto.
    - destruct (IH (acc ++ [step acc i nd]) (S i)) as (rest & E & L). rewrite E.
      exists (step acc i nd :: rest). rewrite <- app_assoc. cbn. split; auto.
  Qed.

  Lemma build_length p acc i : length (build step acc i p) = (length acc + length p)%nat.
  Proof. destruct (build_app p acc i) as (rest & -> & L). rewrite app_length. lia. Qed.

  Lemma table_length p : length (table step p) = length p.
  Proof. unfold table. rewrite build_length. reflexivity. Qed.

  Lemma build_prefix p acc i : firstn (length acc) (build step acc i p) = acc.
  Proof.
    destruct (build_app p acc i) as (rest & -> & _). rewrite firstn_app, Nat.sub_diag, firstn_all. cbn.
    apply app_nil_r.
  Qed.

  Lemma build_nth : forall p acc i k nd,
    length acc = i -> nth_error p k = Some nd ->
    nth_error (build step acc i p) (i + k) = Some (step (firstn (i + k) (build step acc i p)) (i + k)%nat nd).
  Proof.
    induction p as [|nd0 p IH]; intros acc i k nd Hl Hk; [destruct k; discriminate|].
    destruct k as [|k]; cbn in Hk.
    - inversion Hk; subst nd0. subst i. cbn [build]. rewrite Nat.add_0_r.
      assert (Hacc : firstn (length acc) (build step (acc ++ [step acc (length acc) nd]) (S (length acc)) p) = acc).
      { destruct (build_app p (acc ++ [step acc (length acc) nd]) (S (length acc))) as (rest & -> & _).
        rewrite <- app_assoc. rewrite firstn_app, Nat.sub_diag, firstn_all. cbn. apply app_nil_r. }
      rewrite Hacc.
      destruct (build_app p (acc ++ [step acc (length acc) nd]) (S (length acc))) as (rest & -> & _).
      rewrite <- app_assoc. rewrite nth_error_app2 by lia. rewrite Nat.sub_diag. reflexivity.
    - cbn [build]. replace (i + S k)%nat with (S i + k)%nat by lia. apply IH; auto.
      rewrite app_length. cbn. lia.
  Qed.

  (** [step] only inspects entries below the current index *)
  Definition local_on (p : plan) : Prop :=
    forall i nd acc acc', nth_error p i = Some nd ->
      (forall j, (j < i)%nat -> nth_error acc j = nth_error acc' j) -> step acc i nd = step acc' i nd.

  Lemma table_fix p : local_on p ->
    forall i nd, nth_error p i = Some nd -> nth_error (table step p) i = Some (step (table step p) i nd).
  Proof.
    intros Hloc i nd Hi. unfold table. pose proof (build_nth p [] 0%nat i nd eq_refl Hi) as H. cbn in H.
    rewrite H. f_equal. apply (Hloc i nd); auto. intros j Hj. apply nth_error_firstn_lt. exact Hj.
  Qed.
End Tables.

Lemma nth_of_nth_error {A} (l l' : list A) j d : nth_error l j = nth_error l' j -> nth j l d = nth j l' d.
Proof.
  intros H.
  destruct (nth_error l j) eqn:E1; destruct (nth_error l' j) eqn:E2; try discriminate.
  - inversion H; subst. rewrite (nth_error_nth l j d E1), (nth_error_nth l' j d E2). reflexivity.
  - apply nth_error_None in E1, E2. rewrite !nth_overflow by lia. reflexivity.
Qed.

Lemma map_ext_in_local {A B} (f g : A -> B) l : (forall x, In x l -> f x = g x) -> map f l = map g l.
Proof. apply map_ext_in. Qed.

Lemma existsb_ext_in {A} (f g : A -> bool) l : (forall x, In x l -> f x = g x) -> existsb f l = existsb g l.
Proof.
  induction l as [|h t IH]; intros H; cbn; auto. rewrite H by (left; auto). rewrite IH; auto.
  intros x Hx. apply H. right; auto.
Qed.

(** * smax *)
Lemma gt_opt_smax a b x : gt_opt (smax a b) x = gt_opt a x || gt_opt b x.
Proof.
  destruct a as [a|], b as [b|]; cbn; rewrite ?orb_false_r; auto.
  destruct (x <? a)%Z eqn:E1, (x <? b)%Z eqn:E2, (x <? Z.max a b)%Z eqn:E3; auto;
    rewrite ?Z.ltb_lt, ?Z.ltb_ge in *; lia.
Qed.
Lemma is_some_smax a b : is_some (smax a b) = is_some a || is_some b.
Proof. destruct a, b; reflexivity. Qed.
Lemma gt_opt_smax_list l x : gt_opt (smax_list l) x = existsb (fun o => gt_opt o x) l.
Proof. unfold smax_list. induction l as [|h t IH]; cbn [fold_right existsb]; [reflexivity|]. rewrite gt_opt_smax, IH. reflexivity. Qed.
Lemma is_some_smax_list l : is_some (smax_list l) = existsb is_some l.
Proof. unfold smax_list. induction l as [|h t IH]; cbn [fold_right existsb]; [reflexivity|]. rewrite is_some_smax, IH. reflexivity. Qed.

(** * Fixpoint equations of the three tables *)
Section Eqs.
  Variable F : nat -> list Z -> Z.
  Variables (reg : registry) (sg : sstate) (fresh : option Z) (p : plan).
  Hypothesis wf : wf_plan p.

  Lemma stale_local : local_on (stale_step reg sg fresh) p.
  Proof.
    intros i nd acc acc' Hi Hacc. unfold stale_step.
    assert (Hl : forall j, In j (preds_of nd) -> slook acc j = slook acc' j).
    { intros j Hj. unfold slook. apply nth_of_nth_error. apply Hacc. eapply wf; eauto. }
    rewrite (existsb_ext_in _ (fun j => fst (slook acc' j))) by (intros; rewrite Hl; auto).
    rewrite (map_ext_in _ (fun j => snd (slook acc' j))) by (intros; rewrite Hl; auto).
    reflexivity.
  Qed.

  Definition ST := stale_table reg sg fresh p.
  Definition stl (i : nat) : bool := fst (slook ST i).
  Definition mt (i : nat) : option Z := snd (slook ST i).

  Lemma stale_fix i nd : nth_error p i = Some nd -> slook ST i = stale_step reg sg fresh ST i nd.
  Proof.
    intros Hi. unfold slook at 1. erewrite nth_error_nth; [reflexivity|].
    apply (table_fix _ p stale_local i nd Hi).
  Qed.

  Lemma stl_is_stale i : stl i = is_stale reg sg fresh p i.
  Proof. reflexivity. Qed.

  Lemma slook_out i : (length p <= i)%nat -> slook ST i = (false, None).
  Proof. intros H. unfold slook. apply nth_overflow. unfold ST, stale_table. rewrite table_length. exact H. Qed.

  Lemma value_local : local_on (value_step F reg sg fresh p) p.
  Proof.
    intros i nd acc acc' Hi Hacc. unfold value_step, compute.
    assert (Hl : forall j, In j (args nd) -> vlook acc j = vlook acc' j).
    { intros j Hj. unfold vlook. apply nth_of_nth_error. apply Hacc. eapply wf; eauto.
      unfold preds_of. apply in_or_app. left. exact Hj. }
    rewrite (map_ext_in _ (vlook acc')) by auto. reflexivity.
  Qed.

  Lemma scratch_local : local_on (scratch_step F reg sg) p.
  Proof.
    intros i nd acc acc' Hi Hacc. unfold scratch_step, compute.
    assert (Hl : forall j, In j (args nd) -> vlook acc j = vlook acc' j).
    { intros j Hj. unfold vlook. apply nth_of_nth_error. apply Hacc. eapply wf; eauto.
      unfold preds_of. apply in_or_app. left. exact Hj. }
    rewrite (map_ext_in _ (vlook acc')) by auto. reflexivity.
  Qed.

  Lemma value_fix i nd : nth_error p i = Some nd ->
    value_of F reg sg fresh p i = value_step F reg sg fresh p (value_table F reg sg fresh p) i nd.
  Proof.
    intros Hi. unfold value_of. erewrite nth_error_nth; [reflexivity|].
    apply (table_fix _ p value_local i nd Hi).
  Qed.

  Lemma scratch_fix i nd : nth_error p i = Some nd ->
    scratch F reg sg p i = scratch_step F reg sg (scratch_table F reg sg p) i nd.
  Proof.
    intros Hi. unfold scratch. erewrite nth_error_nth; [reflexivity|].
    apply (table_fix _ p scratch_local i nd Hi).
  Qed.
End Eqs.
